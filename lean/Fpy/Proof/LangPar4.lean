/-
Heap-location parametricity, part 4: statements, and the theorem.
-/
import Fpy.Proof.LangPar3
namespace Fpy.Xform
open Fpy Fpy.Lang

theorem heapGet_some {μ : Heap} {r : Nat} {l : List Val} (h : heapGet μ r = .ok l) : μ[r]? = some l := by
  unfold heapGet at h
  cases e : μ[r]? with
  | none => rw [e] at h; cases h
  | some l' => rw [e] at h; cases h; rfl

theorem OR.normal {π : RMap} {D : List Nat} {d : Nat} {σ1 σ2 : Env} (h : ER π D d σ1 σ2) : OR π D d (.normal σ1) (.normal σ2) := h
theorem OR.ret {π : RMap} {D : List Nat} {d : Nat} {v w : Val} (h : VR π D d v w) : OR π D d (.ret v) (.ret w) := h

theorem par_evalB_step {Φ : Funs} {π : RMap} {D : List Nat} {n : Nat} (ih : ParAt Φ π D n) :
    ∀ d σ1 σ2 μ1 μ2 C ss, d ≤ μ1.length → ER π D d σ1 σ2 → HR π D μ1 μ2 →
      RelM (QS π D μ1 μ2) (evalB Φ (n+1) σ1 μ1 C ss) (evalB Φ (n+1) σ2 μ2 C ss) := by
  intro d σ1 σ2 μ1 μ2 C ss hd henv hh
  cases ss with
  | nil => simp only [evalB]; exact ⟨OR.normal (henv.mono hd), hh, ExtP.refl hh⟩
  | cons s ss =>
    simp only [evalB]
    refine RelM.bind (ih.evalS d σ1 σ2 μ1 μ2 C s hd henv hh) ?_
    rintro ⟨o1, m1⟩ ⟨o2, m2⟩ ⟨ho, hh1, hx⟩
    dsimp only at ho hh1 hx ⊢
    cases o1 <;> cases o2 <;> simp only [OR] at ho
    · exact QS.rebase hx (ih.evalB m1.length _ _ m1 m2 C ss (Nat.le_refl _) ho hh1)
    · exact ⟨OR.ret ho, hh1, hx⟩

theorem par_forLoop_step {Φ : Funs} {π : RMap} {D : List Nat} {n : Nat} (ih : ParAt Φ π D n) :
    ∀ d σ1 σ2 μ1 μ2 C r i p body, d ≤ μ1.length → ER π D d σ1 σ2 → HR π D μ1 μ2 → r ∉ D →
      RelM (QS π D μ1 μ2) (forLoop Φ (n+1) σ1 μ1 C r i p body) (forLoop Φ (n+1) σ2 μ2 C (π r) i p body) := by
  intro d σ1 σ2 μ1 μ2 C r i p body hd henv hh hrd
  simp only [forLoop]
  refine RelM.bind (heapGet_rel hh r hrd) ?_
  intro l1 l2 hl
  have hi := VRs.get hl i
  cases e1 : l1[i]? <;> cases e2 : l2[i]? <;> rw [e1, e2] at hi <;> simp only [ORel] at hi
  · exact ⟨OR.normal (henv.mono hd), hh, ExtP.refl hh⟩
  · rename_i x1 x2
    dsimp only
    refine RelM.bind (bindPat_rel n p x1 x2 σ1 σ2 (henv.mono hd) hi) ?_
    intro σ1' σ2' henv'
    refine RelM.bind (ih.evalB μ1.length σ1' σ2' μ1 μ2 C body (Nat.le_refl _) henv' hh) ?_
    rintro ⟨o1, m1⟩ ⟨o2, m2⟩ ⟨ho, hh1, hx⟩
    dsimp only at ho hh1 hx ⊢
    cases o1 <;> cases o2 <;> simp only [OR] at ho
    · exact QS.rebase hx (ih.forLoop m1.length _ _ m1 m2 C r (i + 1) p body (Nat.le_refl _) ho hh1 hrd)
    · exact ⟨OR.ret ho, hh1, hx⟩

theorem par_evalS_step {Φ : Funs} {π : RMap} {D : List Nat} {n : Nat} (ih : ParAt Φ π D n) :
    ∀ d σ1 σ2 μ1 μ2 C s, d ≤ μ1.length → ER π D d σ1 σ2 → HR π D μ1 μ2 →
      RelM (QS π D μ1 μ2) (evalS Φ (n+1) σ1 μ1 C s) (evalS Φ (n+1) σ2 μ2 C s) := by
  intro d σ1 σ2 μ1 μ2 C s hd henv hh
  cases s with
  | assign p e =>
    simp only [evalS]
    refine RelM.bind (ih.evalE d σ1 σ2 μ1 μ2 C e hd henv hh) ?_
    rintro ⟨v1, m1⟩ ⟨v2, m2⟩ ⟨hv, hh1, hx⟩
    dsimp only at hv hh1 hx ⊢
    refine RelM.bind (bindPat_rel n p v1 v2 σ1 σ2 (henv.mono (Nat.le_trans hd hx.e1.le)) hv) ?_
    intro σ1' σ2' henv'
    exact ⟨OR.normal henv', hh1, hx⟩
  | iassign x idxs e =>
    simp only [evalS]
    refine RelM.bind (ih.evalE d σ1 σ2 μ1 μ2 C e hd henv hh) ?_
    rintro ⟨v1, m1⟩ ⟨v2, m2⟩ ⟨hv, hh1, hx⟩
    dsimp only at hv hh1 hx ⊢
    refine RelM.bind (ih.evalEs d σ1 σ2 m1 m2 C idxs (Nat.le_trans hd hx.e1.le) henv hh1) ?_
    rintro ⟨ivs1, m1'⟩ ⟨ivs2, m2'⟩ ⟨hivs, hh2, hy⟩
    dsimp only at hivs hh2 hy ⊢
    rw [mapM_rel asIndex (fun _ _ h => asIndex_rel h) hivs]
    refine RelM.bind_same ?_; intro ks
    have hle : d ≤ m1'.length := Nat.le_trans hd (hx.trans hy).e1.le
    have hbase := henv x
    cases e1 : σ1.get? x <;> cases e2 : σ2.get? x <;> rw [e1, e2] at hbase <;> simp only [ORel] at hbase
    · exact rfl
    · rename_i base1 base2
      dsimp only
      refine RelM.bind (walk_rel hh2 ks base1 base2 (hbase.mono hle)) ?_
      rintro ⟨r, k⟩ ⟨r', k'⟩ ⟨hrk, hrd⟩
      cases hrk
      dsimp only at hrd ⊢
      have hg := heapGet_rel hh2 r hrd
      cases g1 : heapGet m1' r <;> cases g2 : heapGet m2' (π r) <;> rw [g1, g2] at hg <;> simp only [RelM] at hg
      · subst hg; exact rfl
      · rename_i l1 l2
        show RelM _ (if k < l1.length then _ else _) (if k < l2.length then _ else _)
        rw [VRs.length_eq hg]
        split
        · exact ⟨OR.normal (henv.mono (by simpa [heapSet] using hle)),
            by simpa [heapSet] using (HR.set hh2 (r := r) hrd (VRs.set (hv.mono hy.e1.le) k hg)),
            (hx.trans hy).trans (ExtP.set hh2 hrd (heapGet_some g1) (heapGet_some g2) (by simp) (by simp))⟩
        · exact rfl
  | ifte c t f =>
    simp only [evalS]
    refine RelM.bind (ih.evalE d σ1 σ2 μ1 μ2 C c hd henv hh) ?_
    rintro ⟨v1, m1⟩ ⟨v2, m2⟩ ⟨hv, hh1, hx⟩
    dsimp only at hv hh1 hx ⊢
    rw [asBool_rel hv]
    refine RelM.bind_same ?_; intro b
    split
    · exact QS.rebase hx (ih.evalB d σ1 σ2 m1 m2 C t (Nat.le_trans hd hx.e1.le) henv hh1)
    · exact QS.rebase hx (ih.evalB d σ1 σ2 m1 m2 C f (Nat.le_trans hd hx.e1.le) henv hh1)
  | if1 c t =>
    simp only [evalS]
    refine RelM.bind (ih.evalE d σ1 σ2 μ1 μ2 C c hd henv hh) ?_
    rintro ⟨v1, m1⟩ ⟨v2, m2⟩ ⟨hv, hh1, hx⟩
    dsimp only at hv hh1 hx ⊢
    rw [asBool_rel hv]
    refine RelM.bind_same ?_; intro b
    split
    · exact QS.rebase hx (ih.evalB d σ1 σ2 m1 m2 C t (Nat.le_trans hd hx.e1.le) henv hh1)
    · exact ⟨OR.normal (henv.mono (Nat.le_trans hd hx.e1.le)), hh1, hx⟩
  | «while» c b =>
    simp only [evalS]
    refine RelM.bind (ih.evalE d σ1 σ2 μ1 μ2 C c hd henv hh) ?_
    rintro ⟨v1, m1⟩ ⟨v2, m2⟩ ⟨hv, hh1, hx⟩
    dsimp only at hv hh1 hx ⊢
    rw [asBool_rel hv]
    refine RelM.bind_same ?_; intro bb
    split
    · refine RelM.bind (ih.evalB d σ1 σ2 m1 m2 C b (Nat.le_trans hd hx.e1.le) henv hh1) ?_
      rintro ⟨o1, m1'⟩ ⟨o2, m2'⟩ ⟨ho, hh2, hy⟩
      dsimp only at ho hh2 hy ⊢
      cases o1 <;> cases o2 <;> simp only [OR] at ho
      · exact QS.rebase (hx.trans hy)
          (ih.evalS m1'.length _ _ m1' m2' C (.while c b) (Nat.le_refl _) ho hh2)
      · exact ⟨OR.ret ho, hh2, hx.trans hy⟩
    · exact ⟨OR.normal (henv.mono (Nat.le_trans hd hx.e1.le)), hh1, hx⟩
  | «for» p it b =>
    simp only [evalS]
    refine RelM.bind (ih.evalE d σ1 σ2 μ1 μ2 C it hd henv hh) ?_
    rintro ⟨iv1, m1⟩ ⟨iv2, m2⟩ ⟨hiv, hh1, hx⟩
    dsimp only at hiv hh1 hx ⊢
    rcases VR.inv hiv with ⟨hf, rfl⟩ | ⟨xs, ys, rfl, rfl, _⟩ | ⟨r, rfl, rfl, _, hrd⟩
    · cases iv2 <;> first | exact rfl | exact absurd hf (by simp [flatV])
    · exact rfl
    · exact QS.rebase hx (ih.forLoop d σ1 σ2 m1 m2 C r 0 p b (Nat.le_trans hd hx.e1.le) henv hh1 hrd)
  | «with» ce nm b =>
    simp only [evalS]
    refine RelM.bind (ih.evalE d σ1 σ2 μ1 μ2 .real ce hd henv hh) ?_
    rintro ⟨cv1, m1⟩ ⟨cv2, m2⟩ ⟨hcv, hh1, hx⟩
    dsimp only at hcv hh1 hx ⊢
    rcases VR.inv hcv with ⟨hf, rfl⟩ | ⟨xs, ys, rfl, rfl, _⟩ | ⟨r, rfl, rfl, _⟩
    · cases cv2 with
      | bool _ => exact rfl
      | num _ => exact rfl
      | tuple _ => exact rfl
      | list _ => exact rfl
      | ctx C' =>
        refine QS.rebase hx (ih.evalB m1.length _ _ m1 m2 C' b (Nat.le_refl _) ?_ hh1)
        have he := henv.mono (Nat.le_trans hd hx.e1.le)
        cases nm with
        | none => exact he
        | some x => exact he.set x (VR.ctx' _ _ _ _)
    · exact rfl
    · exact rfl
  | assert e =>
    simp only [evalS]
    refine RelM.bind (ih.evalE d σ1 σ2 μ1 μ2 C e hd henv hh) ?_
    rintro ⟨v1, m1⟩ ⟨v2, m2⟩ ⟨hv, hh1, hx⟩
    dsimp only at hv hh1 hx ⊢
    rw [asBool_rel hv]
    refine RelM.bind_same ?_; intro b
    split
    · exact ⟨OR.normal (henv.mono (Nat.le_trans hd hx.e1.le)), hh1, hx⟩
    · exact rfl
  | effect e =>
    simp only [evalS]
    refine RelM.bind (ih.evalE d σ1 σ2 μ1 μ2 C e hd henv hh) ?_
    rintro ⟨v1, m1⟩ ⟨v2, m2⟩ ⟨hv, hh1, hx⟩
    exact ⟨OR.normal (henv.mono (Nat.le_trans hd hx.e1.le)), hh1, hx⟩
  | ret e =>
    simp only [evalS]
    refine RelM.bind (ih.evalE d σ1 σ2 μ1 μ2 C e hd henv hh) ?_
    rintro ⟨v1, m1⟩ ⟨v2, m2⟩ ⟨hv, hh1, hx⟩
    exact ⟨OR.ret hv, hh1, hx⟩
  | pass => simp only [evalS]; exact ⟨OR.normal (henv.mono hd), hh, ExtP.refl hh⟩

/-- HEAP-LOCATION PARAMETRICITY: at every fuel, every evaluator function maps `π`-related states to
`π`-related results (same error, or related values / outcomes and related heaps), and each heap only
grows, keeping the length of every existing cell. -/
theorem parAt (Φ : Funs) (π : RMap) (D : List Nat) : ∀ n, ParAt Φ π D n := by
  intro n
  induction n with
  | zero => constructor <;> intros <;> exact rfl
  | succ n ih =>
    exact ⟨par_evalE_step ih, par_evalEs_step ih, par_evalChain_step ih, par_evalAnd_step ih, par_evalOr_step ih,
      par_evalComp_step ih, par_compLoop_step ih, par_evalS_step ih, par_forLoop_step ih, par_evalB_step ih⟩

end Fpy.Xform
