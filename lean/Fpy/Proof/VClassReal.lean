/-
The exact `RealEngine` (what the interpreter computes under `fp.REAL`, where `_rounded` keeps the
exact class) on interpreter values — Floats AND non-dyadic Fractions — is abstracted soundly by
`_exact_add` / `_exact_mul` / the identity for negation.
-/
import Fpy.Proof.VClass
namespace Fpy.C13
open Fpy VC

/-- a `Fraction` operand as the interpreter holds it: lowest terms, non-dyadic; all that matters here
is that it is not zero and its denominator is positive -/
def WFq : NV → Prop
  | .q n d => n ≠ 0 ∧ d ≠ 0
  | .fv _ => True

theorem int_div_gcd_ne_zero (num : Int) (den : Nat) (h : num ≠ 0) :
    num / ((Nat.gcd num.natAbs den : Nat) : Int) ≠ 0 := by
  have hg : ((Nat.gcd num.natAbs den : Nat) : Int) ∣ num :=
    Int.ofNat_dvd_left.mpr (Nat.gcd_dvd_left _ _)
  intro h0
  have := Int.ediv_mul_cancel hg
  rw [h0] at this
  simp at this
  exact h this.symm

theorem classOfNV_frac_cases (a : Int) (b : Nat) :
    classOfNV (NV.frac a b) = .zero ∨ classOfNV (NV.frac a b) = .fin := by
  simp only [NV.frac, classOfNV]; split <;> simp

theorem classOfNV_frac_nz (a : Int) (b : Nat) (h : a ≠ 0) : classOfNV (NV.frac a b) = .fin := by
  simp only [NV.frac, classOfNV]
  have := int_div_gcd_ne_zero a b h
  simp [this]

theorem toRat_fst_zero {x : RF} (h : x.c = 0) : x.toRat.1 = 0 := by
  simp only [RF.toRat, h]; split <;> split <;> simp

theorem toRat_fst_ne_zero {x : RF} (h : x.c ≠ 0) : x.toRat.1 ≠ 0 := by
  have hm : (if x.s = true then -(x.c : Int) else (x.c : Int)) ≠ 0 := by
    split <;> omega
  have hp : ((2 : Int) ^ x.exp.toNat) ≠ 0 := Int.pow_ne_zero (by decide)
  simp only [RF.toRat]
  split
  · exact Int.mul_ne_zero hm hp
  · exact hm

theorem toRat_snd_ne_zero (x : RF) : x.toRat.2 ≠ 0 := by
  simp only [RF.toRat]
  split
  · simp
  · exact Nat.ne_of_gt (Nat.pow_pos (by decide))

theorem has_zf_of_cases {c : Cls} (h : c = .zero ∨ c = .fin) : (ZERO ||| FINITE).has c = true := by
  rcases h with h | h <;> rw [h] <;> decide

/-! reduction equations of `RealEngine.add` -/
theorem realAdd_nan_left (s : Bool) (y : NV) : realAdd (.fv (.nan s)) y = .fv (.nan false) := by
  simp [realAdd, nvIsNan, FV.isNan]
theorem realAdd_nan_right (x : NV) (s : Bool) : realAdd x (.fv (.nan s)) = .fv (.nan false) := by
  simp [realAdd, nvIsNan, FV.isNan]
theorem realAdd_inf_inf (s t : Bool) :
    realAdd (.fv (.inf s)) (.fv (.inf t)) = if s == t then .fv (.inf s) else .fv (.nan false) := by
  simp [realAdd, nvIsNan, nvIsInf, nvSign, FV.isNan, FV.isInf, FV.sign]
theorem realAdd_inf_fin (s : Bool) (b : RF) : realAdd (.fv (.inf s)) (.fv (.fin b)) = .fv (.inf s) := by
  simp [realAdd, nvIsNan, nvIsInf, nvSign, FV.isNan, FV.isInf, FV.sign]
theorem realAdd_inf_q (s : Bool) (n : Int) (d : Nat) : realAdd (.fv (.inf s)) (.q n d) = .fv (.inf s) := by
  simp [realAdd, nvIsNan, nvIsInf, nvSign, FV.isNan, FV.isInf, FV.sign]
theorem realAdd_fin_inf (a : RF) (t : Bool) : realAdd (.fv (.fin a)) (.fv (.inf t)) = .fv (.inf t) := by
  simp [realAdd, nvIsNan, nvIsInf, nvSign, FV.isNan, FV.isInf, FV.sign]
theorem realAdd_q_inf (n : Int) (d : Nat) (t : Bool) : realAdd (.q n d) (.fv (.inf t)) = .fv (.inf t) := by
  simp [realAdd, nvIsNan, nvIsInf, nvSign, FV.isNan, FV.isInf, FV.sign]
theorem realAdd_fin_fin (a b : RF) : realAdd (.fv (.fin a)) (.fv (.fin b)) = .fv (.fin (a.add b)) := by
  simp [realAdd, nvIsNan, nvIsInf, FV.isNan, FV.isInf]
theorem realAdd_fin_q (a : RF) (n : Int) (d : Nat) :
    realAdd (.fv (.fin a)) (.q n d) = NV.frac (a.toRat.1 * d + n * a.toRat.2) (a.toRat.2 * d) := by
  simp [realAdd, nvIsNan, nvIsInf, FV.isNan, FV.isInf, ratAdd, nvRat]
theorem realAdd_q_fin (n : Int) (d : Nat) (b : RF) :
    realAdd (.q n d) (.fv (.fin b)) = NV.frac (n * b.toRat.2 + b.toRat.1 * d) (d * b.toRat.2) := by
  simp [realAdd, nvIsNan, nvIsInf, FV.isNan, FV.isInf, ratAdd, nvRat]
theorem realAdd_q_q (n : Int) (d : Nat) (m : Int) (e : Nat) :
    realAdd (.q n d) (.q m e) = NV.frac (n * e + m * d) (d * e) := by
  simp [realAdd, nvIsNan, nvIsInf, ratAdd, nvRat]

theorem cls_fv (v : FV) : classOfNV (.fv v) = classOf v := rfl
theorem cls_q {n : Int} (d : Nat) (h : n ≠ 0) : classOfNV (.q n d) = .fin := by simp [classOfNV, h]

/-- `RealEngine.add` -/
theorem nv_add_class (x y : NV) (hx : WFq x) (hy : WFq y) :
    (addAtoms (classOfNV x) (classOfNV y)).has (classOfNV (realAdd x y)) = true := by
  cases x with
  | fv u =>
    cases y with
    | fv v =>
      cases u with
      | nan s => rw [realAdd_nan_left]; simp only [cls_fv, classOf_nan]; cases classOf v <;> decide
      | inf s =>
        cases v with
        | nan t => rw [realAdd_nan_right]; rfl
        | inf t => rw [realAdd_inf_inf]; cases s <;> cases t <;> decide
        | fin b =>
          rw [realAdd_inf_fin]; simp only [cls_fv, classOf_inf]
          rcases classOf_fin_cases b with h | h <;> rw [h] <;> decide
      | fin a =>
        cases v with
        | nan t =>
          rw [realAdd_nan_right]; simp only [cls_fv, classOf_nan]
          rcases classOf_fin_cases a with h | h <;> rw [h] <;> decide
        | inf t =>
          rw [realAdd_fin_inf]; simp only [cls_fv, classOf_inf]
          rcases classOf_fin_cases a with h | h <;> rw [h] <;> decide
        | fin b => rw [realAdd_fin_fin]; exact rf_add_class a b
    | q n d =>
      obtain ⟨hn, hd⟩ := hy
      rw [cls_q d hn]
      cases u with
      | nan s => rw [realAdd_nan_left]; rfl
      | inf s => rw [realAdd_inf_q]; rfl
      | fin a =>
        rw [realAdd_fin_q, cls_fv]
        by_cases ha : a.c = 0
        · rw [classOf_fin_zero ha, toRat_fst_zero ha,
            classOfNV_frac_nz _ _ (by
              simp only [Int.zero_mul, Int.zero_add]
              exact Int.mul_ne_zero hn (by exact_mod_cast toRat_snd_ne_zero a))]
          decide
        · rw [classOf_fin_nz ha]
          exact has_zf_of_cases (classOfNV_frac_cases _ _)
  | q n d =>
    obtain ⟨hn, hd⟩ := hx
    rw [cls_q d hn]
    cases y with
    | fv v =>
      cases v with
      | nan s => rw [realAdd_nan_right]; rfl
      | inf s => rw [realAdd_q_inf]; rfl
      | fin b =>
        rw [realAdd_q_fin, cls_fv]
        by_cases hb : b.c = 0
        · rw [classOf_fin_zero hb, toRat_fst_zero hb,
            classOfNV_frac_nz _ _ (by
              simp only [Int.zero_mul, Int.add_zero]
              exact Int.mul_ne_zero hn (by exact_mod_cast toRat_snd_ne_zero b))]
          decide
        · rw [classOf_fin_nz hb]
          exact has_zf_of_cases (classOfNV_frac_cases _ _)
    | q m e =>
      obtain ⟨hm, he⟩ := hy
      rw [cls_q e hm, realAdd_q_q]
      exact has_zf_of_cases (classOfNV_frac_cases _ _)

/-- `RealEngine.neg` keeps the class -/
theorem nv_neg_class (x : NV) : classOfNV (realNeg x) = classOfNV x := by
  cases x with
  | fv v => simp [realNeg, classOfNV, classOf_neg]
  | q n d => simp [realNeg, classOfNV]

/-! reduction equations of `RealEngine.mul` -/
theorem realMul_nan_left (s : Bool) (y : NV) : realMul (.fv (.nan s)) y = .fv (.nan false) := by
  simp [realMul, nvIsNan, FV.isNan]
theorem realMul_nan_right (x : NV) (s : Bool) : realMul x (.fv (.nan s)) = .fv (.nan false) := by
  simp [realMul, nvIsNan, FV.isNan]
theorem realMul_inf_left (s : Bool) (y : NV) (hy : nvIsNan y = false) :
    realMul (.fv (.inf s)) y = if nvIsZero y then .fv (.nan false) else .fv (.inf (s != nvSign y)) := by
  unfold realMul; rw [hy]
  simp [nvIsNan, nvIsInf, nvSign, FV.isNan, FV.isInf, FV.sign]
theorem realMul_inf_right (x : NV) (t : Bool) (hx : nvIsNan x = false) (hi : nvIsInf x = false) :
    realMul x (.fv (.inf t)) = if nvIsZero x then .fv (.nan false) else .fv (.inf (nvSign x != t)) := by
  unfold realMul; rw [hx, hi]
  simp [nvIsNan, nvIsInf, nvSign, FV.isNan, FV.isInf, FV.sign]
theorem realMul_zero (x y : NV) (hx : nvIsNar x = false) (hy : nvIsNar y = false)
    (hz : (nvIsZero x || nvIsZero y) = true) : realMul x y = .fv (.fin ⟨nvSign x != nvSign y, 0, 0⟩) := by
  have h1 : nvIsNan x = false := by cases x with | fv v => cases v <;> simp_all [nvIsNar, nvIsNan, FV.isNar, FV.isNan] | q n d => rfl
  have h2 : nvIsNan y = false := by cases y with | fv v => cases v <;> simp_all [nvIsNar, nvIsNan, FV.isNar, FV.isNan] | q n d => rfl
  have h3 : nvIsInf x = false := by cases x with | fv v => cases v <;> simp_all [nvIsNar, nvIsInf, FV.isNar, FV.isInf] | q n d => rfl
  have h4 : nvIsInf y = false := by cases y with | fv v => cases v <;> simp_all [nvIsNar, nvIsInf, FV.isNar, FV.isInf] | q n d => rfl
  simp only [realMul, h1, h2, h3, h4, hz]; simp
theorem realMul_fin_fin (a b : RF) (ha : a.c ≠ 0) (hb : b.c ≠ 0) :
    realMul (.fv (.fin a)) (.fv (.fin b)) = .fv (.fin (a.mul b)) := by
  simp [realMul, nvIsNan, nvIsInf, nvIsZero, FV.isNan, FV.isInf, FV.isZero, ha, hb]
theorem realMul_fin_q (a : RF) (n : Int) (d : Nat) (ha : a.c ≠ 0) (hn : n ≠ 0) :
    realMul (.fv (.fin a)) (.q n d) = NV.frac (a.toRat.1 * n) (a.toRat.2 * d) := by
  simp [realMul, nvIsNan, nvIsInf, nvIsZero, FV.isNan, FV.isInf, FV.isZero, ratMul, nvRat, ha, hn]
theorem realMul_q_fin (n : Int) (d : Nat) (b : RF) (hb : b.c ≠ 0) (hn : n ≠ 0) :
    realMul (.q n d) (.fv (.fin b)) = NV.frac (n * b.toRat.1) (d * b.toRat.2) := by
  simp [realMul, nvIsNan, nvIsInf, nvIsZero, FV.isNan, FV.isInf, FV.isZero, ratMul, nvRat, hb, hn]
theorem realMul_q_q (n : Int) (d : Nat) (m : Int) (e : Nat) (hn : n ≠ 0) (hm : m ≠ 0) :
    realMul (.q n d) (.q m e) = NV.frac (n * m) (d * e) := by
  simp [realMul, nvIsNan, nvIsInf, nvIsZero, ratMul, nvRat, hn, hm]

theorem cls_zero_fin : classOfNV (.fv (.fin ⟨s, 0, 0⟩)) = .zero := rfl

/-- `RealEngine.mul` -/
theorem nv_mul_class (x y : NV) (hx : WFq x) (hy : WFq y) :
    (mulAtoms (classOfNV x) (classOfNV y)).has (classOfNV (realMul x y)) = true := by
  cases x with
  | fv u =>
    cases u with
    | nan s => rw [realMul_nan_left]; simp only [cls_fv, classOf_nan]; cases classOfNV y <;> decide
    | inf s =>
      cases y with
      | fv v =>
        cases v with
        | nan t => rw [realMul_nan_right]; rfl
        | inf t => rw [realMul_inf_left _ _ rfl]; simp [nvIsZero, FV.isZero]; rfl
        | fin b =>
          rw [realMul_inf_left _ _ rfl, cls_fv, cls_fv]
          by_cases hb : b.c = 0
          · rw [classOf_fin_zero hb]; simp [nvIsZero, FV.isZero, hb]; decide
          · rw [classOf_fin_nz hb]; simp [nvIsZero, FV.isZero, hb]; rfl
      | q n d =>
        obtain ⟨hn, hd⟩ := hy
        rw [realMul_inf_left _ _ rfl, cls_q d hn]; simp [nvIsZero, hn]; rfl
    | fin a =>
      cases y with
      | fv v =>
        cases v with
        | nan t =>
          rw [realMul_nan_right]; simp only [cls_fv, classOf_nan]
          rcases classOf_fin_cases a with h | h <;> rw [h] <;> decide
        | inf t =>
          rw [realMul_inf_right _ _ rfl rfl, cls_fv, cls_fv]
          by_cases ha : a.c = 0
          · rw [classOf_fin_zero ha]; simp [nvIsZero, FV.isZero, ha]; decide
          · rw [classOf_fin_nz ha]; simp [nvIsZero, FV.isZero, ha]; rfl
        | fin b =>
          rw [cls_fv, cls_fv]
          by_cases ha : a.c = 0
          · rw [realMul_zero _ _ rfl rfl (by simp [nvIsZero, FV.isZero, ha]), classOf_fin_zero ha, cls_zero_fin]
            rcases classOf_fin_cases b with h | h <;> rw [h] <;> decide
          · by_cases hb : b.c = 0
            · rw [realMul_zero _ _ rfl rfl (by simp [nvIsZero, FV.isZero, hb]), classOf_fin_zero hb, cls_zero_fin]
              rcases classOf_fin_cases a with h | h <;> rw [h] <;> decide
            · rw [realMul_fin_fin a b ha hb, classOf_fin_nz ha, classOf_fin_nz hb, cls_fv,
                classOf_fin_nz (by simp only [RF.mul]; simp [ha, hb, Nat.mul_eq_zero])]
              decide
      | q n d =>
        obtain ⟨hn, hd⟩ := hy
        rw [cls_q d hn, cls_fv]
        by_cases ha : a.c = 0
        · rw [realMul_zero _ _ rfl rfl (by simp [nvIsZero, FV.isZero, ha]), classOf_fin_zero ha, cls_zero_fin]; decide
        · rw [realMul_fin_q a n d ha hn, classOf_fin_nz ha,
            classOfNV_frac_nz _ _ (Int.mul_ne_zero (toRat_fst_ne_zero ha) hn)]; decide
  | q n d =>
    obtain ⟨hn, hd⟩ := hx
    rw [cls_q d hn]
    cases y with
    | fv v =>
      cases v with
      | nan s => rw [realMul_nan_right]; rfl
      | inf s => rw [realMul_inf_right _ _ rfl rfl]; simp [nvIsZero, hn]; rfl
      | fin b =>
        rw [cls_fv]
        by_cases hb : b.c = 0
        · rw [realMul_zero _ _ rfl rfl (by simp [nvIsZero, FV.isZero, hb]), classOf_fin_zero hb, cls_zero_fin]; decide
        · rw [realMul_q_fin n d b hb hn, classOf_fin_nz hb,
            classOfNV_frac_nz _ _ (Int.mul_ne_zero hn (toRat_fst_ne_zero hb))]; decide
    | q m e =>
      obtain ⟨hm, he⟩ := hy
      rw [cls_q e hm, realMul_q_q n d m e hn hm, classOfNV_frac_nz _ _ (Int.mul_ne_zero hn hm)]; decide

end Fpy.C13
