/-
Part 16 of the value-level helpers for C01: a fraction in lowest terms whose denominator is not a
power of two lies on no binary grid — so its rounding is always flagged inexact.
-/
import Fpy.Proof.RoundValRat4
namespace Fpy.C01v
open Fpy Fpy.Spec

theorem dvd_two_pow (j : Nat) : ∀ d : Nat, d ∣ 2 ^ j → ∃ i, d = 2 ^ i := by
  induction j with
  | zero => intro d h; exact ⟨0, by simpa using h⟩
  | succ j ih =>
    intro d h
    rw [Nat.pow_succ] at h
    by_cases h2 : 2 ∣ d
    · obtain ⟨d', rfl⟩ := h2
      rw [Nat.mul_comm (2 ^ j) 2] at h
      have : d' ∣ 2 ^ j := Nat.dvd_of_mul_dvd_mul_left (by decide : 0 < 2) h
      obtain ⟨i, rfl⟩ := ih d' this
      exact ⟨i + 1, by rw [Nat.pow_succ, Nat.mul_comm]⟩
    · have hg : Nat.Coprime d 2 := by
        unfold Nat.Coprime
        have a := Nat.gcd_dvd_left d 2
        have b := Nat.gcd_dvd_right d 2
        have c := Nat.le_of_dvd (by decide) b
        have hz : Nat.gcd d 2 ≠ 0 := by
          intro hz; rw [hz] at b; simp at b
        rcases (by omega : Nat.gcd d 2 = 1 ∨ Nat.gcd d 2 = 2) with e | e
        · exact e
        · rw [e] at a; exact absurd a h2
      exact ih d (hg.dvd_of_dvd_mul_right h)

theorem isPow2_two_pow (i : Nat) : isPow2 (2 ^ i) = true := by
  unfold isPow2
  have : 2 ^ i ≠ 0 := Nat.ne_of_gt (Nat.pow_pos (by decide))
  simp [Nat.log2_two_pow, this]

/-- a fraction in lowest terms with a non-power-of-two denominator is on no binary grid -/
theorem not_onGrid_frac (num : Int) (den : Nat) (hden : 0 < den) (hcop : Nat.gcd num.natAbs den = 1)
    (h2 : isPow2 den = false) (u : Int) : ¬ OnGrid u ((num : Rat) / (den : Rat)) := by
  rintro ⟨m, hm⟩
  have hD0 : (den : Rat) ≠ 0 := Rat.ne_of_gt (natCast_pos' hden)
  have hnum : (num : Rat) = (m : Rat) * (2 : Rat) ^ u * (den : Rat) := by
    rw [← hm]; exact (Rat.div_mul_cancel hD0).symm
  -- den ∣ |num| · 2^j for some j
  have hdvd : ∃ j : Nat, den ∣ num.natAbs * 2 ^ j := by
    by_cases hu : u ≥ 0
    · have : u = ((u.toNat : Nat) : Int) := by omega
      generalize u.toNat = j at this
      rw [this, RF.two_zpow_nat', ← Rat.intCast_mul, ← Rat.intCast_natCast den, ← Rat.intCast_mul,
        Rat.intCast_inj] at hnum
      refine ⟨0, ?_⟩
      rw [hnum, Int.natAbs_mul, Int.natAbs_natCast, Nat.pow_zero, Nat.mul_one]
      exact Nat.dvd_mul_left _ _
    · have : u = -(((-u).toNat : Nat) : Int) := by omega
      generalize (-u).toNat = j at this
      have hP : (((2 : Int) ^ j : Int) : Rat) ≠ 0 := by
        rw [← RF.two_zpow_nat']; exact RF.two_zpow_ne _
      have e : (num : Rat) * (((2 : Int) ^ j : Int) : Rat) = (m : Rat) * (den : Rat) := by
        rw [hnum, this, Rat.zpow_neg, RF.two_zpow_nat']
        generalize (((2 : Int) ^ j : Int) : Rat) = P at *
        have := Rat.inv_mul_cancel P hP
        grind
      rw [← Rat.intCast_mul, ← Rat.intCast_natCast den, ← Rat.intCast_mul, Rat.intCast_inj] at e
      refine ⟨j, ?_⟩
      have := congrArg Int.natAbs e
      rw [Int.natAbs_mul, Int.natAbs_mul, Int.natAbs_natCast, Int.natAbs_pow] at this
      simp only [Int.reduceAbs] at this
      rw [this]; exact Nat.dvd_mul_left _ _
  obtain ⟨j, hj⟩ := hdvd
  have hc : Nat.Coprime den num.natAbs := by unfold Nat.Coprime; rw [Nat.gcd_comm]; exact hcop
  obtain ⟨i, hi⟩ := dvd_two_pow j den (hc.dvd_of_dvd_mul_left hj)
  rw [hi, isPow2_two_pow] at h2
  cases h2

end Fpy.C01v
