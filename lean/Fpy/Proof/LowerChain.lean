/-
C10 helper lemmas: `float_to_fixed` on an unbounded float source, and the composed recipe
`unfold_overflow → float_to_fixed → rescale_fixed`.
-/
import Fpy.Proof.LowerMisc
namespace Fpy.C10
open Fpy Fpy.Spec

/-! ### fixed-point rounding never crosses a power of two on its grid -/

/-- rounding at position `n` an operand below `2^E` (`E` on the grid: `n + 1 ≤ E`) gives at most `2^E`:
the result is not past the bound `±2^E`, in any mode -/
theorem round_fixed_le_pow (x : RF) (n E : Int) (rm : RM) (hc : x.c ≠ 0) (hE : x.e < E) (hn : n + 1 ≤ E)
    (y : RF) (fl : Flags) (h : x.round none (some n) rm = .ok (y, fl)) :
    y.gt ⟨false, E, 1⟩ = false ∧ y.lt ⟨true, E, 1⟩ = false := by
  have e2 : x.round none (some n) rm = x.roundAtCore none n none rm false := by
    unfold RF.round RF.roundParams; simp
  rw [e2] at h
  have hbl := bitLength_pos hc
  -- magnitude of the result in units of 2^(n+1) is at most 2^(E-(n+1))
  have key : y.okAt (n + 1) ∧ y.mag (n + 1) ≤ 2 ^ (E - (n + 1)).toNat := by
    by_cases h0 : x.exp > n
    · unfold RF.roundAtCore at h
      simp [h0] at h
      rw [← h.1]
      refine ⟨Or.inr (by show n + 1 ≤ x.exp; omega), ?_⟩
      unfold RF.mag
      have h1 : x.c < 2 ^ (bitLength x.c) := (bitLength_le_iff _ _).1 (Nat.le_refl _)
      have h2 : x.c * 2 ^ (x.exp - (n + 1)).toNat < 2 ^ (bitLength x.c) * 2 ^ (x.exp - (n + 1)).toNat :=
        Nat.mul_lt_mul_of_lt_of_le h1 (Nat.le_refl _) (Nat.pow_pos (by decide))
      rw [← Nat.pow_add] at h2
      have h3 : bitLength x.c + (x.exp - (n + 1)).toNat ≤ (E - (n + 1)).toNat := by unfold RF.e RF.p at hE; omega
      exact Nat.le_of_lt (Nat.lt_of_lt_of_le h2 (Nat.pow_le_pow_right (by decide) h3))
    · have hle : x.exp ≤ n := by omega
      rw [roundAtCore_fixed x n rm hc hle] at h
      injection h with h; injection h with h _
      subst h
      refine ⟨Or.inr (by show n + 1 ≤ n + 1; omega), ?_⟩
      unfold RF.mag
      simp only
      have e0 : (n + 1 - (n + 1)).toNat = 0 := by omega
      rw [e0, Nat.pow_zero, Nat.mul_one]
      generalize hk : (n + 1 - x.exp).toNat = k
      have hG : 0 < 2 ^ k := Nat.pow_pos (by decide)
      have h1 : x.c < 2 ^ (bitLength x.c) := (bitLength_le_iff _ _).1 (Nat.le_refl _)
      have h3 : bitLength x.c ≤ (E - (n + 1)).toNat + k := by unfold RF.e RF.p at hE; omega
      have h4 : x.c < 2 ^ ((E - (n + 1)).toNat + k) := Nat.lt_of_lt_of_le h1 (Nat.pow_le_pow_right (by decide) h3)
      rw [Nat.pow_add] at h4
      have h5 : x.c / 2 ^ k < 2 ^ (E - (n + 1)).toNat := (Nat.div_lt_iff_lt_mul hG).2 h4
      rcases roundQuot_neighbour rm x.s x.c k with h | h <;> omega
  obtain ⟨hy, hm⟩ := key
  have hb : ∀ s, (⟨s, E, 1⟩ : RF).okAt (n + 1) := fun s => Or.inr (by show n + 1 ≤ E; omega)
  have hbm : ∀ s, (⟨s, E, 1⟩ : RF).mag (n + 1) = 2 ^ (E - (n + 1)).toNat := by
    intro s; unfold RF.mag; simp
  generalize (2 ^ (E - (n + 1)).toNat : Nat) = G at hm hbm
  generalize hM : y.mag (n + 1) = M at hm
  constructor
  · cases hg : y.gt ⟨false, E, 1⟩
    · rfl
    · have := (RF.gt_iff y _ (n + 1) hy (hb false)).1 hg
      rw [RF.sc_eq_mag, RF.sc_eq_mag, hbm, hM] at this
      simp only [Bool.false_eq_true, if_false, Int.one_mul] at this
      cases hs : y.s <;> simp [hs] at this <;> omega
  · cases hg : y.lt ⟨true, E, 1⟩
    · rfl
    · have := (RF.lt_iff y _ (n + 1) hy (hb true)).1 hg
      rw [RF.sc_eq_mag, RF.sc_eq_mag, hbm, hM] at this
      simp only [if_true] at this
      cases hs : y.s <;> simp [hs] at this <;> omega

/-- **`float_to_fixed` on an unbounded float source** (`MPSFloatContext`; what `unfold_overflow` leaves behind):
for every precision `p ≥ 1`, every `emin`, every mode and every finite non-zero operand, rounding under the emitted
`MPBFixedContext(n, reach, rm, overflow=ASSERT)` — `reach = 2^emin` below `emin`, `2^(exp + P)` above — never
trips the assertion and gives the value and `inexact` flag of the float rounding. -/
theorem f2f_unbounded (p : Nat) (emin : Int) (rm : RM) (o : Opts) (hp : 1 ≤ p) (x : RF) (hx : x.c ≠ 0) :
    obsEq ((Ctx.mps p emin rm (some 0) o).roundAtCore (.fin x) none false 0) (f2fUnbounded p emin rm x) := by
  have hnn : f2fPos p (some (emin, emin - p + 1)) none x.e = max (emin - p) (x.e - p) :=
    f2fPos_unclamped p emin none x.e (by intro M h; cases h)
  unfold f2fUnbounded
  simp only [hnn]
  obtain ⟨y, fl, y2, fl2, h1, h2, hys, hys2, heq, hi, ho, ho2⟩ := float_fixed_round x p (some (emin - p)) rm hx hp
  have hfp : floatPos x p (some (emin - p)) = max (emin - p) (x.e - p) := rfl
  rw [hfp] at h2
  generalize hn : max (emin - (p : Int)) (x.e - p) = n at *
  generalize hE : (if x.e < emin then emin else n + 1 + (p : Int)) = E
  have hxE : x.e < E := by rw [← hE]; split <;> omega
  have hnE : n + 1 ≤ E := by rw [← hE]; split <;> omega
  obtain ⟨g1, g2⟩ := round_fixed_le_pow x n E rm hx hxE hnE y2 fl2 h2
  unfold Ctx.roundAtCore floatSpecial mpbfixRoundAt fixedSpecial f2fTargetUnb
  simp only [hx, if_false]
  have h1' : x.round (some p) (some (emin - ↑p)) rm (some 0) 0 false = .ok (y, fl) := h1
  have h2' : x.round none (some n) rm (some 0) 0 false = .ok (y2, fl2) := h2
  rw [h1', h2']
  simp only [g1, g2, ite_self, Bool.false_eq_true, if_false, Bool.not_true, Bool.and_false]
  simp only [obsEq, sameFV]
  exact ⟨⟨by rw [hys, hys2], heq⟩, hi, by rw [ho, ho2]⟩

/-! ### the composed recipe -/

theorem eqV_trans (a b c : RF) (h1 : a.eqV b) (h2 : b.eqV c) : a.eqV c := by
  let g := min (min a.exp b.exp) c.exp
  have ha : a.okAt g := Or.inr (by omega)
  have hb : b.okAt g := Or.inr (by omega)
  have hc : c.okAt g := Or.inr (by omega)
  rw [RF.eqV_iff a c g ha hc, (RF.eqV_iff a b g ha hb).1 h1, (RF.eqV_iff b c g hb hc).1 h2]

theorem sameFV_trans (a b c : FV) (h1 : sameFV a b) (h2 : sameFV b c) : sameFV a c := by
  cases a with
  | fin x =>
    cases b with
    | fin y =>
      cases c with
      | fin z => exact ⟨h1.1.trans h2.1, eqV_trans _ _ _ h1.2 h2.2⟩
      | inf t => simp [sameFV] at h2
      | nan t => simp [sameFV] at h2
    | inf t => simp [sameFV] at h1
    | nan t => simp [sameFV] at h1
  | inf s => cases b <;> cases c <;> simp_all [sameFV]
  | nan s => cases b <;> cases c <;> simp_all [sameFV]

theorem obsEq_trans (a b c : Except Err Res) (h1 : obsEq a b) (h2 : obsEq b c) : obsEq a c := by
  cases a with
  | error e =>
    cases b with
    | error e' => cases c with
      | error e'' => simp only [obsEq] at *; rw [h1, h2]
      | ok r => simp [obsEq] at h2
    | ok r => simp [obsEq] at h1
  | ok r =>
    cases b with
    | error e' => simp [obsEq] at h1
    | ok r' => cases c with
      | error e'' => simp [obsEq] at h2
      | ok r'' =>
        simp only [obsEq] at *
        exact ⟨sameFV_trans _ _ _ h1.1 h2.1, h1.2.1.trans h2.2.1, h1.2.2.trans h2.2.2⟩

instance (a b : Except Err FV) : Decidable (obsEqV a b) := by
  cases a <;> cases b <;> unfold obsEqV <;> exact inferInstance

theorem obsEqV_refl (a : Except Err FV) : obsEqV a a := by
  cases a <;> simp [obsEqV, sameFV_refl]

/-- what `unfold_overflow` puts after the unbounded rounding -/
def ovfPost (posMax negMax : RF) (vP vN : Except Err FV) (a : Except Err Res) : Except Err FV :=
  match a with
  | .error e => .error e
  | .ok r =>
    match r.v with
    | .fin t => if t.gt posMax then vP else if t.lt negMax then vN else .ok r.v
    | v => .ok v

/-- the comparisons look at the number only: observably equal roundings give observably equal outcomes -/
theorem ovfPost_congr (posMax negMax : RF) (vP vN : Except Err FV) (a b : Except Err Res) (h : obsEq a b) :
    obsEqV (ovfPost posMax negMax vP vN a) (ovfPost posMax negMax vP vN b) := by
  cases a with
  | error e => cases b with
    | error e' => simp only [obsEq] at h; subst h; exact obsEqV_refl _
    | ok r' => simp [obsEq] at h
  | ok r => cases b with
    | error e' => simp [obsEq] at h
    | ok r' =>
      simp only [obsEq] at h
      obtain ⟨hv, _, _⟩ := h
      unfold ovfPost
      simp only
      cases hr : r.v with
      | nan s => cases hr' : r'.v <;> simp_all [sameFV, obsEqV]
      | inf s => cases hr' : r'.v <;> simp_all [sameFV, obsEqV]
      | fin t =>
        cases hr' : r'.v with
        | nan s => simp_all [sameFV]
        | inf s => simp_all [sameFV]
        | fin t' =>
          rw [hr, hr'] at hv
          simp only [sameFV] at hv
          simp only [gt_congr_left t t' posMax hv.2, lt_congr_left t t' negMax hv.2]
          by_cases h1 : t'.gt posMax = true
          · simp only [h1, if_true]; exact obsEqV_refl _
          · by_cases h2 : t'.lt negMax = true
            · simp only [h1, h2, if_true, Bool.false_eq_true, if_false]; exact obsEqV_refl _
            · simp only [h1, h2, Bool.false_eq_true, if_false, obsEqV, sameFV]; exact hv

/-- **The documented recipe, end to end** (`unfold_overflow → float_to_fixed → rescale_fixed`, the specials being
constants by `special_*_const`): for every deterministic bounded float context whose bounds are values of the
format, every mode and overflow mode, every shift `k` and every finite non-zero operand, the composed program —
scale the operand, round at digit position `n + k` under `MPBFixedContext(·, reach·2^k, rm, ASSERT)`, scale back,
compare with the bounds, write the probed overflow constant — returns the value the source context returns, or
raises the same error. -/
theorem chain_float (c : MPBParams) (hk : c.k = some 0) (hp : 1 ≤ c.p)
    (hpos : BoundOk c.p c.nmin c.posMax) (hps : c.posMax.s = false)
    (hneg : BoundOk c.p c.nmin c.negMax) (hns : c.negMax.s = true) (k : Int) (x : RF) (hx : x.c ≠ 0) :
    obsEqV (valOf (mpbRoundAt c (.fin x) none false 0)) (chainFloat c k x) := by
  rw [unfold_overflow_float c hk hp hpos hps hneg hns x hx]
  have e1 : unfoldOverflowFloat c x =
      ovfPost c.posMax c.negMax (valOf (probeFloat c false 1)) (valOf (probeFloat c true 1))
        ((unboundedFloat c).roundAtCore (.fin x) none false 0) := rfl
  have e2 : chainFloat c k x =
      ovfPost c.posMax c.negMax (valOf (probeFloat c false 1)) (valOf (probeFloat c true 1))
        (rescaleProg (f2fTargetUnb c.rm (f2fPos c.p (some (c.emin, c.emin - c.p + 1)) none x.e)
          (if x.e < c.emin then c.emin else f2fPos c.p (some (c.emin, c.emin - c.p + 1)) none x.e + 1 + c.p)) k (.fin x)) := rfl
  rw [e1, e2]
  apply ovfPost_congr
  have hU : unboundedFloat c = .mps c.p c.emin c.rm (some 0) {} := by unfold unboundedFloat; rw [hk]
  rw [hU]
  refine obsEq_trans _ _ _ (f2f_unbounded c.p c.emin c.rm {} hp x hx) ?_
  unfold f2fUnbounded
  simp only
  apply rescale_mpbfix _ rfl
  · intro w hw; cases hw
  · intro w hw; cases hw

end Fpy.C10
