/-
Part 9 of the value-level helpers for C01: `EFloatContext` membership; overflow flag of
`MPBFixedContext` and `EFloatContext`.
-/
import Fpy.Proof.RoundValCtx4
namespace Fpy.C01v
open Fpy Fpy.Spec

/-- `MPBFixedContext`: the overflow flag is set exactly when the unbounded rounding exceeds the range -/
theorem mpbfix_flag_overflow (c : MPBFixParams) (hwf : CtxWF (.mpbfix c)) (x : RF) (hx : x.c ≠ 0) (r : Nat)
    (y : RF) (fl : Flags) (hr : x.round none (some c.nmin) c.rm c.k r false = .ok (y, fl)) (res : Res)
    (h : mpbfixRoundAt c (.fin x) none false r = .ok res) :
    res.fl.overflow = true ↔ (y.val < c.negMax.val ∨ c.posMax.val < y.val) := by
  obtain ⟨hpm, hnm, hn0, hp0, hps⟩ := hwf
  rw [← overflowing_iff c.negMax c.posMax y hn0 hp0]
  obtain ⟨-, -, hfo, -⟩ := fixed_round_any x c.nmin c.rm c.k r y fl hr
  unfold mpbfixRoundAt fixedSpecial at h
  simp only [hx, if_false, hr] at h
  by_cases hov : (if y.s then y.lt c.negMax else y.gt c.posMax) = true
  · simp only [hov, if_true, Bool.false_eq_true, if_false] at h
    simp only [hov, iff_true]
    cases hovm : c.ov with
    | assert => rw [hovm] at h; cases h
    | wrap => rw [hovm] at h; simp only [Except.ok.injEq] at h; rw [← h]; rfl
    | saturate => rw [hovm] at h; simp only [Except.ok.injEq] at h; rw [← h]; rfl
    | overflow =>
      rw [hovm] at h; simp only at h
      split at h
      · split at h
        · simp only [Except.ok.injEq] at h; rw [← h]; rfl
        · split at h
          · cases h
          · simp only [Except.ok.injEq] at h; rw [← h]; rfl
      · simp only [Except.ok.injEq] at h; rw [← h]; rfl
  · simp only [hov, Bool.false_eq_true, if_false] at h
    split at h <;> (simp only [Except.ok.injEq] at h; rw [← h]; simp only [hfo, hov])

theorem mpb_negMax_c (c : EFloatParams) : c.mpb.negMax.c = c.mpb.posMax.c := rfl
theorem mpb_negMax_s (c : EFloatParams) : c.mpb.negMax.s = true := rfl

theorem wf_mpb_of_efloat (c : EFloatParams) (hwf : CtxWF (.efloat c)) : CtxWF (.mpb c.mpb) := by
  obtain ⟨a, b, c', d, e, _⟩ := hwf
  exact ⟨a, b, c', d, e⟩

/-- the fix-up keeps the flags -/
theorem efloatFixup_fl (c : EFloatParams) (r res : Res) (h : efloatFixup c r = .ok res) : res.fl = r.fl := by
  unfold efloatFixup at h
  simp only at h
  repeat' split at h
  all_goals (cases h; try rfl)

/-- `EFloatContext` -/
theorem efloat_round_mem (c : EFloatParams) (hwf : CtxWF (.efloat c)) (v : FV) (r : Nat) (res : Res)
    (h : (Ctx.efloat c).roundAtCore v none false r = .ok res) :
    CtxMember (.efloat c) res.v ∨ CtxSubstitute (.efloat c) res.v := by
  have hwf' := wf_mpb_of_efloat c hwf
  obtain ⟨hp, hpm, hnm, hn0, hp0, hps⟩ := hwf
  unfold Ctx.roundAtCore at h
  simp only at h
  cases hm : mpbRoundAt c.mpb v none false r with
  | error e => rw [hm] at h; cases h
  | ok res' =>
    rw [hm] at h; simp only at h
    have hmem : CtxMember (.mpb c.mpb) res'.v := by
      rcases mpb_round_mem c.mpb hwf' v r res' hm with h' | h'
      · exact h'
      · exfalso
        rcases h' with ⟨h', _⟩ | ⟨h', _⟩
        · simp [hasInf, EFloatParams.mpb_o] at h'
        · simp [hasNan, EFloatParams.mpb_o] at h'
    -- the largest value of either sign, when the format has one
    have hmax : ∀ (s : Bool) (fl : Flags) (res : Res),
        (if c.maxvalOk s then (Except.ok (⟨.fin (if s then c.mpb.negMax else c.mpb.posMax), fl⟩ : Res) : Except Err Res)
          else Except.error Err.valueError) = Except.ok res → CtxMember (.efloat c) res.v := by
      intro s fl res hh
      by_cases hok : c.maxvalOk s = true
      · simp only [hok, if_true, Except.ok.injEq] at hh
        rw [← hh]
        cases s
        · exact ⟨⟨hpm, by grind, Rat.le_refl⟩, fun _ h => by simp only [Bool.false_eq_true, if_false] at h; rw [hps] at h; cases h⟩
        · refine ⟨⟨hnm, Rat.le_refl, by grind⟩, ?_⟩
          intro h1 _
          simp only [if_true] at h1
          rw [mpb_negMax_c] at h1
          unfold EFloatParams.maxvalOk at hok
          simp only [h1, if_true, Bool.true_and] at hok
          simpa [hasNegZero] using hok
      · simp only [hok, Bool.false_eq_true, if_false] at hh; cases hh
    unfold efloatFixup at h
    simp only at h
    cases hv : res'.v with
    | nan s =>
      rw [hv] at h; simp only at h
      by_cases hk : (c.kind == NanKind.none) = true
      · simp only [hk, if_true] at h
        cases hnv : c.nanValue with
        | none =>
          rw [hnv] at h; simp only at h
          by_cases hinf : c.inf = true
          · simp only [hinf, if_true, Except.ok.injEq] at h
            left; rw [← h]; exact hinf
          · simp only [hinf, Bool.false_eq_true, if_false] at h
            left; exact hmax s _ res h
        | some nv =>
          rw [hnv] at h; simp only [Except.ok.injEq] at h
          right; right
          exact ⟨by simp only [hasNan]; have := eq_of_beq hk; simp [this], nv, hnv, Or.inr ⟨s, by rw [← h]⟩⟩
      · simp only [hk, Bool.false_eq_true, if_false, Except.ok.injEq] at h
        left; rw [← h, hv]; simp only [CtxMember, hasNan]; simpa using hk
    | inf s =>
      rw [hv] at h; simp only at h
      by_cases hinf : c.inf = true
      · simp only [hinf, Bool.not_true, Bool.false_eq_true, if_false, Except.ok.injEq] at h
        left; rw [← h, hv]; exact hinf
      · simp only [hinf, Bool.not_false, if_true] at h
        cases hiv : c.infValue with
        | none =>
          rw [hiv] at h; simp only at h
          by_cases hk : (c.kind != NanKind.none) = true
          · simp only [hk, if_true, Except.ok.injEq] at h
            left; rw [← h]; exact hk
          · simp only [hk, Bool.false_eq_true, if_false] at h
            left; exact hmax s _ res h
        | some iv =>
          rw [hiv] at h; simp only [Except.ok.injEq] at h
          right; left
          exact ⟨by simpa [hasInf] using hinf, iv, hiv, Or.inr ⟨s, by rw [← h]⟩⟩
    | fin x =>
      rw [hv] at h hmem; simp only at h
      obtain ⟨hfm, _⟩ := hmem
      left
      by_cases hz : (x.c = 0 && x.s && c.kind == NanKind.negZero) = true
      · simp only [hz, if_true, Except.ok.injEq] at h
        rw [← h]
        simp only [Bool.and_eq_true, decide_eq_true_eq] at hz
        refine ⟨?_, fun _ hs => by simp at hs⟩
        have e1 : ({ x with s := false } : RF).val = 0 := RF.val_zero_c (by exact hz.1.1)
        have e2 : x.val = 0 := RF.val_zero_c hz.1.1
        simp only [CtxFinMember] at hfm ⊢
        rw [e1]; rw [e2] at hfm; exact hfm
      · simp only [hz, Bool.false_eq_true, if_false, Except.ok.injEq] at h
        rw [← h, hv]
        refine ⟨hfm, ?_⟩
        intro h1 h2
        simp only [hasNegZero]
        cases hkk : (c.kind != NanKind.negZero) with
        | true => rfl
        | false =>
          exfalso; apply hz
          have : (c.kind == NanKind.negZero) = true := by
            simp only [bne, Bool.not_eq_false'] at hkk; exact hkk
          simp [h1, h2, this]

/-- `EFloatContext`: the overflow flag is that of the bounded rounding -/
theorem efloat_flag_overflow (c : EFloatParams) (hwf : CtxWF (.efloat c)) (x : RF) (hx : x.c ≠ 0) (r : Nat)
    (y : RF) (fl : Flags) (hr : x.round (some c.mpb.p) (some c.mpb.nmin) c.mpb.rm c.mpb.k r false = .ok (y, fl))
    (res : Res) (h : (Ctx.efloat c).roundAtCore (.fin x) none false r = .ok res) :
    res.fl.overflow = true ↔ (y.val < c.mpb.negMax.val ∨ c.mpb.posMax.val < y.val) := by
  unfold Ctx.roundAtCore at h
  simp only at h
  cases hm : mpbRoundAt c.mpb (.fin x) none false r with
  | error e => rw [hm] at h; cases h
  | ok res' =>
    rw [hm] at h; simp only at h
    rw [efloatFixup_fl c res' res h]
    exact mpb_flag_overflow c.mpb (wf_mpb_of_efloat c hwf) x hx r y fl hr res' hm

end Fpy.C01v
