/-
C10 helper lemmas, context level: the emitted blocks of `rescale_fixed`, `unfold_overflow`,
`unfold_neg_zero`, `unfold_special`, `float_to_fixed` against the source context's `_round_at`.
-/
import Fpy.Proof.Lower
namespace Fpy.C10
open Fpy Fpy.Spec

theorem sameFV_refl (v : FV) : sameFV v v := by
  cases v <;> simp [sameFV, eqV_refl]

theorem obsEq_refl (a : Except Err Res) : obsEq a a := by
  cases a <;> simp [obsEq, sameFV_refl]

theorem obsEq_ok (a b : FV) (f : Flags) (h : sameFV a b) : obsEq (.ok ⟨a, f⟩) (.ok ⟨b, f⟩) := by
  simp [obsEq, h]

theorem sameFV_fin (a b : RF) (hs : a.s = b.s) (h : a.eqV b) : sameFV (.fin a) (.fin b) := ⟨hs, h⟩

theorem shiftFV_nar (v : FV) (k : Int) (h : v.isNar = true) : shiftFV v k = v := by
  cases v <;> simp [shiftFV, FV.isNar] at *

theorem fixOrdinal_shift (nmin : Int) (x : RF) (k : Int) : fixOrdinal (nmin + k) (shiftRF x k) = fixOrdinal nmin x := by
  unfold fixOrdinal shiftRF
  have : x.exp + k - (nmin + k + 1) = x.exp - (nmin + 1) := by omega
  simp only [this]

theorem rangeEnd_shift (c : MPBFixParams) (k : Int) (s : Bool) :
    ∃ a b, (rescaleFix c k).rangeEnd s = ⟨.fin a, {}⟩ ∧ c.rangeEnd s = ⟨.fin b, {}⟩ ∧ b.s = (shiftRF a (-k)).s ∧ b.eqV (shiftRF a (-k)) := by
  unfold MPBFixParams.rangeEnd rescaleFix
  cases s
  · refine ⟨_, _, rfl, rfl, ?_, ?_⟩
    · simp [shiftRF]
    · rw [shift_shift]; exact eqV_refl _
  · simp only [if_true]
    have hs : (shiftRF c.negMax k).c = c.negMax.c ∧ (shiftRF c.negMax k).s = c.negMax.s := ⟨rfl, rfl⟩
    simp only [hs.1, hs.2]
    split
    · refine ⟨_, _, rfl, rfl, rfl, ?_⟩
      exact eqV_zero _ _ rfl rfl
    · refine ⟨_, _, rfl, rfl, ?_, ?_⟩
      · simp [shiftRF]
      · rw [shift_shift]; exact eqV_refl _

/-- **`rescale_fixed`**: for every bounded fixed-point context (any rounding mode, any overflow mode including
wrapping, signed zero on or off) whose NaN / infinity substitutes are not finite, and every operand (finite,
zero, infinite, NaN): scale in by `2^k`, round under the format moved by `2^k`, scale out — the same value
and the same `inexact` / `overflow` flags as the original rounding, or the same error. -/
theorem rescale_mpbfix (c : MPBFixParams) (hk : c.k = some 0) (k : Int) (v : FV)
    (hnv : ∀ w, c.o.nanValue = some w → w.isNar = true) (hiv : ∀ w, c.o.infValue = some w → w.isNar = true) :
    obsEq (mpbfixRoundAt c v none false 0) (rescaleProg c k v) := by
  unfold rescaleProg
  cases v with
  | nan s =>
    unfold mpbfixRoundAt fixedSpecial shiftFV rescaleFix
    simp only
    split
    · simp [shiftRes, shiftFV, obsEq, sameFV]
    · cases hn : c.o.nanValue with
      | none => simp [shiftRes, obsEq]
      | some w =>
        have := shiftFV_nar w (-k) (hnv w hn)
        simp [shiftRes, obsEq, this, sameFV_refl]
  | inf s =>
    unfold mpbfixRoundAt fixedSpecial shiftFV rescaleFix
    simp only
    split
    · simp [shiftRes, shiftFV, obsEq, sameFV]
    · cases hn : c.o.infValue with
      | none => simp [shiftRes, obsEq]
      | some w =>
        have := shiftFV_nar w (-k) (hiv w hn)
        simp [shiftRes, obsEq, this, sameFV_refl]
  | fin x =>
    by_cases hc : x.c = 0
    · unfold mpbfixRoundAt fixedSpecial shiftFV rescaleFix
      have : (shiftRF x k).c = 0 := hc
      simp only [hc, this, if_true, shiftRes, shiftFV]
      exact obsEq_ok _ _ _ (sameFV_fin _ _ rfl (eqV_zero _ _ rfl rfl))
    · have hc' : (shiftRF x k).c ≠ 0 := hc
      have hr := round_fixed_shift x c.nmin k c.rm hc
      unfold mpbfixRoundAt fixedSpecial shiftFV
      simp only [hc, hc', if_false, hk]
      have hnm : (rescaleFix c k).nmin = c.nmin + k := rfl
      have hrm : (rescaleFix c k).rm = c.rm := rfl
      have hkk : (rescaleFix c k).k = some 0 := hk
      simp only [hnm, hrm, hkk]
      have hr' : (shiftRF x k).round none (some (c.nmin + k)) c.rm (some 0) 0 false =
          (match x.round none (some c.nmin) c.rm (some 0) 0 false with
           | .ok (y, fl) => .ok (shiftRF y k, fl)
           | .error e => .error e) := hr
      rw [hr']
      cases hxr : x.round none (some c.nmin) c.rm (some 0) 0 false with
      | error e => simp [shiftRes, obsEq]
      | ok yf =>
        obtain ⟨xr, fl⟩ := yf
        simp only
        have hs : (shiftRF xr k).s = xr.s := rfl
        have hcc : (shiftRF xr k).c = xr.c := rfl
        have hpm : (rescaleFix c k).posMax = shiftRF c.posMax k := rfl
        have hngm : (rescaleFix c k).negMax = shiftRF c.negMax k := rfl
        have hov : (rescaleFix c k).ov = c.ov := rfl
        have hnz : (rescaleFix c k).negZero = c.negZero := rfl
        have ho : (rescaleFix c k).o = c.o := rfl
        simp only [hs, hcc, hpm, hngm, hov, hnz, ho, lt_shift, gt_shift]
        by_cases hovf : (if xr.s then xr.lt c.negMax else xr.gt c.posMax) = true
        · simp only [hovf, if_true, Bool.false_eq_true, if_false]
          obtain ⟨a, b, ha, hb, hsab, hab⟩ := rangeEnd_shift c k xr.s
          cases hcov : c.ov with
          | overflow =>
            simp only
            split
            · split
              · simp only [shiftRes, shiftFV, setOvf]
                exact obsEq_ok _ _ _ rfl
              · cases hn : c.o.infValue with
                | none => simp [shiftRes, obsEq]
                | some w =>
                  have := shiftFV_nar w (-k) (hiv w hn)
                  simp [shiftRes, obsEq, this, sameFV_refl, setOvf]
            · rw [ha, hb]
              simp only [shiftRes, shiftFV, setOvf]
              exact obsEq_ok _ _ _ (sameFV_fin _ _ hsab hab)
          | saturate =>
            simp only
            rw [ha, hb]
            simp only [shiftRes, shiftFV, setOvf]
            exact obsEq_ok _ _ _ (sameFV_fin _ _ hsab hab)
          | wrap =>
            simp only [fixOrdinal_shift]
            split
            · simp only [shiftRes, shiftFV, setOvf]
              exact obsEq_ok _ _ _ (sameFV_fin _ _ rfl (eqV_zero _ _ rfl rfl))
            · simp only [shiftRes, shiftFV, setOvf, shiftRF]
              have : c.nmin + k + 1 + -k = c.nmin + 1 := by omega
              rw [this]
              exact obsEq_ok _ _ _ (sameFV_fin _ _ rfl (eqV_refl _))
          | assert => simp [shiftRes, obsEq]
        · simp only [hovf, Bool.false_eq_true, if_false]
          split
          · simp only [shiftRes, shiftFV]
            have : shiftRF { s := false, exp := (shiftRF xr k).exp, c := xr.c } (-k) = { s := false, exp := xr.exp, c := xr.c } := by
              simp [shiftRF, Int.add_neg_cancel_right]
            rw [this]; exact obsEq_refl _
          · simp only [shiftRes, shiftFV, shift_shift]
            exact obsEq_refl _

/-! ### `unfold_overflow` -/

theorem sc_nonpos_of_neg (x : RF) (g : Int) (h : x.c = 0 ∨ x.s = true) : x.sc g ≤ 0 := by
  rcases h with h | h
  · rw [RF.sc_zero _ _ h]; omega
  · rw [RF.sc_eq_mag]; simp [h]

theorem sc_nonneg_of_pos (x : RF) (g : Int) (h : x.c = 0 ∨ x.s = false) : 0 ≤ x.sc g := by
  rcases h with h | h
  · rw [RF.sc_zero _ _ h]; omega
  · rw [RF.sc_eq_mag]; simp [h]

/-- a value that is not positive is never above a bound that is not negative -/
theorem gt_false_of_signs (t b : RF) (ht : t.c = 0 ∨ t.s = true) (hb : b.c = 0 ∨ b.s = false) : t.gt b = false := by
  have ht' : t.okAt (min t.exp b.exp) := RF.okAt_min_left t b
  have hb' : b.okAt (min t.exp b.exp) := RF.okAt_min_right t b
  have := RF.gt_iff t b _ ht' hb'
  have h1 := sc_nonpos_of_neg t (min t.exp b.exp) ht
  have h2 := sc_nonneg_of_pos b (min t.exp b.exp) hb
  cases h : t.gt b
  · rfl
  · have := this.1 h; omega

/-- a value that is not negative is never below a bound that is not positive -/
theorem lt_false_of_signs (t b : RF) (ht : t.c = 0 ∨ t.s = false) (hb : b.c = 0 ∨ b.s = true) : t.lt b = false := by
  have ht' : t.okAt (min t.exp b.exp) := RF.okAt_min_left t b
  have hb' : b.okAt (min t.exp b.exp) := RF.okAt_min_right t b
  have := RF.lt_iff t b _ ht' hb'
  have h1 := sc_nonneg_of_pos t (min t.exp b.exp) ht
  have h2 := sc_nonpos_of_neg b (min t.exp b.exp) hb
  cases h : t.lt b
  · rfl
  · have := this.1 h; omega

/-- the test the emitted program makes (`t > maxval`, else `t < neg_maxval`) decides what the context's own
sign-split test decides, for bounds of the right signs -/
theorem emitted_test (t pos neg : RF) (hp : pos.c = 0 ∨ pos.s = false) (hn : neg.c = 0 ∨ neg.s = true) :
    (if t.s then t.lt neg else t.gt pos) = (t.gt pos || t.lt neg) := by
  cases hs : t.s
  · simp [lt_false_of_signs t neg (Or.inr hs) hn]
  · simp [gt_false_of_signs t pos (Or.inr hs) hp]

/-- deterministic float rounding with at least one digit keeps the sign of a non-zero operand -/
theorem round_float_sign (x : RF) (p : Nat) (minN : Option Int) (rm : RM) (hc : x.c ≠ 0) (hp : 1 ≤ p)
    (y : RF) (fl : Flags) (h : x.round (some p) minN rm = .ok (y, fl)) : y.s = x.s := by
  obtain ⟨y', fl', _, _, h1, _, hs, _⟩ := float_fixed_round x p minN rm hc hp
  rw [h] at h1
  injection h1 with h1; injection h1 with h1 _
  rw [h1]; exact hs

/-- deterministic fixed-point rounding keeps the sign of a non-zero operand -/
theorem round_fixed_sign (x : RF) (n : Int) (rm : RM) (hc : x.c ≠ 0)
    (y : RF) (fl : Flags) (h : x.round none (some n) rm = .ok (y, fl)) : y.s = x.s := by
  have e2 : x.round none (some n) rm = x.roundAtCore none n none rm false := by
    unfold RF.round RF.roundParams; simp
  rw [e2] at h
  by_cases h0 : x.exp > n
  · unfold RF.roundAtCore at h
    simp [h0] at h; rw [← h.1]
  · rw [roundAtCore_fixed x n rm hc (by omega)] at h
    injection h with h; injection h with h _
    rw [← h]

/-- **`unfold_overflow`, float, with the context's own overflow arm**: rounding under the bounded context is
rounding under the unbounded counterpart followed by the emitted comparison; flags included. -/
theorem mpb_unfold_arm (c : MPBParams)
    (hpos : c.posMax.c = 0 ∨ c.posMax.s = false) (hneg : c.negMax.c = 0 ∨ c.negMax.s = true)
    (x : RF) (hx : x.c ≠ 0) :
    mpbRoundAt c (.fin x) none false 0 =
      (match (unboundedFloat c).roundAtCore (.fin x) none false 0 with
       | .error e => .error e
       | .ok r =>
         match r.v with
         | .fin t => if t.gt c.posMax then mpbOverflow c x.s t.s
                     else if t.lt c.negMax then mpbOverflow c x.s t.s
                     else .ok r
         | _ => .ok r) := by
  unfold mpbRoundAt unboundedFloat Ctx.roundAtCore floatSpecial MPBParams.nmin
  simp only [hx, if_false]
  cases hr : x.round (some c.p) (some (c.emin - c.p)) c.rm c.k 0 false with
  | error e => rfl
  | ok yf =>
    obtain ⟨y, fl⟩ := yf
    simp only [emitted_test y c.posMax c.negMax hpos hneg]
    by_cases h1 : y.gt c.posMax = true
    · simp only [h1, Bool.true_or, if_true]; rfl
    · by_cases h2 : y.lt c.negMax = true
      · simp only [h1, h2, Bool.or_true, if_true, Bool.false_eq_true, if_false]; rfl
      · simp only [h1, h2, Bool.or_self, Bool.false_eq_true, if_false]

/-- a bound the float format represents: non-zero, at most `p` digits, all of them above `nmin` -/
def BoundOk (p : Nat) (nmin : Int) (b : RF) : Prop := b.c ≠ 0 ∧ bitLength b.c ≤ p ∧ nmin < b.exp

/-- `2^k` times a representable bound is returned unchanged by the unbounded rounding -/
theorem round_shift_bound (b : RF) (p : Nat) (nmin : Int) (rm : RM) (k : Nat) (hb : BoundOk p nmin b) :
    ∃ fl, (shiftRF b k).round (some p) (some nmin) rm (some 0) 0 false = .ok (shiftRF b k, fl) := by
  obtain ⟨_, h2, h3⟩ := hb
  unfold RF.round RF.roundParams
  simp only [if_true]
  unfold RF.roundAtCore
  have hp : (shiftRF b k).p = bitLength b.c := rfl
  have he : (shiftRF b k).e = b.exp + k + bitLength b.c - 1 := by unfold RF.e; rw [hp]; rfl
  have hexp : (shiftRF b k).exp = b.exp + k := rfl
  have hfast : (shiftRF b k).exp > max nmin ((shiftRF b k).e - p) := by rw [he, hexp]; omega
  have hfit : (shiftRF b k).p ≤ p := by rw [hp]; exact h2
  simp only [hfast, hfit, decide_true, Bool.and_self, if_true]
  exact ⟨_, rfl⟩

theorem shift_gt_self (b : RF) (k : Nat) (hk : 1 ≤ k) (hc : b.c ≠ 0) (hs : b.s = false) : (shiftRF b k).gt b = true := by
  have h1 : (shiftRF b k).okAt b.exp := Or.inr (by show b.exp ≤ b.exp + k; omega)
  rw [RF.gt_iff _ _ b.exp h1 (RF.okAt_self b)]
  unfold RF.sc shiftRF
  simp only [hs, Bool.false_eq_true, if_false]
  have e1 : (b.exp + k - b.exp).toNat = k := by omega
  have e2 : (b.exp - b.exp).toNat = 0 := by omega
  rw [e1, e2]
  have h2 : 2 ^ 1 ≤ 2 ^ k := Nat.pow_le_pow_right (by decide) hk
  have hN : b.c * 1 < b.c * 2 ^ k := Nat.mul_lt_mul_of_le_of_lt (Nat.le_refl _) (by omega) (Nat.pos_of_ne_zero hc)
  have hcast : ((b.c * 2 ^ k : Nat) : Int) = (b.c : Int) * 2 ^ k := by simp [Int.natCast_mul, Int.natCast_pow]
  simp only [Int.pow_zero, Int.mul_one, Int.one_mul]
  rw [← hcast]
  exact Int.ofNat_lt.2 (by simpa using hN)

end Fpy.C10
