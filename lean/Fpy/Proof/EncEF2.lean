/-
Helper lemmas for C16: the `EFloatFormat` round-trip theorems, assembled from `EncEF.lean`.
-/
import Fpy.Proof.EncEF
namespace Fpy
open Fpy.Enc Fpy.Spec

/-- facts about the finite value with sign `s` and non-zero code `G` -/
theorem efNumber_facts (f : EF) (hv : f.valid = true) (s : Bool) (G : Nat) (hG : G ≠ 0) :
    (efNumber f s G).c ≠ 0 ∧ (efNumber f s G).s = s ∧ f.mpb.mps.reprRF (efNumber f s G) = true ∧
    mpsUord f.mpb.mps (efNumber f s G) = G := by
  have hp := ef_pmax_pos f hv
  unfold efNumber
  simp only [hG, if_false]
  have hk : (if s then -(G : Int) else (G : Int)) ≠ 0 := by cases s <;> simp <;> omega
  have ⟨hc, hs, hr, hu, _⟩ := mps_unord_facts f.mpb.mps hp _ hk
  refine ⟨hc, ?_, hr, ?_⟩
  · rw [hs]; cases s <;> simp <;> omega
  · rw [hu]; cases s <;> simp

/-- what `decode` returns, by sign bit and magnitude code -/
theorem ef_decode_class (f : EF) (hv : f.valid = true) (b : Nat) (hb : b < 2 ^ f.nbits) :
    f.decode b =
      .ok (if f.kind = .negZero ∧ b % 2 ^ (f.nbits - 1) = 0 ∧ b / 2 ^ (f.nbits - 1) = 1 then .nan (decide (b / 2 ^ (f.nbits - 1) = 1))
       else if b % 2 ^ (f.nbits - 1) ≤ efGmax f then .fin (efNumber f (decide (b / 2 ^ (f.nbits - 1) = 1)) (b % 2 ^ (f.nbits - 1)))
       else if f.inf = true ∧ b % 2 ^ (f.nbits - 1) = efGmax f + 1 then .inf (decide (b / 2 ^ (f.nbits - 1) = 1))
       else .nan (decide (b / 2 ^ (f.nbits - 1) = 1))) := by
  rw [ef_decode_layout f hv b hb, ef_layout_class f hv b hb]

/-- for NaN kind NONE every code is a number or an infinity -/
theorem ef_none_no_nan (f : EF) (hv : f.valid = true) (hk : f.kind = .none) (G : Nat) (hG : G < 2 ^ (f.nbits - 1)) :
    G ≤ efGmax f ∨ (f.inf = true ∧ G = efGmax f + 1) := by
  have ⟨_, _, hkz⟩ := ef_valid_kind f hv
  unfold efGmax; rw [hk]; simp only
  cases hi : f.inf
  · simp; omega
  · have := hkz (.inr hk) hi
    have : 2 ≤ 2 ^ (f.nbits - 1) := by
      have := two_pow_ge 1 (f.nbits - 1) (by omega); omega
    simp; omega

/-- same for NEG_ZERO apart from its single NaN code -/
theorem ef_negzero_no_nan (f : EF) (hv : f.valid = true) (hk : f.kind = .negZero) (G : Nat) (hG : G < 2 ^ (f.nbits - 1)) :
    G ≤ efGmax f ∨ (f.inf = true ∧ G = efGmax f + 1) := by
  have ⟨_, _, hkz⟩ := ef_valid_kind f hv
  unfold efGmax; rw [hk]; simp only
  cases hi : f.inf
  · simp; omega
  · have := hkz (.inl hk) hi
    have : 2 ≤ 2 ^ (f.nbits - 1) := by
      have := two_pow_ge 1 (f.nbits - 1) (by omega); omega
    simp; omega

/-- **decoded values are representable**: finite ones, infinities and NaN alike -/
theorem ef_decode_repr (f : EF) (hv : f.valid = true) (b : Nat) (hb : b < 2 ^ f.nbits) :
    ∃ v, f.decode b = .ok v ∧ f.repr v = true := by
  have ⟨hn, _⟩ := ef_valid_basic f hv
  have hH := two_pow_pos' (f.nbits - 1)
  have hGlt : b % 2 ^ (f.nbits - 1) < 2 ^ (f.nbits - 1) := Nat.mod_lt _ hH
  refine ⟨_, ef_decode_class f hv b hb, ?_⟩
  generalize b / 2 ^ (f.nbits - 1) = S at *
  generalize b % 2 ^ (f.nbits - 1) = G at *
  by_cases hz : f.kind = .negZero ∧ G = 0 ∧ S = 1
  · simp only [hz, and_self, if_true]
    rw [ef_repr_nan, hz.1]; rfl
  · simp only [hz, if_false]
    by_cases hle : G ≤ efGmax f
    · simp only [hle, if_true]
      by_cases hG0 : G = 0
      · have hc : (efNumber f (decide (S = 1)) G).c = 0 := by unfold efNumber; simp [hG0]
        have hs : (efNumber f (decide (S = 1)) G).s = decide (S = 1) := by unfold efNumber; simp [hG0]
        rw [ef_repr_fin_zero f _ hc, hs]
        by_cases hS : S = 1
        · have : f.kind ≠ .negZero := fun h => hz ⟨h, hG0, hS⟩
          cases hk : f.kind <;> simp_all
        · simp [hS]
      · have ⟨hc, _, hr, hu⟩ := efNumber_facts f hv (decide (S = 1)) G hG0
        rw [ef_repr_fin_nonzero f hv _ hc, hr, hu, ef_hasNonzero f hv]
        simp; omega
    · simp only [hle, if_false]
      by_cases hi : f.inf = true ∧ G = efGmax f + 1
      · simp only [hi, and_self, if_true]
        rw [ef_repr_inf, hi.1]
      · simp only [hi, if_false]
        rw [ef_repr_nan]
        have : f.kind ≠ .none := fun hk => by
          rcases ef_none_no_nan f hv hk G hGlt with h | h
          · exact hle h
          · exact hi h
        cases hk : f.kind <;> simp_all

/-- finite decoded values encode back to their pattern -/
theorem ef_encode_decode_fin (f : EF) (hv : f.valid = true) (b : Nat) (hb : b < 2 ^ f.nbits) (x : RF)
    (hd : f.decode b = .ok (.fin x)) : f.encode (.fin x) = .ok b := by
  have ⟨hn, _⟩ := ef_valid_basic f hv
  have hH := two_pow_pos' (f.nbits - 1)
  have hN := two_pow_pred f.nbits hn
  have hdm := Nat.div_add_mod b (2 ^ (f.nbits - 1))
  have hS : b / 2 ^ (f.nbits - 1) ≤ 1 := by
    have : b / 2 ^ (f.nbits - 1) < 2 := (Nat.div_lt_iff_lt_mul hH).2 (by omega)
    omega
  obtain ⟨v, hdv, hrep⟩ := ef_decode_repr f hv b hb
  rw [hd] at hdv; injection hdv with hdv; subst hdv
  have hr : f.repr (.fin x) = true := hrep
  rw [ef_decode_class f hv b hb] at hd
  generalize b / 2 ^ (f.nbits - 1) = S at *
  generalize b % 2 ^ (f.nbits - 1) = G at *
  injection hd with hd
  split at hd
  · cases hd
  · split at hd
    · injection hd with hd
      by_cases hG0 : G = 0
      · have hc : x.c = 0 := by rw [← hd]; unfold efNumber; simp [hG0]
        have hs : x.s = decide (S = 1) := by rw [← hd]; unfold efNumber; simp [hG0]
        rw [ef_encode_fin_zero f x hc hr, hs]
        have : S = 0 ∨ S = 1 := by omega
        rcases this with h | h <;> subst h <;> simp <;> omega
      · have ⟨hc, hs, _, hu⟩ := efNumber_facts f hv (decide (S = 1)) G hG0
        rw [hd] at hc hs hu
        rw [(ef_encode_fin_nonzero f hv x hc hr).2, hs, hu]
        have : S = 0 ∨ S = 1 := by omega
        rcases this with h | h <;> subst h <;> simp <;> omega
    · split at hd <;> cases hd

/-- powers of two facts shared by the special-value encodings -/
theorem ef_pow_facts (f : EF) (hv : f.valid = true) :
    2 ^ (f.nbits - 1) = 2 ^ f.m * 2 ^ f.es ∧ 0 < 2 ^ f.m ∧ 0 < 2 ^ f.es ∧
    2 ^ f.m * (2 ^ f.es - 1) = 2 ^ (f.nbits - 1) - 2 ^ f.m ∧ 2 ^ f.m ≤ 2 ^ (f.nbits - 1) := by
  have ⟨hn, hes⟩ := ef_valid_basic f hv
  have hH : 2 ^ (f.nbits - 1) = 2 ^ f.m * 2 ^ f.es := by
    rw [← Nat.pow_add]; congr 1; unfold EF.m; rw [ef_pmax]; omega
  refine ⟨hH, two_pow_pos' _, two_pow_pos' _, ?_, ?_⟩
  · rw [hH, Nat.mul_sub, Nat.mul_one]
  · exact two_pow_ge _ _ (by unfold EF.m; rw [ef_pmax]; omega)

/-- `encode(±inf)` returns the infinity code `efGmax + 1` under the sign bit -/
theorem ef_encode_inf (f : EF) (hv : f.valid = true) (s : Bool) (hr : f.repr (.inf s) = true) :
    efGmax f + 1 < 2 ^ (f.nbits - 1) ∧
    f.encode (.inf s) = .ok (2 ^ (f.nbits - 1) * (if s then 1 else 0) + (efGmax f + 1)) := by
  have ⟨hn, hes⟩ := ef_valid_basic f hv
  have ⟨hki, hkm, hkz⟩ := ef_valid_kind f hv
  have ⟨hH, hA, hB, hAB1, hAle⟩ := ef_pow_facts f hv
  have hp := ef_pmax_pos f hv
  have hr0 := hr
  rw [ef_repr_inf] at hr
  have hi := hr
  have hpm1 : f.pmax - 1 = f.m := rfl
  have hB2 : 1 ≤ f.es → 2 ≤ 2 ^ f.es := fun h => by
    have := two_pow_pred f.es h; have := two_pow_pos' (f.es - 1); omega
  have hH2 : 2 ≤ f.nbits → 2 ≤ 2 ^ (f.nbits - 1) := fun h => by
    have := two_pow_ge 1 (f.nbits - 1) (by omega); omega
  have hH4 : 3 ≤ f.nbits → 4 ≤ 2 ^ (f.nbits - 1) := fun h => by
    have := two_pow_ge 2 (f.nbits - 1) (by omega); omega
  have hA2 : 2 ≤ f.pmax → 2 ≤ 2 ^ f.m := fun h => by
    have := two_pow_ge 1 f.m (by unfold EF.m; omega); omega
  -- the fields and the resulting code, kind by kind
  have key : ∃ e mb, f.encodeFields (.inf s) = .ok (e, mb) ∧ mb < 2 ^ f.m ∧
      2 ^ f.m * e + mb = efGmax f + 1 ∧ efGmax f + 1 < 2 ^ (f.nbits - 1) := by
    unfold EF.encodeFields efGmax bitmask
    simp only [hpm1, hAB1, hi, if_true]
    cases hk : f.kind <;> simp only
    · have ⟨he, _⟩ := hki hk
      have hb2 := hB2 he
      have : 2 ^ f.m * 2 ≤ 2 ^ (f.nbits - 1) := by rw [hH]; exact Nat.mul_le_mul_left _ hb2
      refine ⟨_, _, rfl, hA, ?_, ?_⟩
      · rw [Nat.add_zero, hAB1]; omega
      · omega
    · have ⟨h2, h3⟩ := hkm hk
      have := hH4 (h3 hi)
      by_cases hp1 : f.pmax = 1
      · -- one-bit significand: no mantissa field, ∞ is the exponent code below the NaN code
        have hm0 : f.m = 0 := by unfold EF.m; omega
        have hA1 : 2 ^ f.m = 1 := by rw [hm0]
        simp only [hp1, if_true]
        refine ⟨_, _, rfl, hA, ?_, by omega⟩
        rw [hA1] at hH ⊢
        omega
      · have := hA2 (by omega)
        simp only [hp1, if_false]
        refine ⟨_, _, rfl, by omega, ?_, by omega⟩
        rw [hAB1]; omega
    · have := hH2 (hkz (.inl hk) hi)
      refine ⟨_, _, rfl, by omega, ?_, by omega⟩
      rw [hAB1]; omega
    · have := hH2 (hkz (.inr hk) hi)
      refine ⟨_, _, rfl, by omega, ?_, by omega⟩
      rw [hAB1]; omega
  obtain ⟨e, mb, hf, hmb, hsum, hlt⟩ := key
  refine ⟨hlt, ?_⟩
  rw [ef_encode_of_fields f _ e mb hr0 hf, Nat.or_assoc, two_pow_mul_or _ _ _ hmb, hsum,
    or_field_add _ _ _ ⟨_, rfl⟩ hlt]
  rfl

/-- `encode(NaN)` returns a pattern in range that decodes to NaN (whatever the sign of the NaN) -/
theorem ef_encode_nan (f : EF) (hv : f.valid = true) (s : Bool) (hr : f.repr (.nan s) = true) :
    ∃ b t, f.encode (.nan s) = .ok b ∧ b < 2 ^ f.nbits ∧ f.decode b = .ok (.nan t) := by
  have ⟨hn, hes⟩ := ef_valid_basic f hv
  have ⟨hki, hkm, hkz⟩ := ef_valid_kind f hv
  have ⟨hH, hA, hB, hAB1, hAle⟩ := ef_pow_facts f hv
  have hr0 := hr
  have hpm1 : f.pmax - 1 = f.m := rfl
  have hB2 : 1 ≤ f.es → 2 ≤ 2 ^ f.es := fun h => by
    have := two_pow_pred f.es h; have := two_pow_pos' (f.es - 1); omega
  have hH2 : 2 ≤ f.nbits → 2 ≤ 2 ^ (f.nbits - 1) := fun h => by
    have := two_pow_ge 1 (f.nbits - 1) (by omega); omega
  have hH4 : 3 ≤ f.nbits → 4 ≤ 2 ^ (f.nbits - 1) := fun h => by
    have := two_pow_ge 2 (f.nbits - 1) (by omega); omega
  -- fields and resulting code `G'`, with the facts that make it a NaN code
  have key : ∃ e mb G', f.encodeFields (.nan s) = .ok (e, mb) ∧ mb < 2 ^ f.m ∧ 2 ^ f.m * e + mb = G' ∧
      G' < 2 ^ (f.nbits - 1) ∧
      ((f.kind = .negZero ∧ G' = 0) ∨
       (f.kind ≠ .negZero ∧ ¬ G' ≤ efGmax f ∧ ¬ (f.inf = true ∧ G' = efGmax f + 1))) := by
    unfold EF.encodeFields efGmax bitmask
    simp only [hpm1, hAB1]
    cases hk : f.kind <;> simp only
    · -- IEEE
      have ⟨he, hpi⟩ := hki hk
      have hb2 := hB2 he
      have h2A : 2 ^ f.m * 2 ≤ 2 ^ (f.nbits - 1) := by rw [hH]; exact Nat.mul_le_mul_left _ hb2
      cases hi : f.inf
      · simp only [Bool.false_eq_true, if_false]
        refine ⟨_, _, _, rfl, hA, rfl, ?_, .inr ⟨by simp, ?_, by simp⟩⟩
        · rw [Nat.add_zero, hAB1]; omega
        · rw [Nat.add_zero, hAB1]; omega
      · have hm1 : 1 ≤ f.m := by have := hpi hi; unfold EF.m; rw [ef_pmax]; omega
        have hm0 : ¬ f.m = 0 := by omega
        have hhalf := two_pow_pred f.m hm1
        have hpos := two_pow_pos' (f.m - 1)
        simp only [if_true, hm0, if_false]
        refine ⟨_, _, _, rfl, by omega, rfl, ?_, .inr ⟨by simp, ?_, ?_⟩⟩
        · rw [hAB1]; omega
        · rw [hAB1]; omega
        · rw [hAB1]; omega
    · -- MAX_VAL
      have ⟨h2, h3⟩ := hkm hk
      have := hH2 h2
      refine ⟨_, _, _, rfl, by omega, rfl, by rw [hAB1]; omega, .inr ⟨by simp, ?_, ?_⟩⟩
      · rw [hAB1]; split <;> omega
      · rw [hAB1]; intro ⟨hi, h⟩
        have := hH4 (h3 hi)
        simp only [hi, if_true] at h; omega
    · -- NEG_ZERO
      exact ⟨_, _, _, rfl, hA, rfl, by simp; exact two_pow_pos' _, .inl ⟨trivial, by simp⟩⟩
    · -- NONE: NaN is not representable
      rw [ef_repr_nan, hk] at hr; simp at hr
  obtain ⟨e, mb, G', hf, hmb, hsum, hlt, hcls⟩ := key
  have hsb : f.encodeSign (.nan s) ≤ 1 := by
    unfold EF.encodeSign; simp only; split <;> (try split) <;> omega
  have henc : f.encode (.nan s) = .ok (2 ^ (f.nbits - 1) * f.encodeSign (.nan s) + G') := by
    rw [ef_encode_of_fields f _ e mb hr0 hf, Nat.or_assoc, two_pow_mul_or _ _ _ hmb, hsum,
      or_field_add _ _ _ ⟨_, rfl⟩ hlt]
  have ⟨hblt, hdec⟩ := ef_decode_split f hv (f.encodeSign (.nan s)) G' hsb hlt
  refine ⟨_, decide (f.encodeSign (.nan s) = 1), henc, hblt, ?_⟩
  rw [hdec]
  rcases hcls with ⟨h1, h2⟩ | ⟨h1, h2, h3⟩
  · have h3 : f.encodeSign (.nan s) = 1 := by unfold EF.encodeSign; simp [h1]
    simp [h1, h2, h3]
  · have : ¬ (f.kind = .negZero ∧ G' = 0 ∧ f.encodeSign (.nan s) = 1) := fun h => h1 h.1
    simp only [this, if_false, h2, h3]

theorem sameValue_symm {x y : RF} (h : sameValue x y) : sameValue y x := by
  unfold sameValue at *; rw [Int.min_comm]; exact h.symm

/-- **decode ∘ encode** on every representable value: finite numbers (any `(exp, c)` spelling, ±0),
±∞, and NaN up to its payload/sign -/
theorem ef_decode_encode (f : EF) (hv : f.valid = true) (v : FV) (hr : f.repr v = true) :
    ∃ b w, f.encode v = .ok b ∧ b < 2 ^ f.nbits ∧ f.decode b = .ok w ∧ sameFV v w := by
  have hp := ef_pmax_pos f hv
  have hH := two_pow_pos' (f.nbits - 1)
  cases v with
  | nan s =>
    obtain ⟨b, t, h1, h2, h3⟩ := ef_encode_nan f hv s hr
    exact ⟨b, .nan t, h1, h2, h3, trivial⟩
  | inf s =>
    have ⟨hlt, henc⟩ := ef_encode_inf f hv s hr
    have ⟨hblt, hdec⟩ := ef_decode_split f hv (if s then 1 else 0) (efGmax f + 1) (by cases s <;> simp) hlt
    rw [ef_repr_inf] at hr
    refine ⟨_, .inf s, henc, hblt, ?_, rfl⟩
    rw [hdec]
    have a : ¬ (f.kind = .negZero ∧ efGmax f + 1 = 0 ∧ (if s then 1 else 0) = 1) := by omega
    have b : ¬ (efGmax f + 1 ≤ efGmax f) := by omega
    simp only [a, b, if_false, hr, and_self, if_true]
    cases s <;> simp
  | fin x =>
    by_cases hc : x.c = 0
    · have henc := ef_encode_fin_zero f x hc hr
      have ⟨hblt, hdec⟩ := ef_decode_split f hv (if x.s then 1 else 0) 0 (by cases x.s <;> simp) hH
      rw [Nat.add_zero] at hblt hdec
      rw [ef_repr_fin_zero f x hc] at hr
      refine ⟨_, .fin ⟨x.s, f.expmin, 0⟩, henc, hblt, ?_, ?_⟩
      · rw [hdec]
        have a : ¬ (f.kind = .negZero ∧ 0 = 0 ∧ (if x.s then 1 else 0) = 1) := by
          intro ⟨h1, _, h3⟩
          have : x.s = true := by cases h : x.s <;> simp [h] at h3 ⊢
          rw [this, h1] at hr; simp at hr
        simp only [a, if_false, Nat.zero_le, if_true]
        have e : decide ((if x.s then 1 else 0) = 1) = x.s := by cases x.s <;> simp
        rw [e]
        unfold efNumber; simp only [if_true]
        rw [if_neg (fun h => a ⟨h.1, rfl, h.2.2⟩)]
      · refine ⟨?_, rfl⟩
        unfold sameValue; rw [units_zero hc, units_zero rfl]
    · have ⟨hle, henc⟩ := ef_encode_fin_nonzero f hv x hc hr
      have hlt : mpsUord f.mpb.mps x < 2 ^ (f.nbits - 1) := Nat.lt_of_le_of_lt hle (ef_Gmax_lt f hv)
      have ⟨hblt, hdec⟩ := ef_decode_split f hv (if x.s then 1 else 0) _ (by cases x.s <;> simp) hlt
      rw [ef_repr_fin_nonzero f hv x hc] at hr
      simp only [Bool.and_eq_true, decide_eq_true_eq] at hr
      have hrr := hr.1.1
      have hU := (mps_uord_mag f.mpb.mps hp x hc hrr (min x.exp f.mpb.mps.expmin) (by omega) (by omega)).1
      refine ⟨_, .fin (efNumber f x.s (mpsUord f.mpb.mps x)), henc, hblt, ?_, ?_⟩
      · rw [hdec]
        have a : ¬ (f.kind = .negZero ∧ mpsUord f.mpb.mps x = 0 ∧ (if x.s then 1 else 0) = 1) := fun h => hU h.2.1
        simp only [a, if_false, hle, if_true]
        cases x.s <;> simp
      · have ⟨_, hs, _, _⟩ := efNumber_facts f hv x.s _ hU
        refine ⟨sameValue_symm ?_, hs.symm⟩
        have : efNumber f x.s (mpsUord f.mpb.mps x) = f.mpb.mps.unordRF (f.mpb.mps.ordRF x) := by
          unfold efNumber; simp only [hU, if_false]; rw [mps_ordRF_eq _ x hc]
        rw [this]
        exact mps_from_to_ordinal f.mpb.mps hp x hrr

end Fpy
