/-
Helper lemmas for C02 at the level of `ops.<op>`: shape of `_normalize`, of the engine dispatch, and of
the MPFR arms whose exact result is a dyadic value.
-/
import Fpy.Proof.EngineLemmas
namespace Fpy
open Fpy.Spec

/-- an `ops` result agrees with a rounding result: same value, same `inexact` and `overflow`, or same error -/
def OpAgree (a : Except Err (NV × Flags)) (b : Except Err Res) : Prop :=
  match a, b with
  | .ok (v, fl), .ok r => v = .fv r.v ∧ fl.inexact = r.fl.inexact ∧ fl.overflow = r.fl.overflow
  | .error e, .error e' => e = e'
  | _, _ => False

theorem OpAgree.trans {a : Except Err (NV × Flags)} {b c : Except Err Res}
    (h1 : OpAgree a b) (h2 : Res.agree b c) : OpAgree a c := by
  cases a with
  | error e => cases b with
    | error e' => cases c with
      | error e'' => simp only [OpAgree, Res.agree] at *; rw [h1, h2]
      | ok r => simp [Res.agree] at h2
    | ok r => simp [OpAgree] at h1
  | ok p => cases b with
    | error e' => simp [OpAgree] at h1
    | ok r => cases c with
      | error e'' => simp [Res.agree] at h2
      | ok r' =>
        obtain ⟨v, fl⟩ := p
        simp only [OpAgree, Res.agree] at *
        exact ⟨by rw [h1.1, h2.1], by rw [h1.2.1, h2.2.1], by rw [h1.2.2, h2.2.2]⟩

theorem normFlags_inexact (args : List NV) (res : NV) (fl : Flags) :
    (normFlags args res fl).inexact = fl.inexact ∧ (normFlags args res fl).overflow = fl.overflow := by
  unfold normFlags
  split
  · split <;> exact ⟨rfl, rfl⟩
  · split
    · split <;> exact ⟨rfl, rfl⟩
    · exact ⟨rfl, rfl⟩

/-- `_normalize` on a `Float` engine result is one `ctx.round` (the `invalid`/`divzero` logic touches no
other flag) -/
theorem opNormalize_fv (C : Ctx) (args : List NV) (v : FV) (b : Bool) :
    OpAgree (opNormalize C args (.fv v) b) (C.roundAtCore v none false 0) := by
  unfold opNormalize roundNV resToNV
  cases hr : C.roundAtCore v none false 0 with
  | error e => cases C.isReal <;> simp [hr, Except.map, OpAgree]
  | ok r =>
    cases C.isReal <;> cases b <;> simp [hr, Except.map, OpAgree, normFlags_inexact]

theorem det_params (C : Ctx) (hC : C.det) : (C.roundParams.1.isNone && C.roundParams.2.isNone) = false := by
  cases C with
  | real => exact absurd hC (by simp [Ctx.det])
  | mp p rm k o => obtain ⟨hk, _⟩ := hC; subst hk; simp [Ctx.roundParams, widenP]
  | mps p emin rm k o => obtain ⟨hk, _⟩ := hC; subst hk; simp [Ctx.roundParams]
  | mpb c => obtain ⟨hk, _⟩ := hC; simp [Ctx.roundParams, hk]
  | efloat c =>
    obtain ⟨hk, _⟩ := hC
    have hk' : c.mpb.k = some 0 := by unfold EFloatParams.mpb; simp only [hk]
    simp [Ctx.roundParams, hk']
  | mpfix nmin rm k nz o => have hk : k = some 0 := hC; subst hk; simp [Ctx.roundParams, widenN]
  | mpbfix c => have hk : c.k = some 0 := hC; simp [Ctx.roundParams, widenN, hk]
  | exp c => exact absurd hC (by simp [Ctx.det])

theorem all_fv (fvs : List FV) :
    (fvs.map NV.fv).all nvIsFloat = true := by
  induction fvs with
  | nil => rfl
  | cons a t ih => simp only [List.map_cons, List.all_cons, ih, Bool.and_true, nvIsFloat]

theorem filterMap_fv (fvs : List FV) :
    (fvs.map NV.fv).filterMap nvFloat? = fvs := by
  induction fvs with
  | nil => rfl
  | cons a t ih => simp only [List.map_cons, List.filterMap_cons, ih, nvFloat?]

/-- engine dispatch on `Float` operands under a deterministic context: the MPFR arm answers -/
theorem opEngines_mpfr (C : Ctx) (hC : C.det) (op : Op) (fvs : List FV) (v : FV)
    (h : mpfrOp op fvs C.roundParams.1 C.roundParams.2 = some (.ok v)) :
    opEngines C op (fvs.map NV.fv) = opNormalize C (fvs.map NV.fv) (.fv v) true := by
  unfold opEngines
  simp only [all_fv, filterMap_fv, det_params C hC, Bool.not_false, Bool.and_self, if_true, h]

/-- zero operand of `_round_at`: only its sign matters -/
theorem roundAtCore_zero (C : Ctx) (hC : C.det) (z : RF) (hz : z.c = 0) :
    C.roundAtCore (.fin ⟨z.s, 0, 0⟩) none false 0 = C.roundAtCore (.fin z) none false 0 := by
  cases C with
  | real => exact absurd hC (by simp [Ctx.det])
  | mp p rm k o => simp [Ctx.roundAtCore, floatSpecial, hz]
  | mps p emin rm k o => simp [Ctx.roundAtCore, floatSpecial, hz]
  | mpb c => simp [Ctx.roundAtCore, mpbRoundAt, floatSpecial, hz]
  | efloat c => simp [Ctx.roundAtCore, mpbRoundAt, floatSpecial, hz]
  | mpfix nmin rm k nz o => simp [Ctx.roundAtCore, fixedSpecial, hz]
  | mpbfix c => simp [Ctx.roundAtCore, mpbfixRoundAt, fixedSpecial, hz]
  | exp c => exact absurd hC (by simp [Ctx.det])

/-- what MPFR returns for an operation whose exact result is the dyadic value `z`
(zero keeps the sign `z.s`; non-zero is rounded to odd at the working precision) -/
def mpfrOfExact (z : RF) (prec : Option Nat) (n : Option Int) : Except Err FV :=
  if z.c = 0 then .ok (.fin ⟨z.s, 0, 0⟩) else (mpfrRtoRF z prec n).map FV.fin

/-- **single rounding, generic form**: if the MPFR arm of `op` returns the round-to-odd intermediate of the
exact dyadic value `z`, then `ops.op` under a deterministic context is `z` rounded once -/
theorem op_exact_correct (C : Ctx) (hC : C.det) (op : Op) (fvs : List FV) (z : RF)
    (hop : opEvalFl C op (fvs.map NV.fv) = opEngines C op (fvs.map NV.fv))
    (hm : mpfrOp op fvs C.roundParams.1 C.roundParams.2 = some (mpfrOfExact z C.roundParams.1 C.roundParams.2)) :
    OpAgree (opEvalFl C op (fvs.map NV.fv)) (C.roundAtCore (.fin z) none false 0) := by
  rw [hop]
  by_cases hz : z.c = 0
  · have hv : mpfrOfExact z C.roundParams.1 C.roundParams.2 = .ok (.fin ⟨z.s, 0, 0⟩) := by
      unfold mpfrOfExact; simp only [hz, if_true]
    rw [hv] at hm
    rw [opEngines_mpfr C hC op fvs _ hm, ← roundAtCore_zero C hC z hz]
    exact opNormalize_fv C _ _ true
  · obtain ⟨z', h1, _, hag⟩ := rto_normalize C hC z hz
    have hv : mpfrOfExact z C.roundParams.1 C.roundParams.2 = .ok (.fin z') := by
      unfold mpfrOfExact; simp only [hz, if_false, h1]; rfl
    rw [hv] at hm
    rw [opEngines_mpfr C hC op fvs _ hm]
    exact (opNormalize_fv C _ _ true).trans hag

/-- exact cancellation in `RealFloat.__add__` gives `+0` -/
theorem add_cancel_sign (x y : RF) (h : ¬ (x.c = 0 ∧ y.c = 0)) (hz : (x.add y).c = 0) : (x.add y).s = false := by
  unfold RF.add at hz ⊢
  by_cases hx : x.c = 0
  · have hy : ¬ y.c = 0 := fun hy => h ⟨hx, hy⟩
    simp only [hx, hy, if_true, if_false] at hz
  · by_cases hy : y.c = 0
    · simp only [hx, hy, if_true, if_false] at hz
    · simp only [hx, hy, if_false] at hz ⊢
      simp only [decide_eq_false_iff_not]
      omega

/-- the `add`-style MPFR arm (also inside `sub` and `fma`) is `mpfrOfExact` of the exact sum -/
theorem addArm_form (a b : RF) (prec : Option Nat) (n : Option Int) :
    (if (a.c = 0 && b.c = 0) = true then (Except.ok (FV.fin ⟨a.s && b.s, 0, 0⟩) : Except Err FV)
     else if (a.add b).c = 0 then .ok (.fin ⟨false, 0, 0⟩) else (mpfrRtoRF (a.add b) prec n).map FV.fin)
      = mpfrOfExact (a.add b) prec n := by
  unfold mpfrOfExact
  by_cases h : a.c = 0 ∧ b.c = 0
  · have e : a.add b = ⟨a.s && b.s, min a.exp b.exp, 0⟩ := by unfold RF.add; simp [h.1, h.2]
    simp [h.1, h.2, e]
  · have h' : ¬ ((a.c = 0 && b.c = 0) = true) := by simpa using h
    rw [if_neg h']
    by_cases hz : (a.add b).c = 0
    · rw [if_pos hz, if_pos hz, add_cancel_sign a b h hz]
    · rw [if_neg hz, if_neg hz]

end Fpy
