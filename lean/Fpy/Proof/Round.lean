/-
Helper lemmas: the bit-level rounding core of the model computes the
arithmetic specification `Spec.roundQuot`.
-/
import Fpy.Spec.Rounding
namespace Fpy
open Fpy.Spec

theorem bitLength_le_iff (c k : Nat) : bitLength c ≤ k ↔ c < 2 ^ k := by
  unfold bitLength
  by_cases h : c = 0
  · simp [h, Nat.pow_pos]
  · simp only [h, if_false]
    rw [← Nat.log2_lt h]; omega

theorem bitLength_eq_iff (c k : Nat) (hk : 1 ≤ k) : bitLength c = k ↔ 2 ^ (k - 1) ≤ c ∧ c < 2 ^ k := by
  unfold bitLength
  by_cases h : c = 0
  · subst h
    have : 0 < 2 ^ (k - 1) := Nat.pow_pos (by decide)
    simp; omega
  · simp only [h, if_false]
    have := Nat.log2_eq_iff (n := c) (k := k - 1) h
    rw [Nat.sub_add_cancel hk] at this
    rw [← this]; omega

theorem bitLength_pos {c : Nat} (h : c ≠ 0) : 1 ≤ bitLength c := by
  unfold bitLength; simp [h]

/-- the half-bit / lower-bits extraction of `_round_increment`, in arithmetic:
`r` is the lost part, `H = 2^(k-1)` half the grid spacing. -/
theorem halfLower_spec (s : Bool) (exp n : Int) (r k : Nat) (hk1 : 1 ≤ k) (hkn : (k : Int) = n + 1 - exp)
    (hr : r ≠ 0) (hm : r < 2 ^ k) :
    (if RF.e ⟨s, exp, r⟩ = n then
        (r / 2 ^ (RF.p ⟨s, exp, r⟩ - 1) != 0, r % 2 ^ (RF.p ⟨s, exp, r⟩ - 1) != 0)
      else (false, true))
    = (decide (2 ^ (k - 1) ≤ r), decide (r ≠ 2 ^ (k - 1))) := by
  have hbl := bitLength_pos hr
  have hpow : 2 ^ k = 2 * 2 ^ (k - 1) := by
    conv => lhs; rw [show k = (k - 1) + 1 by omega]
    rw [Nat.pow_succ]; omega
  have he : (RF.e ⟨s, exp, r⟩ = n) ↔ bitLength r = k := by
    unfold RF.e RF.p; simp only; omega
  by_cases hfull : bitLength r = k
  · have ⟨h1, _⟩ := (bitLength_eq_iff r k hk1).1 hfull
    have hp : RF.p ⟨s, exp, r⟩ = k := by unfold RF.p; exact hfull
    have hdiv : r / 2 ^ (k - 1) = 1 := by
      apply Nat.div_eq_of_lt_le <;> omega
    have hmod : r % 2 ^ (k - 1) = r - 2 ^ (k - 1) := by
      have := Nat.div_add_mod r (2 ^ (k - 1)); rw [hdiv] at this; omega
    rw [if_pos (he.2 hfull), hp, hdiv, hmod]
    generalize 2 ^ (k - 1) = H at *
    simp only [Prod.mk.injEq]
    constructor
    · simp; exact h1
    · by_cases hh : r = H
      · subst hh; simp
      · have : r - H ≠ 0 := by omega
        simp [this, hh]
  · have hlt : r < 2 ^ (k - 1) := by
      have h2 : bitLength r ≤ k := (bitLength_le_iff r k).2 hm
      have h3 : bitLength r ≤ k - 1 := by omega
      exact (bitLength_le_iff r (k - 1)).1 h3
    rw [if_neg (fun h => hfull (he.1 h))]
    generalize 2 ^ (k - 1) = H at *
    have h1 : ¬ H ≤ r := by omega
    have h2 : r ≠ H := by omega
    simp [h1, h2]

/-- `_round_increment` decides exactly "the prescribed neighbour is the upper one" -/
theorem roundIncrement_spec (s : Bool) (exp n : Int) (c : Nat) (rm : RM)
    (hle : exp ≤ n) (hr : c % 2 ^ (n + 1 - exp).toNat ≠ 0) :
    RF.roundIncrement ⟨s, n + 1, c / 2 ^ (n + 1 - exp).toNat⟩ ⟨s, exp, c % 2 ^ (n + 1 - exp).toNat⟩ n rm
      = decide (roundQuot rm s c (n + 1 - exp).toNat = c / 2 ^ (n + 1 - exp).toNat + 1) := by
  generalize hk : (n + 1 - exp).toNat = k at *
  have hk1 : 1 ≤ k := by omega
  have hkn : (k : Int) = n + 1 - exp := by omega
  have hG : 0 < 2 ^ k := Nat.pow_pos (by decide)
  have hm : c % 2 ^ k < 2 ^ k := Nat.mod_lt _ hG
  have hpow : 2 ^ k = 2 * 2 ^ (k - 1) := by
    conv => lhs; rw [show k = (k - 1) + 1 by omega]
    rw [Nat.pow_succ]; omega
  generalize hq : c / 2 ^ k = q at *
  generalize hrr : c % 2 ^ k = r at *
  have hl := halfLower_spec s exp n r k hk1 hkn hr hm
  unfold RF.roundIncrement roundQuot
  simp only [hq, hrr, hr, if_false]
  rw [hpow]
  generalize 2 ^ (k - 1) = H at *
  cases rm <;> cases s <;> simp only [RM.toDirection, RF.incrDir, if_true, hl] <;>
    by_cases h1 : H ≤ r <;> by_cases h2 : r = H <;> by_cases h3 : q % 2 = 0 <;>
    by_cases h4 : r < H <;> by_cases h5 : H < r <;>
    simp [h1, h2, h3, h4, h5] <;> omega

/-- `split` at a position at or above the LSB is quotient/remainder by `2^k` -/
theorem split_spec (x : RF) (n : Int) (hc : x.c ≠ 0) (hle : x.exp ≤ n) :
    x.split n = (⟨x.s, n + 1, x.c / 2 ^ (n + 1 - x.exp).toNat⟩, ⟨x.s, x.exp, x.c % 2 ^ (n + 1 - x.exp).toNat⟩) := by
  unfold RF.split
  simp only [hc, if_false]
  by_cases h1 : n ≥ x.e
  · simp only [h1, if_true]
    have hlt : x.c < 2 ^ (n + 1 - x.exp).toNat := by
      apply (bitLength_le_iff _ _).1
      unfold RF.e RF.p at h1; omega
    rw [Nat.div_eq_of_lt hlt, Nat.mod_eq_of_lt hlt]
  · have h2 : ¬ n < x.exp := by omega
    simp only [h1, h2, if_false]
    congr 2
    omega

/-- **Fixed-point style rounding** (`p = None`): the bit-level `_round_at` returns the grid point
`roundQuot · 2^(n+1)` prescribed by the arithmetic specification, flags `inexact` exactly when
digits were lost, and raises nothing. -/
theorem roundAtCore_fixed (x : RF) (n : Int) (rm : RM) (hc : x.c ≠ 0) (hle : x.exp ≤ n) :
    x.roundAtCore none n none rm false =
      .ok (⟨x.s, n + 1, roundQuot rm x.s x.c (n + 1 - x.exp).toNat⟩,
           { inexact := decide (x.c % 2 ^ (n + 1 - x.exp).toNat ≠ 0) }) := by
  unfold RF.roundAtCore
  have h0 : ¬ (x.exp > n) := by omega
  simp only [h0, decide_false, Bool.false_and, Bool.false_eq_true, if_false, split_spec x n hc hle]
  by_cases hr : x.c % 2 ^ (n + 1 - x.exp).toNat = 0
  · simp [hr, roundQuot_exact]
  · simp only [hr, if_false, roundIncrement_spec x.s x.exp n x.c rm hle hr]
    rcases roundQuot_neighbour rm x.s x.c (n + 1 - x.exp).toNat with h | h <;> simp [h] <;> exact hr

/-- with `exact=True` the same call raises exactly when digits would be lost -/
theorem roundAtCore_fixed_exact (x : RF) (n : Int) (rm : RM) (hc : x.c ≠ 0) (hle : x.exp ≤ n) :
    x.roundAtCore none n none rm true =
      if x.c % 2 ^ (n + 1 - x.exp).toNat = 0 then .ok (⟨x.s, n + 1, x.c / 2 ^ (n + 1 - x.exp).toNat⟩, {})
      else .error .valueError := by
  unfold RF.roundAtCore
  have h0 : ¬ (x.exp > n) := by omega
  simp only [h0, decide_false, Bool.false_and, Bool.false_eq_true, if_false, split_spec x n hc hle]
  by_cases hr : x.c % 2 ^ (n + 1 - x.exp).toNat = 0 <;> simp [hr]

/-- all digits above the rounding position: returned unchanged, exact -/
theorem roundAtCore_above (x : RF) (n : Int) (emin : Option Int) (rm : RM) (exact : Bool) (h : x.exp > n) :
    ∃ fl, x.roundAtCore none n emin rm exact = .ok (x, fl) ∧ fl.inexact = false := by
  unfold RF.roundAtCore
  simp [h]

theorem two_pow_pred (p : Nat) (hp : 1 ≤ p) : 2 ^ p = 2 * 2 ^ (p - 1) := by
  conv => lhs; rw [show p = (p - 1) + 1 by omega]
  rw [Nat.pow_succ]; omega

/-- **Floating-point style rounding** (`p` digits, position `n` no lower than `e - p`, as
`_round_params` guarantees): the result keeps the sign, fits in `p` digits, lies above `n`,
and its magnitude is the grid point prescribed by `roundQuot` (a carry into the next binade is
the same real number re-normalised). -/
theorem roundAtCore_prec (x : RF) (p : Nat) (n : Int) (emin : Option Int) (rm : RM)
    (hc : x.c ≠ 0) (hp : 1 ≤ p) (hn : x.e - p ≤ n) :
    ∃ y fl, x.roundAtCore (some p) n emin rm false = .ok (y, fl) ∧ y.s = x.s ∧ bitLength y.c ≤ p ∧ y.exp > n ∧
      (x.exp > n → y = x ∧ fl.inexact = false) ∧
      (x.exp ≤ n →
        y.c * 2 ^ (y.exp - (n + 1)).toNat = roundQuot rm x.s x.c (n + 1 - x.exp).toNat ∧
        fl.inexact = decide (x.c % 2 ^ (n + 1 - x.exp).toNat ≠ 0)) := by
  have hbl := bitLength_pos hc
  by_cases h0 : x.exp > n
  · -- fast path
    have hfit : x.p ≤ p := by unfold RF.e at hn; omega
    unfold RF.roundAtCore; simp only [h0, hfit, decide_true, Bool.and_self, if_true]
    exact ⟨_, _, rfl, rfl, hfit, h0, fun _ => ⟨rfl, rfl⟩, fun h => absurd h (by omega)⟩
  · have hle : x.exp ≤ n := by omega
    generalize hk : (n + 1 - x.exp).toNat = k at *
    have hkn : (k : Int) = n + 1 - x.exp := by omega
    have hG : 0 < 2 ^ k := Nat.pow_pos (by decide)
    -- the quotient fits in p digits
    have hq : x.c / 2 ^ k < 2 ^ p := by
      have h1 : x.c < 2 ^ (bitLength x.c) := (bitLength_le_iff _ _).1 (Nat.le_refl _)
      have h2 : bitLength x.c ≤ p + k := by unfold RF.e RF.p at hn; omega
      have h3 : x.c < 2 ^ (p + k) := Nat.lt_of_lt_of_le h1 (Nat.pow_le_pow_right (by decide) h2)
      rw [Nat.pow_add] at h3
      exact (Nat.div_lt_iff_lt_mul hG).2 h3
    unfold RF.roundAtCore
    simp only [h0, decide_false, Bool.false_and, Bool.false_eq_true, if_false, split_spec x n hc hle, hk]
    by_cases hr : x.c % 2 ^ k = 0
    · simp only [hr, if_true]
      refine ⟨_, _, rfl, rfl, (bitLength_le_iff _ _).2 hq, (by simp <;> omega), fun h => (by first | exact absurd h h0 | exact False.elim h), fun _ => ?_⟩
      simp [hr, roundQuot_exact]
    · simp only [hr, if_false]
      have hinc := roundIncrement_spec x.s x.exp n x.c rm hle (by rw [hk]; exact hr)
      rw [hk] at hinc
      rw [hinc]
      rcases roundQuot_neighbour rm x.s x.c k with h | h
      · -- no increment
        have hne : ¬ (x.c / 2 ^ k = x.c / 2 ^ k + 1) := by omega
        simp only [h, hne, decide_false, Bool.false_eq_true, if_false]
        refine ⟨_, _, rfl, rfl, (bitLength_le_iff _ _).2 hq, (by simp <;> omega), fun h => (by first | exact absurd h h0 | exact False.elim h), fun _ => ?_⟩
        simp [hr]
      · simp only [h, decide_true, if_true]
        by_cases hcarry : bitLength (x.c / 2 ^ k + 1) > p
        · -- carry: q + 1 = 2^p
          have h2p : x.c / 2 ^ k + 1 = 2 ^ p := by
            have := (bitLength_le_iff (x.c / 2 ^ k + 1) p)
            have h' : ¬ (x.c / 2 ^ k + 1 < 2 ^ p) := fun hh => by have := this.2 hh; omega
            omega
          simp only [hcarry, if_true]
          refine ⟨_, _, rfl, rfl, ?_, (by simp <;> omega), fun h => (by first | exact absurd h h0 | exact False.elim h), fun _ => ⟨?_, by simp [hr]⟩⟩
          · simp only [h2p]
            rw [two_pow_pred p hp, Nat.mul_div_cancel_left _ (by decide : 0 < 2)]
            apply (bitLength_le_iff _ _).2
            rw [two_pow_pred p hp]; have := Nat.pow_pos (n := p - 1) (by decide : 0 < 2); omega
          · simp only [h2p]
            rw [two_pow_pred p hp, Nat.mul_div_cancel_left _ (by decide : 0 < 2)]
            have : (n + 1 + 1 - (n + 1)).toNat = 1 := by omega
            rw [this]; omega
        · simp only [hcarry, if_false]
          refine ⟨_, _, rfl, rfl, (by simp <;> omega), (by simp <;> omega), fun h => (by first | exact absurd h h0 | exact False.elim h), fun _ => ⟨by simp, by simp [hr]⟩⟩

end Fpy
