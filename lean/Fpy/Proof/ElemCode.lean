/-
C03 — the integer code `2·⌊N/D⌋ + [N/D ∉ ℤ]` of a rational rounds like the rational itself
(helper lemmas for `Props/C03.lean`; the arithmetic specification is `Spec.roundQuotG`).
-/
import Fpy.Spec.RoundRat
import Fpy.Proof.RoundOdd
namespace Fpy.C03
open Fpy Fpy.Spec

/-- what `roundQuotG` looks at -/
theorem roundQuotG_congr (rm : RM) (s : Bool) (c G c' G' : Nat)
    (hq : c' / G' = c / G)
    (h0 : c' % G' = 0 ↔ c % G = 0)
    (hlt : 2 * (c' % G') < G' ↔ 2 * (c % G) < G)
    (hgt : 2 * (c' % G') > G' ↔ 2 * (c % G) > G) :
    roundQuotG rm s c' G' = roundQuotG rm s c G := by
  unfold roundQuotG
  simp only [hq]
  by_cases z : c % G = 0
  · simp [z, h0.2 z]
  · have z' : ¬ c' % G' = 0 := fun h => z (h0.1 h)
    simp only [z, z', if_false]
    cases rm <;> simp only []
    · by_cases a : 2 * (c % G) < G
      · simp [a, hlt.2 a]
      · have a' : ¬ 2 * (c' % G') < G' := fun h => a (hlt.1 h)
        by_cases b : 2 * (c % G) > G
        · simp [a, a', b, hgt.2 b]
        · have b' : ¬ 2 * (c' % G') > G' := fun h => b (hgt.1 h)
          simp [a, a', b, b']
    · by_cases a : 2 * (c % G) < G
      · simp [a, hlt.2 a]
      · have a' : ¬ 2 * (c' % G') < G' := fun h => a (hlt.1 h)
        simp [a, a']

/-- the code of the non-negative rational `N / D` to half a unit with a sticky bit: `2·⌊N/D⌋ + [N/D ∉ ℤ]`
(`C02.realCode (N / D) (N % D != 0)`) -/
def ratCode (N D : Nat) : Nat := 2 * (N / D) + (if N % D = 0 then 0 else 1)

/-- **The code rounds like the rational.**  On every grid of `2^K ≥ 2` units, rounding the integer code on the doubled
grid is rounding the rational `N / D` itself (`roundQuotG` compares `N` with multiples and midpoints of `D·2^K`), in
every mode; and the code is a grid point exactly when the rational is. -/
theorem ratCode_rounds (rm : RM) (s : Bool) (N D K : Nat) (hD : 0 < D) (hK : 1 ≤ K) :
    roundQuot rm s (ratCode N D) (K + 1) = roundQuotG rm s N (D * 2 ^ K) ∧
    (ratCode N D % 2 ^ (K + 1) = 0 ↔ N % (D * 2 ^ K) = 0) := by
  obtain ⟨H, hH, hT⟩ : ∃ H, 0 < H ∧ 2 ^ K = 2 * H := ⟨2 ^ (K - 1), Nat.pow_pos (by decide), two_pow_pred K hK⟩
  have hT2 : 2 ^ (K + 1) = 2 * (2 * H) := by rw [Nat.pow_succ, hT]; omega
  rw [← roundQuotG_pow, hT2, hT]
  generalize hG : D * (2 * H) = G
  have hGpos : 0 < G := by rw [← hG]; exact Nat.mul_pos hD (by omega)
  -- N = G q + r,  r = D a + ρ
  have hN := Nat.div_add_mod N G
  have hr := Nat.mod_lt N hGpos
  generalize hq : N / G = q at *
  generalize hrr : N % G = r at *
  have hr2 := Nat.div_add_mod r D
  have hρ := Nat.mod_lt r hD
  generalize ha : r / D = a at *
  generalize hρρ : r % D = ρ at *
  -- a < 2H
  have haT : a < 2 * H := by
    apply Nat.lt_of_mul_lt_mul_left (a := D)
    rw [hG]; omega
  -- N / D and N % D
  have hND : N / D = (2 * H) * q + a ∧ N % D = ρ := by
    apply div_mod_of_eq _ hρ
    have e : G * q = D * ((2 * H) * q) := by rw [← hG, Nat.mul_assoc]
    have e2 : D * ((2 * H) * q + a) = D * ((2 * H) * q) + D * a := Nat.mul_add _ _ _
    omega
  -- the code
  have hcode : ratCode N D = (2 * (2 * H)) * q + (2 * a + (if ρ = 0 then 0 else 1)) := by
    unfold ratCode; rw [hND.1, hND.2]
    have : 2 * ((2 * H) * q + a) = (2 * (2 * H)) * q + 2 * a := by rw [Nat.mul_add, ← Nat.mul_assoc]
    omega
  have hb : (if ρ = 0 then 0 else 1) ≤ 1 := by split <;> omega
  have hbz : (if ρ = 0 then 0 else 1) = 0 ↔ ρ = 0 := by split <;> simp_all
  generalize hbb : (if ρ = 0 then 0 else 1) = b at *
  obtain ⟨cq, cr⟩ := div_mod_of_eq hcode (show 2 * a + b < 2 * (2 * H) by omega)
  -- nonlinear facts about D·a versus D·H
  have f1 : a < H → D * a + D ≤ D * H := fun h => by
    have := Nat.mul_le_mul_left D (show a + 1 ≤ H by omega); rw [Nat.mul_add, Nat.mul_one] at this; exact this
  have f2 : H ≤ a → D * H ≤ D * a := fun h => Nat.mul_le_mul_left D h
  have f3 : H < a → D * H + D ≤ D * a := fun h => by
    have := Nat.mul_le_mul_left D (show H + 1 ≤ a by omega); rw [Nat.mul_add, Nat.mul_one] at this; exact this
  have f4 : a = 0 → D * a = 0 := fun h => by rw [h]; simp
  have f5 : a ≠ 0 → D ≤ D * a := fun h => Nat.le_mul_of_pos_right D (by omega)
  have eG : G = 2 * (D * H) := by rw [← hG, Nat.mul_left_comm]
  generalize hA : D * a = A at *
  generalize hB : D * H = B at *
  have hcase : a < H ∨ a = H ∨ H < a := by omega
  have hfa : a = H → A = B := fun h => by rw [← hA, ← hB, h]
  refine ⟨?_, ?_⟩
  · apply roundQuotG_congr
    · rw [cq, hq]
    · rw [cr, hrr]
      constructor
      · intro h; have := f4 (by omega); have := hbz.1 (by omega); omega
      · intro h
        have ha0 : a = 0 := by
          by_cases z : a = 0
          · exact z
          · have := f5 z; omega
        have := hbz.2 (by omega); omega
    · rw [cr, hrr]
      constructor
      · intro h; have := f1 (by omega); omega
      · intro h
        rcases hcase with c1 | c1 | c1
        · omega
        · have := hfa c1; omega
        · have := f3 c1; omega
    · rw [cr, hrr]
      constructor
      · intro h
        rcases hcase with c1 | c1 | c1
        · omega
        · have := hfa c1
          have : b ≠ 0 := by omega
          have : ρ ≠ 0 := fun hz => this (hbz.2 hz)
          omega
        · have := f3 c1; omega
      · intro h
        rcases hcase with c1 | c1 | c1
        · have := f1 c1; omega
        · have := hfa c1
          have : ρ ≠ 0 := by omega
          have : b ≠ 0 := fun hz => this (hbz.1 hz)
          omega
        · omega
  · rw [cr]
    constructor
    · intro h; have := f4 (by omega); have := hbz.1 (by omega); omega
    · intro h
      have ha0 : a = 0 := by
        by_cases z : a = 0
        · exact z
        · have := f5 z; omega
      have := hbz.2 (by omega); omega


end Fpy.C03
