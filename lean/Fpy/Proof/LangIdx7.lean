/-
Loop restructuring, part 7: `for` unrolling when the length of the iterable is statically known
(`static_size`): no `len`, no `fmod`; the main loop runs to the literal bound `m = k·⌊size/k⌋` (omitted when
`m = 0`) and the remaining `size − m` elements are peeled straight-line with literal indices.  With
`size % k = 0` this is also what the STRICT strategy emits for a known length.
-/
import Fpy.Proof.LangIdx6
namespace Fpy.Xform
open Fpy Fpy.Lang

/-- `_build_peel` / `_build_strict` with a statically known length: `zm` the literal `m`, `zps` the literal
indices `m, m+1, …, size-1` of the peeled copies; `withMain = false` when `m = 0` (no main loop emitted) -/
def forUnrollStatic (CI : Ctx) (p : Pat) (it : Expr) (body : List Stmt) (t idx : String) (offs : List String)
    (lits : List NV) (z0 zm zk : NV) (zps : List NV) (withMain : Bool) : List Stmt :=
  [.assign (.var t) it] ++
  (if withMain then [.for (.var idx) (.range [.num z0, .num zm, .num zk]) (mainBody CI p t idx offs lits body)] else []) ++
  (zps.map Expr.num).flatMap (fun ie => copyStmt p t ie body)

theorem for_unroll_static_rel {Φ : Funs} {CI : Ctx} (IA : IntArith CI) {C : Ctx} {S : List String}
    {p : Pat} {it : Expr} {body rest : List Stmt} {t idx : String} {offs : List String} {lits : List NV}
    {z0 zm zk : NV} {zps : List NV} {k q : Nat} {withMain : Bool}
    (hk : offs.length + 1 = k) (hlits : offs.length = lits.length)
    (hl : ∀ j (h : j < lits.length), nvInt? lits[j] = some ((1 + j : Nat) : Int))
    (hz0 : nvInt? z0 = some 0) (hzk : nvInt? zk = some (k : Int)) (hzm : nvInt? zm = some ((k * q : Nat) : Int))
    (hzps : ∀ j (h : j < zps.length), nvInt? zps[j] = some ((k * q + j : Nat) : Int))
    (hmain : withMain = false → q = 0)
    (hnd : (t :: idx :: offs).Nodup)
    (hfresh : ∀ z ∈ t :: idx :: offs, z ∉ S ∧ z ∉ bvP p ++ bvB body)
    (hbody : ∀ z ∈ readsB body, z ∈ S) (hrest : ∀ z ∈ readsB rest, z ∈ S)
    {σ : Env} {μ : Heap} (hwfh : WFH μ) (hwfe : WFE σ μ)
    /- what the array-size analysis established: the iterable is a list of `k·q + zps.length` elements -/
    (hsize : ∀ v μ0, evalEω Φ σ μ C it = .ok (v, μ0) → ∃ r l, v = .list r ∧ μ0[r]? = some l ∧ l.length = k * q + zps.length) :
    FinRel S (evalBω Φ σ μ C (.for p it body :: rest))
      (evalBω Φ σ μ C (forUnrollStatic CI p it body t idx offs lits z0 zm zk zps withMain ++ rest)) := by
  rw [evalBω_cons', evalSω_for]
  show FinRel S _ (evalBω Φ σ μ C (.assign (.var t) it :: _))
  rw [evalBω_cons', evalSω_assign]
  have hpar := par_evalEω (Φ := Φ) (Nat.le_refl _) hwfe hwfh C it
  cases hit : evalEω Φ σ μ C it with
  | error e => exact rfl
  | ok x =>
    obtain ⟨v, μ0⟩ := x
    obtain ⟨r, l, rfl, hcl, hlen⟩ := hsize v μ0 hit
    rw [hit] at hpar
    obtain ⟨hv, hh0, hx0⟩ := hpar
    dsimp only at hv hh0 hx0
    show FinRel S _ (((bindPatω (.var t) (.list r) σ >>= _) >>= _))
    rw [bindPatω_var]
    simp only [List.nodup_cons, List.mem_cons, not_or] at hnd
    obtain ⟨⟨hti, hto⟩, hio, hoo⟩ := hnd
    have hS : ∀ z ∈ t :: idx :: offs, z ∉ S := fun z hz => (hfresh z hz).1
    have hB : ∀ z ∈ t :: idx :: offs, z ∉ bvP p ++ bvB body := fun z hz => (hfresh z hz).2
    have ht_get : (σ.set t (.list r)).get? t = some (.list r) := by rw [Env.get?_set, if_pos rfl]
    have J0 : Jinv S (fun r => r) [] r l.length t σ μ0 (σ.set t (.list r)) μ0 := by
      refine ⟨(ERS.of_ER (hwfe.mono hx0.e1.le)).congr_right (fun z hz => ?_), hh0, by simp, ⟨l, hcl, rfl⟩, ht_get⟩
      rw [Env.get?_set, if_neg (by intro e; exact hS t (by simp) (e ▸ hz))]
    have hA : AnsOK (fun a b => FinRel S (a >>= thenB Φ C rest) b) :=
      ⟨fun _ => rfl, fun π D _ _ _ _ hh hv => ⟨π, D, hh, hv⟩⟩
    have htp : t ∉ bvP p ++ bvB body := hB t List.mem_cons_self
    -- the peeled copies, then the rest of the caller
    have hpeel : ∀ π' σ1' m1 σ2' m2, Jinv S π' [] r l.length t σ1' m1 σ2' m2 →
        FinRel S (forLoopω Φ σ1' m1 C r (k * q) p body >>= thenB Φ C rest)
          (evalBω Φ σ2' m2 C ((zps.map Expr.num).flatMap (fun ie => copyStmt p t ie body) ++ rest)) := by
      intro π' σ1' m1 σ2' m2 J1
      rw [evalBω_append]
      refine copies_cont (Ans := fun a b => FinRel S (a >>= thenB Φ C rest) b) hA hbody htp (zps.map Expr.num) (k * q) J1
        (fun ie hie z hz => by
          obtain ⟨w, _, rfl⟩ := List.mem_map.1 hie
          simp [readsE] at hz) ?_ (by simp; omega) _ (thenB_ret Φ C rest) ?_
      · intro j hj
        simp only [List.getElem_map]
        exact AtomInt.num (hzps j (by simpa using hj))
      · intro σ1'' m1' σ2'' m2' J2 _ _
        obtain ⟨l', hl', hlen'⟩ := J2.cell
        have hend : k * q + (zps.map Expr.num).length = l.length := by simp; omega
        rw [hend, forLoopω_end Φ σ1'' m1' C r l.length p body hl' (List.getElem?_eq_none (by omega)), ok_bind]
        exact FinRel.of_qss (par_on hrest (Nat.le_refl _) J2.env J2.heap C)
    cases withMain with
    | false =>
      have hq0 := hmain rfl
      subst hq0
      show FinRel S (forLoopω Φ σ μ0 C r 0 p body >>= thenB Φ C rest) (evalBω Φ (σ.set t (.list r)) μ0 C _)
      have := hpeel _ _ _ _ _ J0
      simpa [forUnrollStatic] using this
    | true =>
      show FinRel S (forLoopω Φ σ μ0 C r 0 p body >>= thenB Φ C rest)
        (evalBω Φ (σ.set t (.list r)) μ0 C
          (.for (.var idx) (.range [.num z0, .num zm, .num zk]) (mainBody CI p t idx offs lits body) ::
            ((zps.map Expr.num).flatMap (fun ie => copyStmt p t ie body) ++ rest)))
      refine forstmt_cont (Ans := fun a b => FinRel S (a >>= thenB Φ C rest) b) hA IA hbody 0 k q hk hlits hl
        (List.nodup_cons.2 ⟨hio, hoo⟩) ?_ ?_ (by omega) J0
        (AtomInt.num (by simpa using hz0)) (AtomInt.num (by simpa using hzm)) (AtomInt.num hzk) _ ?_
      · intro z hz
        refine ⟨hS z (List.mem_cons_of_mem _ hz), ?_⟩
        rcases List.mem_cons.1 hz with e | e
        · rw [e]; exact Ne.symm hti
        · intro e'; exact hto (e' ▸ e)
      · intro z hz
        exact hB z hz
      · intro π' σ1' m1 σ2' m2 J1 _
        rw [Nat.zero_add]
        exact hpeel π' σ1' m1 σ2' m2 J1

end Fpy.Xform
