/-
Part 11 of the value-level helpers for C01: rounding the round-to-odd intermediate of a rational
`N/D` is the correct rounding of `N/D` itself (value level), for the fixed and the float shape.
-/
import Fpy.Proof.RoundValRat
import Fpy.Proof.RoundValFloat
namespace Fpy.C01v
open Fpy Fpy.Spec

/-- what `roundDiv` looks at -/
theorem roundDiv_congr (rm : RM) (s : Bool) (N D N' D' : Nat)
    (hq : N' / D' = N / D)
    (h0 : N' % D' = 0 ↔ N % D = 0)
    (hlt : 2 * (N' % D') < D' ↔ 2 * (N % D) < D)
    (hgt : 2 * (N' % D') > D' ↔ 2 * (N % D) > D) :
    roundDiv rm s N' D' = roundDiv rm s N D := by
  unfold roundDiv
  simp only [hq]
  by_cases z : N % D = 0
  · simp [z, h0.2 z]
  · have z' : ¬ N' % D' = 0 := fun h => z (h0.1 h)
    simp only [z, z', if_false]
    cases rm <;> simp only []
    · by_cases a : 2 * (N % D) < D
      · simp [a, hlt.2 a]
      · have a' : ¬ 2 * (N' % D') < D' := fun h => a (hlt.1 h)
        by_cases b : 2 * (N % D) > D
        · simp [a, a', b, hgt.2 b]
        · have b' : ¬ 2 * (N' % D') > D' := fun h => b (hgt.1 h)
          simp [a, a', b, b']
    · by_cases a : 2 * (N % D) < D
      · simp [a, hlt.2 a]
      · have a' : ¬ 2 * (N' % D') < D' := fun h => a (hlt.1 h)
        simp [a, a']

/-- **the code of a real rounds like the real**: the half-unit code `2⌊A/B⌋ + [B ∤ A]` of the
quotient `A/B` on the grid `2^(K+1)` rounds to the same multiple as `A` on the grid `B·2^K`, in every
mode, and is a grid point exactly when `A/B` is -/
theorem realCode_roundDiv (rm : RM) (s : Bool) (A B K : Nat) (hB : 0 < B) (hK : 1 ≤ K) :
    roundQuot rm s (Props.C02.realCode (A / B) (A % B != 0)) (K + 1) = roundDiv rm s A (B * 2 ^ K) ∧
    (Props.C02.realCode (A / B) (A % B != 0) % 2 ^ (K + 1) = 0 ↔ A % (B * 2 ^ K) = 0) := by
  rw [roundQuot_eq_roundDiv]
  unfold Props.C02.realCode
  have hG : 2 ^ K = 2 * 2 ^ (K - 1) := two_pow_pred K hK
  have hG1 : 2 ^ (K + 1) = 2 * 2 ^ K := by rw [Nat.pow_succ]; omega
  have hH : 0 < 2 ^ (K - 1) := Nat.pow_pos (by decide)
  have hρ : A % B < B := Nat.mod_lt _ hB
  have ht : (if (A % B != 0) = true then 1 else 0) = (if A % B = 0 then 0 else 1) := by
    by_cases h : A % B = 0 <;> simp [h]
  rw [ht]
  have hq1 : (2 * (A / B) + (if A % B = 0 then 0 else 1)) / 2 ^ (K + 1) = A / B / 2 ^ K := by
    rw [hG1, ← Nat.div_div_eq_div_mul]
    have : (2 * (A / B) + (if A % B = 0 then 0 else 1)) / 2 = A / B := by split <;> omega
    rw [this]
  have hr1 : (2 * (A / B) + (if A % B = 0 then 0 else 1)) % 2 ^ (K + 1)
      = (if A % B = 0 then 0 else 1) + 2 * (A / B % 2 ^ K) := by
    rw [hG1, Nat.mod_mul]
    have h1 : (2 * (A / B) + (if A % B = 0 then 0 else 1)) % 2 = (if A % B = 0 then 0 else 1) := by split <;> omega
    have h2 : (2 * (A / B) + (if A % B = 0 then 0 else 1)) / 2 = A / B := by split <;> omega
    rw [h1, h2]
  have hq2 : A / (B * 2 ^ K) = A / B / 2 ^ K := (Nat.div_div_eq_div_mul A B (2 ^ K)).symm
  have hr2 : A % (B * 2 ^ K) = A % B + B * (A / B % 2 ^ K) := Nat.mod_mul
  have ha : A / B % 2 ^ K < 2 ^ K := Nat.mod_lt _ (Nat.pow_pos (by decide))
  generalize A / B % 2 ^ K = a at *
  generalize A % B = ρ at *
  have hBG : B * 2 ^ K = 2 * (B * 2 ^ (K - 1)) := by rw [hG]; exact Nat.mul_left_comm B 2 _
  -- products as atoms
  have c1 : a < 2 ^ (K - 1) → B * a + B ≤ B * 2 ^ (K - 1) := fun h => by
    have := Nat.mul_le_mul_left B (by omega : a + 1 ≤ 2 ^ (K - 1))
    rwa [Nat.mul_add, Nat.mul_one] at this
  have c2 : a = 2 ^ (K - 1) → B * a = B * 2 ^ (K - 1) := fun h => by rw [h]
  have c3 : 2 ^ (K - 1) < a → B * 2 ^ (K - 1) + B ≤ B * a := fun h => by
    have := Nat.mul_le_mul_left B (by omega : 2 ^ (K - 1) + 1 ≤ a)
    rwa [Nat.mul_add, Nat.mul_one] at this
  have c0 : a = 0 → B * a = 0 := fun h => by rw [h]; rfl
  have c4 : 0 < a → B ≤ B * a := fun h => by
    have := Nat.mul_le_mul_left B (by omega : 1 ≤ a); rwa [Nat.mul_one] at this
  have key : ((if ρ = 0 then 0 else 1) + 2 * a = 0 ↔ ρ + B * a = 0) ∧
      (2 * ((if ρ = 0 then 0 else 1) + 2 * a) < 2 ^ (K + 1) ↔ 2 * (ρ + B * a) < B * 2 ^ K) ∧
      (2 * ((if ρ = 0 then 0 else 1) + 2 * a) > 2 ^ (K + 1) ↔ 2 * (ρ + B * a) > B * 2 ^ K) := by
    rw [hBG, hG1, hG]
    generalize B * a = X at *
    generalize B * 2 ^ (K - 1) = Y at *
    generalize 2 ^ (K - 1) = H at *
    refine ⟨?_, ?_, ?_⟩ <;> split <;> omega
  obtain ⟨k0, k1, k2⟩ := key
  constructor
  · apply roundDiv_congr
    · rw [hq1, hq2]
    · rw [hr1, hr2]; exact k0
    · rw [hr1, hr2]; exact k1
    · rw [hr1, hr2]; exact k2
  · rw [hr1, hr2]; exact k0

/-- a signed fraction of grid units is on the grid exactly when the division is exact -/
theorem onGrid_frac_iff (s : Bool) (N D : Nat) (hD : 0 < D) (u : Int) :
    OnGrid u (RF.sgn s * ((N : Rat) / (D : Rat)) * (2 : Rat) ^ u) ↔ N % D = 0 := by
  rw [← roundVal_eq_iff .rtz, roundVal_frac .rtz s N D hD u]
  have hq : roundDiv .rtz s N D = N / D := by unfold roundDiv; simp
  rw [hq]
  obtain ⟨f, hN, hf0, hf1, hfz, -⟩ := frac_split N D hD
  rw [hN, ← hfz]
  have hG := RF.two_zpow_pos u
  generalize (2 : Rat) ^ u = G at *
  generalize ((N / D : Nat) : Rat) = Q
  constructor
  · intro h
    have := mul_right_cancel_pos hG h
    cases s <;> simp [RF.sgn] at this <;> grind
  · intro h; rw [h, Rat.add_zero]

/-- **Round-to-odd re-rounding at the value level.**  The record `(-1)^neg · rtoBit(⌊A/B⌋, B ∤ A) · 2^exp`
(truncation of the real `A/B · 2^exp` with a sticky last digit) rounds on every grid at least two
digits coarser, under every mode, to the correct rounding of the real itself; and it is on that grid
exactly when the real is. -/
theorem rto_roundVal (rm : RM) (neg : Bool) (A B : Nat) (hB : 0 < B) (exp u : Int) (hu : exp + 2 ≤ u) :
    roundVal rm u (⟨neg, exp, rtoBit (A / B) (A % B != 0)⟩ : RF).val
      = roundVal rm u (RF.sgn neg * ((A : Rat) / (B : Rat)) * (2 : Rat) ^ exp) ∧
    (OnGrid u (⟨neg, exp, rtoBit (A / B) (A % B != 0)⟩ : RF).val
      ↔ OnGrid u (RF.sgn neg * ((A : Rat) / (B : Rat)) * (2 : Rat) ^ exp)) := by
  obtain ⟨K, hK⟩ : ∃ K : Nat, u = exp + (K : Int) := ⟨(u - exp).toNat, by omega⟩
  have hK2 : 2 ≤ K := by omega
  have hB0 : (B : Rat) ≠ 0 := Rat.ne_of_gt (natCast_pos' hB)
  have hP : ((2 ^ K : Nat) : Rat) ≠ 0 := Rat.ne_of_gt (natCast_pos' (Nat.pow_pos (by decide)))
  have hBK : 0 < B * 2 ^ K := Nat.mul_pos hB (Nat.pow_pos (by decide))
  -- the real in units of the coarse grid
  have hq : RF.sgn neg * ((A : Rat) / (B : Rat)) * (2 : Rat) ^ exp
      = RF.sgn neg * ((A : Rat) / ((B * 2 ^ K : Nat) : Rat)) * (2 : Rat) ^ u := by
    rw [hK, RF.two_zpow_add, RF.two_zpow_nat, Rat.natCast_mul]
    generalize ((2 ^ K : Nat) : Rat) = P at *
    grind
  obtain ⟨c1, c2⟩ := Props.C02.quotient_correct rm neg A B K hK2
  obtain ⟨d1, d2⟩ := realCode_roundDiv rm neg A B K hB (by omega)
  have hn : u = (u - 1) + 1 := by omega
  have hle : (⟨neg, exp, rtoBit (A / B) (A % B != 0)⟩ : RF).exp ≤ u - 1 := by simp only; omega
  have hkk : (u - 1 + 1 - (⟨neg, exp, rtoBit (A / B) (A % B != 0)⟩ : RF).exp).toNat = K := by simp only; omega
  constructor
  · rw [hq, roundVal_frac rm neg A _ hBK u, ← d1, ← c1]
    have := fixed_val (⟨neg, exp, rtoBit (A / B) (A % B != 0)⟩ : RF) (u - 1) rm hle
    rw [hkk, ← hn] at this
    rw [← this, RF.val_mk]
  · rw [hq, onGrid_frac_iff neg A _ hBK u, ← d2, ← c2]
    have := onGrid_iff_mod (⟨neg, exp, rtoBit (A / B) (A % B != 0)⟩ : RF) (u - 1) hle
    rw [hkk, ← hn] at this
    exact this

end Fpy.C01v
