/-
Helper lemmas for C11's `dispatch_contract`: the shape of the signature `_dispatch` selects under a
hardware context.
-/
import Fpy.Spec.Storage
namespace Fpy.C11
open Fpy AbsFmt

theorem ty_fp (dbl : Bool) (rm : HwRM) : (NativeCtx.fp dbl rm).ty = some (fpTy dbl) := by
  cases dbl <;> cases rm <;> decide

theorem mem_sameSigsBy {ar : Nat} {nm : MachTy → String} {cs : List NativeCtx} {s : Sig} (h : s ∈ sameSigsBy ar nm cs) :
    ∃ t, s.outCtx.ty = some t ∧ s.inTys = List.replicate ar t := by
  unfold sameSigsBy at h
  rw [List.mem_filterMap] at h
  obtain ⟨c, _, hc⟩ := h
  cases ht : c.ty with
  | none => rw [ht] at hc; cases hc
  | some t =>
    rw [ht] at hc
    simp only [Option.map_some, Option.some.injEq] at hc
    subst hc
    exact ⟨t, ht, rfl⟩

theorem mem_sameSigs {ar : Nat} {nm : String} {cs : List NativeCtx} {s : Sig} (h : s ∈ sameSigs ar nm cs) :
    ∃ t, s.outCtx.ty = some t ∧ s.inTys = List.replicate ar t := mem_sameSigsBy h

theorem mem_sigs {nd : Node} {s : Sig} (h : s ∈ sigs nd) :
    ∃ t, s.outCtx.ty = some t ∧ s.inTys = List.replicate nd.arity t := by
  cases nd <;> simp only [sigs, List.mem_append] at h
  all_goals first
    | exact mem_sameSigs h
    | (rcases h with h | h <;> first | exact mem_sameSigs h | exact mem_sameSigsBy h)

/-- what `_dispatch` guarantees about the signature it selects under a hardware context -/
theorem dispatch_fp_shape (nd : Node) (tys : List MachTy) (dbl : Bool) (rm : HwRM) (s : Sig)
    (h : dispatch nd tys (.fp dbl rm) = some s) :
    s.outCtx = .fp dbl rm ∧ s.inTys = List.replicate nd.arity (fpTy dbl) ∧ tys.length = nd.arity ∧
      ∀ t ∈ tys, t = fpTy dbl ∨ scalarFitsIn t (fpTy dbl) = true := by
  unfold dispatch at h
  cases h1 : (sigs nd).find? (fun s => s.matchesDirect tys (.fp dbl rm)) with
  | some s1 =>
    rw [h1] at h
    cases h
    have hm := List.find?_some h1
    have hmem := List.mem_of_find?_eq_some h1
    unfold Sig.matchesDirect at hm
    simp only [Bool.and_eq_true, beq_iff_eq] at hm
    obtain ⟨t, ht, hin⟩ := mem_sigs hmem
    rw [hm.1, ty_fp] at ht
    cases ht
    refine ⟨hm.1, hin, ?_, ?_⟩
    · rw [← hm.2, hin, List.length_replicate]
    · intro t ht; left
      rw [← hm.2, hin] at ht
      exact List.eq_of_mem_replicate ht
  | none =>
    rw [h1] at h
    simp only [ty_fp] at h
    cases h2 : (sigs nd).find? (fun s => s.inTys == List.replicate tys.length (fpTy dbl) && s.outCtx == NativeCtx.fp dbl rm) with
    | none => rw [h2] at h; cases h
    | some s2 =>
      rw [h2] at h
      by_cases hall : (tys.all fun t => t == fpTy dbl || scalarFitsIn t (fpTy dbl)) = true
      · simp only [if_pos hall] at h
        cases h
        have hm := List.find?_some h2
        have hmem := List.mem_of_find?_eq_some h2
        simp only [Bool.and_eq_true, beq_iff_eq] at hm
        obtain ⟨t, ht, hin⟩ := mem_sigs hmem
        rw [hm.2, ty_fp] at ht
        cases ht
        refine ⟨hm.2, hin, ?_, ?_⟩
        · have := hm.1
          rw [hin] at this
          have hl := congrArg List.length this
          simp only [List.length_replicate] at hl
          exact hl.symm
        · intro t ht
          rw [List.all_eq_true] at hall
          have := hall t ht
          simp only [Bool.or_eq_true, beq_iff_eq] at this
          exact this
      · simp only [if_neg hall] at h
        cases h

theorem zipWith_cast_id (cs : CastSem) (T : MachTy) (args : List FV) (h : ∀ a ∈ args, values T a) :
    List.zipWith cs.cast (List.replicate args.length T) args = args := by
  induction args with
  | nil => rfl
  | cons a rest ih =>
    simp only [List.length_cons, List.replicate_succ, List.zipWith_cons_cons]
    rw [cs.exact T a (h a (List.mem_cons_self ..)), ih (fun b hb => h b (List.mem_cons_of_mem _ hb))]

theorem ValuesOf.length_eq {ts : List MachTy} {vs : List FV} (h : ValuesOf ts vs) : ts.length = vs.length := by
  induction h with
  | nil => rfl
  | cons _ _ ih => simp [ih]

theorem ValuesOf.mem {ts : List MachTy} {vs : List FV} (h : ValuesOf ts vs) (a : FV) (ha : a ∈ vs) :
    ∃ t, t ∈ ts ∧ values t a := by
  induction h with
  | nil => cases ha
  | cons hxy _ ih =>
    rcases List.mem_cons.1 ha with h | h
    · subst h; exact ⟨_, List.mem_cons_self .., hxy⟩
    · obtain ⟨t, ht, hv⟩ := ih h
      exact ⟨t, List.mem_cons_of_mem _ ht, hv⟩


end Fpy.C11
