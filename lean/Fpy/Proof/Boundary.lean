/-
Helper definitions and lemmas for C18 (core Lean only): the "fresh region" predicates on values, heaps and
environments, the allocation-only behaviour of `to_value` / `from_value`, reachability.
-/
import Fpy.Model.Boundary
namespace Fpy.C18
open Fpy Fpy.Lang

/-! ## every list reference is at or above `n` -/

mutual
def VGe (n : Nat) : Val → Prop
  | .list r => n ≤ r
  | .tuple vs => VGeL n vs
  | .bool _ => True
  | .num _ => True
  | .ctx _ => True
def VGeL (n : Nat) : List Val → Prop
  | [] => True
  | v :: vs => VGe n v ∧ VGeL n vs
end

theorem vgeL_iff (n : Nat) (l : List Val) : VGeL n l ↔ ∀ v ∈ l, VGe n v := by
  induction l with
  | nil => simp [VGeL]
  | cons a t ih => simp [VGeL, ih]

theorem vgeL_append {n : Nat} {a b : List Val} (ha : VGeL n a) (hb : VGeL n b) : VGeL n (a ++ b) := by
  rw [vgeL_iff] at *
  intro v hv
  rcases List.mem_append.mp hv with h | h
  · exact ha v h
  · exact hb v h

theorem vgeL_getElem? {n : Nat} {l : List Val} {k : Nat} {v : Val} (hl : VGeL n l) (h : l[k]? = some v) : VGe n v := by
  rw [vgeL_iff] at hl
  exact hl v (List.mem_of_getElem? h)

theorem vgeL_set {n : Nat} {l : List Val} {k : Nat} {v : Val} (hl : VGeL n l) (hv : VGe n v) : VGeL n (l.set k v) := by
  rw [vgeL_iff] at *
  intro w hw
  rcases List.mem_or_eq_of_mem_set hw with h | h
  · exact hl w h
  · exact h ▸ hv

theorem vgeL_take {n : Nat} {l : List Val} (k : Nat) (hl : VGeL n l) : VGeL n (l.take k) := by
  rw [vgeL_iff] at *
  intro w hw; exact hl w (List.mem_of_mem_take hw)

theorem vgeL_drop {n : Nat} {l : List Val} (k : Nat) (hl : VGeL n l) : VGeL n (l.drop k) := by
  rw [vgeL_iff] at *
  intro w hw; exact hl w (List.mem_of_mem_drop hw)

/-- the heap is well-formed above `n`: it has at least `n` cells and a cell at or above `n` only
references cells at or above `n` -/
def HOK (n : Nat) (μ : Heap) : Prop := n ≤ μ.length ∧ ∀ i l, n ≤ i → μ[i]? = some l → VGeL n l

/-- every value bound in the environment references cells at or above `n` only -/
def EOK (n : Nat) (σ : Env) : Prop := ∀ p ∈ σ, VGe n p.2

theorem hok_self (μ : Heap) : HOK μ.length μ := by
  refine ⟨Nat.le_refl _, ?_⟩
  intro i l hi h
  have : i < μ.length := (List.getElem?_eq_some_iff.mp h).1
  omega

theorem hok_alloc {n : Nat} {μ : Heap} {l : List Val} (h : HOK n μ) (hl : VGeL n l) :
    HOK n (μ ++ [l]) ∧ (μ ++ [l]).take n = μ.take n ∧ VGe n (.list μ.length) := by
  obtain ⟨hlen, hc⟩ := h
  refine ⟨⟨by simp; omega, ?_⟩, ?_, ?_⟩
  · intro i l' hi hget
    by_cases hlt : i < μ.length
    · rw [List.getElem?_append_left hlt] at hget; exact hc i l' hi hget
    · have hi' : μ.length ≤ i := Nat.le_of_not_lt hlt
      rw [List.getElem?_append_right hi'] at hget
      have : i - μ.length = 0 := by
        by_cases h0 : i - μ.length = 0
        · exact h0
        · have : ([l] : List (List Val))[i - μ.length]? = none := by
            apply List.getElem?_eq_none; simp; omega
          rw [this] at hget; cases hget
      rw [this] at hget; simp at hget; exact hget ▸ hl
  · exact List.take_append_of_le_length hlen
  · simp only [VGe]; exact hlen

theorem hok_set {n : Nat} {μ : Heap} {r : Nat} {l : List Val} (h : HOK n μ) (hr : n ≤ r) (hl : VGeL n l) :
    HOK n (μ.set r l) ∧ (μ.set r l).take n = μ.take n := by
  obtain ⟨hlen, hc⟩ := h
  refine ⟨⟨by simp; exact hlen, ?_⟩, ?_⟩
  · intro i l' hi hget
    by_cases hir : r = i
    · subst hir
      by_cases hlt : r < μ.length
      · rw [List.getElem?_set_self hlt] at hget; cases hget; exact hl
      · rw [List.getElem?_eq_none (by simp; omega)] at hget; cases hget
    · rw [List.getElem?_set_ne hir] at hget; exact hc i l' hi hget
  · apply List.ext_getElem?
    intro i
    by_cases hi : i < n
    · rw [List.getElem?_take_of_lt hi, List.getElem?_take_of_lt hi, List.getElem?_set_ne (by omega)]
    · rw [List.getElem?_eq_none (by simp; omega), List.getElem?_eq_none (by simp; omega)]

theorem hok_get {n : Nat} {μ : Heap} {r : Nat} {l : List Val} (h : HOK n μ) (hr : n ≤ r) (hg : heapGet μ r = .ok l) : VGeL n l := by
  unfold heapGet at hg
  split at hg
  · rename_i l' hl'; cases hg; exact h.2 r _ hr hl'
  · cases hg

theorem eok_nil (n : Nat) : EOK n [] := by intro p hp; cases hp

theorem eok_set {n : Nat} {σ : Env} {x : String} {v : Val} (h : EOK n σ) (hv : VGe n v) : EOK n (σ.set x v) := by
  intro p hp
  unfold Env.set at hp
  rcases List.mem_cons.mp hp with h1 | h1
  · subst h1; exact hv
  · exact h p (List.mem_filter.mp h1).1

theorem eok_get {n : Nat} {σ : Env} {x : String} {v : Val} (h : EOK n σ) (hg : σ.get? x = some v) : VGe n v := by
  unfold Env.get? at hg
  cases hf : σ.find? (·.1 == x) with
  | none => rw [hf] at hg; cases hg
  | some p =>
    rw [hf] at hg; simp at hg; subst hg
    exact h p (List.mem_of_find?_eq_some hf)

theorem eok_bindParams {n : Nat} (g : Env → String × Val → Env) (hg : ∀ s p, g s p = s.set p.1 p.2)
    (ps : List String) (vs : List Val) (σ : Env) (hσ : EOK n σ) (hv : VGeL n vs) :
    EOK n ((ps.zip vs).foldl g σ) := by
  induction ps generalizing vs σ with
  | nil => simpa using hσ
  | cons p ps ih =>
    cases vs with
    | nil => simpa using hσ
    | cons v vs =>
      simp only [List.zip_cons_cons, List.foldl_cons, hg]
      exact ih vs _ (eok_set hσ hv.1) hv.2

/-! ## reachability -/

/-- `Reach μ v s`: the cell `s` is reachable from the value `v` through the heap `μ` -/
inductive Reach (μ : Heap) : Val → Nat → Prop
  | here (r : Nat) : Reach μ (.list r) r
  | inList (r : Nat) (l : List Val) (v : Val) (s : Nat) : μ[r]? = some l → v ∈ l → Reach μ v s → Reach μ (.list r) s
  | inTuple (vs : List Val) (v : Val) (s : Nat) : v ∈ vs → Reach μ v s → Reach μ (.tuple vs) s

theorem reach_ge {n : Nat} {μ : Heap} (hμ : HOK n μ) {v : Val} {s : Nat} (hr : Reach μ v s) (hv : VGe n v) : n ≤ s := by
  induction hr with
  | here r => simpa [VGe] using hv
  | inList r l v s hl hmem _ ih =>
    have hr : n ≤ r := by simpa [VGe] using hv
    exact ih ((vgeL_iff n l).mp (hμ.2 r l hr hl) v hmem)
  | inTuple vs v s hmem _ ih =>
    have : VGeL n vs := by simpa [VGe] using hv
    exact ih ((vgeL_iff n vs).mp this v hmem)

/-! ## `to_value` only allocates, and what it returns lives in the new cells -/

/-- `dst'` extends `dst` by cells that reference only cells at or above `n` -/
def Ext (n : Nat) (dst dst' : Heap) : Prop := HOK n dst' ∧ dst'.take n = dst.take n

theorem ext_refl {n : Nat} {μ : Heap} (h : HOK n μ) : Ext n μ μ := ⟨h, rfl⟩

theorem ext_trans {n : Nat} {a b c : Heap} (h1 : Ext n a b) (h2 : Ext n b c) : Ext n a c := ⟨h2.1, h2.2.trans h1.2⟩

theorem copy_frame (src : Heap) (n : Nat) : ∀ (f : Nat),
    (∀ v dst w dst', HOK n dst → copyIn src f v dst = .ok (w, dst') → Ext n dst dst' ∧ VGe n w) ∧
    (∀ vs dst ws dst', HOK n dst → copyIns src f vs dst = .ok (ws, dst') → Ext n dst dst' ∧ VGeL n ws) := by
  intro f
  induction f with
  | zero =>
    constructor
    · intro v dst w dst' _ h; simp [copyIn] at h
    · intro vs dst ws dst' _ h; simp [copyIns] at h
  | succ f ih =>
    obtain ⟨ih1, ih2⟩ := ih
    constructor
    · intro v dst w dst' hd h
      cases v with
      | bool b => simp only [copyIn] at h; cases h; exact ⟨ext_refl hd, trivial⟩
      | num x => simp only [copyIn] at h; cases h; exact ⟨ext_refl hd, trivial⟩
      | ctx c => simp only [copyIn] at h; cases h; exact ⟨ext_refl hd, trivial⟩
      | tuple vs =>
        simp only [copyIn, bind, Except.bind] at h
        split at h
        · cases h
        · rename_i r hr
          obtain ⟨ws, d1⟩ := r
          cases h
          obtain ⟨he, hw⟩ := ih2 vs dst ws d1 hd hr
          exact ⟨he, by simpa [VGe] using hw⟩
      | list r =>
        simp only [copyIn, bind, Except.bind] at h
        split at h
        · cases h
        · rename_i l hl
          split at h
          · cases h
          · rename_i r2 hr
            obtain ⟨ws, d1⟩ := r2
            simp only [alloc] at h
            cases h
            obtain ⟨he, hw⟩ := ih2 l dst ws d1 hd hr
            obtain ⟨h1, h2, h3⟩ := hok_alloc he.1 hw
            exact ⟨⟨h1, h2.trans he.2⟩, h3⟩
    · intro vs dst ws dst' hd h
      cases vs with
      | nil => simp only [copyIns] at h; cases h; exact ⟨ext_refl hd, trivial⟩
      | cons v vs =>
        simp only [copyIns, bind, Except.bind] at h
        split at h
        · cases h
        · rename_i r1 hr1
          obtain ⟨w, d1⟩ := r1
          split at h
          · cases h
          · rename_i r2 hr2
            obtain ⟨ws', d2⟩ := r2
            cases h
            obtain ⟨he1, hw1⟩ := ih1 v dst w d1 hd hr1
            obtain ⟨he2, hw2⟩ := ih2 vs d1 ws' d2 he1.1 hr2
            exact ⟨ext_trans he1 he2, ⟨hw1, hw2⟩⟩

/-! ## `from_value` returns the value itself or rebuilt containers in new cells -/

theorem from_frame (n : Nat) : ∀ (f : Nat),
    (∀ v μ w μ', HOK n μ → VGe n v → fromValue f v μ = .ok (w, μ') → Ext n μ μ' ∧ VGe n w) ∧
    (∀ vs μ ws μ', HOK n μ → VGeL n vs → fromValues f vs μ = .ok (ws, μ') → Ext n μ μ' ∧ VGeL n ws) := by
  intro f
  induction f with
  | zero =>
    constructor
    · intro v μ w μ' _ _ h; simp [fromValue] at h
    · intro vs μ ws μ' _ _ h; simp [fromValues] at h
  | succ f ih =>
    obtain ⟨ih1, ih2⟩ := ih
    constructor
    · intro v μ w μ' hd hv h
      simp only [fromValue, bind, Except.bind] at h
      split at h
      · cases h
      · rename_i b hb
        split at h
        · cases h; exact ⟨ext_refl hd, hv⟩
        · cases v with
          | bool b => cases h; exact ⟨ext_refl hd, trivial⟩
          | ctx c => cases h; exact ⟨ext_refl hd, trivial⟩
          | num x =>
            cases x with
            | fv y => cases h; exact ⟨ext_refl hd, trivial⟩
            | q a b => cases h; exact ⟨ext_refl hd, trivial⟩
          | tuple vs =>
            simp only at h
            split at h
            · cases h
            · rename_i r hr
              obtain ⟨ws, m1⟩ := r
              cases h
              obtain ⟨he, hw⟩ := ih2 vs μ ws m1 hd (by simpa [VGe] using hv) hr
              exact ⟨he, by simpa [VGe] using hw⟩
          | list r =>
            simp only at h
            split at h
            · cases h
            · rename_i l hl
              split at h
              · cases h
              · rename_i r2 hr
                obtain ⟨ws, m1⟩ := r2
                simp only [alloc] at h
                cases h
                have hrn : n ≤ r := by simpa [VGe] using hv
                obtain ⟨he, hw⟩ := ih2 l μ ws m1 hd (hok_get hd hrn hl) hr
                obtain ⟨h1, h2, h3⟩ := hok_alloc he.1 hw
                exact ⟨⟨h1, h2.trans he.2⟩, h3⟩
    · intro vs μ ws μ' hd hv h
      cases vs with
      | nil => simp only [fromValues] at h; cases h; exact ⟨ext_refl hd, trivial⟩
      | cons v vs =>
        simp only [fromValues, bind, Except.bind] at h
        split at h
        · cases h
        · rename_i r1 hr1
          obtain ⟨w, m1⟩ := r1
          split at h
          · cases h
          · rename_i r2 hr2
            obtain ⟨ws', m2⟩ := r2
            cases h
            obtain ⟨he1, hw1⟩ := ih1 v μ w m1 hd hv.1 hr1
            obtain ⟨he2, hw2⟩ := ih2 vs m1 ws' m2 he1.1 hv.2 hr2
            exact ⟨ext_trans he1 he2, ⟨hw1, hw2⟩⟩

theorem rebuild_frame (n : Nat) : ∀ (f : Nat),
    (∀ v μ w μ', HOK n μ → VGe n v → rebuild f v μ = .ok (w, μ') → Ext n μ μ' ∧ VGe n w) ∧
    (∀ vs μ ws μ', HOK n μ → VGeL n vs → rebuilds f vs μ = .ok (ws, μ') → Ext n μ μ' ∧ VGeL n ws) := by
  intro f
  induction f with
  | zero =>
    constructor
    · intro v μ w μ' _ _ h; simp [rebuild] at h
    · intro vs μ ws μ' _ _ h; simp [rebuilds] at h
  | succ f ih =>
    obtain ⟨ih1, ih2⟩ := ih
    constructor
    · intro v μ w μ' hd hv h
      cases v with
      | bool b => simp only [rebuild] at h; cases h; exact ⟨ext_refl hd, trivial⟩
      | ctx c => simp only [rebuild] at h; cases h; exact ⟨ext_refl hd, trivial⟩
      | num x =>
        cases x with
        | fv y => simp only [rebuild] at h; cases h; exact ⟨ext_refl hd, trivial⟩
        | q a b => simp only [rebuild] at h; cases h; exact ⟨ext_refl hd, trivial⟩
      | tuple vs =>
        simp only [rebuild, bind, Except.bind] at h
        split at h
        · cases h
        · rename_i r hr
          obtain ⟨ws, m1⟩ := r
          cases h
          obtain ⟨he, hw⟩ := ih2 vs μ ws m1 hd (by simpa [VGe] using hv) hr
          exact ⟨he, by simpa [VGe] using hw⟩
      | list r =>
        simp only [rebuild, bind, Except.bind] at h
        split at h
        · cases h
        · rename_i l hl
          split at h
          · cases h
          · rename_i r2 hr
            obtain ⟨ws, m1⟩ := r2
            simp only [alloc] at h
            cases h
            have hrn : n ≤ r := by simpa [VGe] using hv
            obtain ⟨he, hw⟩ := ih2 l μ ws m1 hd (hok_get hd hrn hl) hr
            obtain ⟨h1, h2, h3⟩ := hok_alloc he.1 hw
            exact ⟨⟨h1, h2.trans he.2⟩, h3⟩
    · intro vs μ ws μ' hd hv h
      cases vs with
      | nil => simp only [rebuilds] at h; cases h; exact ⟨ext_refl hd, trivial⟩
      | cons v vs =>
        simp only [rebuilds, bind, Except.bind] at h
        split at h
        · cases h
        · rename_i r1 hr1
          obtain ⟨w, m1⟩ := r1
          split at h
          · cases h
          · rename_i r2 hr2
            obtain ⟨ws', m2⟩ := r2
            cases h
            obtain ⟨he1, hw1⟩ := ih1 v μ w m1 hd hv.1 hr1
            obtain ⟨he2, hw2⟩ := ih2 vs m1 ws' m2 he1.1 hv.2 hr2
            exact ⟨ext_trans he1 he2, ⟨hw1, hw2⟩⟩

/-- the result conversion, under either policy, only allocates and returns fresh-region values -/
theorem exit_frame (π : Policy) {n fuel : Nat} {v w : Val} {μ μ' : Heap} (hμ : HOK n μ) (hv : VGe n v)
    (h : exitValue π fuel v μ = .ok (w, μ')) : Ext n μ μ' ∧ VGe n w := by
  unfold exitValue at h
  split at h
  · exact (rebuild_frame n fuel).1 v μ w μ' hμ hv h
  · exact (from_frame n fuel).1 v μ w μ' hμ hv h

/-! ## the caller writing an argument by value allocates fresh cells -/

mutual
theorem allocTree_frame (n : Nat) : ∀ (t : Tree) (μ : Heap), HOK n μ →
    Ext n μ (allocTree t μ).2 ∧ VGe n (allocTree t μ).1
  | .bool b, μ, h => by simp only [allocTree]; exact ⟨ext_refl h, trivial⟩
  | .num v, μ, h => by simp only [allocTree]; exact ⟨ext_refl h, trivial⟩
  | .ctx c, μ, h => by simp only [allocTree]; exact ⟨ext_refl h, trivial⟩
  | .tuple ts, μ, h => by
    obtain ⟨e, hv⟩ := allocTrees_frame n ts μ h
    simp only [allocTree]
    exact ⟨e, by simpa [VGe] using hv⟩
  | .list ts, μ, h => by
    obtain ⟨e, hv⟩ := allocTrees_frame n ts μ h
    simp only [allocTree, alloc]
    obtain ⟨a1, a2, a3⟩ := hok_alloc e.1 hv
    exact ⟨⟨a1, a2.trans e.2⟩, a3⟩
theorem allocTrees_frame (n : Nat) : ∀ (ts : List Tree) (μ : Heap), HOK n μ →
    Ext n μ (allocTrees ts μ).2 ∧ VGeL n (allocTrees ts μ).1
  | [], μ, h => by simp only [allocTrees]; exact ⟨ext_refl h, trivial⟩
  | t :: ts, μ, h => by
    obtain ⟨e1, h1⟩ := allocTree_frame n t μ h
    obtain ⟨e2, h2⟩ := allocTrees_frame n ts _ e1.1
    simp only [allocTrees]
    exact ⟨ext_trans e1 e2, h1, h2⟩
end

/-! ## the frame property of the evaluator, as a predicate on a function table -/

/-- what an outcome binds / returns references cells at or above `n` only -/
def OutOK (n : Nat) : Outcome → Prop
  | .ret v => VGe n v
  | .normal σ => EOK n σ

/-- `evalB` (hence every call) writes only cells at or above `n` when everything it is given references
only cells at or above `n`: programs have no way to name a cell they were not handed. -/
def EvalFrame (Φ : Funs) : Prop :=
  ∀ (fuel n : Nat) (σ : Env) (μ : Heap) (C : Ctx) (body : List Stmt) (o : Outcome) (μ' : Heap),
    EOK n σ → HOK n μ → evalB Φ fuel σ μ C body = .ok (o, μ') → Ext n μ μ' ∧ OutOK n o

theorem callEntry_frame_aux {Φ : Funs} (hΦ : EvalFrame Φ) {fuel n : Nat} {σ0 : Env} {μ μ' : Heap} {C : Ctx} {body : List Stmt} {v : Val}
    (hσ : EOK n σ0) (hμ : HOK n μ)
    (h : (match evalB Φ fuel σ0 μ C body with
          | .error e => .error e
          | .ok (.ret v, μ') => .ok (v, μ')
          | .ok (.normal _, _) => .error .assertion : M (Val × Heap)) = .ok (v, μ')) : Ext n μ μ' ∧ VGe n v := by
  cases hev : evalB Φ fuel σ0 μ C body with
  | error e => rw [hev] at h; cases h
  | ok r =>
    obtain ⟨o, μ2⟩ := r
    rw [hev] at h
    cases o with
    | normal σ => cases h
    | ret w =>
      simp only at h
      cases h
      exact hΦ fuel n σ0 μ C body (.ret v) μ' hσ hμ hev

/-- the frame property lifted to an entry from Python (`callEntry`) -/
theorem callEntry_frame {Φ : Funs} (hΦ : EvalFrame Φ) {fuel n : Nat} {f : String} {vs : List Val} {μ μ' : Heap} {ctx : Option Ctx} {v : Val}
    (hv : VGeL n vs) (hμ : HOK n μ) (h : callEntry Φ fuel f vs μ ctx = .ok (v, μ')) : Ext n μ μ' ∧ VGe n v := by
  unfold callEntry at h
  split at h
  · cases h
  · rename_i fd hfd
    have hσ : EOK n ((fd.params.zip vs).foldl (fun s (x, v) => s.set x v) []) :=
      eok_bindParams _ (fun s p => by cases p; rfl) fd.params vs [] (eok_nil n) hv
    split at h
    · cases h
    · exact callEntry_frame_aux hΦ hσ hμ h

end Fpy.C18
