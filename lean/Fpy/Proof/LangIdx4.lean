/-
Loop restructuring, part 4: the emitted `for idx in range(a, b, k): <k copies>` statement.
-/
import Fpy.Proof.LangIdx3
namespace Fpy.Xform
open Fpy Fpy.Lang

theorem range_count (base k q : Nat) (hk : 0 < k) :
    ((((base + k * q : Nat) : Int) - (base : Int) + (k : Int) - 1) / (k : Int)).toNat = q := by
  have h1 : (((base + k * q : Nat) : Int) - (base : Int) + (k : Int) - 1) = ((k * q + (k - 1) : Nat) : Int) := by
    omega
  rw [h1]
  have h2 : ((k * q + (k - 1) : Nat) : Int) / (k : Int) = (((k * q + (k - 1)) / k : Nat) : Int) :=
    (Int.natCast_ediv _ _).symm
  rw [h2, Int.toNat_natCast, Nat.mul_add_div hk, Nat.div_eq_of_lt (by omega)]
  rfl

/-- `range(a, b, st)` over integer atoms allocates the list `a, a+st, …` -/
theorem range_eval {Φ : Funs} {σ : Env} {ea eb est : Expr} {a b st : Int} (ha : AtomInt Φ σ ea a) (hb : AtomInt Φ σ eb b)
    (hst : AtomInt Φ σ est st) (hpos : 0 < st) (μ : Heap) (C : Ctx) :
    evalEω Φ σ μ C (.range [ea, eb, est]) =
      .ok (.list μ.length, μ ++ [(List.range ((b - a + st - 1) / st).toNat).map (fun (i : Nat) => intVal (a + st * (i : Int)))]) := by
  obtain ⟨wa, ha1, ha2⟩ := ha
  obtain ⟨wb, hb1, hb2⟩ := hb
  obtain ⟨ws, hs1, hs2⟩ := hst
  rw [evalEω_range, evalEsω_cons, ha1]
  show ((evalEsω Φ σ μ C [eb, est] >>= _) >>= _) = _
  rw [evalEsω_cons, hb1]
  show (((evalEsω Φ σ μ C [est] >>= _) >>= _) >>= _) = _
  rw [evalEsω_cons, hs1]
  show ((((evalEsω Φ σ μ C [] >>= _) >>= _) >>= _) >>= _) = _
  rw [evalEsω_nil]
  show ((List.mapM _ [Val.num wa, Val.num wb, Val.num ws] >>= _) : M (Val × Heap)) = _
  simp only [List.mapM_cons, List.mapM_nil, asNum, bind, Except.bind, pure, Except.pure, ha2, hb2, hs2]
  rw [if_neg (by omega), if_pos hpos]
  rfl

theorem Jinv.rlt {S : List String} {π : RMap} {D : List Nat} {r N : Nat} {t : String}
    {σ1 : Env} {μ1 : Heap} {σ2 : Env} {μ2 : Heap} (J : Jinv S π D r N t σ1 μ1 σ2 μ2) : r < μ1.length := by
  obtain ⟨l, hl, _⟩ := J.cell
  rcases Nat.lt_or_ge r μ1.length with h | h
  · exact h
  · rw [List.getElem?_eq_none h] at hl; cases hl

/-- the emitted loop statement: `for idx in range(base, base + k·q, k): <offsets; k copies>`, followed by `K`,
is `k·q` iterations of the element loop from index `base`, followed by whatever `K` corresponds to -/
theorem forstmt_cont {Ans : M (Outcome × Heap) → M (Outcome × Heap) → Prop} (hA : AnsOK Ans)
    {Φ : Funs} {C CI : Ctx} (IA : IntArith CI) {S : List String} {π : RMap} {D : List Nat} {r N : Nat} {t : String}
    {p : Pat} {body : List Stmt} (hreads : ∀ z ∈ readsB body, z ∈ S)
    {idx : String} {offs : List String} {lits : List NV} (base k q : Nat)
    (hk : offs.length + 1 = k) (hlits : offs.length = lits.length)
    (hl : ∀ j (h : j < lits.length), nvInt? lits[j] = some ((1 + j : Nat) : Int))
    (hnd : (idx :: offs).Nodup)
    (hfreshS : ∀ z ∈ idx :: offs, z ∉ S ∧ z ≠ t)
    (hfreshB : ∀ z ∈ t :: idx :: offs, z ∉ bvP p ++ bvB body)
    (hN : base + k * q ≤ N)
    {σ1 : Env} {μ1 : Heap} {σ2 : Env} {μ2 : Heap} (J : Jinv S π D r N t σ1 μ1 σ2 μ2)
    {ea eb est : Expr} (ha : AtomInt Φ σ2 ea (base : Nat)) (hb : AtomInt Φ σ2 eb ((base + k * q : Nat) : Int))
    (hst : AtomInt Φ σ2 est (k : Nat))
    (K : List Stmt)
    (hK : ∀ π' σ1' m1 σ2' m2, Jinv S π' D r N t σ1' m1 σ2' m2 →
      (∀ z, z ∉ (idx :: offs) ++ (bvP p ++ bvB body) → σ2'.get? z = σ2.get? z) →
      Ans (forLoopω Φ σ1' m1 C r (base + k * q) p body) (evalBω Φ σ2' m2 C K)) :
    Ans (forLoopω Φ σ1 μ1 C r base p body)
      (evalBω Φ σ2 μ2 C (.for (.var idx) (.range [ea, eb, est]) (mainBody CI p t idx offs lits body) :: K)) := by
  have hkpos : 0 < k := by omega
  rw [evalBω_cons', evalSω_for, range_eval ha hb hst (by exact_mod_cast hkpos) μ2 C]
  have hcount := range_count base k q hkpos
  rw [hcount]
  -- the range cell and the renaming that skips it
  generalize hRLdef : (List.range q).map (fun (i : Nat) => intVal ((base : Nat) + (k : Nat) * (i : Int))) = RL
  have hRLlen : RL.length = q := by rw [← hRLdef]; simp
  have hRL : ∀ j, j < q → RL[j]? = some (intVal ((base + k * j : Nat) : Int)) := by
    intro j hj
    rw [← hRLdef, List.getElem?_map, List.getElem?_range hj]
    simp
  let π' : RMap := fun r => if r < μ1.length then π r else π r + 1
  have hh' : HR π' D μ1 (μ2 ++ [RL]) := J.heap.alloc_right RL
  have hagree : ∀ r, r < μ1.length → π r = π' r := fun r hr => by show π r = if _ then _ else _; rw [if_pos hr]
  have J' : Jinv S π' D r N t σ1 μ1 σ2 (μ2 ++ [RL]) :=
    ⟨J.env.transfer (Nat.le_refl _) hagree (fun _ _ h => h), hh', J.rlive, J.cell,
      by rw [J.tbind, hagree r J.rlt]⟩
  have G : GCell π' D μ2.length RL μ1 (μ2 ++ [RL]) := by
    refine ⟨by rw [List.getElem?_append_right (Nat.le_refl _)]; simp, by simp, fun r hrd hr => ?_⟩
    show (if _ then _ else _) ≠ _
    rw [if_pos hr]
    have := J.heap.low r hrd hr; omega
  show Ans _ (forLoopω Φ σ2 (μ2 ++ [RL]) C μ2.length 0 (.var idx) _ >>= thenB Φ C K)
  have h0 : base = base + k * 0 := by simp
  rw [h0]
  refine mainloop_cont hA IA hreads base k q hk hlits hl hnd hfreshS hfreshB hRLlen hRL hN _ (thenB_ret Φ C K)
    q 0 (by omega) J' G ?_
  intro σ1' m1 σ2' m2 J'' _ _ hfr
  exact hK π' σ1' m1 σ2' m2 J'' hfr

end Fpy.Xform
