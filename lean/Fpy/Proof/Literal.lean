/-
Helper lemmas for C06: the hand-written matchers of `Fpy.Model.Literal` accept exactly the
renderings of well-formed spellings (`Fpy.Spec.Lit.Sci`) and `_sci_to_fraction` computes their
positional value.
-/
import Fpy.Model.Literal
import Fpy.Spec.Literal
namespace Fpy.Lit
open Fpy.Spec.Lit

/-! ### digits -/

theorem decChars_eq : decChars = alphabet.take 10 := by decide
theorem hexChars_eq : hexChars = alphabet.take 16 := by decide

theorem isDig_iff (c : Char) : isDig c = true ↔ IsDigit 10 c := by
  unfold isDig IsDigit; rw [decChars_eq]; simp

theorem isHex_iff (c : Char) : isHex c = true ↔ IsDigit 16 c := by
  unfold isHex IsDigit; rw [hexChars_eq]; simp

theorem isDigit_10_16 {c : Char} (h : IsDigit 10 c) : IsDigit 16 c := by
  unfold IsDigit at *
  have : ∀ c ∈ alphabet.take 10, c ∈ alphabet.take 16 := by decide
  exact this c h

theorem digVal_eq {c : Char} (h : IsDigit 16 c) : digVal c = digit c := by
  have : ∀ c ∈ alphabet.take 16, digVal c = digit c := by decide
  exact this c h

theorem not_digit_misc : ¬ IsDigit 16 '.' ∧ ¬ IsDigit 16 '-' ∧ ¬ IsDigit 16 '+' ∧ ¬ IsDigit 16 'p' ∧ ¬ IsDigit 16 'x' ∧
    ¬ IsDigit 10 'e' := by
  unfold IsDigit; decide

/-! ### scanning -/

/-- the list is empty or starts with a character that `p` rejects -/
def Stop (p : Char → Bool) (r : List Char) : Prop := ∀ c t, r = c :: t → p c = false

theorem stop_nil (p : Char → Bool) : Stop p [] := by intro c t h; cases h
theorem stop_cons {p : Char → Bool} {c : Char} (h : p c = false) (t : List Char) : Stop p (c :: t) := by
  intro c' t' e; cases e; exact h

theorem takeWhile_app (p : Char → Bool) (ds r : List Char) (h : ∀ c ∈ ds, p c = true) (hr : Stop p r) :
    (ds ++ r).takeWhile p = ds := by
  induction ds with
  | nil =>
    cases r with
    | nil => rfl
    | cons c t => simp [hr c t rfl]
  | cons d ds ih =>
    have hd : p d = true := h d (by simp)
    simp [hd, ih (fun c hc => h c (by simp [hc]))]

theorem dropWhile_app (p : Char → Bool) (ds r : List Char) (h : ∀ c ∈ ds, p c = true) (hr : Stop p r) :
    (ds ++ r).dropWhile p = r := by
  induction ds with
  | nil =>
    cases r with
    | nil => rfl
    | cons c t => simp [hr c t rfl]
  | cons d ds ih =>
    have hd : p d = true := h d (by simp)
    simp [hd, ih (fun c hc => h c (by simp [hc]))]

/-! ### the matchers accept every rendering -/

def signOpt : Sign → Option Char
  | .none => none | .plus => some '+' | .minus => some '-'

/-- the list does not start with a sign character -/
def NoSign (r : List Char) : Prop := r.head? ≠ some '-' ∧ r.head? ≠ some '+'

theorem matchSign_noSign (r : List Char) (h : NoSign r) : matchSign r = (none, r) := by
  unfold matchSign
  split
  · exact absurd rfl h.1
  · exact absurd rfl h.2
  · rfl

theorem matchSign_render (sg : Sign) (r : List Char) (h : NoSign r) :
    matchSign (sg.chars ++ r) = (signOpt sg, r) := by
  cases sg
  · simpa [Sign.chars, signOpt] using matchSign_noSign r h
  · rfl
  · rfl

theorem matchMant_render (p : Char → Bool) (hdot : p '.' = false) (ip : List Char) (fp : Option (List Char))
    (t : List Char)
    (hip : ∀ c ∈ ip, p c = true) (hfp : ∀ f, fp = some f → f ≠ [] ∧ ∀ c ∈ f, p c = true)
    (hne : fp = none → ip ≠ []) (ht : Stop p t) (htdot : t.head? ≠ some '.') :
    matchMant p (ip ++ (fracChars fp ++ t)) = some (ip ++ fracChars fp, t) := by
  unfold matchMant
  cases fp with
  | none =>
    have hne := hne rfl
    have : ip.isEmpty = false := by cases ip <;> simp_all
    simp only [fracChars, List.nil_append, List.append_nil, takeWhile_app p ip t hip ht, dropWhile_app p ip t hip ht, this, Bool.false_eq_true, ↓reduceIte]
    split
    · simp at htdot
    · rfl
  | some f =>
    obtain ⟨hfne, hfd⟩ := hfp f rfl
    simp only [fracChars, List.cons_append]
    have hs : Stop p ('.' :: (f ++ t)) := stop_cons hdot _
    have : f.isEmpty = false := by cases f <;> simp_all
    simp only [takeWhile_app p ip _ hip hs, dropWhile_app p ip _ hip hs, takeWhile_app p f t hfd ht, dropWhile_app p f t hfd ht]
    cases ip with
    | nil => simp [this]
    | cons a ip => simp [this]

theorem takeWhile_all (p : Char → Bool) (ds : List Char) (h : ∀ c ∈ ds, p c = true) : ds.takeWhile p = ds := by
  simpa using takeWhile_app p ds [] h (stop_nil p)

theorem dropWhile_all (p : Char → Bool) (ds : List Char) (h : ∀ c ∈ ds, p c = true) : ds.dropWhile p = [] := by
  simpa using dropWhile_app p ds [] h (stop_nil p)

theorem noSign_of_digits (p : Char → Bool) (hm : p '-' = false) (hp : p '+' = false) (ds : List Char)
    (h : ∀ c ∈ ds, p c = true) : NoSign ds := by
  cases ds with
  | nil => simp [NoSign]
  | cons a t =>
    have ha := h a (by simp)
    constructor <;> (simp only [List.head?_cons, ne_eq, Option.some.injEq]; intro e; subst e; simp_all)

def expText : Option (Sign × List Char) → Option (List Char)
  | none => none
  | some (sg, ds) => some (sg.chars ++ ds)

theorem matchExp_render (expCh : Char) (ex : Option (Sign × List Char))
    (hex : ∀ sg ds, ex = some (sg, ds) → ds ≠ [] ∧ ∀ c ∈ ds, isDig c = true) :
    matchExp expCh (expChars expCh ex) = some (expText ex) := by
  cases ex with
  | none => rfl
  | some v =>
    obtain ⟨sg, ds⟩ := v
    obtain ⟨hne, hd⟩ := hex sg ds rfl
    have hns : NoSign ds := noSign_of_digits isDig (by decide) (by decide) ds hd
    have : ds.isEmpty = false := by cases ds <;> simp_all
    simp only [expChars, matchExp, beq_self_eq_true, ↓reduceIte, matchSign_render sg ds hns,
      takeWhile_all isDig ds hd, dropWhile_all isDig ds hd, this, Bool.false_eq_true, List.isEmpty_nil, expText]
    cases sg <;> rfl

theorem splitDot_render (ip : List Char) (fp : Option (List Char)) (hip : ∀ c ∈ ip, c ≠ '.') :
    splitDot (ip ++ fracChars fp) = (ip, fp) := by
  unfold splitDot
  have hall : ∀ c ∈ ip, (c != '.') = true := by intro c hc; simpa using hip c hc
  cases fp with
  | none =>
    have : '.' ∉ ip := fun h => hip _ h rfl
    simp [fracChars, this]
  | some f =>
    have hs : Stop (· != '.') ('.' :: f) := stop_cons (by simp) _
    simp only [fracChars, takeWhile_app _ ip _ hall hs, dropWhile_app _ ip _ hall hs]
    simp

/-- `_sci_to_fraction` applied to the parts of a spelling; `zeroFill`: an empty integer part is
replaced by `'0'` (only `decnum_to_fraction` does that) -/
def sciEval (base b : Nat) (zeroFill : Bool) (s : Sci) : Except LErr Rat :=
  sciToFraction (signOpt s.sign) (if s.fp.isSome && s.ip.isEmpty && zeroFill then ['0'] else s.ip) s.fp
    (expText s.ex) base b

/-- well-formedness in terms of the matchers' own character classes -/
structure WFb (p : Char → Bool) (s : Sci) : Prop where
  ip_digits : ∀ c ∈ s.ip, p c = true
  fp_digits : ∀ f, s.fp = some f → f ≠ [] ∧ ∀ c ∈ f, p c = true
  ip_or_fp : s.fp = none → s.ip ≠ []
  ex_digits : ∀ sg ds, s.ex = some (sg, ds) → ds ≠ [] ∧ ∀ c ∈ ds, isDig c = true

theorem wfb_dec {s : Sci} (h : s.WF 10) : WFb isDig s :=
  ⟨fun c hc => (isDig_iff c).2 (h.ip_digits c hc),
   fun f hf => ⟨(h.fp_digits f hf).1, fun c hc => (isDig_iff c).2 ((h.fp_digits f hf).2 c hc)⟩,
   h.ip_or_fp,
   fun sg ds he => ⟨(h.ex_digits sg ds he).1, fun c hc => (isDig_iff c).2 ((h.ex_digits sg ds he).2 c hc)⟩⟩

theorem wfb_hex {s : Sci} (h : s.WF 16) : WFb isHex s :=
  ⟨fun c hc => (isHex_iff c).2 (h.ip_digits c hc),
   fun f hf => ⟨(h.fp_digits f hf).1, fun c hc => (isHex_iff c).2 ((h.fp_digits f hf).2 c hc)⟩,
   h.ip_or_fp,
   fun sg ds he => ⟨(h.ex_digits sg ds he).1, fun c hc => (isDig_iff c).2 ((h.ex_digits sg ds he).2 c hc)⟩⟩

theorem stop_expChars (p : Char → Bool) (expCh : Char) (h : p expCh = false) (ex : Option (Sign × List Char)) :
    Stop p (expChars expCh ex) := by
  cases ex with
  | none => exact stop_nil p
  | some v => exact stop_cons h _

theorem head_expChars (expCh : Char) (h : expCh ≠ '.') (ex : Option (Sign × List Char)) :
    (expChars expCh ex).head? ≠ some '.' := by
  cases ex with
  | none => simp [expChars]
  | some v => simp [expChars, h]

theorem noSign_body (p : Char → Bool) (hm : p '-' = false) (hp : p '+' = false) (s : Sci) (t : List Char)
    (h : WFb p s) : NoSign (s.ip ++ (fracChars s.fp ++ t)) := by
  cases hip : s.ip with
  | nil =>
    cases hfp : s.fp with
    | none => exact absurd hip (h.ip_or_fp hfp)
    | some f => simp [NoSign, fracChars]
  | cons a r =>
    have ha : p a = true := h.ip_digits a (by simp [hip])
    constructor <;> (simp only [List.cons_append, List.head?_cons, ne_eq, Option.some.injEq]; intro e; subst e; simp_all)

theorem decnumCore_render (s : Sci) (h : WFb isDig s) :
    decnumCore (s.render [] 'e') = sciEval 10 10 true s := by
  unfold decnumCore matchDec Sci.render
  have hns := noSign_body isDig (by decide) (by decide) s (expChars 'e' s.ex) h
  have hdot : ∀ c ∈ s.ip, c ≠ '.' := by
    intro c hc e; subst e; have := h.ip_digits _ hc; revert this; decide
  simp only [List.nil_append, matchSign_render s.sign _ hns,
    matchMant_render isDig (by decide) s.ip s.fp _ h.ip_digits h.fp_digits h.ip_or_fp
      (stop_expChars isDig 'e' (by decide) s.ex) (head_expChars 'e' (by decide) s.ex),
    matchExp_render 'e' s.ex h.ex_digits, splitDot_render s.ip s.fp hdot, sciEval, Bool.and_true]

theorem hexnumCore_render (s : Sci) (h : WFb isHex s) :
    hexnumCore (s.render ['0', 'x'] 'p') = sciEval 16 2 true s := by
  unfold hexnumCore matchHex Sci.render
  have hms : matchSign (s.sign.chars ++ '0' :: 'x' :: (s.ip ++ (fracChars s.fp ++ expChars 'p' s.ex))) =
      (signOpt s.sign, '0' :: 'x' :: (s.ip ++ (fracChars s.fp ++ expChars 'p' s.ex))) :=
    matchSign_render s.sign _ (by simp [NoSign])
  have hdot : ∀ c ∈ s.ip, c ≠ '.' := by
    intro c hc e; subst e; have := h.ip_digits _ hc; revert this; decide
  simp only [List.cons_append, List.nil_append, hms,
    matchMant_render isHex (by decide) s.ip s.fp _ h.ip_digits h.fp_digits h.ip_or_fp
      (stop_expChars isHex 'p' (by decide) s.ex) (head_expChars 'p' (by decide) s.ex),
    matchExp_render 'p' s.ex h.ex_digits, splitDot_render s.ip s.fp hdot, sciEval, Bool.and_true]

/-! ### values -/

theorem horner_eq (base : Nat) (cs : List Char) (hd : ∀ c ∈ cs, IsDigit 16 c) (a : Nat) :
    cs.foldl (fun a c => a * base + digVal c) a = a * base ^ cs.length + intVal base cs := by
  induction cs generalizing a with
  | nil => simp [intVal]
  | cons c cs ih =>
    have hc : digVal c = digit c := digVal_eq (hd c (by simp))
    simp only [List.foldl_cons, List.length_cons, intVal, hc]
    rw [ih (fun c hc => hd c (by simp [hc]))]
    grind

theorem pyInt_digits (base : Nat) (cs : List Char) (hne : cs ≠ []) (hlim : base = 10 → cs.length ≤ maxStrDigits)
    (hd : ∀ c ∈ cs, IsDigit 16 c) : pyInt base cs = .ok (intVal base cs) := by
  unfold pyInt
  have h1 : cs.isEmpty = false := by cases cs <;> simp_all
  have h2 : (base == 10 && decide (cs.length > maxStrDigits)) = false := by
    by_cases hb : base = 10
    · have := hlim hb; simp [hb]; omega
    · simp [hb]
  simp only [h1, h2, Bool.false_eq_true, ↓reduceIte, horner_eq base cs hd 0, Nat.zero_mul, Nat.zero_add]

theorem pySInt_render (sg : Sign) (ds : List Char) (hne : ds ≠ []) (hlim : ds.length ≤ maxStrDigits)
    (hd : ∀ c ∈ ds, IsDigit 10 c) :
    pySInt (sg.chars ++ ds) = .ok (if sg.isNeg then -(intVal 10 ds : Int) else (intVal 10 ds : Int)) := by
  have hp := pyInt_digits 10 ds hne (fun _ => hlim) (fun c hc => isDigit_10_16 (hd c hc))
  cases sg with
  | none =>
    have hns : NoSign ds := noSign_of_digits isDig (by decide) (by decide) ds (fun c hc => (isDig_iff c).2 (hd c hc))
    simp only [Sign.chars, List.nil_append, Sign.isNeg, Bool.false_eq_true, ↓reduceIte]
    unfold pySInt
    split
    · exact absurd rfl hns.1
    · exact absurd rfl hns.2
    · rw [hp]; rfl
  | plus => show pySInt ('+' :: ds) = _; unfold pySInt; simp only [hp]; rfl
  | minus => show pySInt ('-' :: ds) = _; unfold pySInt; simp only [hp]; rfl

theorem ratBase_pos (base : Nat) (hb : 0 < base) : (0 : Rat) < ((base : Nat) : Rat) := by exact_mod_cast hb

theorem fracVal_eq (base : Nat) (hb : 0 < base) (f : List Char) :
    ((intVal base f : Nat) : Rat) * ((base : Nat) : Rat) ^ (-(f.length : Int)) = fracVal base f := by
  have hB := ratBase_pos base hb
  induction f with
  | nil => simp [intVal, fracVal]
  | cons c cs ih =>
    have h1 : (0 : Rat) < ((base : Nat) : Rat) ^ cs.length := Rat.pow_pos hB
    have h2 : (0 : Rat) < ((base : Nat) : Rat) ^ (cs.length + 1) := Rat.pow_pos hB
    have h3 : ((base : Nat) : Rat) ^ (cs.length + 1) = ((base : Nat) : Rat) ^ cs.length * ((base : Nat) : Rat) := Rat.pow_succ _ _
    rw [Rat.zpow_neg, Rat.zpow_natCast] at ih
    simp only [List.length_cons, intVal, fracVal]
    rw [Rat.zpow_neg, Rat.zpow_natCast, ← ih]
    push_cast
    grind

theorem isDigit_16_of {base : Nat} {c : Char} (h : IsDigit base c) : IsDigit 16 c := by
  unfold IsDigit at *
  have : alphabet.take 16 = alphabet := by decide
  rw [this]; exact List.mem_of_mem_take h

/-- the digit groups respect CPython's `int(str)` length limit (it applies to base 10 only) -/
structure Within (base : Nat) (s : Sci) : Prop where
  ip : base = 10 → s.ip.length ≤ maxStrDigits
  fp : ∀ f, s.fp = some f → base = 10 → f.length ≤ maxStrDigits
  ex : ∀ sg ds, s.ex = some (sg, ds) → ds.length ≤ maxStrDigits

theorem sciEval_value (base b : Nat) (hb : 0 < base) (zf : Bool) (s : Sci) (h : s.WF base) (hl : Within base s)
    (hz : zf = true ∨ s.ip ≠ []) : sciEval base b zf s = .ok (s.value base b) := by
  -- integer part
  have hI : pyInt base (if (s.fp.isSome && s.ip.isEmpty && zf) = true then ['0'] else s.ip) = .ok (intVal base s.ip) := by
    by_cases hip : s.ip = []
    · have hfp : s.fp.isSome = true := by
        cases hf : s.fp with
        | none => exact absurd hip (h.ip_or_fp hf)
        | some f => rfl
      have hzf : zf = true := by cases hz with | inl h => exact h | inr h => exact absurd hip h
      have h0 : IsDigit 16 '0' := by unfold IsDigit; decide
      have := pyInt_digits base ['0'] (by simp) (fun _ => by simp [maxStrDigits]) (by intro c hc; simp at hc; subst hc; exact h0)
      have hv : intVal base ['0'] = intVal base [] := by simp [intVal, digit, alphabet]
      simp only [hfp, hip, hzf, List.isEmpty_nil, Bool.and_self, ↓reduceIte, this, hv]
    · have hne : s.ip.isEmpty = false := by cases hs : s.ip <;> simp_all
      simp only [hne, Bool.and_false, Bool.false_and, Bool.false_eq_true, ↓reduceIte]
      exact pyInt_digits base s.ip hip hl.ip (fun c hc => isDigit_16_of (h.ip_digits c hc))
  -- sign
  have hS : (signOpt s.sign == some '-') = s.sign.isNeg := by cases s.sign <;> decide
  unfold sciEval sciToFraction
  simp only [hI, hS]
  cases hfp : s.fp with
  | none =>
    simp only [bind, Except.bind, pure, Except.pure, Sci.value, hfp, Option.getD]
    cases hex : s.ex with
    | none => simp [expText, Sci.expVal, hex, fracVal]
    | some v =>
      obtain ⟨sg, ds⟩ := v
      obtain ⟨hne', hd'⟩ := h.ex_digits sg ds hex
      simp [expText, pySInt_render sg ds hne' (hl.ex sg ds hex) hd', Sci.expVal, hex, fracVal]
  | some f =>
    obtain ⟨hne, hd⟩ := h.fp_digits f hfp
    have hF := pyInt_digits base f hne (hl.fp f hfp) (fun c hc => isDigit_16_of (hd c hc))
    simp only [hF, Except.map, bind, Except.bind, pure, Except.pure, Sci.value, hfp, Option.getD, fracVal_eq base hb f]
    cases hex : s.ex with
    | none => simp [expText, Sci.expVal, hex]
    | some v =>
      obtain ⟨sg, ds⟩ := v
      obtain ⟨hne', hd'⟩ := h.ex_digits sg ds hex
      simp [expText, pySInt_render sg ds hne' (hl.ex sg ds hex) hd', Sci.expVal, hex]

/-- the `int(str)` length limit as a Boolean -/
def withinB (base : Nat) (s : Sci) : Bool :=
  (base != 10 || decide (s.ip.length ≤ maxStrDigits)) &&
  (base != 10 || decide ((s.fp.getD []).length ≤ maxStrDigits)) &&
  (match s.ex with | none => true | some (_, ds) => decide (ds.length ≤ maxStrDigits))

theorem within_of_withinB {base : Nat} {s : Sci} (h : withinB base s = true) : Within base s := by
  unfold withinB at h
  simp only [Bool.and_eq_true, Bool.or_eq_true, bne_iff_ne, ne_eq, decide_eq_true_eq] at h
  obtain ⟨⟨h1, h2⟩, h3⟩ := h
  refine ⟨fun hb => ?_, fun f hf hb => ?_, fun sg ds he => ?_⟩
  · cases h1 with | inl h => exact absurd hb h | inr h => exact h
  · cases h2 with | inl h => exact absurd hb h | inr h => simpa [hf] using h
  · simpa [he] using h3

theorem pyInt_over (cs : List Char) (h : cs.length > maxStrDigits) : pyInt 10 cs = .error .value := by
  unfold pyInt
  have : cs.isEmpty = false := by cases cs <;> simp_all [maxStrDigits]
  simp [this, h]

theorem pySInt_over (sg : Sign) (ds : List Char) (hd : ∀ c ∈ ds, IsDigit 10 c) (h : ds.length > maxStrDigits) :
    pySInt (sg.chars ++ ds) = .error .value := by
  have hp := pyInt_over ds h
  cases sg with
  | none =>
    have hns : NoSign ds := noSign_of_digits isDig (by decide) (by decide) ds (fun c hc => (isDig_iff c).2 (hd c hc))
    simp only [Sign.chars, List.nil_append]
    unfold pySInt
    split
    · exact absurd rfl hns.1
    · exact absurd rfl hns.2
    · rw [hp]; rfl
  | plus => show pySInt ('+' :: ds) = _; unfold pySInt; simp only [hp]; rfl
  | minus => show pySInt ('-' :: ds) = _; unfold pySInt; simp only [hp]; rfl

/-- complete description of `_sci_to_fraction` on the parts of a well-formed spelling:
the positional value, or `ValueError` when a digit group exceeds CPython's `int(str)` limit -/
theorem sciEval_eq (base b : Nat) (hb : 0 < base) (zf : Bool) (s : Sci) (h : s.WF base)
    (hz : zf = true ∨ s.ip ≠ []) :
    sciEval base b zf s = if withinB base s then .ok (s.value base b) else .error .value := by
  by_cases hw : withinB base s = true
  · simp only [hw, ↓reduceIte]
    exact sciEval_value base b hb zf s h (within_of_withinB hw) hz
  · simp only [hw, Bool.false_eq_true, ↓reduceIte]
    -- one of the three groups is too long
    by_cases h1 : base = 10 ∧ s.ip.length > maxStrDigits
    · obtain ⟨hb10, hlen⟩ := h1
      subst hb10
      have hne : s.ip.isEmpty = false := by cases hs : s.ip <;> simp_all [maxStrDigits]
      unfold sciEval sciToFraction
      simp only [hne, Bool.and_false, Bool.false_and, Bool.false_eq_true, ↓reduceIte, pyInt_over s.ip hlen, bind, Except.bind]
    · -- the integer part converts
      have hI : pyInt base (if (s.fp.isSome && s.ip.isEmpty && zf) = true then ['0'] else s.ip) = .ok (intVal base s.ip) := by
        by_cases hip : s.ip = []
        · have hfp : s.fp.isSome = true := by
            cases hf : s.fp with
            | none => exact absurd hip (h.ip_or_fp hf)
            | some f => rfl
          have hzf : zf = true := by cases hz with | inl h => exact h | inr h => exact absurd hip h
          have h0 : IsDigit 16 '0' := by unfold IsDigit; decide
          have := pyInt_digits base ['0'] (by simp) (fun _ => by simp [maxStrDigits]) (by intro c hc; simp at hc; subst hc; exact h0)
          have hv : intVal base ['0'] = intVal base [] := by simp [intVal, digit, alphabet]
          simp only [hfp, hip, hzf, List.isEmpty_nil, Bool.and_self, ↓reduceIte, this, hv]
        · have hne : s.ip.isEmpty = false := by cases hs : s.ip <;> simp_all
          simp only [hne, Bool.and_false, Bool.false_and, Bool.false_eq_true, ↓reduceIte]
          exact pyInt_digits base s.ip hip (fun hb10 => by have := fun hl => h1 ⟨hb10, hl⟩; omega)
            (fun c hc => isDigit_16_of (h.ip_digits c hc))
      by_cases h2 : base = 10 ∧ (s.fp.getD []).length > maxStrDigits
      · obtain ⟨hb10, hlen⟩ := h2
        subst hb10
        cases hfp : s.fp with
        | none => simp [hfp, maxStrDigits] at hlen
        | some f =>
          simp only [hfp, Option.getD] at hlen
          simp only [hfp] at hI
          unfold sciEval sciToFraction
          simp only [hI, hfp, pyInt_over f hlen, Except.map, bind, Except.bind]
      · -- the fraction converts
        cases hex : s.ex with
        | none =>
          exfalso; apply hw
          unfold withinB
          simp only [hex, Bool.and_true, Bool.and_eq_true, Bool.or_eq_true, bne_iff_ne, ne_eq, decide_eq_true_eq]
          constructor
          · by_cases hb10 : base = 10
            · right; have := fun hl => h1 ⟨hb10, hl⟩; omega
            · left; exact hb10
          · by_cases hb10 : base = 10
            · right; have := fun hl => h2 ⟨hb10, hl⟩; omega
            · left; exact hb10
        | some v =>
          obtain ⟨sg, ds⟩ := v
          obtain ⟨hne', hd'⟩ := h.ex_digits sg ds hex
          have h3 : ds.length > maxStrDigits := by
            apply Classical.byContradiction; intro hn; apply hw
            unfold withinB
            simp only [hex, Bool.and_eq_true, Bool.or_eq_true, bne_iff_ne, ne_eq, decide_eq_true_eq]
            refine ⟨⟨?_, ?_⟩, by omega⟩
            · by_cases hb10 : base = 10
              · right; have := fun hl => h1 ⟨hb10, hl⟩; omega
              · left; exact hb10
            · by_cases hb10 : base = 10
              · right; have := fun hl => h2 ⟨hb10, hl⟩; omega
              · left; exact hb10
          have hE := pySInt_over sg ds hd' h3
          unfold sciEval sciToFraction
          cases hfp : s.fp with
          | none =>
            simp only [hfp] at hI
            simp only [hI, hex, expText, hE, bind, Except.bind]
          | some f =>
            obtain ⟨hnf, hdf⟩ := h.fp_digits f hfp
            have hF := pyInt_digits base f hnf (fun hb10 => by have := fun hl => h2 ⟨hb10, hl⟩; simp [hfp] at this; omega)
              (fun c hc => isDigit_16_of (hdf c hc))
            simp only [hfp] at hI
            simp only [hI, hF, hex, expText, hE, Except.map, bind, Except.bind]

/-! ### the matchers accept nothing but renderings -/

theorem matchSign_inv (cs r : List Char) (o : Option Char) (h : matchSign cs = (o, r)) :
    ∃ sg : Sign, o = signOpt sg ∧ cs = sg.chars ++ r := by
  unfold matchSign at h
  split at h
  · cases h; exact ⟨.minus, rfl, rfl⟩
  · cases h; exact ⟨.plus, rfl, rfl⟩
  · cases h; exact ⟨.none, rfl, rfl⟩

theorem takeWhile_all_mem (p : Char → Bool) (l : List Char) : ∀ c ∈ l.takeWhile p, p c = true := by
  have h : (l.takeWhile p).all p = true := List.all_takeWhile
  intro c hc; exact List.all_eq_true.1 h c hc

theorem matchMant_inv (p : Char → Bool) (cs m r : List Char) (h : matchMant p cs = some (m, r)) :
    ∃ ip fp, m = ip ++ fracChars fp ∧ cs = m ++ r ∧ (∀ c ∈ ip, p c = true) ∧
      (∀ f, fp = some f → f ≠ [] ∧ ∀ c ∈ f, p c = true) ∧ (fp = none → ip ≠ []) := by
  unfold matchMant at h
  have hcs : cs.takeWhile p ++ cs.dropWhile p = cs := List.takeWhile_append_dropWhile
  have hall := takeWhile_all_mem p cs
  generalize hi : cs.takeWhile p = i at h hcs hall
  generalize hr : cs.dropWhile p = r0 at h hcs
  by_cases hie : i.isEmpty = true
  · simp only [hie, ↓reduceIte] at h
    split at h
    · rename_i r'
      have hcs' : r'.takeWhile p ++ r'.dropWhile p = r' := List.takeWhile_append_dropWhile
      have hall' := takeWhile_all_mem p r'
      generalize hf : r'.takeWhile p = f at h hcs' hall'
      generalize hd : r'.dropWhile p = d at h hcs'
      by_cases hfe : f.isEmpty = true
      · simp [hfe] at h
      · simp only [hfe, Bool.false_eq_true, ↓reduceIte, Option.some.injEq, Prod.mk.injEq] at h
        obtain ⟨hm, hr'⟩ := h
        have hin : i = [] := by simpa using hie
        refine ⟨[], some f, by simp [fracChars, hm], ?_, by simp, ?_, by simp⟩
        · rw [← hcs, hin, ← hm, ← hr', ← hcs']; simp
        · intro f' hf'; cases hf'; exact ⟨by intro e; apply hfe; simp [e], hall'⟩
    · cases h
  · simp only [hie, Bool.false_eq_true, ↓reduceIte] at h
    have hine : i ≠ [] := by intro e; apply hie; simp [e]
    split at h
    · rename_i r'
      have hcs' : r'.takeWhile p ++ r'.dropWhile p = r' := List.takeWhile_append_dropWhile
      have hall' := takeWhile_all_mem p r'
      generalize hf : r'.takeWhile p = f at h hcs' hall'
      generalize hd : r'.dropWhile p = d at h hcs'
      by_cases hfe : f.isEmpty = true
      · simp only [hfe, ↓reduceIte, Option.some.injEq, Prod.mk.injEq] at h
        obtain ⟨hm, hr'⟩ := h
        refine ⟨i, none, by simp [fracChars, hm], ?_, hall, by simp, fun _ => hine⟩
        rw [← hcs, ← hm, ← hr']
      · simp only [hfe, Bool.false_eq_true, ↓reduceIte, Option.some.injEq, Prod.mk.injEq] at h
        obtain ⟨hm, hr'⟩ := h
        refine ⟨i, some f, by simp [fracChars, hm], ?_, hall, ?_, by simp⟩
        · rw [← hcs, ← hm, ← hr', ← hcs']; simp
        · intro f' hf'; cases hf'; exact ⟨by intro e; apply hfe; simp [e], hall'⟩
    · simp only [Option.some.injEq, Prod.mk.injEq] at h
      obtain ⟨hm, hr'⟩ := h
      refine ⟨i, none, by simp [fracChars, hm], ?_, hall, by simp, fun _ => hine⟩
      rw [← hcs, ← hm, ← hr']

theorem matchExp_inv (expCh : Char) (r : List Char) (e : Option (List Char)) (h : matchExp expCh r = some e) :
    ∃ ex, e = expText ex ∧ r = expChars expCh ex ∧
      (∀ sg ds, ex = some (sg, ds) → ds ≠ [] ∧ ∀ c ∈ ds, isDig c = true) := by
  cases r with
  | nil =>
    simp only [matchExp, Option.some.injEq] at h
    exact ⟨none, by simp [expText, ← h], rfl, by simp⟩
  | cons c r' =>
    unfold matchExp at h
    by_cases hc : (c == expCh) = true
    · simp only [hc, ↓reduceIte] at h
      cases hms : matchSign r' with
      | mk o r1 =>
        obtain ⟨sg, ho, hr'⟩ := matchSign_inv r' r1 o hms
        simp only [hms] at h
        have hcs : r1.takeWhile isDig ++ r1.dropWhile isDig = r1 := List.takeWhile_append_dropWhile
        have hall := takeWhile_all_mem isDig r1
        generalize hds : r1.takeWhile isDig = ds at h hcs hall
        generalize hdd : r1.dropWhile isDig = dd at h hcs
        by_cases hde : ds.isEmpty = true
        · simp [hde] at h
        · simp only [hde, Bool.false_eq_true, ↓reduceIte] at h
          by_cases hdde : dd.isEmpty = true
          · simp only [hdde, ↓reduceIte, Option.some.injEq] at h
            have hdn : dd = [] := by simpa using hdde
            have hce : c = expCh := by simpa using hc
            refine ⟨some (sg, ds), ?_, ?_, ?_⟩
            · rw [← h, ho]; cases sg <;> rfl
            · simp only [expChars, hce, hr', ← hcs, hdn, List.append_nil]
            · intro sg' ds' he; cases he; exact ⟨by intro e'; apply hde; simp [e'], hall⟩
          · simp [hdde] at h
    · simp [hc] at h

/-- every string `_DECIMAL_PATTERN` matches is the rendering of a well-formed spelling, and the
capture groups are its parts -/
theorem matchDec_inv (cs : List Char) (g : Groups) (h : matchDec cs = some g) :
    ∃ s : Sci, WFb isDig s ∧ cs = s.render [] 'e' ∧
      g = ⟨signOpt s.sign, s.ip ++ fracChars s.fp, expText s.ex⟩ := by
  unfold matchDec at h
  cases hms : matchSign cs with
  | mk o r =>
    obtain ⟨sg, ho, hcs⟩ := matchSign_inv cs r o hms
    simp only [hms] at h
    cases hmm : matchMant isDig r with
    | none => simp [hmm] at h
    | some mr =>
      obtain ⟨m, r1⟩ := mr
      obtain ⟨ip, fp, hm, hr, hip, hfp, hne⟩ := matchMant_inv isDig r m r1 hmm
      simp only [hmm] at h
      cases hme : matchExp 'e' r1 with
      | none => simp [hme] at h
      | some e =>
        obtain ⟨ex, he, hr1, hex⟩ := matchExp_inv 'e' r1 e hme
        simp only [hme, Option.some.injEq] at h
        refine ⟨⟨sg, ip, fp, ex⟩, ⟨hip, hfp, hne, hex⟩, ?_, ?_⟩
        · simp only [Sci.render, List.nil_append, hcs, hr, hm, hr1, List.append_assoc]
        · rw [← h, ho, hm, he]

theorem matchHex_inv (cs : List Char) (g : Groups) (h : matchHex cs = some g) :
    ∃ s : Sci, WFb isHex s ∧ cs = s.render ['0', 'x'] 'p' ∧
      g = ⟨signOpt s.sign, s.ip ++ fracChars s.fp, expText s.ex⟩ := by
  unfold matchHex at h
  cases hms : matchSign cs with
  | mk o r =>
    obtain ⟨sg, ho, hcs⟩ := matchSign_inv cs r o hms
    simp only [hms] at h
    split at h
    · rename_i r0
      cases hmm : matchMant isHex r0 with
      | none => simp [hmm] at h
      | some mr =>
        obtain ⟨m, r1⟩ := mr
        obtain ⟨ip, fp, hm, hr, hip, hfp, hne⟩ := matchMant_inv isHex r0 m r1 hmm
        simp only [hmm] at h
        cases hme : matchExp 'p' r1 with
        | none => simp [hme] at h
        | some e =>
          obtain ⟨ex, he, hr1, hex⟩ := matchExp_inv 'p' r1 e hme
          simp only [hme, Option.some.injEq] at h
          refine ⟨⟨sg, ip, fp, ex⟩, ⟨hip, hfp, hne, hex⟩, ?_, ?_⟩
          · simp only [Sci.render, hcs, hr, hm, hr1, List.append_assoc, List.cons_append, List.nil_append]
          · rw [← h, ho, hm, he]
    · cases h


theorem wf_of_wfb_dec {s : Sci} (h : WFb isDig s) : s.WF 10 :=
  ⟨fun c hc => (isDig_iff c).1 (h.ip_digits c hc),
   fun f hf => ⟨(h.fp_digits f hf).1, fun c hc => (isDig_iff c).1 ((h.fp_digits f hf).2 c hc)⟩,
   h.ip_or_fp,
   fun sg ds he => ⟨(h.ex_digits sg ds he).1, fun c hc => (isDig_iff c).1 ((h.ex_digits sg ds he).2 c hc)⟩⟩

theorem wf_of_wfb_hex {s : Sci} (h : WFb isHex s) : s.WF 16 :=
  ⟨fun c hc => (isHex_iff c).1 (h.ip_digits c hc),
   fun f hf => ⟨(h.fp_digits f hf).1, fun c hc => (isHex_iff c).1 ((h.fp_digits f hf).2 c hc)⟩,
   h.ip_or_fp,
   fun sg ds he => ⟨(h.ex_digits sg ds he).1, fun c hc => (isDig_iff c).1 ((h.ex_digits sg ds he).2 c hc)⟩⟩

/-! ### `strip` leaves a rendering alone -/

theorem isSpace_digit {c : Char} (h : IsDigit 16 c) : isSpace c = false := by
  have : ∀ c ∈ alphabet.take 16, isSpace c = false := by decide
  exact this c h

theorem strip_id (cs : List Char) (a : Char) (t : List Char) (i : List Char) (z : Char)
    (h1 : cs = a :: t) (h2 : cs = i ++ [z]) (ha : isSpace a = false) (hz : isSpace z = false) :
    strip cs = cs := by
  unfold strip lstrip
  have : cs.dropWhile isSpace = cs := by rw [h1]; simp [List.dropWhile, ha]
  rw [this, h2]
  simp [hz]

/-- a rendering ends in a digit -/
theorem render_last (base : Nat) (pre : List Char) (expCh : Char) (s : Sci) (h : s.WF base) :
    ∃ i z, s.render pre expCh = i ++ [z] ∧ IsDigit 16 z := by
  have key : ∀ (front ds : List Char), ds ≠ [] → (∀ c ∈ ds, IsDigit 16 c) →
      ∃ i z, front ++ ds = i ++ [z] ∧ IsDigit 16 z := by
    intro front ds hne hd
    refine ⟨front ++ ds.dropLast, ds.getLast hne, ?_, hd _ (List.getLast_mem hne)⟩
    rw [List.append_assoc, List.dropLast_concat_getLast]
  unfold Sci.render
  cases hex : s.ex with
  | some v =>
    obtain ⟨sg, ds⟩ := v
    obtain ⟨hne, hd⟩ := h.ex_digits sg ds hex
    have := key (s.sign.chars ++ (pre ++ (s.ip ++ (fracChars s.fp ++ (expCh :: sg.chars))))) ds hne
      (fun c hc => isDigit_10_16 (hd c hc))
    simpa [expChars, List.append_assoc] using this
  | none =>
    cases hfp : s.fp with
    | some f =>
      obtain ⟨hne, hd⟩ := h.fp_digits f hfp
      have := key (s.sign.chars ++ (pre ++ (s.ip ++ ['.']))) f hne (fun c hc => isDigit_16_of (hd c hc))
      simpa [expChars, fracChars, List.append_assoc] using this
    | none =>
      have hne := h.ip_or_fp hfp
      have := key (s.sign.chars ++ pre) s.ip hne (fun c hc => isDigit_16_of (h.ip_digits c hc))
      simpa [expChars, fracChars, List.append_assoc] using this

/-- a rendering (with a non-blank prefix, or none) starts with a non-blank character -/
theorem render_first (base : Nat) (pre : List Char) (hpre : ∀ c ∈ pre, isSpace c = false) (expCh : Char) (s : Sci)
    (h : s.WF base) : ∃ a t, s.render pre expCh = a :: t ∧ isSpace a = false := by
  unfold Sci.render
  cases hsg : s.sign with
  | plus => exact ⟨'+', _, rfl, by decide⟩
  | minus => exact ⟨'-', _, rfl, by decide⟩
  | none =>
    simp only [Sign.chars, List.nil_append]
    cases hp : pre with
    | cons a t => exact ⟨a, _, rfl, hpre a (by simp [hp])⟩
    | nil =>
      simp only [List.nil_append]
      cases hip : s.ip with
      | cons a t => exact ⟨a, _, rfl, isSpace_digit (isDigit_16_of (h.ip_digits a (by simp [hip])))⟩
      | nil =>
        cases hfp : s.fp with
        | none => exact absurd hip (h.ip_or_fp hfp)
        | some f => exact ⟨'.', _, rfl, by decide⟩

theorem strip_render (base : Nat) (pre : List Char) (hpre : ∀ c ∈ pre, isSpace c = false) (expCh : Char) (s : Sci)
    (h : s.WF base) : strip (s.render pre expCh) = s.render pre expCh := by
  obtain ⟨a, t, h1, ha⟩ := render_first base pre hpre expCh s h
  obtain ⟨i, z, h2, hz⟩ := render_last base pre expCh s h
  exact strip_id _ a t i z h1 h2 ha (isSpace_digit hz)

theorem lstrip_render_head (base : Nat) (pre : List Char) (hpre : ∀ c ∈ pre, isSpace c = false ∧ c ≠ '-')
    (expCh : Char) (s : Sci) (h : s.WF base) :
    ((lstrip (s.render pre expCh)).head? == some '-') = s.sign.isNeg := by
  obtain ⟨a, t, h1, ha⟩ := render_first base pre (fun c hc => (hpre c hc).1) expCh s h
  have hl : lstrip (s.render pre expCh) = s.render pre expCh := by
    unfold lstrip; rw [h1]; simp [List.dropWhile, ha]
  rw [hl]
  unfold Sci.render
  cases hsg : s.sign with
  | plus => simp [Sign.chars, Sign.isNeg]
  | minus => simp [Sign.chars, Sign.isNeg]
  | none =>
    simp only [Sign.chars, List.nil_append, Sign.isNeg]
    cases hp : pre with
    | cons a t => simpa using (hpre a (by simp [hp])).2
    | nil =>
      simp only [List.nil_append]
      cases hip : s.ip with
      | cons a t =>
        have := h.ip_digits a (by simp [hip])
        have hne : a ≠ '-' := by intro e; subst e; exact not_digit_misc.2.1 (isDigit_16_of this)
        simpa using hne
      | nil =>
        cases hfp : s.fp with
        | none => exact absurd hip (h.ip_or_fp hfp)
        | some f => simp [fracChars]

/-! ### integer tokens -/

theorem digitPartAux_all (p : Char → Bool) (cs : List Char) (h : ∀ c ∈ cs, p c = true) :
    ∀ (fuel : Nat) (acc : List Char), cs.length < fuel → digitPartAux p fuel acc cs = some (acc.reverse ++ cs, []) := by
  induction cs with
  | nil =>
    intro fuel acc hf
    cases fuel with
    | zero => omega
    | succ n => simp [digitPartAux]
  | cons c cs ih =>
    intro fuel acc hf
    cases fuel with
    | zero => omega
    | succ n =>
      have hc : p c = true := h c (by simp)
      simp only [digitPartAux, hc, ↓reduceIte]
      rw [ih (fun c hc => h c (by simp [hc])) n (c :: acc) (by simp at hf; omega)]
      simp

theorem digitPart_all (p : Char → Bool) (cs : List Char) (h : ∀ c ∈ cs, p c = true) :
    digitPart p cs = some (cs, []) := by
  unfold digitPart
  rw [digitPartAux_all p cs h (cs.length + 1) [] (by omega)]
  simp


end Fpy.Lit
