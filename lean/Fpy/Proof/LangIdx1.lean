/-
Loop restructuring, part 1: one emitted body copy `p = t[iv]; body` is one iteration of the element
loop, in continuation-passing form.
-/
import Fpy.Proof.LangIdx0
namespace Fpy.Xform
open Fpy Fpy.Lang


/-- an index expression of the emitted code: a name or a literal holding the integer `i` -/
def AtomInt (Φ : Funs) (σ : Env) (e : Expr) (i : Int) : Prop :=
  ∃ w, (∀ μ C, evalEω Φ σ μ C e = .ok (.num w, μ)) ∧ nvInt? w = some i

theorem AtomInt.var {Φ : Funs} {σ : Env} {x : String} {w : NV} {i : Int} (h : σ.get? x = some (.num w))
    (hw : nvInt? w = some i) : AtomInt Φ σ (.var x) i :=
  ⟨w, fun μ C => by rw [evalEω_var, h], hw⟩

theorem AtomInt.num {Φ : Funs} {σ : Env} {w : NV} {i : Int} (hw : nvInt? w = some i) : AtomInt Φ σ (.num w) i :=
  ⟨w, fun μ C => evalEω_num Φ σ μ C w, hw⟩

theorem AtomInt.congr {Φ : Funs} {σ σ' : Env} {e : Expr} {i : Int} (h : AtomInt Φ σ e i)
    (hσ : ∀ z ∈ readsE e, σ'.get? z = σ.get? z) : AtomInt Φ σ' e i := by
  obtain ⟨w, h1, h2⟩ := h
  refine ⟨w, fun μ C => ?_, h2⟩
  rw [← h1 μ C]
  exact sim_evalEω (inv_idRel.2 hσ) (simE_idRel_of_reads (fun _ hz => hz)) μ C

/-- `p = t[ie]; body` — what the loop transformations emit for one element (`ie` a name or a literal) -/
def copyStmt (p : Pat) (t : String) (ie : Expr) (body : List Stmt) : List Stmt :=
  .assign p (.index (.var t) ie) :: body

/-- the joint invariant of the element loop (left) and the emitted indexed code (right): environments
related on the user variables `S`, related heaps, the iterated list `r` is live and has `N` elements,
and the temporary `t` holds (the right-hand name of) that list -/
structure Jinv (S : List String) (π : RMap) (D : List Nat) (r N : Nat) (t : String)
    (σ1 : Env) (μ1 : Heap) (σ2 : Env) (μ2 : Heap) : Prop where
  env : ERS S π D μ1.length σ1 σ2
  heap : HR π D μ1 μ2
  rlive : r ∉ D
  cell : ∃ l, μ1[r]? = some l ∧ l.length = N
  tbind : σ2.get? t = some (.list (π r))

theorem asIndex_int {w : NV} {i : Nat} (hw : nvInt? w = some (i : Int)) : asIndex (.num w) = .ok i := by
  unfold asIndex asNum
  show (match nvInt? w with | none => _ | some i => _) = _
  rw [hw]
  show (if (i : Int) < 0 then _ else _) = _
  rw [if_neg (by omega)]
  simp

theorem copy_cont {Ans : M (Outcome × Heap) → M (Outcome × Heap) → Prop} (hA : AnsOK Ans)
    {Φ : Funs} {C : Ctx} {S : List String} {π : RMap} {D : List Nat} {r N : Nat} {t : String} {p : Pat}
    {body : List Stmt} (hreads : ∀ z ∈ readsB body, z ∈ S) (htp : t ∉ bvP p ++ bvB body)
    {σ1 : Env} {μ1 : Heap} {σ2 : Env} {μ2 : Heap} (J : Jinv S π D r N t σ1 μ1 σ2 μ2)
    {ie : Expr} {w : NV} {i : Nat} (hie : evalEω Φ σ2 μ2 C ie = .ok (.num w, μ2)) (hw : nvInt? w = some (i : Int)) (hi : i < N)
    (k2 : Outcome × Heap → M (Outcome × Heap)) (hk2 : ∀ v m, k2 (.ret v, m) = .ok (.ret v, m))
    (hK : ∀ σ1' m1 σ2' m2, Jinv S π D r N t σ1' m1 σ2' m2 → ExtP π D μ1 μ2 m1 m2 →
      (∀ z, z ∉ bvP p ++ bvB body → σ2'.get? z = σ2.get? z) →
      Ans (forLoopω Φ σ1' m1 C r (i + 1) p body) (k2 (.normal σ2', m2))) :
    Ans (forLoopω Φ σ1 μ1 C r i p body) (evalBω Φ σ2 μ2 C (copyStmt p t ie body) >>= k2) := by
  obtain ⟨l, hl, hlen⟩ := J.cell
  obtain ⟨l2, hl2, hll⟩ := J.heap.cells r l J.rlive hl
  have hi' : i < l.length := by omega
  have hx := VRs.get hll i
  rw [List.getElem?_eq_getElem hi'] at hx
  cases e2 : l2[i]? with
  | none => rw [e2] at hx; simp only [ORel] at hx
  | some x2 =>
    rw [e2] at hx; simp only [ORel] at hx
    -- left: one iteration
    rw [forLoopω_eq]
    have hg1 : heapGet μ1 r = .ok l := by unfold heapGet; rw [hl]
    have hg2 : heapGet μ2 (π r) = .ok l2 := by unfold heapGet; rw [hl2]
    rw [hg1]
    show Ans (match l[i]? with | none => _ | some x => _) _
    rw [List.getElem?_eq_getElem hi']
    -- right: the indexed read
    show Ans _ (evalBω Φ σ2 μ2 C (.assign p (.index (.var t) ie) :: body) >>= k2)
    rw [evalBω_cons', evalSω_assign, evalEω_index, evalEω_var, J.tbind]
    show Ans _ (((((evalEω Φ σ2 μ2 C ie >>= _) >>= _) >>= _)) >>= k2)
    rw [hie]
    show Ans _ (((((asSeq μ2 (.list (π r)) >>= _) >>= _) >>= _)) >>= k2)
    have hal : asSeq μ2 (.list (π r)) = .ok l2 := hg2
    rw [hal]
    show Ans _ (((((asIndex (.num w) >>= _) >>= _) >>= _)) >>= k2)
    rw [asIndex_int hw]
    show Ans _ ((((match l2[i]? with | some v => _ | none => _) >>= _) >>= _) >>= k2)
    rw [e2]
    show Ans (bindPatω p l[i] σ1 >>= _) (((bindPatω p x2 σ2 >>= _) >>= _) >>= k2)
    have hb := bindPatω_relS (S := S) p J.env hx
    cases b1 : bindPatω p l[i] σ1 <;> cases b2 : bindPatω p x2 σ2 <;> rw [b1, b2] at hb <;> simp only [RelM] at hb
    · subst hb; exact hA.err _
    · rename_i σ1' σ2'
      show Ans (evalBω Φ σ1' μ1 C body >>= _) (evalBω Φ σ2' μ2 C body >>= k2)
      refine ans_bind hA (par_on hreads (Nat.le_refl _) hb J.heap C) (fun _ _ => rfl) hk2 ?_
      intro σ1'' m1 σ2'' m2 ha hbb he hh hx'
      have hfr : ∀ z, z ∉ bvP p ++ bvB body → σ2''.get? z = σ2.get? z := by
        intro z hz
        rw [evalBω_frame Φ σ2' μ2 C body hbb z (mem_of_not_mem_append_right hz),
          bindPatω_frame b2 z (mem_of_not_mem_append_left hz)]
      refine hK σ1'' m1 σ2'' m2 ⟨he, hh, J.rlive, ?_, ?_⟩ hx' hfr
      · obtain ⟨l', h1, h2⟩ := hx'.e1.len r l hl
        exact ⟨l', h1, h2.trans hlen⟩
      · rw [hfr t htp]; exact J.tbind

/-- several copies in a row: the index expressions `ies` hold `i, i+1, …` -/
theorem copies_cont {Ans : M (Outcome × Heap) → M (Outcome × Heap) → Prop} (hA : AnsOK Ans)
    {Φ : Funs} {C : Ctx} {S : List String} {π : RMap} {D : List Nat} {r N : Nat} {t : String} {p : Pat}
    {body : List Stmt} (hreads : ∀ z ∈ readsB body, z ∈ S) (htp : t ∉ bvP p ++ bvB body) :
    ∀ (ies : List Expr) (i : Nat) {σ1 : Env} {μ1 : Heap} {σ2 : Env} {μ2 : Heap}, Jinv S π D r N t σ1 μ1 σ2 μ2 →
    (∀ ie ∈ ies, ∀ z ∈ readsE ie, z ∉ bvP p ++ bvB body) →
    (∀ j (h : j < ies.length), AtomInt Φ σ2 ies[j] ((i + j : Nat) : Int)) →
    i + ies.length ≤ N →
    ∀ (k2 : Outcome × Heap → M (Outcome × Heap)), (∀ v m, k2 (.ret v, m) = .ok (.ret v, m)) →
    (∀ σ1' m1 σ2' m2, Jinv S π D r N t σ1' m1 σ2' m2 → ExtP π D μ1 μ2 m1 m2 →
      (∀ z, z ∉ bvP p ++ bvB body → σ2'.get? z = σ2.get? z) →
      Ans (forLoopω Φ σ1' m1 C r (i + ies.length) p body) (k2 (.normal σ2', m2))) →
    Ans (forLoopω Φ σ1 μ1 C r i p body) (evalBω Φ σ2 μ2 C (ies.flatMap (fun ie => copyStmt p t ie body)) >>= k2) := by
  intro ies
  induction ies with
  | nil =>
    intro i σ1 μ1 σ2 μ2 J _ _ _ k2 _ hK
    simp only [List.flatMap_nil]
    rw [evalBω_nil, ok_bind]
    exact hK σ1 μ1 σ2 μ2 J (ExtP.refl J.heap) (fun _ _ => rfl)
  | cons ie ies ih =>
    intro i σ1 μ1 σ2 μ2 J hfresh hivs hle k2 hk2 hK
    simp only [List.flatMap_cons]
    rw [evalBω_append, bind_assoc]
    obtain ⟨w, hw1, hw2⟩ := hivs 0 (by simp)
    simp only [List.getElem_cons_zero, Nat.add_zero] at hw1 hw2
    refine copy_cont hA hreads htp J (hw1 μ2 C) hw2 (by simp at hle; omega) _ ?_ ?_
    · intro v m; show (thenB Φ C _ (.ret v, m) >>= k2) = _; rw [thenB_ret, ok_bind, hk2]
    · intro σ1' m1 σ2' m2 J' hx hfr
      show Ans _ (evalBω Φ σ2' m2 C _ >>= k2)
      refine ih (i + 1) J' (fun x hx' => hfresh x (List.mem_cons_of_mem _ hx')) ?_ (by simp at hle ⊢; omega) k2 hk2 ?_
      · intro j hj
        have h1 := hivs (j + 1) (by simp; omega)
        simp only [List.getElem_cons_succ] at h1
        have h2 : ((i + (j + 1) : Nat) : Int) = ((i + 1 + j : Nat) : Int) := by congr 1; omega
        rw [← h2]
        exact h1.congr (fun z hz => hfr z (hfresh _ (List.mem_cons_of_mem _ (List.getElem_mem hj)) z hz))
      · intro σ1'' m1' σ2'' m2' J'' hx' hfr'
        have : i + 1 + ies.length = i + (ie :: ies).length := by simp; omega
        rw [this]
        exact hK σ1'' m1' σ2'' m2' J'' (hx.trans hx') (fun z hz => by rw [hfr' z hz, hfr z hz])

end Fpy.Xform
