/-
C12 (round 2) — syntactic lemmas for the compiler model with loops: names, free variables of the
shapes the compiler emits, the sets `mutatedOf` / `passedL`, `gamma`.
-/
import Fpy.Model.FPCoreLoops
import Fpy.Proof.FPCoreBlock
set_option linter.unusedSimpArgs false
set_option linter.unusedVariables false
namespace Fpy.C12
open Fpy Fpy.Lang

/-! ### temporaries -/

theorem isTmp_of_isTmpL {x : String} (h : isTmpL x = false) : isTmp x = false := by
  unfold isTmpL tmpNames at h
  unfold isTmp tmpName
  simp only [List.contains_cons, List.contains_nil, Bool.or_false, Bool.or_eq_false_iff] at h
  simp [h.1, h.2.2.2.2]

theorem isTmpL_ne {x : String} (h : isTmpL x = false) :
    x ≠ "%t" ∧ x ≠ "%it" ∧ x ≠ "%k" ∧ x ≠ "%j" ∧ x ≠ "_" := by
  unfold isTmpL tmpNames at h
  simp only [List.contains_cons, List.contains_nil, Bool.or_false, Bool.or_eq_false_iff, beq_eq_false_iff_ne, ne_eq] at h
  exact ⟨h.1, h.2.1, h.2.2.1, h.2.2.2.1, h.2.2.2.2⟩

/-- agreement of an FPCore environment with the source environment on the non-temporary names of `S` -/
def AgreeL (S : List String) (ρ σ : Env) : Prop := ∀ x, x ∈ S → isTmpL x = false → ρ.get? x = σ.get? x

theorem AgreeL.mono {S T : List String} {ρ σ : Env} (h : AgreeL T ρ σ) (hs : ∀ x, x ∈ S → x ∈ T) : AgreeL S ρ σ :=
  fun x hx ht => h x (hs x hx) ht

theorem agreeL_refl (S : List String) (σ : Env) : AgreeL S σ σ := fun _ _ _ => rfl

/-- all the names of `G` are bound -/
def Bound (G : List String) (σ : Env) : Prop := ∀ x, x ∈ G → ∃ w, σ.get? x = some w

theorem set_set_same (ρ : Env) (x : String) (v : Val) : (ρ.set x v).set x v = ρ.set x v := by
  unfold Env.set
  simp only [List.filter_cons, bne_self_eq_false, Bool.false_eq_true, if_false, List.filter_filter, Bool.and_self]

/-! ### membership -/

theorem mem_rmNames (xs l : List String) (y : String) : y ∈ rmNames xs l ↔ y ∈ l ∧ y ∉ xs := by
  unfold rmNames
  simp [List.mem_filter]

theorem mem_mutatedOf (G : List String) (ss : List LStmt) (y : String) :
    y ∈ mutatedOf G ss ↔ y ∈ LStmt.asgL ss ∧ y ∈ G := by
  unfold mutatedOf
  rw [mem_sortNames, List.mem_filter]
  simp

theorem mem_passedL (G : List String) (body : List LStmt) (K : FExpr) (y : String) :
    y ∈ passedL G body K ↔ y ∈ LStmt.asgL body ∧ y ∈ LStmt.gammaL G body ∧ y ∈ occ K := by
  unfold passedL
  rw [mem_sortNames, List.mem_filter]
  simp

theorem asgL_append (a b : List LStmt) : LStmt.asgL (a ++ b) = LStmt.asgL a ++ LStmt.asgL b := by
  induction a with
  | nil => rfl
  | cons s ss ih => simp [LStmt.asgL, ih]

/-! ### `gamma` only grows -/

mutual
theorem gamma_mono : ∀ (s : LStmt) (G : List String) (y : String), y ∈ G → y ∈ s.gamma G
  | .assign x e, G, y, h => by simp [LStmt.gamma, h]
  | .tassign xs e, G, y, h => by simp [LStmt.gamma, h]
  | .with_ d body, G, y, h => by simp only [LStmt.gamma]; exact gammaL_mono body G y h
  | .ifte c t f, G, y, h => by
    simp only [LStmt.gamma, List.mem_filter, List.contains_iff_mem]
    exact ⟨gammaL_mono t G y h, by simpa using gammaL_mono f G y h⟩
  | .if1 c t, G, y, h => by simpa [LStmt.gamma] using h
  | .while_ c b, G, y, h => by simpa [LStmt.gamma] using h
  | .forRange x n b, G, y, h => by simpa [LStmt.gamma] using h
  | .ret e, G, y, h => by simpa [LStmt.gamma] using h
theorem gammaL_mono : ∀ (ss : List LStmt) (G : List String) (y : String), y ∈ G → y ∈ LStmt.gammaL G ss
  | [], G, y, h => by simpa [LStmt.gammaL] using h
  | s :: ss, G, y, h => by
    simp only [LStmt.gammaL]
    exact gammaL_mono ss (s.gamma G) y (gamma_mono s G y h)
end

/-! ### free variables ⊆ occurrences -/

mutual
theorem fvF_sub_occ : ∀ (e : FExpr) (y : String), y ∈ fvF e → y ∈ occ e
  | .var x, y, h => by simpa [fvF, occ] using h
  | .num _, y, h => by simp [fvF] at h
  | .const _, y, h => by simp [fvF] at h
  | .op _ args, y, h => by simp only [fvF, occ] at *; exact fvL_sub_occ args y h
  | .pred _ a, y, h => by simp only [fvF, occ] at *; exact fvF_sub_occ a y h
  | .cmp _ args, y, h => by simp only [fvF, occ] at *; exact fvL_sub_occ args y h
  | .and es, y, h => by simp only [fvF, occ] at *; exact fvL_sub_occ es y h
  | .or es, y, h => by simp only [fvF, occ] at *; exact fvL_sub_occ es y h
  | .not e, y, h => by simp only [fvF, occ] at *; exact fvF_sub_occ e y h
  | .ite c t f, y, h => by
    simp only [fvF, occ, List.mem_append] at *
    rcases h with (h | h) | h
    · exact Or.inl (Or.inl (fvF_sub_occ c y h))
    · exact Or.inl (Or.inr (fvF_sub_occ t y h))
    · exact Or.inr (fvF_sub_occ f y h)
  | .let_ false binds body, y, h => by
    simp only [fvF, occ, List.mem_append, mem_rmNames] at *
    rcases h with h | h
    · exact Or.inl (fvB_sub_occ binds y h)
    · exact Or.inr (fvF_sub_occ body y h.1)
  | .let_ true binds body, y, h => by
    simp only [fvF, occ, List.mem_append] at *
    rcases fvStar_sub binds (fvF body) y h with h | h
    · exact Or.inl h
    · exact Or.inr (fvF_sub_occ body y h)
  | .while_ _ c binds body, y, h => by
    simp only [fvF, occ, List.mem_append, mem_rmNames] at *
    rcases h with h | ⟨(h | h) | h, _⟩
    · exact Or.inl (Or.inr (fvInit_sub binds y h))
    · exact Or.inl (Or.inl (fvF_sub_occ c y h))
    · exact Or.inl (Or.inr (fvUpd_sub binds y h))
    · exact Or.inr (fvF_sub_occ body y h)
  | .for_ _ dims binds body, y, h => by
    simp only [fvF, occ, List.mem_append, mem_rmNames] at *
    rcases h with (h | h) | ⟨h | h, _⟩
    · exact Or.inl (Or.inl (fvB_sub_occ dims y h))
    · exact Or.inl (Or.inr (fvInit_sub binds y h))
    · exact Or.inl (Or.inr (fvUpd_sub binds y h))
    · exact Or.inr (fvF_sub_occ body y h)
  | .tensor dims body, y, h => by
    simp only [fvF, occ, List.mem_append, mem_rmNames] at *
    rcases h with h | h
    · exact Or.inl (fvB_sub_occ dims y h)
    · exact Or.inr (fvF_sub_occ body y h.1)
  | .array es, y, h => by simp only [fvF, occ] at *; exact fvL_sub_occ es y h
  | .ref a idx, y, h => by
    simp only [fvF, occ, List.mem_append] at *
    rcases h with h | h
    · exact Or.inl (fvF_sub_occ a y h)
    · exact Or.inr (fvL_sub_occ idx y h)
  | .size a k, y, h => by
    simp only [fvF, occ, List.mem_append] at *
    rcases h with h | h
    · exact Or.inl (fvF_sub_occ a y h)
    · exact Or.inr (fvF_sub_occ k y h)
  | .dim a, y, h => by simp only [fvF, occ] at *; exact fvF_sub_occ a y h
  | .ann _ e, y, h => by simp only [fvF, occ] at *; exact fvF_sub_occ e y h
theorem fvL_sub_occ : ∀ (es : List FExpr) (y : String), y ∈ fvL es → y ∈ occL es
  | [], y, h => by simp [fvL] at h
  | e :: es, y, h => by
    simp only [fvL, occL, List.mem_append] at *
    rcases h with h | h
    · exact Or.inl (fvF_sub_occ e y h)
    · exact Or.inr (fvL_sub_occ es y h)
theorem fvB_sub_occ : ∀ (bs : List (String × FExpr)) (y : String), y ∈ fvB bs → y ∈ occB bs
  | [], y, h => by simp [fvB] at h
  | (x, e) :: rest, y, h => by
    simp only [fvB, occB, List.mem_append] at *
    rcases h with h | h
    · exact Or.inl (fvF_sub_occ e y h)
    · exact Or.inr (fvB_sub_occ rest y h)
theorem fvStar_sub : ∀ (bs : List (String × FExpr)) (acc : List String) (y : String),
    y ∈ fvStar bs acc → y ∈ occB bs ∨ y ∈ acc
  | [], acc, y, h => by simp only [fvStar] at h; exact Or.inr h
  | (x, e) :: rest, acc, y, h => by
    simp only [fvStar, occB, List.mem_append, mem_rmNames] at *
    rcases h with h | h
    · exact Or.inl (Or.inl (fvF_sub_occ e y h))
    · rcases fvStar_sub rest acc y h.1 with h' | h'
      · exact Or.inl (Or.inr h')
      · exact Or.inr h'
theorem fvInit_sub : ∀ (bs : List (String × FExpr × FExpr)) (y : String), y ∈ fvInit bs → y ∈ occT bs
  | [], y, h => by simp [fvInit] at h
  | (x, i, u) :: rest, y, h => by
    simp only [fvInit, occT, List.mem_append] at *
    rcases h with h | h
    · exact Or.inl (Or.inl (fvF_sub_occ i y h))
    · exact Or.inr (fvInit_sub rest y h)
theorem fvUpd_sub : ∀ (bs : List (String × FExpr × FExpr)) (y : String), y ∈ fvUpd bs → y ∈ occT bs
  | [], y, h => by simp [fvUpd] at h
  | (x, i, u) :: rest, y, h => by
    simp only [fvUpd, occT, List.mem_append] at *
    rcases h with h | h
    · exact Or.inl (Or.inr (fvF_sub_occ u y h))
    · exact Or.inr (fvUpd_sub rest y h)
end

/-- a loop target the body does not assign is not among the variables the loop carries -/
theorem mutatedOf_cons (x : String) (G : List String) (ss : List LStmt) (hx : x ∉ LStmt.asgL ss) :
    mutatedOf (x :: G) ss = mutatedOf G ss := by
  unfold mutatedOf
  congr 1
  apply List.filter_congr
  intro y hy
  have : y ≠ x := fun e => hx (e ▸ hy)
  simp [List.contains_cons, this]

end Fpy.C12
