/-
C12 (round 2) — `if/else`: in tail position (both branches return), and followed by statements
(`IfBundling._visit_if` + `_visit_if`: the branches hand the changed variables on).
-/
import Fpy.Proof.FPCoreLStmt2
set_option linter.unusedSimpArgs false
set_option linter.unusedVariables false
set_option linter.unusedSectionVars false
namespace Fpy.C12
open Fpy Fpy.Lang

/-! ### the pieces of the compiled `if/else` -/

theorem fv_ifPre_rev (M : List String) (B : FExpr) (y : String) (ht : isTmpL y = false)
    (hy : y ∈ fvF B ∨ (isMany M = false ∧ y ∈ M)) (hM : isMany M = true → y ∉ M) : y ∈ fvF (ifPre M B) := by
  match M with
  | [] =>
    rcases hy with h | h
    · exact h
    · simp at h
  | [m] =>
    simp only [ifPre]
    rw [fv_bind1]
    by_cases hym : y = m
    · left; simp [fvF, hym]
    · rcases hy with h | h
      · exact Or.inr ⟨h, hym⟩
      · simp at h; exact absurd h.2 hym
  | m :: m2 :: rest =>
    simp only [ifPre]
    rcases hy with h | h
    · exact (fv_unpack _ _ _ y ht).2 (Or.inr ⟨h, hM (isMany_cons2 _ _ _)⟩)
    · simp [isMany] at h

theorem fv_ifAfter_rev (ch : List String) (ifE k : FExpr) (y : String) (ht : isTmpL y = false)
    (hy : y ∈ fvF ifE ∨ (y ∈ fvF k ∧ y ∉ ch)) : y ∈ fvF (ifAfter ch ifE k) := by
  obtain ⟨h1, _, _, _, h5⟩ := isTmpL_ne ht
  match ch with
  | [] =>
    simp only [ifAfter]; rw [fv_bind1]
    rcases hy with h | h
    · exact Or.inl h
    · exact Or.inr ⟨h.1, h5⟩
  | [x] =>
    simp only [ifAfter]; rw [fv_bind1]
    rcases hy with h | h
    · exact Or.inl h
    · exact Or.inr ⟨h.1, by simpa using h.2⟩
  | x :: x2 :: rest =>
    simp only [ifAfter]; rw [fv_bind1]
    rcases hy with h | h
    · exact Or.inl h
    · exact Or.inr ⟨(fv_unpack _ _ _ y ht).2 (Or.inr h), h1⟩

section
variable {P : Props} {C : Ctx} (hP : P.toCtx = .ok C)
include hP

/-- the start of a branch: the variables the `if` may change are copied / unpacked -/
theorem conv_ifPre {M S : List String} {ρ σ : Env} {B : FExpr} {w : Val} (hrel : CarryRel M S ρ σ)
    (hL : CtxLits C M.length) (hMT : ∀ x, x ∈ M → isTmpL x = false) (hMS : ∀ x, x ∈ M → x ∈ S) (hb : Bound M σ)
    (hB : ∀ ρ2, AgreeL S ρ2 σ → Conv ρ2 P B w) : Conv ρ P (ifPre M B) w := by
  match M with
  | [] => exact conv_carryIn (M := []) hP hrel hL hMT hb hB
  | [m] =>
    obtain ⟨v, hv⟩ := hb m (by simp)
    have hm : ρ.get? m = some v := by
      rw [hrel.2 m (hMS m (by simp)) (hMT m (by simp)) (by simp [isMany])]; exact hv
    refine conv_let1 (conv_var hm) (hB _ (fun y hy ht => ?_))
    rw [get?_set]
    split
    · next h => subst h; exact hv.symm
    · exact hrel.2 y hy ht (by simp [isMany])
  | m :: m2 :: rest =>
    have := conv_carryIn (M := m :: m2 :: rest) hP hrel hL hMT hb hB
    simpa [carryIn, isMany, ifPre] using this

/-- the end of a branch hands back the changed variables -/
theorem conv_ifEnd {ch : List String} {ρ' σ' : Env} {r0 : NV}
    (hr0 : opEval C .round [cvtReal (.q 0 1)] = .ok r0)
    (hA : AgreeL (fvF (ifEnd ch)) ρ' σ') (hT : ∀ x, x ∈ ch → isTmpL x = false) (hb : Bound ch σ') :
    Conv ρ' P (ifEnd ch) (carried ch σ' r0) := by
  match ch with
  | [] => exact conv_num hP hr0
  | [x] =>
    obtain ⟨w, hw⟩ := hb x (by simp)
    have hx : ρ'.get? x = some w := by
      rw [hA x (by simp [ifEnd, fv_bind1, fvF]) (hT x (by simp))]; exact hw
    simp only [ifEnd, carried, gv_of_get hw]
    exact conv_let1 (conv_var hx) (conv_var (get?_set_self _ _ _))
  | x :: x2 :: rest =>
    have := conv_carryRet (M := x :: x2 :: rest) hP hr0 (by simpa [carryRet, ifEnd] using hA) hT hb
    simpa [carryRet, ifEnd] using this

/-- the result of the `if` is bound (and unpacked) for the continuation -/
theorem conv_ifAfter {ch : List String} {ρ σb : Env} {ifE k : FExpr} {r0 : NV} {v : Val}
    (hW : Conv ρ P ifE (carried ch σb r0)) (hT : ∀ x, x ∈ ch → isTmpL x = false) (hb : Bound ch σb)
    (hL : CtxLits C ch.length)
    (hK : ∀ ρ', (∀ y, isTmpL y = false → ρ'.get? y = if y ∈ ch then σb.get? y else ρ.get? y) → Conv ρ' P k v) :
    Conv ρ P (ifAfter ch ifE k) v := by
  match ch with
  | [] =>
    refine conv_let1 hW (hK _ (fun y ht => ?_))
    simp only [List.not_mem_nil, if_false]
    exact get?_set_ne _ _ _ _ (isTmpL_ne ht).2.2.2.2
  | [x] =>
    obtain ⟨w, hw⟩ := hb x (by simp)
    simp only [carried, gv_of_get hw] at hW
    refine conv_let1 hW (hK _ (fun y ht => ?_))
    rw [get?_set]
    by_cases hyx : y = x
    · subst hyx; simp [hw]
    · simp [hyx]
  | x :: x2 :: rest =>
    simp only [carried] at hW
    refine conv_let1 hW ?_
    refine conv_unpack hP (x :: x2 :: rest) (.var "%t") k (gv σb) v hL hT (conv_var (get?_set_self _ _ _))
      (fun ρ' hρ' => hK ρ' (fun y ht => ?_))
    rw [hρ' y ht]
    by_cases hz : y ∈ x :: x2 :: rest
    · obtain ⟨w1, hw1⟩ := hb y hz
      simp only [hz, if_true, hw1, gv_of_get hw1]
    · simp only [hz, if_false]
      exact get?_set_ne _ _ _ _ (isTmpL_ne ht).1

end

section
variable (Φ : Funs) (cfg : Cfg) (hord : OrdOK cfg)
include hord

/-- running a branch compiled with the continuation `ifEnd ch` -/
theorem branch_run {g : Nat} (hB : LBlockOK Φ cfg g) {body : List LStmt} {σ : Env} {μ μ' : Heap} {C : Ctx} {o : Outcome}
    (hev : evalB Φ g σ μ C (LStmt.toLangs body) = .ok (o, μ'))
    {G ch : List String} {B : FExpr} {P : Props} {r0 : NV}
    (hG : ∀ y, y ∈ G → isTmpL y = false) (hws : LStmt.wsL G body) (hb : Bound G σ)
    (hcB : compileLB cfg G body (some (ifEnd ch)) = some B) (hl : LStmt.litsL G P body)
    (hP : P.toCtx = .ok C) (hr0 : opEval C .round [cvtReal (.q 0 1)] = .ok r0)
    (hch : ∀ x, x ∈ ch → x ∈ LStmt.gammaL G body) :
    HeapExt μ μ' ∧ ∃ σb, o = .normal σb ∧ Bound (LStmt.gammaL G body) σb ∧
      (∀ x, x ∉ LStmt.asgL body → σb.get? x = σ.get? x) ∧
      ∀ ρ2, AgreeL (fvF B) ρ2 σ → Conv ρ2 P B (carried ch σb r0) := by
  have hpost0 := hB body σ μ C o μ' hev
  have hkf : ∀ k, some (ifEnd ch) = some k → FvIn (LStmt.gammaL G body) k := fun k hk => by
    cases hk; exact fvIn_ifEnd hch
  have hpost := fun G K E ρ P a1 a2 a3 a4 a5 a6 a7 a8 => (hpost0 G K E ρ P a1 a2 a3 a4 a5 a6 a7 a8).2
  refine ⟨(hpost0 G _ B σ P hG hws hb hcB hkf hP hl (agreeL_refl _ _)).1, ?_⟩
  have h0 := hpost G _ B σ P hG hws hb hcB hkf hP hl (agreeL_refl _ _)
  cases o with
  | ret v => unfold PostL at h0; exact absurd h0.1 (by simp)
  | normal σb =>
    unfold PostL at h0
    obtain ⟨hbnd, hkeep, _⟩ := h0
    refine ⟨σb, rfl, hbnd, hkeep, fun ρ2 hA => ?_⟩
    have h2 := hpost G _ B ρ2 P hG hws hb hcB hkf hP hl hA
    unfold PostL at h2
    obtain ⟨_, _, k, hk, himp⟩ := h2
    cases hk
    exact himp _ (fun ρ' hA' => conv_ifEnd hP hr0 hA' (fun x hx => gammaL_nt hws hG x (hch x hx))
      (fun x hx => hbnd x (hch x hx)))

theorem stmt_ifte (f : Nat) (hB : LBlockOK Φ cfg f) (c : LExpr) (t e : List LStmt) :
    LStmtOKAt Φ cfg (f + 1) (.ifte c t e) := by
  intro σ μ C o μ' h G K E ρ P hG hws hb hc hk hP hl hA
  rw [LStmt.toLang, evalS_ifte] at h
  obtain ⟨hwc, hwt, hwe⟩ := hws
  simp only [LStmt.lits] at hl
  obtain ⟨hlP, hlt, hle⟩ := hl
  obtain ⟨b, hcv, hrun⟩ := cond_inv Φ f σ μ C c (fun μ1 => evalB Φ f σ μ1 C (LStmt.toLangs t))
    (fun μ1 => evalB Φ f σ μ1 C (LStmt.toLangs e)) (o, μ') h
  simp only [compileLS] at hc
  cases K with
  | none => simp at hc
  | some k =>
    simp only at hc
    split at hc
    · cases hc
    · cases hT : compileLB cfg G t (some (ifEnd (mutsIf G t e ++ introsIf G t e))) with
      | none => rw [hT] at hc; simp at hc
      | some T =>
        cases hF : compileLB cfg G e (some (ifEnd (mutsIf G t e ++ introsIf G t e))) with
        | none => rw [hT, hF] at hc; simp at hc
        | some F =>
          rw [hT, hF] at hc; simp only [Option.some.injEq] at hc; subst hc
          -- names
          have hmuts : ∀ y, y ∈ mutsIf G t e → y ∈ G := fun y hy => ((mem_mutsIf G t e y).1 hy).2
          have hchT : ∀ y, y ∈ mutsIf G t e ++ introsIf G t e → y ∈ LStmt.gammaL G t := fun y hy => by
            rcases List.mem_append.1 hy with h | h
            · exact gammaL_mono t G y (hmuts y h)
            · exact ((mem_introsIf G t e y).1 h).1
          have hchF : ∀ y, y ∈ mutsIf G t e ++ introsIf G t e → y ∈ LStmt.gammaL G e := fun y hy => by
            rcases List.mem_append.1 hy with h | h
            · exact gammaL_mono e G y (hmuts y h)
            · exact ((mem_introsIf G t e y).1 h).2.1
          have hMT : ∀ x, x ∈ mutsIf G t e → isTmpL x = false := fun x hx => hG x (hmuts x hx)
          have hchNT : ∀ x, x ∈ mutsIf G t e ++ introsIf G t e → isTmpL x = false :=
            fun x hx => gammaL_nt hwt hG x (hchT x hx)
          have hTG : FvIn G T := fvIn_B cfg hord t G _ T hwt hT (fun k' hk' => by cases hk'; exact fvIn_ifEnd hchT)
          have hFG : FvIn G F := fvIn_B cfg hord e G _ F hwe hF (fun k' hk' => by cases hk'; exact fvIn_ifEnd hchF)
          -- literals
          have hlenM := length_mutsIf_le G t e
          have hlenI := length_introsIf_le G t e
          have hC0 := hlP.1.ctx hP
          obtain ⟨r0, hr0⟩ := lit0 (hC0.mono (by omega))
          have hCLM : CtxLits C (mutsIf G t e).length := hC0.mono (by omega)
          have hCLch : CtxLits C (mutsIf G t e ++ introsIf G t e).length := hC0.mono (by
            rw [List.length_append]; omega)
          have hLi : LitsP (P.update intProps) (mutsIf G t e).length := hlP.2.mono (by omega)
          -- the names the environments must agree on
          have hSmem : ∀ y, y ∈ mutsIf G t e ++ c.vars ++ fvF T ++ fvF F ++ rmNames (mutsIf G t e ++ introsIf G t e) (fvF k) ↔
              y ∈ mutsIf G t e ∨ y ∈ c.vars ∨ y ∈ fvF T ∨ y ∈ fvF F ∨ (y ∈ fvF k ∧ y ∉ mutsIf G t e ++ introsIf G t e) := by
            intro y; simp only [List.mem_append, or_assoc, mem_rmNames]
          have hMS : ∀ x, x ∈ mutsIf G t e →
              x ∈ mutsIf G t e ++ c.vars ++ fvF T ++ fvF F ++ rmNames (mutsIf G t e ++ introsIf G t e) (fvF k) :=
            fun x hx => (hSmem x).2 (Or.inl hx)
          have hbM : Bound (mutsIf G t e) σ := fun x hx => hb x (hmuts x hx)
          -- the continuation's variables outside the changed ones are unchanged variables of `G`
          have hkOut : ∀ y, y ∈ fvF k → isTmpL y = false → y ∉ mutsIf G t e ++ introsIf G t e →
              y ∈ G ∧ y ∉ LStmt.asgL t ∧ y ∉ LStmt.asgL e := by
            intro y hy ht hn
            have hg := hk k rfl y hy ht
            simp only [LStmt.gamma, List.mem_filter, List.contains_iff_mem] at hg
            have hyG : y ∈ G := by
              by_cases hG' : y ∈ G
              · exact hG'
              · exact absurd (List.mem_append.2 (Or.inr ((mem_introsIf G t e y).2 ⟨hg.1, by simpa using hg.2, hG'⟩))) hn
            refine ⟨hyG, fun ha => hn (List.mem_append.2 (Or.inl ((mem_mutsIf G t e y).2 ⟨Or.inl ha, hyG⟩))),
              fun ha => hn (List.mem_append.2 (Or.inl ((mem_mutsIf G t e y).2 ⟨Or.inr ha, hyG⟩)))⟩
          -- one branch, given how it ran
          have branch : ∀ (body : List LStmt) (Bc : FExpr) (σb : Env),
              Bound (mutsIf G t e ++ introsIf G t e) σb →
              (∀ x, x ∉ LStmt.asgL body → σb.get? x = σ.get? x) →
              (∀ y, y ∈ LStmt.asgL body → y ∈ LStmt.asgL t ∨ y ∈ LStmt.asgL e) →
              (∀ ρ2, AgreeL (fvF Bc) ρ2 σ → Conv ρ2 P Bc (carried (mutsIf G t e ++ introsIf G t e) σb r0)) →
              (∀ x, x ∈ fvF Bc → x ∈ mutsIf G t e ++ c.vars ++ fvF T ++ fvF F ++ rmNames (mutsIf G t e ++ introsIf G t e) (fvF k)) →
              ∀ (v : Val) (ρ1 : Env),
                CarryRel (mutsIf G t e) (mutsIf G t e ++ c.vars ++ fvF T ++ fvF F ++ rmNames (mutsIf G t e ++ introsIf G t e) (fvF k)) ρ1 σ →
                KHyp P k σb v → ∀ (ifE : FExpr), (Conv ρ1 P (ifPre (mutsIf G t e) Bc) (carried (mutsIf G t e ++ introsIf G t e) σb r0) →
                  Conv ρ1 P ifE (carried (mutsIf G t e ++ introsIf G t e) σb r0)) →
                Conv ρ1 P (ifAfter (mutsIf G t e ++ introsIf G t e) ifE k) v := by
            intro body Bc σb hbch hkeep hasg hrunB hBS v ρ1 hrel hw ifE hite
            have cB := conv_ifPre hP hrel hCLM hMT hMS hbM (fun ρ2 hA2 => hrunB ρ2 (hA2.mono hBS))
            refine conv_ifAfter hP (hite cB) hchNT hbch hCLch (fun ρ' hρ' => hw ρ' (fun y hy ht => ?_))
            rw [hρ' y ht]
            by_cases hych : y ∈ mutsIf G t e ++ introsIf G t e
            · simp [hych]
            · simp only [hych, if_false]
              obtain ⟨hyG, hnt, hne⟩ := hkOut y hy ht hych
              have hyM : y ∉ mutsIf G t e := fun hm => hych (List.mem_append.2 (Or.inl hm))
              rw [hkeep y (fun ha => by rcases hasg y ha with h' | h'; exact hnt h'; exact hne h')]
              exact hrel.2 y ((hSmem y).2 (Or.inr (Or.inr (Or.inr (Or.inr ⟨hy, hych⟩))))) ht (fun _ => hyM)
          -- agreement of the outer environment on these names
          have hAS : ∀ y, y ∈ mutsIf G t e ++ c.vars ++ fvF T ++ fvF F ++ rmNames (mutsIf G t e ++ introsIf G t e) (fvF k) →
              isTmpL y = false → ρ.get? y = σ.get? y := by
            intro y hy ht
            apply hA y ?_ ht
            by_cases hmM : isMany (mutsIf G t e) = true ∧ y ∈ mutsIf G t e
            · exact fv_carryOut_rev _ _ y ht (Or.inl hmM)
            · have hM' : isMany (mutsIf G t e) = true → y ∉ mutsIf G t e := fun h1 h2 => hmM ⟨h1, h2⟩
              refine fv_carryOut_rev _ _ y ht (Or.inr (fv_ifAfter_rev _ _ _ y ht ?_))
              rcases (hSmem y).1 hy with h1 | h1 | h1 | h1 | h1
              · left
                simp only [fvF, List.mem_append]
                refine Or.inl (Or.inr (fv_ifPre_rev _ T y ht (Or.inr ⟨?_, h1⟩) hM'))
                cases hmm : isMany (mutsIf G t e) with
                | true => exact absurd h1 (hM' hmm)
                | false => rfl
              · left
                simp only [fvF, List.mem_append]
                exact Or.inl (Or.inl (fv_carryCond_rev _ c y h1 hM'))
              · left
                simp only [fvF, List.mem_append]
                exact Or.inl (Or.inr (fv_ifPre_rev _ T y ht (Or.inl h1) hM'))
              · left
                simp only [fvF, List.mem_append]
                exact Or.inr (fv_ifPre_rev _ F y ht (Or.inl h1) hM')
              · exact Or.inr h1
          have hgam : ∀ y, y ∈ (LStmt.ifte c t e).gamma G → y ∈ LStmt.gammaL G t ∧ y ∈ LStmt.gammaL G e := by
            intro y hy
            simp only [LStmt.gamma, List.mem_filter, List.contains_iff_mem] at hy
            exact ⟨hy.1, by simpa using hy.2⟩
          cases b with
          | true =>
            simp only [if_true] at hrun
            obtain ⟨hext, σb, rfl, hbnd, hkeep, hrunB⟩ :=
              branch_run Φ cfg hord hB hrun hG hwt hb hT hlt hP hr0 hchT
            refine ⟨hext, ?_⟩
            unfold PostL
            refine ⟨fun y hy => hbnd y (hgam y hy).1, fun y hy => hkeep y (fun ha => hy (by
              simp only [LStmt.asg, List.mem_append]; exact Or.inl ha)), k, rfl, fun v hw => ?_⟩
            refine conv_carryOut hAS hMS hMT hbM (fun ρ1 hrel => ?_)
            have hcond := conv_carryCond hP Φ hrel hLi (fun x hx => (hSmem x).2 (Or.inr (Or.inl hx)))
              (fun x hx => hG x (hwc x hx)) hbM hcv
            exact branch t T σb (fun x hx => hbnd x (hchT x hx)) hkeep (fun y hy => Or.inl hy) hrunB
              (fun x hx => (hSmem x).2 (Or.inr (Or.inr (Or.inl hx)))) v ρ1 hrel hw _
              (fun cB => conv_ite hcond (by simpa using cB))
          | false =>
            simp only [Bool.false_eq_true, if_false] at hrun
            obtain ⟨hext, σb, rfl, hbnd, hkeep, hrunB⟩ :=
              branch_run Φ cfg hord hB hrun hG hwe hb hF hle hP hr0 hchF
            refine ⟨hext, ?_⟩
            unfold PostL
            refine ⟨fun y hy => hbnd y (hgam y hy).2, fun y hy => hkeep y (fun ha => hy (by
              simp only [LStmt.asg, List.mem_append]; exact Or.inr ha)), k, rfl, fun v hw => ?_⟩
            refine conv_carryOut hAS hMS hMT hbM (fun ρ1 hrel => ?_)
            have hcond := conv_carryCond hP Φ hrel hLi (fun x hx => (hSmem x).2 (Or.inr (Or.inl hx)))
              (fun x hx => hG x (hwc x hx)) hbM hcv
            exact branch e F σb (fun x hx => hbnd x (hchF x hx)) hkeep (fun y hy => Or.inr hy) hrunB
              (fun x hx => (hSmem x).2 (Or.inr (Or.inr (Or.inr (Or.inl hx))))) v ρ1 hrel hw _
              (fun cB => conv_ite hcond (by simpa using cB))

end
end Fpy.C12
