/-
Helper lemmas for C14: soundness of `AbstractFormat.__mul__` on finite members.
-/
import Fpy.Proof.AbsFmtSound
namespace Fpy
open RF

theorem imul_pp {X Y P Q : Int} (hX : 0 ≤ X) (hY : 0 ≤ Y) (h1 : X ≤ P) (h2 : Y ≤ Q) : X * Y ≤ P * Q :=
  Int.mul_le_mul h1 h2 hY (by omega)

theorem imul_nn {X Y N M : Int} (hX : X ≤ 0) (hY : Y ≤ 0) (h1 : N ≤ X) (h2 : M ≤ Y) : X * Y ≤ N * M := by
  have := imul_pp (X := -X) (Y := -Y) (P := -N) (Q := -M) (by omega) (by omega) (by omega) (by omega)
  rwa [Int.neg_mul_neg, Int.neg_mul_neg] at this

theorem imul_pn {X Y P M : Int} (hX : 0 ≤ X) (hY : Y ≤ 0) (h1 : X ≤ P) (h2 : M ≤ Y) : P * M ≤ X * Y := by
  have := imul_pp (X := X) (Y := -Y) (P := P) (Q := -M) hX (by omega) h1 (by omega)
  rw [Int.mul_neg, Int.mul_neg] at this; omega

theorem imul_np {X Y N Q : Int} (hX : X ≤ 0) (hY : 0 ≤ Y) (h1 : N ≤ X) (h2 : Y ≤ Q) : N * Q ≤ X * Y := by
  have := imul_pn (X := Y) (Y := X) (P := Q) (M := N) hY hX h2 h1
  rw [Int.mul_comm Q N, Int.mul_comm Y X] at this; exact this

namespace RF
theorem pos_of_sc_pos {p : RF} {g : Int} (h : 0 < p.sc g) : p.c ≠ 0 ∧ p.s = false := by
  have hc : p.c ≠ 0 := fun hc => by rw [sc_zero p g hc] at h; omega
  refine ⟨hc, ?_⟩
  cases hs : p.s
  · rfl
  · have := sc_neg p g hc hs; omega

theorem neg_of_sc_neg {p : RF} {g : Int} (h : p.sc g < 0) : p.c ≠ 0 ∧ p.s = true := by
  have hc : p.c ≠ 0 := fun hc => by rw [sc_zero p g hc] at h; omega
  refine ⟨hc, ?_⟩
  cases hs : p.s
  · have := sc_pos p g hc hs; omega
  · rfl
end RF

namespace Bnd

theorem mul_okAt (u v : Bnd) (g1 g2 : Int) (hu : u.okAt g1) (hv : v.okAt g2) : (u.mul v).okAt (g1 + g2) := by
  have hz : (Bnd.fin (RF.ofInt 0)).okAt (g1 + g2) := Or.inl rfl
  cases u with
  | nan =>
    cases v with
    | fin q => simp only [Bnd.mul]; split <;> first | exact hz | trivial
    | inf t => trivial
    | nan => trivial
  | inf s =>
    cases v with
    | fin q => simp only [Bnd.mul]; split <;> first | exact hz | trivial
    | inf t => trivial
    | nan => trivial
  | fin p =>
    cases v with
    | fin q => exact (mul_sc p q g1 g2 hu hv).1
    | inf t => simp only [Bnd.mul]; split <;> first | exact hz | trivial
    | nan => simp only [Bnd.mul]; split <;> first | exact hz | trivial

/-- the repaired bound product of two proper bounds is never `nan` -/
theorem mul_ne_nan (u v : Bnd) (hu : u ≠ .nan) (hv : v ≠ .nan) : u.mul v ≠ .nan := by
  cases u with
  | nan => exact absurd rfl hu
  | inf s =>
    cases v with
    | nan => exact absurd rfl hv
    | inf t => simp [Bnd.mul]
    | fin q => simp only [Bnd.mul]; split <;> simp
  | fin p =>
    cases v with
    | nan => exact absurd rfl hv
    | inf t => simp only [Bnd.mul]; split <;> simp
    | fin q => simp [Bnd.mul]

/-- positive × positive: the product of the upper bounds is an upper bound (and not `nan`) -/
theorem mul_ub_pp (u v : Bnd) (g1 g2 X Y : Int) (hu : u.okAt g1) (hv : v.okAt g2) (hX : 0 < X) (hY : 0 < Y)
    (h1 : u.ub g1 X) (h2 : v.ub g2 Y) : u.mul v ≠ .nan ∧ (u.mul v).ub (g1 + g2) (X * Y) := by
  cases u with
  | nan => simp [ub] at h1
  | inf s =>
    simp only [ub] at h1; subst h1
    cases v with
    | nan => simp [ub] at h2
    | inf t => simp only [ub] at h2; subst h2; simp [Bnd.mul, ub]
    | fin q =>
      simp only [ub] at h2
      have ⟨hc, hs⟩ := pos_of_sc_pos (p := q) (g := g2) (by omega)
      simp [Bnd.mul, hc, hs, ub]
  | fin p =>
    simp only [ub] at h1
    have ⟨hpc, hps⟩ := pos_of_sc_pos (p := p) (g := g1) (by omega)
    cases v with
    | nan => simp [ub] at h2
    | inf t => simp only [ub] at h2; subst h2; simp [Bnd.mul, hpc, hps, ub]
    | fin q =>
      simp only [ub] at h2
      simp only [Bnd.mul, ub, ne_eq, reduceCtorEq, not_false_eq_true, true_and]
      rw [(mul_sc p q g1 g2 hu hv).2]
      exact imul_pp (by omega) (by omega) h1 h2

/-- negative × negative: the product of the lower bounds is an upper bound (and not `nan`) -/
theorem mul_ub_nn (u v : Bnd) (g1 g2 X Y : Int) (hu : u.okAt g1) (hv : v.okAt g2) (hX : X < 0) (hY : Y < 0)
    (h1 : u.lb g1 X) (h2 : v.lb g2 Y) : u.mul v ≠ .nan ∧ (u.mul v).ub (g1 + g2) (X * Y) := by
  cases u with
  | nan => simp [lb] at h1
  | inf s =>
    simp only [lb] at h1; subst h1
    cases v with
    | nan => simp [lb] at h2
    | inf t => simp only [lb] at h2; subst h2; simp [Bnd.mul, ub]
    | fin q =>
      simp only [lb] at h2
      have ⟨hc, hs⟩ := neg_of_sc_neg (p := q) (g := g2) (by omega)
      simp [Bnd.mul, hc, hs, ub]
  | fin p =>
    simp only [lb] at h1
    have ⟨hpc, hps⟩ := neg_of_sc_neg (p := p) (g := g1) (by omega)
    cases v with
    | nan => simp [lb] at h2
    | inf t => simp only [lb] at h2; subst h2; simp [Bnd.mul, hpc, hps, ub]
    | fin q =>
      simp only [lb] at h2
      simp only [Bnd.mul, ub, ne_eq, reduceCtorEq, not_false_eq_true, true_and]
      rw [(mul_sc p q g1 g2 hu hv).2]
      exact imul_nn (by omega) (by omega) h1 h2

/-- positive × negative: upper bound × lower bound is a lower bound (and not `nan`) -/
theorem mul_lb_pn (u v : Bnd) (g1 g2 X Y : Int) (hu : u.okAt g1) (hv : v.okAt g2) (hX : 0 < X) (hY : Y < 0)
    (h1 : u.ub g1 X) (h2 : v.lb g2 Y) : u.mul v ≠ .nan ∧ (u.mul v).lb (g1 + g2) (X * Y) := by
  cases u with
  | nan => simp [ub] at h1
  | inf s =>
    simp only [ub] at h1; subst h1
    cases v with
    | nan => simp [lb] at h2
    | inf t => simp only [lb] at h2; subst h2; simp [Bnd.mul, lb]
    | fin q =>
      simp only [lb] at h2
      have ⟨hc, hs⟩ := neg_of_sc_neg (p := q) (g := g2) (by omega)
      simp [Bnd.mul, hc, hs, lb]
  | fin p =>
    simp only [ub] at h1
    have ⟨hpc, hps⟩ := pos_of_sc_pos (p := p) (g := g1) (by omega)
    cases v with
    | nan => simp [lb] at h2
    | inf t => simp only [lb] at h2; subst h2; simp [Bnd.mul, hpc, hps, lb]
    | fin q =>
      simp only [lb] at h2
      simp only [Bnd.mul, lb, ne_eq, reduceCtorEq, not_false_eq_true, true_and]
      rw [(mul_sc p q g1 g2 hu hv).2]
      exact imul_pn (by omega) (by omega) h1 h2

/-- negative × positive: lower bound × upper bound is a lower bound (and not `nan`) -/
theorem mul_lb_np (u v : Bnd) (g1 g2 X Y : Int) (hu : u.okAt g1) (hv : v.okAt g2) (hX : X < 0) (hY : 0 < Y)
    (h1 : u.lb g1 X) (h2 : v.ub g2 Y) : u.mul v ≠ .nan ∧ (u.mul v).lb (g1 + g2) (X * Y) := by
  cases u with
  | nan => simp [lb] at h1
  | inf s =>
    simp only [lb] at h1; subst h1
    cases v with
    | nan => simp [ub] at h2
    | inf t => simp only [ub] at h2; subst h2; simp [Bnd.mul, lb]
    | fin q =>
      simp only [ub] at h2
      have ⟨hc, hs⟩ := pos_of_sc_pos (p := q) (g := g2) (by omega)
      simp [Bnd.mul, hc, hs, lb]
  | fin p =>
    simp only [lb] at h1
    have ⟨hpc, hps⟩ := neg_of_sc_neg (p := p) (g := g1) (by omega)
    cases v with
    | nan => simp [ub] at h2
    | inf t => simp only [ub] at h2; subst h2; simp [Bnd.mul, hpc, hps, lb]
    | fin q =>
      simp only [ub] at h2
      simp only [Bnd.mul, lb, ne_eq, reduceCtorEq, not_false_eq_true, true_and]
      rw [(mul_sc p q g1 g2 hu hv).2]
      exact imul_np (by omega) (by omega) h1 h2

/-- a bound that is `+inf` or a non-negative `RealFloat` -/
def NonNeg (b : Bnd) : Prop := b = .inf false ∨ ∃ p, b = .fin p ∧ (p.c = 0 ∨ p.s = false)

theorem NonNeg.sc {q : RF} (h : NonNeg (.fin q)) (g : Int) : 0 ≤ q.sc g := by
  rcases h with h | ⟨p, h, hs⟩
  · cases h
  · cases h
    rcases hs with hs | hs
    · rw [sc_zero _ g hs]; omega
    · by_cases hc : q.c = 0
      · rw [sc_zero _ g hc]; omega
      · have := sc_pos q g hc hs; omega

/-- (upper bound of a positive value) × (a non-negative upper bound) is above every `Z ≤ 0` -/
theorem mul_ub_nonneg_left (u v : Bnd) (g1 g2 X Z : Int) (hu : u.okAt g1) (hv : v.okAt g2) (hX : 0 < X)
    (h1 : u.ub g1 X) (hvn : NonNeg v) (hZ : Z ≤ 0) : (u.mul v).ub (g1 + g2) Z := by
  cases u with
  | nan => simp [ub] at h1
  | inf s =>
    simp only [ub] at h1; subst h1
    cases v with
    | nan => rcases hvn with h | ⟨p, h, _⟩ <;> cases h
    | inf t =>
      rcases hvn with h | ⟨p, h, _⟩
      · cases h; simp [Bnd.mul, ub]
      · cases h
    | fin q =>
      by_cases hc : q.c = 0
      · simp only [Bnd.mul, hc, if_true, ub]; rw [ofInt_zero_sc]; exact hZ
      · rcases hvn with h | ⟨p, h, hs⟩
        · cases h
        · cases h
          rcases hs with hs | hs
          · exact absurd hs hc
          · simp [Bnd.mul, hc, hs, ub]
  | fin p =>
    simp only [ub] at h1
    have ⟨hpc, hps⟩ := pos_of_sc_pos (p := p) (g := g1) (by omega)
    cases v with
    | nan => rcases hvn with h | ⟨p, h, _⟩ <;> cases h
    | inf t =>
      rcases hvn with h | ⟨p', h, _⟩
      · cases h; simp [Bnd.mul, hpc, hps, ub]
      · cases h
    | fin q =>
      simp only [Bnd.mul, ub]
      rw [(mul_sc p q g1 g2 hu hv).2]
      have := Int.mul_nonneg (a := p.sc g1) (b := q.sc g2) (by omega) (hvn.sc g2)
      omega

/-- (a non-negative upper bound) × (upper bound of a positive value) is above every `Z ≤ 0` -/
theorem mul_ub_nonneg_right (u v : Bnd) (g1 g2 Y Z : Int) (hu : u.okAt g1) (hv : v.okAt g2) (hY : 0 < Y)
    (h2 : v.ub g2 Y) (hun : NonNeg u) (hZ : Z ≤ 0) : (u.mul v).ub (g1 + g2) Z := by
  cases v with
  | nan => simp [ub] at h2
  | inf s =>
    simp only [ub] at h2; subst h2
    cases u with
    | nan => rcases hun with h | ⟨p, h, _⟩ <;> cases h
    | inf t =>
      rcases hun with h | ⟨p, h, _⟩
      · cases h; simp [Bnd.mul, ub]
      · cases h
    | fin q =>
      by_cases hc : q.c = 0
      · simp only [Bnd.mul, hc, if_true, ub]; rw [ofInt_zero_sc]; exact hZ
      · rcases hun with h | ⟨p, h, hs⟩
        · cases h
        · cases h
          rcases hs with hs | hs
          · exact absurd hs hc
          · simp [Bnd.mul, hc, hs, ub]
  | fin p =>
    simp only [ub] at h2
    have ⟨hpc, hps⟩ := pos_of_sc_pos (p := p) (g := g2) (by omega)
    cases u with
    | nan => rcases hun with h | ⟨p, h, _⟩ <;> cases h
    | inf t =>
      rcases hun with h | ⟨p', h, _⟩
      · cases h; simp [Bnd.mul, hpc, hps, ub]
      · cases h
    | fin q =>
      simp only [Bnd.mul, ub]
      rw [(mul_sc q p g1 g2 hu hv).2]
      have := Int.mul_nonneg (a := q.sc g1) (b := p.sc g2) (hun.sc g1) (by omega)
      omega

theorem max2_nan_left (v : Bnd) : Bnd.max2 .nan v = .nan := by
  unfold Bnd.max2; cases v <;> rfl

theorem min2_nan_left (v : Bnd) : Bnd.min2 .nan v = .nan := by
  unfold Bnd.min2; cases v <;> rfl

/-- a bound that is `-inf` or a non-positive `RealFloat` -/
def NonPos (b : Bnd) : Prop := b = .inf true ∨ ∃ p, b = .fin p ∧ (p.c = 0 ∨ p.s = true)

theorem NonPos.sc {q : RF} (h : NonPos (.fin q)) (g : Int) : q.sc g ≤ 0 := by
  rcases h with h | ⟨p, h, hs⟩
  · cases h
  · cases h
    rcases hs with hs | hs
    · rw [sc_zero _ g hs]; omega
    · by_cases hc : q.c = 0
      · rw [sc_zero _ g hc]; omega
      · have := sc_neg q g hc hs; omega

theorem imul_nonpos {A B : Int} (hA : 0 ≤ A) (hB : B ≤ 0) : A * B ≤ 0 := by
  have := Int.mul_nonneg (a := A) (b := -B) hA (by omega)
  rw [Int.mul_neg] at this; omega

/-- (upper bound of a positive value) × (a non-positive lower bound) is below every `Z ≥ 0` -/
theorem mul_lb_nonpos_left (u v : Bnd) (g1 g2 X Z : Int) (hu : u.okAt g1) (hv : v.okAt g2) (hX : 0 < X)
    (h1 : u.ub g1 X) (hvn : NonPos v) (hZ : 0 ≤ Z) : (u.mul v).lb (g1 + g2) Z := by
  cases u with
  | nan => simp [ub] at h1
  | inf s =>
    simp only [ub] at h1; subst h1
    cases v with
    | nan => rcases hvn with h | ⟨p, h, _⟩ <;> cases h
    | inf t =>
      rcases hvn with h | ⟨p, h, _⟩
      · cases h; simp [Bnd.mul, lb]
      · cases h
    | fin q =>
      by_cases hc : q.c = 0
      · simp only [Bnd.mul, hc, if_true, lb]; rw [ofInt_zero_sc]; exact hZ
      · rcases hvn with h | ⟨p, h, hs⟩
        · cases h
        · cases h
          rcases hs with hs | hs
          · exact absurd hs hc
          · simp [Bnd.mul, hc, hs, lb]
  | fin p =>
    simp only [ub] at h1
    have ⟨hpc, hps⟩ := pos_of_sc_pos (p := p) (g := g1) (by omega)
    cases v with
    | nan => rcases hvn with h | ⟨p, h, _⟩ <;> cases h
    | inf t =>
      rcases hvn with h | ⟨p', h, _⟩
      · cases h; simp [Bnd.mul, hpc, hps, lb]
      · cases h
    | fin q =>
      simp only [Bnd.mul, lb]
      rw [(mul_sc p q g1 g2 hu hv).2]
      have := imul_nonpos (A := p.sc g1) (B := q.sc g2) (by omega) (hvn.sc g2)
      omega

/-- (a non-negative upper bound) × (lower bound of a negative value) is below every `Z ≥ 0` -/
theorem mul_lb_nonpos_right (u v : Bnd) (g1 g2 Y Z : Int) (hu : u.okAt g1) (hv : v.okAt g2) (hY : Y < 0)
    (h2 : v.lb g2 Y) (hun : NonNeg u) (hZ : 0 ≤ Z) : (u.mul v).lb (g1 + g2) Z := by
  cases v with
  | nan => simp [lb] at h2
  | inf s =>
    simp only [lb] at h2; subst h2
    cases u with
    | nan => rcases hun with h | ⟨p, h, _⟩ <;> cases h
    | inf t =>
      rcases hun with h | ⟨p, h, _⟩
      · cases h; simp [Bnd.mul, lb]
      · cases h
    | fin q =>
      by_cases hc : q.c = 0
      · simp only [Bnd.mul, hc, if_true, lb]; rw [ofInt_zero_sc]; exact hZ
      · rcases hun with h | ⟨p, h, hs⟩
        · cases h
        · cases h
          rcases hs with hs | hs
          · exact absurd hs hc
          · simp [Bnd.mul, hc, hs, lb]
  | fin p =>
    simp only [lb] at h2
    have ⟨hpc, hps⟩ := neg_of_sc_neg (p := p) (g := g2) (by omega)
    cases u with
    | nan => rcases hun with h | ⟨p, h, _⟩ <;> cases h
    | inf t =>
      rcases hun with h | ⟨p', h, _⟩
      · cases h; simp [Bnd.mul, hpc, hps, lb]
      · cases h
    | fin q =>
      simp only [Bnd.mul, lb]
      rw [(mul_sc q p g1 g2 hu hv).2]
      have := imul_nonpos (A := q.sc g1) (B := p.sc g2) (hun.sc g1) (by omega)
      omega

theorem abs_okAt {b : Bnd} {g : Int} (h : b.okAt g) : b.abs.okAt g := by
  cases b <;> simp [Bnd.abs, okAt] at * <;> exact h

theorem abs_ub_neg (b : Bnd) (g X : Int) (h : b.lb g X) : b.abs.ub g (-X) := by
  cases b with
  | nan => simp [lb] at h
  | inf s => simp [Bnd.abs, ub]
  | fin n =>
    simp only [lb, Bnd.abs, ub] at *
    have := abs_sc_ge n g; omega

end Bnd

namespace AbsFmt

/-- what `bound` (the larger magnitude of the two bounds) dominates -/
theorem bound_fin (a : AbsFmt) (B : RF) (g X : Int) (hB : a.bound = .fin B) (hap : a.pos.okAt g) (han : a.neg.okAt g)
    (hub : a.pos.ub g X) (hlb : a.neg.lb g X) : B.okAt g ∧ X ≤ B.sc g ∧ -X ≤ B.sc g := by
  have hpn : a.pos ≠ .nan := by intro h; rw [h] at hub; exact hub
  have h1 := Bnd.max2_ub a.pos a.neg.abs g X hap (Bnd.abs_okAt han) hpn (Or.inl hub)
  have h2 := Bnd.max2_ub a.pos a.neg.abs g (-X) hap (Bnd.abs_okAt han) hpn (Or.inr (Bnd.abs_ub_neg _ _ _ hlb))
  unfold bound at hB
  rw [hB] at h1 h2
  exact ⟨h1.1, h1.2, h2.2⟩

theorem maxval_sound (B : RF) (e : Int) (n : Nat) (g X k : Int) (h : maxvalPrecision B e = .ok n)
    (hB : B.okAt g) (hg : g ≤ e) (hk : X = k * 2 ^ (e - g).toNat) (h1 : X ≤ B.sc g) (h2 : -X ≤ B.sc g) :
    k.natAbs < 2 ^ n := by
  unfold maxvalPrecision at h
  split at h
  · cases h
  · rename_i y hy
    cases h
    have hnorm := normalize_sc B y e hy g hB hg
    have hmag : X.natAbs ≤ (y.sc g).natAbs := by rw [hnorm.2.2]; omega
    rw [natAbs_sc] at hmag
    unfold mag at hmag
    rw [hnorm.1, hk, natAbs_mul_pow] at hmag
    have hkc : k.natAbs ≤ y.c := Nat.le_of_mul_le_mul_right hmag (Nat.pow_pos (by decide))
    exact Nat.lt_of_le_of_lt hkc ((bitLength_le_iff y.c _).1 (Nat.le_refl _))

/-- every member is writable with the *effective* precision and the format's exponent bound -/
theorem effPrec_sound (a : AbsFmt) (p : Option Nat) (h : a.effectivePrec = .ok p) (g X : Int)
    (hap : a.pos.okAt g) (han : a.neg.okAt g) (hg : g ≤ olvl a.exp)
    (hw : IW a.prec a.exp g X) (hlb : a.neg.lb g X) (hub : a.pos.ub g X) : IW p a.exp g X := by
  unfold effectivePrec at h
  split at h
  · cases h
  · rename_i B e hprec hbound hexp
    rw [hexp] at hw hg ⊢
    simp only [olvl] at hg
    cases hm : maxvalPrecision B e with
    | error err => rw [hm] at h; cases h
    | ok n =>
      rw [hm] at h; cases h
      obtain ⟨hBok, h1, h2⟩ := bound_fin a B g X hbound hap han hub hlb
      obtain ⟨k, hk⟩ := IW_IMul hw hg
      exact IW_of_mul (some n) e g X k hg hk (fun q hq => by cases hq; exact maxval_sound B e n g X k hm hBok hg hk h1 h2)
  · rename_i p0 B e hprec hbound hexp
    split at h
    · rw [hexp] at hw hg ⊢
      simp only [olvl] at hg
      cases hm : maxvalPrecision B e with
      | error err => rw [hm] at h; cases h
      | ok n =>
        rw [hm] at h; cases h
        obtain ⟨hBok, h1, h2⟩ := bound_fin a B g X hbound hap han hub hlb
        obtain ⟨k, hk⟩ := IW_IMul hw hg
        exact IW_of_mul (some n) e g X k hg hk (fun q hq => by cases hq; exact maxval_sound B e n g X k hm hBok hg hk h1 h2)
    · cases h; rw [← hprec]; exact hw
  · cases h; exact hw

theorem precMax_some {p q : Option Nat} {r : Nat} (h : precMax p q = some r) :
    ∃ a b, p = some a ∧ q = some b ∧ r = max a b := by
  cases p <;> cases q <;> simp [precMax] at h
  exact ⟨_, _, rfl, rfl, h.symm⟩

theorem precAdd_some {p q : Option Nat} {r : Nat} (h : precAdd p q = some r) :
    ∃ a b, p = some a ∧ q = some b ∧ r = a + b := by
  cases p <;> cases q <;> simp [precAdd] at h
  exact ⟨_, _, rfl, rfl, h.symm⟩

theorem expAdd_some {p q : Option Int} {r : Int} (h : expAdd p q = some r) :
    ∃ a b, p = some a ∧ q = some b ∧ r = a + b := by
  cases p <;> cases q <;> simp [expAdd] at h
  exact ⟨_, _, rfl, rfl, h.symm⟩

/-- the precision and exponent `__mul__` computes suffice for the product of two non-zero members -/
theorem mul_prec_sound (ps po : Option Nat) (Ea Eb : Option Int) (g1 g2 X Y : Int) (hX : X ≠ 0) (hY : Y ≠ 0)
    (h1 : IW ps Ea g1 X) (h2 : IW po Eb g2 Y) :
    IW (if ps == some 1 || po == some 1 then precMax ps po else precMax (precAdd ps po) (some 1))
      (expAdd Ea Eb) (g1 + g2) (X * Y) := by
  obtain ⟨m1, e1, hg1, hm1, hp1, hE1⟩ := h1
  obtain ⟨m2, e2, hg2, hm2, hp2, hE2⟩ := h2
  have hm1ne : m1 ≠ 0 := by intro h; rw [h] at hm1; simp at hm1; exact hX hm1
  have hm2ne : m2 ≠ 0 := by intro h; rw [h] at hm2; simp at hm2; exact hY hm2
  refine ⟨m1 * m2, e1 + e2, by omega, ?_, ?_, ?_⟩
  · rw [Int.natAbs_mul, hm1, hm2]
    have : (e1 + e2 - (g1 + g2)).toNat = (e1 - g1).toNat + (e2 - g2).toNat := by omega
    rw [this, Nat.pow_add]
    generalize 2 ^ (e1 - g1).toNat = A
    generalize 2 ^ (e2 - g2).toNat = B
    rw [Nat.mul_assoc, Nat.mul_assoc, Nat.mul_left_comm A m2 B]
  · intro r hr
    by_cases hone : (ps == some 1 || po == some 1) = true
    · rw [if_pos hone] at hr
      obtain ⟨a, b, hps, hpo, hmax⟩ := precMax_some hr
      have ha := hp1 a hps
      have hb := hp2 b hpo
      rcases (by simpa using hone : ps = some 1 ∨ po = some 1) with h | h
      · rw [hps] at h; cases h
        have : m1 = 1 := by omega
        rw [this, Nat.one_mul]
        exact Nat.lt_of_lt_of_le hb (Nat.pow_le_pow_right (by decide) (by omega))
      · rw [hpo] at h; cases h
        have : m2 = 1 := by omega
        rw [this, Nat.mul_one]
        exact Nat.lt_of_lt_of_le ha (Nat.pow_le_pow_right (by decide) (by omega))
    · rw [if_neg hone] at hr
      obtain ⟨s, one, hs, h1', hmax⟩ := precMax_some hr
      obtain ⟨a, b, hps, hpo, hsum⟩ := precAdd_some hs
      have ha := hp1 a hps
      have hb := hp2 b hpo
      have := Nat.mul_lt_mul'' ha hb
      rw [← Nat.pow_add] at this
      exact Nat.lt_of_lt_of_le this (Nat.pow_le_pow_right (by decide) (by omega))
  · intro E hE
    obtain ⟨ea, eb, hea, heb, hsum⟩ := expAdd_some hE
    have := hE1 ea hea
    have := hE2 eb heb
    omega

theorem mul_eq_ok {a b c : AbsFmt} (h : a.mul b = .ok c) :
    ∃ ps po, a.effectivePrec = .ok ps ∧ b.effectivePrec = .ok po ∧
      c = { prec := if ps == some 1 || po == some 1 then precMax ps po else precMax (precAdd ps po) (some 1),
            exp := expAdd a.exp b.exp,
            pos := Bnd.max2 (a.pos.mul b.pos) (a.neg.mul b.neg),
            neg := Bnd.min2 (a.pos.mul b.neg) (a.neg.mul b.pos),
            posInf := (a.posInf || a.negInf) || (b.posInf || b.negInf),
            negInf := (a.posInf || a.negInf) || (b.posInf || b.negInf),
            nan := a.nan || b.nan || ((a.posInf || a.negInf) || (b.posInf || b.negInf)),
            negZero := a.negZero || b.negZero } := by
  unfold AbsFmt.mul at h
  simp only [bind, Except.bind, pure, Except.pure] at h
  split at h
  · cases h
  · rename_i ps hps
    split at h
    · cases h
    · rename_i po hpo
      cases h
      exact ⟨ps, po, hps, hpo, rfl⟩

theorem mul_c_ne {x y : RF} (h : (x.mul y).c ≠ 0) : x.c ≠ 0 ∧ y.c ≠ 0 := by
  unfold RF.mul at h
  by_cases hz : (x.c = 0 || y.c = 0) = true
  · rw [if_pos hz] at h; exact absurd rfl h
  · simpa using hz

/-- **product of finite members** — provided a `-0` product is covered by the computed
`has_neg_zero`. -/
theorem mul_fin (a b c : AbsFmt) (ha : a.WF) (hb : b.WF) (h : a.mul b = .ok c)
    (x y : RF) (hx : a.finMem x) (hy : b.finMem y)
    (hz : (x.mul y).c = 0 → (x.mul y).s = true → (a.negZero || b.negZero) = true) :
    c.finMem (x.mul y) := by
  obtain ⟨ps, po, hps, hpo, hc⟩ := mul_eq_ok h
  by_cases hrc : (x.mul y).c = 0
  · rw [finMem_zero _ _ hrc]
    intro hs
    have := hz hrc hs
    rw [hc]; exact this
  · obtain ⟨hxc, hyc⟩ := mul_c_ne hrc
    let g1 : Int := min x.exp (min (min a.pos.lvl a.neg.lvl) (olvl a.exp))
    let g2 : Int := min y.exp (min (min b.pos.lvl b.neg.lvl) (olvl b.exp))
    have hgx : g1 ≤ x.exp := by omega
    have hgy : g2 ≤ y.exp := by omega
    have hap := Bnd.okAt_of_le_lvl a.pos g1 (by omega)
    have han := Bnd.okAt_of_le_lvl a.neg g1 (by omega)
    have hbp := Bnd.okAt_of_le_lvl b.pos g2 (by omega)
    have hbn := Bnd.okAt_of_le_lvl b.neg g2 (by omega)
    have fx := (finMem_iff a x g1 hxc hgx hap han).1 hx
    have fy := (finMem_iff b y g2 hyc hgy hbp hbn).1 hy
    have hXne : x.sc g1 ≠ 0 := fun h0 => hxc ((sc_eq_zero_iff x g1).1 h0)
    have hYne : y.sc g2 ≠ 0 := fun h0 => hyc ((sc_eq_zero_iff y g2).1 h0)
    have hprod := mul_sc x y g1 g2 (Or.inr hgx) (Or.inr hgy)
    have hgr : g1 + g2 ≤ (x.mul y).exp := by rcases hprod.1 with hh | hh; exact absurd hh hrc; exact hh
    -- names for the four corner products
    have hPP := Bnd.mul_okAt a.pos b.pos g1 g2 hap hbp
    have hNN := Bnd.mul_okAt a.neg b.neg g1 g2 han hbn
    have hPN := Bnd.mul_okAt a.pos b.neg g1 g2 hap hbn
    have hNP := Bnd.mul_okAt a.neg b.pos g1 g2 han hbp
    have hcpos : c.pos = Bnd.max2 (a.pos.mul b.pos) (a.neg.mul b.neg) := by rw [hc]
    have hcneg : c.neg = Bnd.min2 (a.pos.mul b.neg) (a.neg.mul b.pos) := by rw [hc]
    have hPPn : a.pos.mul b.pos ≠ .nan := Bnd.mul_ne_nan _ _ (wf_pos_ne_nan ha).1 (wf_pos_ne_nan hb).1
    have hPNn : a.pos.mul b.neg ≠ .nan := Bnd.mul_ne_nan _ _ (wf_pos_ne_nan ha).1 (wf_pos_ne_nan hb).2
    -- bounds, by the signs of the two factors
    have hbounds : (c.pos.okAt (g1 + g2) ∧ c.pos.ub (g1 + g2) (x.sc g1 * y.sc g2)) ∧
        (c.neg.okAt (g1 + g2) ∧ c.neg.lb (g1 + g2) (x.sc g1 * y.sc g2)) := by
      rw [hcpos, hcneg]
      by_cases hXpos : 0 < x.sc g1
      · by_cases hYpos : 0 < y.sc g2
        · have u := Bnd.mul_ub_pp a.pos b.pos g1 g2 _ _ hap hbp hXpos hYpos fx.2.2 fy.2.2
          have hZ : 0 ≤ x.sc g1 * y.sc g2 := Int.le_of_lt (Int.mul_pos hXpos hYpos)
          have l := Bnd.mul_lb_nonpos_left a.pos b.neg g1 g2 _ _ hap hbn hXpos fx.2.2 hb.2.1 hZ
          exact ⟨Bnd.max2_ub _ _ _ _ hPP hNN u.1 (Or.inl u.2), Bnd.min2_lb _ _ _ _ hPN hNP hPNn (Or.inl l)⟩
        · have hYneg : y.sc g2 < 0 := by omega
          have l := Bnd.mul_lb_pn a.pos b.neg g1 g2 _ _ hap hbn hXpos hYneg fx.2.2 fy.2.1
          have hZ : x.sc g1 * y.sc g2 ≤ 0 := Int.le_of_lt (Int.mul_neg_of_pos_of_neg hXpos hYneg)
          have u := Bnd.mul_ub_nonneg_left a.pos b.pos g1 g2 _ _ hap hbp hXpos fx.2.2 hb.1 hZ
          exact ⟨Bnd.max2_ub _ _ _ _ hPP hNN hPPn (Or.inl u), Bnd.min2_lb _ _ _ _ hPN hNP l.1 (Or.inl l.2)⟩
      · have hXneg : x.sc g1 < 0 := by omega
        by_cases hYpos : 0 < y.sc g2
        · have l := Bnd.mul_lb_np a.neg b.pos g1 g2 _ _ han hbp hXneg hYpos fx.2.1 fy.2.2
          have hZ : x.sc g1 * y.sc g2 ≤ 0 := Int.le_of_lt (Int.mul_neg_of_neg_of_pos hXneg hYpos)
          have u := Bnd.mul_ub_nonneg_right a.pos b.pos g1 g2 _ _ hap hbp hYpos fy.2.2 ha.1 hZ
          exact ⟨Bnd.max2_ub _ _ _ _ hPP hNN hPPn (Or.inl u), Bnd.min2_lb _ _ _ _ hPN hNP hPNn (Or.inr l.2)⟩
        · have hYneg : y.sc g2 < 0 := by omega
          have u := Bnd.mul_ub_nn a.neg b.neg g1 g2 _ _ han hbn hXneg hYneg fx.2.1 fy.2.1
          have hZ : 0 ≤ x.sc g1 * y.sc g2 := Int.le_of_lt (Int.mul_pos_of_neg_of_neg hXneg hYneg)
          have l := Bnd.mul_lb_nonpos_right a.pos b.neg g1 g2 _ _ hap hbn hYneg fy.2.1 ha.1 hZ
          exact ⟨Bnd.max2_ub _ _ _ _ hPP hNN hPPn (Or.inr u.2), Bnd.min2_lb _ _ _ _ hPN hNP hPNn (Or.inl l)⟩
    rw [finMem_iff c _ (g1 + g2) hrc hgr hbounds.1.1 hbounds.2.1, hprod.2]
    refine ⟨?_, hbounds.2.2, hbounds.1.2⟩
    have e1 := effPrec_sound a ps hps g1 _ hap han (by omega) fx.1 fx.2.1 fx.2.2
    have e2 := effPrec_sound b po hpo g2 _ hbp hbn (by omega) fy.1 fy.2.1 fy.2.2
    have := mul_prec_sound ps po a.exp b.exp g1 g2 _ _ hXne hYne e1 e2
    rw [hc]; exact this

end AbsFmt
end Fpy
