/-
Meta-theory of the fuel-indexed evaluator `Fpy.Lang.evalE … evalB` (Model/Lang/Core.lean).

Part 1 (this file): FUEL MONOTONICITY.  `Le a b` ("a ran out of fuel, or a = b") is the
definedness order on results; every evaluator function is a chain for it (`monoAt`, one
induction on the fuel over all ten mutually recursive functions plus `valEq`, `bindPat`), hence
a result `.ok r` or an error other than `.outOfFuel` obtained with fuel `f` is obtained with
every fuel `f' ≥ f` (`evalE_fuel_mono` … `evalB_fuel_mono`).
-/
import Fpy.Proof.LangMetaBase
namespace Fpy.Xform
open Fpy Fpy.Lang

theorem evalEs_step {Φ : Funs} {n m : Nat} (ih : MonoAt Φ n m) :
    ∀ σ μ C es, Le (evalEs Φ (n+1) σ μ C es) (evalEs Φ (m+1) σ μ C es) := by
  intro σ μ C es
  cases es <;> simp only [evalEs] <;> le_tac ih

theorem evalChain_step {Φ : Funs} {n m : Nat} (ih : MonoAt Φ n m) :
    ∀ σ μ C a ops es, Le (evalChain Φ (n+1) σ μ C a ops es) (evalChain Φ (m+1) σ μ C a ops es) := by
  intro σ μ C a ops es
  cases ops <;> cases es <;> simp only [evalChain] <;> le_tac ih

theorem evalAnd_step {Φ : Funs} {n m : Nat} (ih : MonoAt Φ n m) :
    ∀ σ μ C es, Le (evalAnd Φ (n+1) σ μ C es) (evalAnd Φ (m+1) σ μ C es) := by
  intro σ μ C es
  rcases es with _ | ⟨e, _ | ⟨e', es⟩⟩ <;> simp only [evalAnd] <;> le_tac ih

theorem evalOr_step {Φ : Funs} {n m : Nat} (ih : MonoAt Φ n m) :
    ∀ σ μ C es, Le (evalOr Φ (n+1) σ μ C es) (evalOr Φ (m+1) σ μ C es) := by
  intro σ μ C es
  rcases es with _ | ⟨e, _ | ⟨e', es⟩⟩ <;> simp only [evalOr] <;> le_tac ih

theorem evalComp_step {Φ : Funs} {n m : Nat} (ih : MonoAt Φ n m) :
    ∀ σ μ C ps its elt, Le (evalComp Φ (n+1) σ μ C ps its elt) (evalComp Φ (m+1) σ μ C ps its elt) := by
  intro σ μ C ps its elt
  cases ps <;> cases its <;> simp only [evalComp] <;> le_tac ih

theorem compLoop_step {Φ : Funs} {n m : Nat} (ih : MonoAt Φ n m) :
    ∀ σ μ C r i p ps its elt, Le (compLoop Φ (n+1) σ μ C r i p ps its elt) (compLoop Φ (m+1) σ μ C r i p ps its elt) := by
  intro σ μ C r i p ps its elt
  simp only [compLoop]; le_tac ih

theorem evalS_step {Φ : Funs} {n m : Nat} (ih : MonoAt Φ n m) :
    ∀ σ μ C s, Le (evalS Φ (n+1) σ μ C s) (evalS Φ (m+1) σ μ C s) := by
  intro σ μ C s
  cases s <;> simp only [evalS] <;> le_tac ih

theorem forLoop_step {Φ : Funs} {n m : Nat} (ih : MonoAt Φ n m) :
    ∀ σ μ C r i p body, Le (forLoop Φ (n+1) σ μ C r i p body) (forLoop Φ (m+1) σ μ C r i p body) := by
  intro σ μ C r i p body
  simp only [forLoop]; le_tac ih

theorem evalB_step {Φ : Funs} {n m : Nat} (ih : MonoAt Φ n m) :
    ∀ σ μ C ss, Le (evalB Φ (n+1) σ μ C ss) (evalB Φ (m+1) σ μ C ss) := by
  intro σ μ C ss
  cases ss <;> simp only [evalB] <;> le_tac ih

theorem monoAt (Φ : Funs) : ∀ n m, n ≤ m → MonoAt Φ n m := by
  intro n
  induction n with
  | zero => intro m h; constructor <;> first | exact h | (intros; exact Or.inl rfl)
  | succ n ih =>
    intro m h
    cases m with
    | zero => omega
    | succ m =>
      have ih := ih m (by omega)
      exact ⟨h, evalE_step ih, evalEs_step ih, evalChain_step ih, evalAnd_step ih, evalOr_step ih,
        evalComp_step ih, compLoop_step ih, evalS_step ih, forLoop_step ih, evalB_step ih⟩

/-! ### the requested form: a definite result is stable under more fuel -/

theorem evalE_fuel_mono {Φ : Funs} {f f' : Nat} (hf : f ≤ f') {σ} {μ} {C} {e} {res}
    (h : evalE Φ f σ μ C e = res) (hr : res ≠ .error .outOfFuel) : evalE Φ f' σ μ C e = res :=
  ((monoAt Φ f f' hf).evalE _ _ _ _).stable h hr

theorem evalEs_fuel_mono {Φ : Funs} {f f' : Nat} (hf : f ≤ f') {σ} {μ} {C} {es} {res}
    (h : evalEs Φ f σ μ C es = res) (hr : res ≠ .error .outOfFuel) : evalEs Φ f' σ μ C es = res :=
  ((monoAt Φ f f' hf).evalEs _ _ _ _).stable h hr

theorem evalChain_fuel_mono {Φ : Funs} {f f' : Nat} (hf : f ≤ f') {σ} {μ} {C} {a} {ops} {es} {res}
    (h : evalChain Φ f σ μ C a ops es = res) (hr : res ≠ .error .outOfFuel) : evalChain Φ f' σ μ C a ops es = res :=
  ((monoAt Φ f f' hf).evalChain _ _ _ _ _ _).stable h hr

theorem evalAnd_fuel_mono {Φ : Funs} {f f' : Nat} (hf : f ≤ f') {σ} {μ} {C} {es} {res}
    (h : evalAnd Φ f σ μ C es = res) (hr : res ≠ .error .outOfFuel) : evalAnd Φ f' σ μ C es = res :=
  ((monoAt Φ f f' hf).evalAnd _ _ _ _).stable h hr

theorem evalOr_fuel_mono {Φ : Funs} {f f' : Nat} (hf : f ≤ f') {σ} {μ} {C} {es} {res}
    (h : evalOr Φ f σ μ C es = res) (hr : res ≠ .error .outOfFuel) : evalOr Φ f' σ μ C es = res :=
  ((monoAt Φ f f' hf).evalOr _ _ _ _).stable h hr

theorem evalComp_fuel_mono {Φ : Funs} {f f' : Nat} (hf : f ≤ f') {σ} {μ} {C} {ps} {its} {elt} {res}
    (h : evalComp Φ f σ μ C ps its elt = res) (hr : res ≠ .error .outOfFuel) : evalComp Φ f' σ μ C ps its elt = res :=
  ((monoAt Φ f f' hf).evalComp _ _ _ _ _ _).stable h hr

theorem compLoop_fuel_mono {Φ : Funs} {f f' : Nat} (hf : f ≤ f') {σ} {μ} {C} {r} {i} {p} {ps} {its} {elt} {res}
    (h : compLoop Φ f σ μ C r i p ps its elt = res) (hr : res ≠ .error .outOfFuel) : compLoop Φ f' σ μ C r i p ps its elt = res :=
  ((monoAt Φ f f' hf).compLoop _ _ _ _ _ _ _ _ _).stable h hr

theorem evalS_fuel_mono {Φ : Funs} {f f' : Nat} (hf : f ≤ f') {σ} {μ} {C} {s} {res}
    (h : evalS Φ f σ μ C s = res) (hr : res ≠ .error .outOfFuel) : evalS Φ f' σ μ C s = res :=
  ((monoAt Φ f f' hf).evalS _ _ _ _).stable h hr

theorem forLoop_fuel_mono {Φ : Funs} {f f' : Nat} (hf : f ≤ f') {σ} {μ} {C} {r} {i} {p} {body} {res}
    (h : forLoop Φ f σ μ C r i p body = res) (hr : res ≠ .error .outOfFuel) : forLoop Φ f' σ μ C r i p body = res :=
  ((monoAt Φ f f' hf).forLoop _ _ _ _ _ _ _).stable h hr

theorem evalB_fuel_mono {Φ : Funs} {f f' : Nat} (hf : f ≤ f') {σ} {μ} {C} {ss} {res}
    (h : evalB Φ f σ μ C ss = res) (hr : res ≠ .error .outOfFuel) : evalB Φ f' σ μ C ss = res :=
  ((monoAt Φ f f' hf).evalB _ _ _ _).stable h hr

end Fpy.Xform
