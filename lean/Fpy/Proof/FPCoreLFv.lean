/-
C12 (round 2) — free variables of the shapes the compiler emits.
-/
import Fpy.Proof.FPCoreLConv
set_option linter.unusedSimpArgs false
set_option linter.unusedVariables false
namespace Fpy.C12
open Fpy Fpy.Lang

theorem fvL_vars (xs : List String) (y : String) : y ∈ fvL (xs.map FExpr.var) ↔ y ∈ xs := by
  induction xs with
  | nil => simp [fvL]
  | cons x xs ih => simp [fvL, fvF, ih]

theorem fv_bind1 (x : String) (e K : FExpr) (y : String) :
    y ∈ fvF (bind1 x e K) ↔ y ∈ fvF e ∨ (y ∈ fvF K ∧ y ≠ x) := by
  simp [bind1, fvF, fvB, mem_rmNames]

theorem fv_pack (xs : List String) (K : FExpr) (y : String) :
    y ∈ fvF (pack xs K) ↔ y ∈ xs ∨ (y ∈ fvF K ∧ y ≠ "%t") := by
  simp [pack, fvF, fvB, mem_rmNames, fvL_vars]

theorem fv_repack (xs : List String) (y : String) (hy : isTmpL y = false) : y ∈ fvF (repack xs) ↔ y ∈ xs := by
  have := (isTmpL_ne hy).1
  simp [repack, fv_pack, fvF, this]

theorem fvStar_refBinds (t : String) (acc : List String) (y : String) : ∀ (xs : List String) (i : Nat),
    y ∈ fvStar (refBinds t xs i) acc ↔ (y = t ∧ xs ≠ []) ∨ (y ∈ acc ∧ y ∉ xs) := by
  intro xs
  induction xs with
  | nil => intro i; simp [refBinds, fvStar]
  | cons x xs ih =>
    intro i
    simp only [refBinds, fvStar, fvF, fvL, List.mem_append, mem_rmNames, List.mem_singleton, List.mem_cons,
      List.not_mem_nil, or_false, ih (i + 1)]
    constructor
    · rintro (h | ⟨(⟨h1, h2⟩ | ⟨h1, h2⟩), h3⟩)
      · exact Or.inl ⟨h, by simp⟩
      · exact Or.inl ⟨h1, by simp⟩
      · exact Or.inr ⟨h1, by intro h; rcases h with h | h; exact h3 h; exact h2 h⟩
    · rintro (⟨h, _⟩ | ⟨h1, h2⟩)
      · exact Or.inl h
      · exact Or.inr ⟨Or.inr ⟨h1, fun h => h2 (Or.inr h)⟩, fun h => h2 (Or.inl h)⟩

theorem fv_unpack (xs : List String) (e K : FExpr) (y : String) (hy : isTmpL y = false) :
    y ∈ fvF (unpack xs e K) ↔ y ∈ fvF e ∨ (y ∈ fvF K ∧ y ∉ xs) := by
  have hne := (isTmpL_ne hy).1
  simp only [unpack, fvF, fvStar, List.mem_append, mem_rmNames, List.mem_singleton, List.mem_cons, List.not_mem_nil,
    or_false, fvStar_refBinds]
  constructor
  · rintro (h | ⟨(⟨h, _⟩ | h), _⟩)
    · exact Or.inl h
    · exact absurd h hne
    · exact Or.inr h
  · rintro (h | h)
    · exact Or.inl h
    · exact Or.inr ⟨Or.inr h, hne⟩

theorem fv_whileE (c : FExpr) (m : String) (init U K : FExpr) (y : String) :
    y ∈ fvF (whileE c m init U K) ↔ y ∈ fvF init ∨ ((y ∈ fvF c ∨ y ∈ fvF U ∨ y ∈ fvF K) ∧ y ≠ m) := by
  simp [whileE, fvF, fvInit, fvUpd, mem_rmNames, or_assoc]

theorem fv_forE (x : String) (n : Nat) (m : String) (init B K : FExpr) (y : String) (hy : isTmpL y = false) :
    y ∈ fvF (forE x n m init B K) ↔ y ∈ fvF init ∨ (((y ∈ fvF B ∧ y ≠ x) ∨ y ∈ fvF K) ∧ y ≠ m) := by
  obtain ⟨h1, h2, h3, h4, h5⟩ := isTmpL_ne hy
  simp [forE, rangeE, fv_bind1, fvF, fvB, fvL, fvInit, fvUpd, mem_rmNames, h1, h2, h3, h4, h5]

theorem fv_retOf (D : List String) (y : String) : y ∈ fvF (retOf D) ↔ y ∈ D := by
  match D with
  | [] => simp [retOf, fvF]
  | [x] => simp [retOf, fvF]
  | x :: x2 :: rest => simp only [retOf, fvF]; exact fvL_vars _ y

theorem fv_bundle (D : List String) (inner K : FExpr) (y : String) (hy : isTmpL y = false) :
    y ∈ fvF (bundle D inner K) ↔ y ∈ fvF inner ∨ (y ∈ fvF K ∧ y ∉ D) := by
  obtain ⟨h1, _, _, _, h5⟩ := isTmpL_ne hy
  match D with
  | [] => simp [bundle, fvF, fvB, mem_rmNames, h5]
  | [x] => simp [bundle, fvF, fvB, mem_rmNames]
  | x :: x2 :: rest =>
    have := fv_unpack (x :: x2 :: rest) inner K y hy
    simpa [bundle, unpack, tmpName] using this

theorem fv_subIdx (M : List String) (x y : String) (h : y ∈ fvF (subIdx M x)) : y = "%t" ∨ y = x := by
  unfold subIdx at h
  cases hi : indexIn M x 0 with
  | none => rw [hi] at h; simp [fvF] at h; exact Or.inr h
  | some i => rw [hi] at h; simp [fvF, fvL] at h; exact Or.inl h

/-- a condition compiled with bundled variables mentions the variables of the condition, or `%t` -/
theorem fv_cond_sub (M : List String) (c : LExpr) (y : String) (h : y ∈ fvF (c.toFsub (subIdx M)))
    (hy : isTmpL y = false) : y ∈ c.vars := by
  obtain ⟨x, hx, hyx⟩ := fvF_toFsub (subIdx M) c y h
  rcases fv_subIdx M x y hyx with h' | h'
  · exact absurd h' (isTmpL_ne hy).1
  · subst h'; exact hx

end Fpy.C12
