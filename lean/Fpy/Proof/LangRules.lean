/-
Meta-theory of the evaluator, part 3: the defining equations of the evaluator with the fuel
erased, for the fuel-free semantics `evalEω … evalBω` of `LangLimit.lean`, and the
existential-fuel judgements `Returns` / `Normal` with their determinism.
-/
import Fpy.Proof.LangLimit
namespace Fpy.Xform
open Fpy Fpy.Lang

theorem evalEω_of {Φ σ μ C e l} (h : Tends (fun n => evalE Φ (n+1) σ μ C e) l) : evalEω Φ σ μ C e = l :=
  (Tends.unshift (a := fun n => evalE Φ n σ μ C e) rfl h).lim_eq
theorem evalEsω_of {Φ σ μ C es l} (h : Tends (fun n => evalEs Φ (n+1) σ μ C es) l) : evalEsω Φ σ μ C es = l :=
  (Tends.unshift (a := fun n => evalEs Φ n σ μ C es) rfl h).lim_eq
theorem evalCompω_of {Φ σ μ C ps its elt l} (h : Tends (fun n => evalComp Φ (n+1) σ μ C ps its elt) l) :
    evalCompω Φ σ μ C ps its elt = l :=
  (Tends.unshift (a := fun n => evalComp Φ n σ μ C ps its elt) rfl h).lim_eq
theorem compLoopω_of {Φ σ μ C r i p ps its elt l} (h : Tends (fun n => compLoop Φ (n+1) σ μ C r i p ps its elt) l) :
    compLoopω Φ σ μ C r i p ps its elt = l :=
  (Tends.unshift (a := fun n => compLoop Φ n σ μ C r i p ps its elt) rfl h).lim_eq
theorem evalSω_of {Φ σ μ C s l} (h : Tends (fun n => evalS Φ (n+1) σ μ C s) l) : evalSω Φ σ μ C s = l :=
  (Tends.unshift (a := fun n => evalS Φ n σ μ C s) rfl h).lim_eq
theorem forLoopω_of {Φ σ μ C r i p body l} (h : Tends (fun n => forLoop Φ (n+1) σ μ C r i p body) l) :
    forLoopω Φ σ μ C r i p body = l :=
  (Tends.unshift (a := fun n => forLoop Φ n σ μ C r i p body) rfl h).lim_eq
theorem evalBω_of {Φ σ μ C ss l} (h : Tends (fun n => evalB Φ (n+1) σ μ C ss) l) : evalBω Φ σ μ C ss = l :=
  (Tends.unshift (a := fun n => evalB Φ n σ μ C ss) rfl h).lim_eq

section
variable (Φ : Funs) (σ : Env) (μ : Heap) (C : Ctx)

/-! ### blocks -/

theorem evalBω_nil : evalBω Φ σ μ C [] = .ok (.normal σ, μ) := by
  apply evalBω_of; simp only [evalB]; tends_tac

theorem evalBω_cons (s : Stmt) (ss : List Stmt) :
    evalBω Φ σ μ C (s :: ss) =
      (do let (o, μ') ← evalSω Φ σ μ C s
          match o with
          | .ret v => .ok (.ret v, μ')
          | .normal σ' => evalBω Φ σ' μ' C ss) := by
  apply evalBω_of; simp only [evalB]; tends_tac

/-! ### statements -/

theorem evalSω_assign (p : Pat) (e : Expr) :
    evalSω Φ σ μ C (.assign p e) =
      (do let (v, μ') ← evalEω Φ σ μ C e
          let σ' ← bindPatω p v σ
          .ok (.normal σ', μ')) := by
  apply evalSω_of; simp only [evalS]; tends_tac

theorem evalSω_ifte (c : Expr) (t f : List Stmt) :
    evalSω Φ σ μ C (.ifte c t f) =
      (do let (v, μ') ← evalEω Φ σ μ C c
          if ← asBool v then evalBω Φ σ μ' C t else evalBω Φ σ μ' C f) := by
  apply evalSω_of; simp only [evalS]; tends_tac

theorem evalSω_if1 (c : Expr) (t : List Stmt) :
    evalSω Φ σ μ C (.if1 c t) =
      (do let (v, μ') ← evalEω Φ σ μ C c
          if ← asBool v then evalBω Φ σ μ' C t else .ok (.normal σ, μ')) := by
  apply evalSω_of; simp only [evalS]; tends_tac

theorem evalSω_while (c : Expr) (body : List Stmt) :
    evalSω Φ σ μ C (.while c body) =
      (do let (v, μ') ← evalEω Φ σ μ C c
          if ← asBool v then
            (do let (o, μ'') ← evalBω Φ σ μ' C body
                match o with
                | .ret r => .ok (.ret r, μ'')
                | .normal σ' => evalSω Φ σ' μ'' C (.while c body))
          else .ok (.normal σ, μ')) := by
  apply evalSω_of; simp only [evalS]; tends_tac

theorem evalSω_for (p : Pat) (it : Expr) (body : List Stmt) :
    evalSω Φ σ μ C (.for p it body) =
      (do let (iv, μ') ← evalEω Φ σ μ C it
          match iv with
          | .list r => forLoopω Φ σ μ' C r 0 p body
          | _ => .error .typeError) := by
  apply evalSω_of; simp only [evalS]; tends_tac

theorem forLoopω_eq (r i : Nat) (p : Pat) (body : List Stmt) :
    forLoopω Φ σ μ C r i p body =
      (do let l ← heapGet μ r
          match l[i]? with
          | none => .ok (.normal σ, μ)
          | some x => do
            let σ' ← bindPatω p x σ
            let (o, μ') ← evalBω Φ σ' μ C body
            match o with
            | .ret v => .ok (.ret v, μ')
            | .normal σ'' => forLoopω Φ σ'' μ' C r (i + 1) p body) := by
  apply forLoopω_of; simp only [forLoop]; tends_tac

theorem evalSω_with (ce : Expr) (name : Option String) (body : List Stmt) :
    evalSω Φ σ μ C (.with ce name body) =
      (do let (cv, μ') ← evalEω Φ σ μ .real ce
          match cv with
          | .ctx C' => evalBω Φ (match name with | some x => σ.set x (.ctx C') | none => σ) μ' C' body
          | _ => .error .typeError) := by
  apply evalSω_of; simp only [evalS]; tends_tac

theorem evalSω_assert (e : Expr) :
    evalSω Φ σ μ C (.assert e) =
      (do let (v, μ') ← evalEω Φ σ μ C e
          if ← asBool v then .ok (.normal σ, μ') else .error .assertion) := by
  apply evalSω_of; simp only [evalS]; tends_tac

theorem evalSω_effect (e : Expr) :
    evalSω Φ σ μ C (.effect e) =
      (do let (_, μ') ← evalEω Φ σ μ C e
          .ok (.normal σ, μ')) := by
  apply evalSω_of; simp only [evalS]; tends_tac

theorem evalSω_ret (e : Expr) :
    evalSω Φ σ μ C (.ret e) =
      (do let (v, μ') ← evalEω Φ σ μ C e
          .ok (.ret v, μ')) := by
  apply evalSω_of; simp only [evalS]; tends_tac

theorem evalSω_pass : evalSω Φ σ μ C .pass = .ok (.normal σ, μ) := by
  apply evalSω_of; simp only [evalS]; tends_tac

/-! ### expressions (the forms the rewrite schemas mention) -/

theorem evalEω_var (x : String) :
    evalEω Φ σ μ C (.var x) = (match σ.get? x with | some v => .ok (v, μ) | none => .error .unbound) := by
  apply evalEω_of; simp only [evalE]; tends_tac

theorem evalEω_bool (b : Bool) : evalEω Φ σ μ C (.bool b) = .ok (.bool b, μ) := by
  apply evalEω_of; simp only [evalE]; tends_tac

theorem evalEω_num (v : NV) : evalEω Φ σ μ C (.num v) = .ok (.num v, μ) := by
  apply evalEω_of; simp only [evalE]; tends_tac

theorem evalEω_ctxLit (c : Ctx) : evalEω Φ σ μ C (.ctxLit c) = .ok (.ctx c, μ) := by
  apply evalEω_of; simp only [evalE]; tends_tac

theorem evalEω_tuple (es : List Expr) :
    evalEω Φ σ μ C (.tuple es) = (do let (vs, μ') ← evalEsω Φ σ μ C es; .ok (.tuple vs, μ')) := by
  apply evalEω_of; simp only [evalE]; tends_tac

theorem evalEsω_nil : evalEsω Φ σ μ C [] = .ok ([], μ) := by
  apply evalEsω_of; simp only [evalEs]; tends_tac

theorem evalEsω_cons (e : Expr) (es : List Expr) :
    evalEsω Φ σ μ C (e :: es) =
      (do let (v, μ1) ← evalEω Φ σ μ C e
          let (vs, μ2) ← evalEsω Φ σ μ1 C es
          .ok (v :: vs, μ2)) := by
  apply evalEsω_of; simp only [evalEs]; tends_tac

theorem evalEω_call (f : String) (args : List Expr) :
    evalEω Φ σ μ C (.call f args) =
      (do let (vs, μ') ← evalEsω Φ σ μ C args
          match Φ.find? f with
          | none => (ctxCtor f vs).map (fun c => (Val.ctx c, μ'))
          | some fd =>
            if fd.params.length != vs.length then .error .typeError
            else do
              let (o, μ'') ← evalBω Φ ((fd.params.zip vs).foldl (fun s (x, v) => s.set x v) []) μ'
                                (match fd.ctx with | some c => c | none => C) fd.body
              match o with
              | .ret v => .ok (v, μ'')
              | .normal _ => .error .assertion) := by
  apply evalEω_of; simp only [evalE]; tends_tac

end

theorem bindPatω_var (x : String) (v : Val) (σ : Env) : bindPatω (.var x) v σ = .ok (σ.set x v) :=
  (Tends.unshift (a := fun n => bindPat n (.var x) v σ) rfl
    (by simp only [bindPat]; exact Tends.const _)).lim_eq

theorem bindPatω_wild (v : Val) (σ : Env) : bindPatω .wild v σ = .ok σ :=
  (Tends.unshift (a := fun n => bindPat n .wild v σ) rfl
    (by simp only [bindPat]; exact Tends.const _)).lim_eq

/-! ### fuel-indexed runs versus the fuel-free semantics -/

theorem evalBω_of_run {Φ : Funs} {f : Nat} {σ μ C ss} {r : M (Outcome × Heap)}
    (h : evalB Φ f σ μ C ss = r) (hr : r ≠ .error .outOfFuel) : evalBω Φ σ μ C ss = r :=
  (tends_evalB Φ σ μ C ss).definite h hr

theorem run_of_evalBω {Φ : Funs} {σ μ C ss} {r : M (Outcome × Heap)}
    (h : evalBω Φ σ μ C ss = r) (hr : r ≠ .error .outOfFuel) : ∃ f, ∀ f', f ≤ f' → evalB Φ f' σ μ C ss = r := by
  have := (tends_evalB Φ σ μ C ss).reach (h ▸ hr)
  rw [h] at this; exact this

theorem evalSω_of_run {Φ : Funs} {f : Nat} {σ μ C s} {r : M (Outcome × Heap)}
    (h : evalS Φ f σ μ C s = r) (hr : r ≠ .error .outOfFuel) : evalSω Φ σ μ C s = r :=
  (tends_evalS Φ σ μ C s).definite h hr

theorem run_of_evalSω {Φ : Funs} {σ μ C s} {r : M (Outcome × Heap)}
    (h : evalSω Φ σ μ C s = r) (hr : r ≠ .error .outOfFuel) : ∃ f, ∀ f', f ≤ f' → evalS Φ f' σ μ C s = r := by
  have := (tends_evalS Φ σ μ C s).reach (h ▸ hr)
  rw [h] at this; exact this

theorem evalEω_of_run {Φ : Funs} {f : Nat} {σ μ C e} {r : M (Val × Heap)}
    (h : evalE Φ f σ μ C e = r) (hr : r ≠ .error .outOfFuel) : evalEω Φ σ μ C e = r :=
  (tends_evalE Φ σ μ C e).definite h hr

theorem run_of_evalEω {Φ : Funs} {σ μ C e} {r : M (Val × Heap)}
    (h : evalEω Φ σ μ C e = r) (hr : r ≠ .error .outOfFuel) : ∃ f, ∀ f', f ≤ f' → evalE Φ f' σ μ C e = r := by
  have := (tends_evalE Φ σ μ C e).reach (h ▸ hr)
  rw [h] at this; exact this

/-- the block `ss`, started in environment `σ`, heap `μ` under context `C`, RETURNS `v` leaving heap `μ'` -/
def Returns (Φ : Funs) (σ : Env) (μ : Heap) (C : Ctx) (ss : List Stmt) (v : Val) (μ' : Heap) : Prop :=
  ∃ f, evalB Φ f σ μ C ss = .ok (.ret v, μ')

/-- the block `ss` runs to its end (no `return`) leaving environment `σ'` and heap `μ'` -/
def Normal (Φ : Funs) (σ : Env) (μ : Heap) (C : Ctx) (ss : List Stmt) (σ' : Env) (μ' : Heap) : Prop :=
  ∃ f, evalB Φ f σ μ C ss = .ok (.normal σ', μ')

/-- the block fails with the (definite) error `e` -/
def Fails (Φ : Funs) (σ : Env) (μ : Heap) (C : Ctx) (ss : List Stmt) (e : Err) : Prop :=
  e ≠ .outOfFuel ∧ ∃ f, evalB Φ f σ μ C ss = .error e

/-- no amount of fuel is enough -/
def Diverges (Φ : Funs) (σ : Env) (μ : Heap) (C : Ctx) (ss : List Stmt) : Prop :=
  ∀ f, evalB Φ f σ μ C ss = .error .outOfFuel

theorem returns_iff {Φ σ μ C ss v μ'} : Returns Φ σ μ C ss v μ' ↔ evalBω Φ σ μ C ss = .ok (.ret v, μ') :=
  ⟨fun ⟨_, h⟩ => evalBω_of_run h (by intro h0; cases h0),
   fun h => let ⟨f, hf⟩ := run_of_evalBω h (by intro h0; cases h0); ⟨f, hf f (Nat.le_refl _)⟩⟩

theorem normal_iff {Φ σ μ C ss σ' μ'} : Normal Φ σ μ C ss σ' μ' ↔ evalBω Φ σ μ C ss = .ok (.normal σ', μ') :=
  ⟨fun ⟨_, h⟩ => evalBω_of_run h (by intro h0; cases h0),
   fun h => let ⟨f, hf⟩ := run_of_evalBω h (by intro h0; cases h0); ⟨f, hf f (Nat.le_refl _)⟩⟩

theorem fails_iff {Φ σ μ C ss e} : Fails Φ σ μ C ss e ↔ e ≠ .outOfFuel ∧ evalBω Φ σ μ C ss = .error e := by
  constructor
  · rintro ⟨he, f, h⟩
    exact ⟨he, evalBω_of_run h (by intro h0; cases h0; exact he rfl)⟩
  · rintro ⟨he, h⟩
    obtain ⟨f, hf⟩ := run_of_evalBω h (by intro h0; cases h0; exact he rfl)
    exact ⟨he, f, hf f (Nat.le_refl _)⟩

theorem diverges_iff {Φ σ μ C ss} : Diverges Φ σ μ C ss ↔ evalBω Φ σ μ C ss = .error .outOfFuel := by
  constructor
  · intro h
    apply Tends.lim_eq
    exact ⟨fun n => .inl (h n), fun hne => absurd rfl hne⟩
  · intro h f
    rcases (tends_evalB Φ σ μ C ss).le f with h1 | h1
    · exact h1
    · exact h1.trans h

/-- determinism across fuels: a block has at most one outcome -/
theorem Returns.det {Φ σ μ C ss v μ' w μ''} (h1 : Returns Φ σ μ C ss v μ') (h2 : Returns Φ σ μ C ss w μ'') :
    v = w ∧ μ' = μ'' := by
  have := (returns_iff.1 h1).symm.trans (returns_iff.1 h2)
  injection this with this; injection this with a b; injection a with a
  exact ⟨a, b⟩

theorem Normal.det {Φ σ μ C ss σ' μ' σ'' μ''} (h1 : Normal Φ σ μ C ss σ' μ') (h2 : Normal Φ σ μ C ss σ'' μ'') :
    σ' = σ'' ∧ μ' = μ'' := by
  have := (normal_iff.1 h1).symm.trans (normal_iff.1 h2)
  injection this with this; injection this with a b; injection a with a
  exact ⟨a, b⟩

theorem Returns.not_normal {Φ σ μ C ss v μ' σ'' μ''} (h1 : Returns Φ σ μ C ss v μ') (h2 : Normal Φ σ μ C ss σ'' μ'') : False := by
  have := (returns_iff.1 h1).symm.trans (normal_iff.1 h2)
  injection this with this; injection this with a b; cases a

theorem Returns.not_fails {Φ σ μ C ss v μ' e} (h1 : Returns Φ σ μ C ss v μ') (h2 : Fails Φ σ μ C ss e) : False := by
  have := (returns_iff.1 h1).symm.trans (fails_iff.1 h2).2
  cases this

/-- a run that returned with fuel `f` returns the same with every larger fuel -/
theorem Returns.stable {Φ σ μ C ss v μ' f f'} (h : evalB Φ f σ μ C ss = .ok (.ret v, μ')) (hf : f ≤ f') :
    evalB Φ f' σ μ C ss = .ok (.ret v, μ') :=
  evalB_fuel_mono hf h (by intro h0; cases h0)

/-- two blocks are observationally equal: same return value and heap, same final environment and
heap, same error, or both diverge — in every environment, heap and context -/
def BEquiv (Φ : Funs) (ss ss' : List Stmt) : Prop :=
  ∀ σ μ C, evalBω Φ σ μ C ss = evalBω Φ σ μ C ss'

theorem BEquiv.returns {Φ ss ss'} (h : BEquiv Φ ss ss') {σ μ C v μ'} :
    Returns Φ σ μ C ss v μ' ↔ Returns Φ σ μ C ss' v μ' := by
  rw [returns_iff, returns_iff, h σ μ C]

theorem BEquiv.normal {Φ ss ss'} (h : BEquiv Φ ss ss') {σ μ C σ' μ'} :
    Normal Φ σ μ C ss σ' μ' ↔ Normal Φ σ μ C ss' σ' μ' := by
  rw [normal_iff, normal_iff, h σ μ C]

theorem BEquiv.fails {Φ ss ss'} (h : BEquiv Φ ss ss') {σ μ C e} :
    Fails Φ σ μ C ss e ↔ Fails Φ σ μ C ss' e := by
  rw [fails_iff, fails_iff, h σ μ C]

theorem BEquiv.diverges {Φ ss ss'} (h : BEquiv Φ ss ss') {σ μ C} :
    Diverges Φ σ μ C ss ↔ Diverges Φ σ μ C ss' := by
  rw [diverges_iff, diverges_iff, h σ μ C]

end Fpy.Xform
