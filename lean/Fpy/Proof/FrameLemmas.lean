/-
Helper lemmas for the frame property of the evaluator (C18): monadic plumbing, the heap-free helpers
(`bindPat`, `evalS.walk`, `asList`), list constructions.
-/
import Fpy.Proof.Boundary
namespace Fpy.C18
open Fpy Fpy.Lang

theorem bind_ok {α β : Type} {A : M α} {B : α → M β} {r : β} (h : (A >>= B) = .ok r) : ∃ a, A = .ok a ∧ B a = .ok r := by
  cases A with
  | error e => cases h
  | ok a => exact ⟨a, rfl, h⟩

theorem map_ok {α β : Type} {A : M α} {g : α → β} {r : β} (h : (A.map g) = .ok r) : ∃ a, A = .ok a ∧ g a = r := by
  cases A with
  | error e => cases h
  | ok a => refine ⟨a, rfl, ?_⟩; cases h; rfl

/-- `bnd h with a b h1`: split `h : (do let (a, b) ← A; rest) = .ok r` into `h1 : A = .ok (a, b)` and `h : rest = .ok r` -/
syntax "bnd " ident " with " ident ident ident : tactic
macro_rules
  | `(tactic| bnd $h:ident with $a:ident $b:ident $h1:ident) =>
    `(tactic| (obtain ⟨⟨$a:ident, $b:ident⟩, $h1:ident, $h:ident⟩ := bind_ok $h; try dsimp only at $h:ident))

/-- `bnd1 h with a h1`: the same for a bind of a single value -/
syntax "bnd1 " ident " with " ident ident : tactic
macro_rules
  | `(tactic| bnd1 $h:ident with $a:ident $h1:ident) =>
    `(tactic| (obtain ⟨$a:ident, $h1:ident, $h:ident⟩ := bind_ok $h; try dsimp only at $h:ident))

theorem asList_vge {n : Nat} {μ : Heap} {v : Val} {l : List Val} (hμ : HOK n μ) (hv : VGe n v) (h : asList μ v = .ok l) : VGeL n l := by
  cases v with
  | list r => exact hok_get hμ (by simpa [VGe] using hv) (by simpa [asList] using h)
  | bool b => simp [asList] at h
  | num x => simp [asList] at h
  | ctx c => simp [asList] at h
  | tuple vs => simp [asList] at h

theorem asSeq_vge {n : Nat} {μ : Heap} {v : Val} {l : List Val} (hμ : HOK n μ) (hv : VGe n v) (h : asSeq μ v = .ok l) : VGeL n l := by
  cases v with
  | list r => exact hok_get hμ (by simpa [VGe] using hv) (by simpa [asSeq] using h)
  | bool b => simp [asSeq] at h
  | num x => simp [asSeq] at h
  | ctx c => simp [asSeq] at h
  | tuple vs => simp only [asSeq, Except.ok.injEq] at h; subst h; simpa [VGe] using hv

theorem mapM_asList_vge {n : Nat} {μ : Heap} (hμ : HOK n μ) : ∀ (vs : List Val) (ls : List (List Val)), VGeL n vs →
    vs.mapM (asList μ) = .ok ls → ∀ l ∈ ls, VGeL n l := by
  intro vs
  induction vs with
  | nil => intro ls _ h; simp [List.mapM_nil, pure, Except.pure] at h; subst h; intro l hl; cases hl
  | cons v vs ih =>
    intro ls hv h
    rw [List.mapM_cons] at h
    bnd1 h with l h1
    bnd1 h with ls' h2
    simp only [pure, Except.pure] at h
    cases h
    intro l' hl'
    rcases List.mem_cons.mp hl' with e | e
    · subst e; exact asList_vge hμ hv.1 h1
    · exact ih ls' hv.2 h2 l' e

theorem vge_intVal (n : Nat) (i : Int) : VGe n (intVal i) := by simp [intVal, VGe]

theorem vgeL_map_intVal (n : Nat) (l : List Nat) (a st : Int) : VGeL n (l.map (fun (i : Nat) => intVal (a + st * (i : Int)))) := by
  rw [vgeL_iff]; intro v hv
  obtain ⟨i, _, rfl⟩ := List.mem_map.mp hv
  exact vge_intVal n _

theorem vge_tuple {n : Nat} {vs : List Val} (h : VGeL n vs) : VGe n (.tuple vs) := by simpa [VGe] using h

theorem vgeL_zipRows {n : Nat} (ls : List (List Val)) (hls : ∀ l ∈ ls, VGeL n l) (m : Nat) :
    VGeL n ((List.range m).map (fun i => Val.tuple (ls.filterMap (fun l => l[i]?)))) := by
  rw [vgeL_iff]; intro v hv
  obtain ⟨i, _, rfl⟩ := List.mem_map.mp hv
  apply vge_tuple
  rw [vgeL_iff]; intro w hw
  obtain ⟨l, hl, hget⟩ := List.mem_filterMap.mp hw
  exact vgeL_getElem? (hls l hl) hget

theorem vgeL_enumRows {n : Nat} {l : List Val} (hl : VGeL n l) (m : Nat) :
    VGeL n ((List.range m).filterMap (fun (i : Nat) => (l[i]?).map (fun x => Val.tuple [intVal (i : Int), x]))) := by
  rw [vgeL_iff]; intro v hv
  obtain ⟨i, _, hget⟩ := List.mem_filterMap.mp hv
  cases hx : l[i]? with
  | none => rw [hx] at hget; cases hget
  | some x =>
    rw [hx] at hget; simp at hget; subst hget
    apply vge_tuple
    exact ⟨vge_intVal n _, vgeL_getElem? hl hx, trivial⟩

/-- pattern matching binds (parts of) the matched value -/
theorem bindPat_eok (n : Nat) : ∀ (f : Nat),
    (∀ p v σ σ', EOK n σ → VGe n v → bindPat f p v σ = .ok σ' → EOK n σ') ∧
    (∀ ps vs σ σ', EOK n σ → VGeL n vs → bindPat.go f ps vs σ = .ok σ' → EOK n σ') := by
  intro f
  induction f with
  | zero =>
    constructor
    · intro p v σ σ' _ _ h; simp [bindPat] at h
    · intro ps vs σ σ' hσ hv h
      induction ps generalizing vs σ with
      | nil => simp only [bindPat.go] at h; cases h; exact hσ
      | cons p ps ih =>
        cases vs with
        | nil => simp only [bindPat.go] at h; cases h; exact hσ
        | cons v vs =>
          simp only [bindPat.go] at h
          bnd1 h with σ1 h1
          simp [bindPat] at h1
  | succ f ih =>
    obtain ⟨ih1, ih2⟩ := ih
    have hp : ∀ p v σ σ', EOK n σ → VGe n v → bindPat (f + 1) p v σ = .ok σ' → EOK n σ' := by
      intro p v σ σ' hσ hv h
      cases p with
      | var x => simp only [bindPat] at h; cases h; exact eok_set hσ hv
      | wild => simp only [bindPat] at h; cases h; exact hσ
      | tup ps =>
        cases v with
        | tuple vs =>
          simp only [bindPat] at h
          split at h
          · cases h
          · exact ih2 ps vs σ σ' hσ (by simpa [VGe] using hv) h
        | bool b => simp [bindPat] at h
        | num x => simp [bindPat] at h
        | ctx c => simp [bindPat] at h
        | list r => simp [bindPat] at h
    refine ⟨hp, ?_⟩
    intro ps
    induction ps with
    | nil => intro vs σ σ' hσ _ h; simp only [bindPat.go] at h; cases h; exact hσ
    | cons p ps ihp =>
      intro vs σ σ' hσ hv h
      cases vs with
      | nil => simp only [bindPat.go] at h; cases h; exact hσ
      | cons v vs =>
        simp only [bindPat.go] at h
        bnd1 h with σ1 h1
        exact ihp vs σ1 σ' (hp p v σ σ1 hσ hv.1 h1) hv.2 h

/-- the cell an indexed assignment writes is reachable from the variable's value -/
theorem walk_ge {n : Nat} {μ : Heap} (hμ : HOK n μ) : ∀ (ks : List Nat) (base : Val) (r k : Nat), VGe n base →
    evalS.walk μ base ks = .ok (r, k) → n ≤ r := by
  intro ks
  induction ks with
  | nil => intro base r k _ h; cases base <;> simp [evalS.walk] at h
  | cons k0 ks ih =>
    intro base r k hb h
    cases base with
    | list r0 =>
      cases ks with
      | nil =>
        simp only [evalS.walk] at h
        cases h
        simpa [VGe] using hb
      | cons k1 ks' =>
        simp only [evalS.walk] at h
        bnd1 h with l h1
        split at h
        · rename_i sub hsub
          have hl : VGeL n l := hok_get hμ (by simpa [VGe] using hb) h1
          exact ih sub r k (vgeL_getElem? hl hsub) h
        · cases h
    | bool b => simp [evalS.walk] at h
    | num x => simp [evalS.walk] at h
    | ctx c => simp [evalS.walk] at h
    | tuple vs => simp [evalS.walk] at h

end Fpy.C18
