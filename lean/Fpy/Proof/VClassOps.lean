/-
Soundness of the remaining value-class rules: `_map` tables (`logb`), the Min/Max join,
and the branch refinements of `_implied` / `_implied_compare`.
-/
import Fpy.Proof.VClass
namespace Fpy.C13
open Fpy VC

/-! ### `_map` -/

theorem mapTable_has (t : Cls → VC) (a : VC) (c d : Cls) (hc : a.has c = true) (hd : (t c).has d = true) :
    (mapTable t a).has d = true := by
  obtain ⟨a1, a2, a3, a4⟩ := a
  unfold mapTable
  cases c <;> simp only [VC.has] at hc <;> subst hc
  · refine has_join_left (has_join_left (has_join_left ?_))
    simpa [VC.truthy, HAnd.hAnd, AndOp.and, VC.meet, NAN] using hd
  · refine has_join_left (has_join_left (has_join_right ?_))
    simpa [VC.truthy, HAnd.hAnd, AndOp.and, VC.meet, INF] using hd
  · refine has_join_left (has_join_right ?_)
    simpa [VC.truthy, HAnd.hAnd, AndOp.and, VC.meet, ZERO] using hd
  · refine has_join_right ?_
    simpa [VC.truthy, HAnd.hAnd, AndOp.and, VC.meet, FINITE] using hd

theorem logb_atoms (v : FV) : (logbTable (classOf v)).has (classOf (logbFV v)) = true := by
  cases v with
  | nan s => rfl
  | inf s => rfl
  | fin x =>
    by_cases hx : x.c = 0
    · rw [classOf_fin_zero hx]; simp [logbFV, hx]; decide
    · rw [classOf_fin_nz hx]
      have : logbFV (.fin x) = .fin (RF.ofInt x.e) := by simp [logbFV, hx]
      rw [this]
      rcases classOf_fin_cases (RF.ofInt x.e) with h | h <;> rw [h] <;> decide

/-! ### Min / Max -/

theorem minMax_foldl_mono (as : List VC) (acc : VC) (c : Cls) (h : acc.has c = true) :
    (as.foldl (· ||| ·) acc).has c = true := by
  induction as generalizing acc with
  | nil => exact h
  | cons a as ih => exact ih _ (has_join_left h)

theorem minMax_foldl_mem (as : List VC) (acc : VC) (a : VC) (c : Cls) (ha : a ∈ as) (h : a.has c = true) :
    (as.foldl (· ||| ·) acc).has c = true := by
  induction as generalizing acc with
  | nil => cases ha
  | cons b as ih =>
    simp only [List.foldl]
    rcases List.mem_cons.mp ha with rfl | hm
    · exact minMax_foldl_mono as _ c (has_join_right h)
    · exact ih _ hm

/-! ### refinement: class tests -/

/-- `ops.isfinite` on a Float -/
def fvIsFinite (v : FV) : Bool := !v.isNar

theorem implied_isnan (v : FV) (truth : Bool) (h : v.isNan = truth) :
    ∀ m, impliedPred .isnan truth = some m → m.has (classOf v) = true := by
  intro m hm; simp only [impliedPred] at hm; injection hm with hm; subst hm; subst h
  cases v with
  | fin x => rcases classOf_fin_cases x with h | h <;> simp [FV.isNan, h] <;> decide
  | _ => simp [FV.isNan]; decide

theorem implied_isinf (v : FV) (truth : Bool) (h : v.isInf = truth) :
    ∀ m, impliedPred .isinf truth = some m → m.has (classOf v) = true := by
  intro m hm; simp only [impliedPred] at hm; injection hm with hm; subst hm; subst h
  cases v with
  | fin x => rcases classOf_fin_cases x with h | h <;> simp [FV.isInf, h] <;> decide
  | _ => simp [FV.isInf]; decide

theorem implied_isfinite (v : FV) (truth : Bool) (h : fvIsFinite v = truth) :
    ∀ m, impliedPred .isfinite truth = some m → m.has (classOf v) = true := by
  intro m hm; simp only [impliedPred] at hm; injection hm with hm; subst hm; subst h
  cases v with
  | fin x => rcases classOf_fin_cases x with h | h <;> simp [fvIsFinite, FV.isNar, h] <;> decide
  | _ => simp [fvIsFinite, FV.isNar]; decide

/-! ### refinement: comparisons -/

theorem nvCompare_nan_left (s : Bool) (y : NV) : nvCompare (.fv (.nan s)) y = none := by
  cases y with
  | fv v => simp [nvCompare, FV.compare]
  | q n d => simp [nvCompare, nvIsNan, FV.isNan]

theorem nvCompare_nan_right (x : NV) (s : Bool) : nvCompare x (.fv (.nan s)) = none := by
  cases x with
  | fv v => cases v <;> simp [nvCompare, FV.compare]
  | q n d => simp [nvCompare, nvIsNan, FV.isNan]

/-- a comparison other than `!=` that holds has no NaN on either side -/
theorem cmp_true_not_nan (op : CmpOp) (x y : NV) (hop : op ≠ .ne) (h : cmpHolds op x y = true) :
    classOfNV x ≠ .nan ∧ classOfNV y ≠ .nan := by
  constructor
  · intro hx
    cases x with
    | q n d => simp only [classOfNV] at hx; split at hx <;> cases hx
    | fv v =>
      cases v with
      | nan s =>
        simp only [cmpHolds, nvCompare_nan_left] at h
        cases op <;> simp_all
      | inf s => simp [classOfNV] at hx
      | fin r => rcases classOf_fin_cases r with h' | h' <;> simp [classOfNV, h'] at hx
  · intro hy
    cases y with
    | q n d => simp only [classOfNV] at hy; split at hy <;> cases hy
    | fv v =>
      cases v with
      | nan s =>
        simp only [cmpHolds, nvCompare_nan_right] at h
        cases op <;> simp_all
      | inf s => simp [classOfNV] at hy
      | fin r => rcases classOf_fin_cases r with h' | h' <;> simp [classOfNV, h'] at hy

theorem not_nan_has (c : Cls) (h : c ≠ .nan) : ((INF ||| ZERO) ||| FINITE).has c = true := by
  cases c <;> first | decide | exact absurd rfl h

/-- equality with a finite value: zero iff the other is (Float operands) -/
theorem rf_compare_eq_zero_iff (x l : RF) (h : RF.compare x l = .eq) : (x.c = 0 ↔ l.c = 0) := by
  unfold RF.compare at h
  by_cases hx : x.c = 0 <;> by_cases hl : l.c = 0 <;> simp [hx, hl] at h ⊢
  · split at h <;> cases h
  · split at h <;> cases h

theorem fv_eq_fin_class (x : FV) (l : RF) (h : FV.compare x (.fin l) = some .eq) :
    classOf x = classOf (.fin l) := by
  cases x with
  | nan s => simp [FV.compare] at h
  | inf s => simp only [FV.compare] at h; split at h <;> cases h
  | fin r =>
    simp only [FV.compare, Option.some.injEq] at h
    have := rf_compare_eq_zero_iff r l h
    by_cases hl : l.c = 0
    · rw [classOf_fin_zero hl, classOf_fin_zero (this.mpr hl)]
    · rw [classOf_fin_nz hl, classOf_fin_nz (fun hr => hl (this.mp hr))]

theorem fv_eq_fin_class' (x : FV) (l : RF) (h : FV.compare (.fin l) x = some .eq) :
    classOf x = classOf (.fin l) := by
  cases x with
  | nan s => simp [FV.compare] at h
  | inf s => simp only [FV.compare] at h; split at h <;> cases h
  | fin r =>
    simp only [FV.compare, Option.some.injEq] at h
    have := rf_compare_eq_zero_iff l r h
    by_cases hl : l.c = 0
    · rw [classOf_fin_zero hl, classOf_fin_zero (this.mp hl)]
    · rw [classOf_fin_nz hl, classOf_fin_nz (fun hr => hl (this.mpr hr))]

end Fpy.C13
