/-
Helper lemmas for C14: soundness of `AbstractFormat`'s operators on finite members
(`+`, unary `-`, `abs`, `|`, `<=`).  The product is in `AbsFmtMul.lean`.
-/
import Fpy.Proof.AbsFmt
namespace Fpy
open RF
namespace AbsFmt

/-! ### `__add__` -/

theorem add_eq_ok {a b c : AbsFmt} (h : a.add b = .ok c) :
    ∃ prec, sumPrec (a.pos.add b.pos) (a.neg.add b.neg) (expMin a.exp b.exp) = .ok prec ∧
      c = { prec := prec, exp := expMin a.exp b.exp, pos := a.pos.add b.pos, neg := a.neg.add b.neg,
            posInf := a.posInf || b.posInf, negInf := a.negInf || b.negInf,
            nan := a.nan || b.nan || (a.posInf && b.negInf) || (a.negInf && b.posInf),
            negZero := a.negZero && b.negZero } := by
  unfold AbsFmt.add at h
  simp only [bind, Except.bind, pure, Except.pure] at h
  split at h
  · cases h
  · rename_i prec hp
    cases h
    exact ⟨prec, hp, rfl⟩

/-- the precision `__add__` computes suffices for every multiple of `2^E` within the new bounds -/
theorem sumPrec_sound (pos neg : Bnd) (E : Option Int) (prec : Option Nat) (g : Int) (R : Int)
    (h : sumPrec pos neg E = .ok prec) (hp : pos.okAt g) (hn : neg.okAt g) (hg : g ≤ olvl E)
    (hub : pos.ub g R) (hlb : neg.lb g R) (hm : ∀ e, E = some e → IMul e g R) : IW prec E g R := by
  unfold sumPrec at h
  split at h
  · -- finite bounds and exponent
    rename_i P N e
    split at h
    · cases h
    · rename_i mb hmb
      cases h
      simp only [olvl] at hg
      obtain ⟨k, hk⟩ := hm e rfl
      have hNabs : N.abs.okAt g := abs_okAt hn
      have hM := max2_sc P N.abs g hp hNabs
      have hnorm := normalize_sc _ mb e hmb g hM.1 hg
      simp only [Bnd.ub, Bnd.lb] at hub hlb
      have habs := abs_sc_ge N g
      -- |R| ≤ value of the normalised largest bound = mb.c · 2^(e - g)
      have hR1 : R ≤ mb.sc g := by rw [hnorm.2.2]; omega
      have hR2 : -R ≤ mb.sc g := by rw [hnorm.2.2]; omega
      have hmag : R.natAbs ≤ (mb.sc g).natAbs := by omega
      rw [natAbs_sc] at hmag
      unfold mag at hmag
      rw [hnorm.1, hk, natAbs_mul_pow] at hmag
      have hkc : k.natAbs ≤ mb.c := Nat.le_of_mul_le_mul_right hmag (Nat.pow_pos (by decide))
      refine IW_of_mul _ e g R k hg hk (fun p hpp => ?_)
      cases hpp
      exact Nat.lt_of_le_of_lt hkc (lt_two_pow_max mb.c)
  · cases h
    cases E with
    | none => exact IW_free g R
    | some e =>
      simp only [olvl] at hg
      obtain ⟨k, hk⟩ := hm e rfl
      exact IW_of_mul none e g R k hg hk nofun

theorem expMin_some {a b : Option Int} {e : Int} (h : expMin a b = some e) :
    ∃ ea eb, a = some ea ∧ b = some eb ∧ e = min ea eb := by
  cases a <;> cases b <;> simp [expMin] at h
  exact ⟨_, _, rfl, rfl, h.symm⟩

/-- **sum of finite members** -/
theorem add_fin (a b c : AbsFmt) (ha : a.WF) (hb : b.WF) (h : a.add b = .ok c) (x y : RF)
    (hx : a.finMem x) (hy : b.finMem y) : c.finMem (x.add y) := by
  obtain ⟨prec, hprec, hc⟩ := add_eq_ok h
  -- a scale below every exponent in sight
  let g : Int := min (min (min x.exp y.exp) (min a.pos.lvl a.neg.lvl)) (min (min b.pos.lvl b.neg.lvl) (min (olvl a.exp) (olvl b.exp)))
  have hgx : x.okAt g := Or.inr (by omega)
  have hgy : y.okAt g := Or.inr (by omega)
  have hap := Bnd.okAt_of_le_lvl a.pos g (by omega)
  have han := Bnd.okAt_of_le_lvl a.neg g (by omega)
  have hbp := Bnd.okAt_of_le_lvl b.pos g (by omega)
  have hbn := Bnd.okAt_of_le_lvl b.neg g (by omega)
  have fa := mem_facts a ha x g hx hgx hap han
  have fb := mem_facts b hb y g hy hgy hbp hbn
  have hsum := add_sc x y g hgx hgy
  have hub := Bnd.add_ub a.pos b.pos g _ _ hap hbp fa.2.1 fb.2.1
  have hlb := Bnd.add_lb a.neg b.neg g _ _ han hbn fa.1 fb.1
  by_cases hrc : (x.add y).c = 0
  · rw [finMem_zero _ _ hrc]
    intro hs
    obtain ⟨hx0, hxs, hy0, hys⟩ := add_neg_zero x y hrc hs
    have h1 := (finMem_zero a x hx0).1 hx hxs
    have h2 := (finMem_zero b y hy0).1 hy hys
    rw [hc]; simp [h1, h2]
  · have hgr : g ≤ (x.add y).exp := by rcases hsum.1 with hh | hh; exact absurd hh hrc; exact hh
    have hcp : c.pos.okAt g := by rw [hc]; exact hub.1
    have hcn : c.neg.okAt g := by rw [hc]; exact hlb.1
    rw [finMem_iff c _ g hrc hgr hcp hcn, hsum.2]
    refine ⟨?_, by rw [hc]; exact hlb.2, by rw [hc]; exact hub.2⟩
    have hcprec : c.prec = prec := by rw [hc]
    have hcexp : c.exp = expMin a.exp b.exp := by rw [hc]
    rw [hcprec, hcexp]
    apply sumPrec_sound _ _ _ _ g _ hprec hub.1 hlb.1 ?_ hub.2 hlb.2
    · intro e he
      obtain ⟨ea, eb, hea, heb, hmin⟩ := expMin_some he
      have hga : g ≤ ea := by have : olvl a.exp = ea := by rw [hea]; rfl
                              omega
      have hgb : g ≤ eb := by have : olvl b.exp = eb := by rw [heb]; rfl
                              omega
      have m1 := IMul_weaken (fa.2.2.1 ea hea hga) (by omega : g ≤ e) (by omega)
      have m2 := IMul_weaken (fb.2.2.1 eb heb hgb) (by omega : g ≤ e) (by omega)
      exact IMul_add m1 m2
    · cases hE : expMin a.exp b.exp with
      | none =>
        have : olvl a.exp = 0 ∨ olvl b.exp = 0 := by
          cases h1 : a.exp <;> cases h2 : b.exp <;> simp [h1, h2, expMin, olvl] at hE ⊢
        simp only [olvl]; omega
      | some e =>
        obtain ⟨ea, eb, hea, heb, hmin⟩ := expMin_some hE
        have : olvl a.exp = ea := by rw [hea]; rfl
        have : olvl b.exp = eb := by rw [heb]; rfl
        simp only [olvl]; omega


/-! ### `__sub__` -/

theorem sub_eq_ok {a b c : AbsFmt} (h : a.sub b = .ok c) :
    ∃ prec, sumPrec (if a.pos.sub b.neg = .nan then .inf false else a.pos.sub b.neg)
        (if a.neg.sub b.pos = .nan then .inf true else a.neg.sub b.pos) (expMin a.exp b.exp) = .ok prec ∧
      c = { prec := prec, exp := expMin a.exp b.exp,
            pos := if a.pos.sub b.neg = .nan then .inf false else a.pos.sub b.neg,
            neg := if a.neg.sub b.pos = .nan then .inf true else a.neg.sub b.pos,
            posInf := a.posInf || b.negInf, negInf := a.negInf || b.posInf,
            nan := a.nan || b.nan || (a.posInf && b.posInf) || (a.negInf && b.negInf),
            negZero := a.negZero } := by
  unfold AbsFmt.sub at h
  simp only [bind, Except.bind, pure, Except.pure] at h
  split at h
  · cases h
  · rename_i prec hp
    cases h
    exact ⟨prec, hp, rfl⟩

theorem ub_ne_nan {b : Bnd} {g X : Int} (h : b.ub g X) : b ≠ .nan := by
  intro h0; rw [h0] at h; exact h

theorem lb_ne_nan {b : Bnd} {g X : Int} (h : b.lb g X) : b ≠ .nan := by
  intro h0; rw [h0] at h; exact h

/-- **difference of finite members** -/
theorem sub_fin (a b c : AbsFmt) (ha : a.WF) (hb : b.WF) (h : a.sub b = .ok c) (x y : RF)
    (hx : a.finMem x) (hy : b.finMem y) : c.finMem (x.sub y) := by
  obtain ⟨prec, hprec, hc⟩ := sub_eq_ok h
  let g : Int := min (min (min x.exp y.exp) (min a.pos.lvl a.neg.lvl)) (min (min b.pos.lvl b.neg.lvl) (min (olvl a.exp) (olvl b.exp)))
  have hgx : x.okAt g := Or.inr (by omega)
  have hgy : y.okAt g := Or.inr (by omega)
  have hap := Bnd.okAt_of_le_lvl a.pos g (by omega)
  have han := Bnd.okAt_of_le_lvl a.neg g (by omega)
  have hbp := Bnd.okAt_of_le_lvl b.pos g (by omega)
  have hbn := Bnd.okAt_of_le_lvl b.neg g (by omega)
  have fa := mem_facts a ha x g hx hgx hap han
  have fb := mem_facts b hb y g hy hgy hbp hbn
  have hdiff := sub_sc x y g hgx hgy
  have hub := Bnd.add_ub a.pos b.neg.neg g _ _ hap (Bnd.neg_okAt hbn) fa.2.1 (Bnd.neg_ub_of_lb _ _ _ fb.1)
  have hlb := Bnd.add_lb a.neg b.pos.neg g _ _ han (Bnd.neg_okAt hbp) fa.1 (Bnd.neg_lb_of_ub _ _ _ fb.2.1)
  have e1 : x.sc g + -y.sc g = x.sc g - y.sc g := by omega
  rw [e1] at hub hlb
  have hpn : a.pos.sub b.neg ≠ .nan := ub_ne_nan hub.2
  have hnn : a.neg.sub b.pos ≠ .nan := lb_ne_nan hlb.2
  simp only [hpn, hnn, if_false] at hprec hc
  by_cases hrc : (x.sub y).c = 0
  · rw [finMem_zero _ _ hrc]
    intro hs
    obtain ⟨hx0, hxs, _, _⟩ := add_neg_zero x y.neg hrc hs
    have h1 := (finMem_zero a x hx0).1 hx hxs
    rw [hc]; exact h1
  · have hgr : g ≤ (x.sub y).exp := by rcases hdiff.1 with hh | hh; exact absurd hh hrc; exact hh
    have hcp : c.pos.okAt g := by rw [hc]; exact hub.1
    have hcn : c.neg.okAt g := by rw [hc]; exact hlb.1
    rw [finMem_iff c _ g hrc hgr hcp hcn, hdiff.2]
    refine ⟨?_, by rw [hc]; exact hlb.2, by rw [hc]; exact hub.2⟩
    have hcprec : c.prec = prec := by rw [hc]
    have hcexp : c.exp = expMin a.exp b.exp := by rw [hc]
    rw [hcprec, hcexp]
    apply sumPrec_sound _ _ _ _ g _ hprec hub.1 hlb.1 ?_ hub.2 hlb.2
    · intro e he
      obtain ⟨ea, eb, hea, heb, hmin⟩ := expMin_some he
      have hga : g ≤ ea := by have : olvl a.exp = ea := by rw [hea]; rfl
                              omega
      have hgb : g ≤ eb := by have : olvl b.exp = eb := by rw [heb]; rfl
                              omega
      have m1 := IMul_weaken (fa.2.2.1 ea hea hga) (by omega : g ≤ e) (by omega)
      have m2 := IMul_weaken (fb.2.2.1 eb heb hgb) (by omega : g ≤ e) (by omega)
      have := IMul_add m1 (IMul_neg m2)
      rw [e1] at this; exact this
    · cases hE : expMin a.exp b.exp with
      | none =>
        have : olvl a.exp = 0 ∨ olvl b.exp = 0 := by
          cases h1 : a.exp <;> cases h2 : b.exp <;> simp [h1, h2, expMin, olvl] at hE ⊢
        simp only [olvl]; omega
      | some e =>
        obtain ⟨ea, eb, hea, heb, hmin⟩ := expMin_some hE
        have : olvl a.exp = ea := by rw [hea]; rfl
        have : olvl b.exp = eb := by rw [heb]; rfl
        simp only [olvl]; omega

/-! ### `__neg__` -/

/-- negation of a finite member — except that `-(+0) = -0` needs `has_neg_zero` -/
theorem neg_fin (a : AbsFmt) (x : RF) (hx : a.finMem x)
    (hz : x.c = 0 → x.s = false → a.negZero = true) : a.neg'.finMem x.neg := by
  by_cases hc : x.c = 0
  · have hc' : x.neg.c = 0 := hc
    rw [finMem_zero _ _ hc']
    intro hs
    have : x.s = false := by simpa [RF.neg] using hs
    exact hz hc this
  · have hc' : x.neg.c ≠ 0 := hc
    let g : Int := min x.exp (min a.pos.lvl a.neg.lvl)
    have hgx : g ≤ x.exp := by omega
    have hap := Bnd.okAt_of_le_lvl a.pos g (by omega)
    have han := Bnd.okAt_of_le_lvl a.neg g (by omega)
    have := (finMem_iff a x g hc hgx hap han).1 hx
    have hgx' : g ≤ x.neg.exp := hgx
    rw [finMem_iff a.neg' x.neg g hc' hgx' (Bnd.neg_okAt han) (Bnd.neg_okAt hap), neg_sc]
    exact ⟨IW_neg this.1, Bnd.neg_lb_of_ub _ _ _ this.2.2, Bnd.neg_ub_of_lb _ _ _ this.2.1⟩

/-! ### `__abs__` -/

/-- absolute value of a finite member -/
theorem abs_fin (a : AbsFmt) (x : RF) (hx : a.finMem x) : a.abs'.finMem x.abs := by
  by_cases hc : x.c = 0
  · have hc' : x.abs.c = 0 := hc
    rw [finMem_zero _ _ hc']
    intro hs; simp [RF.abs] at hs
  · have hc' : x.abs.c ≠ 0 := hc
    let g : Int := min x.exp (min a.pos.lvl a.neg.lvl)
    have hgx : g ≤ x.exp := by omega
    have hap := Bnd.okAt_of_le_lvl a.pos g (by omega)
    have han := Bnd.okAt_of_le_lvl a.neg g (by omega)
    have hm := (finMem_iff a x g hc hgx hap han).1 hx
    have hgx' : g ≤ x.abs.exp := hgx
    have hzero : (Bnd.fin (RF.ofInt 0)).okAt g := Or.inl rfl
    have hpn : a.pos ≠ .nan := by intro h; rw [h] at hm; exact hm.2.2
    have hnn := abs_sc_nonneg x g
    -- the new upper bound max(pos_bound, -neg_bound) covers |x|
    have hub : (Bnd.max2 a.pos a.neg.neg).okAt g ∧ (Bnd.max2 a.pos a.neg.neg).ub g (x.abs.sc g) := by
      cases hs : x.s
      · rw [abs_sc_of_pos x g hs]
        exact Bnd.max2_ub _ _ g _ hap (Bnd.neg_okAt han) hpn (Or.inl hm.2.2)
      · rw [abs_sc_of_neg x g hs]
        exact Bnd.max2_ub _ _ g _ hap (Bnd.neg_okAt han) hpn (Or.inr (Bnd.neg_ub_of_lb _ _ _ hm.2.1))
    rw [finMem_iff a.abs' x.abs g hc' hgx' hub.1 hzero]
    refine ⟨?_, ?_, hub.2⟩
    · cases hs : x.s
      · rw [abs_sc_of_pos x g hs]; exact hm.1
      · rw [abs_sc_of_neg x g hs]; exact IW_neg hm.1
    · show (RF.ofInt 0).sc g ≤ x.abs.sc g
      rw [ofInt_zero_sc]; exact hnn

/-! ### `__or__` -/

theorem precMax_weaken_left (p q : Option Nat) : ∀ q', precMax p q = some q' → ∃ r, p = some r ∧ r ≤ q' := by
  intro q' h
  cases p <;> cases q <;> simp [precMax] at h
  exact ⟨_, rfl, by omega⟩

theorem precMax_weaken_right (p q : Option Nat) : ∀ q', precMax p q = some q' → ∃ r, q = some r ∧ r ≤ q' := by
  intro q' h
  cases p <;> cases q <;> simp [precMax] at h
  exact ⟨_, rfl, by omega⟩

theorem expMin_weaken_left (p q : Option Int) : ∀ e', expMin p q = some e' → ∃ e, p = some e ∧ e' ≤ e := by
  intro q' h
  cases p <;> cases q <;> simp [expMin] at h
  exact ⟨_, rfl, by omega⟩

theorem expMin_weaken_right (p q : Option Int) : ∀ e', expMin p q = some e' → ∃ e, q = some e ∧ e' ≤ e := by
  intro q' h
  cases p <;> cases q <;> simp [expMin] at h
  exact ⟨_, rfl, by omega⟩

theorem union_fin_left (a b : AbsFmt) (x : RF) (hx : a.finMem x) : (a.union b).finMem x := by
  by_cases hc : x.c = 0
  · rw [finMem_zero _ _ hc] at *
    intro hs; simp [AbsFmt.union, hx hs]
  · let g : Int := min x.exp (min (min a.pos.lvl a.neg.lvl) (min b.pos.lvl b.neg.lvl))
    have hgx : g ≤ x.exp := by omega
    have hap := Bnd.okAt_of_le_lvl a.pos g (by omega)
    have han := Bnd.okAt_of_le_lvl a.neg g (by omega)
    have hbp := Bnd.okAt_of_le_lvl b.pos g (by omega)
    have hbn := Bnd.okAt_of_le_lvl b.neg g (by omega)
    have hm := (finMem_iff a x g hc hgx hap han).1 hx
    have hpn : a.pos ≠ .nan := by intro h; rw [h] at hm; exact hm.2.2
    have hnn : a.neg ≠ .nan := by intro h; rw [h] at hm; exact hm.2.1
    have hu := Bnd.max2_ub a.pos b.pos g _ hap hbp hpn (Or.inl hm.2.2)
    have hl := Bnd.min2_lb a.neg b.neg g _ han hbn hnn (Or.inl hm.2.1)
    rw [finMem_iff (a.union b) x g hc hgx hu.1 hl.1]
    exact ⟨IW_weaken hm.1 (precMax_weaken_left _ _) (expMin_weaken_left _ _), hl.2, hu.2⟩

theorem union_fin_right (a b : AbsFmt) (ha : a.pos ≠ .nan ∧ a.neg ≠ .nan) (x : RF) (hx : b.finMem x) :
    (a.union b).finMem x := by
  by_cases hc : x.c = 0
  · rw [finMem_zero _ _ hc] at *
    intro hs; simp [AbsFmt.union, hx hs]
  · let g : Int := min x.exp (min (min a.pos.lvl a.neg.lvl) (min b.pos.lvl b.neg.lvl))
    have hgx : g ≤ x.exp := by omega
    have hap := Bnd.okAt_of_le_lvl a.pos g (by omega)
    have han := Bnd.okAt_of_le_lvl a.neg g (by omega)
    have hbp := Bnd.okAt_of_le_lvl b.pos g (by omega)
    have hbn := Bnd.okAt_of_le_lvl b.neg g (by omega)
    have hm := (finMem_iff b x g hc hgx hbp hbn).1 hx
    have hu := Bnd.max2_ub a.pos b.pos g _ hap hbp ha.1 (Or.inr hm.2.2)
    have hl := Bnd.min2_lb a.neg b.neg g _ han hbn ha.2 (Or.inr hm.2.1)
    rw [finMem_iff (a.union b) x g hc hgx hu.1 hl.1]
    exact ⟨IW_weaken hm.1 (precMax_weaken_right _ _) (expMin_weaken_right _ _), hl.2, hu.2⟩

/-! ### `__le__` -/

theorem expGt_false {a b : Option Int} (h : expGt b a = false) :
    ∀ eb, b = some eb → ∃ ea, a = some ea ∧ eb ≤ ea := by
  intro eb hb
  cases a <;> cases b <;> simp [expGt] at h hb
  subst hb
  exact ⟨_, rfl, h⟩

theorem ub_of_not_lt (u v : Bnd) (g : Int) (X : Int) (hu : u.okAt g) (hv : v.okAt g) (hn : v ≠ .nan)
    (h : Bnd.lt v u = false) (hx : u.ub g X) : v.ub g X := by
  cases u with
  | nan => simp [Bnd.ub] at hx
  | fin p =>
    cases v with
    | nan => exact absurd rfl hn
    | fin q =>
      have : ¬ q.sc g < p.sc g := fun c => by
        have := (Bnd.lt_fin_iff q p g hv hu).2 c; rw [h] at this; cases this
      simp only [Bnd.ub] at *; omega
    | inf t => cases t with
      | false => rfl
      | true => have : Bnd.lt (.inf true) (.fin p) = true := rfl
                rw [h] at this; cases this
  | inf s =>
    simp only [Bnd.ub] at hx; subst hx
    cases v with
    | nan => exact absurd rfl hn
    | fin q => have : Bnd.lt (.fin q) (.inf false) = true := rfl
               rw [h] at this; cases this
    | inf t => cases t with
      | false => rfl
      | true => have : Bnd.lt (.inf true) (.inf false) = true := rfl
                rw [h] at this; cases this

theorem lb_of_not_gt (u v : Bnd) (g : Int) (X : Int) (hu : u.okAt g) (hv : v.okAt g) (hn : v ≠ .nan)
    (h : Bnd.gt v u = false) (hx : u.lb g X) : v.lb g X := by
  cases u with
  | nan => simp [Bnd.lb] at hx
  | fin p =>
    cases v with
    | nan => exact absurd rfl hn
    | fin q =>
      have : ¬ p.sc g < q.sc g := fun c => by
        have := (Bnd.gt_fin_iff q p g hv hu).2 c; rw [h] at this; cases this
      simp only [Bnd.lb] at *; omega
    | inf t => cases t with
      | true => rfl
      | false => have : Bnd.gt (.inf false) (.fin p) = true := rfl
                 rw [h] at this; cases this
  | inf s =>
    simp only [Bnd.lb] at hx; subst hx
    cases v with
    | nan => exact absurd rfl hn
    | fin q => have : Bnd.gt (.fin q) (.inf true) = true := rfl
               rw [h] at this; cases this
    | inf t => cases t with
      | true => rfl
      | false => have : Bnd.gt (.inf false) (.inf true) = true := rfl
                 rw [h] at this; cases this

theorem cutoff_sc (ea g : Int) (pb : Nat) (hg : g ≤ ea) :
    (⟨false, ea, 2 ^ pb⟩ : RF).sc g = 2 ^ pb * 2 ^ (ea - g).toNat := by
  unfold sc; simp [Int.natCast_pow]

/-- the precision test of `_is_contained_in`, once entered, is sound -/
theorem precFits_sound (a : AbsFmt) (pb : Nat) (hpb : pb ≠ 0) (g X : Int)
    (hap : a.pos.okAt g) (han : a.neg.okAt g) (hg : g ≤ olvl a.exp)
    (hfit : precFits a pb = true) (hw : IW a.prec a.exp g X) (hlb : a.neg.lb g X) (hub : a.pos.ub g X)
    (E' : Option Int) (hE : ∀ e', E' = some e' → ∃ e, a.exp = some e ∧ e' ≤ e) : IW (some pb) E' g X := by
  unfold precFits at hfit
  by_cases hgt : precGt a.prec (some pb) = true
  · rw [if_pos hgt] at hfit
    cases hae : a.exp with
    | none => rw [hae] at hfit; cases hfit
    | some ea =>
      rw [hae] at hfit hw
      simp only [hae, olvl] at hg
      simp only at hfit
      cases hpos : a.pos with
      | nan => rw [hpos] at hub; exact absurd hub (by simp [Bnd.ub])
      | inf s => rw [hpos] at hfit; simp [Bnd.isFloat] at hfit
      | fin P =>
        cases hneg : a.neg with
        | nan => rw [hneg] at hlb; exact absurd hlb (by simp [Bnd.lb])
        | inf s => rw [hneg] at hfit; simp [Bnd.isFloat] at hfit
        | fin N =>
          rw [hpos, hneg] at hfit
          rw [hpos] at hub hap; rw [hneg] at hlb han
          simp only [Bnd.isFloat, Bool.false_or, Bnd.abs] at hfit
          have hC : (⟨false, ea, 2 ^ pb⟩ : RF).okAt g := Or.inr hg
          by_cases h1 : Bnd.gt (.fin P) (.fin ⟨false, ea, 2 ^ pb⟩) = true
          · rw [if_pos h1] at hfit; cases hfit
          · rw [if_neg h1] at hfit
            by_cases h2 : Bnd.gt (.fin N.abs) (.fin ⟨false, ea, 2 ^ pb⟩) = true
            · rw [if_pos h2] at hfit; cases hfit
            · have hP : ¬ (⟨false, ea, 2 ^ pb⟩ : RF).sc g < P.sc g := fun c => h1 ((Bnd.gt_fin_iff _ _ g hap hC).2 c)
              have hN : ¬ (⟨false, ea, 2 ^ pb⟩ : RF).sc g < N.abs.sc g := fun c => h2 ((Bnd.gt_fin_iff _ _ g (abs_okAt han) hC).2 c)
              rw [cutoff_sc ea g pb hg] at hP hN
              simp only [Bnd.ub, Bnd.lb] at hub hlb
              have habs := abs_sc_ge N g
              obtain ⟨k, hk⟩ := IW_IMul hw hg
              have hXle : X.natAbs ≤ ((2 ^ pb : Nat) * 2 ^ (ea - g).toNat : Int).natAbs := by
                have : (2 : Int) ^ pb * 2 ^ (ea - g).toNat = ((2 ^ pb : Nat) : Int) * 2 ^ (ea - g).toNat := by
                  rw [Int.natCast_pow]; rfl
                rw [← this]; omega
              rw [hk, natAbs_mul_pow, natAbs_mul_pow] at hXle
              have hkle : k.natAbs ≤ 2 ^ pb := by
                have := Nat.le_of_mul_le_mul_right hXle (Nat.pow_pos (by decide))
                simpa using this
              by_cases hlt : k.natAbs < 2 ^ pb
              · have := IW_of_mul (some pb) ea g X k hg hk (fun p hp => by cases hp; exact hlt)
                exact IW_weaken this (fun q' hq' => ⟨q', hq', Nat.le_refl _⟩)
                  (fun e' he' => by obtain ⟨e, h1, h2⟩ := hE e' he'; rw [hae] at h1; cases h1; exact ⟨_, rfl, h2⟩)
              · have hkeq : k.natAbs = 2 ^ pb := by omega
                refine ⟨1, ea + pb, by omega, ?_, fun p hp => ?_, fun e' he' => ?_⟩
                · rw [hk, natAbs_mul_pow, hkeq, Nat.one_mul]
                  have : (ea + (pb : Int) - g).toNat = pb + (ea - g).toNat := by omega
                  rw [this, Nat.pow_add]
                · cases hp
                  have : 2 ^ 1 ≤ 2 ^ pb := Nat.pow_le_pow_right (by decide) (by omega)
                  omega
                · obtain ⟨e, h1, h2⟩ := hE e' he'; rw [hae] at h1; cases h1; omega
  · rw [if_neg hgt] at hfit
    refine IW_weaken hw (fun q' hq' => ?_) hE
    cases hq'
    cases hp : a.prec with
    | none => rw [hp] at hgt; simp [precGt] at hgt
    | some pa => rw [hp] at hgt; simp [precGt] at hgt; exact ⟨pa, rfl, hgt⟩

theorem le_unfold {a b : AbsFmt} (h : a.le b = true) :
    specialsContainedIn a b = true ∧ expGt b.exp a.exp = false ∧ Bnd.lt b.pos a.pos = false ∧
      Bnd.gt b.neg a.neg = false ∧ (∀ pb, b.prec = some pb → precFits a pb = true) := by
  unfold AbsFmt.le at h
  cases h1 : specialsContainedIn a b <;> simp [h1] at h
  cases h2 : expGt b.exp a.exp <;> simp [h2] at h
  cases h3 : Bnd.lt b.pos a.pos <;> simp [h3] at h
  cases h4 : Bnd.gt b.neg a.neg <;> simp [h4] at h
  refine ⟨rfl, rfl, rfl, rfl, fun pb hpb => ?_⟩
  rw [hpb] at h; exact h

/-- inclusion claimed by `<=` holds for finite members -/
theorem le_fin (a b : AbsFmt) (hb : b.WF) (h : a.le b = true) (x : RF)
    (hx : a.finMem x) : b.finMem x := by
  obtain ⟨hsp, hexp, hpos, hneg, hprec⟩ := le_unfold h
  by_cases hc : x.c = 0
  · rw [finMem_zero _ _ hc] at *
    intro hs
    have := hx hs
    unfold specialsContainedIn at hsp
    cases hbz : b.negZero
    · simp [this, hbz] at hsp
    · rfl
  · let g : Int := min (min x.exp (olvl a.exp)) (min (min a.pos.lvl a.neg.lvl) (min b.pos.lvl b.neg.lvl))
    have hgx : g ≤ x.exp := by omega
    have hap := Bnd.okAt_of_le_lvl a.pos g (by omega)
    have han := Bnd.okAt_of_le_lvl a.neg g (by omega)
    have hbp := Bnd.okAt_of_le_lvl b.pos g (by omega)
    have hbn := Bnd.okAt_of_le_lvl b.neg g (by omega)
    have hm := (finMem_iff a x g hc hgx hap han).1 hx
    have hnn := wf_pos_ne_nan hb
    rw [finMem_iff b x g hc hgx hbp hbn]
    refine ⟨?_, lb_of_not_gt _ _ g _ han hbn hnn.2 hneg hm.2.1, ub_of_not_lt _ _ g _ hap hbp hnn.1 hpos hm.2.2⟩
    have hE := expGt_false hexp
    cases hbprec : b.prec with
    | none => exact IW_weaken hm.1 (fun q' hq' => by cases hq') hE
    | some pb =>
      have hpb0 : pb ≠ 0 := fun h0 => hb.2.2 (by rw [hbprec, h0])
      exact precFits_sound a pb hpb0 g _ hap han (by omega) (hprec pb hbprec) hm.1 hm.2.1 hm.2.2 b.exp hE

/-- outside the region where it skipped the precision test, the legacy `<=` agrees with today's -/
theorem leLegacy_imp_le (a b : AbsFmt) (h : a.leLegacy b = true)
    (hx : b.exp = none → ∀ pb, b.prec = some pb → precGt a.prec (some pb) = false) :
    a.le b = true := by
  unfold AbsFmt.leLegacy at h
  unfold AbsFmt.le
  cases h1 : specialsContainedIn a b <;> simp [h1] at h ⊢
  cases h2 : expGt b.exp a.exp <;> simp [h2] at h ⊢
  cases h3 : Bnd.lt b.pos a.pos <;> simp [h3] at h ⊢
  cases h4 : Bnd.gt b.neg a.neg <;> simp [h4] at h ⊢
  cases hp : b.prec with
  | none => rfl
  | some pb =>
    cases he : b.exp with
    | some eb => rw [hp, he] at h; exact h
    | none =>
      have := hx he pb hp
      simp only [precFits, this]; rfl

end AbsFmt
end Fpy
