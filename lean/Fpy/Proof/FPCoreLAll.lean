/-
C12 (round 2) — tuple assignment, and the global induction over the fuel of the source evaluator.
-/
import Fpy.Proof.FPCoreLIf
set_option linter.unusedSimpArgs false
set_option linter.unusedVariables false
set_option linter.unusedSectionVars false
namespace Fpy.C12
open Fpy Fpy.Lang

/-! ### `x0, x1, … = e` -/

theorem bindPat_tup (n : Nat) (ps : List Pat) (vs : List Val) (σ : Env) :
    bindPat (n + 1) (.tup ps) (.tuple vs) σ =
      (if ps.length != vs.length then .error .valueError else bindPat.go n ps vs σ) := by
  simp only [bindPat] <;> rfl

/-- binding distinct variables to the components of a tuple -/
theorem go_vars (n : Nat) : ∀ (xs : List String) (vs : List Val) (σ σ' : Env), xs.length = vs.length → xs.Nodup →
    bindPat.go n (xs.map Pat.var) vs σ = .ok σ' →
    ∃ g : String → Val, vs = xs.map g ∧ ∀ y, σ'.get? y = if y ∈ xs then some (g y) else σ.get? y := by
  intro xs
  induction xs with
  | nil =>
    intro vs σ σ' hlen _ h
    cases vs with
    | nil =>
      simp only [List.map_nil, bindPat.go] at h
      cases h
      exact ⟨fun _ => default, rfl, fun y => by simp⟩
    | cons v vs => simp at hlen
  | cons x xs ih =>
    intro vs σ σ' hlen hnd h
    cases vs with
    | nil => simp at hlen
    | cons v vs =>
      simp only [List.map_cons, bindPat.go] at h
      cases n with
      | zero => simp [bindPat, bind, Except.bind] at h
      | succ m =>
        rw [bindPat_var] at h
        simp only [bind, Except.bind] at h
        have hnd' := List.nodup_cons.1 hnd
        obtain ⟨g', hvs, hget⟩ := ih vs (σ.set x v) σ' (by simpa using hlen) hnd'.2 h
        refine ⟨fun y => if y = x then v else g' y, ?_, fun y => ?_⟩
        · simp only [List.map_cons, if_true]
          congr 1
          rw [hvs]
          apply List.map_congr_left
          intro y hy
          have : y ≠ x := fun e => hnd'.1 (e ▸ hy)
          simp [this]
        · rw [hget y]
          by_cases hyx : y = x
          · subst hyx
            simp [hnd'.1, get?_set_self]
          · by_cases hyxs : y ∈ xs
            · simp [hyx, hyxs]
            · simp [hyx, hyxs, get?_set_ne _ _ _ _ hyx]

section
variable (Φ : Funs) (cfg : Cfg) (hord : OrdOK cfg)
include hord

theorem stmt_tassign (f : Nat) (xs : List String) (e : LExpr) : LStmtOKAt Φ cfg (f + 1) (.tassign xs e) := by
  intro σ μ C o μ' h G K E ρ P hG hws hb hc hk hP hl hA
  rw [LStmt.toLang, evalS_assign] at h
  obtain ⟨hwe, hxT, hnd⟩ := hws
  cases h1 : evalE Φ f σ μ C e.toLang with
  | error err => rw [h1] at h; cases h
  | ok r1 =>
    obtain ⟨v, μ1⟩ := r1
    rw [h1] at h
    simp only [bind, Except.bind] at h
    obtain ⟨hm, ce⟩ := lexpr_sound Φ f e σ _ C v _ h1
    subst hm
    cases f with
    | zero => simp [evalE] at h1
    | succ g =>
      cases hbp : bindPat (g + 1) (.tup (xs.map Pat.var)) v σ with
      | error err => rw [hbp] at h; cases h
      | ok σ' =>
        rw [hbp] at h
        simp only [pure, Except.pure, Except.ok.injEq, Prod.mk.injEq] at h
        obtain ⟨rfl, rfl⟩ := h
        cases v with
        | tuple vs =>
          rw [bindPat_tup] at hbp
          split at hbp
          · cases hbp
          · next hlen =>
            have hlen' : xs.length = vs.length := by simpa using hlen
            obtain ⟨gfun, hvs, hget⟩ := go_vars g xs vs σ σ' hlen' hnd hbp
            refine ⟨HeapExt.refl _, ?_⟩
            cases K with
            | none => simp [compileLS] at hc
            | some k =>
              simp only [compileLS] at hc
              cases hc
              unfold PostL
              refine ⟨?_, fun y hy => ?_, k, rfl, fun w hw => ?_⟩
              · intro y hy
                simp only [LStmt.gamma, List.mem_append] at hy
                rw [hget y]
                by_cases hyxs : y ∈ xs
                · exact ⟨gfun y, by simp [hyxs]⟩
                · rcases hy with hy | hy
                  · exact absurd hy hyxs
                  · obtain ⟨w', hw'⟩ := hb y hy
                    exact ⟨w', by simp [hyxs, hw']⟩
              · rw [hget y]
                have : y ∉ xs := by simpa [LStmt.asg] using hy
                simp [this]
              · have hL : CtxLits C xs.length := by
                  simp only [LStmt.lits] at hl
                  exact hl.1.ctx hP
                have hsub : SubOK ρ P σ FExpr.var e.vars := by
                  refine subOK_var (fun y hy ht => hA y ((fv_unpack xs e.toF k y ht).2 (Or.inl ?_)) ht)
                    (fun y hy => hG y (hwe y hy))
                  exact vars_sub_fvF e y hy
                have ci : Conv ρ P e.toF (.tuple (xs.map gfun)) := by
                  rw [← hvs]; exact ce ρ P FExpr.var hP hsub
                refine conv_unpack hP xs e.toF k gfun w hL hxT ci (fun ρ' hρ' => hw ρ' (fun y hy ht => ?_))
                rw [hρ' y ht, hget y]
                by_cases hyxs : y ∈ xs
                · simp [hyxs]
                · simp only [hyxs, if_false]
                  exact hA y ((fv_unpack xs e.toF k y ht).2 (Or.inr ⟨hy, hyxs⟩)) ht
        | _ => simp [bindPat] at hbp

/-! ### every statement, every block, every fuel -/

theorem lsound_all : ∀ f g, g ≤ f → LStmtOK Φ cfg g ∧ LBlockOK Φ cfg g := by
  intro f
  induction f with
  | zero =>
    intro g hg
    have : g = 0 := by omega
    subst this
    exact ⟨fun s σ μ C o μ' h => by simp [evalS] at h, fun ss σ μ C o μ' h => by simp [evalB] at h⟩
  | succ f ih =>
    intro g hg
    by_cases hle : g ≤ f
    · exact ih g hle
    · have : g = f + 1 := by omega
      subst this
      have hBf : LBlockOK Φ cfg f := (ih f (Nat.le_refl _)).2
      have hBall : ∀ g, g ≤ f → LBlockOK Φ cfg g := fun g hg => (ih g hg).2
      refine ⟨fun s => ?_, lblock_step Φ cfg hord f (ih f (Nat.le_refl _)).1 hBf⟩
      cases s with
      | assign x e => exact stmt_assign Φ cfg hord f x e
      | tassign xs e => exact stmt_tassign Φ cfg hord f xs e
      | with_ d body => exact stmt_with Φ cfg hord f hBf d body
      | ifte c t e => exact stmt_ifte Φ cfg hord f hBf c t e
      | if1 c t => exact stmt_if1 Φ cfg hord f hBf c t
      | while_ c body => exact stmt_while Φ cfg hord f hBall c body
      | forRange x n body => exact stmt_for Φ cfg hord f hBall x n body
      | ret e => exact stmt_ret Φ cfg hord f e

theorem lblock_sound (fuel : Nat) : LBlockOK Φ cfg fuel := (lsound_all Φ cfg hord fuel fuel (Nat.le_refl _)).2

end
end Fpy.C12
