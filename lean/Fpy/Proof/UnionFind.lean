/-
  C13 — specification and proofs for the `Unionfind` model
  (`Fpy.Model.UnionFind`, Python source `/repo/fpy2/utils/unionfind.py`).

  Core Lean only.
-/
import Fpy.Model.UnionFind

namespace Fpy.C13

/-! ## Specification vocabulary -/

/-- Reflexive-transitive closure of `x ↦ P x`. -/
inductive Reach (P : Nat → Nat) : Nat → Nat → Prop
  | refl (x : Nat) : Reach P x x
  | step (x r : Nat) : Reach P (P x) r → Reach P x r

def IsRoot (P : Nat → Nat) (r : Nat) : Prop := P r = r

/-- `r` is the representative of `x` in the forest `P`. -/
def RootOfP (P : Nat → Nat) (x r : Nat) : Prop := Reach P x r ∧ P r = r

/-- `r` is the representative of `x` in the state `u`. -/
def RootOf (u : UF) (x r : Nat) : Prop := RootOfP u.parent x r

/-- `a` and `b` are in the same class. -/
def Same (u : UF) (a b : Nat) : Prop := ∃ r, RootOf u a r ∧ RootOf u b r

/-- Acyclicity + height bound, via a rank function. -/
def Ranked (P : Nat → Nat) (n : Nat) : Prop :=
  ∃ rk : Nat → Nat, (∀ x, P x ≠ x → rk x < rk (P x)) ∧ (∀ x, rk x ≤ n)

/-- Well-formedness of a state. -/
structure WF (u : UF) : Prop where
  /-- `dom` (the keys of `_parent`) has no duplicates -/
  nodup : u.dom.Nodup
  /-- `_parent` maps `dom` into `dom` -/
  closed : ∀ x, x ∈ u.dom → u.parent x ∈ u.dom
  /-- modelling convention: identity outside `dom` -/
  outside : ∀ x, x ∉ u.dom → u.parent x = x
  /-- acyclic, and every path has at most `nonroots` edges: this is what makes
      the fuel `u.fuel = u.nonroots + 1` of `_find` sufficient -/
  ranked : Ranked u.parent u.nonroots
  /-- every key of `_sets` occurs once -/
  keysNodup : (u.sets.map Prod.fst).Nodup
  /-- the keys of `_sets` are exactly the roots -/
  keys : ∀ r, r ∈ u.sets.map Prod.fst ↔ (r ∈ u.dom ∧ u.parent r = r)
  /-- `_sets[r]` is exactly the class of `r` -/
  members : ∀ r ms, (r, ms) ∈ u.sets → ∀ y, y ∈ ms ↔ (y ∈ u.dom ∧ RootOf u y r)

/-! ## `Reach` -/

theorem Reach.trans {P : Nat → Nat} {a b c : Nat} (h1 : Reach P a b) (h2 : Reach P b c) :
    Reach P a c := by
  induction h1 with
  | refl x => exact h2
  | step x r _ ih => exact Reach.step x c (ih h2)

theorem Reach.single (P : Nat → Nat) (x : Nat) : Reach P x (P x) :=
  Reach.step x (P x) (Reach.refl (P x))

/-- From a root only the root itself is reachable. -/
theorem Reach.of_root {P : Nat → Nat} {x s : Nat} (h : Reach P x s) (hx : P x = x) : s = x := by
  induction h with
  | refl x => rfl
  | step x r _ ih =>
    rw [hx] at ih
    exact ih hx

/-- Representatives are unique (no acyclicity needed). -/
theorem rootOfP_unique {P : Nat → Nat} {x r s : Nat} (h1 : RootOfP P x r) (h2 : RootOfP P x s) :
    s = r := by
  obtain ⟨h1, hr⟩ := h1
  obtain ⟨h2, hs⟩ := h2
  induction h1 with
  | refl x => exact h2.of_root hr
  | step x r h ih =>
    cases h2 with
    | refl =>
      -- `x` itself is a root
      rw [hs] at h
      exact (h.of_root hs).symm
    | step _ _ h2' => exact ih hr h2'

/-- If every edge of `P'` is a `P`-path, `P'`-paths are `P`-paths. -/
theorem Reach.mono {P P' : Nat → Nat} (hstep : ∀ z, Reach P z (P' z)) {a b : Nat}
    (h : Reach P' a b) : Reach P a b := by
  induction h with
  | refl x => exact Reach.refl x
  | step x r _ ih => exact (hstep x).trans ih

theorem Reach.closed {P : Nat → Nat} {dom : List Nat} (hc : ∀ x, x ∈ dom → P x ∈ dom)
    {a b : Nat} (h : Reach P a b) (ha : a ∈ dom) : b ∈ dom := by
  induction h with
  | refl x => exact ha
  | step x r _ ih => exact ih (hc x ha)

/-- Existence of a representative in a ranked forest. -/
theorem rootOfP_exists {P : Nat → Nat} {n : Nat} (hR : Ranked P n) (x : Nat) :
    ∃ r, RootOfP P x r := by
  obtain ⟨rk, hinc, hle⟩ := hR
  suffices h : ∀ k x, n - rk x ≤ k → ∃ r, RootOfP P x r from h (n - rk x) x (Nat.le_refl _)
  intro k
  induction k with
  | zero =>
    intro x hk
    by_cases hx : P x = x
    · exact ⟨x, Reach.refl x, hx⟩
    · have := hinc x hx
      have := hle (P x)
      omega
  | succ k ih =>
    intro x hk
    by_cases hx : P x = x
    · exact ⟨x, Reach.refl x, hx⟩
    · have h1 := hinc x hx
      have h2 := hle (P x)
      obtain ⟨r, hr, hroot⟩ := ih (P x) (by omega)
      exact ⟨r, Reach.step x r hr, hroot⟩

/-- Transfer of representatives along a "shortcut" update of the forest:
    every new edge is an old path and the roots are the same. -/
theorem rootOfP_congr {P P' : Nat → Nat} {n : Nat} (hR' : Ranked P' n)
    (hstep : ∀ z, Reach P z (P' z)) (hroot : ∀ z, P' z = z ↔ P z = z) (y s : Nat) :
    RootOfP P' y s ↔ RootOfP P y s := by
  have fwd : ∀ t, RootOfP P' y t → RootOfP P y t := fun t h =>
    ⟨Reach.mono hstep h.1, (hroot t).1 h.2⟩
  constructor
  · exact fwd s
  · intro h
    obtain ⟨t, ht⟩ := rootOfP_exists hR' y
    have := rootOfP_unique (fwd t ht) h
    subst this
    exact ht

/-! ## The `_find` loop -/

/-- Total correctness of the path-halving loop, for any rank function bounded by `n`
    and fuel at least `n - rk x`. -/
theorem findLoop_spec (rk : Nat → Nat) (n : Nat) (hle : ∀ z, rk z ≤ n) :
    ∀ (f : Nat) (P : Nat → Nat) (x : Nat),
      (∀ z, P z ≠ z → rk z < rk (P z)) → (P x ≠ x → n - rk x ≤ f) →
      P (findLoop f P x).2 = (findLoop f P x).2 ∧
      Reach P x (findLoop f P x).2 ∧
      (∀ z, (findLoop f P x).1 z ≠ z → rk z < rk ((findLoop f P x).1 z)) ∧
      (∀ z, (findLoop f P x).1 z = z ↔ P z = z) ∧
      (∀ z, Reach P z ((findLoop f P x).1 z)) := by
  intro f
  induction f with
  | zero =>
    intro P x hinc hf
    have hx : P x = x := by
      apply Classical.byContradiction
      intro hx
      have := hinc x hx
      have := hle (P x)
      have := hf hx
      omega
    simp only [findLoop]
    exact ⟨hx, Reach.refl x, hinc, fun _ => trivial, fun z => Reach.single P z⟩
  | succ f ih =>
    intro P x hinc hf
    by_cases hx : x = P x
    · simp only [findLoop, if_pos hx]
      exact ⟨hx.symm, Reach.refl x, hinc, fun _ => trivial, fun z => Reach.single P z⟩
    · have hx' : P x ≠ x := fun h => hx h.symm
      simp only [findLoop, if_neg hx]
      have h1 : rk x < rk (P x) := hinc x hx'
      have h2 : rk (P x) ≤ rk (P (P x)) := by
        by_cases hp : P (P x) = P x
        · rw [hp]; exact Nat.le_refl _
        · exact Nat.le_of_lt (hinc (P x) hp)
      have hgx : P (P x) ≠ x := by
        intro h
        rw [h] at h2
        omega
      have hinc1 : ∀ z, (if z = x then P (P x) else P z) ≠ z →
          rk z < rk (if z = x then P (P x) else P z) := by
        intro z
        split
        · intro _
          subst z
          omega
        · exact hinc z
      have hroot1 : ∀ z, (if z = x then P (P x) else P z) = z ↔ P z = z := by
        intro z
        split
        · subst z
          constructor
          · intro h; exact absurd h hgx
          · intro h; exact absurd h hx'
        · exact Iff.rfl
      have hstep1 : ∀ z, Reach P z (if z = x then P (P x) else P z) := by
        intro z
        split
        · subst z
          exact Reach.step x _ (Reach.single P (P x))
        · exact Reach.single P z
      have hfuel : (if P (P x) = x then P (P x) else P (P (P x))) ≠ P (P x) →
          n - rk (P (P x)) ≤ f := by
        rw [if_neg hgx]
        intro hg
        have := hinc (P (P x)) hg
        have := hle (P (P (P x)))
        have := hf hx'
        omega
      obtain ⟨k1, k2, k3, k4, k5⟩ :=
        ih (fun z => if z = x then P (P x) else P z) (P (P x)) hinc1 hfuel
      refine ⟨(hroot1 _).1 k1, ?_, k3, fun z => (k4 z).trans (hroot1 z),
        fun z => Reach.mono hstep1 (k5 z)⟩
      exact (Reach.step x _ (Reach.single P (P x))).trans (Reach.mono hstep1 k2)

/-- The loop of `_find` on a well-formed state, with the fuel `u.fuel` computed
    from the state: it terminates regularly in the representative of `x`, keeps
    the roots, and only shortcuts existing paths. -/
theorem findLoop_wf {u : UF} (h : WF u) (x : Nat) :
    u.parent (findLoop u.fuel u.parent x).2 = (findLoop u.fuel u.parent x).2 ∧
    Reach u.parent x (findLoop u.fuel u.parent x).2 ∧
    Ranked (findLoop u.fuel u.parent x).1 u.nonroots ∧
    (∀ z, (findLoop u.fuel u.parent x).1 z = z ↔ u.parent z = z) ∧
    (∀ z, Reach u.parent z ((findLoop u.fuel u.parent x).1 z)) := by
  obtain ⟨rk, hinc, hle⟩ := h.ranked
  have := findLoop_spec rk u.nonroots hle u.fuel u.parent x hinc
    (by intro _; unfold UF.fuel; omega)
  exact ⟨this.1, this.2.1, ⟨rk, this.2.2.1, hle⟩, this.2.2.2.1, this.2.2.2.2⟩

/-! ## `_find` on states -/

theorem findCore_dom (u : UF) (x : Nat) : (u.findCore x).1.dom = u.dom := rfl
theorem findCore_sets (u : UF) (x : Nat) : (u.findCore x).1.sets = u.sets := rfl

theorem nonroots_congr {d : List Nat} {P P' : Nat → Nat} {s s' : List (Nat × List Nat)}
    (hroot : ∀ z, P' z = z ↔ P z = z) :
    UF.nonroots ⟨d, P', s'⟩ = UF.nonroots ⟨d, P, s⟩ := by
  unfold UF.nonroots
  congr 1
  apply List.filter_congr
  intro z _
  show (P' z != z) = (P z != z)
  rw [Bool.eq_iff_iff]
  simp only [bne_iff_ne, ne_eq, hroot z]

theorem findCore_nonroots {u : UF} (h : WF u) (x : Nat) :
    (u.findCore x).1.nonroots = u.nonroots :=
  nonroots_congr (findLoop_wf h x).2.2.2.1

/-- `_find` returns the representative. -/
theorem findCore_root {u : UF} (h : WF u) (x : Nat) : RootOf u x (u.findCore x).2 :=
  ⟨(findLoop_wf h x).2.1, (findLoop_wf h x).1⟩

/-- Path halving changes no representative. -/
theorem findCore_rootOf {u : UF} (h : WF u) (x y s : Nat) :
    RootOf (u.findCore x).1 y s ↔ RootOf u y s :=
  rootOfP_congr (findLoop_wf h x).2.2.1 (findLoop_wf h x).2.2.2.2 (findLoop_wf h x).2.2.2.1 y s

theorem findCore_wf {u : UF} (h : WF u) (x : Nat) : WF (u.findCore x).1 := by
  have hf := findLoop_wf h x
  refine ⟨h.nodup, ?_, ?_, ?_, h.keysNodup, ?_, ?_⟩
  · intro z hz
    exact Reach.closed h.closed (hf.2.2.2.2 z) hz
  · intro z hz
    exact (hf.2.2.2.1 z).2 (h.outside z hz)
  · rw [findCore_nonroots h x]
    exact hf.2.2.1
  · intro r
    rw [findCore_sets, findCore_dom, h.keys r]
    exact and_congr_right (fun _ => (hf.2.2.2.1 r).symm)
  · intro r ms hm y
    rw [findCore_dom, findCore_rootOf h x y r]
    exact h.members r ms hm y

/-! ## Representatives exist and are unique; `Same` is an equivalence -/

theorem rootOf_exists {u : UF} (h : WF u) (x : Nat) : ∃ r, RootOf u x r :=
  rootOfP_exists h.ranked x

theorem rootOf_unique {u : UF} {x r s : Nat} (h1 : RootOf u x r) (h2 : RootOf u x s) : s = r :=
  rootOfP_unique h1 h2

theorem rootOf_mem_dom {u : UF} (h : WF u) {x r : Nat} (hx : x ∈ u.dom) (hr : RootOf u x r) :
    r ∈ u.dom :=
  Reach.closed h.closed hr.1 hx

/-- `∃!` spelled out (core Lean has no `∃!` notation). -/
theorem root_exists_unique {u : UF} (h : WF u) {x : Nat} (_hx : x ∈ u.dom) :
    ∃ r, RootOf u x r ∧ ∀ s, RootOf u x s → s = r := by
  obtain ⟨r, hr⟩ := rootOf_exists h x
  exact ⟨r, hr, fun s hs => rootOf_unique hr hs⟩

theorem same_refl {u : UF} (h : WF u) (x : Nat) : Same u x x := by
  obtain ⟨r, hr⟩ := rootOf_exists h x
  exact ⟨r, hr, hr⟩

theorem same_symm {u : UF} {x y : Nat} (h : Same u x y) : Same u y x := by
  obtain ⟨r, h1, h2⟩ := h
  exact ⟨r, h2, h1⟩

theorem same_trans {u : UF} {x y z : Nat} (h1 : Same u x y) (h2 : Same u y z) : Same u x z := by
  obtain ⟨r, a, b⟩ := h1
  obtain ⟨s, c, d⟩ := h2
  have := rootOf_unique b c
  subst this
  exact ⟨s, a, d⟩

theorem same_equiv {u : UF} (h : WF u) {x y z : Nat} :
    (∀ x, x ∈ u.dom → Same u x x) ∧ (Same u x y → Same u y x) ∧
    (Same u x y → Same u y z → Same u x z) :=
  ⟨fun x _ => same_refl h x, same_symm, same_trans⟩

/-- `Same` in terms of a known representative. -/
theorem same_iff_of_root {u : UF} {a r : Nat} (ha : RootOf u a r) (z : Nat) :
    Same u z a ↔ RootOf u z r := by
  constructor
  · rintro ⟨s, h1, h2⟩
    have := rootOf_unique ha h2
    subst this
    exact h1
  · intro h
    exact ⟨r, h, ha⟩

/-! ## `find` -/

theorem find_keyerror (u : UF) (x : Nat) : u.find x = none ↔ x ∉ u.dom := by
  unfold UF.find
  split <;> simp [*]

theorem find_eq {u u' : UF} {x r : Nat} (hf : u.find x = some (u', r)) :
    x ∈ u.dom ∧ u' = (u.findCore x).1 ∧ r = (u.findCore x).2 := by
  unfold UF.find at hf
  split at hf
  · rename_i hx
    simp only [Option.some.injEq] at hf
    exact ⟨hx, by rw [hf], by rw [hf]⟩
  · exact absurd hf (by simp)

theorem wf_find {u u' : UF} {x r : Nat} (h : WF u) (hf : u.find x = some (u', r)) : WF u' := by
  obtain ⟨_, rfl, _⟩ := find_eq hf
  exact findCore_wf h x

theorem find_preserves {u u' : UF} {x r : Nat} (h : WF u) (hf : u.find x = some (u', r)) :
    (∀ y s, RootOf u' y s ↔ RootOf u y s) ∧ u'.dom = u.dom ∧ u'.sets = u.sets := by
  obtain ⟨_, rfl, _⟩ := find_eq hf
  exact ⟨fun y s => findCore_rootOf h x y s, rfl, rfl⟩

theorem find_root {u u' : UF} {x r : Nat} (h : WF u) (hf : u.find x = some (u', r)) :
    RootOf u x r ∧ RootOf u' x r ∧ r ∈ u.dom := by
  obtain ⟨hx, rfl, rfl⟩ := find_eq hf
  have hr := findCore_root h x
  exact ⟨hr, (findCore_rootOf h x x _).2 hr, rootOf_mem_dom h hx hr⟩

theorem find_same {u u' : UF} {x r : Nat} (h : WF u) (hf : u.find x = some (u', r)) (y z : Nat) :
    Same u' y z ↔ Same u y z := by
  have hp := (find_preserves h hf).1
  constructor
  · rintro ⟨s, h1, h2⟩; exact ⟨s, (hp y s).1 h1, (hp z s).1 h2⟩
  · rintro ⟨s, h1, h2⟩; exact ⟨s, (hp y s).2 h1, (hp z s).2 h2⟩

/-- A second `find` (of the representative, or of `x` again) returns `r` again. -/
theorem find_idempotent {u u' : UF} {x r : Nat} (h : WF u) (hf : u.find x = some (u', r)) :
    (∃ u'', u'.find r = some (u'', r)) ∧ (∃ u'', u'.find x = some (u'', r)) := by
  have h' := wf_find h hf
  obtain ⟨_, hr', hrd⟩ := find_root h hf
  obtain ⟨hx, hd, _⟩ := find_eq hf
  have hdom : u'.dom = u.dom := (find_preserves h hf).2.1
  constructor
  · refine ⟨(u'.findCore r).1, ?_⟩
    have h2 : RootOf u' r r := ⟨Reach.refl r, hr'.2⟩
    have h1 := findCore_root h' r
    have e : r = (u'.findCore r).2 := rootOf_unique h1 h2
    unfold UF.find
    rw [if_pos (hdom ▸ hrd)]
    exact congrArg some (Prod.ext rfl e.symm)
  · refine ⟨(u'.findCore x).1, ?_⟩
    have h1 := findCore_root h' x
    have e : r = (u'.findCore x).2 := rootOf_unique h1 hr'
    unfold UF.find
    rw [if_pos (hdom ▸ hx)]
    exact congrArg some (Prod.ext rfl e.symm)

/-! ## `get` -/

theorem get_eq (u : UF) (x : Nat) :
    u.get x = match u.find x with
      | some (u', r) => (u', some r)
      | none => (u, none) := by
  unfold UF.get UF.find
  split <;> rfl

theorem wf_get {u : UF} (h : WF u) (x : Nat) : WF (u.get x).1 := by
  unfold UF.get
  split
  · exact findCore_wf h x
  · exact h

/-! ## `Unionfind()` and `Unionfind(xs)` -/

theorem ranked_id (n : Nat) : Ranked (fun z => z) n :=
  ⟨fun _ => 0, fun _ hx => absurd rfl hx, fun _ => Nat.zero_le _⟩

theorem wf_empty : WF UF.empty := by
  refine ⟨List.nodup_nil, ?_, ?_, ranked_id _, List.nodup_nil, ?_, ?_⟩
  · intro x hx; exact absurd hx (by simp [UF.empty])
  · intro x _; rfl
  · intro r; simp [UF.empty]
  · intro r ms hm; exact absurd hm (by simp [UF.empty])

theorem mem_dedup (xs : List Nat) (y : Nat) : y ∈ dedup xs ↔ y ∈ xs := by
  induction xs with
  | nil => simp [dedup]
  | cons x xs ih =>
    simp only [dedup, List.mem_cons, List.mem_filter, ih, bne_iff_ne, ne_eq]
    by_cases hy : y = x <;> simp [hy]

theorem nodup_dedup (xs : List Nat) : (dedup xs).Nodup := by
  induction xs with
  | nil => exact List.nodup_nil
  | cons x xs ih =>
    simp only [dedup, List.nodup_cons, List.mem_filter, bne_iff_ne, ne_eq, not_true_eq_false,
      and_false, not_false_eq_true, true_and]
    exact List.Nodup.sublist List.filter_sublist ih

theorem rootOf_id {d : List Nat} {s : List (Nat × List Nat)} (y r : Nat) :
    RootOf ⟨d, fun z => z, s⟩ y r ↔ r = y := by
  constructor
  · intro h; exact h.1.of_root rfl
  · intro h; subst h; exact ⟨Reach.refl _, rfl⟩

theorem wf_ofList (xs : List Nat) : WF (UF.ofList xs) := by
  have hk : ((dedup xs).map (fun x => (x, [x]))).map Prod.fst = dedup xs := by
    rw [List.map_map]
    exact List.map_id'' (fun _ => rfl) _
  refine ⟨nodup_dedup xs, ?_, ?_, ranked_id _, ?_, ?_, ?_⟩
  · intro x hx; exact hx
  · intro x _; rfl
  · show (((dedup xs).map (fun x => (x, [x]))).map Prod.fst).Nodup
    rw [hk]; exact nodup_dedup xs
  · intro r
    show r ∈ ((dedup xs).map (fun x => (x, [x]))).map Prod.fst ↔ (r ∈ dedup xs ∧ r = r)
    rw [hk]; simp
  · intro r ms hm y
    have hm' : (r, ms) ∈ (dedup xs).map (fun x => (x, [x])) := hm
    rw [List.mem_map] at hm'
    obtain ⟨a, ha, he⟩ := hm'
    simp only [Prod.mk.injEq] at he
    obtain ⟨rfl, rfl⟩ := he
    show y ∈ [a] ↔ (y ∈ dedup xs ∧ RootOf ⟨dedup xs, fun z => z, _⟩ y a)
    rw [rootOf_id, List.mem_singleton]
    constructor
    · intro e; subst e; exact ⟨ha, rfl⟩
    · intro e; exact e.2.symm

theorem ofList_dom (xs : List Nat) (y : Nat) : y ∈ (UF.ofList xs).dom ↔ y ∈ xs :=
  mem_dedup xs y

/-- In `Unionfind(xs)` every element is its own class. -/
theorem ofList_same (xs : List Nat) (y z : Nat) : Same (UF.ofList xs) y z ↔ y = z := by
  unfold Same UF.ofList
  simp only [rootOf_id]
  constructor
  · rintro ⟨r, h1, h2⟩; rw [← h1, ← h2]
  · intro e; exact ⟨y, rfl, e ▸ rfl⟩

/-! ## `add` -/

theorem wf_push {u : UF} (h : WF u) {x : Nat} (hx : x ∉ u.dom) :
    WF ⟨u.dom ++ [x], u.parent, u.sets ++ [(x, [x])]⟩ := by
  have hPx : u.parent x = x := h.outside x hx
  have hxk : x ∉ u.sets.map Prod.fst := fun hk => hx ((h.keys x).1 hk).1
  refine ⟨?_, ?_, ?_, ?_, ?_, ?_, ?_⟩
  · show (u.dom ++ [x]).Nodup
    rw [List.nodup_append]
    refine ⟨h.nodup, by simp, ?_⟩
    intro a ha b hb e
    rw [List.mem_singleton] at hb
    subst hb; subst e
    exact hx ha
  · intro z hz
    show u.parent z ∈ u.dom ++ [x]
    have hz' : z ∈ u.dom ++ [x] := hz
    rw [List.mem_append] at hz' ⊢
    cases hz' with
    | inl hz' => exact Or.inl (h.closed z hz')
    | inr hz' =>
      rw [List.mem_singleton] at hz'
      subst hz'
      rw [hPx]
      exact Or.inr (List.mem_singleton.2 rfl)
  · intro z hz
    have hz' : z ∉ u.dom ++ [x] := hz
    exact h.outside z (fun hd => hz' (List.mem_append.2 (Or.inl hd)))
  · have hn : UF.nonroots ⟨u.dom ++ [x], u.parent, u.sets ++ [(x, [x])]⟩ = u.nonroots := by
      simp [UF.nonroots, List.filter_append, hPx]
    rw [hn]
    exact h.ranked
  · show ((u.sets ++ [(x, [x])]).map Prod.fst).Nodup
    rw [List.map_append, List.nodup_append]
    refine ⟨h.keysNodup, by simp, ?_⟩
    intro a ha b hb e
    simp only [List.map_cons, List.map_nil, List.mem_singleton] at hb
    subst hb; subst e
    exact hxk ha
  · intro r
    show r ∈ (u.sets ++ [(x, [x])]).map Prod.fst ↔ (r ∈ u.dom ++ [x] ∧ u.parent r = r)
    rw [List.map_append, List.mem_append, List.mem_append, h.keys r]
    simp only [List.map_cons, List.map_nil, List.mem_singleton]
    constructor
    · rintro (⟨h1, h2⟩ | h1)
      · exact ⟨Or.inl h1, h2⟩
      · subst h1; exact ⟨Or.inr rfl, hPx⟩
    · rintro ⟨h1 | h1, h2⟩
      · exact Or.inl ⟨h1, h2⟩
      · exact Or.inr h1
  · intro r ms hm y
    have hm' : (r, ms) ∈ u.sets ++ [(x, [x])] := hm
    show y ∈ ms ↔ (y ∈ u.dom ++ [x] ∧ RootOf u y r)
    rw [List.mem_append] at hm'
    rw [List.mem_append, List.mem_singleton]
    cases hm' with
    | inl hm' =>
      rw [h.members r ms hm' y]
      constructor
      · rintro ⟨h1, h2⟩; exact ⟨Or.inl h1, h2⟩
      · rintro ⟨h1 | h1, h2⟩
        · exact ⟨h1, h2⟩
        · -- `y = x` is its own root, but `r` is a key, hence in `dom`
          subst h1
          have : r = y := h2.1.of_root hPx
          subst this
          have hk : r ∈ u.sets.map Prod.fst := List.mem_map.2 ⟨(r, ms), hm', rfl⟩
          exact absurd hk hxk
    | inr hm' =>
      rw [List.mem_singleton] at hm'
      simp only [Prod.mk.injEq] at hm'
      obtain ⟨rfl, rfl⟩ := hm'
      rw [List.mem_singleton]
      constructor
      · intro e; subst e; exact ⟨Or.inr rfl, Reach.refl _, hPx⟩
      · rintro ⟨h1 | h1, h2⟩
        · exact absurd (rootOf_mem_dom h h1 h2) hx
        · exact h1

theorem add_absent {u : UF} (h : WF u) {x : Nat} (hx : x ∉ u.dom) :
    u.add x = (⟨u.dom ++ [x], u.parent, u.sets ++ [(x, [x])]⟩, x) := by
  have hP : (fun z => if z = x then x else u.parent z) = u.parent := by
    funext z
    split
    · rename_i e; subst e; exact (h.outside z hx).symm
    · rfl
  unfold UF.add
  rw [if_neg hx, hP]

theorem wf_add {u : UF} (h : WF u) (x : Nat) : WF (u.add x).1 := by
  by_cases hx : x ∈ u.dom
  · unfold UF.add
    rw [if_pos hx]
    exact findCore_wf h x
  · rw [add_absent h hx]
    exact wf_push h hx

/-- `add` changes no representative (a fresh element was already its own root in the
    model, by the identity-outside-`dom` convention). -/
theorem add_rootOf {u : UF} (h : WF u) (x y s : Nat) :
    RootOf (u.add x).1 y s ↔ RootOf u y s := by
  by_cases hx : x ∈ u.dom
  · unfold UF.add
    rw [if_pos hx]
    exact findCore_rootOf h x y s
  · rw [add_absent h hx]
    exact Iff.rfl

theorem add_dom (u : UF) (x : Nat) :
    (u.add x).1.dom = if x ∈ u.dom then u.dom else u.dom ++ [x] := by
  unfold UF.add
  split <;> rfl

/-- `add` returns the representative of `x`, and `x` is present afterwards. -/
theorem add_result {u : UF} (h : WF u) (x : Nat) :
    RootOf (u.add x).1 x (u.add x).2 ∧ x ∈ (u.add x).1.dom := by
  by_cases hx : x ∈ u.dom
  · unfold UF.add
    rw [if_pos hx]
    exact ⟨(findCore_rootOf h x x _).2 (findCore_root h x), hx⟩
  · rw [add_absent h hx]
    exact ⟨⟨Reach.refl x, h.outside x hx⟩, List.mem_append.2 (Or.inr (List.mem_singleton.2 rfl))⟩

/-! ## Linking two roots (the body of `_union`) -/

theorem Ranked.mono {P : Nat → Nat} {n m : Nat} (hnm : n ≤ m) (h : Ranked P n) : Ranked P m := by
  obtain ⟨rk, hinc, hle⟩ := h
  exact ⟨rk, hinc, fun x => Nat.le_trans (hle x) hnm⟩

/-- Old paths survive the link `P[ry] = rx` when `ry` is a root. -/
theorem reach_link {P : Nat → Nat} {rx ry : Nat} (hry : P ry = ry) {a b : Nat}
    (h : Reach P a b) : Reach (fun w => if w = ry then rx else P w) a b := by
  induction h with
  | refl x => exact Reach.refl x
  | step x r _ ih =>
    by_cases hx : x = ry
    · subst hx
      rw [hry] at ih
      exact ih
    · refine Reach.step x r ?_
      show Reach _ (if x = ry then rx else P x) r
      rw [if_neg hx]
      exact ih

/-- Representatives after linking root `ry` below a different root `rx`. -/
theorem link_rootOf {P : Nat → Nat} {n : Nat} (hR : Ranked P n) {rx ry : Nat}
    (hrx : P rx = rx) (hry : P ry = ry) (hne : rx ≠ ry) (z s : Nat) :
    RootOfP (fun w => if w = ry then rx else P w) z s ↔
      ∃ t, RootOfP P z t ∧ s = if t = ry then rx else t := by
  have key : ∀ t, RootOfP P z t →
      RootOfP (fun w => if w = ry then rx else P w) z (if t = ry then rx else t) := by
    intro t ht
    have r1 := reach_link (rx := rx) hry ht.1
    have hrx' : (fun w => if w = ry then rx else P w) rx = rx := by
      show (if rx = ry then rx else P rx) = rx
      rw [if_neg hne, hrx]
    split
    · rename_i e
      subst e
      refine ⟨r1.trans ?_, hrx'⟩
      have := Reach.single (fun w => if w = t then rx else P w) t
      simp only [if_pos] at this
      exact this
    · rename_i e
      refine ⟨r1, ?_⟩
      show (if t = ry then rx else P t) = t
      rw [if_neg e, ht.2]
  constructor
  · intro hs
    obtain ⟨t, ht⟩ := rootOfP_exists hR z
    exact ⟨t, ht, rootOfP_unique (key t ht) hs⟩
  · rintro ⟨t, ht, rfl⟩
    exact key t ht

theorem link_ranked {P : Nat → Nat} {n : Nat} (hR : Ranked P n) {rx ry : Nat}
    (hrx : P rx = rx) (hne : rx ≠ ry) :
    Ranked (fun w => if w = ry then rx else P w) (n + 1) := by
  obtain ⟨rk, hinc, hle⟩ := hR
  refine ⟨fun z => if z = rx then n + 1 else rk z, ?_, ?_⟩
  · intro z hz
    show (if z = rx then n + 1 else rk z) <
      (if (if z = ry then rx else P z) = rx then n + 1 else rk (if z = ry then rx else P z))
    have hz' : (if z = ry then rx else P z) ≠ z := hz
    by_cases hzy : z = ry
    · rw [if_pos hzy, if_pos rfl]
      have : z ≠ rx := fun e => hne (e.symm.trans hzy)
      rw [if_neg this]
      have := hle z
      omega
    · rw [if_neg hzy] at hz' ⊢
      have hzx : z ≠ rx := fun e => hz' (e ▸ hrx)
      rw [if_neg hzx]
      have h1 := hinc z hz'
      have h2 := hle z
      split <;> omega
  · intro z
    show (if z = rx then n + 1 else rk z) ≤ n + 1
    have := hle z
    split <;> omega

theorem filter_length_le {p q : Nat → Bool} (hpq : ∀ z, p z = true → q z = true) :
    ∀ l : List Nat, (l.filter p).length ≤ (l.filter q).length
  | [] => Nat.le_refl _
  | a :: l => by
    have ih := filter_length_le hpq l
    simp only [List.filter_cons]
    by_cases hp : p a = true
    · simp only [hp, hpq a hp, if_true, List.length_cons]
      omega
    · by_cases hq : q a = true
      · simp only [hp, hq, if_true, List.length_cons]
        simp only [Bool.false_eq_true, if_false]
        omega
      · simp only [hp, hq]
        simpa using ih

theorem filter_length_lt {p q : Nat → Bool} {y : Nat} (hpq : ∀ z, p z = true → q z = true)
    (hp : p y = false) (hq : q y = true) :
    ∀ l : List Nat, y ∈ l → (l.filter p).length < (l.filter q).length
  | [] => fun h => absurd h (by simp)
  | a :: l => by
    intro hy
    have hle := filter_length_le hpq l
    simp only [List.filter_cons]
    by_cases hay : a = y
    · subst hay
      simp only [hp, hq, if_true, List.length_cons]
      simp only [Bool.false_eq_true, if_false]
      omega
    · have hy' : y ∈ l := by
        cases hy with
        | head => exact absurd rfl hay
        | tail _ h => exact h
      have ih := filter_length_lt hpq hp hq l hy'
      by_cases hpa : p a = true
      · simp only [hpa, hpq a hpa, if_true, List.length_cons]
        omega
      · by_cases hqa : q a = true
        · simp only [hpa, hqa, if_true, List.length_cons]
          simp only [Bool.false_eq_true, if_false]
          omega
        · simp only [hpa, hqa]
          simpa using ih

/-! ### `_sets` bookkeeping -/

theorem lookup_mem {k : Nat} {v : List Nat} : ∀ {l : List (Nat × List Nat)},
    lookup k l = some v → (k, v) ∈ l
  | [], h => by simp [lookup] at h
  | e :: l, h => by
    unfold lookup at h
    split at h
    · rename_i he
      simp only [Option.some.injEq] at h
      subst h; subst he
      exact List.mem_cons_self
    · exact List.mem_cons_of_mem _ (lookup_mem h)

theorem lookup_of_key {k : Nat} : ∀ {l : List (Nat × List Nat)},
    k ∈ l.map Prod.fst → ∃ v, lookup k l = some v
  | [], h => by simp at h
  | e :: l, h => by
    unfold lookup
    split
    · exact ⟨_, rfl⟩
    · rename_i he
      simp only [List.map_cons, List.mem_cons] at h
      cases h with
      | inl h => exact absurd h.symm he
      | inr h => exact lookup_of_key h

theorem mem_setUnion (a b : List Nat) (y : Nat) : y ∈ setUnion a b ↔ y ∈ a ∨ y ∈ b := by
  unfold setUnion
  simp only [List.mem_append, List.mem_filter, List.contains_eq_mem, Bool.not_eq_eq_eq_not,
    Bool.not_true, decide_eq_false_iff_not]
  by_cases hy : y ∈ a <;> simp [hy]

theorem mergeWith_keys (my : List Nat) (rx ry : Nat) : ∀ sets : List (Nat × List Nat),
    ((sets.map (fun e => if e.1 = rx then (e.1, setUnion e.2 my) else e)).filter
      (fun e => e.1 != ry)).map Prod.fst = (sets.map Prod.fst).filter (fun k => k != ry)
  | [] => rfl
  | e :: l => by
    have ih := mergeWith_keys my rx ry l
    have hf : (if e.1 = rx then (e.1, setUnion e.2 my) else e).1 = e.1 := by
      split <;> rfl
    simp only [List.map_cons, List.filter_cons, hf]
    by_cases h2 : (e.1 != ry) = true
    · simp only [if_pos h2, List.map_cons, hf, ih]
    · simp only [if_neg h2, ih]

theorem mem_mergeWith {my : List Nat} {sets : List (Nat × List Nat)} {rx ry r : Nat}
    {ms : List Nat}
    (hm : (r, ms) ∈ (sets.map (fun e => if e.1 = rx then (e.1, setUnion e.2 my) else e)).filter
      (fun e => e.1 != ry)) :
    r ≠ ry ∧ ((r = rx ∧ ∃ ms0, (rx, ms0) ∈ sets ∧ ms = setUnion ms0 my) ∨
      (r ≠ rx ∧ (r, ms) ∈ sets)) := by
  rw [List.mem_filter, List.mem_map] at hm
  obtain ⟨⟨e, he, heq⟩, hne⟩ := hm
  refine ⟨by simpa using hne, ?_⟩
  by_cases h1 : e.1 = rx
  · rw [if_pos h1] at heq
    simp only [Prod.mk.injEq] at heq
    obtain ⟨e1, e2⟩ := heq
    refine Or.inl ⟨e1.symm.trans h1, e.2, ?_, e2.symm⟩
    rw [← h1]
    exact he
  · rw [if_neg h1] at heq
    subst heq
    exact Or.inr ⟨h1, he⟩

/-- The state after `P[ry] = rx; sets[rx] ∪= sets[ry]; del sets[ry]`. -/
def linkState (v : UF) (rx ry : Nat) : UF :=
  ⟨v.dom, fun z => if z = ry then rx else v.parent z, mergeSets v.sets rx ry⟩

theorem linkState_rootOf {v : UF} (h : WF v) {rx ry : Nat} (hPx : v.parent rx = rx)
    (hPy : v.parent ry = ry) (hne : rx ≠ ry) (z s : Nat) :
    RootOf (linkState v rx ry) z s ↔ ∃ t, RootOf v z t ∧ s = if t = ry then rx else t :=
  link_rootOf h.ranked hPx hPy hne z s

theorem wf_link {v : UF} (h : WF v) {rx ry : Nat} (hrx : rx ∈ v.dom) (hPx : v.parent rx = rx)
    (hry : ry ∈ v.dom) (hPy : v.parent ry = ry) (hne : rx ≠ ry) : WF (linkState v rx ry) := by
  have hkeys : (linkState v rx ry).sets.map Prod.fst =
      (v.sets.map Prod.fst).filter (fun k => k != ry) := mergeWith_keys _ rx ry v.sets
  refine ⟨h.nodup, ?_, ?_, ?_, ?_, ?_, ?_⟩
  · intro z hz
    show (if z = ry then rx else v.parent z) ∈ v.dom
    split
    · exact hrx
    · exact h.closed z hz
  · intro z hz
    show (if z = ry then rx else v.parent z) = z
    have : z ≠ ry := fun e => hz (e ▸ hry)
    rw [if_neg this]
    exact h.outside z hz
  · refine Ranked.mono ?_ (link_ranked h.ranked hPx hne)
    show (v.dom.filter (fun x => v.parent x != x)).length + 1 ≤
      (v.dom.filter (fun x => (if x = ry then rx else v.parent x) != x)).length
    apply filter_length_lt (y := ry) _ _ _ v.dom hry
    · intro z hz
      have hz' : v.parent z ≠ z := by simpa using hz
      have : z ≠ ry := fun e => hz' (e ▸ hPy)
      simp only [if_neg this]
      exact hz
    · simp [hPy]
    · simp [hne]
  · rw [hkeys]
    exact List.Nodup.sublist List.filter_sublist h.keysNodup
  · intro r
    rw [hkeys, List.mem_filter, h.keys r]
    show (r ∈ v.dom ∧ v.parent r = r) ∧ (r != ry) = true ↔
      r ∈ v.dom ∧ (if r = ry then rx else v.parent r) = r
    by_cases hr : r = ry
    · subst hr
      simp [hne]
    · simp [hr]
  · intro r ms hm y
    show y ∈ ms ↔ (y ∈ v.dom ∧ RootOf (linkState v rx ry) y r)
    rw [linkState_rootOf h hPx hPy hne]
    obtain ⟨my0, hl⟩ := lookup_of_key ((h.keys ry).2 ⟨hry, hPy⟩)
    have hmy := h.members ry my0 (lookup_mem hl)
    have hm' := mem_mergeWith hm
    rw [hl] at hm'
    simp only [Option.getD_some] at hm'
    obtain ⟨hr1, hm'⟩ := hm'
    cases hm' with
    | inl hm' =>
      obtain ⟨rfl, ms0, hms0, rfl⟩ := hm'
      rw [mem_setUnion, h.members r ms0 hms0 y, hmy y]
      constructor
      · rintro (⟨h1, h2⟩ | ⟨h1, h2⟩)
        · exact ⟨h1, r, h2, by rw [if_neg hne]⟩
        · exact ⟨h1, ry, h2, by rw [if_pos rfl]⟩
      · rintro ⟨h1, t, ht, e⟩
        by_cases hty : t = ry
        · subst hty; exact Or.inr ⟨h1, ht⟩
        · rw [if_neg hty] at e
          subst e
          exact Or.inl ⟨h1, ht⟩
    | inr hm' =>
      obtain ⟨hr2, hms⟩ := hm'
      rw [h.members r ms hms y]
      constructor
      · rintro ⟨h1, h2⟩
        exact ⟨h1, r, h2, by rw [if_neg hr1]⟩
      · rintro ⟨h1, t, ht, e⟩
        by_cases hty : t = ry
        · rw [if_pos hty] at e
          exact absurd e hr2
        · rw [if_neg hty] at e
          subst e
          exact ⟨h1, ht⟩

/-! ## `union` -/

/-- Everything about `_union` on a well-formed state, in one statement: with `rx`, `ry` the
    old representatives of `a`, `b`, the result is `rx`, the new state is well-formed, has
    the same elements, and the new representative of any `z` is the old one `t`, except
    that `ry` is replaced by `rx`. -/
theorem unionCore_spec {u : UF} (h : WF u) {a b : Nat} (ha : a ∈ u.dom) (hb : b ∈ u.dom) :
    ∃ rx ry, RootOf u a rx ∧ RootOf u b ry ∧ (u.unionCore a b).2 = rx ∧
      WF (u.unionCore a b).1 ∧ (u.unionCore a b).1.dom = u.dom ∧
      ∀ z s, RootOf (u.unionCore a b).1 z s ↔
        ∃ t, RootOf u z t ∧ s = if t = ry then rx else t := by
  have hA := findCore_wf h a
  have hB := findCore_wf hA b
  have hrx := findCore_root h a
  have hry : RootOf u b ((u.findCore a).1.findCore b).2 :=
    (findCore_rootOf h a b _).1 (findCore_root hA b)
  have hv : ∀ z s, RootOf ((u.findCore a).1.findCore b).1 z s ↔ RootOf u z s :=
    fun z s => (findCore_rootOf hA b z s).trans (findCore_rootOf h a z s)
  refine ⟨(u.findCore a).2, ((u.findCore a).1.findCore b).2, hrx, hry, ?_⟩
  by_cases e : (u.findCore a).2 = ((u.findCore a).1.findCore b).2
  · have hU : u.unionCore a b = (((u.findCore a).1.findCore b).1, (u.findCore a).2) := by
      unfold UF.unionCore
      simp only [if_pos e]
    rw [hU]
    refine ⟨rfl, hB, rfl, ?_⟩
    intro z s
    have hite : ∀ t, (if t = ((u.findCore a).1.findCore b).2 then (u.findCore a).2 else t) = t := by
      intro t
      split
      · rename_i e2; rw [e2]; exact e
      · rfl
    simp only [hite]
    rw [hv z s]
    constructor
    · intro hs; exact ⟨s, hs, rfl⟩
    · rintro ⟨t, ht, rfl⟩; exact ht
  · have hU : u.unionCore a b =
        (linkState ((u.findCore a).1.findCore b).1 (u.findCore a).2
          ((u.findCore a).1.findCore b).2, (u.findCore a).2) := by
      unfold UF.unionCore
      simp only [if_neg e]
      rfl
    rw [hU]
    have hPx : ((u.findCore a).1.findCore b).1.parent (u.findCore a).2 = (u.findCore a).2 :=
      ((hv _ _).2 ⟨Reach.refl _, hrx.2⟩).2
    have hPy : ((u.findCore a).1.findCore b).1.parent ((u.findCore a).1.findCore b).2 =
        ((u.findCore a).1.findCore b).2 :=
      ((hv _ _).2 ⟨Reach.refl _, hry.2⟩).2
    refine ⟨rfl, wf_link hB (rootOf_mem_dom h ha hrx) hPx (rootOf_mem_dom h hb hry) hPy e, rfl, ?_⟩
    intro z s
    show RootOf (linkState _ _ _) z s ↔ _
    rw [linkState_rootOf hB hPx hPy e]
    simp only [hv]

theorem union_eq {u u' : UF} {a b r : Nat} (hu : u.union a b = some (u', r)) :
    a ∈ u.dom ∧ b ∈ u.dom ∧ u' = (u.unionCore a b).1 ∧ r = (u.unionCore a b).2 := by
  unfold UF.union at hu
  split at hu
  · split at hu
    · rename_i ha hb
      simp only [Option.some.injEq] at hu
      exact ⟨ha, hb, by rw [hu], by rw [hu]⟩
    · exact absurd hu (by simp)
  · exact absurd hu (by simp)

theorem union_keyerror (u : UF) (a b : Nat) : u.union a b = none ↔ (a ∉ u.dom ∨ b ∉ u.dom) := by
  unfold UF.union
  by_cases ha : a ∈ u.dom <;> by_cases hb : b ∈ u.dom <;> simp [ha, hb]

/-- `unionCore_spec` for the public `union`. -/
theorem union_spec {u u' : UF} {a b r : Nat} (h : WF u) (hu : u.union a b = some (u', r)) :
    ∃ ry, RootOf u a r ∧ RootOf u b ry ∧ WF u' ∧ u'.dom = u.dom ∧
      ∀ z s, RootOf u' z s ↔ ∃ t, RootOf u z t ∧ s = if t = ry then r else t := by
  obtain ⟨ha, hb, rfl, rfl⟩ := union_eq hu
  obtain ⟨rx, ry, h1, h2, h3, h4, h5, h6⟩ := unionCore_spec h ha hb
  rw [h3]
  exact ⟨ry, h1, h2, h4, h5, h6⟩

theorem wf_union {u u' : UF} {a b r : Nat} (h : WF u) (hu : u.union a b = some (u', r)) :
    WF u' := by
  obtain ⟨_, _, _, hw, _⟩ := union_spec h hu
  exact hw

theorem union_dom {u u' : UF} {a b r : Nat} (h : WF u) (hu : u.union a b = some (u', r)) :
    u'.dom = u.dom := by
  obtain ⟨_, _, _, _, hd, _⟩ := union_spec h hu
  exact hd

/-- The representative of the union is the OLD representative of the first argument. -/
theorem union_root_is_left {u u' : UF} {a b r : Nat} (h : WF u)
    (hu : u.union a b = some (u', r)) : RootOf u a r := by
  obtain ⟨_, h1, _⟩ := union_spec h hu
  exact h1

theorem union_connects {u u' : UF} {a b r : Nat} (h : WF u) (hu : u.union a b = some (u', r)) :
    Same u' a b ∧ RootOf u' a r ∧ RootOf u' b r := by
  obtain ⟨ry, h1, h2, _, _, h6⟩ := union_spec h hu
  have ha : RootOf u' a r := (h6 a r).2 ⟨r, h1, by split <;> rfl⟩
  have hb : RootOf u' b r := (h6 b r).2 ⟨ry, h2, by rw [if_pos rfl]⟩
  exact ⟨⟨r, ha, hb⟩, ha, hb⟩

/-- Classes not involving `a`, `b` are untouched. -/
theorem union_preserves {u u' : UF} {a b r : Nat} (h : WF u) (hu : u.union a b = some (u', r)) :
    ∀ z, z ∈ u.dom → ¬ Same u z a → ¬ Same u z b → ∀ s, RootOf u' z s ↔ RootOf u z s := by
  obtain ⟨ry, h1, h2, _, _, h6⟩ := union_spec h hu
  intro z _ hza hzb s
  rw [h6 z s]
  have hne : ∀ t, RootOf u z t → t ≠ ry := fun t ht e => hzb ⟨ry, e ▸ ht, h2⟩
  constructor
  · rintro ⟨t, ht, e⟩
    rw [if_neg (hne t ht)] at e
    exact e ▸ ht
  · intro hs
    exact ⟨s, hs, by rw [if_neg (hne s hs)]⟩

/-- Exact characterisation of the new partition (valid for all `z`, `w`, in particular
    for those in `dom`): the old one with the classes of `a` and `b` merged. -/
theorem union_merges' {u u' : UF} {a b r : Nat} (h : WF u) (hu : u.union a b = some (u', r))
    (z w : Nat) :
    Same u' z w ↔ (Same u z w ∨ ((Same u z a ∨ Same u z b) ∧ (Same u w a ∨ Same u w b))) := by
  obtain ⟨ry, h1, h2, _, _, h6⟩ := union_spec h hu
  obtain ⟨tz, hz⟩ := rootOf_exists h z
  obtain ⟨tw, hw⟩ := rootOf_exists h w
  have e1 : Same u' z w ↔ (if tz = ry then r else tz) = (if tw = ry then r else tw) := by
    constructor
    · rintro ⟨s, hs1, hs2⟩
      obtain ⟨t1, ht1, e1⟩ := (h6 z s).1 hs1
      obtain ⟨t2, ht2, e2⟩ := (h6 w s).1 hs2
      have := rootOf_unique hz ht1
      subst this
      have := rootOf_unique hw ht2
      subst this
      rw [← e1, ← e2]
    · intro e
      exact ⟨_, (h6 z _).2 ⟨tz, hz, rfl⟩, (h6 w _).2 ⟨tw, hw, e⟩⟩
  have e2 : Same u z w ↔ tz = tw := by
    rw [same_iff_of_root hw]
    constructor
    · intro hh; exact rootOf_unique hh hz
    · intro e; exact e ▸ hz
  have ez : ∀ {x t c rc}, RootOf u x t → RootOf u c rc → (Same u x c ↔ t = rc) := by
    intro x t c rc hx hc
    rw [same_iff_of_root hc]
    constructor
    · intro hh; exact rootOf_unique hh hx
    · intro e; exact e ▸ hx
  rw [e1, e2, ez hz h1, ez hz h2, ez hw h1, ez hw h2]
  split <;> split <;> omega

theorem union_merges {u u' : UF} {a b r : Nat} (h : WF u) (hu : u.union a b = some (u', r)) :
    ∀ z w, z ∈ u.dom → w ∈ u.dom →
      (Same u' z w ↔
        (Same u z w ∨ ((Same u z a ∨ Same u z b) ∧ (Same u w a ∨ Same u w b)))) :=
  fun z w _ _ => union_merges' h hu z w

/-! ## `component`, `representatives` -/

theorem component_eq {u u' : UF} {x : Nat} {ms : List Nat}
    (hc : u.component x = some (u', ms)) :
    ∃ r, u.find x = some (u', r) ∧ lookup r u'.sets = some ms := by
  unfold UF.component at hc
  split at hc
  · exact absurd hc (by simp)
  · rename_i u1 r hf
    split at hc
    · exact absurd hc (by simp)
    · rename_i ms1 hl
      simp only [Option.some.injEq, Prod.mk.injEq] at hc
      obtain ⟨rfl, rfl⟩ := hc
      exact ⟨r, hf, hl⟩

theorem component_correct {u u' : UF} {x : Nat} {ms : List Nat} (h : WF u)
    (hc : u.component x = some (u', ms)) : ∀ y, y ∈ ms ↔ (y ∈ u.dom ∧ Same u y x) := by
  obtain ⟨r, hf, hl⟩ := component_eq hc
  have hs : u'.sets = u.sets := (find_preserves h hf).2.2
  rw [hs] at hl
  intro y
  rw [h.members r ms (lookup_mem hl) y, same_iff_of_root (find_root h hf).1]

/-- On a well-formed state `component` raises exactly when `find` does. -/
theorem component_total {u : UF} {x : Nat} (h : WF u) (hx : x ∈ u.dom) :
    ∃ u' ms, u.component x = some (u', ms) := by
  have hf : u.find x = some ((u.findCore x).1, (u.findCore x).2) := by
    unfold UF.find; rw [if_pos hx]
  obtain ⟨_, _, hr⟩ := find_root h hf
  have hroot := findCore_root h x
  obtain ⟨ms, hl⟩ := lookup_of_key ((h.keys _).2 ⟨hr, hroot.2⟩)
  refine ⟨(u.findCore x).1, ms, ?_⟩
  unfold UF.component
  rw [hf]
  show (match lookup (u.findCore x).2 u.sets with
    | none => none
    | some ms => some ((u.findCore x).1, ms)) = _
  rw [hl]

theorem component_keyerror {u : UF} {x : Nat} (hx : x ∉ u.dom) : u.component x = none := by
  unfold UF.component
  rw [(find_keyerror u x).2 hx]

theorem representatives_correct {u : UF} (h : WF u) :
    ∀ r, r ∈ u.representatives ↔ (r ∈ u.dom ∧ u.parent r = r) :=
  h.keys

/-! ## Operation sequences -/

theorem wf_step {u : UF} (h : WF u) (op : Op) : WF (u.step op) := by
  cases op with
  | add x => exact wf_add h x
  | find x =>
    simp only [UF.step]
    split
    · rename_i r hf; exact wf_find (u' := r.1) (r := r.2) h hf
    · exact h
  | get x => exact wf_get h x
  | union x y =>
    simp only [UF.step]
    split
    · rename_i r hf; exact wf_union (u' := r.1) (r := r.2) h hf
    · exact h
  | component x =>
    simp only [UF.step]
    split
    · rename_i r hf; exact wf_find (u' := r.1) (r := r.2) h hf
    · exact h

theorem wf_run {u : UF} (h : WF u) (ops : List Op) : WF (u.run ops) := by
  induction ops generalizing u with
  | nil => exact h
  | cons op ops ih => exact ih (wf_step h op)

theorem run_wf (ops : List Op) : WF (UF.run UF.empty ops) :=
  wf_run wf_empty ops

/-! ## The abstract partition of an operation sequence

  Defined on the operation list alone: the elements added so far and the list of
  `union a b` calls that were executed with both arguments present. -/

structure SpecState where
  elems : List Nat
  pairs : List (Nat × Nat)

def specStep (s : SpecState) : Op → SpecState
  | .add x => if x ∈ s.elems then s else ⟨s.elems ++ [x], s.pairs⟩
  | .union a b => if a ∈ s.elems ∧ b ∈ s.elems then ⟨s.elems, (a, b) :: s.pairs⟩ else s
  | _ => s

def specRun (s : SpecState) (ops : List Op) : SpecState :=
  ops.foldl specStep s

/-- The smallest equivalence relation containing `pairs`. -/
inductive EqvGen (pairs : List (Nat × Nat)) : Nat → Nat → Prop
  | refl (x : Nat) : EqvGen pairs x x
  | pair (a b : Nat) : (a, b) ∈ pairs → EqvGen pairs a b
  | symm {a b : Nat} : EqvGen pairs a b → EqvGen pairs b a
  | trans {a b c : Nat} : EqvGen pairs a b → EqvGen pairs b c → EqvGen pairs a c

/-- SPEC: `x` and `y` are added elements related by the smallest equivalence relation
    containing the executed unions. -/
def specSame (ops : List Op) (x y : Nat) : Prop :=
  x ∈ (specRun ⟨[], []⟩ ops).elems ∧ y ∈ (specRun ⟨[], []⟩ ops).elems ∧
    EqvGen (specRun ⟨[], []⟩ ops).pairs x y

theorem EqvGen.mono {pairs : List (Nat × Nat)} (p : Nat × Nat) {x y : Nat}
    (h : EqvGen pairs x y) : EqvGen (p :: pairs) x y := by
  induction h with
  | refl x => exact EqvGen.refl x
  | pair a b hm => exact EqvGen.pair a b (List.mem_cons_of_mem _ hm)
  | symm _ ih => exact ih.symm
  | trans _ _ ih1 ih2 => exact ih1.trans ih2

theorem eqvGen_nil {x y : Nat} : EqvGen [] x y ↔ x = y := by
  constructor
  · intro h
    induction h with
    | refl x => rfl
    | pair a b hm => exact absurd hm (by simp)
    | symm _ ih => exact ih.symm
    | trans _ _ ih1 ih2 => exact ih1.trans ih2
  · intro e; subst e; exact EqvGen.refl x

/-- Adding one pair merges two classes. -/
theorem eqvGen_cons (pairs : List (Nat × Nat)) (a b z w : Nat) :
    EqvGen ((a, b) :: pairs) z w ↔
      (EqvGen pairs z w ∨
        ((EqvGen pairs z a ∨ EqvGen pairs z b) ∧ (EqvGen pairs w a ∨ EqvGen pairs w b))) := by
  have pull : ∀ {x y : Nat}, EqvGen pairs x y → (EqvGen pairs y a ∨ EqvGen pairs y b) →
      (EqvGen pairs x a ∨ EqvGen pairs x b) := fun hxy h =>
    h.elim (fun h => Or.inl (hxy.trans h)) (fun h => Or.inr (hxy.trans h))
  constructor
  · intro h
    induction h with
    | refl x => exact Or.inl (EqvGen.refl x)
    | pair c d hm =>
      cases hm with
      | head => exact Or.inr ⟨Or.inl (EqvGen.refl _), Or.inr (EqvGen.refl _)⟩
      | tail _ hm => exact Or.inl (EqvGen.pair c d hm)
    | symm _ ih =>
      cases ih with
      | inl h => exact Or.inl h.symm
      | inr h => exact Or.inr ⟨h.2, h.1⟩
    | trans _ _ ih1 ih2 =>
      cases ih1 with
      | inl h1 =>
        cases ih2 with
        | inl h2 => exact Or.inl (h1.trans h2)
        | inr h2 => exact Or.inr ⟨pull h1 h2.1, h2.2⟩
      | inr h1 =>
        cases ih2 with
        | inl h2 => exact Or.inr ⟨h1.1, pull h2.symm h1.2⟩
        | inr h2 => exact Or.inr ⟨h1.1, h2.2⟩
  · have hab : EqvGen ((a, b) :: pairs) a b := EqvGen.pair a b List.mem_cons_self
    have toA : ∀ {x : Nat}, (EqvGen pairs x a ∨ EqvGen pairs x b) →
        EqvGen ((a, b) :: pairs) x a := fun h =>
      h.elim (fun h => h.mono _) (fun h => (h.mono _).trans hab.symm)
    rintro (h | ⟨h1, h2⟩)
    · exact h.mono _
    · exact (toA h1).trans (toA h2).symm

theorem same_congr {u u' : UF} (hp : ∀ y s, RootOf u' y s ↔ RootOf u y s) (y z : Nat) :
    Same u' y z ↔ Same u y z := by
  constructor
  · rintro ⟨s, h1, h2⟩; exact ⟨s, (hp y s).1 h1, (hp z s).1 h2⟩
  · rintro ⟨s, h1, h2⟩; exact ⟨s, (hp y s).2 h1, (hp z s).2 h2⟩

/-- The simulation relation between the data structure and the specification state. -/
def Agree (u : UF) (s : SpecState) : Prop :=
  WF u ∧ u.dom = s.elems ∧ ∀ x y, Same u x y ↔ EqvGen s.pairs x y

theorem agree_find {u u' : UF} {s : SpecState} {x r : Nat} (hA : Agree u s)
    (hf : u.find x = some (u', r)) : Agree u' s := by
  obtain ⟨h, hd, hs⟩ := hA
  refine ⟨wf_find h hf, (find_preserves h hf).2.1.trans hd, ?_⟩
  intro y z
  rw [find_same h hf, hs]

theorem agree_step {u : UF} {s : SpecState} (hA : Agree u s) (op : Op) :
    Agree (u.step op) (specStep s op) := by
  obtain ⟨h, hd, hs⟩ := hA
  cases op with
  | add x =>
    refine ⟨wf_add h x, ?_, ?_⟩
    · show (u.add x).1.dom = (if x ∈ s.elems then s else ⟨s.elems ++ [x], s.pairs⟩).elems
      rw [add_dom, hd]
      split <;> rfl
    · intro y z
      show Same (u.add x).1 y z ↔
        EqvGen (if x ∈ s.elems then s else ⟨s.elems ++ [x], s.pairs⟩).pairs y z
      rw [same_congr (add_rootOf h x) y z, hs]
      split <;> exact Iff.rfl
  | find x =>
    simp only [UF.step]
    split
    · rename_i r hf; exact agree_find (u' := r.1) (r := r.2) ⟨h, hd, hs⟩ hf
    · exact ⟨h, hd, hs⟩
  | get x =>
    show Agree (u.get x).1 s
    unfold UF.get
    split
    · rename_i hx
      exact agree_find (x := x) (u' := (u.findCore x).1) (r := (u.findCore x).2) ⟨h, hd, hs⟩
        (by unfold UF.find; rw [if_pos hx])
    · exact ⟨h, hd, hs⟩
  | component x =>
    simp only [UF.step]
    split
    · rename_i r hf; exact agree_find (u' := r.1) (r := r.2) ⟨h, hd, hs⟩ hf
    · exact ⟨h, hd, hs⟩
  | union a b =>
    simp only [UF.step]
    split
    · rename_i r hu
      have hu' : u.union a b = some (r.1, r.2) := hu
      obtain ⟨ha, hb, _, _⟩ := union_eq hu'
      have hspec : specStep s (.union a b) = ⟨s.elems, (a, b) :: s.pairs⟩ := by
        show (if a ∈ s.elems ∧ b ∈ s.elems then _ else _) = _
        rw [if_pos ⟨hd ▸ ha, hd ▸ hb⟩]
      rw [hspec]
      refine ⟨wf_union h hu', (union_dom h hu').trans hd, ?_⟩
      intro z w
      show Same r.1 z w ↔ EqvGen ((a, b) :: s.pairs) z w
      rw [union_merges' h hu' z w, eqvGen_cons]
      simp only [hs]
    · rename_i hu
      have hn := (union_keyerror u a b).1 hu
      have hspec : specStep s (.union a b) = s := by
        show (if a ∈ s.elems ∧ b ∈ s.elems then _ else _) = _
        rw [if_neg]
        rw [← hd]
        intro hab
        cases hn with
        | inl hn => exact hn hab.1
        | inr hn => exact hn hab.2
      rw [hspec]
      exact ⟨h, hd, hs⟩

theorem agree_run {u : UF} {s : SpecState} (hA : Agree u s) (ops : List Op) :
    Agree (u.run ops) (specRun s ops) := by
  induction ops generalizing u s with
  | nil => exact hA
  | cons op ops ih => exact ih (agree_step hA op)

theorem agree_empty : Agree UF.empty ⟨[], []⟩ := by
  refine ⟨wf_empty, rfl, ?_⟩
  intro x y
  rw [eqvGen_nil]
  unfold Same UF.empty
  simp only [rootOf_id]
  constructor
  · rintro ⟨r, h1, h2⟩; rw [← h1, ← h2]
  · intro e; exact ⟨x, rfl, e ▸ rfl⟩

/-- The elements of the structure are the added elements, and its partition is the
    specification partition. -/
theorem run_partition (ops : List Op) :
    (UF.run UF.empty ops).dom = (specRun ⟨[], []⟩ ops).elems ∧
    ∀ x y, x ∈ (UF.run UF.empty ops).dom → y ∈ (UF.run UF.empty ops).dom →
      (Same (UF.run UF.empty ops) x y ↔ specSame ops x y) := by
  obtain ⟨_, hd, hs⟩ := agree_run agree_empty ops
  refine ⟨hd, ?_⟩
  intro x y hx hy
  unfold specSame
  rw [hs x y]
  constructor
  · intro he; exact ⟨hd ▸ hx, hd ▸ hy, he⟩
  · intro he; exact he.2.2

/-! ## `items()` does not return representatives; concrete runs -/

theorem find_snd_root {u : UF} {x r : Nat} (h : WF u)
    (hf : (u.find x).map Prod.snd = some r) : RootOf u x r := by
  cases hfx : u.find x with
  | none => rw [hfx] at hf; exact absurd hf (by simp)
  | some p =>
    rw [hfx] at hf
    simp only [Option.map_some, Option.some.injEq] at hf
    subst hf
    exact (find_root (u' := p.1) (r := p.2) h hfx).1

/-- `add 0; add 1; add 2; union 1 2; union 0 1`. -/
def exOps : List Op := [.add 0, .add 1, .add 2, .union 1 2, .union 0 1]

/-- After `exOps`, `items()` contains `(2, 1)` (the direct parent of 2), although the
    representative of 2 is 0 and not 1: the docstring of `items`
    ("(element, representative) pairs") is wrong. -/
theorem items_counterexample :
    (2, 1) ∈ (UF.run UF.empty exOps).items ∧
    RootOf (UF.run UF.empty exOps) 2 0 ∧ ¬ RootOf (UF.run UF.empty exOps) 2 1 := by
  have h0 : RootOf (UF.run UF.empty exOps) 2 0 := find_snd_root (run_wf exOps) (by decide)
  refine ⟨by decide, h0, ?_⟩
  intro h1
  exact absurd (rootOf_unique h0 h1) (by decide)

/-! ### Non-vacuity: concrete evaluations -/

example : (UF.run UF.empty exOps).items = [(0, 0), (1, 0), (2, 1)] := by decide
example : (UF.run UF.empty exOps).sets = [(0, [0, 1, 2])] := by decide
example : (UF.run UF.empty exOps).representatives = [0] := by decide
example : ((UF.run UF.empty exOps).find 2).map Prod.snd = some 0 := by decide
-- path halving: after `find 2` the parent of 2 is the root
example : (UF.run UF.empty (exOps ++ [.find 2])).items = [(0, 0), (1, 0), (2, 0)] := by decide
example : ((UF.run UF.empty exOps).component 2).map Prod.snd = some [0, 1, 2] := by decide
-- KeyError cases
example : ((UF.run UF.empty exOps).find 5).isNone = true := by decide
example : ((UF.run UF.empty exOps).union 0 5).isNone = true := by decide
example : ((UF.run UF.empty exOps).component 5).isNone = true := by decide
example : ((UF.run UF.empty exOps).get 5).2 = none := by decide
example : ((UF.run UF.empty exOps).get 1).2 = some 0 := by decide
-- `add` of a present element returns its representative, of an absent one the element
example : ((UF.run UF.empty exOps).add 2).2 = 0 := by decide
example : ((UF.run UF.empty exOps).add 7).2 = 7 := by decide
-- the union returns the representative of the FIRST argument
example : ((UF.ofList [3, 1, 3, 2]).union 2 3).map Prod.snd = some 2 := by decide
example : (UF.ofList [3, 1, 3, 2]).dom = [3, 1, 2] := by decide
example : (UF.ofList [3, 1, 3, 2]).sets = [(3, [3]), (1, [1]), (2, [2])] := by decide
-- two separate classes
example :
    (UF.run (UF.ofList [0, 1, 2, 3, 4]) [.union 0 1, .union 3 4, .union 1 0]).sets
      = [(0, [0, 1]), (2, [2]), (3, [3, 4])] := by decide
-- the specification partition of `exOps`
example : specSame exOps 0 2 :=
  ⟨by decide, by decide,
    (EqvGen.pair 0 1 (by decide)).trans (EqvGen.pair 1 2 (by decide))⟩

end Fpy.C13
