/-
Loop restructuring, part 3: an emitted `for idx in <range cell>` whose body runs `k` copies per
iteration is `k·q` iterations of the element loop.
-/
import Fpy.Proof.LangIdx2
namespace Fpy.Xform
open Fpy Fpy.Lang

/-- the cell `g` of the right heap holds the list `RL` and no live left reference maps to it
(it was allocated by the emitted code only) -/
structure GCell (π : RMap) (D : List Nat) (g : Nat) (RL : List Val) (μ1 μ2 : Heap) : Prop where
  cell : μ2[g]? = some RL
  lt : g < μ2.length
  free : ∀ r, r ∉ D → r < μ1.length → π r ≠ g

theorem GCell.step {π : RMap} {D : List Nat} {g : Nat} {RL : List Val} {μ1 μ2 m1 m2 : Heap}
    (hg : GCell π D g RL μ1 μ2) (hx : ExtP π D μ1 μ2 m1 m2) : GCell π D g RL m1 m2 := by
  refine ⟨by rw [hx.keep g hg.lt hg.free]; exact hg.cell, Nat.lt_of_lt_of_le hg.lt hx.e2.le, fun r hrd hr => ?_⟩
  rcases Nat.lt_or_ge r μ1.length with h | h
  · exact hg.free r hrd h
  · have := hx.tail (r - μ1.length)
    rw [Nat.add_sub_cancel' h] at this
    have := hg.lt; omega

theorem ERS.congr_right {S : List String} {π : RMap} {D : List Nat} {d : Nat} {σ1 σ2 σ2' : Env}
    (h : ERS S π D d σ1 σ2) (heq : ∀ z, z ∈ S → σ2'.get? z = σ2.get? z) : ERS S π D d σ1 σ2' := by
  intro x hx; rw [heq x hx]; exact h x hx

theorem Jinv.congr_right {S : List String} {π : RMap} {D : List Nat} {r N : Nat} {t : String}
    {σ1 : Env} {μ1 : Heap} {σ2 σ2' : Env} {μ2 : Heap} (J : Jinv S π D r N t σ1 μ1 σ2 μ2)
    (heq : ∀ z, (z ∈ S ∨ z = t) → σ2'.get? z = σ2.get? z) : Jinv S π D r N t σ1 μ1 σ2' μ2 :=
  ⟨J.env.congr_right (fun z hz => heq z (.inl hz)), J.heap, J.rlive, J.cell, by rw [heq t (.inr rfl)]; exact J.tbind⟩

/-- the body of the main loop: the offsets under the integer context, then one copy per index -/
def mainBody (CI : Ctx) (p : Pat) (t idx : String) (offs : List String) (lits : List NV) (body : List Stmt) : List Stmt :=
  (match offs with
    | [] => []
    | _ :: _ => [.with (.ctxLit CI) none (offsetDefs idx offs lits)]) ++
  ((idx :: offs).map Expr.var).flatMap (fun ie => copyStmt p t ie body)

theorem forLoopω_bind_eq (Φ : Funs) (σ : Env) (μ : Heap) (C : Ctx) (g j : Nat) (x : String) (b : List Stmt)
    (k2 : Outcome × Heap → M (Outcome × Heap)) {RL : List Val} (hg : μ[g]? = some RL) {v : Val} (hv : RL[j]? = some v) :
    (forLoopω Φ σ μ C g j (.var x) b >>= k2) =
      evalBω Φ (σ.set x v) μ C b >>= fun r =>
        (match r with
          | (.ret w, m) => (Except.ok (.ret w, m) : M (Outcome × Heap))
          | (.normal σ', m) => forLoopω Φ σ' m C g (j + 1) (.var x) b) >>= k2 := by
  rw [forLoopω_eq]
  have hget : heapGet μ g = .ok RL := by unfold heapGet; rw [hg]
  rw [hget]
  show ((match RL[j]? with | none => _ | some x => _) >>= k2) = _
  rw [hv]
  show ((bindPatω (.var x) v σ >>= _) >>= k2) = _
  rw [bindPatω_var]
  show ((evalBω Φ (σ.set x v) μ C b >>= _) >>= k2) = _
  rw [bind_assoc]
  congr 1; funext r
  obtain ⟨o, m⟩ := r
  cases o <;> rfl

theorem forLoopω_end (Φ : Funs) (σ : Env) (μ : Heap) (C : Ctx) (g j : Nat) (p : Pat) (b : List Stmt)
    {RL : List Val} (hg : μ[g]? = some RL) (hv : RL[j]? = none) :
    forLoopω Φ σ μ C g j p b = .ok (.normal σ, μ) := by
  rw [forLoopω_eq]
  have hget : heapGet μ g = .ok RL := by unfold heapGet; rw [hg]
  rw [hget]
  show (match RL[j]? with | none => _ | some x => _) = _
  rw [hv]

theorem mainBody_eval (Φ : Funs) {CI : Ctx} (IA : IntArith CI) (C : Ctx) (p : Pat) (t idx : String) (body : List Stmt)
    (μ : Heap) {w0 : NV} {i : Nat} (hw0 : nvInt? w0 = some (i : Int))
    (offs : List String) (lits : List NV) (σ : Env) (hidx : σ.get? idx = some (.num w0)) (hni : idx ∉ offs)
    (hnd : offs.Nodup) (hlen : offs.length = lits.length)
    (hl : ∀ j (h : j < lits.length), nvInt? lits[j] = some ((1 + j : Nat) : Int)) :
    ∃ σb, evalBω Φ σ μ C (mainBody CI p t idx offs lits body) =
        evalBω Φ σb μ C (((idx :: offs).map Expr.var).flatMap (fun ie => copyStmt p t ie body)) ∧
      (∀ z, z ∉ offs → σb.get? z = σ.get? z) ∧
      (∀ j (h : j < offs.length), ∃ w, σb.get? offs[j] = some (.num w) ∧ nvInt? w = some ((i + (1 + j) : Nat) : Int)) := by
  cases offs with
  | nil =>
    refine ⟨σ, ?_, fun _ _ => rfl, fun j h => absurd h (by simp)⟩
    simp only [mainBody, List.nil_append]
  | cons o os =>
    obtain ⟨σ', h1, h2, h3⟩ := offsets_eval Φ IA idx μ hw0 (o :: os) lits 1 σ hidx hni hnd hlen hl
    refine ⟨σ', ?_, h2, h3⟩
    simp only [mainBody]
    rw [evalBω_append, evalBω_single, with_ctx_wrap, h1]
    rfl

theorem mainloop_cont {Ans : M (Outcome × Heap) → M (Outcome × Heap) → Prop} (hA : AnsOK Ans)
    {Φ : Funs} {C CI : Ctx} (IA : IntArith CI) {S : List String} {π : RMap} {D : List Nat} {r N : Nat} {t : String}
    {p : Pat} {body : List Stmt} (hreads : ∀ z ∈ readsB body, z ∈ S)
    {idx : String} {offs : List String} {lits : List NV} (base k q : Nat)
    (hk : offs.length + 1 = k) (hlits : offs.length = lits.length)
    (hl : ∀ j (h : j < lits.length), nvInt? lits[j] = some ((1 + j : Nat) : Int))
    (hnd : (idx :: offs).Nodup)
    (hfreshS : ∀ z ∈ idx :: offs, z ∉ S ∧ z ≠ t)
    (hfreshB : ∀ z ∈ t :: idx :: offs, z ∉ bvP p ++ bvB body)
    {g : Nat} {RL : List Val} (hRLlen : RL.length = q)
    (hRL : ∀ j, j < q → RL[j]? = some (intVal ((base + k * j : Nat) : Int)))
    (hN : base + k * q ≤ N)
    (k2 : Outcome × Heap → M (Outcome × Heap)) (hk2 : ∀ v m, k2 (.ret v, m) = .ok (.ret v, m)) :
    ∀ (c j : Nat), j + c = q → ∀ {σ1 : Env} {μ1 : Heap} {σ2 : Env} {μ2 : Heap},
      Jinv S π D r N t σ1 μ1 σ2 μ2 → GCell π D g RL μ1 μ2 →
      (∀ σ1' m1 σ2' m2, Jinv S π D r N t σ1' m1 σ2' m2 → GCell π D g RL m1 m2 → ExtP π D μ1 μ2 m1 m2 →
        (∀ z, z ∉ (idx :: offs) ++ (bvP p ++ bvB body) → σ2'.get? z = σ2.get? z) →
        Ans (forLoopω Φ σ1' m1 C r (base + k * q) p body) (k2 (.normal σ2', m2))) →
      Ans (forLoopω Φ σ1 μ1 C r (base + k * j) p body)
        (forLoopω Φ σ2 μ2 C g j (.var idx) (mainBody CI p t idx offs lits body) >>= k2) := by
  intro c
  induction c with
  | zero =>
    intro j hj σ1 μ1 σ2 μ2 J G hK
    have hjq : j = q := by omega
    subst hjq
    rw [forLoopω_end Φ σ2 μ2 C g j _ _ G.cell (List.getElem?_eq_none (by omega)), ok_bind]
    exact hK σ1 μ1 σ2 μ2 J G (ExtP.refl J.heap) (fun _ _ => rfl)
  | succ c ih =>
    intro j hj σ1 μ1 σ2 μ2 J G hK
    have hjq : j < q := by omega
    obtain ⟨w0, hv, hw0⟩ := nvInt_intVal ((base + k * j : Nat) : Int)
    have hidxS := hfreshS idx List.mem_cons_self
    rw [forLoopω_bind_eq Φ σ2 μ2 C g j idx _ k2 G.cell (hRL j hjq), hv]
    -- the environment with the loop index bound
    have hidx : (σ2.set idx (.num w0)).get? idx = some (.num w0) := by rw [Env.get?_set, if_pos rfl]
    have Ja : Jinv S π D r N t σ1 μ1 (σ2.set idx (.num w0)) μ2 := J.congr_right (by
      intro z hz
      rw [Env.get?_set, if_neg]
      rcases hz with hz | hz
      · intro e; exact hidxS.1 (e ▸ hz)
      · intro e; exact hidxS.2 (e.symm.trans hz))
    obtain ⟨σb, hmb, hb1, hb2⟩ := mainBody_eval Φ IA C p t idx body μ2 hw0 offs lits _ hidx
      (List.nodup_cons.1 hnd).1 (List.nodup_cons.1 hnd).2 hlits hl
    rw [hmb]
    have Jb : Jinv S π D r N t σ1 μ1 σb μ2 := Ja.congr_right (by
      intro z hz
      apply hb1
      intro hzo
      have := hfreshS z (List.mem_cons_of_mem _ hzo)
      rcases hz with hz | hz
      · exact this.1 hz
      · exact this.2 hz)
    have htp : t ∉ bvP p ++ bvB body := hfreshB t List.mem_cons_self
    have hkk : ((idx :: offs).map Expr.var).length = k := by simpa using hk
    refine copies_cont hA hreads htp ((idx :: offs).map Expr.var) (base + k * j) Jb
      (fun ie hie z hz => by
        obtain ⟨iv, hiv, rfl⟩ := List.mem_map.1 hie
        have : z = iv := by simpa [readsE] using hz
        rw [this]; exact hfreshB iv (List.mem_cons_of_mem _ hiv)) ?_ (by
        rw [hkk]
        have h1 : k * (j + 1) ≤ k * q := Nat.mul_le_mul_left _ hjq
        rw [Nat.mul_succ] at h1
        omega) _ ?_ ?_
    · intro j' hj'
      cases j' with
      | zero =>
        simp only [List.map_cons, List.getElem_cons_zero, Nat.add_zero]
        exact AtomInt.var (by rw [hb1 idx (List.nodup_cons.1 hnd).1]; exact hidx) hw0
      | succ j' =>
        obtain ⟨w, h1, h2⟩ := hb2 j' (by simpa using hj')
        simp only [List.map_cons, List.getElem_cons_succ, List.getElem_map]
        exact AtomInt.var h1 (by rw [h2]; congr 1; omega)
    · intro v m; show ((Except.ok (.ret v, m) : M (Outcome × Heap)) >>= k2) = _; rw [ok_bind, hk2]
    · intro σ1' m1 σ2' m2 J' hx hfr
      show Ans _ (forLoopω Φ σ2' m2 C g (j + 1) (.var idx) _ >>= k2)
      have hidx' : base + k * j + ((idx :: offs).map Expr.var).length = base + k * (j + 1) := by rw [hkk, Nat.mul_succ]; omega
      rw [hidx']
      refine ih (j + 1) (by omega) J' (G.step hx) ?_
      intro σ1'' m1' σ2'' m2' J'' G'' hx' hfr'
      refine hK σ1'' m1' σ2'' m2' J'' G'' (hx.trans hx') ?_
      intro z hz
      have hz1 : z ∉ idx :: offs := mem_of_not_mem_append_left hz
      have hz2 : z ∉ bvP p ++ bvB body := mem_of_not_mem_append_right hz
      rw [hfr' z hz, hfr z hz2, hb1 z (fun h => hz1 (List.mem_cons_of_mem _ h)), Env.get?_set,
        if_neg (by intro e; subst e; exact hz1 List.mem_cons_self)]

end Fpy.Xform
