/-
C12 (round 2) — the reader: the updates of a loop (`while*`: in place; `while` with one variable: through a temporary).
-/
import Fpy.Proof.FPCoreReadMono
set_option linter.unusedSimpArgs false
set_option linter.unusedVariables false
set_option linter.unusedSectionVars false
namespace Fpy.C12
open Fpy Fpy.Lang

section
variable (Φ : Funs) (nm : Nat → String)

/-- assigning a variable and the name that holds it -/
theorem rinv_update {k : Nat} {m : RMap} {ρ σ : Env} (h : RInv nm k m ρ σ) {x y : String} (hxy : m.get? x = some y) (v : Val) :
    RInv nm k m (ρ.set x v) (σ.set y v) := by
  refine ⟨fun x' y' h' => ⟨(h.1 x' y' h').1, ?_⟩, h.2⟩
  by_cases hx : x' = x
  · subst hx
    rw [hxy] at h'
    cases h'
    rw [get?_set_self, get?_set_self]
  · have hy : y' ≠ y := fun e => hx (h.2 x' x y (e ▸ h') hxy)
    rw [get?_set_ne _ _ _ _ hx, get?_set_ne _ _ _ _ hy]
    exact (h.1 x' y' h').2

/-- the updates of a `while*`, read at counter `k`; `k0`: the names below it are not touched -/
def UpdStarOK (n : Nat) : Prop :=
  ∀ (binds : List (String × FExpr × FExpr)) (k0 k : Nat) (m1 : RMap) (P : Props) (C : Ctx) (ρ0 ρa σ : Env) (μ : Heap)
    (ρ' : Env) (ss : List Stmt) (k' : Nat),
    evalBinds n true ρ0 ρa P (binds.map fun b => (b.1, b.2.2)) = .ok ρ' → readUpdStar nm k m1 P binds = some (ss, k') →
    P.toCtx = .ok C → RInv nm k m1 ρa σ → k0 ≤ k →
    (∀ b, b ∈ binds → ∀ y, m1.get? b.1 = some y → ∃ j, k0 ≤ j ∧ y = nm j) →
    k ≤ k' ∧ ∃ σ', Runs Φ σ μ C ss σ' μ ∧ Ext nm k0 σ σ' ∧ RInv nm k' m1 ρ' σ'

variable (hnm : ∀ i j, nm i = nm j → i = j)
include hnm

theorem upd_star_step (n : Nat) (hR : ReadOK Φ nm n) (hU : UpdStarOK Φ nm n) : UpdStarOK Φ nm (n + 1) := by
  intro binds k0 k m1 P C ρ0 ρa σ μ ρ' ss k' h hr hP hI hk0 hfresh
  cases binds with
  | nil =>
    rw [List.map_nil, evalBinds_nil] at h
    cases h
    simp only [readUpdStar, Option.some.injEq, Prod.mk.injEq] at hr
    obtain ⟨rfl, rfl⟩ := hr
    exact ⟨Nat.le_refl _, σ, runs_nil Φ σ μ C, Ext.refl nm k0 σ, hI⟩
  | cons b rest =>
    obtain ⟨x, i, u⟩ := b
    rw [List.map_cons, evalBinds_cons] at h
    simp only [if_true] at h
    simp only [readUpdStar] at hr
    cases hre : readE nm k m1 P u with
    | none => rw [hre] at hr; simp at hr
    | some r1 =>
      obtain ⟨s, r, k1⟩ := r1
      cases hy : m1.get? x with
      | none => rw [hre, hy] at hr; simp at hr
      | some y =>
        rw [hre, hy] at hr
        simp only at hr
        cases hrest : readUpdStar nm k1 m1 P rest with
        | none => rw [hrest] at hr; cases hr
        | some r2 =>
          obtain ⟨ss2, k2⟩ := r2
          rw [hrest] at hr
          simp only [Option.some.injEq, Prod.mk.injEq] at hr
          obtain ⟨rfl, rfl⟩ := hr
          cases hv : eval n ρa P u with
          | error err => rw [hv] at h; cases h
          | ok v =>
            rw [hv] at h
            simp only [bind, Except.bind] at h
            obtain ⟨hk1, σ1, hrun1, hext1, hval1⟩ := hR u k m1 P C ρa σ μ v s r k1 hv hre hP hI
            have hg : Gives Φ σ1 μ C r v := hval1 σ1 (Ext.refl nm k1 σ1)
            have hrun2 := runs_assign Φ (x := y) hg
            obtain ⟨j, hj0, rfl⟩ := hfresh (x, i, u) (by simp) y hy
            have hI1 : RInv nm k1 m1 ρa σ1 := hI.mono nm hk1 hext1
            have hI2 : RInv nm k1 m1 (ρa.set x v) (σ1.set (nm j) v) := rinv_update nm hI1 hy v
            have hext2 : Ext nm k0 σ (σ1.set (nm j) v) := (hext1.mono nm hk0).trans nm (ext_set nm hnm σ1 v hj0)
            obtain ⟨hk2, σ3, hrun3, hext3, hI3⟩ := hU rest k0 k1 m1 P C ρ0 _ _ μ ρ' ss2 k2 h hrest hP hI2 (by omega)
              (fun b hb => hfresh b (List.mem_cons_of_mem _ hb))
            refine ⟨by omega, σ3, ?_, hext2.trans nm hext3, hI3⟩
            have := runs_append Φ s hrun1 (runs_append Φ [.assign (.var (nm j)) r] hrun2 hrun3)
            simpa [List.append_assoc] using this

/-- the update of a parallel `while` with ONE variable: the new value goes through a temporary -/
theorem upd_tmp_one (n : Nat) (hR : ReadOK Φ nm n) {x : String} {i u : FExpr} {k0 k1 : Nat} {m1 : RMap} {P : Props} {C : Ctx}
    {ρa σa : Env} {μ : Heap} {ρb : Env} {ss rebinds : List Stmt} {k2 : Nat}
    (h : evalBinds (n + 1) false ρa ρa P [(x, u)] = .ok ρb)
    (hr : readUpdTmpGo nm k1 m1 P [(x, i, u)] = some (ss, rebinds, k2)) (hP : P.toCtx = .ok C)
    (hI : RInv nm k1 m1 ρa σa)
    (hfresh : ∀ y, m1.get? x = some y → ∃ j, k0 ≤ j ∧ y = nm j) (hk0 : k0 ≤ k1) :
    ∃ σb, Runs Φ σa μ C (ss ++ rebinds) σb μ ∧ Ext nm k0 σa σb ∧ RInv nm k1 m1 ρb σb := by
  rw [evalBinds_cons] at h
  simp only [Bool.false_eq_true, if_false] at h
  simp only [readUpdTmpGo] at hr
  cases hre : readE nm k1 m1 P u with
  | none => rw [hre] at hr; simp at hr
  | some r1 =>
    obtain ⟨s, r, k1'⟩ := r1
    cases hy : m1.get? x with
    | none => rw [hre, hy] at hr; simp at hr
    | some y =>
      rw [hre, hy] at hr
      simp only [Option.some.injEq, Prod.mk.injEq] at hr
      obtain ⟨rfl, rfl, rfl⟩ := hr
      cases hv : eval n ρa P u with
      | error err => rw [hv] at h; cases h
      | ok v =>
        rw [hv] at h
        simp only [bind, Except.bind] at h
        cases n with
        | zero => simp [eval] at hv
        | succ n0 =>
          rw [evalBinds_nil] at h
          cases h
          obtain ⟨hk1', σ1, hrun1, hext1, hval1⟩ := hR u k1 m1 P C ρa σa μ v s r k1' hv hre hP hI
          have hg : Gives Φ σ1 μ C r v := hval1 σ1 (Ext.refl nm k1' σ1)
          have hrun2 := runs_assign Φ (x := nm k1') hg
          have hg3 : Gives Φ (σ1.set (nm k1') v) μ C (.var (nm k1')) v :=
            ⟨1, by rw [evalE_var, get?_set_self]⟩
          have hrun3 := runs_assign Φ (x := y) hg3
          obtain ⟨j, hj0, rfl⟩ := hfresh y hy
          have hextA : Ext nm k1 σa (σ1.set (nm k1') v) := hext1.trans nm (ext_set nm hnm σ1 v hk1')
          have hI2 : RInv nm k1 m1 ρa (σ1.set (nm k1') v) := hI.mono nm (Nat.le_refl _) hextA
          refine ⟨(σ1.set (nm k1') v).set (nm j) v, ?_, ?_, rinv_update nm hI2 hy v⟩
          · have := runs_append Φ s hrun1 (runs_append Φ [.assign (.var (nm k1')) r] hrun2 hrun3)
            simpa [List.append_assoc] using this
          · exact (hextA.mono nm hk0).trans nm (ext_set nm hnm _ v hj0)

end
end Fpy.C12
