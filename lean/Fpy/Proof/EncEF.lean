/-
Helper lemmas for C16: `EFloatFormat` encode / decode / representable_in / maxval, via the ordinal
map of the underlying `MPSFloatFormat` (the magnitude field of a pattern IS the ordinal).
-/
import Fpy.Proof.EncOrd
namespace Fpy
open Fpy.Enc Fpy.Spec

theorem ef_mps_expmin (f : EF) : f.mpb.mps.expmin = f.expmin := rfl
theorem ef_mps_p (f : EF) : f.mpb.mps.p = f.pmax := rfl
theorem ef_mps_emin (f : EF) : f.mpb.mps.emin = f.emin := rfl
theorem ef_m (f : EF) : f.m = f.pmax - 1 := rfl

theorem ef_pmax_pos (f : EF) (hv : f.valid = true) : 1 ≤ f.pmax := by
  have ⟨h1, h2⟩ := ef_valid_basic f hv; rw [ef_pmax]; omega

/-- the `(ebits, mbits)` fields `encode` computes for a finite non-zero value OR together to the
unsigned ordinal of the value (the two fields overlap only when `ebits = 0`) -/
theorem ef_fields_fin (f : EF) (x : RF) (hc : x.c ≠ 0) :
    ∃ e mb, f.encodeFields (.fin x) = .ok (e, mb) ∧ 2 ^ f.m * e ||| mb = mpsUord f.mpb.mps x := by
  unfold EF.encodeFields mpsUord
  simp only [hc, if_false, ef_mps_emin, ef_mps_expmin, ef_mps_p]
  by_cases h : x.e ≤ f.emin
  · simp only [h, if_true]
    exact ⟨_, _, rfl, by simp⟩
  · simp only [h, if_false]
    refine ⟨_, _, rfl, ?_⟩
    have hlt : shiftDown x.c ((x.p : Int) - f.pmax) % 2 ^ (f.pmax - 1) < 2 ^ f.m := by
      rw [ef_m]; exact Nat.mod_lt _ (two_pow_pos' _)
    rw [two_pow_mul_or _ _ _ hlt, ef_m, Nat.mul_comm]

/-- the finite value the layout assigns to sign `s`, exponent field `E`, mantissa field `M`
is `from_ordinal(± (A·E + M))` of the underlying MPS format (for a non-zero magnitude) -/
theorem ef_number_unord (f : MPSFmt) (hp : 1 ≤ f.p) (s : Bool) (E M : Nat) (hM : M < 2 ^ (f.p - 1))
    (hG : 2 ^ (f.p - 1) * E + M ≠ 0) :
    (if E = 0 then (⟨s, f.expmin, M⟩ : RF) else ⟨s, f.expmin + ((E : Int) - 1), 2 ^ (f.p - 1) + M⟩) =
      f.unordRF (if s then -((2 ^ (f.p - 1) * E + M : Nat) : Int) else ((2 ^ (f.p - 1) * E + M : Nat) : Int)) := by
  have hA := two_pow_pos' (f.p - 1)
  unfold MPSFmt.unordRF
  generalize hGd : 2 ^ (f.p - 1) * E + M = G at *
  have hk : (if s then -(G : Int) else (G : Int)) ≠ 0 := by cases s <;> simp <;> omega
  have hna : (if s then -(G : Int) else (G : Int)).natAbs = G := by cases s <;> simp
  have hlt : decide ((if s then -(G : Int) else (G : Int)) < 0) = s := by cases s <;> simp <;> omega
  simp only [hk, if_false, hna, hlt]
  have hdiv : G / 2 ^ (f.p - 1) = E := by
    rw [← hGd, Nat.mul_add_div hA, Nat.div_eq_of_lt hM]; rfl
  have hmod : G % 2 ^ (f.p - 1) = M := by
    rw [← hGd, Nat.mul_add_mod, Nat.mod_eq_of_lt hM]
  rw [hdiv, hmod, two_pow_or _ _ hM]

/-- `RealFloat.normalize(p, n)` leaves a value already in canonical position unchanged -/
theorem normalize_canonical (x : RF) (p : Nat) (n : Int) (h1 : x.p = p) (h2 : n < x.exp) :
    x.normalize (some p) (some n) = some ⟨x.s, x.exp, x.c⟩ := by
  unfold RF.normalize
  have a : ((p : Int) - (x.p : Int)) = 0 := by omega
  simp only [a, Int.sub_zero]
  have b : ¬ (x.exp ≤ n) := by omega
  simp [b]

/-- `next_towards_zero(p, n)` of a value in canonical position -/
theorem ntz_canonical (x : RF) (p : Nat) (n : Int) (hc : x.c ≠ 0)
    (h : (x.exp = n + 1 ∧ x.p ≤ p) ∨ (x.exp > n + 1 ∧ x.p = p)) :
    x.nextTowardsZero p n =
      some (if x.exp > n + 1 && bitLength (x.c - 1) < p then ⟨x.s, x.exp - 1, (x.c - 1) * 2 + 1⟩
            else ⟨x.s, x.exp, x.c - 1⟩) := by
  unfold RF.nextTowardsZero
  simp only [hc, if_false]
  rcases h with ⟨h1, h2⟩ | ⟨h1, h2⟩
  · have a : (x.exp != n + 1 || decide (x.p > p)) = false := by
      have : ¬ (x.p > p) := by omega
      simp [h1, this]
    simp only [a, Bool.false_eq_true, if_false]
    split <;> rfl
  · have a : (x.exp != n + 1 || decide (x.p > p)) = true := by
      have : x.exp ≠ n + 1 := by omega
      simp [this]
    simp only [a, if_true, normalize_canonical x p n h2 (by omega)]
    split <;> rfl

theorem two_pow_or' (A b : Nat) (h : b < A) (hA : ∃ i, A = 2 ^ i) : A ||| b = A + b := by
  obtain ⟨i, rfl⟩ := hA; exact two_pow_or i b h

theorem ntz_unord (f : MPSFmt) (hp : 1 ≤ f.p) (k : Nat) (hk : 1 ≤ k) :
    (f.unordRF (k : Int)).nextTowardsZero f.p f.nmin =
      some (if k = 1 then ⟨false, f.expmin, 0⟩ else f.unordRF ((k : Int) - 1)) := by
  have hA := two_pow_pos' (f.p - 1)
  have hAA := two_pow_pred f.p hp
  have hn : f.nmin + 1 = f.expmin := by unfold MPSFmt.nmin; omega
  have hk0 : (k : Int) ≠ 0 := by omega
  have ⟨hc, hs, _, _, hge, hcan⟩ := mps_unord_facts f hp k hk0
  have hcanon : ((f.unordRF k).exp = f.nmin + 1 ∧ (f.unordRF k).p ≤ f.p) ∨ ((f.unordRF k).exp > f.nmin + 1 ∧ (f.unordRF k).p = f.p) := by
    rcases hcan with ⟨h1, h2⟩ | h2
    · left; refine ⟨by omega, ?_⟩
      have := (bitLength_le_iff (f.unordRF k).c (f.p - 1)).2 h2
      unfold RF.p; omega
    · by_cases h3 : (f.unordRF k).exp = f.expmin
      · left; exact ⟨by omega, by unfold RF.p; omega⟩
      · right; exact ⟨by omega, h2⟩
  rw [ntz_canonical _ _ _ hc hcanon]
  congr 1
  -- compute both sides from the definition of `from_ordinal`
  unfold MPSFmt.unordRF
  have e0 : ((k : Int)).natAbs = k := by simp
  have e1 : ¬ ((k : Int) < 0) := by omega
  simp only [hk0, if_false, e0, e1, decide_false, hn]
  have hd := Nat.div_add_mod k (2 ^ (f.p - 1))
  have hm := Nat.mod_lt k hA
  by_cases hk1 : k = 1
  · -- the smallest positive value steps to zero
    subst hk1
    simp only [if_true]
    by_cases hA1 : 2 ^ (f.p - 1) = 1
    · have a : 1 / 2 ^ (f.p - 1) = 1 := by rw [hA1]
      have b : 1 % 2 ^ (f.p - 1) = 0 := by rw [hA1]
      simp [a, b, hA1]
    · have a : 1 / 2 ^ (f.p - 1) = 0 := Nat.div_eq_of_lt (by omega)
      have b : 1 % 2 ^ (f.p - 1) = 1 := Nat.mod_eq_of_lt (by omega)
      simp [a, b]
  · simp only [hk1, if_false]
    have hk2 : ((k : Int) - 1) ≠ 0 := by omega
    have e2 : ((k : Int) - 1).natAbs = k - 1 := by omega
    have e3 : ¬ ((k : Int) - 1 < 0) := by omega
    simp only [hk2, if_false, e2, e3, decide_false]
    have hd' := Nat.div_add_mod (k - 1) (2 ^ (f.p - 1))
    have hm' := Nat.mod_lt (k - 1) hA
    simp only [two_pow_or _ _ hm, two_pow_or _ _ hm']
    have hblA : ∀ c, bitLength c < f.p ↔ c < 2 ^ (f.p - 1) := fun c => by
      rw [← bitLength_le_iff]; omega
    simp only [hblA]
    clear hblA hcanon hcan hge hs hc
    generalize 2 ^ (f.p - 1) = A at *
    by_cases he : k / A = 0
    · -- subnormal
      have hlt : k < A := by rcases Nat.div_eq_zero_iff.1 he with h | h <;> omega
      have a : k % A = k := Nat.mod_eq_of_lt hlt
      have b : (k - 1) / A = 0 := Nat.div_eq_of_lt (by omega)
      have c : (k - 1) % A = k - 1 := Nat.mod_eq_of_lt (by omega)
      simp [he, a, b, c]
    · -- normal: significand A + r in binade e ≥ 1
      have hge1 : 1 ≤ k / A := Nat.pos_of_ne_zero he
      simp only [he, if_false]
      generalize hed : k / A = e at *
      generalize hrd : k % A = r at *
      by_cases hr0 : r = 0
      · subst hr0
        have hk' : k - 1 = A * (e - 1) + (A - 1) := by
          have : A * e = A * (e - 1) + A := by
            have : e = (e - 1) + 1 := by omega
            conv => lhs; rw [this, Nat.mul_add, Nat.mul_one]
          omega
        have a : (k - 1) / A = e - 1 := by
          rw [hk', Nat.mul_add_div hA, Nat.div_eq_of_lt (by omega)]; rfl
        have b : (k - 1) % A = A - 1 := by
          rw [hk', Nat.mul_add_mod, Nat.mod_eq_of_lt (by omega)]
        rw [a, b]
        by_cases he1 : e = 1
        · subst he1
          have c1 : ¬ (f.expmin + (((1 : Nat) : Int) - 1) > f.expmin) := by omega
          simp only [c1, decide_false, Bool.false_and, Bool.false_eq_true, if_false]
          simp
        · have c1 : f.expmin + ((e : Int) - 1) > f.expmin := by omega
          have c2 : A + 0 - 1 < A := by omega
          have c3 : ¬ (e - 1 = 0) := by omega
          simp only [c1, c2, decide_true, Bool.and_self, if_true, c3, if_false]
          congr 1
          · omega
          · omega
      · have hk' : k - 1 = A * e + (r - 1) := by omega
        have a : (k - 1) / A = e := by
          rw [hk', Nat.mul_add_div hA, Nat.div_eq_of_lt (by omega)]; rfl
        have b : (k - 1) % A = r - 1 := by
          rw [hk', Nat.mul_add_mod, Nat.mod_eq_of_lt (by omega)]
        rw [a, b]
        have c2 : ¬ (A + r - 1 < A) := by omega
        simp only [c2, decide_false, Bool.and_false, Bool.false_eq_true, if_false, he]
        congr 1
        omega

/-- positive canonical value with ordinal `K` (zero is spelled with `exp = expmin`) -/
def mpsCanon (f : MPSFmt) (K : Nat) : RF := if K = 0 then ⟨false, f.expmin, 0⟩ else f.unordRF (K : Int)

theorem unordRF_pos (f : MPSFmt) (K : Nat) (hK : K ≠ 0) :
    f.unordRF (K : Int) =
      if K / 2 ^ (f.p - 1) = 0 then ⟨false, f.expmin, K % 2 ^ (f.p - 1)⟩
      else ⟨false, f.expmin + ((K / 2 ^ (f.p - 1) : Nat) - 1 : Int), 2 ^ (f.p - 1) + K % 2 ^ (f.p - 1)⟩ := by
  unfold MPSFmt.unordRF
  have a : (K : Int) ≠ 0 := by omega
  have b : ¬ ((K : Int) < 0) := by omega
  have c : ((K : Int)).natAbs = K := by simp
  simp only [a, if_false, b, decide_false, c, two_pow_or _ _ (Nat.mod_lt K (two_pow_pos' _))]

theorem binadeMax_canon (f : MPSFmt) (hp : 1 ≤ f.p) (e : Int) (hd : f.emin - 1 ≤ e) :
    binadeMax f.p f.emin e = mpsCanon f ((e - f.emin + 2).toNat * 2 ^ (f.p - 1) - 1) := by
  have hA := two_pow_pos' (f.p - 1)
  have hAA := two_pow_pred f.p hp
  have hem : f.expmin = f.emin - f.p + 1 := rfl
  unfold binadeMax bitmask mpsCanon
  by_cases h : e ≥ f.emin
  · simp only [h, if_true]
    generalize hD : (e - f.emin + 2).toNat = D
    have hD2 : 2 ≤ D := by omega
    have hK : D * 2 ^ (f.p - 1) - 1 ≠ 0 := by
      have : 2 * 2 ^ (f.p - 1) ≤ D * 2 ^ (f.p - 1) := Nat.mul_le_mul_right _ hD2
      omega
    simp only [hK, if_false]
    rw [unordRF_pos f _ hK]
    have hKe : D * 2 ^ (f.p - 1) - 1 = 2 ^ (f.p - 1) * (D - 1) + (2 ^ (f.p - 1) - 1) := by
      have : D * 2 ^ (f.p - 1) = 2 ^ (f.p - 1) * (D - 1) + 2 ^ (f.p - 1) := by
        have : D = (D - 1) + 1 := by omega
        conv => lhs; rw [this, Nat.add_mul, Nat.one_mul, Nat.mul_comm]
      omega
    have a : (D * 2 ^ (f.p - 1) - 1) / 2 ^ (f.p - 1) = D - 1 := by
      rw [hKe, Nat.mul_add_div hA, Nat.div_eq_of_lt (by omega)]; rfl
    have b : (D * 2 ^ (f.p - 1) - 1) % 2 ^ (f.p - 1) = 2 ^ (f.p - 1) - 1 := by
      rw [hKe, Nat.mul_add_mod, Nat.mod_eq_of_lt (by omega)]
    rw [a, b]
    have c : ¬ (D - 1 = 0) := by omega
    simp only [c, if_false]
    congr 1
    · omega
    · omega
  · simp only [h, if_false]
    have he : e = f.emin - 1 := by omega
    subst he
    have e1 : (f.emin - (f.emin - 1)).toNat = 1 := by omega
    have e2 : (f.emin - 1 - f.emin + 2).toNat = 1 := by omega
    rw [e1, e2, Nat.one_mul, hAA]
    have e3 : (2 * 2 ^ (f.p - 1) - 1) / 2 ^ 1 = 2 ^ (f.p - 1) - 1 := by
      generalize 2 ^ (f.p - 1) = A at *; omega
    rw [e3]
    by_cases hK : 2 ^ (f.p - 1) - 1 = 0
    · simp only [hK, if_true]; congr 1
    · simp only [hK, if_false]
      rw [unordRF_pos f _ hK]
      have a : (2 ^ (f.p - 1) - 1) / 2 ^ (f.p - 1) = 0 := Nat.div_eq_of_lt (by omega)
      have b : (2 ^ (f.p - 1) - 1) % 2 ^ (f.p - 1) = 2 ^ (f.p - 1) - 1 := Nat.mod_eq_of_lt (by omega)
      simp only [a, b, if_true]
      congr 1

/-- stepping a canonical positive value towards zero decrements the ordinal -/
theorem ntz_canon (f : MPSFmt) (hp : 1 ≤ f.p) (K : Nat) (hK : 1 ≤ K) :
    ((mpsCanon f K).nextTowardsZero f.p f.nmin).getD (mpsCanon f K) = mpsCanon f (K - 1) := by
  unfold mpsCanon
  have : K ≠ 0 := by omega
  simp only [this, if_false, ntz_unord f hp K hK, Option.getD_some]
  by_cases h1 : K = 1
  · subst h1; simp
  · have : K - 1 ≠ 0 := by omega
    simp only [h1, if_false, this]
    congr 1; omega

/-- the largest finite magnitude code of the layout (what `_ext_to_mpb_fmt` has to find) -/
def efGmax (f : EF) : Nat :=
  match f.kind with
  | .ieee => 2 ^ (f.pmax - 1) * (2 ^ f.es - 1) - 1
  | .maxVal => if f.inf then 2 ^ (f.nbits - 1) - 3 else 2 ^ (f.nbits - 1) - 2
  | .negZero => if f.inf then 2 ^ (f.nbits - 1) - 2 else 2 ^ (f.nbits - 1) - 1
  | .none => if f.inf then 2 ^ (f.nbits - 1) - 2 else 2 ^ (f.nbits - 1) - 1

theorem mpsCanon_c (f : MPSFmt) (hp : 1 ≤ f.p) (K : Nat) : (mpsCanon f K).c = 0 ↔ K = 0 := by
  unfold mpsCanon
  by_cases h : K = 0
  · simp [h]
  · simp only [h, if_false, iff_false]
    exact (mps_unord_facts f hp K (by omega)).1

/-- the emax/emin arithmetic of `_ext_to_mpb_fmt`: `emax - emin + 2 = 2^es - 1` -/
theorem ef_emax_emin (es : Nat) :
    (if (es == 0) = true then (-1 : Int) else ((if (es == 0) = true then (0 : Int) else (bitmask (es - 1) : Int)))) -
      (1 - (if (es == 0) = true then (0 : Int) else (bitmask (es - 1) : Int))) + 2 = ((2 ^ es - 1 : Nat) : Int) := by
  by_cases h : es = 0
  · subst h; simp
  · have hb : (es == 0) = false := by simp [h]
    simp only [hb, Bool.false_eq_true, if_false, bitmask]
    have := two_pow_pred es (by omega)
    have := two_pow_pos' (es - 1)
    generalize 2 ^ (es - 1) = X at *
    generalize 2 ^ es = Y at *
    omega

theorem ef_maxv_canon (f : EF) (hv : f.valid = true) :
    f.maxv = (if efGmax f = 0 then ⟨false, f.emin, 0⟩ else f.mpb.mps.unordRF (efGmax f : Int)) := by
  have ⟨hn, hes⟩ := ef_valid_basic f hv
  have ⟨hki, hkm, hkz⟩ := ef_valid_kind f hv
  have hp := ef_pmax_pos f hv
  have hpm := ef_pmax f
  -- the final zero normalisation
  suffices h : ∃ K, K = efGmax f ∧
      (efloatMpb f.es f.nbits f.inf f.kind f.eoff).2.2 =
        (if (mpsCanon f.mpb.mps K).c = 0 then ⟨false, f.emin, 0⟩ else mpsCanon f.mpb.mps K) by
    obtain ⟨K, hK, h⟩ := h
    unfold EF.maxv; rw [h, ← hK]
    by_cases h0 : K = 0
    · subst h0
      have := (mpsCanon_c f.mpb.mps hp 0).2 rfl
      simp only [this, if_true]
    · have : ¬ (mpsCanon f.mpb.mps K).c = 0 := fun h => h0 ((mpsCanon_c f.mpb.mps hp K).1 h)
      simp only [this, if_false, h0]
      unfold mpsCanon; simp only [h0, if_false]
  -- shape of `_ext_to_mpb_fmt`
  have hg : f.mpb.mps = ⟨f.nbits - f.es, f.emin, true, true⟩ := rfl
  have hnm : f.emin - ((f.nbits - f.es : Nat) : Int) = f.mpb.mps.nmin := by
    unfold MPSFmt.nmin MPSFmt.expmin; rw [hg]; simp only; omega
  have hdd := ef_emax_emin f.es
  have hH : 2 ^ (f.nbits - 1) = 2 ^ (f.pmax - 1) * 2 ^ f.es := by
    rw [← Nat.pow_add]; congr 1; rw [hpm]; omega
  have hB := two_pow_pos' f.es
  have hA := two_pow_pos' (f.pmax - 1)
  have hB2 : 1 ≤ f.es → 2 ≤ 2 ^ f.es := fun h => by
    have := two_pow_pred f.es h; have := two_pow_pos' (f.es - 1); omega
  have hB4 : 2 ≤ f.es → 4 ≤ 2 ^ f.es := fun h => by
    have := two_pow_pred f.es (by omega); have := two_pow_pred (f.es - 1) (by omega)
    have := two_pow_pos' (f.es - 1 - 1); omega
  -- the three `_binade_max` calls, as canonical values
  have hbm : ∀ j : Int, 1 ≤ ((2 ^ f.es - 1 : Nat) : Int) + j →
      binadeMax (f.nbits - f.es) f.emin (f.emin + (((2 ^ f.es - 1 : Nat) : Int) - 2) + j) =
        mpsCanon f.mpb.mps ((((2 ^ f.es - 1 : Nat) : Int) + j).toNat * 2 ^ (f.pmax - 1) - 1) := by
    intro j hj
    have := binadeMax_canon f.mpb.mps hp (f.emin + (((2 ^ f.es - 1 : Nat) : Int) - 2) + j) (by rw [ef_mps_emin]; omega)
    rw [ef_mps_emin, ef_mps_p] at this
    rw [← hpm] ; rw [this]; congr 3; omega
  have hemin : 1 - (if (f.es == 0) = true then (0:Int) else (bitmask (f.es - 1) : Int)) + f.eoff = f.emin := rfl
  have hemax : (if (f.es == 0) = true then (-1 : Int) else ((if (f.es == 0) = true then (0 : Int) else (bitmask (f.es - 1) : Int)))) + f.eoff
      = f.emin + (((2 ^ f.es - 1 : Nat) : Int) - 2) := by
    rw [← hemin]; omega
  have hmulP : (((2 ^ f.es - 1 : Nat) : Int) + 1).toNat * 2 ^ (f.pmax - 1) = 2 ^ (f.nbits - 1) := by
    have : (((2 ^ f.es - 1 : Nat) : Int) + 1).toNat = 2 ^ f.es := by omega
    rw [this, hH, Nat.mul_comm]
  have hmul0 : (((2 ^ f.es - 1 : Nat) : Int) + 0).toNat * 2 ^ (f.pmax - 1) = 2 ^ (f.nbits - 1) - 2 ^ (f.pmax - 1) := by
    have : (((2 ^ f.es - 1 : Nat) : Int) + 0).toNat = 2 ^ f.es - 1 := by omega
    rw [this, hH, Nat.sub_mul, Nat.one_mul, Nat.mul_comm]
  have hmulM : 2 ≤ 2 ^ f.es → (((2 ^ f.es - 1 : Nat) : Int) + -1).toNat * 2 ^ (f.pmax - 1) = 2 ^ (f.nbits - 1) - 2 * 2 ^ (f.pmax - 1) := by
    intro h2
    have : (((2 ^ f.es - 1 : Nat) : Int) + -1).toNat = 2 ^ f.es - 2 := by omega
    rw [this, hH, Nat.sub_mul, Nat.mul_comm]
  have hbmP : binadeMax (f.nbits - f.es) f.emin (f.emin + (((2 ^ f.es - 1 : Nat) : Int) - 2) + 1) =
      mpsCanon f.mpb.mps (2 ^ (f.nbits - 1) - 1) := by
    rw [hbm 1 (by omega), hmulP]
  have hbm0 : 2 ≤ 2 ^ f.es → binadeMax (f.nbits - f.es) f.emin (f.emin + (((2 ^ f.es - 1 : Nat) : Int) - 2)) =
      mpsCanon f.mpb.mps (2 ^ (f.nbits - 1) - 2 ^ (f.pmax - 1) - 1) := by
    intro h2
    have := hbm 0 (by omega)
    rw [Int.add_zero] at this
    rw [this, hmul0]
  have hbmM : 3 ≤ 2 ^ f.es → binadeMax (f.nbits - f.es) f.emin (f.emin + (((2 ^ f.es - 1 : Nat) : Int) - 2) - 1) =
      mpsCanon f.mpb.mps (2 ^ (f.nbits - 1) - 2 * 2 ^ (f.pmax - 1) - 1) := by
    intro h3
    have := hbm (-1) (by omega)
    rw [← Int.sub_eq_add_neg] at this
    rw [this, hmulM (by omega)]
  have hntz : ∀ K, 1 ≤ K → ((mpsCanon f.mpb.mps K).nextTowardsZero (f.nbits - f.es) f.mpb.mps.nmin).getD (mpsCanon f.mpb.mps K) =
      mpsCanon f.mpb.mps (K - 1) := fun K hK => ntz_canon f.mpb.mps hp K hK
  have hH2 : 2 ≤ f.nbits → 2 ≤ 2 ^ (f.nbits - 1) := fun h => by
    have := two_pow_pred (f.nbits - 1) (by omega); have := two_pow_pos' (f.nbits - 1 - 1); omega
  have hH4 : 3 ≤ f.nbits → 4 ≤ 2 ^ (f.nbits - 1) := fun h => by
    have := two_pow_pred (f.nbits - 1) (by omega); have := two_pow_pred (f.nbits - 1 - 1) (by omega)
    have := two_pow_pos' (f.nbits - 1 - 1 - 1); omega
  have hA1 : f.nbits - f.es = 1 → 2 ^ (f.pmax - 1) = 1 := fun h => by rw [hpm, h]
  have hA2 : f.nbits - f.es = 2 → 2 ^ (f.pmax - 1) = 2 := fun h => by rw [hpm, h]
  have hAmul : 2 ^ (f.pmax - 1) * (2 ^ f.es - 1) = 2 ^ (f.nbits - 1) - 2 ^ (f.pmax - 1) := by
    rw [hH, Nat.mul_sub, Nat.mul_one]
  refine ⟨efGmax f, rfl, ?_⟩
  unfold efloatMpb efGmax
  simp only [hemax, hemin, hnm, hAmul]
  clear hbm hmulP hmul0 hmulM hAmul
  have fin_eq : ∀ K' K : Nat, K' = K →
      (if (mpsCanon f.mpb.mps K').c = 0 then (⟨false, f.emin, 0⟩ : RF) else mpsCanon f.mpb.mps K') =
      (if (mpsCanon f.mpb.mps K).c = 0 then (⟨false, f.emin, 0⟩ : RF) else mpsCanon f.mpb.mps K) := by
    intro K' K h; subst h; rfl
  rw [hbmP]
  cases hk : f.kind <;> simp only
  · -- IEEE
    have ⟨he, _⟩ := hki hk
    rw [hbm0 (hB2 he)]
  · -- MAX_VAL
    have ⟨h2, h3⟩ := hkm hk
    have hH2' := hH2 h2
    by_cases hp1 : f.nbits - f.es = 1
    · have hb1 : (f.nbits - f.es == 1) = true := by simp [hp1]
      simp only [hb1, if_true]
      cases hi : f.inf
      · simp only [Bool.false_eq_true, if_false]
        rw [hbm0 (hB2 (by omega)), hA1 hp1]
        exact fin_eq _ _ (by omega)
      · simp only [if_true]
        have := hH4 (h3 hi)
        rw [hbmM (by have := hB4 (by have := h3 hi; omega); omega), hA1 hp1]
        exact fin_eq _ _ (by omega)
    · have hb1 : (f.nbits - f.es == 1) = false := by simp [hp1]
      simp only [hb1, Bool.false_eq_true, if_false]
      by_cases hp2 : (f.nbits - f.es == 2 && f.inf) = true
      · simp only [hp2, if_true]
        simp only [Bool.and_eq_true, beq_iff_eq] at hp2
        have := hH4 (h3 hp2.2)
        rw [hbm0 (hB2 (by have := h3 hp2.2; omega)), hA2 hp2.1, hp2.2]
        simp only [if_true]
        exact fin_eq _ _ (by omega)
      · simp only [hp2, Bool.false_eq_true, if_false]
        cases hi : f.inf
        · simp only [Bool.false_eq_true, if_false]
          rw [hntz _ (by omega)]
          exact fin_eq _ _ (by omega)
        · simp only [if_true]
          have := hH4 (h3 hi)
          rw [hntz _ (by omega), hntz _ (by omega)]
          exact fin_eq _ _ (by omega)
  · -- NEG_ZERO
    by_cases hp1 : f.nbits - f.es = 1
    · have hb1 : (f.nbits - f.es == 1) = true := by simp [hp1]
      simp only [hb1, if_true]
      cases hi : f.inf
      · simp only [Bool.false_eq_true, if_false]
      · simp only [if_true]
        have := hkz (.inl hk) hi
        rw [hbm0 (hB2 (by omega)), hA1 hp1]
        exact fin_eq _ _ (by omega)
    · have hb1 : (f.nbits - f.es == 1) = false := by simp [hp1]
      simp only [hb1, Bool.false_eq_true, if_false]
      cases hi : f.inf
      · simp only [Bool.false_eq_true, if_false]
      · simp only [if_true]
        have := hH2 (hkz (.inl hk) hi)
        rw [hntz _ (by omega)]
        exact fin_eq _ _ (by omega)
  · -- NONE
    by_cases hp1 : f.nbits - f.es = 1
    · have hb1 : (f.nbits - f.es == 1) = true := by simp [hp1]
      simp only [hb1, if_true]
      cases hi : f.inf
      · simp only [Bool.false_eq_true, if_false]
      · simp only [if_true]
        have := hkz (.inr hk) hi
        rw [hbm0 (hB2 (by omega)), hA1 hp1]
        exact fin_eq _ _ (by omega)
    · have hb1 : (f.nbits - f.es == 1) = false := by simp [hp1]
      simp only [hb1, Bool.false_eq_true, if_false]
      cases hi : f.inf
      · simp only [Bool.false_eq_true, if_false]
      · simp only [if_true]
        have := hH2 (hkz (.inr hk) hi)
        rw [hntz _ (by omega)]
        exact fin_eq _ _ (by omega)

theorem two_pow_ge (k n : Nat) (h : k ≤ n) : 2 ^ k ≤ 2 ^ n := Nat.pow_le_pow_right (by decide) h

/-- `_has_nonzero` says exactly whether the layout has a non-zero finite code -/
theorem ef_hasNonzero (f : EF) (hv : f.valid = true) : f.hasNonzero = decide (1 ≤ efGmax f) := by
  have ⟨hn, hes⟩ := ef_valid_basic f hv
  have ⟨hki, hkm, hkz⟩ := ef_valid_kind f hv
  have hpm := ef_pmax f
  have hH : 2 ^ (f.nbits - 1) = 2 ^ (f.pmax - 1) * 2 ^ f.es := by
    rw [← Nat.pow_add]; congr 1; rw [hpm]; omega
  have hAmul : 2 ^ (f.pmax - 1) * (2 ^ f.es - 1) = 2 ^ (f.nbits - 1) - 2 ^ (f.pmax - 1) := by
    rw [hH, Nat.mul_sub, Nat.mul_one]
  unfold EF.hasNonzero efloatHasNonzero efGmax
  rw [hAmul]
  by_cases h3 : f.nbits > 2
  · -- three or more bits: there is always a non-zero code
    have hH4 : 4 ≤ 2 ^ (f.nbits - 1) := by
      have := two_pow_ge 2 (f.nbits - 1) (by omega); omega
    have hAle : 2 * 2 ^ (f.pmax - 1) ≤ 2 ^ (f.nbits - 1) ∨ f.es = 0 := by
      by_cases h0 : f.es = 0
      · right; exact h0
      · left
        have := two_pow_pred (f.nbits - 1) (by omega)
        have := two_pow_ge (f.pmax - 1) (f.nbits - 1 - 1) (by omega)
        omega
    simp only [h3, if_true]
    cases hk : f.kind <;> simp only
    · have ⟨he, _⟩ := hki hk
      rcases hAle with h | h
      · exact (decide_eq_true (by omega)).symm
      · omega
    · cases f.inf <;> simp <;> omega
    · cases f.inf <;> simp <;> omega
    · cases f.inf <;> simp <;> omega
  · simp only [h3, if_false]
    by_cases h1 : f.nbits = 1
    · have hH1 : 2 ^ (f.nbits - 1) = 1 := by rw [h1]
      have hb : (f.nbits == 1) = true := by simp [h1]
      simp only [hb, if_true, hH1]
      cases hk : f.kind <;> simp only
      · have ⟨he, _⟩ := hki hk; omega
      · have ⟨h2, _⟩ := hkm hk; omega
      · cases f.inf <;> simp
      · cases f.inf <;> simp
    · have h2 : f.nbits = 2 := by omega
      have hH2 : 2 ^ (f.nbits - 1) = 2 := by rw [h2]
      have hb : (f.nbits == 1) = false := by simp [h1]
      simp only [hb, Bool.false_eq_true, if_false, hH2]
      cases hk : f.kind <;> simp only
      · have ⟨he, _⟩ := hki hk
        have hA : 2 ^ (f.pmax - 1) = 1 := by
          have : f.pmax - 1 = 0 := by omega
          rw [this]
        rw [hA]; simp
      · cases f.inf <;> simp
      · cases f.inf <;> simp
      · cases f.inf <;> simp

theorem reprRF_sign (g : MPSFmt) (x : RF) (s : Bool) : g.reprRF { x with s := s } = g.reprRF x := by
  unfold MPSFmt.reprRF RF.isMoreSignificant RF.p RF.e RF.p; rfl

theorem mpsUord_sign (g : MPSFmt) (x : RF) (s : Bool) : mpsUord g { x with s := s } = mpsUord g x := by
  unfold mpsUord RF.e RF.p; rfl

/-- the code's `<=` on representable values is `<=` on ordinals -/
theorem mps_le_iff_ord (g : MPSFmt) (hp : 1 ≤ g.p) (x y : RF) (hx : g.reprRF x = true) (hy : g.reprRF y = true) :
    x.le y = true ↔ g.ordRF x ≤ g.ordRF y := by
  rw [le_iff_units]
  have h := mps_ordinal_strict_mono g hp y x hy hx
  unfold ltValue at h
  rw [Int.min_comm] at h
  constructor
  · intro h1
    have : ¬ (g.ordRF y < g.ordRF x) := fun h2 => by have := h.1 h2; omega
    omega
  · intro h1
    have : ¬ (units y (min x.exp y.exp) < units x (min x.exp y.exp)) := fun h2 => by have := h.2 h2; omega
    omega

theorem ef_maxv_facts (f : EF) (hv : f.valid = true) :
    f.mpb.mps.reprRF f.maxv = true ∧ f.maxv.s = false ∧ f.mpb.mps.ordRF f.maxv = efGmax f ∧
    (f.maxv.c = 0 ↔ efGmax f = 0) := by
  have hp := ef_pmax_pos f hv
  rw [ef_maxv_canon f hv]
  by_cases h0 : efGmax f = 0
  · simp only [h0, if_true]
    refine ⟨by unfold MPSFmt.reprRF; simp, trivial, by unfold MPSFmt.ordRF; simp, by simp⟩
  · simp only [h0, if_false]
    have ⟨hc, hs, hr, hu, _⟩ := mps_unord_facts f.mpb.mps hp (efGmax f : Int) (by omega)
    refine ⟨hr, by rw [hs]; simp, mps_to_from_ordinal f.mpb.mps hp _, ?_⟩
    simp [hc]

theorem reprRF_sign' (g : MPSFmt) (x : RF) (s : Bool) : g.reprRF ⟨s, x.exp, x.c⟩ = g.reprRF x := by
  unfold MPSFmt.reprRF RF.isMoreSignificant RF.p RF.e RF.p; rfl

theorem mpsUord_sign' (g : MPSFmt) (x : RF) (s : Bool) : mpsUord g ⟨s, x.exp, x.c⟩ = mpsUord g x := by
  unfold mpsUord RF.e RF.p; rfl

theorem ef_repr_inf (f : EF) (s : Bool) : f.repr (.inf s) = f.inf := by
  unfold EF.repr MPBFmt.repr EF.mpb FV.isInf FV.isNan FV.isNar
  cases f.inf <;> simp

theorem ef_repr_nan (f : EF) (s : Bool) : f.repr (.nan s) = !(f.kind == .none) := by
  unfold EF.repr MPBFmt.repr EF.mpb FV.isInf FV.isNan FV.isNar
  cases f.kind <;> simp

theorem ef_repr_fin_zero (f : EF) (x : RF) (hc : x.c = 0) : f.repr (.fin x) = !(x.s && f.kind == .negZero) := by
  have h1 : f.mpb.repr (.fin x) = true := by
    unfold MPBFmt.repr MPSFmt.reprRF; simp [hc]
  unfold EF.repr FV.isInf FV.isNan FV.isZero FV.sign FV.isNar
  simp [h1, hc]

/-- representability of a non-zero finite value: representable in the unbounded format, ordinal within
the largest finite code, and — as the code is written — the format has some non-zero value -/
theorem ef_repr_fin_nonzero (f : EF) (hv : f.valid = true) (x : RF) (hc : x.c ≠ 0) :
    f.repr (.fin x) = (f.mpb.mps.reprRF x && decide (mpsUord f.mpb.mps x ≤ efGmax f) && f.hasNonzero) := by
  have hp := ef_pmax_pos f hv
  have ⟨mr, ms, mo, mz⟩ := ef_maxv_facts f hv
  have hc' : (x.c == 0) = false := by simp [hc]
  unfold EF.repr FV.isInf FV.isNan FV.isZero FV.sign FV.isNar
  simp only [Bool.false_and, Bool.false_eq_true, if_false, hc']
  unfold MPBFmt.repr
  by_cases hr : f.mpb.mps.reprRF x = true
  · simp only [hr, Bool.not_true, Bool.false_eq_true, if_false, hc, Bool.true_and]
    have hpos : f.mpb.posMax = f.maxv := rfl
    have hneg : f.mpb.negMax = ⟨true, f.maxv.exp, f.maxv.c⟩ := rfl
    have hnr : f.mpb.mps.reprRF ⟨true, f.maxv.exp, f.maxv.c⟩ = true := by rw [reprRF_sign']; exact mr
    have hord := mps_ordRF_eq f.mpb.mps x hc
    have hle : (if x.s then f.mpb.negMax.le x else x.le f.mpb.posMax) = decide (mpsUord f.mpb.mps x ≤ efGmax f) := by
      rw [Bool.eq_iff_iff]
      cases hs : x.s
      · simp only [Bool.false_eq_true, if_false, hpos, decide_eq_true_eq]
        rw [mps_le_iff_ord _ hp _ _ hr mr, mo, hord, hs]; simp
      · simp only [if_true, hneg, decide_eq_true_eq]
        rw [mps_le_iff_ord _ hp _ _ hnr hr, hord, hs]
        have : f.mpb.mps.ordRF ⟨true, f.maxv.exp, f.maxv.c⟩ = -(efGmax f : Int) := by
          by_cases hz : f.maxv.c = 0
          · have : efGmax f = 0 := mz.1 hz
            unfold MPSFmt.ordRF; simp [hz, this]
          · rw [mps_ordRF_eq _ ⟨true, f.maxv.exp, f.maxv.c⟩ hz]
            have h1 := mps_ordRF_eq f.mpb.mps f.maxv hz
            rw [ms, mo] at h1
            simp only [Bool.false_eq_true, if_false] at h1
            simp only [if_true, mpsUord_sign']; omega
        rw [this]; simp
    rw [hle]
    by_cases hd : mpsUord f.mpb.mps x ≤ efGmax f <;> simp [hd]
  · simp [hr]

/-- the finite value with sign `s` and magnitude code `G` -/
def efNumber (f : EF) (s : Bool) (G : Nat) : RF :=
  if G = 0 then ⟨s, f.expmin, 0⟩ else f.mpb.mps.unordRF (if s then -(G : Int) else (G : Int))

/-- **classification of the layout by the magnitude code** `G = b mod 2^(nbits-1)`: codes up to
`efGmax` are the finite numbers (`from_ordinal(±G)`), the next one is ±∞ when infinities are on,
everything above is NaN; NEG_ZERO turns the code of `-0` into NaN. -/
theorem ef_layout_class (f : EF) (hv : f.valid = true) (b : Nat) (hb : b < 2 ^ f.nbits) :
    efLayout f.es f.nbits f.inf f.kind f.eoff b =
      (if f.kind = .negZero ∧ b % 2 ^ (f.nbits - 1) = 0 ∧ b / 2 ^ (f.nbits - 1) = 1 then .nan (decide (b / 2 ^ (f.nbits - 1) = 1))
       else if b % 2 ^ (f.nbits - 1) ≤ efGmax f then .fin (efNumber f (decide (b / 2 ^ (f.nbits - 1) = 1)) (b % 2 ^ (f.nbits - 1)))
       else if f.inf = true ∧ b % 2 ^ (f.nbits - 1) = efGmax f + 1 then .inf (decide (b / 2 ^ (f.nbits - 1) = 1))
       else .nan (decide (b / 2 ^ (f.nbits - 1) = 1))) := by
  have ⟨hn, hes⟩ := ef_valid_basic f hv
  have ⟨hki, hkm, hkz⟩ := ef_valid_kind f hv
  have hp := ef_pmax_pos f hv
  have hm : f.nbits - f.es - 1 = f.m := by unfold EF.m; rw [ef_pmax]
  have hH : 2 ^ (f.nbits - 1) = 2 ^ f.m * 2 ^ f.es := by
    rw [← Nat.pow_add]; congr 1; unfold EF.m; rw [ef_pmax]; omega
  have hN := two_pow_pred f.nbits hn
  have hexp := ef_expmin f hv
  rw [hm] at hexp
  have hA := two_pow_pos' f.m
  have hB := two_pow_pos' f.es
  have hB2 : 1 ≤ f.es → 2 ≤ 2 ^ f.es := fun h => by
    have := two_pow_pred f.es h; have := two_pow_pos' (f.es - 1); omega
  have hH2 : 2 ≤ f.nbits → 2 ≤ 2 ^ (f.nbits - 1) := fun h => by
    have := two_pow_pred (f.nbits - 1) (by omega); have := two_pow_pos' (f.nbits - 1 - 1); omega
  have hH4 : 3 ≤ f.nbits → 4 ≤ 2 ^ (f.nbits - 1) := fun h => by
    have := two_pow_ge 2 (f.nbits - 1) (by omega); omega
  rw [hN, hH] at hb
  have ⟨fS, fE, fM, fmag, fb, fmagl⟩ := ef_fields b (2 ^ f.m) (2 ^ f.es) hA hB hb
  -- the `number` arm of the layout is `efNumber`
  have hnum : ∀ s : Bool,
      (if b / 2 ^ f.m % 2 ^ f.es = 0 then (FV.fin ⟨s, 1 - efBias f.es + f.eoff - (f.m : Int), b % 2 ^ f.m⟩)
       else FV.fin ⟨s, ((b / 2 ^ f.m % 2 ^ f.es : Nat) : Int) - efBias f.es + f.eoff - (f.m : Int), 2 ^ f.m + b % 2 ^ f.m⟩) =
      FV.fin (efNumber f s (b % (2 ^ f.m * 2 ^ f.es))) := by
    intro s
    unfold efNumber
    by_cases hG : b % (2 ^ f.m * 2 ^ f.es) = 0
    · have hE : b / 2 ^ f.m % 2 ^ f.es = 0 := by
        rw [fmag] at hG
        have h1 : 2 ^ f.m * (b / 2 ^ f.m % 2 ^ f.es) = 0 := by omega
        rcases Nat.mul_eq_zero.1 h1 with h2 | h2 <;> omega
      have hM0 : b % 2 ^ f.m = 0 := by rw [fmag] at hG; omega
      simp only [hG, hE, hM0, if_true, hexp]
    · simp only [hG, if_false]
      have hG' : 2 ^ (f.mpb.mps.p - 1) * (b / 2 ^ f.m % 2 ^ f.es) + b % 2 ^ f.m ≠ 0 := by
        rw [fmag] at hG; exact hG
      have := ef_number_unord f.mpb.mps hp s (b / 2 ^ f.m % 2 ^ f.es) (b % 2 ^ f.m) fM hG'
      rw [ef_mps_expmin, hexp] at this
      rw [fmag]
      have e1 : f.mpb.mps.p - 1 = f.m := rfl
      rw [e1] at this
      rw [← this]
      by_cases hE : b / 2 ^ f.m % 2 ^ f.es = 0
      · simp only [hE, if_true]
      · simp only [hE, if_false]; congr 2; omega
  unfold efLayout
  simp only [hm]
  rw [hnum]
  unfold efGmax
  have hpm1 : f.pmax - 1 = f.m := rfl
  rw [hH, hpm1]
  have hAB : 2 ^ f.nbits = 2 * (2 ^ f.m * 2 ^ f.es) := by rw [hN, hH]
  have hHH2 : 2 ≤ f.nbits → 2 ≤ 2 ^ f.m * 2 ^ f.es := fun h => by rw [← hH]; exact hH2 h
  have hHH4 : 3 ≤ f.nbits → 4 ≤ 2 ^ f.m * 2 ^ f.es := fun h => by rw [← hH]; exact hH4 h
  -- IEEE: position of the magnitude relative to the top exponent code
  have hie : 2 ≤ 2 ^ f.es →
      (b / 2 ^ f.m % 2 ^ f.es = 2 ^ f.es - 1 ↔ ¬ (b % (2 ^ f.m * 2 ^ f.es) ≤ 2 ^ f.m * (2 ^ f.es - 1) - 1)) ∧
      (b / 2 ^ f.m % 2 ^ f.es = 2 ^ f.es - 1 → (b % 2 ^ f.m = 0 ↔ b % (2 ^ f.m * 2 ^ f.es) = 2 ^ f.m * (2 ^ f.es - 1) - 1 + 1)) := by
    intro h2
    have hpos : 1 ≤ 2 ^ f.m * (2 ^ f.es - 1) := Nat.mul_pos hA (by omega)
    constructor
    · constructor
      · intro hE; rw [fmag, hE]; omega
      · intro hgt
        by_cases hE : b / 2 ^ f.m % 2 ^ f.es = 2 ^ f.es - 1
        · exact hE
        · exfalso
          have h3 : b / 2 ^ f.m % 2 ^ f.es + 1 ≤ 2 ^ f.es - 1 := by omega
          have h4 := Nat.mul_le_mul_left (2 ^ f.m) h3
          rw [Nat.mul_add, Nat.mul_one] at h4
          omega
    · intro hE; rw [fmag, hE]; omega
  clear hH hN hH2 hH4 fb hb hnum hexp
  generalize b / (2 ^ f.m * 2 ^ f.es) = S at *
  generalize b / 2 ^ f.m % 2 ^ f.es = E at *
  generalize b % 2 ^ f.m = M at *
  generalize b % (2 ^ f.m * 2 ^ f.es) = G at *
  generalize 2 ^ f.m * (2 ^ f.es - 1) = AB1 at *
  generalize 2 ^ f.m * 2 ^ f.es = H at *
  generalize 2 ^ f.m = A at *
  generalize 2 ^ f.es = B at *
  cases hk : f.kind <;> simp only
  · -- IEEE
    have ⟨he, _⟩ := hki hk
    have ⟨h1, h2⟩ := hie (hB2 he)
    have hnz : ¬ (NanKind.ieee = NanKind.negZero ∧ G = 0 ∧ S = 1) := by simp
    simp only [hnz, if_false]
    by_cases hE : E = B - 1
    · have hgt := h1.1 hE
      have hmi := h2 hE
      simp only [hE, if_true, hgt, if_false]
      by_cases hM0 : M = 0
      · have := hmi.1 hM0
        cases hi : f.inf <;> simp [hM0, this]
      · have : ¬ (G = AB1 - 1 + 1) := fun h => hM0 (hmi.2 h)
        cases hi : f.inf <;> simp [hM0, this]
    · have hle : G ≤ AB1 - 1 := by
        by_cases h : G ≤ AB1 - 1
        · exact h
        · exact absurd (h1.2 h) hE
      simp only [hE, if_false, hle, if_true]
  · -- MAX_VAL
    have ⟨h2, h3⟩ := hkm hk
    have hH2' := hHH2 h2
    have hnz : ¬ (NanKind.maxVal = NanKind.negZero ∧ G = 0 ∧ S = 1) := by simp
    simp only [hnz, if_false]
    cases hi : f.inf
    · simp only [Bool.false_eq_true, if_false, Bool.false_and, false_and]
      split <;> (try split) <;> (try split) <;> first | rfl | (exfalso; omega)
    · have hH4' := hHH4 (h3 hi)
      simp only [if_true, Bool.true_and, true_and, decide_eq_true_eq]
      split <;> (try split) <;> (try split) <;> (try split) <;> first | rfl | (exfalso; omega)
  · -- NEG_ZERO
    simp only [true_and]
    cases hi : f.inf
    · simp only [Bool.false_eq_true, if_false, Bool.false_and, false_and]
      split <;> (try split) <;> (try split) <;> first | rfl | (exfalso; omega)
    · have hH2' := hHH2 (hkz (.inl hk) hi)
      simp only [if_true, Bool.true_and, true_and, decide_eq_true_eq]
      split <;> (try split) <;> (try split) <;> (try split) <;> (try split) <;> first | rfl | (exfalso; omega)
  · -- NONE
    have hnz : ¬ (NanKind.none = NanKind.negZero ∧ G = 0 ∧ S = 1) := by simp
    simp only [hnz, if_false]
    cases hi : f.inf
    · simp only [Bool.false_eq_true, if_false, Bool.false_and, false_and]
      split <;> (try split) <;> first | rfl | (exfalso; omega)
    · have hH2' := hHH2 (hkz (.inr hk) hi)
      simp only [if_true, Bool.true_and, true_and, decide_eq_true_eq]
      split <;> (try split) <;> (try split) <;> first | rfl | (exfalso; omega)

theorem ef_Gmax_lt (f : EF) (hv : f.valid = true) : efGmax f < 2 ^ (f.nbits - 1) := by
  have ⟨hn, hes⟩ := ef_valid_basic f hv
  have hpm := ef_pmax f
  have hH : 2 ^ (f.nbits - 1) = 2 ^ (f.pmax - 1) * 2 ^ f.es := by
    rw [← Nat.pow_add]; congr 1; rw [hpm]; omega
  have hAmul : 2 ^ (f.pmax - 1) * (2 ^ f.es - 1) = 2 ^ (f.nbits - 1) - 2 ^ (f.pmax - 1) := by
    rw [hH, Nat.mul_sub, Nat.mul_one]
  have := two_pow_pos' (f.nbits - 1)
  have := two_pow_pos' (f.pmax - 1)
  unfold efGmax
  rw [hAmul]
  generalize 2 ^ (f.nbits - 1) = H at *
  generalize 2 ^ (f.pmax - 1) = A at *
  cases f.kind <;> simp only <;> (try split) <;> omega

/-- the pattern `encode` builds from a sign bit and the two fields -/
theorem ef_encode_of_fields (f : EF) (v : FV) (e mb : Nat) (hr : f.repr v = true)
    (hf : f.encodeFields v = .ok (e, mb)) :
    f.encode v = .ok ((2 ^ (f.nbits - 1) * f.encodeSign v ||| 2 ^ f.m * e) ||| mb) := by
  unfold EF.encode
  simp only [hr, Bool.not_true, Bool.false_eq_true, if_false, hf]

theorem or_field_add (H s X : Nat) (hH : ∃ k, H = 2 ^ k) (hX : X < H) : H * s ||| X = H * s + X := by
  obtain ⟨k, rfl⟩ := hH; exact two_pow_mul_or k s X hX

theorem ef_encode_fin_nonzero (f : EF) (hv : f.valid = true) (x : RF) (hc : x.c ≠ 0) (hr : f.repr (.fin x) = true) :
    mpsUord f.mpb.mps x ≤ efGmax f ∧
    f.encode (.fin x) = .ok (2 ^ (f.nbits - 1) * (if x.s then 1 else 0) + mpsUord f.mpb.mps x) := by
  have hr0 := hr
  rw [ef_repr_fin_nonzero f hv x hc] at hr
  simp only [Bool.and_eq_true, decide_eq_true_eq] at hr
  obtain ⟨⟨_, hle⟩, _⟩ := hr
  refine ⟨hle, ?_⟩
  obtain ⟨e, mb, hf, hor⟩ := ef_fields_fin f x hc
  rw [ef_encode_of_fields f _ e mb hr0 hf, Nat.or_assoc, hor]
  have hlt : mpsUord f.mpb.mps x < 2 ^ (f.nbits - 1) := Nat.lt_of_le_of_lt hle (ef_Gmax_lt f hv)
  rw [or_field_add _ _ _ ⟨_, rfl⟩ hlt]
  rfl

theorem ef_encode_fin_zero (f : EF) (x : RF) (hc : x.c = 0) (hr : f.repr (.fin x) = true) :
    f.encode (.fin x) = .ok (2 ^ (f.nbits - 1) * (if x.s then 1 else 0)) := by
  have hf : f.encodeFields (.fin x) = .ok (0, 0) := by unfold EF.encodeFields; simp [hc]
  rw [ef_encode_of_fields f _ 0 0 hr hf]
  simp only [EF.encodeSign, FV.sign, Nat.mul_zero, Nat.or_zero]
  obtain ⟨s, e, c⟩ := x
  cases s <;> rfl

/-- decoding the pattern with sign bit `S` and magnitude code `G` -/
theorem ef_decode_split (f : EF) (hv : f.valid = true) (S G : Nat) (hS : S ≤ 1) (hG : G < 2 ^ (f.nbits - 1)) :
    2 ^ (f.nbits - 1) * S + G < 2 ^ f.nbits ∧
    f.decode (2 ^ (f.nbits - 1) * S + G) =
      .ok (if f.kind = .negZero ∧ G = 0 ∧ S = 1 then .nan (decide (S = 1))
       else if G ≤ efGmax f then .fin (efNumber f (decide (S = 1)) G)
       else if f.inf = true ∧ G = efGmax f + 1 then .inf (decide (S = 1))
       else .nan (decide (S = 1))) := by
  have ⟨hn, hes⟩ := ef_valid_basic f hv
  have hN := two_pow_pred f.nbits hn
  have hH := two_pow_pos' (f.nbits - 1)
  have hlt : 2 ^ (f.nbits - 1) * S + G < 2 ^ f.nbits := by
    have : S = 0 ∨ S = 1 := by omega
    rcases this with h | h <;> subst h <;> omega
  refine ⟨hlt, ?_⟩
  rw [ef_decode_layout f hv _ hlt, ef_layout_class f hv _ hlt]
  have e1 : (2 ^ (f.nbits - 1) * S + G) / 2 ^ (f.nbits - 1) = S := by
    rw [Nat.mul_add_div hH, Nat.div_eq_of_lt hG]; rfl
  have e2 : (2 ^ (f.nbits - 1) * S + G) % 2 ^ (f.nbits - 1) = G := by
    rw [Nat.mul_add_mod, Nat.mod_eq_of_lt hG]
  rw [e1, e2]

end Fpy
