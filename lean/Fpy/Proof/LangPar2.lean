/-
Heap-location parametricity, part 2: the step lemma for `evalE`.
-/
import Fpy.Proof.LangPar1
namespace Fpy.Xform
open Fpy Fpy.Lang

theorem RelM.imp {α β : Type} {P Q : α → β → Prop} {a : M α} {b : M β} (h : RelM P a b) (hpq : ∀ x y, P x y → Q x y) :
    RelM Q a b := by
  cases a <;> cases b <;> simp only [RelM] at h ⊢
  · exact h
  · exact hpq _ _ h

theorem QE.rebase {π : RMap} {D : List Nat} {μ1 μ2 m1 m2 : Heap} (hx : ExtP π D μ1 μ2 m1 m2) {a b : M (Val × Heap)}
    (h : RelM (QE π D m1 m2) a b) : RelM (QE π D μ1 μ2) a b :=
  h.imp fun _ _ q => ⟨q.val, q.heap, hx.trans q.ext⟩

theorem QEs.rebase {π : RMap} {D : List Nat} {μ1 μ2 m1 m2 : Heap} (hx : ExtP π D μ1 μ2 m1 m2) {a b : M (List Val × Heap)}
    (h : RelM (QEs π D m1 m2) a b) : RelM (QEs π D μ1 μ2) a b :=
  h.imp fun _ _ q => ⟨q.val, q.heap, hx.trans q.ext⟩

theorem QS.rebase {π : RMap} {D : List Nat} {μ1 μ2 m1 m2 : Heap} (hx : ExtP π D μ1 μ2 m1 m2) {a b : M (Outcome × Heap)}
    (h : RelM (QS π D m1 m2) a b) : RelM (QS π D μ1 μ2) a b :=
  h.imp fun _ _ q => ⟨q.out, q.heap, hx.trans q.ext⟩

/-- allocating related lists on both sides -/
theorem QE.alloc {π : RMap} {D : List Nat} {μ1 μ2 m1 m2 : Heap} (hh : HR π D m1 m2) (hx : ExtP π D μ1 μ2 m1 m2)
    {l1 l2 : List Val} (hl : VRs π D m1.length l1 l2) :
    RelM (QE π D μ1 μ2) (.ok ((alloc m1 l1).2, (alloc m1 l1).1)) (.ok ((alloc m2 l2).2, (alloc m2 l2).1)) := by
  obtain ⟨hh', hv'⟩ := hh.alloc hl
  exact ⟨hv', hh', hx.trans (ExtP.alloc hh _ _)⟩

theorem VRs.flat_map {π : RMap} {D : List Nat} {d : Nat} {α : Type} (f : α → Val) (hf : ∀ x, flatV (f x) = true) (l : List α) :
    VRs π D d (l.map f) (l.map f) :=
  VRs.map f f l (fun x _ => VR.flat_self (hf x))

/-- the values `min`/`max` reduce over -/
theorem minmax_vals_rel {π : RMap} {D : List Nat} {μ1 μ2 : Heap} (hh : HR π D μ1 μ2) (vs ws : List Val) :
    VRs π D μ1.length vs ws →
    (match vs with
      | [single] => (match single with
          | .list _ => do let l ← asList μ1 single; if l.isEmpty then .error .valueError else l.mapM asNum
          | _ => .error .typeError)
      | _ => vs.mapM asNum : M (List NV)) =
    (match ws with
      | [single] => (match single with
          | .list _ => do let l ← asList μ2 single; if l.isEmpty then .error .valueError else l.mapM asNum
          | _ => .error .typeError)
      | _ => ws.mapM asNum) := by
  intro h
  have hm := mapM_rel asNum (fun _ _ h => asNum_rel h) h
  rcases vs with _ | ⟨a, _ | ⟨b, vs⟩⟩
  · rw [VRs.inv_nil h]
  · obtain ⟨a', ws', rfl, h1, h2⟩ := VRs.inv_cons h
    rw [VRs.inv_nil h2]
    rcases VR.inv h1 with ⟨hf, rfl⟩ | ⟨xs, ys, rfl, rfl, _⟩ | ⟨r, rfl, rfl, _⟩
    · cases a' <;> first | rfl | exact absurd hf (by simp [flatV])
    · rfl
    · have hl := asList_rel hh h1
      show (asList μ1 (.list r) >>= _) = (asList μ2 (.list (π r)) >>= _)
      cases e1 : asList μ1 (.list r) <;> cases e2 : asList μ2 (.list (π r)) <;> rw [e1, e2] at hl <;>
        simp only [RelM] at hl
      · subst hl; rfl
      · rename_i l1 l2
        show (if l1.isEmpty = true then _ else _) = (if l2.isEmpty = true then _ else _)
        have hlen := VRs.length_eq hl
        have hemp : l1.isEmpty = l2.isEmpty := by
          cases l1 <;> cases l2 <;> simp_all
        rw [hemp, mapM_rel asNum (fun _ _ h => asNum_rel h) hl]
  · obtain ⟨a', ws', rfl, h1, h2⟩ := VRs.inv_cons h
    obtain ⟨b', ws2, rfl, h3, h4⟩ := VRs.inv_cons h2
    exact hm

/-- option-valued sub-evaluation of `slice` bounds -/
structure QO (π : RMap) (D : List Nat) (μ1 μ2 : Heap) (a b : Option Val × Heap) : Prop where
  val : ORel (VR π D a.2.length) a.1 b.1
  heap : HR π D a.2 b.2
  ext : ExtP π D μ1 μ2 a.2 b.2

theorem par_evalE_step {Φ : Funs} {π : RMap} {D : List Nat} {n : Nat} (ih : ParAt Φ π D n) :
    ∀ d σ1 σ2 μ1 μ2 C e, d ≤ μ1.length → ER π D d σ1 σ2 → HR π D μ1 μ2 →
      RelM (QE π D μ1 μ2) (evalE Φ (n+1) σ1 μ1 C e) (evalE Φ (n+1) σ2 μ2 C e) := by
  intro d σ1 σ2 μ1 μ2 C e hd henv hh
  have leaf : ∀ (m1 m2 : Heap) (v : Val), flatV v = true → HR π D m1 m2 → ExtP π D μ1 μ2 m1 m2 →
      RelM (QE π D μ1 μ2) (.ok (v, m1)) (.ok (v, m2)) :=
    fun m1 m2 v hv h1 h2 => ⟨VR.flat_self hv, h1, h2⟩
  cases e with
  | var x =>
    simp only [evalE]
    have := henv x
    cases e1 : σ1.get? x <;> cases e2 : σ2.get? x <;> rw [e1, e2] at this <;> simp only [ORel] at this
    · exact rfl
    · exact ⟨this.mono hd, hh, ExtP.refl hh⟩
  | bool b => simp only [evalE]; exact leaf _ _ _ rfl hh (ExtP.refl hh)
  | num v => simp only [evalE]; exact leaf _ _ _ rfl hh (ExtP.refl hh)
  | ctxLit c => simp only [evalE]; exact leaf _ _ _ rfl hh (ExtP.refl hh)
  | op o args =>
    simp only [evalE]
    refine RelM.bind (ih.evalEs d σ1 σ2 μ1 μ2 C args hd henv hh) ?_
    rintro ⟨vs1, m1⟩ ⟨vs2, m2⟩ ⟨hvs, hh1, hx⟩
    dsimp only at hvs hh1 hx ⊢
    rw [mapM_rel asNum (fun _ _ h => asNum_rel h) hvs]
    refine RelM.bind_same ?_; intro ns
    refine RelM.bind_same ?_; intro r
    exact leaf _ _ _ rfl hh1 hx
  | pred p a =>
    simp only [evalE]
    refine RelM.bind (ih.evalE d σ1 σ2 μ1 μ2 C a hd henv hh) ?_
    rintro ⟨v1, m1⟩ ⟨v2, m2⟩ ⟨hv, hh1, hx⟩
    dsimp only at hv hh1 hx ⊢
    rw [asNum_rel hv]
    refine RelM.bind_same ?_; intro x
    refine RelM.bind_same ?_; intro b
    exact leaf _ _ _ rfl hh1 hx
  | cmp ops args =>
    cases args with
    | nil => simp only [evalE]; exact leaf _ _ _ rfl hh (ExtP.refl hh)
    | cons a rest =>
      simp only [evalE]
      refine RelM.bind (ih.evalE d σ1 σ2 μ1 μ2 C a hd henv hh) ?_
      rintro ⟨v1, m1⟩ ⟨v2, m2⟩ ⟨hv, hh1, hx⟩
      dsimp only at hv hh1 hx ⊢
      exact QE.rebase hx (ih.evalChain m1.length σ1 σ2 m1 m2 C v1 v2 ops rest (Nat.le_refl _)
        (henv.mono (Nat.le_trans hd hx.e1.le)) hh1 hv)
  | not a =>
    simp only [evalE]
    refine RelM.bind (ih.evalE d σ1 σ2 μ1 μ2 C a hd henv hh) ?_
    rintro ⟨v1, m1⟩ ⟨v2, m2⟩ ⟨hv, hh1, hx⟩
    dsimp only at hv hh1 hx ⊢
    rw [asBool_rel hv]
    refine RelM.bind_same ?_; intro b
    exact leaf _ _ _ rfl hh1 hx
  | and es => simp only [evalE]; exact ih.evalAnd d σ1 σ2 μ1 μ2 C es hd henv hh
  | or es => simp only [evalE]; exact ih.evalOr d σ1 σ2 μ1 μ2 C es hd henv hh
  | ite c t f =>
    simp only [evalE]
    refine RelM.bind (ih.evalE d σ1 σ2 μ1 μ2 C c hd henv hh) ?_
    rintro ⟨v1, m1⟩ ⟨v2, m2⟩ ⟨hv, hh1, hx⟩
    dsimp only at hv hh1 hx ⊢
    rw [asBool_rel hv]
    refine RelM.bind_same ?_; intro b
    split
    · exact QE.rebase hx (ih.evalE d σ1 σ2 m1 m2 C t (Nat.le_trans hd hx.e1.le) henv hh1)
    · exact QE.rebase hx (ih.evalE d σ1 σ2 m1 m2 C f (Nat.le_trans hd hx.e1.le) henv hh1)
  | tuple es =>
    simp only [evalE]
    refine RelM.bind (ih.evalEs d σ1 σ2 μ1 μ2 C es hd henv hh) ?_
    rintro ⟨vs1, m1⟩ ⟨vs2, m2⟩ ⟨hvs, hh1, hx⟩
    exact ⟨VR.tuple' hvs, hh1, hx⟩
  | list es =>
    simp only [evalE]
    refine RelM.bind (ih.evalEs d σ1 σ2 μ1 μ2 C es hd henv hh) ?_
    rintro ⟨vs1, m1⟩ ⟨vs2, m2⟩ ⟨hvs, hh1, hx⟩
    exact QE.alloc hh1 hx hvs
  | index a i =>
    simp only [evalE]
    refine RelM.bind (ih.evalE d σ1 σ2 μ1 μ2 C a hd henv hh) ?_
    rintro ⟨av1, m1⟩ ⟨av2, m2⟩ ⟨hav, hh1, hx⟩
    dsimp only at hav hh1 hx ⊢
    refine RelM.bind (ih.evalE d σ1 σ2 m1 m2 C i (Nat.le_trans hd hx.e1.le) henv hh1) ?_
    rintro ⟨iv1, m1'⟩ ⟨iv2, m2'⟩ ⟨hiv, hh2, hy⟩
    dsimp only at hiv hh2 hy ⊢
    refine RelM.bind (asSeq_rel hh2 hy.e1.le hav) ?_
    intro l1 l2 hl
    rw [asIndex_rel hiv]
    refine RelM.bind_same ?_; intro k
    have hk := VRs.get hl k
    cases e1 : l1[k]? <;> cases e2 : l2[k]? <;> rw [e1, e2] at hk <;> simp only [ORel] at hk
    · exact rfl
    · exact ⟨hk, hh2, hx.trans hy⟩
  | comp ps its elt =>
    simp only [evalE]
    refine RelM.bind (ih.evalComp d σ1 σ2 μ1 μ2 C ps its elt hd henv hh) ?_
    rintro ⟨vs1, m1⟩ ⟨vs2, m2⟩ ⟨hvs, hh1, hx⟩
    exact QE.alloc hh1 hx hvs
  | len a =>
    simp only [evalE]
    refine RelM.bind (ih.evalE d σ1 σ2 μ1 μ2 C a hd henv hh) ?_
    rintro ⟨v1, m1⟩ ⟨v2, m2⟩ ⟨hv, hh1, hx⟩
    dsimp only at hv hh1 hx ⊢
    refine RelM.bind (asList_rel hh1 hv) ?_
    intro l1 l2 hl
    rw [VRs.length_eq hl]
    exact leaf _ _ _ rfl hh1 hx
  | range args =>
    simp only [evalE]
    refine RelM.bind (ih.evalEs d σ1 σ2 μ1 μ2 C args hd henv hh) ?_
    rintro ⟨vs1, m1⟩ ⟨vs2, m2⟩ ⟨hvs, hh1, hx⟩
    dsimp only at hvs hh1 hx ⊢
    refine RelM.bind (P := Eq) (RelM.eq_iff.2 (mapM_rel _ (fun v w h => by rw [asNum_rel h]) hvs)) ?_
    intro ints ints' hints
    subst hints
    refine RelM.bind_same ?_
    rintro ⟨a, b, st⟩
    dsimp only
    split
    · exact rfl
    · exact QE.alloc hh1 hx (VRs.flat_map _ (fun _ => rfl) _)
  | zip es =>
    simp only [evalE]
    refine RelM.bind (ih.evalEs d σ1 σ2 μ1 μ2 C es hd henv hh) ?_
    rintro ⟨vs1, m1⟩ ⟨vs2, m2⟩ ⟨hvs, hh1, hx⟩
    dsimp only at hvs hh1 hx ⊢
    refine RelM.bind (mapM_asList_rel hh1 hvs) ?_
    intro ls1 ls2 hls
    cases ls1 with
    | nil =>
      simp only [VRss] at hls; subst hls
      exact QE.alloc hh1 hx (VRs.nil _ _ _)
    | cons l0 rest =>
      cases ls2 with
      | nil => simp only [VRss] at hls
      | cons l0' rest' =>
        have hls' := hls
        simp only [VRss] at hls
        dsimp only
        rw [VRss.any_len l0.length hls.2, VRs.length_eq hls.1]
        split
        · exact rfl
        · exact QE.alloc hh1 hx (zip_rows_rel hls' _)
  | enumerate a =>
    simp only [evalE]
    refine RelM.bind (ih.evalE d σ1 σ2 μ1 μ2 C a hd henv hh) ?_
    rintro ⟨v1, m1⟩ ⟨v2, m2⟩ ⟨hv, hh1, hx⟩
    dsimp only at hv hh1 hx ⊢
    refine RelM.bind (asList_rel hh1 hv) ?_
    intro l1 l2 hl
    rw [VRs.length_eq hl]
    exact QE.alloc hh1 hx (enum_rows_rel hl _)
  | sum a =>
    simp only [evalE]
    refine RelM.bind (ih.evalE d σ1 σ2 μ1 μ2 C a hd henv hh) ?_
    rintro ⟨v1, m1⟩ ⟨v2, m2⟩ ⟨hv, hh1, hx⟩
    dsimp only at hv hh1 hx ⊢
    refine RelM.bind (asList_rel hh1 hv) ?_
    intro l1 l2 hl
    cases l1 with
    | nil => rw [VRs.inv_nil hl]; exact leaf _ _ _ rfl hh1 hx
    | cons x xs =>
      obtain ⟨y, ys, rfl, hxy, hxs⟩ := VRs.inv_cons hl
      dsimp only
      rw [asNum_rel hxy]
      refine RelM.bind_same ?_; intro x0
      refine RelM.bind (P := Eq) (RelM.eq_iff.2 (foldlM_rel _ (fun a v w h => by rw [asNum_rel h]) x0 hxs)) ?_
      intro acc acc' hacc
      subst hacc
      exact leaf _ _ _ rfl hh1 hx
  | min es =>
    simp only [evalE]
    refine RelM.bind (ih.evalEs d σ1 σ2 μ1 μ2 C es hd henv hh) ?_
    rintro ⟨vs1, m1⟩ ⟨vs2, m2⟩ ⟨hvs, hh1, hx⟩
    dsimp only at hvs hh1 hx ⊢
    refine RelM.bind (P := Eq) (RelM.eq_iff.2 (minmax_vals_rel hh1 vs1 vs2 hvs)) ?_
    intro vals vals' hvals
    subst hvals
    refine RelM.bind_same ?_; intro r
    exact leaf _ _ _ rfl hh1 hx
  | max es =>
    simp only [evalE]
    refine RelM.bind (ih.evalEs d σ1 σ2 μ1 μ2 C es hd henv hh) ?_
    rintro ⟨vs1, m1⟩ ⟨vs2, m2⟩ ⟨hvs, hh1, hx⟩
    dsimp only at hvs hh1 hx ⊢
    refine RelM.bind (P := Eq) (RelM.eq_iff.2 (minmax_vals_rel hh1 vs1 vs2 hvs)) ?_
    intro vals vals' hvals
    subst hvals
    refine RelM.bind_same ?_; intro r
    exact leaf _ _ _ rfl hh1 hx
  | any a =>
    simp only [evalE]
    refine RelM.bind (ih.evalE d σ1 σ2 μ1 μ2 C a hd henv hh) ?_
    rintro ⟨v1, m1⟩ ⟨v2, m2⟩ ⟨hv, hh1, hx⟩
    dsimp only at hv hh1 hx ⊢
    refine RelM.bind (asList_rel hh1 hv) ?_
    intro l1 l2 hl
    rw [mapM_rel asBool (fun _ _ h => asBool_rel h) hl]
    refine RelM.bind_same ?_; intro bs
    exact leaf _ _ _ rfl hh1 hx
  | all a =>
    simp only [evalE]
    refine RelM.bind (ih.evalE d σ1 σ2 μ1 μ2 C a hd henv hh) ?_
    rintro ⟨v1, m1⟩ ⟨v2, m2⟩ ⟨hv, hh1, hx⟩
    dsimp only at hv hh1 hx ⊢
    refine RelM.bind (asList_rel hh1 hv) ?_
    intro l1 l2 hl
    rw [mapM_rel asBool (fun _ _ h => asBool_rel h) hl]
    refine RelM.bind_same ?_; intro bs
    exact leaf _ _ _ rfl hh1 hx
  | roundAt a m =>
    simp only [evalE]
    refine RelM.bind (ih.evalE d σ1 σ2 μ1 μ2 C a hd henv hh) ?_
    rintro ⟨av1, m1⟩ ⟨av2, m2⟩ ⟨hav, hh1, hx⟩
    dsimp only at hav hh1 hx ⊢
    refine RelM.bind (ih.evalE d σ1 σ2 m1 m2 C m (Nat.le_trans hd hx.e1.le) henv hh1) ?_
    rintro ⟨nv1, m1'⟩ ⟨nv2, m2'⟩ ⟨hnv, hh2, hy⟩
    dsimp only at hnv hh2 hy ⊢
    rw [asNum_rel hav, asNum_rel hnv]
    have lf := fun v hv => leaf m1' m2' v hv hh2 (hx.trans hy)
    repeat (first
      | exact lf _ rfl
      | exact RelM.err _
      | refine RelM.bind_same ?_
      | intro _
      | split)
  | call f args =>
    simp only [evalE]
    refine RelM.bind (ih.evalEs d σ1 σ2 μ1 μ2 C args hd henv hh) ?_
    rintro ⟨vs1, m1⟩ ⟨vs2, m2⟩ ⟨hvs, hh1, hx⟩
    dsimp only at hvs hh1 hx ⊢
    cases hfd : Φ.find? f with
    | none =>
      dsimp only
      rw [ctxCtor_rel f hvs]
      cases ctxCtor f vs2 with
      | error err => exact rfl
      | ok c => exact leaf _ _ _ rfl hh1 hx
    | some fd =>
      dsimp only
      rw [VRs.length_eq hvs]
      split
      · exact rfl
      · refine RelM.bind (ih.evalB m1.length _ _ m1 m2 _ fd.body (Nat.le_refl _)
          (ER.setAll fd.params (ER.nil π D m1.length) hvs) hh1) ?_
        rintro ⟨o1, m1'⟩ ⟨o2, m2'⟩ ⟨ho, hh2, hy⟩
        cases o1 <;> cases o2 <;> simp only [OR] at ho
        · exact rfl
        · exact ⟨ho, hh2, hx.trans hy⟩
  | slice a s t =>
    have optE : ∀ (o : Option Expr) (m1 m2 : Heap), d ≤ m1.length → HR π D m1 m2 →
        RelM (QO π D m1 m2)
          (match o with
            | none => (Except.ok (none, m1) : M (Option Val × Heap))
            | some s => do let (v, m) ← evalE Φ n σ1 m1 C s; .ok (some v, m))
          (match o with
            | none => (Except.ok (none, m2) : M (Option Val × Heap))
            | some s => do let (v, m) ← evalE Φ n σ2 m2 C s; .ok (some v, m)) := by
      intro o m1 m2 hle hh'
      cases o with
      | none => exact ⟨trivial, hh', ExtP.refl hh'⟩
      | some s =>
        refine RelM.bind (ih.evalE d σ1 σ2 m1 m2 C s hle henv hh') ?_
        rintro ⟨v1, m1'⟩ ⟨v2, m2'⟩ ⟨hv, hh1, hx⟩
        exact ⟨hv, hh1, hx⟩
    simp only [evalE]
    refine RelM.bind (ih.evalE d σ1 σ2 μ1 μ2 C a hd henv hh) ?_
    rintro ⟨av1, m1⟩ ⟨av2, m2⟩ ⟨hav, hh1, hx⟩
    dsimp only at hav hh1 hx ⊢
    refine RelM.bind (optE s m1 m2 (Nat.le_trans hd hx.e1.le) hh1) ?_
    rintro ⟨sv1, ma⟩ ⟨sv2, mb⟩ ⟨hsv, hh2, hy⟩
    dsimp only at hsv hh2 hy ⊢
    refine RelM.bind (optE t ma mb (Nat.le_trans hd (hx.trans hy).e1.le) hh2) ?_
    rintro ⟨tv1, mc⟩ ⟨tv2, md⟩ ⟨htv, hh3, hz⟩
    dsimp only at htv hh3 hz ⊢
    refine RelM.bind (asList_rel hh3 hav) ?_
    intro l1 l2 hl
    rw [VRs.length_eq hl]
    refine RelM.bind (P := Eq) (RelM.eq_iff.2 ?_) ?_
    · cases sv1 <;> cases sv2 <;> simp only [ORel] at hsv
      · rfl
      · dsimp only; rw [asNum_rel hsv]
    intro si si' hsi
    subst hsi
    refine RelM.bind (P := Eq) (RelM.eq_iff.2 ?_) ?_
    · cases tv1 <;> cases tv2 <;> simp only [ORel] at htv
      · rfl
      · dsimp only; rw [asNum_rel htv]
    intro ti ti' hti
    subst hti
    split
    · exact rfl
    · split
      · exact rfl
      · split
        · exact rfl
        · exact QE.alloc hh3 ((hx.trans hy).trans hz)
            (VRs.take _ (VRs.drop _ hl))

end Fpy.Xform
