/-
C12 (round 2) — the reader is sound: the statements read from an FPCore expression run, and the result expression has
the value FPCore gives the expression (induction on the fuel of the FPCore evaluator).
-/
import Fpy.Proof.FPCoreReadUpd
set_option linter.unusedSimpArgs false
set_option linter.unusedVariables false
set_option linter.unusedSectionVars false
namespace Fpy.C12
open Fpy Fpy.Lang

section
variable (Φ : Funs) (nm : Nat → String) (hnm : ∀ i j, nm i = nm j → i = j)
include hnm

/-- a variable just assigned -/
theorem rval_var (k : Nat) (σ : Env) (μ : Heap) (C : Ctx) (v : Val) :
    RVal Φ nm (k + 1) (σ.set (nm k) v) μ C (.var (nm k)) v := by
  intro σ'' he
  refine ⟨1, ?_⟩
  rw [evalE_var, he k (Nat.lt_succ_self k), get?_set_self]

/-- operands need no statements -/
theorem read_pure {n : Nat} {e : FExpr} {k : Nat} {m : RMap} {P : Props} {C : Ctx} {ρ σ : Env} {μ : Heap} {v : Val}
    {ss : List Stmt} {r : Expr} {k' : Nat}
    (h : eval n ρ P e = .ok v) (hr : (readP m e).map (fun r => (([] : List Stmt), r, k)) = some (ss, r, k'))
    (hP : P.toCtx = .ok C) (hI : RInv nm k m ρ σ) :
    k ≤ k' ∧ ∃ σ', Runs Φ σ μ C ss σ' μ ∧ Ext nm k σ σ' ∧ RVal Φ nm k' σ' μ C r v := by
  simp only [Option.map_eq_some_iff, Prod.mk.injEq] at hr
  obtain ⟨r0, hr0, rfl, rfl, rfl⟩ := hr
  refine ⟨Nat.le_refl _, σ, runs_nil Φ σ μ C, Ext.refl nm k σ, fun σ'' he => ?_⟩
  exact readP_sound Φ h hr0 hP (rinv_penv nm (hI.mono nm (Nat.le_refl _) he))

theorem runs_ifte {σ σ' : Env} {μ : Heap} {C : Ctx} {c : Expr} {b : Bool} {t f : List Stmt}
    (hc : Gives Φ σ μ C c (.bool b)) (hb : Runs Φ σ μ C (if b then t else f) σ' μ) :
    Runs Φ σ μ C [.ifte c t f] σ' μ := by
  obtain ⟨Fc, hc⟩ := hc
  obtain ⟨Fb, hb⟩ := hb
  refine runs_one Φ (F := max Fc Fb + 1) ?_
  rw [evalS_ifte, Fpy.Xform.evalE_fuel_mono (Nat.le_max_left Fc Fb) hc (by simp)]
  simp only [bind, Except.bind, asBool]
  cases b with
  | true => simpa using Fpy.Xform.evalB_fuel_mono (Nat.le_max_right Fc Fb) hb (by simp)
  | false => simpa using Fpy.Xform.evalB_fuel_mono (Nat.le_max_right Fc Fb) hb (by simp)

theorem runs_with {σ σ' : Env} {μ : Heap} {C C' : Ctx} {body : List Stmt}
    (hb : Runs Φ σ μ C' body σ' μ) : Runs Φ σ μ C [.with (.ctxLit C') none body] σ' μ := by
  obtain ⟨Fb, hb⟩ := hb
  refine runs_one Φ (F := Fb + 2) ?_
  rw [evalS_with, evalE_ctxLit]
  simp only [bind, Except.bind]
  exact Fpy.Xform.evalB_fuel_mono (Nat.le_succ Fb) hb (by simp)

theorem read_while (n : Nat) (hR : ∀ n', n' ≤ n → ReadOK Φ nm n') (hB : ∀ n', n' ≤ n → BindsOK Φ nm n')
    (hU : ∀ n', n' ≤ n → UpdStarOK Φ nm n') (star : Bool) (c : FExpr) (binds : List (String × FExpr × FExpr)) (body : FExpr)
    (k : Nat) (m : RMap) (P : Props) (C : Ctx) (ρ σ : Env) (μ : Heap) (v : Val) (ss : List Stmt) (r : Expr) (k' : Nat)
    (h : eval (n + 1) ρ P (.while_ star c binds body) = .ok v)
    (hr : readE nm k m P (.while_ star c binds body) = some (ss, r, k')) (hP : P.toCtx = .ok C) (hI : RInv nm k m ρ σ) :
    k ≤ k' ∧ ∃ σ', Runs Φ σ μ C ss σ' μ ∧ Ext nm k σ σ' ∧ RVal Φ nm k' σ' μ C r v := by
  rw [eval_while] at h
  simp only [readE] at hr
  split at hr
  · cases hr
  · next hlen =>
    cases hi : readInits nm star k m m P binds with
    | none => rw [hi] at hr; cases hr
    | some ri =>
      obtain ⟨si, m1, k1⟩ := ri
      rw [hi] at hr
      simp only at hr
      cases hc : readP m1 c with
      | none => rw [hc] at hr; cases hr
      | some c' =>
        rw [hc] at hr
        simp only at hr
        cases hu : (if star then readUpdStar nm k1 m1 P binds
               else (readUpdTmpGo nm k1 m1 P binds).map fun r => (r.1 ++ r.2.1, r.2.2)) with
        | none => rw [hu] at hr; cases hr
        | some ru =>
          obtain ⟨su, k2⟩ := ru
          rw [hu] at hr
          simp only at hr
          cases hb : readE nm k2 m1 P body with
          | none => rw [hb] at hr; cases hr
          | some rb0 =>
            obtain ⟨sb, rb, k3⟩ := rb0
            rw [hb] at hr
            simp only [Option.some.injEq, Prod.mk.injEq] at hr
            obtain ⟨rfl, rfl, rfl⟩ := hr
            cases hρ1 : evalBinds n star ρ ρ P (binds.map fun b => (b.1, b.2.1)) with
            | error err => rw [hρ1] at h; cases h
            | ok ρ1 =>
              rw [hρ1] at h
              simp only [bind, Except.bind] at h
              rw [readInits_eq] at hi
              obtain ⟨hk1, hfresh, σ1, hrun1, hext1, hI1⟩ :=
                hB n (Nat.le_refl _) star _ k m m P C ρ ρ σ μ ρ1 si m1 k1 hρ1 hi hP hI hI
              have hk2 : k1 ≤ k2 := by
                cases star with
                | true =>
                  simp only [if_true] at hu
                  exact readUpdStar_mono nm binds k1 m1 P su k2 hu
                | false =>
                  simp only [Bool.false_eq_true, if_false, Option.map_eq_some_iff, Prod.mk.injEq] at hu
                  obtain ⟨⟨a1, a2, a3⟩, ha, _, rfl⟩ := hu
                  exact readUpdTmpGo_mono nm binds k1 m1 P a1 a2 a3 ha
              have hk3 := readE_mono nm body k2 m1 P sb rb k3 hb
              have hfr : ∀ b, b ∈ binds → ∀ y, m1.get? b.1 = some y → ∃ j, k ≤ j ∧ y = nm j := by
                intro b hbm y hy
                rcases hfresh b.1 with ⟨j, hj, hget⟩ | ⟨_, hnot⟩
                · rw [hget] at hy; cases hy; exact ⟨j, hj, rfl⟩
                · exact absurd (by
                    simp only [List.map_map, List.mem_map]
                    exact ⟨b, hbm, rfl⟩) hnot
              -- one round of updates
              have hupd : ∀ n', n' ≤ n → ∀ ρa σa ρb,
                  evalBinds n' star ρa ρa P (binds.map fun b => (b.1, b.2.2)) = .ok ρb → RInv nm k1 m1 ρa σa →
                  ∃ σb, Runs Φ σa μ C su σb μ ∧ Ext nm k σa σb ∧ RInv nm k1 m1 ρb σb := by
                intro n' hn' ρa σa ρb hev hIa
                cases star with
                | true =>
                  simp only [if_true] at hu
                  obtain ⟨_, σb, hrun, hext, hIb⟩ := hU n' hn' binds k k1 m1 P C ρa ρa σa μ ρb su k2 hev hu hP hIa hk1 hfr
                  exact ⟨σb, hrun, hext, rinv_rebound nm hIa hIb⟩
                | false =>
                  simp only [Bool.false_eq_true, if_false, Option.map_eq_some_iff, Prod.mk.injEq] at hu
                  obtain ⟨⟨a1, a2, a3⟩, ha, rfl, rfl⟩ := hu
                  match binds, hlen, ha, hev, hfr with
                  | [], _, ha, hev, _ =>
                    simp only [readUpdTmpGo, Option.some.injEq, Prod.mk.injEq] at ha
                    obtain ⟨rfl, rfl, rfl⟩ := ha
                    cases n' with
                    | zero => simp [evalBinds] at hev
                    | succ n0 =>
                      rw [List.map_nil, evalBinds_nil] at hev
                      cases hev
                      exact ⟨σa, runs_nil Φ σa μ C, Ext.refl nm k σa, hIa⟩
                  | [(x, i, u)], _, ha, hev, hfr =>
                    cases n' with
                    | zero => simp [evalBinds] at hev
                    | succ n0 =>
                      exact upd_tmp_one Φ nm hnm n0 (hR n0 (by omega)) hev ha hP hIa
                        (fun y hy => hfr (x, i, u) (by simp) y hy) hk1
                  | _ :: _ :: _, hlen, _, _, _ => simp at hlen
              -- the loop
              have loop : ∀ n', n' ≤ n → ∀ ρa σa, whileLoop n' star ρa P c binds body = .ok v → RInv nm k1 m1 ρa σa →
                  ∃ ρb σb n'', n'' ≤ n ∧ eval n'' ρb P body = .ok v ∧
                    (∃ F, evalS Φ F σa μ C (.while c' su) = .ok (.normal σb, μ)) ∧ Ext nm k σa σb ∧ RInv nm k1 m1 ρb σb := by
                intro n'
                induction n' with
                | zero => intro _ ρa σa hw; simp [whileLoop] at hw
                | succ n' ih =>
                  intro hn' ρa σa hw hIa
                  rw [whileLoop_succ] at hw
                  cases hcv : eval n' ρa P c with
                  | error err => rw [hcv] at hw; cases hw
                  | ok cv =>
                    rw [hcv] at hw
                    simp only [bind, Except.bind] at hw
                    cases cv with
                    | bool b =>
                      simp only [asBool] at hw
                      obtain ⟨Fc, hFc⟩ : Gives Φ σa μ C c' (.bool b) := readP_sound Φ hcv hc hP (rinv_penv nm hIa)
                      cases b with
                      | false =>
                        simp only [Bool.false_eq_true, if_false] at hw
                        refine ⟨ρa, σa, n', by omega, hw, ⟨Fc + 1, ?_⟩, Ext.refl nm k σa, hIa⟩
                        rw [evalS_while, hFc]
                        simp [bind, Except.bind, asBool, pure, Except.pure]
                      | true =>
                        simp only [if_true] at hw
                        cases hρb : evalBinds n' star ρa ρa P (binds.map fun b => (b.1, b.2.2)) with
                        | error err => rw [hρb] at hw; cases hw
                        | ok ρb =>
                          rw [hρb] at hw
                          simp only at hw
                          obtain ⟨σb, ⟨Fu, hFu⟩, hextu, hIb⟩ := hupd n' (by omega) ρa σa ρb hρb hIa
                          obtain ⟨ρc, σc, n'', hn'', hbody, ⟨F2, hF2⟩, hext2, hIc⟩ := ih (by omega) ρb σb hw hIb
                          refine ⟨ρc, σc, n'', hn'', hbody, ⟨max Fc (max Fu F2) + 1, ?_⟩, hextu.trans nm hext2, hIc⟩
                          rw [evalS_while, Fpy.Xform.evalE_fuel_mono (f' := max Fc (max Fu F2)) (by omega) hFc (by simp)]
                          simp only [bind, Except.bind, asBool, if_true]
                          rw [Fpy.Xform.evalB_fuel_mono (f' := max Fc (max Fu F2)) (by omega) hFu (by simp)]
                          simp only
                          exact Fpy.Xform.evalS_fuel_mono (f' := max Fc (max Fu F2)) (by omega) hF2 (by simp)
                    | _ => simp [asBool] at hw
              obtain ⟨ρc, σc, n'', hn'', hbody, ⟨F, hF⟩, hextl, hIc⟩ := loop n (Nat.le_refl _) ρ1 σ1 h hI1
              obtain ⟨_, σ4, hrun4, hext4, hval4⟩ := hR n'' hn'' body k2 m1 P C ρc σc μ v sb rb k3 hbody hb hP
                (hIc.mono nm hk2 (Ext.refl nm k1 σc))
              refine ⟨by omega, σ4, ?_, hext1.trans nm (hextl.trans nm (hext4.mono nm (by omega))), hval4⟩
              have := runs_append Φ si hrun1 (runs_append Φ [.while c' su] (runs_one Φ hF) hrun4)
              simpa [List.append_assoc] using this

theorem read_step (n : Nat) (hR : ∀ n', n' ≤ n → ReadOK Φ nm n') (hB : ∀ n', n' ≤ n → BindsOK Φ nm n')
    (hU : ∀ n', n' ≤ n → UpdStarOK Φ nm n') : ReadOK Φ nm (n + 1) := by
  intro e k m P C ρ σ μ v ss r k' h hr hP hI
  cases e with
  | ite c t f =>
    rw [eval_ite] at h
    simp only [readE] at hr
    cases hc : readP m c with
    | none => rw [hc] at hr; simp at hr
    | some c' =>
      cases ht : readE nm k m P t with
      | none => rw [hc, ht] at hr; simp at hr
      | some rt0 =>
        obtain ⟨st, rt, k1⟩ := rt0
        rw [hc, ht] at hr
        simp only at hr
        cases hf : readE nm k1 m P f with
        | none => rw [hf] at hr; cases hr
        | some rf0 =>
          obtain ⟨sf, rf, k2⟩ := rf0
          rw [hf] at hr
          simp only [Option.some.injEq, Prod.mk.injEq] at hr
          obtain ⟨rfl, rfl, rfl⟩ := hr
          have hk1 := readE_mono nm t k m P st rt k1 ht
          have hk2 := readE_mono nm f k1 m P sf rf k2 hf
          cases hcv : eval n ρ P c with
          | error err => rw [hcv] at h; cases h
          | ok cv =>
            rw [hcv] at h
            simp only [bind, Except.bind] at h
            cases cv with
            | bool b =>
              simp only [asBool] at h
              have hgc : Gives Φ σ μ C c' (.bool b) := readP_sound Φ hcv hc hP (rinv_penv nm hI)
              cases b with
              | true =>
                simp only [if_true] at h
                obtain ⟨_, σ1, hrun1, hext1, hval1⟩ := hR n (Nat.le_refl _) t k m P C ρ σ μ v st rt k1 h ht hP hI
                have hrunb : Runs Φ σ μ C (st ++ [.assign (.var (nm k2)) rt]) (σ1.set (nm k2) v) μ :=
                  runs_append Φ st hrun1 (runs_assign Φ (hval1 σ1 (Ext.refl nm k1 σ1)))
                exact ⟨by omega, _, runs_ifte Φ nm hnm hgc (by simpa using hrunb),
                  hext1.trans nm (ext_set nm hnm σ1 v (by omega)), rval_var Φ nm hnm k2 σ1 μ C v⟩
              | false =>
                simp only [Bool.false_eq_true, if_false] at h
                obtain ⟨_, σ1, hrun1, hext1, hval1⟩ := hR n (Nat.le_refl _) f k1 m P C ρ σ μ v sf rf k2 h hf hP
                  (hI.mono nm hk1 (Ext.refl nm k σ))
                have hrunb : Runs Φ σ μ C (sf ++ [.assign (.var (nm k2)) rf]) (σ1.set (nm k2) v) μ :=
                  runs_append Φ sf hrun1 (runs_assign Φ (hval1 σ1 (Ext.refl nm k2 σ1)))
                exact ⟨by omega, _, runs_ifte Φ nm hnm hgc (by simpa using hrunb),
                  (hext1.mono nm hk1).trans nm (ext_set nm hnm σ1 v (by omega)), rval_var Φ nm hnm k2 σ1 μ C v⟩
            | _ => simp [asBool] at h
  | let_ star binds body =>
    rw [eval_let] at h
    simp only [readE] at hr
    cases hb : readBinds nm star k m m P binds with
    | none => rw [hb] at hr; cases hr
    | some rb =>
      obtain ⟨s1, m', k1⟩ := rb
      rw [hb] at hr
      simp only at hr
      cases he : readE nm k1 m' P body with
      | none => rw [he] at hr; cases hr
      | some re =>
        obtain ⟨s2, r2, k2⟩ := re
        rw [he] at hr
        simp only [Option.some.injEq, Prod.mk.injEq] at hr
        obtain ⟨rfl, rfl, rfl⟩ := hr
        cases hρ : evalBinds n star ρ ρ P binds with
        | error err => rw [hρ] at h; cases h
        | ok ρ1 =>
          rw [hρ] at h
          simp only [bind, Except.bind] at h
          obtain ⟨hk1, _, σ1, hrun1, hext1, hI1⟩ := hB n (Nat.le_refl _) star binds k m m P C ρ ρ σ μ ρ1 s1 m' k1 hρ hb hP hI hI
          obtain ⟨hk2, σ2, hrun2, hext2, hval2⟩ := hR n (Nat.le_refl _) body k1 m' P C ρ1 σ1 μ v s2 r2 k2 h he hP hI1
          exact ⟨by omega, σ2, runs_append Φ s1 hrun1 hrun2, hext1.trans nm (hext2.mono nm hk1), hval2⟩
  | ann p e =>
    rw [eval_ann] at h
    simp only [readE] at hr
    cases he : readE nm k m (P.update p) e with
    | none => rw [he] at hr; simp at hr
    | some re =>
      obtain ⟨s, r1, k1⟩ := re
      rw [he] at hr
      cases hC : (P.update p).toCtx with
      | error err => rw [hC] at hr; simp at hr
      | ok C' =>
        rw [hC] at hr
        simp only [Option.some.injEq, Prod.mk.injEq] at hr
        obtain ⟨rfl, rfl, rfl⟩ := hr
        obtain ⟨hk1, σ1, hrun1, hext1, hval1⟩ := hR n (Nat.le_refl _) e k m (P.update p) C' ρ σ μ v s r1 k1 h he hC hI
        have hrunb : Runs Φ σ μ C' (s ++ [.assign (.var (nm k1)) r1]) (σ1.set (nm k1) v) μ :=
          runs_append Φ s hrun1 (runs_assign Φ (hval1 σ1 (Ext.refl nm k1 σ1)))
        exact ⟨by omega, _, runs_with Φ nm hnm hrunb, hext1.trans nm (ext_set nm hnm σ1 v hk1), rval_var Φ nm hnm k1 σ1 μ C v⟩
  | while_ star c binds body => exact read_while Φ nm hnm n hR hB hU star c binds body k m P C ρ σ μ v ss r k' h hr hP hI
  | var _ => simp only [readE] at hr; exact read_pure Φ nm hnm h hr hP hI
  | num _ => simp only [readE] at hr; exact read_pure Φ nm hnm h hr hP hI
  | const _ => simp only [readE] at hr; exact read_pure Φ nm hnm h hr hP hI
  | op _ _ => simp only [readE] at hr; exact read_pure Φ nm hnm h hr hP hI
  | pred _ _ => simp only [readE] at hr; exact read_pure Φ nm hnm h hr hP hI
  | cmp _ _ => simp only [readE] at hr; exact read_pure Φ nm hnm h hr hP hI
  | and _ => simp only [readE] at hr; exact read_pure Φ nm hnm h hr hP hI
  | or _ => simp only [readE] at hr; exact read_pure Φ nm hnm h hr hP hI
  | not _ => simp only [readE] at hr; exact read_pure Φ nm hnm h hr hP hI
  | for_ _ _ _ _ => simp only [readE] at hr; exact read_pure Φ nm hnm h hr hP hI
  | tensor _ _ => simp only [readE] at hr; exact read_pure Φ nm hnm h hr hP hI
  | array _ => simp only [readE] at hr; exact read_pure Φ nm hnm h hr hP hI
  | ref _ _ => simp only [readE] at hr; exact read_pure Φ nm hnm h hr hP hI
  | size _ _ => simp only [readE] at hr; exact read_pure Φ nm hnm h hr hP hI
  | dim _ => simp only [readE] at hr; exact read_pure Φ nm hnm h hr hP hI

end
end Fpy.C12
