/-
C12 (round 2) — statement cases: `return`, `with`.
-/
import Fpy.Proof.FPCoreLAux
set_option linter.unusedSimpArgs false
set_option linter.unusedVariables false
namespace Fpy.C12
open Fpy Fpy.Lang

section
variable (Φ : Funs) (cfg : Cfg) (hord : OrdOK cfg)
include hord

theorem stmt_ret (f : Nat) (e : LExpr) : LStmtOKAt Φ cfg (f + 1) (.ret e) := by
  intro σ μ C o μ' h
  rw [LStmt.toLang, evalS_ret] at h
  cases h1 : evalE Φ f σ μ C e.toLang with
  | error err => rw [h1] at h; cases h
  | ok r1 =>
    obtain ⟨v, μ1⟩ := r1
    rw [h1] at h
    simp only [bind, Except.bind, pure, Except.pure] at h
    cases h
    obtain ⟨hm, ce⟩ := lexpr_sound Φ f e σ _ C v _ h1
    subst hm
    refine fun G K E ρ P hG hws hb hc hk hP hl hA => ⟨HeapExt.refl _, ?_⟩
    cases K with
    | some k => simp [compileLS] at hc
    | none =>
      simp only [compileLS] at hc
      cases hc
      unfold PostL
      exact ⟨rfl, ce ρ P FExpr.var hP (subOK_var (fun y hy ht => hA y (vars_sub_fvF e y hy) ht) (fun y hy => hG y (hws y hy)))⟩

theorem stmt_with (f : Nat) (hB : LBlockOK Φ cfg f) (d : CDesc) (body : List LStmt) :
    LStmtOKAt Φ cfg (f + 1) (.with_ d body) := by
  intro σ μ C o μ' h
  rw [LStmt.toLang, evalS_with] at h
  cases f with
  | zero => simp [evalE, bind, Except.bind] at h
  | succ g =>
    rw [evalE_ctxLit] at h
    simp only [bind, Except.bind] at h
    have hbody := hB body σ _ _ o _ h
    intro G K E ρ P hG hws hb hc hk hP hl hA
    simp only [compileLS] at hc
    cases hfd : fromDesc d with
    | none => rw [hfd] at hc; cases hc
    | some p =>
      rw [hfd] at hc
      simp only at hc
      obtain ⟨C', hC', hPu⟩ := fromDesc_ctx hfd P
      have hC0 : d.toCtx.getD .real = C' := by rw [hC']; rfl
      rw [hC0] at hbody
      simp only [LStmt.lits, hfd] at hl
      obtain ⟨hlP, hlPu, hlb⟩ := hl
      have hws' : LStmt.wsL G body := hws
      cases K with
      | none =>
        cases hcb : compileLB cfg G body none with
        | none => rw [hcb] at hc; cases hc
        | some I =>
          rw [hcb] at hc
          simp only [Option.map] at hc
          cases hc
          obtain ⟨hext, hpost⟩ := hbody G none I ρ (P.update p) hG hws' hb hcb (fun k hk' => by cases hk') hPu hlb
            (fun y hy ht => hA y (by simpa [fvF] using hy) ht)
          refine ⟨hext, ?_⟩
          cases o with
          | ret v =>
            unfold PostL at hpost ⊢
            exact ⟨rfl, conv_ann hpost.2⟩
          | normal σb =>
            unfold PostL at hpost
            obtain ⟨_, _, k, hk', _⟩ := hpost
            cases hk'
      | some k =>
        simp only at hc
        have hmem : ∀ y, y ∈ passedL G body k ↔ y ∈ LStmt.asgL body ∧ y ∈ LStmt.gammaL G body ∧ y ∈ occ k :=
          fun y => mem_passedL G body k y
        have hlen := length_passedL_le G body k
        generalize passedL G body k = D at hc hmem hlen
        cases hcb : compileLB cfg G body (some (retOf D)) with
        | none => rw [hcb] at hc; cases hc
        | some I =>
          rw [hcb] at hc
          simp only [Option.map] at hc
          cases hc
          have hAI : AgreeL (fvF I) ρ σ := fun y hy ht =>
            hA y ((fv_bundle D (.ann p I) k y ht).2 (Or.inl (by simpa [fvF] using hy))) ht
          obtain ⟨hext, hpost⟩ := hbody G (some (retOf D)) I ρ (P.update p) hG hws' hb hcb
            (fun k' hk' => by cases hk'; exact fvIn_retOf (fun y hy => ((hmem y).1 hy).2.1)) hPu hlb hAI
          refine ⟨hext, ?_⟩
          cases o with
          | ret v =>
            unfold PostL at hpost
            exact absurd hpost.1 (by simp)
          | normal σb =>
            unfold PostL at hpost ⊢
            obtain ⟨hbnd, hkeep, k', hk', himp⟩ := hpost
            cases hk'
            refine ⟨by simpa [LStmt.gamma] using hbnd, by simpa [LStmt.asg] using hkeep, k, rfl, fun w hw => ?_⟩
            have hDT : ∀ x, x ∈ D → isTmpL x = false := fun x hx => asgL_nt body G hws' x ((hmem x).1 hx).1
            have hDb : ∀ x, x ∈ D → ∃ w1, σb.get? x = some w1 := fun x hx => hbnd x ((hmem x).1 hx).2.1
            have hkG : FvIn (LStmt.gammaL G body) k := fun y hy ht => by simpa [LStmt.gamma] using hk k rfl y hy ht
            have hAN : ∀ ρ', (∀ y, isTmpL y = false → ρ'.get? y = if y ∈ D then σb.get? y else ρ.get? y) →
                AgreeL (fvF k) ρ' σb := by
              intro ρ' hρ' y hy ht
              rw [hρ' y ht]
              by_cases hyD : y ∈ D
              · simp [hyD]
              · simp only [hyD, if_false]
                have hnd : y ∉ LStmt.asgL body := fun hd => hyD ((hmem y).2 ⟨hd, hkG y hy ht, fvF_sub_occ k y hy⟩)
                rw [hkeep y hnd]
                exact hA y ((fv_bundle D (.ann p I) k y ht).2 (Or.inr ⟨hy, hyD⟩)) ht
            have hCL : CtxLits C D.length := (hlP.1.ctx hP).mono (by omega)
            cases D with
            | nil =>
              obtain ⟨r0, hr0⟩ := lit0 (hlPu.1.ctx hPu)
              have cI := himp (.num r0) (fun ρ' _ => conv_num hPu hr0)
              refine conv_let1 (conv_ann cI) (hw _ (hAN _ (fun y ht => ?_)))
              simp only [List.not_mem_nil, if_false]
              exact get?_set_ne _ _ _ _ (isTmpL_ne ht).2.2.2.2
            | cons x D1 =>
              cases D1 with
              | nil =>
                obtain ⟨w0, hw0⟩ := hDb x (by simp)
                have cI := himp w0 (fun ρ' hA' => conv_var (by
                  rw [hA' x (by simp [retOf, fvF]) (hDT x (by simp))]; exact hw0))
                refine conv_let1 (conv_ann cI) (hw _ (hAN _ (fun y ht => ?_)))
                rw [get?_set]
                by_cases hyx : y = x
                · subst hyx; simp [hw0]
                · simp [hyx]
              | cons x2 rest =>
                have cI := himp (.tuple ((x :: x2 :: rest).map (gv σb))) (fun ρ' hA' => by
                  have hA'' : Agree (x :: x2 :: rest) ρ' σb := fun y hy _ =>
                    hA' y ((fv_retOf _ y).2 hy) (hDT y hy)
                  exact conv_array (convL_vars (P.update p) σb _ ρ' (fun y hy => isTmp_of_isTmpL (hDT y hy)) hA'' hDb))
                have := conv_unpack hP (x :: x2 :: rest) (.ann p I) k (gv σb) w hCL hDT (conv_ann cI)
                  (fun ρ' hρ' => hw ρ' (hAN ρ' (fun y ht => by
                    rw [hρ' y ht]
                    by_cases hz : y ∈ x :: x2 :: rest
                    · obtain ⟨w1, hw1⟩ := hDb y hz
                      simp only [hz, if_true, hw1, gv_of_get hw1]
                    · simp only [hz, if_false])))
                simpa [bundle, unpack, tmpName] using this

end
end Fpy.C12
