/-
From blocks to whole functions: what a call from Python (`callEntry`) observes is `Returns` of the
body in the parameter environment; so two functions with equivalent bodies (same parameters, same
declared context) are indistinguishable by `f(*args[, ctx])`.  Plus the remaining dead-code shapes
of `dead_code.py` that need a purity hypothesis.
-/
import Fpy.Proof.LangSchemas
namespace Fpy.Xform
open Fpy Fpy.Lang

/-- the environment a call starts in -/
def paramEnv (ps : List String) (args : List Val) : Env := (ps.zip args).foldl (fun s (x, v) => s.set x v) []

/-- the context a call runs under -/
def entryCtx (fd : FuncDef) (ctx : Option Ctx) : Ctx :=
  match fd.ctx with | some c => c | none => (match ctx with | some c => c | none => fp64)

/-- `f(*args, ctx=…)` returns `v` (with some fuel) iff the body `Returns` `v` -/
theorem callEntry_returns_iff {Φ : Funs} {f : String} {fd : FuncDef} (hf : Φ.find? f = some fd)
    (args : List Val) (μ : Heap) (ctx : Option Ctx) (v : Val) (μ' : Heap) :
    (∃ n, callEntry Φ n f args μ ctx = .ok (v, μ')) ↔
      fd.params.length = args.length ∧ Returns Φ (paramEnv fd.params args) μ (entryCtx fd ctx) fd.body v μ' := by
  by_cases hl : fd.params.length = args.length
  · have key : ∀ n, callEntry Φ n f args μ ctx =
        (match evalB Φ n (paramEnv fd.params args) μ (entryCtx fd ctx) fd.body with
         | .error e => .error e
         | .ok (.ret v, μ') => .ok (v, μ')
         | .ok (.normal _, _) => .error .assertion) := by
      intro n; unfold callEntry
      simp only [hf, hl, bne_self_eq_false, Bool.false_eq_true, if_false]
      rfl
    simp only [hl, true_and, key]
    unfold Returns
    constructor
    · rintro ⟨n, hn⟩
      refine ⟨n, ?_⟩
      generalize evalB Φ n (paramEnv fd.params args) μ (entryCtx fd ctx) fd.body = r at hn
      cases r with
      | error e => cases hn
      | ok x =>
        obtain ⟨o, m⟩ := x
        cases o with
        | normal s => cases hn
        | ret w => cases hn; rfl
    · rintro ⟨n, hn⟩
      exact ⟨n, by rw [hn]⟩
  · have key : ∀ n, callEntry Φ n f args μ ctx = .error .typeError := by
      intro n; unfold callEntry
      have : (fd.params.length != args.length) = true := by simpa using hl
      simp only [hf, this, if_true]
    simp only [hl, false_and, iff_false, key]
    rintro ⟨n, hn⟩; cases hn

/-- functions with equivalent bodies are observationally equal at the entry point -/
theorem entry_equiv {Φ : Funs} {f f' : String} {fd fd' : FuncDef} (hf : Φ.find? f = some fd) (hf' : Φ.find? f' = some fd')
    (hp : fd.params = fd'.params) (hc : fd.ctx = fd'.ctx) (hb : BEquiv Φ fd.body fd'.body)
    (args : List Val) (μ : Heap) (ctx : Option Ctx) (v : Val) (μ' : Heap) :
    (∃ n, callEntry Φ n f args μ ctx = .ok (v, μ')) ↔ (∃ n, callEntry Φ n f' args μ ctx = .ok (v, μ')) := by
  rw [callEntry_returns_iff hf, callEntry_returns_iff hf']
  unfold entryCtx
  rw [hp, hc, hb.returns]

/-- … and so are functions whose bodies the checker relates, when the parameter environment is related to itself -/
theorem entry_sim {Φ : Funs} {f f' : String} {fd fd' : FuncDef} (hf : Φ.find? f = some fd) (hf' : Φ.find? f' = some fd')
    (hp : fd'.params = fd.params) (hc : fd'.ctx = fd.ctx) {R : VRel} (hb : simB R fd'.body fd.body = true)
    (args : List Val) (hinv : Inv R (paramEnv fd.params args) (paramEnv fd.params args))
    (μ : Heap) (ctx : Option Ctx) (v : Val) (μ' : Heap) :
    (∃ n, callEntry Φ n f' args μ ctx = .ok (v, μ')) ↔ (∃ n, callEntry Φ n f args μ ctx = .ok (v, μ')) := by
  rw [callEntry_returns_iff hf, callEntry_returns_iff hf']
  unfold entryCtx
  rw [hp, hc, sim_returns hinv hb]

/-! ### dead-code shapes with a purity side condition -/

theorem evalEω_not (Φ : Funs) (σ : Env) (μ : Heap) (C : Ctx) (a : Expr) :
    evalEω Φ σ μ C (.not a) = (do let (v, μ') ← evalEω Φ σ μ C a; .ok (.bool (!(← asBool v)), μ')) := by
  apply evalEω_of; simp only [evalE]; tends_tac

/-- `if c: A else: pass` is `if c: A` (no side condition) -/
theorem ifte_else_pass (Φ : Funs) (c : Expr) (A : List Stmt) : SEquiv Φ (.ifte c A [.pass]) (.if1 c A) := by
  intro σ μ C
  rw [evalSω_ifte, evalSω_if1]
  congr 1; funext ⟨v, μ'⟩; dsimp only; congr 1; funext bb
  cases bb
  · show evalBω Φ σ μ' C [.pass] = _
    rw [evalBω_single, evalSω_pass]; rfl
  · rfl

/-- `if c: pass else: B` is `if not c: B` (no side condition) -/
theorem ifte_then_pass (Φ : Funs) (c : Expr) (B : List Stmt) : SEquiv Φ (.ifte c [.pass] B) (.if1 (.not c) B) := by
  intro σ μ C
  rw [evalSω_ifte, evalSω_if1, evalEω_not]
  cases evalEω Φ σ μ C c with
  | error e => rfl
  | ok r =>
    obtain ⟨v, μ'⟩ := r
    cases v <;> try rfl
    rename_i b
    cases b
    · rfl
    · show evalBω Φ σ μ' C [.pass] = _
      rw [evalBω_single, evalSω_pass]; rfl

/-- an expression statement whose expression is pure and total is dead -/
theorem effect_elim {Φ : Funs} {σ : Env} {μ : Heap} {C : Ctx} {e : Expr} (hp : PureTotal Φ σ μ C e) (rest : List Stmt) :
    evalBω Φ σ μ C (.effect e :: rest) = evalBω Φ σ μ C rest := by
  obtain ⟨v, hv⟩ := hp
  rw [evalBω_cons', evalSω_effect, hv]; rfl

/-- `if c: pass` with `c` evaluating (purely) to a Boolean is dead -/
theorem if1_pass_elim {Φ : Funs} {σ : Env} {μ : Heap} {C : Ctx} {c : Expr} {b : Bool}
    (hp : evalEω Φ σ μ C c = .ok (.bool b, μ)) (rest : List Stmt) :
    evalBω Φ σ μ C (.if1 c [.pass] :: rest) = evalBω Φ σ μ C rest := by
  rw [evalBω_cons', evalSω_if1, hp]
  cases b
  · rfl
  · show (evalBω Φ σ μ C [.pass] >>= _) = _
    rw [evalBω_single, evalSω_pass]; rfl

/-- `with D: pass` is dead -/
theorem with_pass_elim (Φ : Funs) (D : Ctx) (rest : List Stmt) :
    BEquiv Φ (.with (.ctxLit D) none [.pass] :: rest) rest := by
  intro σ μ C
  rw [evalBω_cons', with_ctx_wrap, evalBω_single, evalSω_pass]; rfl

/-- `with D: (with D': body)` is `with D': body` -/
theorem with_with_elim (Φ : Funs) (D D' : Ctx) (body : List Stmt) :
    SEquiv Φ (.with (.ctxLit D) none [.with (.ctxLit D') none body]) (.with (.ctxLit D') none body) := by
  intro σ μ C
  rw [with_ctx_wrap, evalBω_single, with_ctx_wrap, with_ctx_wrap]

end Fpy.Xform
