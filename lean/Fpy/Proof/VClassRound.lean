/-
Soundness of `representable_classes` (the rounding transfer of `value_class.py`):
whatever any context's rounding returns has a class the three probes (NaN, +Inf, −Inf) or
ZERO | FINITE account for.
-/
import Fpy.Proof.VClass
namespace Fpy.C13
open Fpy VC

theorem repr_has_zero (C : Ctx) : (representableClasses C).has .zero = true := by
  unfold representableClasses
  exact has_join_left (has_join_left (has_join_left (by decide)))

theorem repr_has_fin (C : Ctx) : (representableClasses C).has .fin = true := by
  unfold representableClasses
  exact has_join_left (has_join_left (has_join_left (by decide)))

theorem repr_has_finv (C : Ctx) (y : RF) : (representableClasses C).has (classOf (.fin y)) = true := by
  rcases classOf_fin_cases y with h | h <;> rw [h]
  · exact repr_has_zero C
  · exact repr_has_fin C

theorem has_single_self (c : Cls) : (single c).has c = true := by cases c <;> decide

theorem repr_of_probe_nan {C : Ctx} {r : Res} (h : C.roundAtCore (.nan false) none false 0 = .ok r) :
    (representableClasses C).has (classOf r.v) = true := by
  unfold representableClasses
  refine has_join_left (has_join_left (has_join_right ?_))
  simp only [roundedClass, h]; exact has_single_self _

theorem repr_of_probe_inf {C : Ctx} {s : Bool} {r : Res} (h : C.roundAtCore (.inf s) none false 0 = .ok r) :
    (representableClasses C).has (classOf r.v) = true := by
  unfold representableClasses
  cases s
  · refine has_join_left (has_join_right ?_)
    simp only [roundedClass, h]; exact has_single_self _
  · refine has_join_right ?_
    simp only [roundedClass, h]; exact has_single_self _

/-- the shape every family's result has: a finite value, or (up to class) what a probe gives -/
def Accounted (C : Ctx) (res : Res) : Prop :=
  (∃ y, res.v = .fin y) ∨
  (∃ r', C.roundAtCore (.nan false) none false 0 = .ok r' ∧ classOf r'.v = classOf res.v) ∨
  (∃ s r', C.roundAtCore (.inf s) none false 0 = .ok r' ∧ classOf r'.v = classOf res.v)

theorem accounted_sound {C : Ctx} {res : Res} (h : Accounted C res) :
    (representableClasses C).has (classOf res.v) = true := by
  rcases h with ⟨y, hy⟩ | ⟨r', h1, h2⟩ | ⟨s, r', h1, h2⟩
  · rw [hy]; exact repr_has_finv C y
  · rw [← h2]; exact repr_of_probe_nan h1
  · rw [← h2]; exact repr_of_probe_inf h1

/-! ### the float families -/

/-- special arm of the float families: same value as a probe -/
theorem floatSpecial_probe (o : Opts) (v : FV) (e : Except Err Res) (h : floatSpecial o v = some e) :
    (∃ s, v = .nan s ∧ floatSpecial o (.nan false) = some e) ∨ (∃ s, v = .inf s) := by
  cases v with
  | nan s => exact .inl ⟨s, rfl, h⟩
  | inf s => exact .inr ⟨s, rfl⟩
  | fin x => simp [floatSpecial] at h

theorem floatSpecial_none (o : Opts) (v : FV) (h : floatSpecial o v = none) : ∃ x, v = .fin x := by
  cases v with
  | nan s => simp [floatSpecial] at h
  | inf s => simp [floatSpecial] at h
  | fin x => exact ⟨x, rfl⟩

theorem fixedSpecial_none (o : Opts) (v : FV) (h : fixedSpecial o v = none) : ∃ x, v = .fin x := by
  cases v with
  | nan s => simp [fixedSpecial] at h
  | inf s => simp [fixedSpecial] at h
  | fin x => exact ⟨x, rfl⟩

/-- `MPBFloatContext._round_at`: the result is finite or is, as a VALUE, what a probe returns -/
theorem mpb_value (c : MPBParams) (v : FV) (n : Option Int) (exact : Bool) (r : Nat) (res : Res)
    (h : mpbRoundAt c v n exact r = .ok res) :
    (∃ y, res.v = .fin y) ∨
    (∃ r', mpbRoundAt c (.nan false) none false 0 = .ok r' ∧ r'.v = res.v) ∨
    (∃ s r', mpbRoundAt c (.inf s) none false 0 = .ok r' ∧ r'.v = res.v) := by
  cases v with
  | nan s =>
    refine .inr (.inl ⟨res, ?_, rfl⟩)
    simpa [mpbRoundAt, floatSpecial] using h
  | inf s =>
    refine .inr (.inr ⟨s, res, ?_, rfl⟩)
    simpa [mpbRoundAt, floatSpecial] using h
  | fin x =>
    unfold mpbRoundAt at h
    simp only [floatSpecial] at h
    by_cases hx : x.c = 0
    · simp only [hx, if_true] at h
      left; injection h with h; subst h; exact ⟨_, rfl⟩
    · simp only [hx, if_false] at h
      generalize hrr : x.round _ _ _ _ _ _ = rr at h
      rcases rr with e | ⟨rounded, fl⟩
      · simp at h
      · simp only at h
        generalize hovf : (if rounded.s = true then rounded.lt c.negMax else rounded.gt c.posMax) = ovf at h
        generalize hoti : overflowToInfinity c.rm rounded.s = oti at h
        cases ovf
        · simp only [Bool.false_eq_true, if_false] at h
          left; injection h with h; subst h; exact ⟨_, rfl⟩
        · simp only [if_true] at h
          cases exact
          · simp only [Bool.false_eq_true, if_false] at h
            cases hov : c.ov <;> simp only [hov] at h
            · cases oti
              · simp only [Bool.false_eq_true, if_false] at h
                left; injection h with h; subst h; simp only [setOvf]; split <;> exact ⟨_, rfl⟩
              · simp only [if_true] at h
                cases hinf : c.o.enableInf <;> simp only [hinf, Bool.false_eq_true, if_false, if_true] at h
                · cases hiv : c.o.infValue <;> simp only [hiv] at h
                  · cases h
                  · rename_i iv
                    injection h with h; subst h
                    refine .inr (.inr ⟨rounded.s, ⟨iv.withSign rounded.s, {}⟩, ?_, rfl⟩)
                    simp [mpbRoundAt, floatSpecial, hinf, hiv]
                · injection h with h; subst h
                  refine .inr (.inr ⟨x.s, ⟨.inf x.s, {}⟩, ?_, rfl⟩)
                  simp [mpbRoundAt, floatSpecial, hinf]
            · left; injection h with h; subst h; simp only [setOvf]; split <;> exact ⟨_, rfl⟩
            · cases h
            · cases h
          · simp at h

/-! ### EFloat: the fix-up looks only at the value, the flags pass through -/

theorem fixup_flags (c : EFloatParams) (v : FV) (fl : Flags) :
    efloatFixup c ⟨v, fl⟩ = (efloatFixup c ⟨v, {}⟩).map (fun b => { b with fl := fl }) := by
  cases v <;> simp only [efloatFixup] <;> (repeat' split) <;> simp_all [Except.map]

theorem fixup_value (c : EFloatParams) (r1 r2 a : Res) (hv : r1.v = r2.v) (h : efloatFixup c r1 = .ok a) :
    ∃ b, efloatFixup c r2 = .ok b ∧ b.v = a.v := by
  obtain ⟨v, f1⟩ := r1
  obtain ⟨v2, f2⟩ := r2
  simp only at hv; subst hv
  rw [fixup_flags] at h
  rw [fixup_flags c v f2]
  cases h0 : efloatFixup c ⟨v, {}⟩ with
  | error e => rw [h0] at h; simp [Except.map] at h
  | ok b0 =>
    rw [h0] at h; simp only [Except.map] at h
    injection h with h; subst h
    exact ⟨_, rfl, rfl⟩

theorem fixup_fin (c : EFloatParams) (r a : Res) (y : RF) (hv : r.v = .fin y) (h : efloatFixup c r = .ok a) :
    ∃ z, a.v = .fin z := by
  obtain ⟨v, f⟩ := r
  simp only at hv; subst hv
  simp only [efloatFixup] at h
  split at h <;> injection h with h <;> subst h <;> exact ⟨_, rfl⟩

theorem efloat_accounted (c : EFloatParams) (v : FV) (n : Option Int) (exact : Bool) (r : Nat) (res : Res)
    (h : (Ctx.efloat c).roundAtCore v n exact r = .ok res) : Accounted (.efloat c) res := by
  simp only [Ctx.roundAtCore] at h
  generalize hm : mpbRoundAt c.mpb v n exact r = m at h
  rcases m with e | res0
  · simp at h
  · simp only at h
    rcases mpb_value _ _ _ _ _ _ hm with ⟨y, hy⟩ | ⟨r', hp, hv⟩ | ⟨s, r', hp, hv⟩
    · exact .inl (fixup_fin c res0 res y hy h)
    · obtain ⟨b, hb, hbv⟩ := fixup_value c res0 r' res hv.symm h
      refine .inr (.inl ⟨b, ?_, by rw [hbv]⟩)
      simp only [Ctx.roundAtCore, hp, hb]
    · obtain ⟨b, hb, hbv⟩ := fixup_value c res0 r' res hv.symm h
      refine .inr (.inr ⟨s, b, ?_, by rw [hbv]⟩)
      simp only [Ctx.roundAtCore, hp, hb]

theorem mpb_accounted (c : MPBParams) (v : FV) (n : Option Int) (exact : Bool) (r : Nat) (res : Res)
    (h : (Ctx.mpb c).roundAtCore v n exact r = .ok res) : Accounted (.mpb c) res := by
  simp only [Ctx.roundAtCore] at h
  rcases mpb_value _ _ _ _ _ _ h with ⟨y, hy⟩ | ⟨r', hp, hv⟩ | ⟨s, r', hp, hv⟩
  · exact .inl ⟨y, hy⟩
  · exact .inr (.inl ⟨r', by simpa [Ctx.roundAtCore] using hp, by rw [hv]⟩)
  · exact .inr (.inr ⟨s, r', by simpa [Ctx.roundAtCore] using hp, by rw [hv]⟩)

theorem mp_accounted (p : Nat) (rm : RM) (k : Option Nat) (o : Opts) (v : FV) (n : Option Int) (exact : Bool)
    (r : Nat) (res : Res) (h : (Ctx.mp p rm k o).roundAtCore v n exact r = .ok res) :
    Accounted (.mp p rm k o) res := by
  cases v with
  | nan s => exact .inr (.inl ⟨res, by simpa [Ctx.roundAtCore, floatSpecial] using h, rfl⟩)
  | inf s => exact .inr (.inr ⟨s, res, by simpa [Ctx.roundAtCore, floatSpecial] using h, rfl⟩)
  | fin x =>
    left
    simp only [Ctx.roundAtCore, floatSpecial] at h
    by_cases hx : x.c = 0
    · simp only [hx, if_true] at h; injection h with h; subst h; exact ⟨_, rfl⟩
    · simp only [hx, if_false] at h
      generalize x.round _ _ _ _ _ _ = rr at h
      rcases rr with e | ⟨xr, fl⟩
      · simp at h
      · simp only at h; injection h with h; subst h; exact ⟨_, rfl⟩

theorem mps_accounted (p : Nat) (emin : Int) (rm : RM) (k : Option Nat) (o : Opts) (v : FV) (n : Option Int)
    (exact : Bool) (r : Nat) (res : Res) (h : (Ctx.mps p emin rm k o).roundAtCore v n exact r = .ok res) :
    Accounted (.mps p emin rm k o) res := by
  cases v with
  | nan s => exact .inr (.inl ⟨res, by simpa [Ctx.roundAtCore, floatSpecial] using h, rfl⟩)
  | inf s => exact .inr (.inr ⟨s, res, by simpa [Ctx.roundAtCore, floatSpecial] using h, rfl⟩)
  | fin x =>
    left
    simp only [Ctx.roundAtCore, floatSpecial] at h
    by_cases hx : x.c = 0
    · simp only [hx, if_true] at h; injection h with h; subst h; exact ⟨_, rfl⟩
    · simp only [hx, if_false] at h
      generalize x.round _ _ _ _ _ _ = rr at h
      rcases rr with e | ⟨xr, fl⟩
      · simp at h
      · simp only at h; injection h with h; subst h; exact ⟨_, rfl⟩

theorem real_accounted (v : FV) (n : Option Int) (exact : Bool) (r : Nat) (res : Res)
    (h : Ctx.real.roundAtCore v n exact r = .ok res) : Accounted .real res := by
  cases n with
  | some m => simp [Ctx.roundAtCore] at h
  | none =>
    simp only [Ctx.roundAtCore] at h
    injection h with h; subst h
    cases v with
    | nan s => exact .inr (.inl ⟨⟨.nan false, {}⟩, rfl, rfl⟩)
    | inf s => exact .inr (.inr ⟨s, ⟨.inf s, {}⟩, rfl, rfl⟩)
    | fin x => exact .inl ⟨x, rfl⟩

/-- special arm of the fixed families, up to class -/
theorem fixedSpecial_class (o : Opts) (s : Bool) (res : Res) (h : fixedSpecial o (.nan s) = some (.ok res)) :
    ∃ r', fixedSpecial o (.nan false) = some (.ok r') ∧ classOf r'.v = classOf res.v := by
  simp only [fixedSpecial] at h ⊢
  cases hn : o.enableNan <;> simp only [hn, Bool.false_eq_true, if_false, if_true] at h ⊢
  · exact ⟨res, h, rfl⟩
  · injection h with h; injection h with h; subst h
    exact ⟨_, rfl, rfl⟩

theorem mpfix_accounted (nmin : Int) (rm : RM) (k : Option Nat) (nz : Bool) (o : Opts) (v : FV) (n : Option Int)
    (exact : Bool) (r : Nat) (res : Res) (h : (Ctx.mpfix nmin rm k nz o).roundAtCore v n exact r = .ok res) :
    Accounted (.mpfix nmin rm k nz o) res := by
  cases v with
  | nan s =>
    simp only [Ctx.roundAtCore] at h
    cases hs : fixedSpecial o (.nan s) with
    | none => simp [fixedSpecial] at hs
    | some e =>
      rw [hs] at h; simp only at h; subst h
      obtain ⟨r', h1, h2⟩ := fixedSpecial_class o s res hs
      exact .inr (.inl ⟨r', by simp only [Ctx.roundAtCore, h1], h2⟩)
  | inf s => exact .inr (.inr ⟨s, res, by simpa [Ctx.roundAtCore, fixedSpecial] using h, rfl⟩)
  | fin x =>
    left
    simp only [Ctx.roundAtCore, fixedSpecial] at h
    by_cases hx : x.c = 0
    · simp only [hx, if_true] at h; injection h with h; subst h; exact ⟨_, rfl⟩
    · simp only [hx, if_false] at h
      generalize x.round _ _ _ _ _ _ = rr at h
      rcases rr with e | ⟨xr, fl⟩
      · simp at h
      · simp only at h
        split at h <;> injection h with h <;> subst h <;> exact ⟨_, rfl⟩

theorem rangeEnd_fin (c : MPBFixParams) (s : Bool) : ∃ y, (c.rangeEnd s).v = .fin y := by
  unfold MPBFixParams.rangeEnd
  split
  · split <;> exact ⟨_, rfl⟩
  · exact ⟨_, rfl⟩

theorem mpbfix_accounted (c : MPBFixParams) (v : FV) (n : Option Int) (exact : Bool) (r : Nat) (res : Res)
    (h : (Ctx.mpbfix c).roundAtCore v n exact r = .ok res) : Accounted (.mpbfix c) res := by
  cases v with
  | nan s =>
    simp only [Ctx.roundAtCore, mpbfixRoundAt] at h
    cases hs : fixedSpecial c.o (.nan s) with
    | none => simp [fixedSpecial] at hs
    | some e =>
      rw [hs] at h; simp only at h; subst h
      obtain ⟨r', h1, h2⟩ := fixedSpecial_class c.o s res hs
      exact .inr (.inl ⟨r', by simp only [Ctx.roundAtCore, mpbfixRoundAt, h1], h2⟩)
  | inf s => exact .inr (.inr ⟨s, res, by simpa [Ctx.roundAtCore, mpbfixRoundAt, fixedSpecial] using h, rfl⟩)
  | fin x =>
    simp only [Ctx.roundAtCore, mpbfixRoundAt, fixedSpecial] at h
    by_cases hx : x.c = 0
    · simp only [hx, if_true] at h
      left; injection h with h; subst h; exact ⟨_, rfl⟩
    · simp only [hx, if_false] at h
      generalize x.round _ _ _ _ _ _ = rr at h
      rcases rr with e | ⟨xr, fl⟩
      · simp at h
      · simp only at h
        generalize (if xr.s = true then xr.lt c.negMax else xr.gt c.posMax) = ovf at h
        generalize overflowToInfinity c.rm xr.s = oti at h
        cases ovf
        · simp only [Bool.false_eq_true, if_false] at h
          left; split at h <;> injection h with h <;> subst h <;> exact ⟨_, rfl⟩
        · simp only [if_true] at h
          cases exact
          · simp only [Bool.false_eq_true, if_false] at h
            cases hov : c.ov <;> simp only [hov] at h
            · cases oti
              · simp only [Bool.false_eq_true, if_false] at h
                left; injection h with h; subst h
                obtain ⟨y, hy⟩ := rangeEnd_fin c xr.s
                exact ⟨y, by simp only [setOvf]; exact hy⟩
              · simp only [if_true] at h
                cases hinf : c.o.enableInf <;> simp only [hinf, Bool.false_eq_true, if_false, if_true] at h
                · cases hiv : c.o.infValue <;> simp only [hiv] at h
                  · cases h
                  · rename_i iv
                    injection h with h; subst h
                    refine .inr (.inr ⟨false, ⟨iv, {}⟩, ?_, rfl⟩)
                    simp [Ctx.roundAtCore, mpbfixRoundAt, fixedSpecial, hinf, hiv]
                · injection h with h; subst h
                  refine .inr (.inr ⟨x.s, ⟨.inf x.s, {}⟩, ?_, rfl⟩)
                  simp [Ctx.roundAtCore, mpbfixRoundAt, fixedSpecial, hinf]
            · left; injection h with h; subst h
              obtain ⟨y, hy⟩ := rangeEnd_fin c xr.s
              exact ⟨y, by simp only [setOvf]; exact hy⟩
            · left; injection h with h; subst h; simp only [setOvf]; split <;> exact ⟨_, rfl⟩
            · cases h
          · simp at h

/-- `ExpContext` (powers of two only: zero, negatives and out-of-range values become NaN; an infinity
becomes NaN or `inf_value`) -/
theorem exp_probe_nan (c : ExpParams) :
    (Ctx.exp c).roundAtCore (.nan false) none false 0 = .ok ⟨.nan false, {}⟩ := rfl

theorem exp_accounted (c : ExpParams) (v : FV) (n : Option Int) (exact : Bool) (r : Nat) (res : Res)
    (h : (Ctx.exp c).roundAtCore v n exact r = .ok res) : Accounted (.exp c) res := by
  have nanCase : ∀ fl, res = ⟨.nan false, fl⟩ → Accounted (.exp c) res := by
    intro fl he; subst he
    exact .inr (.inl ⟨⟨.nan false, {}⟩, exp_probe_nan c, rfl⟩)
  cases v with
  | nan s =>
    simp only [Ctx.roundAtCore, expRoundAt, floatSpecial] at h
    injection h with h
    exact nanCase _ h.symm
  | inf s => exact .inr (.inr ⟨s, res, by simpa [Ctx.roundAtCore, expRoundAt, floatSpecial] using h, rfl⟩)
  | fin x =>
    simp only [Ctx.roundAtCore, expRoundAt, floatSpecial] at h
    by_cases hx : x.c = 0
    · simp only [hx, if_true] at h
      simp at h
      exact nanCase _ h.symm
    · simp only [hx, if_false] at h
      generalize x.round _ _ _ _ _ _ = rr at h
      rcases rr with e | ⟨y, fl⟩
      · simp at h
      · simp only at h
        split at h
        · injection h with h; exact nanCase _ h.symm
        · split at h
          · cases exact
            · simp only [Bool.false_eq_true, if_false] at h
              cases hov : c.ov <;> simp only [hov] at h
              · split at h <;> injection h with h <;> subst h
                · exact nanCase _ rfl
                · exact .inl ⟨_, rfl⟩
              · injection h with h; subst h; exact .inl ⟨_, rfl⟩
              · cases h
              · cases h
            · simp at h
          · split at h
            · cases exact
              · simp only [Bool.false_eq_true, if_false] at h
                cases hov : c.ov <;> simp only [hov] at h
                · split at h <;> injection h with h <;> subst h
                  · exact nanCase _ rfl
                  · exact .inl ⟨_, rfl⟩
                · injection h with h; subst h; exact .inl ⟨_, rfl⟩
                · cases h
                · cases h
              · simp at h
            · injection h with h; subst h; exact .inl ⟨_, rfl⟩

/-- every family -/
theorem round_accounted (C : Ctx) (v : FV) (n : Option Int) (exact : Bool) (r : Nat) (res : Res)
    (h : C.roundAtCore v n exact r = .ok res) : Accounted C res := by
  cases C with
  | real => exact real_accounted v n exact r res h
  | mp p rm k o => exact mp_accounted p rm k o v n exact r res h
  | mps p emin rm k o => exact mps_accounted p emin rm k o v n exact r res h
  | mpb c => exact mpb_accounted c v n exact r res h
  | efloat c => exact efloat_accounted c v n exact r res h
  | mpfix nmin rm k nz o => exact mpfix_accounted nmin rm k nz o v n exact r res h
  | mpbfix c => exact mpbfix_accounted c v n exact r res h
  | exp c => exact exp_accounted c v n exact r res h

end Fpy.C13
