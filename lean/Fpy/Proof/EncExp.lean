/-
Helper lemmas for C16: `ExpFormat` (powers of two) and `MPSFloatFormat.normalize`.
-/
import Fpy.Proof.EncEF3
namespace Fpy
open Fpy.Enc Fpy.Spec

theorem exp_decode_layout (f : ExpFmt) (b : Nat) (hb : b < 2 ^ f.nbits) :
    f.decode b = .ok (expLayout f.nbits f.eoff b) := by
  unfold ExpFmt.decode expLayout ExpFmt.ebias bitmask
  have h0 : ¬ (b ≥ 2 ^ f.nbits) := by omega
  simp only [h0, if_false]
  split <;> rfl

theorem exp_two_mask (f : ExpFmt) (hv : f.valid = true) : 2 ^ f.nbits - 1 = 2 * (2 ^ (f.nbits - 1) - 1) + 1 := by
  have hn : 1 ≤ f.nbits := by unfold ExpFmt.valid at hv; simpa using hv
  have := two_pow_pred f.nbits hn
  have := two_pow_pos' (f.nbits - 1)
  omega

theorem bitLength_one : bitLength 1 = 1 := by decide

theorem exp_repr_pow (f : ExpFmt) (hv : f.valid = true) (e : Int) :
    f.repr (.fin ⟨false, e, 1⟩) = (decide (f.emin ≤ e) && decide (e ≤ f.emax)) := by
  have hp : RF.p ⟨false, e, 1⟩ = 1 := bitLength_one
  have he : RF.e ⟨false, e, 1⟩ = e := by unfold RF.e; rw [hp]; simp
  unfold ExpFmt.repr ExpFmt.mp1Repr
  simp only [hp, he]
  by_cases h1 : e < f.emin <;> by_cases h2 : e > f.emax <;> simp [h1, h2] <;> omega

theorem exp_encode_decode (f : ExpFmt) (hv : f.valid = true) (b : Nat) (hb : b < 2 ^ f.nbits) :
    ∃ v, f.decode b = .ok v ∧ f.encode v = .ok b := by
  have hm := exp_two_mask f hv
  rw [exp_decode_layout f b hb]
  refine ⟨_, rfl, ?_⟩
  unfold expLayout
  by_cases h : b = 2 ^ f.nbits - 1
  · simp only [h, if_true]
    unfold ExpFmt.encode ExpFmt.repr bitmask; simp
  · simp only [h, if_false]
    have hr : f.repr (.fin ⟨false, (b : Int) - (((2 ^ (f.nbits - 1) - 1 : Nat) : Int) - f.eoff), 1⟩) = true := by
      rw [exp_repr_pow f hv]
      unfold ExpFmt.emin ExpFmt.emax bitmask
      simp; omega
    have hp : ∀ e : Int, RF.e ⟨false, e, 1⟩ = e := by
      intro e; have hp : RF.p ⟨false, e, 1⟩ = 1 := bitLength_one
      unfold RF.e; rw [hp]; simp
    unfold ExpFmt.encode
    simp only [hr, Bool.not_true, Bool.false_eq_true, if_false, hp]
    unfold ExpFmt.ebias bitmask
    congr 1; omega

/-- a non-zero significand representable with one digit is a power of two -/
theorem mp1_pow (x : RF) (hc : x.c ≠ 0) (h : ExpFmt.mp1Repr x = true) : x.c = 2 ^ (x.p - 1) := by
  have hp := bitLength_pos hc
  have ⟨h1, h2⟩ := (bitLength_eq_iff x.c (bitLength x.c) hp).1 rfl
  unfold ExpFmt.mp1Repr at h
  simp only [hc, if_false] at h
  unfold RF.p at *
  by_cases hp1 : bitLength x.c ≤ 1
  · have : bitLength x.c = 1 := by omega
    rw [this] at h1 h2 ⊢; simp at h1 h2 ⊢; omega
  · simp only [hp1, if_false, beq_iff_eq] at h
    have hd := Nat.div_add_mod x.c (2 ^ (bitLength x.c - 1))
    rw [h, Nat.add_zero] at hd
    have hpp := two_pow_pred (bitLength x.c) hp
    have hq : x.c / 2 ^ (bitLength x.c - 1) = 1 := Nat.div_eq_of_lt_le (by omega) (by omega)
    rw [hq, Nat.mul_one] at hd; exact hd.symm

theorem exp_decode_encode (f : ExpFmt) (hv : f.valid = true) (v : FV) (hr : f.repr v = true) :
    ∃ b w, f.encode v = .ok b ∧ b < 2 ^ f.nbits ∧ f.decode b = .ok w ∧ sameFV v w := by
  have hm := exp_two_mask f hv
  have hN := two_pow_pos' f.nbits
  cases v with
  | inf s => unfold ExpFmt.repr at hr; simp at hr
  | nan s =>
    refine ⟨bitmask f.nbits, .nan false, ?_, by unfold bitmask; omega, ?_, trivial⟩
    · unfold ExpFmt.encode; simp [hr]
    · unfold ExpFmt.decode bitmask
      have : ¬ (2 ^ f.nbits - 1 ≥ 2 ^ f.nbits) := by omega
      simp [this]
  | fin x =>
    have hr0 := hr
    unfold ExpFmt.repr at hr
    simp only at hr
    by_cases h1 : ExpFmt.mp1Repr x = true
    · simp only [h1, Bool.not_true, Bool.false_eq_true, if_false] at hr
      by_cases h2 : (x.c != 0 && !x.s) = true
      · simp only [h2, Bool.not_true, Bool.false_eq_true, if_false] at hr
        simp only [Bool.and_eq_true, bne_iff_ne, ne_eq, Bool.not_eq_true'] at h2
        obtain ⟨hc, hs⟩ := h2
        simp only [Bool.not_eq_true', Bool.or_eq_false_iff, decide_eq_false_iff_not] at hr
        obtain ⟨hlo, hhi⟩ := hr
        have hb : (x.e + f.ebias).toNat < 2 ^ f.nbits - 1 := by
          unfold ExpFmt.emin ExpFmt.emax bitmask at *; unfold ExpFmt.ebias bitmask; omega
        refine ⟨(x.e + f.ebias).toNat, .fin ⟨false, x.e, 1⟩, ?_, by omega, ?_, ?_, hs⟩
        · unfold ExpFmt.encode; simp [hr0]
        · unfold ExpFmt.decode bitmask
          have a : ¬ ((x.e + f.ebias).toNat ≥ 2 ^ f.nbits) := by omega
          have b : ¬ ((x.e + f.ebias).toNat = 2 ^ f.nbits - 1) := by omega
          simp only [a, b, if_false]
          congr 3
          unfold ExpFmt.emin ExpFmt.emax bitmask at *; unfold ExpFmt.ebias bitmask; omega
        · -- same value: c is a power of two
          have hpow := mp1_pow x hc h1
          have hpp := bitLength_pos hc
          unfold sameValue units mag
          have hmin : min x.exp x.e = x.exp := by unfold RF.e RF.p; omega
          simp only [hs, Bool.false_eq_true, if_false, hmin, Int.sub_self, Int.toNat_zero, Nat.pow_zero, Nat.mul_one,
            Nat.one_mul]
          have : (x.e - x.exp).toNat = x.p - 1 := by unfold RF.e RF.p; omega
          rw [this, ← hpow]
      · simp [h2] at hr
    · simp [h1] at hr

/-- the inner `go` of `RealFloat.normalize`: move the significand to exponent `T` -/
theorem normalize_go (x : RF) (T : Int) (hdiv : x.exp < T → x.c % 2 ^ (T - x.exp).toNat = 0) :
    (if x.exp - T = 0 then some (⟨x.s, T, x.c⟩ : RF)
     else if x.exp - T > 0 then some ⟨x.s, T, x.c * 2 ^ (x.exp - T).toNat⟩
     else if x.c % 2 ^ (-(x.exp - T)).toNat != 0 then none else some ⟨x.s, T, x.c / 2 ^ (-(x.exp - T)).toNat⟩) =
    some ⟨x.s, T, shiftBy x.c (x.exp - T)⟩ := by
  unfold shiftBy
  by_cases h0 : x.exp - T = 0
  · have a : ¬ (x.exp - T > 0) := by omega
    have b : ¬ (x.exp - T < 0) := by omega
    simp only [h0, if_true, a, b, if_false]
    simp
  · by_cases h1 : x.exp - T > 0
    · simp only [h0, h1, if_false, if_true]
    · have h2 : x.exp - T < 0 := by omega
      have e : (-(x.exp - T)).toNat = (T - x.exp).toNat := by omega
      have hd := hdiv (by omega)
      simp only [h0, h1, h2, if_false, if_true, e, hd]
      simp

/-- `MPSFloatFormat.normalize` on a representable non-zero value: same value, same sign, canonical
position (`exp = expmin` with at most `p` digits, or exactly `p` digits above it) -/
theorem mps_normalize (f : MPSFmt) (hp : 1 ≤ f.p) (x : RF) (hc : x.c ≠ 0) (hr : f.reprRF x = true) :
    ∃ y, f.normalize (.fin x) = .ok (.fin y) ∧ same x y ∧
      ((y.exp = f.expmin ∧ y.p ≤ f.p) ∨ (y.exp > f.expmin ∧ y.p = f.p)) := by
  have ⟨r1, r2⟩ := mps_repr_facts f x hc hr
  have hn : f.nmin + 1 = f.expmin := by unfold MPSFmt.nmin; omega
  have hr' : f.repr (.fin x) = true := hr
  -- the target exponent
  let T : Int := if x.exp - ((f.p : Int) - x.p) ≤ f.nmin then f.expmin else x.exp - ((f.p : Int) - x.p)
  have hdiv : x.exp < T → x.c % 2 ^ (T - x.exp).toNat = 0 := by
    intro h
    by_cases hT : x.exp - ((f.p : Int) - x.p) ≤ f.nmin
    · have : T = f.expmin := by simp only [T, hT, if_true]
      rw [this] at h ⊢; exact r2 h
    · have hTe : T = x.exp - ((f.p : Int) - x.p) := by simp only [T, hT, if_false]
      rw [hTe] at h ⊢
      have : (x.exp - ((f.p : Int) - x.p) - x.exp).toNat = x.p - f.p := by omega
      rw [this]; exact r1 (by omega)
  have hnorm : x.normalize (some f.p) (some f.nmin) = some ⟨x.s, T, shiftBy x.c (x.exp - T)⟩ := by
    have hgo := normalize_go x T hdiv
    unfold RF.normalize
    simp only
    by_cases hT : x.exp - ((f.p : Int) - x.p) ≤ f.nmin
    · have hTe : T = f.expmin := by simp only [T, hT, if_true]
      simp only [hT, if_true]
      have e1 : (f.p : Int) - x.p - (f.nmin + 1 - (x.exp - ((f.p : Int) - x.p))) = x.exp - T := by omega
      have e2 : x.exp - ((f.p : Int) - x.p) + (f.nmin + 1 - (x.exp - ((f.p : Int) - x.p))) = T := by omega
      rw [e1, e2]; exact hgo
    · have hTe : T = x.exp - ((f.p : Int) - x.p) := by simp only [T, hT, if_false]
      simp only [hT, if_false]
      have e1 : (f.p : Int) - x.p = x.exp - T := by omega
      have e2 : x.exp - (x.exp - T) = T := by omega
      rw [e1, e2]; exact hgo
  refine ⟨⟨x.s, T, shiftBy x.c (x.exp - T)⟩, ?_, ⟨?_, rfl⟩, ?_⟩
  · unfold MPSFmt.normalize
    simp only [hr', Bool.not_true, Bool.false_eq_true, if_false, hc, hnorm]
  · unfold sameValue
    exact (units_shiftBy x.s x.exp T x.c _ (by omega) (by simp only; omega) hdiv).symm
  · -- canonical position, from the bit length of the moved significand
    have hm := mag_shiftBy x.s x.exp T x.c (min x.exp T) (by omega) (by omega) hdiv
    have hc' : shiftBy x.c (x.exp - T) ≠ 0 := by
      intro h0
      have hz : mag ⟨x.s, T, shiftBy x.c (x.exp - T)⟩ (min x.exp T) = 0 := by unfold mag; simp [h0]
      rw [hz] at hm
      exact mag_ne_zero (x := ⟨x.s, x.exp, x.c⟩) hc _ hm.symm
    have b1 := mag_bitLength ⟨x.s, T, shiftBy x.c (x.exp - T)⟩ (min x.exp T) hc' (by simp only; omega)
    have b2 := mag_bitLength ⟨x.s, x.exp, x.c⟩ (min x.exp T) hc (by simp only; omega)
    rw [hm] at b1
    simp only at b1 b2
    unfold RF.p at *
    simp only
    by_cases hT : x.exp - ((f.p : Int) - (bitLength x.c : Int)) ≤ f.nmin
    · have hTe : T = f.expmin := by simp only [T, RF.p, hT, if_true]
      left; refine ⟨hTe, ?_⟩; omega
    · have hTe : T = x.exp - ((f.p : Int) - (bitLength x.c : Int)) := by simp only [T, RF.p, hT, if_false]
      by_cases hTm : T = f.expmin
      · left; refine ⟨hTm, ?_⟩; omega
      · right; refine ⟨by omega, ?_⟩; omega

theorem ef_repr_mpb (f : EF) (v : FV) (hr : f.repr v = true) : f.mpb.repr v = true := by
  unfold EF.repr at hr
  by_cases h : f.mpb.repr v = true
  · exact h
  · simp [h] at hr

theorem ef_normalize (f : EF) (hv : f.valid = true) (x : RF) (hc : x.c ≠ 0) (hr : f.repr (.fin x) = true) :
    ∃ y, f.normalize (.fin x) = .ok (.fin y) ∧ same x y ∧
      ((y.exp = f.expmin ∧ y.p ≤ f.pmax) ∨ (y.exp > f.expmin ∧ y.p = f.pmax)) := by
  have hp := ef_pmax_pos f hv
  have hm := ef_repr_mpb f _ hr
  have hrr : f.mpb.mps.reprRF x = true := by
    rw [ef_repr_fin_nonzero f hv x hc] at hr
    simp only [Bool.and_eq_true] at hr; exact hr.1.1
  obtain ⟨y, h1, h2, h3⟩ := mps_normalize f.mpb.mps hp x hc hrr
  refine ⟨y, ?_, h2, h3⟩
  unfold EF.normalize MPBFmt.normalize
  simp only [hr, hm, Bool.not_true, Bool.false_eq_true, if_false]
  exact h1

theorem ef_normalize_zero (f : EF) (x : RF) (hc : x.c = 0) (hr : f.repr (.fin x) = true) :
    f.normalize (.fin x) = .ok (.fin ⟨x.s, f.expmin, 0⟩) := by
  have hm := ef_repr_mpb f _ hr
  have hrr : f.mpb.mps.repr (.fin x) = true := by unfold MPSFmt.repr MPSFmt.reprRF; simp [hc]
  unfold EF.normalize MPBFmt.normalize MPSFmt.normalize
  simp only [hr, hm, hrr, Bool.not_true, Bool.false_eq_true, if_false, hc, if_true]
  rfl

end Fpy
