/-
C12 (round 2) — statement cases: one-armed `if`, `while`, `for x in range(round(n))`.
-/
import Fpy.Proof.FPCoreLFor
set_option linter.unusedSimpArgs false
set_option linter.unusedVariables false
set_option linter.unusedSectionVars false
namespace Fpy.C12
open Fpy Fpy.Lang

theorem LitsOK.mono {P : Props} {n m : Nat} (h : LitsOK P n) (hm : m ≤ n) : LitsOK P m := ⟨h.1.mono hm, h.2.mono hm⟩

theorem heapExt_append (μ : Heap) (l : List Val) : HeapExt μ (μ ++ [l]) := by
  intro r l' h
  have hlt : r < μ.length := by
    rcases Nat.lt_or_ge r μ.length with h' | h'
    · exact h'
    · rw [List.getElem?_eq_none h'] at h; cases h
  rw [List.getElem?_append_left hlt]; exact h

theorem rangeVals_length (n : Nat) : (rangeVals n).length = n := by simp [rangeVals]

section
variable (Φ : Funs) (cfg : Cfg) (hord : OrdOK cfg)
include hord

/-- what is known of the variables a loop-like statement carries -/
theorem loop_facts (k : Nat) {G : List String} {body : List LStmt} {P : Props} {C : Ctx}
    (hlP : LitsOK P ((LStmt.asgL body).length + 1)) (hP : P.toCtx = .ok C) :
    (∀ x, x ∈ cfg.ord k (mutatedOf G body) → x ∈ G) ∧
    (∀ y, y ∈ LStmt.asgL body → y ∈ G → y ∈ cfg.ord k (mutatedOf G body)) ∧
    (∃ r0, opEval C .round [cvtReal (.q 0 1)] = .ok r0) ∧
    CtxLits C (cfg.ord k (mutatedOf G body)).length ∧
    LitsP (P.update intProps) (cfg.ord k (mutatedOf G body)).length := by
  have hlen : (cfg.ord k (mutatedOf G body)).length ≤ (LStmt.asgL body).length + 1 :=
    Nat.le_trans ((hord _ _).2) (Nat.le_trans (length_mutatedOf_le G body) (Nat.le_succ _))
  refine ⟨fun x hx => (mem_ord_mut cfg hord hx).2,
    fun y h1 h2 => ((hord _ _).1 y).2 ((mem_mutatedOf G body y).2 ⟨h1, h2⟩),
    lit0 ((hlP.1.ctx hP).mono (by omega)), (hlP.1.ctx hP).mono hlen, hlP.2.mono hlen⟩

theorem stmt_if1 (f : Nat) (hB : LBlockOK Φ cfg f) (c : LExpr) (t : List LStmt) :
    LStmtOKAt Φ cfg (f + 1) (.if1 c t) := by
  intro σ μ C o μ' h G K E ρ P hG hws hb hc hk hP hl hA
  rw [LStmt.toLang] at h
  obtain ⟨hwc, hwt⟩ := hws
  simp only [LStmt.lits] at hl
  obtain ⟨hlP, hlt⟩ := hl
  cases K with
  | none => simp [compileLS] at hc
  | some k =>
    have hkG : FvIn G k := fun y hy ht => by simpa [LStmt.gamma] using hk k rfl y hy ht
    simp only [compileLS] at hc
    split at hc
    · cases hc
    · cases hcB : compileLB cfg G t (some (carryRet (cfg.ord (siteIf1 t) (mutatedOf G t)))) with
      | none => rw [hcB] at hc; cases hc
      | some B =>
        rw [hcB] at hc; simp only [Option.map, Option.some.injEq] at hc; subst hc
        obtain ⟨hMG, hmut, ⟨r0, hr0⟩, hCL, hLi⟩ := loop_facts cfg hord (siteIf1 t) (G := G) (body := t) hlP hP
        have hMT : ∀ x, x ∈ cfg.ord (siteIf1 t) (mutatedOf G t) → isTmpL x = false := fun x hx => hG x (hMG x hx)
        have hBG : FvIn G B := fvIn_B cfg hord t G _ B hwt hcB
          (fun k' hk' => by cases hk'; exact fvIn_carryRet (fun y hy => gammaL_mono t G y (hMG y hy)))
        have hSmem : ∀ y, y ∈ cfg.ord (siteIf1 t) (mutatedOf G t) ++ c.vars ++ fvF B ++ fvF k ↔
            y ∈ cfg.ord (siteIf1 t) (mutatedOf G t) ∨ y ∈ c.vars ∨ y ∈ fvF B ∨ y ∈ fvF k := by
          intro y; simp only [List.mem_append, or_assoc]
        have hSG : ∀ y, y ∈ cfg.ord (siteIf1 t) (mutatedOf G t) ++ c.vars ++ fvF B ++ fvF k → isTmpL y = false → y ∈ G := by
          intro y hy ht
          rcases (hSmem y).1 hy with h1 | h1 | h1 | h1
          · exact hMG y h1
          · exact hwc y h1
          · exact hBG y h1 ht
          · exact hkG y h1 ht
        obtain ⟨hext, σ', rfl, hb', hkeep, hconv⟩ :=
          if1_core Φ cfg hord (S := cfg.ord (siteIf1 t) (mutatedOf G t) ++ c.vars ++ fvF B ++ fvF k) hG hMG
            (fun x hx => (hSmem x).2 (Or.inl hx)) hSG (fun x hx => (hSmem x).2 (Or.inr (Or.inl hx))) hwc
            (fun x hx => (hSmem x).2 (Or.inr (Or.inr (Or.inr hx)))) hP hr0 hCL hLi hB hwt hcB hlt
            (fun x hx => (hSmem x).2 (Or.inr (Or.inr (Or.inl hx)))) hmut h hb
        refine ⟨hext, ?_⟩
        unfold PostL
        refine ⟨by simpa [LStmt.gamma] using hb', by simpa [LStmt.asg] using hkeep, k, rfl, fun v hw => ?_⟩
        refine conv_carryOut ?_ (fun x hx => (hSmem x).2 (Or.inl hx)) hMT (fun x hx => hb x (hMG x hx))
          (fun ρ1 hrel => hconv ρ1 hrel v hw)
        intro y hy ht
        apply hA y ?_ ht
        rcases carry_pieces _ c B k y ht ((hSmem y).1 hy) with h1 | h1 | ⟨hne, h1⟩
        · exact fv_carryOut_rev _ _ y ht (Or.inl h1)
        · exact fv_carryOut_rev _ _ y ht (Or.inr ((fv_bind1 _ _ _ y).2 (Or.inl (by
            simp only [fvF, List.mem_append]; exact Or.inr h1))))
        · refine fv_carryOut_rev _ _ y ht (Or.inr ((fv_bind1 _ _ _ y).2 ?_))
          rcases h1 with h1 | h1 | h1
          · exact Or.inl (by simp only [fvF, List.mem_append]; exact Or.inl (Or.inl h1.2))
          · exact Or.inl (by simp only [fvF, List.mem_append]; exact Or.inl (Or.inr h1.2))
          · exact Or.inr ⟨h1.2, hne⟩

theorem stmt_while (f : Nat) (hB : ∀ g, g ≤ f → LBlockOK Φ cfg g) (c : LExpr) (body : List LStmt) :
    LStmtOKAt Φ cfg (f + 1) (.while_ c body) := by
  intro σ μ C o μ' h G K E ρ P hG hws hb hc hk hP hl hA
  rw [LStmt.toLang] at h
  obtain ⟨hwc, hwt⟩ := hws
  simp only [LStmt.lits] at hl
  obtain ⟨hlP, hlt⟩ := hl
  cases K with
  | none => simp [compileLS] at hc
  | some k =>
    have hkG : FvIn G k := fun y hy ht => by simpa [LStmt.gamma] using hk k rfl y hy ht
    simp only [compileLS] at hc
    split at hc
    · cases hc
    · cases hcB : compileLB cfg G body (some (carryRet (cfg.ord (siteWhile body) (mutatedOf G body)))) with
      | none => rw [hcB] at hc; cases hc
      | some B =>
        rw [hcB] at hc; simp only [Option.map, Option.some.injEq] at hc; subst hc
        obtain ⟨hMG, hmut, ⟨r0, hr0⟩, hCL, hLi⟩ := loop_facts cfg hord (siteWhile body) (G := G) (body := body) hlP hP
        have hMT : ∀ x, x ∈ cfg.ord (siteWhile body) (mutatedOf G body) → isTmpL x = false := fun x hx => hG x (hMG x hx)
        have hBG : FvIn G B := fvIn_B cfg hord body G _ B hwt hcB
          (fun k' hk' => by cases hk'; exact fvIn_carryRet (fun y hy => gammaL_mono body G y (hMG y hy)))
        have hSmem : ∀ y, y ∈ cfg.ord (siteWhile body) (mutatedOf G body) ++ c.vars ++ fvF B ++ fvF k ↔
            y ∈ cfg.ord (siteWhile body) (mutatedOf G body) ∨ y ∈ c.vars ∨ y ∈ fvF B ∨ y ∈ fvF k := by
          intro y; simp only [List.mem_append, or_assoc]
        have hSG : ∀ y, y ∈ cfg.ord (siteWhile body) (mutatedOf G body) ++ c.vars ++ fvF B ++ fvF k → isTmpL y = false → y ∈ G := by
          intro y hy ht
          rcases (hSmem y).1 hy with h1 | h1 | h1 | h1
          · exact hMG y h1
          · exact hwc y h1
          · exact hBG y h1 ht
          · exact hkG y h1 ht
        have hMS : ∀ x, x ∈ cfg.ord (siteWhile body) (mutatedOf G body) → x ∈ cfg.ord (siteWhile body) (mutatedOf G body) ++ c.vars ++ fvF B ++ fvF k :=
          fun x hx => (hSmem x).2 (Or.inl hx)
        obtain ⟨hext, σ', rfl, hb', hkeep, hconv⟩ :=
          while_core Φ cfg hord (S := cfg.ord (siteWhile body) (mutatedOf G body) ++ c.vars ++ fvF B ++ fvF k) hG hMG
            hMS hSG (fun x hx => (hSmem x).2 (Or.inr (Or.inl hx))) hwc
            (fun x hx => (hSmem x).2 (Or.inr (Or.inr (Or.inr hx)))) hP hr0 hCL hLi f hB hwt hcB hlt
            (fun x hx => (hSmem x).2 (Or.inr (Or.inr (Or.inl hx)))) hmut (f + 1) (Nat.le_refl _) σ μ o μ' h hb
        refine ⟨hext, ?_⟩
        unfold PostL
        refine ⟨by simpa [LStmt.gamma] using hb', by simpa [LStmt.asg] using hkeep, k, rfl, fun v hw => ?_⟩
        have hbM : Bound (cfg.ord (siteWhile body) (mutatedOf G body)) σ := fun x hx => hb x (hMG x hx)
        refine conv_carryOut ?_ hMS hMT hbM (fun ρ1 hrel => ?_)
        · intro y hy ht
          apply hA y ?_ ht
          rcases carry_pieces _ c B k y ht ((hSmem y).1 hy) with h1 | h1 | ⟨hne, h1⟩
          · exact fv_carryOut_rev _ _ y ht (Or.inl h1)
          · exact fv_carryOut_rev _ _ y ht (Or.inr ((fv_whileE _ _ _ _ _ y).2 (Or.inl h1)))
          · refine fv_carryOut_rev _ _ y ht (Or.inr ((fv_whileE _ _ _ _ _ y).2 (Or.inr ⟨?_, hne⟩)))
            rcases h1 with h1 | h1 | h1
            · exact Or.inl h1.2
            · exact Or.inr (Or.inl h1.2)
            · exact Or.inr (Or.inr h1.2)
        · exact conv_while (conv_carryInit hP hrel hr0 hMS hMT hbM)
            (hconv _ (carryRel_set hP hrel hMT hbM) v hw)

theorem stmt_for (f : Nat) (hB : ∀ g, g ≤ f → LBlockOK Φ cfg g) (x : String) (n : Nat) (body : List LStmt) :
    LStmtOKAt Φ cfg (f + 1) (.forRange x n body) := by
  intro σ μ C o μ' h G K E ρ P hG hws hb hc hk hP hl hA
  rw [LStmt.toLang, evalS_for] at h
  obtain ⟨hxt, hxG, hxa, hwt⟩ := hws
  simp only [LStmt.lits] at hl
  obtain ⟨hlP0, hlt⟩ := hl
  have hlP : LitsOK P ((LStmt.asgL body).length + 1) := hlP0.mono (by omega)
  -- the list iterated over
  obtain ⟨rn, hrn, hidx⟩ := (hlP0.1.ctx hP) n (by omega)
  cases h1 : evalE Φ f σ μ C (.range [.op .round [.num (.q (n : Int) 1)]]) with
  | error err => rw [h1] at h; cases h
  | ok r1 =>
    obtain ⟨iv, μ1⟩ := r1
    rw [h1] at h
    simp only [bind, Except.bind] at h
    obtain ⟨rfl, rfl⟩ := evalE_range_inv Φ f σ μ C n rn iv μ1 hrn hidx h1
    simp only at h
    cases K with
    | none => simp [compileLS] at hc
    | some k =>
      have hkG : FvIn G k := fun y hy ht => by simpa [LStmt.gamma] using hk k rfl y hy ht
      simp only [compileLS] at hc
      rw [mutatedOf_cons x G body hxa] at hc
      cases hcB : compileLB cfg (x :: G) body (some (carryRet (cfg.ord (siteFor body) (mutatedOf G body)))) with
      | none => rw [hcB] at hc; cases hc
      | some B =>
        rw [hcB] at hc; simp only [Option.map, Option.some.injEq] at hc; subst hc
        obtain ⟨hMG, hmut, ⟨r0, hr0⟩, hCL, hLi⟩ := loop_facts cfg hord (siteFor body) (G := G) (body := body) hlP hP
        have hMT : ∀ y, y ∈ cfg.ord (siteFor body) (mutatedOf G body) → isTmpL y = false := fun y hy => hG y (hMG y hy)
        have hBG : FvIn (x :: G) B := fvIn_B cfg hord body (x :: G) _ B hwt hcB
          (fun k' hk' => by
            cases hk'
            exact fvIn_carryRet (fun y hy => gammaL_mono body (x :: G) y (List.mem_cons_of_mem _ (hMG y hy))))
        have hSmem : ∀ y, y ∈ cfg.ord (siteFor body) (mutatedOf G body) ++ rmNames [x] (fvF B) ++ fvF k ↔
            y ∈ cfg.ord (siteFor body) (mutatedOf G body) ∨ (y ∈ fvF B ∧ y ≠ x) ∨ y ∈ fvF k := by
          intro y; simp only [List.mem_append, or_assoc, mem_rmNames, List.mem_singleton]
        have hSG : ∀ y, y ∈ cfg.ord (siteFor body) (mutatedOf G body) ++ rmNames [x] (fvF B) ++ fvF k → isTmpL y = false → y ∈ G := by
          intro y hy ht
          rcases (hSmem y).1 hy with h1 | h1 | h1
          · exact hMG y h1
          · rcases List.mem_cons.1 (hBG y h1.1 ht) with e | e
            · exact absurd e h1.2
            · exact e
          · exact hkG y h1 ht
        have hMS : ∀ y, y ∈ cfg.ord (siteFor body) (mutatedOf G body) → y ∈ cfg.ord (siteFor body) (mutatedOf G body) ++ rmNames [x] (fvF B) ++ fvF k :=
          fun y hy => (hSmem y).2 (Or.inl hy)
        have hμ : (μ ++ [rangeVals n])[μ.length]? = some (rangeVals n) := by simp
        obtain ⟨hext, σ', rfl, hb', hkeep, hconv⟩ :=
          for_core Φ cfg hord (S := cfg.ord (siteFor body) (mutatedOf G body) ++ rmNames [x] (fvF B) ++ fvF k)
            (c := LExpr.lit (.q 0 1)) hG hMG hMS hSG (fun y hy => by simp [LExpr.vars] at hy)
            (fun y hy => by simp [LExpr.vars] at hy)
            (fun y hy => (hSmem y).2 (Or.inr (Or.inr hy))) hP hr0 hCL hLi f hB hxt hxG hxa hwt hcB hlt
            (fun y hy => by
              by_cases hyx : y = x
              · exact List.mem_cons.2 (Or.inl hyx)
              · exact List.mem_cons_of_mem _ ((hSmem y).2 (Or.inr (Or.inl ⟨hy, hyx⟩))))
            hmut f (Nat.le_refl _) 0 σ _ o μ' h hμ hb
        refine ⟨(heapExt_append μ _).trans hext, ?_⟩
        unfold PostL
        refine ⟨by simpa [LStmt.gamma] using hb', by simpa [LStmt.asg] using hkeep, k, rfl, fun v hw => ?_⟩
        have hbM : Bound (cfg.ord (siteFor body) (mutatedOf G body)) σ := fun y hy => hb y (hMG y hy)
        refine conv_carryOut ?_ hMS hMT hbM (fun ρ1 hrel => ?_)
        · intro y hy ht
          apply hA y ?_ ht
          have hyx : y ≠ x := fun e => hxG (e ▸ hSG y hy ht)
          have hy' : y ∈ cfg.ord (siteFor body) (mutatedOf G body) ∨ y ∈ (LExpr.lit (.q 0 1)).vars ∨ y ∈ fvF B ∨ y ∈ fvF k := by
            rcases (hSmem y).1 hy with h1 | h1 | h1
            · exact Or.inl h1
            · exact Or.inr (Or.inr (Or.inl h1.1))
            · exact Or.inr (Or.inr (Or.inr h1))
          rcases carry_pieces _ (LExpr.lit (.q 0 1)) B k y ht hy' with h1 | h1 | ⟨hne, h1⟩
          · exact fv_carryOut_rev _ _ y ht (Or.inl h1)
          · exact fv_carryOut_rev _ _ y ht (Or.inr ((fv_forE _ _ _ _ _ _ y ht).2 (Or.inl h1)))
          · refine fv_carryOut_rev _ _ y ht (Or.inr ((fv_forE _ _ _ _ _ _ y ht).2 (Or.inr ⟨?_, hne⟩)))
            rcases h1 with h1 | h1 | h1
            · simp [LExpr.vars] at h1
            · exact Or.inl ⟨h1.2, hyx⟩
            · exact Or.inr h1.2
        · -- the iterable, its size, the loop
          have hL1 : CtxLits C 1 := (hlP0.1.ctx hP).mono (by omega)
          have hLn : CtxLits C (n + 1) := (hlP0.1.ctx hP).mono (by omega)
          have hrel2 : CarryRel (cfg.ord (siteFor body) (mutatedOf G body))
              (cfg.ord (siteFor body) (mutatedOf G body) ++ rmNames [x] (fvF B) ++ fvF k) (ρ1.set "%it" (.tuple (rangeVals n))) σ := by
            refine ⟨fun hm => ?_, fun y hy ht hm => ?_⟩
            · rw [get?_set_ne _ _ _ _ (by decide)]; exact hrel.1 hm
            · rw [get?_set_ne _ _ _ _ (isTmpL_ne ht).2.1]; exact hrel.2 y hy ht hm
          unfold forE
          refine conv_let1 (conv_range hP n hLn) ?_
          have hsz := conv_size0 (ρ := ρ1.set "%it" (.tuple (rangeVals n))) hP hL1
            (a := .var "%it") (vs := rangeVals n) (conv_var (get?_set_self _ _ _))
          rw [rangeVals_length] at hsz
          refine conv_for hsz (asIndex_q n) (conv_carryInit hP hrel2 hr0 hMS hMT hbM) ?_
          have := hconv _ (carryRel_set hP hrel2 hMT hbM (r0 := r0)) (by
            rw [get?_set_ne _ _ _ _ (fun e => (carrier_nt _ hMT).1 e.symm)]
            exact get?_set_self _ _ _) v hw
          simp only [List.drop_zero] at this
          exact this

end
end Fpy.C12
