/-
Helper lemmas for C16 (encodings, ordinals).
-/
import Fpy.Proof.Round
import Fpy.Model.Enc
import Fpy.Spec.Layout
namespace Fpy
open Fpy.Enc Fpy.Spec

/-! ### powers of two and `bitLength` -/

theorem two_pow_pos' (k : Nat) : 0 < 2 ^ k := Nat.pow_pos (by decide)

theorem bitLength_mono {a b : Nat} (h : a ≤ b) : bitLength a ≤ bitLength b := by
  apply (bitLength_le_iff a (bitLength b)).2
  have := (bitLength_le_iff b (bitLength b)).1 (Nat.le_refl _)
  omega

theorem lt_two_pow_bitLength (c : Nat) : c < 2 ^ bitLength c :=
  (bitLength_le_iff c _).1 (Nat.le_refl _)

theorem two_pow_le_of_bitLength {c : Nat} (h : c ≠ 0) : 2 ^ (bitLength c - 1) ≤ c :=
  ((bitLength_eq_iff c (bitLength c) (bitLength_pos h)).1 rfl).1

theorem bitLength_mul_pow {c : Nat} (h : c ≠ 0) (k : Nat) : bitLength (c * 2 ^ k) = bitLength c + k := by
  have hp := bitLength_pos h
  apply (bitLength_eq_iff _ _ (by omega)).2
  have h1 := two_pow_le_of_bitLength h
  have h2 := lt_two_pow_bitLength c
  have e1 : bitLength c + k - 1 = (bitLength c - 1) + k := by omega
  rw [e1, Nat.pow_add, Nat.pow_add]
  constructor
  · exact Nat.mul_le_mul_right _ h1
  · exact (Nat.mul_lt_mul_right (two_pow_pos' k)).2 h2

theorem bitLength_lt_of_lt {a b : Nat} (h : bitLength a < bitLength b) : a < b := by
  have h1 : a < 2 ^ (bitLength b - 1) := (bitLength_le_iff a _).1 (by omega)
  have hb : b ≠ 0 := by
    intro hb; subst hb; simp [bitLength] at h
  have := two_pow_le_of_bitLength hb
  omega

/-! ### `RealFloat.compare` is comparison of the real numbers -/

theorem mag_ne_zero {x : RF} (h : x.c ≠ 0) (m : Int) : mag x m ≠ 0 := by
  unfold mag
  have := two_pow_pos' (x.exp - m).toNat
  exact Nat.mul_ne_zero h (by omega)

theorem e_eq_mag (x : RF) (m : Int) (h : x.c ≠ 0) (hm : m ≤ x.exp) :
    x.e = m + (bitLength (mag x m) : Int) - 1 := by
  unfold RF.e RF.p mag
  rw [bitLength_mul_pow h]
  omega

/-- on non-zero values of the same sign, the code's comparison (exponent first, then aligned
significands) is the comparison of the magnitudes on a common scale -/
theorem compare_mag (x y : RF) (hx : x.c ≠ 0) (hy : y.c ≠ 0) (hs : x.s = y.s) :
    x.compare y =
      (if x.s then (compare (mag x (min x.exp y.exp)) (mag y (min x.exp y.exp))).swap
       else compare (mag x (min x.exp y.exp)) (mag y (min x.exp y.exp))) := by
  have hne : (x.s != y.s) = false := by simp [hs]
  have ex := e_eq_mag x (min x.exp y.exp) hx (by omega)
  have ey := e_eq_mag y (min x.exp y.exp) hy (by omega)
  unfold RF.compare
  simp only [hx, hy, if_false, hne, Bool.false_eq_true]
  have hshl1 : RF.shl x.c (x.exp - min x.exp y.exp) = mag x (min x.exp y.exp) := rfl
  have hshl2 : RF.shl y.c (y.exp - min x.exp y.exp) = mag y (min x.exp y.exp) := rfl
  rw [hshl1, hshl2]
  generalize mag x (min x.exp y.exp) = a at *
  generalize mag y (min x.exp y.exp) = b at *
  by_cases h1 : x.e > y.e
  · have : b < a := bitLength_lt_of_lt (by omega)
    have hc : compare a b = .gt := Nat.compare_eq_gt.2 this
    simp [h1, hc]
  · by_cases h2 : x.e < y.e
    · have : a < b := bitLength_lt_of_lt (by omega)
      have hc : compare a b = .lt := Nat.compare_eq_lt.2 this
      simp [h1, h2, hc]
    · simp [h1, h2]

theorem le_pos_iff (x y : RF) (hx : x.c ≠ 0) (hy : y.c ≠ 0) (hxs : x.s = false) (hys : y.s = false) :
    x.le y = true ↔ mag x (min x.exp y.exp) ≤ mag y (min x.exp y.exp) := by
  unfold RF.le
  rw [compare_mag x y hx hy (by rw [hxs, hys])]
  simp only [hxs, Bool.false_eq_true, if_false]
  generalize mag x (min x.exp y.exp) = a
  generalize mag y (min x.exp y.exp) = b
  rcases Nat.lt_trichotomy a b with h | h | h
  · simp [Nat.compare_eq_lt.2 h]; omega
  · simp [Nat.compare_eq_eq.2 h]; omega
  · simp [Nat.compare_eq_gt.2 h]; omega

theorem le_neg_iff (x y : RF) (hx : x.c ≠ 0) (hy : y.c ≠ 0) (hxs : x.s = true) (hys : y.s = true) :
    x.le y = true ↔ mag y (min x.exp y.exp) ≤ mag x (min x.exp y.exp) := by
  unfold RF.le
  rw [compare_mag x y hx hy (by rw [hxs, hys])]
  simp only [hxs, if_true]
  generalize mag x (min x.exp y.exp) = a
  generalize mag y (min x.exp y.exp) = b
  rcases Nat.lt_trichotomy a b with h | h | h
  · simp [Nat.compare_eq_lt.2 h]; omega
  · simp [Nat.compare_eq_eq.2 h]; omega
  · simp [Nat.compare_eq_gt.2 h]; omega

theorem int_compare_cases (a b : Int) :
    (a < b ∧ compare a b = .lt) ∨ (a = b ∧ compare a b = .eq) ∨ (b < a ∧ compare a b = .gt) := by
  rcases Int.lt_trichotomy a b with h | h | h
  · exact .inl ⟨h, Int.compare_eq_lt.2 h⟩
  · exact .inr (.inl ⟨h, Int.compare_eq_eq.2 h⟩)
  · exact .inr (.inr ⟨h, Int.compare_eq_gt.2 h⟩)

theorem nat_compare_cases (a b : Nat) :
    (a < b ∧ compare a b = .lt) ∨ (a = b ∧ compare a b = .eq) ∨ (b < a ∧ compare a b = .gt) := by
  rcases Nat.lt_trichotomy a b with h | h | h
  · exact .inl ⟨h, Nat.compare_eq_lt.2 h⟩
  · exact .inr (.inl ⟨h, Nat.compare_eq_eq.2 h⟩)
  · exact .inr (.inr ⟨h, Nat.compare_eq_gt.2 h⟩)

/-- **`RealFloat.compare` is the order of the real numbers** (all sign / zero cases) -/
theorem compare_units (x y : RF) :
    x.compare y = compare (units x (min x.exp y.exp)) (units y (min x.exp y.exp)) := by
  generalize hm : min x.exp y.exp = m
  by_cases hx : x.c = 0
  · have ux : units x m = 0 := by unfold units mag; simp [hx]
    by_cases hy : y.c = 0
    · have uy : units y m = 0 := by unfold units mag; simp [hy]
      unfold RF.compare; simp [hx, hy, ux, uy]
    · have hmy := mag_ne_zero hy m
      unfold RF.compare; simp only [hx, hy, if_true, if_false, ux]
      unfold units
      cases hs : y.s
      · simp only [Bool.false_eq_true, if_false]
        rcases int_compare_cases 0 (mag y m : Int) with ⟨_, h⟩ | ⟨h, _⟩ | ⟨h, _⟩ <;> first | exact h.symm | omega
      · simp only [if_true]
        rcases int_compare_cases 0 (-(mag y m : Int)) with ⟨h, _⟩ | ⟨h, _⟩ | ⟨_, h⟩ <;> first | exact h.symm | omega
  · have hmx := mag_ne_zero hx m
    by_cases hy : y.c = 0
    · have uy : units y m = 0 := by unfold units mag; simp [hy]
      unfold RF.compare; simp only [hx, hy, if_true, if_false, uy]
      unfold units
      cases hs : x.s
      · simp only [Bool.false_eq_true, if_false]
        rcases int_compare_cases (mag x m : Int) 0 with ⟨h, _⟩ | ⟨h, _⟩ | ⟨_, h⟩ <;> first | exact h.symm | omega
      · simp only [if_true]
        rcases int_compare_cases (-(mag x m : Int)) 0 with ⟨_, h⟩ | ⟨h, _⟩ | ⟨h, _⟩ <;> first | exact h.symm | omega
    · have hmy := mag_ne_zero hy m
      by_cases hs : x.s = y.s
      · rw [compare_mag x y hx hy hs, hm]
        unfold units
        rw [← hs]
        generalize mag x m = a at *
        generalize mag y m = b at *
        cases x.s
        · simp only [Bool.false_eq_true, if_false]
          rcases nat_compare_cases a b with ⟨h, e⟩ | ⟨h, e⟩ | ⟨h, e⟩ <;> rw [e] <;>
            rcases int_compare_cases (a : Int) (b : Int) with ⟨h', e'⟩ | ⟨h', e'⟩ | ⟨h', e'⟩ <;> rw [e'] <;> omega
        · simp only [if_true]
          rcases nat_compare_cases a b with ⟨h, e⟩ | ⟨h, e⟩ | ⟨h, e⟩ <;> rw [e] <;>
            rcases int_compare_cases (-(a : Int)) (-(b : Int)) with ⟨h', e'⟩ | ⟨h', e'⟩ | ⟨h', e'⟩ <;> rw [e'] <;>
            first | rfl | omega
      · unfold RF.compare
        have hne : (x.s != y.s) = true := by simp [hs]
        simp only [hx, hy, if_false, hne, if_true]
        unfold units
        cases hxs : x.s <;> cases hys : y.s <;> simp [hxs, hys] at hs ⊢
        · rcases int_compare_cases (mag x m : Int) (-(mag y m : Int)) with ⟨h, _⟩ | ⟨h, _⟩ | ⟨_, h⟩ <;> first | exact h.symm | omega
        · rcases int_compare_cases (-(mag x m : Int)) (mag y m : Int) with ⟨_, h⟩ | ⟨h, _⟩ | ⟨h, _⟩ <;> first | exact h.symm | omega

theorem le_iff_units (x y : RF) : x.le y = true ↔ units x (min x.exp y.exp) ≤ units y (min x.exp y.exp) := by
  unfold RF.le; rw [compare_units]
  rcases int_compare_cases (units x (min x.exp y.exp)) (units y (min x.exp y.exp)) with ⟨h, e⟩ | ⟨h, e⟩ | ⟨h, e⟩ <;>
    rw [e] <;> simp <;> omega

theorem lt_iff_units (x y : RF) : x.lt y = true ↔ units x (min x.exp y.exp) < units y (min x.exp y.exp) := by
  unfold RF.lt; rw [compare_units]
  rcases int_compare_cases (units x (min x.exp y.exp)) (units y (min x.exp y.exp)) with ⟨h, e⟩ | ⟨h, e⟩ | ⟨h, e⟩ <;>
    rw [e] <;> simp <;> omega

theorem isMoreSignificant_iff (x : RF) (n : Int) (hc : x.c ≠ 0) :
    x.isMoreSignificant n = true ↔ (x.exp > n ∨ x.c % 2 ^ (n + 1 - x.exp).toNat = 0) := by
  unfold RF.isMoreSignificant
  simp only [hc, if_false]
  by_cases h1 : x.exp > n
  · simp [h1]
  · simp only [h1, if_false, false_or]
    by_cases h2 : x.e ≤ n
    · have hlt : x.c < 2 ^ (n + 1 - x.exp).toNat := by
        apply (bitLength_le_iff _ _).1
        unfold RF.e RF.p at h2; omega
      simp only [h2, if_true, Nat.mod_eq_of_lt hlt]
      simp [hc]
    · have e : (n - x.exp).toNat + 1 = (n + 1 - x.exp).toNat := by omega
      simp only [h2, if_false, e]
      simp

theorem testBit_top (b n : Nat) (hn : 1 ≤ n) (hb : b < 2 ^ n) :
    b.testBit (n - 1) = decide (b ≥ 2 ^ (n - 1)) := by
  rw [Nat.testBit_eq_decide_div_mod_eq]
  have hp := two_pow_pred n hn
  have hH := two_pow_pos' (n - 1)
  generalize 2 ^ (n - 1) = H at *
  by_cases h : b ≥ H
  · have : b / H = 1 := Nat.div_eq_of_lt_le (by omega) (by omega)
    simp [this, h]
  · have : b / H = 0 := Nat.div_eq_of_lt (by omega)
    simp [this, h]

theorem fx_decode_layout (f : FX) (hv : f.valid = true) (b : Nat) (hb : b < 2 ^ f.nbits) :
    f.decode b = .ok (twosLayout f.signed f.scale f.nbits b) := by
  have hn : 1 ≤ f.nbits := by
    unfold FX.valid at hv; split at hv <;> simp at hv <;> omega
  unfold FX.decode twosLayout
  have h0 : ¬ (b ≥ 2 ^ f.nbits) := by omega
  simp only [h0, if_false, testBit_top b f.nbits hn hb]
  have hp := two_pow_pred f.nbits hn
  generalize 2 ^ f.nbits = N at *
  generalize 2 ^ (f.nbits - 1) = H at *
  cases hs : f.signed
  · simp
  · by_cases h : b ≥ H
    · simp only [h, decide_true, Bool.not_true, Bool.false_eq_true, if_false, Bool.and_self, if_true]
      have e1 : decide ((b : Int) - (N : Int) < 0) = true := by simp; omega
      have e2 : ((b : Int) - (N : Int)).natAbs = N - b := by omega
      rw [e1, e2]
    · simp [h]

theorem mpbfix_repr_nonzero (F : MPBFixFmt) (x : RF) (hc : x.c ≠ 0) :
    F.repr (.fin x) = (x.isMoreSignificant F.nmin && (if x.s then F.negMax.le x else x.le F.posMax)) := by
  unfold MPBFixFmt.repr MPFixFmt.repr MPBFixFmt.mp FV.isZero FV.sign
  have : (x.c == 0) = false := by simp [hc]
  simp only [this, Bool.false_and, Bool.false_eq_true, if_false, hc]
  cases x.isMoreSignificant F.nmin <;> simp

theorem mpbfix_repr_zero (F : MPBFixFmt) (x : RF) (hc : x.c = 0) :
    F.repr (.fin x) = !(x.s && !F.negZero) := by
  unfold MPBFixFmt.repr MPFixFmt.repr MPBFixFmt.mp FV.isZero FV.sign
  have h1 : (x.c == 0) = true := by simp [hc]
  have h2 : x.isMoreSignificant F.nmin = true := by unfold RF.isMoreSignificant; simp [hc]
  simp only [hc, h2]
  cases x.s <;> cases F.negZero <;> simp

theorem units_same_exp (s : Bool) (e : Int) (c : Nat) : units ⟨s, e, c⟩ e = if s then -(c : Int) else c := by
  unfold units mag; simp

theorem fx_valid_nbits (f : FX) (hv : f.valid = true) : 1 ≤ f.nbits ∧ (f.signed = true → 2 ≤ f.nbits) := by
  unfold FX.valid at hv; split at hv <;> simp at hv <;> simp_all <;> omega

/-- representability of a value already on the format's scale: the integer `±c` is in range -/
theorem fx_repr_on_scale (f : FX) (hv : f.valid = true) (s : Bool) (c : Nat) (hc : c ≠ 0) :
    f.mpb.repr (.fin ⟨s, f.scale, c⟩) =
      (if s then f.signed && decide (c ≤ 2 ^ (f.nbits - 1))
       else decide (c ≤ (if f.signed then 2 ^ (f.nbits - 1) - 1 else 2 ^ f.nbits - 1))) := by
  have ⟨hn, hn2⟩ := fx_valid_nbits f hv
  rw [mpbfix_repr_nonzero _ _ hc]
  have hms : RF.isMoreSignificant ⟨s, f.scale, c⟩ f.mpb.nmin = true := by
    rw [isMoreSignificant_iff _ _ hc]; left; simp [FX.mpb]; omega
  rw [hms, Bool.true_and]
  have hp := two_pow_pred f.nbits hn
  have hH2 : f.signed = true → 2 ^ (f.nbits - 1) ≥ 2 := fun h => by
    have := two_pow_pred (f.nbits - 1) (by have := hn2 h; omega); have := two_pow_pos' (f.nbits - 1 - 1); omega
  have hH := two_pow_pos' (f.nbits - 1)
  have hpm : f.mpb.posMax = ⟨false, f.scale, if f.signed then 2 ^ (f.nbits - 1) - 1 else 2 ^ f.nbits - 1⟩ := by
    simp only [FX.mpb, fixedBounds, bitmask]; cases f.signed <;> rfl
  have hnm : f.mpb.negMax = if f.signed then ⟨true, f.scale, 2 ^ (f.nbits - 1)⟩ else ⟨false, 0, 0⟩ := by
    simp only [FX.mpb, fixedBounds]; cases f.signed <;> rfl
  rw [hpm, hnm]
  generalize 2 ^ f.nbits = N at *
  generalize 2 ^ (f.nbits - 1) = H at *
  cases hsg : f.signed <;> cases s <;>
    simp only [if_true, if_false, Bool.false_eq_true, Bool.true_and, Bool.false_and]
  · -- unsigned, positive
    rw [Bool.eq_iff_iff, le_iff_units]; simp only [Int.min_self, units_same_exp]; simp
  · -- unsigned, negative: never
    rw [Bool.eq_iff_iff, le_iff_units]
    have hP := two_pow_pos' (f.scale - min 0 f.scale).toNat
    simp only [units, mag]
    generalize 2 ^ (f.scale - min 0 f.scale).toNat = P at *
    have : 0 < c * P := Nat.mul_pos (by omega) hP
    generalize c * P = Q at *
    simp; omega
  · have := hH2 hsg
    rw [Bool.eq_iff_iff, le_iff_units]; simp only [Int.min_self, units_same_exp]; simp
  · rw [Bool.eq_iff_iff, le_iff_units]; simp only [Int.min_self, units_same_exp]; simp

theorem fx_encode_on_scale (f : FX) (hv : f.valid = true) (s : Bool) (c : Nat)
    (hr : f.mpb.repr (.fin ⟨s, f.scale, c⟩) = true) :
    f.encode (.fin ⟨s, f.scale, c⟩) = .ok (if c = 0 then 0 else if f.signed && s then 2 ^ f.nbits - c else c) := by
  have ⟨hn, hn2⟩ := fx_valid_nbits f hv
  have hp := two_pow_pred f.nbits hn
  have hH := two_pow_pos' (f.nbits - 1)
  unfold FX.encode
  simp only [hr, Bool.not_true, Bool.false_eq_true, if_false, Int.sub_self, ge_iff_le, Int.le_refl, if_true,
    Int.toNat_zero, Nat.pow_zero, Nat.mul_one, bitmask]
  by_cases hc : c = 0
  · simp [hc]
  · rw [fx_repr_on_scale f hv s c hc] at hr
    simp only [hc, if_false]
    generalize 2 ^ f.nbits = N at *
    generalize 2 ^ (f.nbits - 1) = H at *
    cases hsg : f.signed <;> cases s <;> simp [hsg] at hr ⊢ <;> omega

theorem fx_encode_decode (f : FX) (hv : f.valid = true) (b : Nat) (hb : b < 2 ^ f.nbits) :
    ∃ v, f.decode b = .ok v ∧ f.encode v = .ok b := by
  have ⟨hn, hn2⟩ := fx_valid_nbits f hv
  have hp := two_pow_pred f.nbits hn
  have hH := two_pow_pos' (f.nbits - 1)
  have h0 : ¬ (b ≥ 2 ^ f.nbits) := by omega
  unfold FX.decode
  simp only [h0, if_false, testBit_top b f.nbits hn hb]
  by_cases hneg : f.signed = true ∧ b ≥ 2 ^ (f.nbits - 1)
  · obtain ⟨hsg, hge⟩ := hneg
    simp only [hsg, hge, if_true, decide_true, Bool.not_true, Bool.false_eq_true, if_false]
    refine ⟨_, rfl, ?_⟩
    have hc : 2 ^ f.nbits - b ≠ 0 := by omega
    have hr : f.mpb.repr (.fin ⟨true, f.scale, 2 ^ f.nbits - b⟩) = true := by
      rw [fx_repr_on_scale f hv _ _ hc]; simp [hsg]; omega
    rw [fx_encode_on_scale f hv _ _ hr]
    simp [hc, hsg]; omega
  · have hdec : (if f.signed = true then
          if (!decide (b ≥ 2 ^ (f.nbits - 1))) = true then (Except.ok (FV.fin ⟨false, f.scale, b⟩) : Except Err FV)
          else Except.ok (FV.fin ⟨true, f.scale, 2 ^ f.nbits - b⟩)
        else Except.ok (FV.fin ⟨false, f.scale, b⟩)) = Except.ok (FV.fin ⟨false, f.scale, b⟩) := by
      by_cases hsg : f.signed = true
      · have : ¬ b ≥ 2 ^ (f.nbits - 1) := fun h => hneg ⟨hsg, h⟩
        simp [hsg, this]
      · simp [hsg]
    rw [hdec]
    refine ⟨_, rfl, ?_⟩
    have hr : f.mpb.repr (.fin ⟨false, f.scale, b⟩) = true := by
      by_cases hc : b = 0
      · rw [mpbfix_repr_zero _ _ hc]; rfl
      · rw [fx_repr_on_scale f hv _ _ hc]
        by_cases hsg : f.signed = true
        · have : ¬ b ≥ 2 ^ (f.nbits - 1) := fun h => hneg ⟨hsg, h⟩
          simp [hsg]; omega
        · simp [hsg]; omega
    rw [fx_encode_on_scale f hv _ _ hr]
    by_cases hc : b = 0 <;> simp [hc]

theorem mag_rescale (x : RF) (m m' : Int) (h1 : m ≤ m') (h2 : m' ≤ x.exp) :
    mag x m = mag x m' * 2 ^ (m' - m).toNat := by
  unfold mag
  have : (x.exp - m).toNat = (x.exp - m').toNat + (m' - m).toNat := by omega
  rw [this, Nat.pow_add, Nat.mul_assoc]

theorem units_rescale (x : RF) (m m' : Int) (h1 : m ≤ m') (h2 : m' ≤ x.exp) :
    units x m = units x m' * ((2 ^ (m' - m).toNat : Nat) : Int) := by
  unfold units
  rw [mag_rescale x m m' h1 h2]
  cases x.s <;> simp [Int.natCast_mul, Int.neg_mul]

/-- comparisons of values do not depend on the common scale chosen -/
theorem units_le_common (x y : RF) (m : Int) (hx : m ≤ x.exp) (hy : m ≤ y.exp) :
    units x m ≤ units y m ↔ units x (min x.exp y.exp) ≤ units y (min x.exp y.exp) := by
  rw [units_rescale x m (min x.exp y.exp) (by omega) (by omega), units_rescale y m (min x.exp y.exp) (by omega) (by omega)]
  exact Int.mul_le_mul_right (Int.natCast_pos.2 (two_pow_pos' _))

theorem units_lt_common (x y : RF) (m : Int) (hx : m ≤ x.exp) (hy : m ≤ y.exp) :
    units x m < units y m ↔ units x (min x.exp y.exp) < units y (min x.exp y.exp) := by
  rw [units_rescale x m (min x.exp y.exp) (by omega) (by omega), units_rescale y m (min x.exp y.exp) (by omega) (by omega)]
  exact Int.mul_lt_mul_right (Int.natCast_pos.2 (two_pow_pos' _))

theorem units_eq_common (x y : RF) (m : Int) (hx : m ≤ x.exp) (hy : m ≤ y.exp) :
    units x m = units y m ↔ units x (min x.exp y.exp) = units y (min x.exp y.exp) := by
  rw [units_rescale x m (min x.exp y.exp) (by omega) (by omega), units_rescale y m (min x.exp y.exp) (by omega) (by omega)]
  have : ((2 ^ (min x.exp y.exp - m).toNat : Nat) : Int) ≠ 0 := by
    have := two_pow_pos' (min x.exp y.exp - m).toNat; omega
  exact Int.mul_eq_mul_right_iff this

theorem le_iff_units_common (x y : RF) (m : Int) (hx : m ≤ x.exp) (hy : m ≤ y.exp) :
    x.le y = true ↔ units x m ≤ units y m := by
  rw [le_iff_units, units_le_common x y m hx hy]

theorem sameValue_iff_common (x y : RF) (m : Int) (hx : m ≤ x.exp) (hy : m ≤ y.exp) :
    sameValue x y ↔ units x m = units y m := by
  unfold sameValue; rw [units_eq_common x y m hx hy]

theorem ltValue_iff_common (x y : RF) (m : Int) (hx : m ≤ x.exp) (hy : m ≤ y.exp) :
    ltValue x y ↔ units x m < units y m := by
  unfold ltValue; rw [units_lt_common x y m hx hy]

/-- `shiftBy c (exp - target)` keeps the value when nothing is shifted out -/
theorem units_shiftBy (s : Bool) (exp target : Int) (c : Nat) (m : Int) (hm1 : m ≤ exp) (hm2 : m ≤ target)
    (hdiv : exp < target → c % 2 ^ (target - exp).toNat = 0) :
    units ⟨s, target, shiftBy c (exp - target)⟩ m = units ⟨s, exp, c⟩ m := by
  unfold units mag shiftBy
  simp only
  by_cases h1 : exp - target > 0
  · simp only [h1, if_true]
    have : (exp - m).toNat = (exp - target).toNat + (target - m).toNat := by omega
    rw [this, Nat.pow_add, Nat.mul_assoc]
  · by_cases h2 : exp - target < 0
    · simp only [h1, h2, if_false, if_true]
      have hd := hdiv (by omega)
      have e1 : (-(exp - target)).toNat = (target - exp).toNat := by omega
      have e2 : (target - m).toNat = (target - exp).toNat + (exp - m).toNat := by omega
      rw [e1, e2, Nat.pow_add, ← Nat.mul_assoc, Nat.div_mul_cancel (Nat.dvd_of_mod_eq_zero hd)]
    · have : exp = target := by omega
      subst this; simp [h1]

theorem shiftBy_ge (c : Nat) (off : Int) :
    (if off ≥ 0 then c * 2 ^ off.toNat else c / 2 ^ (-off).toNat) = shiftBy c off := by
  unfold shiftBy
  by_cases h1 : off > 0
  · have : off ≥ 0 := by omega
    simp [h1, this]
  · by_cases h2 : off < 0
    · have : ¬ off ≥ 0 := by omega
      simp [h1, h2, this]
    · have : off = 0 := by omega
      subst this; simp

theorem shiftBy_zero (c : Nat) : shiftBy c 0 = c := by unfold shiftBy; simp

theorem units_ne_zero {x : RF} (h : x.c ≠ 0) (m : Int) : units x m ≠ 0 := by
  have := mag_ne_zero h m
  unfold units; cases x.s <;> simp <;> omega

theorem units_zero {x : RF} (h : x.c = 0) (m : Int) : units x m = 0 := by
  unfold units mag; simp [h]

/-- a representable non-zero value of a bounded fixed-point format, moved to the format's own scale
`sc = nmin + 1`: the shift loses nothing, the result is non-zero, has the same value, and is
representable as well -/
theorem mpbfix_rescale (F : MPBFixFmt) (sc : Int) (hsc : F.nmin = sc - 1) (x : RF) (hc : x.c ≠ 0)
    (hr : F.repr (.fin x) = true) :
    shiftBy x.c (x.exp - sc) ≠ 0 ∧
    F.repr (.fin ⟨x.s, sc, shiftBy x.c (x.exp - sc)⟩) = true ∧
    (∀ m, m ≤ x.exp → m ≤ sc → units ⟨x.s, sc, shiftBy x.c (x.exp - sc)⟩ m = units x m) := by
  rw [mpbfix_repr_nonzero _ _ hc] at hr
  simp only [Bool.and_eq_true] at hr
  obtain ⟨hms, hbnd⟩ := hr
  rw [isMoreSignificant_iff _ _ hc] at hms
  have hdiv : x.exp < sc → x.c % 2 ^ (sc - x.exp).toNat = 0 := by
    intro h; rcases hms with h' | h'
    · rw [hsc] at h'; omega
    · rw [hsc] at h'; have e : (sc - 1 + 1 - x.exp).toNat = (sc - x.exp).toNat := by omega
      rw [e] at h'; exact h'
  generalize hc'd : shiftBy x.c (x.exp - sc) = c' at *
  have hu : ∀ m, m ≤ x.exp → m ≤ sc → units ⟨x.s, sc, c'⟩ m = units x m := by
    intro m h1 h2; rw [← hc'd]; exact units_shiftBy x.s x.exp sc x.c m h1 h2 hdiv
  have hc' : c' ≠ 0 := by
    intro h0
    have h1 := hu (min x.exp sc) (by omega) (by omega)
    rw [units_zero (x := ⟨x.s, sc, c'⟩) h0] at h1
    exact units_ne_zero hc _ h1.symm
  refine ⟨hc', ?_, hu⟩
  rw [mpbfix_repr_nonzero _ _ hc']
  have hms' : RF.isMoreSignificant ⟨x.s, sc, c'⟩ F.nmin = true := by
    rw [isMoreSignificant_iff _ _ hc']; left; rw [hsc]; simp; omega
  rw [hms', Bool.true_and]
  cases hs : x.s
  · rw [hs] at hbnd hu
    simp only [Bool.false_eq_true, if_false] at hbnd ⊢
    let m := min (min x.exp sc) F.posMax.exp
    rw [le_iff_units_common _ _ m (by omega) (by omega)] at hbnd
    rw [le_iff_units_common _ _ m (by simp; omega) (by omega), hu m (by omega) (by omega)]
    exact hbnd
  · rw [hs] at hbnd hu
    simp only [if_true] at hbnd ⊢
    let m := min (min x.exp sc) F.negMax.exp
    rw [le_iff_units_common _ _ m (by omega) (by omega)] at hbnd
    rw [le_iff_units_common _ _ m (by omega) (by simp; omega), hu m (by omega) (by omega)]
    exact hbnd

/-- a value on the format's scale decodes from the expected pattern -/
theorem fx_decode_on_scale (f : FX) (hv : f.valid = true) (s : Bool) (c : Nat) (hc : c ≠ 0)
    (hr : f.mpb.repr (.fin ⟨s, f.scale, c⟩) = true) :
    (if f.signed && s then 2 ^ f.nbits - c else c) < 2 ^ f.nbits ∧
    f.decode (if f.signed && s then 2 ^ f.nbits - c else c) = .ok (.fin ⟨s, f.scale, c⟩) := by
  have ⟨hn, hn2⟩ := fx_valid_nbits f hv
  have hp := two_pow_pred f.nbits hn
  have hH := two_pow_pos' (f.nbits - 1)
  rw [fx_repr_on_scale f hv s c hc] at hr
  have hlt : (if f.signed && s then 2 ^ f.nbits - c else c) < 2 ^ f.nbits := by
    cases hsg : f.signed <;> cases s <;> simp [hsg] at hr ⊢ <;> omega
  refine ⟨hlt, ?_⟩
  unfold FX.decode
  have h0 : ¬ ((if f.signed && s then 2 ^ f.nbits - c else c) ≥ 2 ^ f.nbits) := by omega
  simp only [h0, if_false, testBit_top _ f.nbits hn hlt]
  generalize 2 ^ f.nbits = N at *
  generalize 2 ^ (f.nbits - 1) = H at *
  cases hsg : f.signed <;> cases s <;> simp only [hsg, Bool.false_and, Bool.true_and, Bool.and_false, Bool.false_eq_true, if_false, if_true] at hr ⊢
  · have hr' : c ≤ H - 1 := by simpa using hr
    have h1 : ¬ c ≥ H := by omega
    simp [h1]
  · have hr' : c ≤ H := by simpa using hr
    have h1 : N - c ≥ H := by omega
    have h2 : N - (N - c) = c := by omega
    simp [h1, h2]

theorem fx_decode_encode (f : FX) (hv : f.valid = true) (x : RF) (hr : f.mpb.repr (.fin x) = true) :
    ∃ b y, f.encode (.fin x) = .ok b ∧ b < 2 ^ f.nbits ∧ f.decode b = .ok (.fin y) ∧ same x y ∧ y.exp = f.scale := by
  have ⟨hn, hn2⟩ := fx_valid_nbits f hv
  by_cases hc : x.c = 0
  · -- zero: only +0 is representable, it encodes as 0
    have hr0 := hr
    rw [mpbfix_repr_zero _ _ hc] at hr
    have hs : x.s = false := by cases h : x.s <;> simp [h, FX.mpb] at hr ⊢
    refine ⟨0, ⟨false, f.scale, 0⟩, ?_, two_pow_pos' _, ?_, ?_, rfl⟩
    · unfold FX.encode; simp [hr0, hc]
    · unfold FX.decode
      have : ¬ (0 ≥ 2 ^ f.nbits) := by have := two_pow_pos' f.nbits; omega
      simp only [this, if_false]
      cases f.signed <;> simp
    · refine ⟨?_, by simp [hs]⟩
      unfold sameValue; rw [units_zero hc, units_zero rfl]
  · -- non-zero
    have ⟨hc', hr', hu⟩ := mpbfix_rescale f.mpb f.scale rfl x hc hr
    have ⟨hlt, hdec⟩ := fx_decode_on_scale f hv x.s _ hc' hr'
    refine ⟨_, ⟨x.s, f.scale, shiftBy x.c (x.exp - f.scale)⟩, ?_, hlt, hdec, ⟨?_, rfl⟩, rfl⟩
    · -- encode x computes the same pattern as encode of the rescaled value
      have e1 := fx_encode_on_scale f hv x.s _ hr'
      simp only [hc', if_false] at e1
      rw [← e1]
      unfold FX.encode
      simp only [hr, hr', Bool.not_true, Bool.false_eq_true, if_false, hc, hc', shiftBy_ge, Int.sub_self, shiftBy_zero]
    · unfold sameValue
      simp only
      exact (hu _ (by omega) (by omega)).symm

theorem sm_valid_nbits (f : SM) (hv : f.valid = true) : 2 ≤ f.nbits := by
  unfold SM.valid at hv; simpa using hv

theorem sm_repr_on_scale (f : SM) (hv : f.valid = true) (s : Bool) (c : Nat) (hc : c ≠ 0) :
    f.mpb.repr (.fin ⟨s, f.scale, c⟩) = decide (c ≤ 2 ^ (f.nbits - 1) - 1) := by
  have hn := sm_valid_nbits f hv
  rw [mpbfix_repr_nonzero _ _ hc]
  have hms : RF.isMoreSignificant ⟨s, f.scale, c⟩ f.mpb.nmin = true := by
    rw [isMoreSignificant_iff _ _ hc]; left; simp [SM.mpb]; omega
  rw [hms, Bool.true_and]
  have hpm : f.mpb.posMax = ⟨false, f.scale, 2 ^ (f.nbits - 1) - 1⟩ := rfl
  have hnm : f.mpb.negMax = ⟨true, f.scale, 2 ^ (f.nbits - 1) - 1⟩ := rfl
  rw [hpm, hnm]
  generalize 2 ^ (f.nbits - 1) = H at *
  cases s <;> simp only [if_true, if_false, Bool.false_eq_true]
  · rw [Bool.eq_iff_iff, le_iff_units]; simp only [Int.min_self, units_same_exp]; simp
  · rw [Bool.eq_iff_iff, le_iff_units]; simp only [Int.min_self, units_same_exp]; simp

theorem sm_or_eq_add (H sbit c : Nat) (hH : ∃ k, H = 2 ^ k) (hc : c < H) : H * sbit ||| c = H * sbit + c := by
  obtain ⟨k, rfl⟩ := hH
  exact (Nat.two_pow_add_eq_or_of_lt hc sbit).symm

theorem sm_encode_on_scale (f : SM) (hv : f.valid = true) (s : Bool) (c : Nat)
    (hr : f.mpb.repr (.fin ⟨s, f.scale, c⟩) = true) :
    c < 2 ^ (f.nbits - 1) ∧
    f.encode (.fin ⟨s, f.scale, c⟩) = .ok (2 ^ (f.nbits - 1) * (if s then 1 else 0) + c) := by
  have hn := sm_valid_nbits f hv
  have hH := two_pow_pos' (f.nbits - 1)
  have hlt : c < 2 ^ (f.nbits - 1) := by
    by_cases hc : c = 0
    · omega
    · rw [sm_repr_on_scale f hv s c hc] at hr; simp at hr; omega
  refine ⟨hlt, ?_⟩
  unfold SM.encode
  simp only [hr, Bool.not_true, Bool.false_eq_true, if_false, Int.sub_self, ge_iff_le, Int.le_refl, if_true,
    Int.toNat_zero, Nat.pow_zero, Nat.mul_one]
  have : (if c = 0 then 0 else c) = c := by split <;> omega
  rw [this, sm_or_eq_add _ _ _ ⟨_, rfl⟩ hlt]

theorem sm_decode_add (f : SM) (hv : f.valid = true) (s : Bool) (c : Nat) (hc : c < 2 ^ (f.nbits - 1)) :
    2 ^ (f.nbits - 1) * (if s then 1 else 0) + c < 2 ^ f.nbits ∧
    f.decode (2 ^ (f.nbits - 1) * (if s then 1 else 0) + c) = .ok (.fin ⟨s, f.scale, c⟩) := by
  have hn := sm_valid_nbits f hv
  have hp := two_pow_pred f.nbits (by omega)
  have hH := two_pow_pos' (f.nbits - 1)
  have hlt : 2 ^ (f.nbits - 1) * (if s then 1 else 0) + c < 2 ^ f.nbits := by cases s <;> simp <;> omega
  refine ⟨hlt, ?_⟩
  unfold SM.decode
  have h0 : ¬ (2 ^ (f.nbits - 1) * (if s then 1 else 0) + c ≥ 2 ^ f.nbits) := by omega
  simp only [h0, if_false]
  rw [Nat.mul_add_div hH, Nat.mul_add_mod, Nat.div_eq_of_lt hc, Nat.mod_eq_of_lt hc]
  cases s <;> simp

theorem sm_decode_layout (f : SM) (hv : f.valid = true) (b : Nat) (hb : b < 2 ^ f.nbits) :
    f.decode b = .ok (smLayout f.scale f.nbits b) := by
  have hn := sm_valid_nbits f hv
  have hp := two_pow_pred f.nbits (by omega)
  have hH := two_pow_pos' (f.nbits - 1)
  unfold SM.decode smLayout
  have h0 : ¬ (b ≥ 2 ^ f.nbits) := by omega
  simp only [h0, if_false]
  generalize 2 ^ f.nbits = N at *
  generalize 2 ^ (f.nbits - 1) = H at *
  by_cases h : b ≥ H
  · have h1 : b / H = 1 := Nat.div_eq_of_lt_le (by omega) (by omega)
    have h2 : b % H = b - H := by
      have := Nat.div_add_mod b H; rw [h1] at this; omega
    simp [h1, h2, h]
  · have h1 : b / H = 0 := Nat.div_eq_of_lt (by omega)
    have h2 : b % H = b := Nat.mod_eq_of_lt (by omega)
    simp [h1, h2, h]

theorem sm_encode_decode (f : SM) (hv : f.valid = true) (b : Nat) (hb : b < 2 ^ f.nbits) :
    ∃ v, f.decode b = .ok v ∧ f.encode v = .ok b := by
  have hn := sm_valid_nbits f hv
  have hp := two_pow_pred f.nbits (by omega)
  have hH := two_pow_pos' (f.nbits - 1)
  rw [sm_decode_layout f hv b hb]
  refine ⟨_, rfl, ?_⟩
  unfold smLayout
  have hclt : (if b ≥ 2 ^ (f.nbits - 1) then b - 2 ^ (f.nbits - 1) else b) < 2 ^ (f.nbits - 1) := by split <;> omega
  have hr : f.mpb.repr (.fin ⟨decide (b ≥ 2 ^ (f.nbits - 1)), f.scale, if b ≥ 2 ^ (f.nbits - 1) then b - 2 ^ (f.nbits - 1) else b⟩) = true := by
    by_cases hc : (if b ≥ 2 ^ (f.nbits - 1) then b - 2 ^ (f.nbits - 1) else b) = 0
    · rw [mpbfix_repr_zero _ _ hc]; simp [SM.mpb]
    · rw [sm_repr_on_scale f hv _ _ hc]; exact decide_eq_true (by omega)
  rw [(sm_encode_on_scale f hv _ _ hr).2]
  by_cases h : b ≥ 2 ^ (f.nbits - 1) <;> simp [h] <;> omega

theorem sm_decode_encode (f : SM) (hv : f.valid = true) (x : RF) (hr : f.mpb.repr (.fin x) = true) :
    ∃ b y, f.encode (.fin x) = .ok b ∧ b < 2 ^ f.nbits ∧ f.decode b = .ok (.fin y) ∧ same x y ∧ y.exp = f.scale := by
  have hn := sm_valid_nbits f hv
  by_cases hc : x.c = 0
  · -- ±0 encode as 0 / 2^(nbits-1)
    have ⟨hlt, hdec⟩ := sm_decode_add f hv x.s 0 (two_pow_pos' _)
    refine ⟨_, ⟨x.s, f.scale, 0⟩, ?_, hlt, hdec, ⟨?_, rfl⟩, rfl⟩
    · unfold SM.encode; simp [hr, hc]
    · unfold sameValue; rw [units_zero hc, units_zero rfl]
  · have ⟨hc', hr', hu⟩ := mpbfix_rescale f.mpb f.scale rfl x hc hr
    have ⟨hclt, henc⟩ := sm_encode_on_scale f hv x.s _ hr'
    have ⟨hlt, hdec⟩ := sm_decode_add f hv x.s _ hclt
    refine ⟨_, ⟨x.s, f.scale, shiftBy x.c (x.exp - f.scale)⟩, ?_, hlt, hdec, ⟨?_, rfl⟩, rfl⟩
    · rw [← henc]
      unfold SM.encode
      simp only [hr, hr', Bool.not_true, Bool.false_eq_true, if_false, hc, hc', shiftBy_ge, Int.sub_self, shiftBy_zero]
    · unfold sameValue
      simp only
      exact (hu _ (by omega) (by omega)).symm

theorem fixOrdinal_eq (nmin : Int) (x : RF) :
    fixOrdinal nmin x = if x.c = 0 then 0 else
      (if x.s then -(shiftBy x.c (x.exp - (nmin + 1)) : Int) else (shiftBy x.c (x.exp - (nmin + 1)) : Int)) := by
  unfold fixOrdinal shiftBy; rfl

theorem fix_to_from_ordinal (f : MPFixFmt) (k : Int) : f.ordRF (f.unordRF k) = k := by
  unfold MPFixFmt.ordRF MPFixFmt.unordRF
  by_cases hk : k = 0
  · subst hk; simp [fixOrdinal]
  · rw [fixOrdinal_eq]
    have : k.natAbs ≠ 0 := by omega
    simp only [hk, if_false, this, MPFixFmt.expmin, Int.sub_self, shiftBy_zero]
    by_cases h : k < 0 <;> simp [h] <;> omega

/-- divisibility information carried by representability in a fixed-point format -/
theorem fix_repr_div (nmin : Int) (x : RF) (hc : x.c ≠ 0) (hr : x.isMoreSignificant nmin = true) :
    x.exp < nmin + 1 → x.c % 2 ^ (nmin + 1 - x.exp).toNat = 0 := by
  intro h
  rw [isMoreSignificant_iff _ _ hc] at hr
  rcases hr with h' | h'
  · omega
  · exact h'

/-- the ordinal is the value counted in units of the format's spacing `2^(nmin+1)` -/
theorem fix_ordinal_units (f : MPFixFmt) (x : RF) (hr : x.isMoreSignificant f.nmin = true) (m : Int)
    (h1 : m ≤ x.exp) (h2 : m ≤ f.nmin + 1) :
    units x m = f.ordRF x * ((2 ^ (f.nmin + 1 - m).toNat : Nat) : Int) := by
  unfold MPFixFmt.ordRF
  rw [fixOrdinal_eq]
  by_cases hc : x.c = 0
  · simp [hc, units_zero hc]
  · simp only [hc, if_false]
    have hu := units_shiftBy x.s x.exp (f.nmin + 1) x.c m h1 h2 (fix_repr_div f.nmin x hc hr)
    have : units x m = units ⟨x.s, x.exp, x.c⟩ m := rfl
    rw [this, ← hu]
    unfold units mag
    simp only
    cases x.s <;> simp [Int.natCast_mul, Int.neg_mul]

theorem fix_from_to_ordinal (f : MPFixFmt) (x : RF) (hr : x.isMoreSignificant f.nmin = true) :
    sameValue (f.unordRF (f.ordRF x)) x ∧ (x.c ≠ 0 → (f.unordRF (f.ordRF x)).s = x.s ∧ (f.unordRF (f.ordRF x)).exp = f.nmin + 1) := by
  by_cases hc : x.c = 0
  · have h0 : f.ordRF x = 0 := by unfold MPFixFmt.ordRF fixOrdinal; simp [hc]
    refine ⟨?_, fun h => absurd hc h⟩
    rw [h0]; unfold sameValue; rw [units_zero (by simp [MPFixFmt.unordRF]), units_zero hc]
  · have hdiv := fix_repr_div f.nmin x hc hr
    have hne : shiftBy x.c (x.exp - (f.nmin + 1)) ≠ 0 := by
      intro h0
      have hu := units_shiftBy x.s x.exp (f.nmin + 1) x.c (min x.exp (f.nmin + 1)) (by omega) (by omega) hdiv
      rw [units_zero (x := ⟨x.s, f.nmin + 1, shiftBy x.c (x.exp - (f.nmin + 1))⟩) h0] at hu
      exact units_ne_zero (x := ⟨x.s, x.exp, x.c⟩) hc _ hu.symm
    have hun : f.unordRF (f.ordRF x) = ⟨x.s, f.nmin + 1, shiftBy x.c (x.exp - (f.nmin + 1))⟩ := by
      unfold MPFixFmt.ordRF MPFixFmt.unordRF MPFixFmt.expmin
      rw [fixOrdinal_eq]
      simp only [hc, if_false]
      generalize shiftBy x.c (x.exp - (f.nmin + 1)) = c' at *
      cases hs : x.s
      · have h1 : ¬ ((c' : Int) = 0) := by omega
        have h2 : ¬ ((c' : Int) < 0) := by omega
        simp only [Bool.false_eq_true, if_false, h1, h2, decide_false, Int.natAbs_natCast]
      · have h1 : ¬ (-(c' : Int) = 0) := by omega
        have h2 : (-(c' : Int) < 0) := by omega
        simp only [if_true, h1, if_false, h2, decide_true, Int.natAbs_neg, Int.natAbs_natCast]
    rw [hun]
    refine ⟨?_, fun _ => ⟨rfl, rfl⟩⟩
    unfold sameValue
    simp only
    exact units_shiftBy x.s x.exp (f.nmin + 1) x.c _ (by omega) (by omega) hdiv

theorem fix_ordinal_strict_mono (f : MPFixFmt) (x y : RF)
    (hx : x.isMoreSignificant f.nmin = true) (hy : y.isMoreSignificant f.nmin = true) :
    f.ordRF x < f.ordRF y ↔ ltValue x y := by
  let m := min (min x.exp y.exp) (f.nmin + 1)
  rw [ltValue_iff_common x y m (by omega) (by omega),
    fix_ordinal_units f x hx m (by omega) (by omega), fix_ordinal_units f y hy m (by omega) (by omega)]
  exact (Int.mul_lt_mul_right (Int.natCast_pos.2 (two_pow_pos' _))).symm

theorem fix_ordinal_eq_iff (f : MPFixFmt) (x y : RF)
    (hx : x.isMoreSignificant f.nmin = true) (hy : y.isMoreSignificant f.nmin = true) :
    f.ordRF x = f.ordRF y ↔ sameValue x y := by
  let m := min (min x.exp y.exp) (f.nmin + 1)
  rw [sameValue_iff_common x y m (by omega) (by omega),
    fix_ordinal_units f x hx m (by omega) (by omega), fix_ordinal_units f y hy m (by omega) (by omega)]
  have : ((2 ^ (f.nmin + 1 - m).toNat : Nat) : Int) ≠ 0 := by
    have := two_pow_pos' (f.nmin + 1 - m).toNat; omega
  exact (Int.mul_eq_mul_right_iff this).symm

theorem fix_next_up (f : MPFixFmt) (x : RF) (hr : f.repr (.fin x) = true) :
    (Fmt.mpfix f).nextUp (.fin x) false = .ok (.fin (f.unordRF (f.ordRF x + 1))) ∧
    (Fmt.mpfix f).nextDown (.fin x) false = .ok (.fin (f.unordRF (f.ordRF x - 1))) := by
  unfold Fmt.nextUp Fmt.nextDown Fmt.stepTowardsInf Fmt.repr Fmt.toOrdinal Fmt.fromOrdinal
    MPFixFmt.toOrdinal MPFixFmt.fromOrdinal
  simp [hr, FV.isNan, FV.isInf]
  rfl

theorem mpfix_repr_fin (f : MPFixFmt) (x : RF) (hr : f.repr (.fin x) = true) :
    x.isMoreSignificant f.nmin = true := by
  unfold MPFixFmt.repr at hr
  split at hr
  · cases hr
  · exact hr

/-- `MPFixedFormat.normalize`: the significand moved to `expmin`, nothing shifted out -/
theorem fix_normalize (f : MPFixFmt) (x : RF) (hr : f.repr (.fin x) = true) :
    ∃ y, f.normalize (.fin x) = .ok (.fin y) ∧ same x y ∧ y.exp = f.expmin := by
  have hms := mpfix_repr_fin f x hr
  have hdiv : x.exp < f.expmin → x.c % 2 ^ (f.expmin - x.exp).toNat = 0 := by
    intro h
    by_cases hc : x.c = 0
    · simp [hc]
    · exact fix_repr_div f.nmin x hc hms h
  refine ⟨⟨x.s, f.expmin, shiftBy x.c (x.exp - f.expmin)⟩, ?_, ⟨?_, rfl⟩, rfl⟩
  · unfold MPFixFmt.normalize shiftBy
    simp only [hr, Bool.not_true, Bool.false_eq_true, if_false]
    by_cases h1 : x.exp - f.expmin > 0
    · simp only [h1, if_true]; congr 3; omega
    · by_cases h2 : x.exp - f.expmin < 0
      · simp only [h1, h2, if_false, if_true]; congr 3; omega
      · simp only [h1, h2, if_false]
        have : x.exp = f.expmin := by omega
        congr 2
        cases x; simp_all
  · unfold sameValue
    exact (units_shiftBy x.s x.exp f.expmin x.c _ (by omega) (by simp only; omega) hdiv).symm

theorem mpbfix_repr_mp (F : MPBFixFmt) (v : FV) (hr : F.repr v = true) : F.mp.repr v = true := by
  unfold MPBFixFmt.repr at hr
  by_cases h : F.mp.repr v = true
  · exact h
  · simp [h] at hr

/-- the same through the bounded formats (`MPBFixed`, `Fixed`, `SMFixed`) -/
theorem mpbfix_normalize (F : MPBFixFmt) (x : RF) (hr : F.repr (.fin x) = true) :
    ∃ y, F.normalize (.fin x) = .ok (.fin y) ∧ same x y ∧ y.exp = F.nmin + 1 := by
  obtain ⟨y, h1, h2, h3⟩ := fix_normalize F.mp x (mpbfix_repr_mp F _ hr)
  refine ⟨y, ?_, h2, h3⟩
  unfold MPBFixFmt.normalize
  simp only [hr, Bool.not_true, Bool.false_eq_true, if_false]
  exact h1

theorem ef_pmax (f : EF) : f.pmax = f.nbits - f.es := rfl

theorem ef_emin (f : EF) : f.emin = 1 - efBias f.es + f.eoff := by
  unfold EF.emin efloatMpb efBias bitmask
  simp only
  by_cases h : f.es = 0 <;> simp [h]

theorem ef_valid_basic (f : EF) (hv : f.valid = true) : 1 ≤ f.nbits ∧ f.es < f.nbits := by
  unfold EF.valid efloatValid at hv
  by_cases h1 : f.nbits < 1
  · simp [h1] at hv
  · by_cases h2 : f.es ≥ f.nbits
    · simp [h1, h2] at hv
    · omega

theorem ef_expmin (f : EF) (hv : f.valid = true) :
    f.expmin = 1 - efBias f.es + f.eoff - ((f.nbits - f.es - 1 : Nat) : Int) := by
  have ⟨h1, h2⟩ := ef_valid_basic f hv
  unfold EF.expmin; rw [ef_emin, ef_pmax]; omega

/-- what the constructor's validity test says, kind by kind -/
theorem ef_valid_kind (f : EF) (hv : f.valid = true) :
    (f.kind = .ieee → 1 ≤ f.es ∧ (f.inf = true → f.nbits - f.es ≥ 2)) ∧
    (f.kind = .maxVal → 2 ≤ f.nbits ∧ (f.inf = true → 3 ≤ f.nbits)) ∧
    ((f.kind = .negZero ∨ f.kind = .none) → f.inf = true → 2 ≤ f.nbits) := by
  have ⟨h1, h2⟩ := ef_valid_basic f hv
  unfold EF.valid efloatValid at hv
  have g1 : ¬ f.nbits < 1 := by omega
  have g2 : ¬ f.es ≥ f.nbits := by omega
  simp only [g1, g2, if_false] at hv
  refine ⟨?_, ?_, ?_⟩
  · intro hk; rw [hk] at hv; simp at hv
    refine ⟨by omega, fun hi => ?_⟩
    rcases hv.2 with h | h
    · simp [hi] at h
    · omega
  · intro hk; rw [hk] at hv; simp only at hv
    by_cases h0 : f.es = 0
    · simp [h0] at hv
      refine ⟨by omega, fun hi => ?_⟩
      rcases hv.2 with h | h
      · simp [hi] at h
      · omega
    · simp [h0] at hv
      refine ⟨by omega, fun hi => ?_⟩
      rcases hv with (h | h) | h
      · omega
      · simp [hi] at h
      · omega
  · intro hk hi; rcases hk with hk | hk <;> rw [hk, hi] at hv <;> simp at hv <;> omega

theorem ef_fields (b A B : Nat) (hA : 0 < A) (hB : 0 < B) (hb : b < 2 * (A * B)) :
    b / (A * B) ≤ 1 ∧ b / A % B < B ∧ b % A < A ∧ b % (A * B) = A * (b / A % B) + b % A ∧
    b = (b / (A * B)) * (A * B) + b % (A * B) ∧ b % (A * B) < A * B := by
  have hAB : 0 < A * B := Nat.mul_pos hA hB
  refine ⟨?_, Nat.mod_lt _ hB, Nat.mod_lt _ hA, ?_, ?_, Nat.mod_lt _ hAB⟩
  · have : b / (A * B) < 2 := (Nat.div_lt_iff_lt_mul hAB).2 hb
    omega
  · rw [Nat.mod_mul]; omega
  · have := Nat.div_add_mod b (A * B); rw [Nat.mul_comm] at this; omega

theorem two_pow_or (i b : Nat) (h : b < 2 ^ i) : 2 ^ i ||| b = 2 ^ i + b := by
  have := Nat.two_pow_add_eq_or_of_lt h 1
  simp only [Nat.mul_one] at this; exact this.symm

theorem two_pow_mul_or (i a b : Nat) (h : b < 2 ^ i) : 2 ^ i * a ||| b = 2 ^ i * a + b :=
  (Nat.two_pow_add_eq_or_of_lt h a).symm

theorem ef_decode_layout (f : EF) (hv : f.valid = true) (b : Nat) (hb : b < 2 ^ f.nbits) :
    f.decode b = .ok (efLayout f.es f.nbits f.inf f.kind f.eoff b) := by
  have ⟨hn, hes⟩ := ef_valid_basic f hv
  have ⟨hki, hkm, hkz⟩ := ef_valid_kind f hv
  have hm : f.nbits - f.es - 1 = f.m := by unfold EF.m; rw [ef_pmax]
  have hH : 2 ^ (f.nbits - 1) = 2 ^ f.m * 2 ^ f.es := by
    rw [← Nat.pow_add]; congr 1; unfold EF.m; rw [ef_pmax]; omega
  have hN := two_pow_pred f.nbits hn
  have hexp := ef_expmin f hv
  rw [hm] at hexp
  have hA := two_pow_pos' f.m
  have hB := two_pow_pos' f.es
  have hB2 : 1 ≤ f.es → 2 ≤ 2 ^ f.es := fun h => by
    have := two_pow_pred f.es h; have := two_pow_pos' (f.es - 1); omega
  have hH2 : 2 ≤ f.nbits → 2 ≤ 2 ^ (f.nbits - 1) := fun h => by
    have := two_pow_pred (f.nbits - 1) (by omega); have := two_pow_pos' (f.nbits - 1 - 1); omega
  have hM := Nat.mod_lt b hA
  unfold EF.decode efLayout
  have h0 : ¬ (b ≥ 2 ^ f.nbits) := by omega
  simp only [h0, if_false, hm, two_pow_or _ _ hM, two_pow_mul_or _ _ _ hM, bitmask]
  rw [hN, hH] at hb
  have ⟨fS, fE, fM, fmag, fb, fmagl⟩ := ef_fields b (2 ^ f.m) (2 ^ f.es) hA hB hb
  rw [hH]
  rw [← fmag, hexp]
  have hs : (b / (2 ^ f.m * 2 ^ f.es) != 0) = decide (b / (2 ^ f.m * 2 ^ f.es) = 1) := by
    generalize b / (2 ^ f.m * 2 ^ f.es) = S at *
    have : S = 0 ∨ S = 1 := by omega
    rcases this with h | h <;> subst h <;> rfl
  rw [hs]
  have hG0 : b % (2 ^ f.m * 2 ^ f.es) = 0 ↔ (b / 2 ^ f.m % 2 ^ f.es = 0 ∧ b % 2 ^ f.m = 0) := by
    rw [fmag]
    constructor
    · intro h
      have h1 : 2 ^ f.m * (b / 2 ^ f.m % 2 ^ f.es) = 0 := by omega
      rcases Nat.mul_eq_zero.1 h1 with h2 | h2
      · omega
      · exact ⟨h2, by omega⟩
    · intro ⟨h1, h2⟩; rw [h1, h2]; simp
  have hAB : 2 ^ f.nbits = 2 * (2 ^ f.m * 2 ^ f.es) := by rw [hN, hH]
  have hHH : 2 ≤ f.nbits → 2 ≤ 2 ^ f.m * 2 ^ f.es := fun h => by rw [← hH]; exact hH2 h
  clear hH hN hH2 fb hb h0 hs hM
  generalize b / (2 ^ f.m * 2 ^ f.es) = S at *
  generalize b / 2 ^ f.m % 2 ^ f.es = E at *
  generalize b % 2 ^ f.m = M at *
  generalize b % (2 ^ f.m * 2 ^ f.es) = G at *
  generalize 2 ^ f.m * 2 ^ f.es = H at *
  generalize 2 ^ f.m = A at *
  generalize 2 ^ f.es = B at *
  cases hk : f.kind <;> simp only
  · -- IEEE
    have ⟨he, _⟩ := hki hk
    have := hB2 he
    by_cases hE0 : E = 0
    · subst hE0
      have : ¬ (0 = B - 1) := by omega
      simp [this]
    · by_cases hE1 : E = B - 1
      · subst hE1
        by_cases hc : f.inf = true ∧ M = 0 <;> simp [hE0, hc]
      · simp only [hE0, hE1, if_false]
        congr 3; omega
  · -- MAX_VAL
    have ⟨h2, h3⟩ := hkm hk
    have hH2 := hHH h2
    by_cases hnan : G = H - 1
    · simp [hnan]
    · simp only [hnan, if_false]
      have e1 : (G == H - 1 - 1) = decide (G + 1 = H - 1) := by
        rw [Bool.eq_iff_iff]; simp; omega
      rw [e1]
      by_cases hc : (f.inf && decide (G + 1 = H - 1)) = true
      · simp only [hc, if_true]
      · simp only [hc, Bool.false_eq_true, if_false]
        by_cases hE0 : E = 0
        · simp [hE0]
        · simp only [hE0, if_false]; congr 3; omega
  · -- NEG_ZERO
    have e1 : (G == H - 1) = decide (G = H - 1) := by rw [Bool.eq_iff_iff]; simp
    rw [e1]
    by_cases hc : (f.inf && decide (G = H - 1)) = true
    · simp only [hc, if_true]
    · simp only [hc, Bool.false_eq_true, if_false]
      by_cases hE0 : E = 0
      · by_cases hM0 : M = 0
        · have hG : G = 0 := hG0.2 ⟨hE0, hM0⟩
          have : S = 0 ∨ S = 1 := by omega
          rcases this with h | h <;> subst h <;> simp [hE0, hM0, hG]
        · have hG : ¬ G = 0 := fun h => hM0 (hG0.1 h).2
          simp [hE0, hM0, hG]
      · have hG : ¬ G = 0 := fun h => hE0 (hG0.1 h).1
        simp only [hE0, hG, false_and, if_false]; congr 3; omega
  · -- NONE
    have e1 : (G == H - 1) = decide (G = H - 1) := by rw [Bool.eq_iff_iff]; simp
    rw [e1]
    by_cases hc : (f.inf && decide (G = H - 1)) = true
    · simp only [hc, if_true]
    · simp only [hc, Bool.false_eq_true, if_false]
      by_cases hE0 : E = 0
      · by_cases hM0 : M = 0
        · simp [hE0, hM0]
        · simp [hE0, hM0]
      · simp only [hE0, if_false]; congr 3; omega

end Fpy
