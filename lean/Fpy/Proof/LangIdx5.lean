/-
Loop restructuring, part 5: `for` unrolling, PEEL strategy, length not statically known — the block
`fpy2/transform/for_unroll.py` emits today — has the same outcome as the loop.
-/
import Fpy.Proof.LangIdx4
namespace Fpy.Xform
open Fpy Fpy.Lang

theorem evalEω_binop (Φ : Funs) (σ : Env) (μ : Heap) (C : Ctx) (o : Op) {e1 e2 : Expr} {x y : NV}
    (h1 : evalEω Φ σ μ C e1 = .ok (.num x, μ)) (h2 : evalEω Φ σ μ C e2 = .ok (.num y, μ)) :
    evalEω Φ σ μ C (.op o [e1, e2]) = (opEval C o [cvtReal x, cvtReal y] >>= fun w => .ok (.num w, μ)) := by
  rw [evalEω_op, evalEsω_cons, h1]
  show ((evalEsω Φ σ μ C [e2] >>= _) >>= _) = _
  rw [evalEsω_cons, h2]
  show (((evalEsω Φ σ μ C [] >>= _) >>= _) >>= _) = _
  rw [evalEsω_nil]
  rfl

theorem FinRel.of_qss {S : List String} {π : RMap} {D : List Nat} {μ1 μ2 : Heap} {a b : M (Outcome × Heap)}
    (h : RelM (QSS S π D μ1 μ2) a b) : FinRel S a b := by
  cases a <;> cases b <;> simp only [RelM] at h
  · exact h
  · rename_i x y
    obtain ⟨o1, m1⟩ := x; obtain ⟨o2, m2⟩ := y
    exact ⟨π, D, h.heap, h.out⟩

/-- the PEEL / unknown-length output of `_ForUnroll._build_peel` for `for p in it: body`:
`t, n, m` the temporaries, `idx :: offs` the index variables of the main loop (`offs.length + 1 = k`),
`ridx` the index of the residual loop; `z0, zk, z1` and `lits` the integer literals `0, k, 1` and `1 … k-1` -/
def forUnrollPeel (CI : Ctx) (p : Pat) (it : Expr) (body : List Stmt) (t n m idx ridx : String) (offs : List String)
    (lits : List NV) (z0 zk z1 : NV) : List Stmt :=
  [ .assign (.var t) it,
    .with (.ctxLit CI) none
      [ .assign (.var n) (.len (.var t)),
        .assign (.var m) (.op .sub [.var n, .op .fmod [.var n, .num zk]]) ],
    .for (.var idx) (.range [.num z0, .var m, .num zk]) (mainBody CI p t idx offs lits body),
    .for (.var ridx) (.range [.var m, .var n, .num z1]) (mainBody CI p t ridx [] [] body) ]

theorem mainBody_nil (CI : Ctx) (p : Pat) (t x : String) (body : List Stmt) :
    mainBody CI p t x [] [] body = copyStmt p t (.var x) body := by
  simp [mainBody, List.flatMap]

theorem nvInt_q (N : Nat) : nvInt? (.q (N : Int) 1) = some (N : Int) := by simp [nvInt?]

/-- the control prelude `with INTEGER: n = len(t); m = n - fmod(n, k)` computes `m = k·⌊N/k⌋` and changes
nothing else -/
theorem prelude_eval (Φ : Funs) {CI : Ctx} (IA : IntArith CI) (C : Ctx) {σt : Env} {μ0 : Heap} {t n m : String} {r : Nat}
    {l : List Val} (ht : σt.get? t = some (.list r)) (hl : μ0[r]? = some l) {zk : NV} {k : Nat}
    (hzk : nvInt? zk = some (k : Int)) (hk : 0 < k) (hnt : n ≠ t) :
    ∃ wm, nvInt? wm = some ((k * (l.length / k) : Nat) : Int) ∧
      evalSω Φ σt μ0 C (.with (.ctxLit CI) none
        [ .assign (.var n) (.len (.var t)),
          .assign (.var m) (.op .sub [.var n, .op .fmod [.var n, .num zk]]) ]) =
      .ok (.normal ((σt.set n (.num (.q (l.length : Int) 1))).set m (.num wm)), μ0) := by
  obtain ⟨w1, hf1, hf2⟩ := IA.fmod (.q (l.length : Int) 1) zk l.length k (nvInt_q _) hzk hk
  obtain ⟨wm, hs1, hs2⟩ := IA.sub (.q (l.length : Int) 1) w1 _ _ (nvInt_q _) hf2
  refine ⟨wm, ?_, ?_⟩
  · rw [hs2]; congr 1
    have := Nat.div_add_mod l.length k
    have h2 : l.length % k ≤ l.length := Nat.mod_le _ _
    omega
  · rw [with_ctx_wrap, evalBω_cons', evalSω_assign, evalEω_len, evalEω_var, ht]
    have hal : asList μ0 (.list r) = .ok l := by show heapGet μ0 r = _; unfold heapGet; rw [hl]
    show ((((asList μ0 (.list r) >>= _) >>= _) >>= _)) = _
    rw [hal]
    show ((bindPatω (.var n) _ σt >>= _) >>= _) = _
    rw [bindPatω_var]
    show evalBω Φ (σt.set n _) μ0 CI [_] = _
    rw [evalBω_single, evalSω_assign]
    have hn : ∀ μ, evalEω Φ (σt.set n (.num (.q (l.length : Int) 1))) μ CI (.var n) = .ok (.num (.q (l.length : Int) 1), μ) := by
      intro μ; rw [evalEω_var, Env.get?_set, if_pos rfl]
    have hfm : evalEω Φ (σt.set n (.num (.q (l.length : Int) 1))) μ0 CI (.op .fmod [.var n, .num zk]) = .ok (.num w1, μ0) := by
      rw [evalEω_binop Φ _ μ0 CI .fmod (hn μ0) (evalEω_num Φ _ μ0 CI zk), hf1]; rfl
    rw [evalEω_binop Φ _ μ0 CI .sub (hn μ0) hfm, hs1]
    show (bindPatω (.var m) (.num wm) _ >>= _) = _
    rw [bindPatω_var]
    rfl

end Fpy.Xform
