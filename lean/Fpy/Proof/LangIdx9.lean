/-
Loop restructuring, part 9: reading `FinRel` — what "the same outcome up to heap renaming" gives for
values without references, and for `Returns`.
-/
import Fpy.Proof.LangIdx8
namespace Fpy.Xform
open Fpy Fpy.Lang

theorem VR.flat_right {π : RMap} {D : List Nat} {d : Nat} {v w : Val} (h : VR π D d v w) (hw : flatV w = true) : v = w := by
  rcases VR.inv h with ⟨_, rfl⟩ | ⟨vs, ws, rfl, rfl, _⟩ | ⟨r, rfl, rfl, _, _⟩
  · rfl
  · simp [flatV] at hw
  · simp [flatV] at hw

theorem VR.flat_left {π : RMap} {D : List Nat} {d : Nat} {v w : Val} (h : VR π D d v w) (hv : flatV v = true) : w = v := by
  rcases VR.inv h with ⟨_, rfl⟩ | ⟨vs, ws, rfl, rfl, _⟩ | ⟨r, rfl, rfl, _, _⟩
  · rfl
  · simp [flatV] at hv
  · simp [flatV] at hv

/-- related outcomes return the same number / Boolean / context -/
theorem FinRel.returns_flat {S : List String} {a b : M (Outcome × Heap)} (h : FinRel S a b) {v : Val} (hv : flatV v = true) :
    (∃ m, a = .ok (.ret v, m)) ↔ (∃ m, b = .ok (.ret v, m)) := by
  constructor
  · rintro ⟨m, rfl⟩
    cases b with
    | error e => exact absurd h id
    | ok y =>
      obtain ⟨o2, m2⟩ := y
      obtain ⟨π, D, _, ho⟩ := h
      cases o2 with
      | normal σ2 => exact absurd ho id
      | ret w => exact ⟨m2, by rw [VR.flat_left ho hv]⟩
  · rintro ⟨m, rfl⟩
    cases a with
    | error e => exact absurd h id
    | ok x =>
      obtain ⟨o1, m1⟩ := x
      obtain ⟨π, D, _, ho⟩ := h
      cases o1 with
      | normal σ1 => exact absurd ho id
      | ret w => exact ⟨m1, by rw [VR.flat_right ho hv]⟩

/-- related outcomes fail with the same error -/
theorem FinRel.fails {S : List String} {a b : M (Outcome × Heap)} (h : FinRel S a b) (e : Err) :
    a = .error e ↔ b = .error e := by
  cases a <;> cases b <;> simp only [FinRel] at h
  · subst h; exact Iff.rfl
  · constructor <;> intro h' <;> cases h'

/-- … in terms of `Returns`: the two blocks return the same flat values -/
theorem FinRel.returns_flat_iff {Φ : Funs} {S : List String} {σ σ' : Env} {μ μ' : Heap} {C : Ctx} {ss ss' : List Stmt}
    (h : FinRel S (evalBω Φ σ μ C ss) (evalBω Φ σ' μ' C ss')) {v : Val} (hv : flatV v = true) :
    (∃ m, Returns Φ σ μ C ss v m) ↔ (∃ m, Returns Φ σ' μ' C ss' v m) := by
  have := h.returns_flat hv
  constructor
  · rintro ⟨m, hm⟩; obtain ⟨m', hm'⟩ := this.1 ⟨m, Fpy.Xform.returns_iff.1 hm⟩; exact ⟨m', Fpy.Xform.returns_iff.2 hm'⟩
  · rintro ⟨m, hm⟩; obtain ⟨m', hm'⟩ := this.2 ⟨m, Fpy.Xform.returns_iff.1 hm⟩; exact ⟨m', Fpy.Xform.returns_iff.2 hm'⟩

end Fpy.Xform
