/-
C10 helper lemmas: `unfold_overflow` with the probed constants, `unfold_neg_zero`, `unfold_special`.
-/
import Fpy.Proof.LowerCtx
namespace Fpy.C10
open Fpy Fpy.Spec

theorem shift_lt_self (b : RF) (k : Nat) (hk : 1 ≤ k) (hc : b.c ≠ 0) (hs : b.s = true) : (shiftRF b k).lt b = true := by
  have h1 : (shiftRF b k).okAt b.exp := Or.inr (by show b.exp ≤ b.exp + k; omega)
  rw [RF.lt_iff _ _ b.exp h1 (RF.okAt_self b)]
  unfold RF.sc shiftRF
  simp only [hs, if_true]
  have e1 : (b.exp + k - b.exp).toNat = k := by omega
  have e2 : (b.exp - b.exp).toNat = 0 := by omega
  rw [e1, e2]
  have h2 : 2 ^ 1 ≤ 2 ^ k := Nat.pow_le_pow_right (by decide) hk
  have hN : b.c * 1 < b.c * 2 ^ k := Nat.mul_lt_mul_of_le_of_lt (Nat.le_refl _) (by omega) (Nat.pos_of_ne_zero hc)
  have hcast : ((b.c * 2 ^ k : Nat) : Int) = (b.c : Int) * 2 ^ k := by simp [Int.natCast_mul, Int.natCast_pow]
  simp only [Int.pow_zero, Int.mul_one]
  rw [← hcast]
  have := Int.ofNat_lt.2 (show b.c < b.c * 2 ^ k by simpa using hN)
  omega

/-- **the probe is sound (float)**: what the bounded context makes of `2^k ·` its positive bound (`k ≥ 1`: the
transform asks at `k = 1` and `k = 64`) is its overflow arm for a positive operand -/
theorem probe_float_pos (c : MPBParams) (hk : c.k = some 0) (k : Nat) (hk1 : 1 ≤ k)
    (hb : BoundOk c.p c.nmin c.posMax) (hs : c.posMax.s = false) :
    probeFloat c false k = mpbOverflow c false false := by
  obtain ⟨fl, hr⟩ := round_shift_bound c.posMax c.p c.nmin c.rm k hb
  have hc : (shiftRF c.posMax k).c ≠ 0 := hb.1
  have hsx : (shiftRF c.posMax k).s = false := hs
  have hgt := shift_gt_self c.posMax k hk1 hb.1 hs
  unfold probeFloat mpbRoundAt floatSpecial mpbOverflow
  simp only [Bool.false_eq_true, if_false, hc, hk, hr, hsx, hgt, if_true]
  rfl

theorem probe_float_neg (c : MPBParams) (hk : c.k = some 0) (k : Nat) (hk1 : 1 ≤ k)
    (hb : BoundOk c.p c.nmin c.negMax) (hs : c.negMax.s = true) :
    probeFloat c true k = mpbOverflow c true true := by
  obtain ⟨fl, hr⟩ := round_shift_bound c.negMax c.p c.nmin c.rm k hb
  have hc : (shiftRF c.negMax k).c ≠ 0 := hb.1
  have hsx : (shiftRF c.negMax k).s = true := hs
  have hlt := shift_lt_self c.negMax k hk1 hb.1 hs
  unfold probeFloat mpbRoundAt floatSpecial mpbOverflow
  simp only [if_true, hc, if_false, hk, hr, hsx, hlt, Bool.false_eq_true]
  rfl

/-- **`unfold_overflow` on a bounded float** (`MPBFloatContext`; the finite part of `EFloatContext` /
`IEEEContext`): for every deterministic context whose two bounds are values of the format of the right sign,
every rounding mode and overflow mode, and every finite non-zero operand, the block the rewrite emits — round under
`MPSFloatContext(pmax, emin, rm)`, compare with the bounds, write the constant the source was probed for —
returns the value the source context returns (or raises the same error). -/
theorem unfold_overflow_float (c : MPBParams) (hk : c.k = some 0) (hp : 1 ≤ c.p)
    (hpos : BoundOk c.p c.nmin c.posMax) (hps : c.posMax.s = false)
    (hneg : BoundOk c.p c.nmin c.negMax) (hns : c.negMax.s = true) (x : RF) (hx : x.c ≠ 0) :
    valOf (mpbRoundAt c (.fin x) none false 0) = unfoldOverflowFloat c x := by
  rw [mpb_unfold_arm c (Or.inr hps) (Or.inr hns) x hx]
  unfold unfoldOverflowFloat unfoldOverflowProg
  rw [probe_float_pos c hk 1 (Nat.le_refl _) hpos hps, probe_float_neg c hk 1 (Nat.le_refl _) hneg hns]
  unfold unboundedFloat Ctx.roundAtCore floatSpecial
  simp only [hx, if_false]
  cases hr : x.round (some c.p) (some (c.emin - c.p)) c.rm c.k 0 false with
  | error e => rfl
  | ok yf =>
    obtain ⟨t, fl⟩ := yf
    have hts : t.s = x.s := by
      rw [hk] at hr
      exact round_float_sign x c.p (some (c.emin - c.p)) c.rm hx hp t fl hr
    simp only
    by_cases h1 : t.gt c.posMax = true
    · have : t.s = false := by
        cases h : t.s
        · rfl
        · have := gt_false_of_signs t c.posMax (Or.inr h) (Or.inr hps); rw [this] at h1; cases h1
      simp only [h1, if_true, ← hts, this]
    · by_cases h2 : t.lt c.negMax = true
      · have : t.s = true := by
          cases h : t.s
          · have := lt_false_of_signs t c.negMax (Or.inr h) (Or.inr hns); rw [this] at h2; cases h2
          · rfl
        simp only [h1, h2, if_true, Bool.false_eq_true, if_false, ← hts, this]
      · simp only [h1, h2, Bool.false_eq_true, if_false]; rfl

/-! #### bounded fixed-point formats -/

/-- **`unfold_overflow`, fixed-point, with the context's own overflow arm** (non-wrapping): rounding under
`MPBFixedContext` is rounding under `MPFixedContext(nmin, …)` with the same options followed by the emitted
comparison; flags included. -/
theorem mpbfix_unfold_arm (c : MPBFixParams) (hw : c.ov ≠ .wrap)
    (hpos : c.posMax.c = 0 ∨ c.posMax.s = false) (hneg : c.negMax.c = 0 ∨ c.negMax.s = true)
    (x : RF) (hx : x.c ≠ 0) :
    mpbfixRoundAt c (.fin x) none false 0 =
      (match (unboundedFixed c).roundAtCore (.fin x) none false 0 with
       | .error e => .error e
       | .ok r =>
         match r.v with
         | .fin t => if t.gt c.posMax then mpbfixOverflow c x.s t.s
                     else if t.lt c.negMax then mpbfixOverflow c x.s t.s
                     else .ok r
         | _ => .ok r) := by
  unfold mpbfixRoundAt unboundedFixed Ctx.roundAtCore fixedSpecial
  simp only [hx, if_false]
  cases hr : x.round none (some c.nmin) c.rm c.k 0 false with
  | error e => rfl
  | ok yf =>
    obtain ⟨y, fl⟩ := yf
    simp only [emitted_test y c.posMax c.negMax hpos hneg]
    by_cases hz : y.c = 0
    · have g1 : y.gt c.posMax = false := gt_false_of_signs y c.posMax (Or.inl hz) hpos
      have g2 : y.lt c.negMax = false := lt_false_of_signs y c.negMax (Or.inl hz) hneg
      simp only [g1, g2, Bool.or_self, Bool.false_eq_true, if_false]
      split
      · have g3 : ({ y with s := false } : RF).gt c.posMax = false := gt_false_of_signs _ c.posMax (Or.inl hz) hpos
        have g4 : ({ y with s := false } : RF).lt c.negMax = false := lt_false_of_signs _ c.negMax (Or.inl hz) hneg
        simp only [g3, g4, Bool.false_eq_true, if_false]
      · simp only [g1, g2, Bool.false_eq_true, if_false]
    · have hzf : (decide (y.c = 0) && y.s && !c.negZero) = false := by simp [hz]
      simp only [hzf, Bool.false_eq_true, if_false]
      by_cases h1 : y.gt c.posMax = true
      · simp only [h1, Bool.true_or, if_true]
        unfold mpbfixOverflow
        cases hov : c.ov <;> simp_all <;> rfl
      · by_cases h2 : y.lt c.negMax = true
        · simp only [h1, h2, Bool.or_true, if_true, Bool.false_eq_true, if_false]
          unfold mpbfixOverflow
          cases hov : c.ov <;> simp_all <;> rfl
        · simp only [h1, h2, Bool.or_self, Bool.false_eq_true, if_false]

/-- a bound on the grid of the fixed-point format -/
def BoundOkFix (nmin : Int) (b : RF) : Prop := b.c ≠ 0 ∧ nmin < b.exp

theorem round_shift_bound_fix (b : RF) (nmin : Int) (rm : RM) (k : Nat) (hb : BoundOkFix nmin b) :
    ∃ fl, (shiftRF b k).round none (some nmin) rm (some 0) 0 false = .ok (shiftRF b k, fl) := by
  obtain ⟨_, h3⟩ := hb
  unfold RF.round RF.roundParams
  simp only [if_true]
  unfold RF.roundAtCore
  have hexp : (shiftRF b k).exp = b.exp + k := rfl
  have hfast : (shiftRF b k).exp > nmin := by rw [hexp]; omega
  simp only [hfast, decide_true, Bool.and_self, if_true]
  exact ⟨_, rfl⟩

theorem probe_fixed_pos (c : MPBFixParams) (hk : c.k = some 0) (hw : c.ov ≠ .wrap) (k : Nat) (hk1 : 1 ≤ k)
    (hb : BoundOkFix c.nmin c.posMax) (hs : c.posMax.s = false) :
    probeFixed c false k = mpbfixOverflow c false false := by
  obtain ⟨fl, hr⟩ := round_shift_bound_fix c.posMax c.nmin c.rm k hb
  have hc : (shiftRF c.posMax k).c ≠ 0 := hb.1
  have hsx : (shiftRF c.posMax k).s = false := hs
  have hgt := shift_gt_self c.posMax k hk1 hb.1 hs
  unfold probeFixed mpbfixRoundAt fixedSpecial mpbfixOverflow
  simp only [Bool.false_eq_true, if_false, hc, hk, hr, hsx, hgt, if_true]
  cases hov : c.ov <;> simp_all <;> rfl

theorem probe_fixed_neg (c : MPBFixParams) (hk : c.k = some 0) (hw : c.ov ≠ .wrap) (k : Nat) (hk1 : 1 ≤ k)
    (hb : BoundOkFix c.nmin c.negMax) (hs : c.negMax.s = true) :
    probeFixed c true k = mpbfixOverflow c true true := by
  obtain ⟨fl, hr⟩ := round_shift_bound_fix c.negMax c.nmin c.rm k hb
  have hc : (shiftRF c.negMax k).c ≠ 0 := hb.1
  have hsx : (shiftRF c.negMax k).s = true := hs
  have hlt := shift_lt_self c.negMax k hk1 hb.1 hs
  unfold probeFixed mpbfixRoundAt fixedSpecial mpbfixOverflow
  simp only [if_true, hc, if_false, hk, hr, hsx, hlt, Bool.false_eq_true]
  cases hov : c.ov <;> simp_all <;> rfl

/-- **`unfold_overflow` on a bounded fixed-point format** (`MPBFixedContext`, hence `FixedContext` and
`SMFixedContext`) that does not wrap: the emitted block — round under `MPFixedContext(nmin, rm, …)` carrying the
source's NaN / infinity / signed-zero options, compare with the bounds, write the probed constant — returns the
value the source context returns (or raises the same error), for every finite non-zero operand. -/
theorem unfold_overflow_fixed (c : MPBFixParams) (hk : c.k = some 0) (hw : c.ov ≠ .wrap)
    (hpos : BoundOkFix c.nmin c.posMax) (hps : c.posMax.s = false)
    (hneg : BoundOkFix c.nmin c.negMax) (hns : c.negMax.s = true) (x : RF) (hx : x.c ≠ 0) :
    valOf (mpbfixRoundAt c (.fin x) none false 0) = unfoldOverflowFixed c x := by
  rw [mpbfix_unfold_arm c hw (Or.inr hps) (Or.inr hns) x hx]
  unfold unfoldOverflowFixed unfoldOverflowProg
  rw [probe_fixed_pos c hk hw 1 (Nat.le_refl _) hpos hps, probe_fixed_neg c hk hw 1 (Nat.le_refl _) hneg hns]
  unfold unboundedFixed Ctx.roundAtCore fixedSpecial
  simp only [hx, if_false]
  cases hr : x.round none (some c.nmin) c.rm c.k 0 false with
  | error e => rfl
  | ok yf =>
    obtain ⟨y, fl⟩ := yf
    have hys : y.s = x.s := by
      rw [hk] at hr
      exact round_fixed_sign x c.nmin c.rm hx y fl hr
    simp only
    -- the value the unbounded context hands to the comparison
    have key : ∀ t : RF, t.s = x.s ∨ t.c = 0 →
        valOf (if t.gt c.posMax then mpbfixOverflow c x.s t.s
               else if t.lt c.negMax then mpbfixOverflow c x.s t.s else .ok ⟨.fin t, fl⟩) =
        (if t.gt c.posMax then valOf (mpbfixOverflow c false false)
         else if t.lt c.negMax then valOf (mpbfixOverflow c true true) else .ok (.fin t)) := by
      intro t ht
      by_cases h1 : t.gt c.posMax = true
      · have hts : t.s = false := by
          cases h : t.s
          · rfl
          · have := gt_false_of_signs t c.posMax (Or.inr h) (Or.inr hps); rw [this] at h1; cases h1
        have htc : t.c ≠ 0 := by
          intro h0; have := gt_false_of_signs t c.posMax (Or.inl h0) (Or.inr hps); rw [this] at h1; cases h1
        have hxs : x.s = false := by rcases ht with h | h; rw [← h]; exact hts; exact absurd h htc
        simp only [h1, if_true, hts, hxs]
      · by_cases h2 : t.lt c.negMax = true
        · have hts : t.s = true := by
            cases h : t.s
            · have := lt_false_of_signs t c.negMax (Or.inr h) (Or.inr hns); rw [this] at h2; cases h2
            · rfl
          have htc : t.c ≠ 0 := by
            intro h0; have := lt_false_of_signs t c.negMax (Or.inl h0) (Or.inr hns); rw [this] at h2; cases h2
          have hxs : x.s = true := by rcases ht with h | h; rw [← h]; exact hts; exact absurd h htc
          simp only [h1, h2, if_true, Bool.false_eq_true, if_false, hts, hxs]
        · simp only [h1, h2, Bool.false_eq_true, if_false]; rfl
    by_cases hz : (decide (y.c = 0) && y.s && !c.negZero) = true
    · have hzc : y.c = 0 := by simp at hz; exact hz.1.1
      simp only [hz, if_true]
      exact key { y with s := false } (Or.inr hzc)
    · simp only [hz, Bool.false_eq_true, if_false]
      exact key y (Or.inl hys)

theorem withSign_self (x : RF) (s : Bool) (h : x.s = s) : ({ x with s := s } : RF) = x := by
  cases x; simp_all

/-! ### `unfold_neg_zero` -/

/-- `if t == 0: copysign(t, x) else t` on a result -/
def fixZero (x : FV) (r : Res) : Res := if r.v.isZero then { r with v := copysignFV r.v x } else r

/-- the negative end of the range is a non-zero value, or no overflow lands on it (`ASSERT` raises; `OVERFLOW`
with a direction that rounds a negative overflow away from zero goes to the infinity rule) -/
def NegEndOk (c : MPBFixParams) : Prop :=
  c.negMax.c ≠ 0 ∨ c.ov = .assert ∨ (c.ov = .overflow ∧ overflowToInfinity c.rm true = true)

/-- the sign restoration leaves every overflow outcome alone (substitutes are not zeros, a negative overflow never
lands on a zero range end, a zero positive bound is `+0` and the operand is positive) -/
theorem fixZero_overflow (c : MPBFixParams) (hsub : subsNotZero c.o = true)
    (hns : c.negMax.c = 0 ∨ c.negMax.s = true) (hend : NegEndOk c)
    (hps : c.posMax.s = false) (e : Int) (m : Nat) (s : Bool) (r : Res)
    (h : mpbfixOverflow c s s = .ok r) : fixZero (.fin ⟨s, e, m⟩) r = r := by
  unfold subsNotZero at hsub
  unfold mpbfixOverflow at h
  have hre : ∀ r', (s = true → c.negMax.c ≠ 0) → c.rangeEnd s = r' → fixZero (.fin ⟨s, e, m⟩) (setOvf r') = setOvf r' := by
    intro r' hnz hr'
    unfold MPBFixParams.rangeEnd at hr'
    cases s
    · simp at hr'; subst hr'
      unfold fixZero setOvf copysignFV FV.withSign FV.sign FV.isZero
      simp only
      split
      · have : ({ c.posMax with s := false } : RF) = c.posMax := withSign_self _ _ hps
        simp [this]
      · rfl
    · have hc := hnz rfl
      have hs : c.negMax.s = true := by rcases hns with h | h; exact absurd h hc; exact h
      simp [hc, hs] at hr'; subst hr'
      unfold fixZero setOvf FV.isZero
      simp [hc]
  cases hov : c.ov with
  | overflow =>
    rw [hov] at h
    simp only at h
    split at h
    · split at h
      · injection h with h; subst h; simp [fixZero, setOvf, FV.isZero]
      · rename_i hen
        cases hn : c.o.infValue with
        | none => rw [hn] at h; cases h
        | some w =>
          rw [hn] at h
          injection h with h; subst h
          have : w.isZero = false := by simp [hen, hn] at hsub; exact hsub.2
          simp [fixZero, setOvf, this]
    · rename_i hti
      injection h with h; subst h
      refine hre _ ?_ rfl
      intro hs
      rcases hend with h1 | h1 | h1
      · exact h1
      · rw [hov] at h1; cases h1
      · rw [hs] at hti; exact absurd h1.2 hti
  | saturate =>
    rw [hov] at h
    injection h with h; subst h
    refine hre _ ?_ rfl
    intro _
    rcases hend with h1 | h1 | h1
    · exact h1
    · rw [hov] at h1; cases h1
    · rw [hov] at h1; cases h1.1
  | assert => rw [hov] at h; cases h
  | wrap => rw [hov] at h; cases h

/-- **`unfold_neg_zero`**: for a bounded fixed-point context that keeps a signed zero, does not wrap, whose
consulted substitutes are not zeros, whose negative bound is not positive and is not a zero a negative overflow can
land on (`NegEndOk`), and whose positive bound is not negative — and for *every* operand (finite, zero, infinite,
NaN): rounding without the signed zero and then giving a zero result the operand's sign is the original rounding:
same value, same flags, same errors. -/
theorem neg_zero_unfold (c : MPBFixParams) (hk : c.k = some 0) (hnz : c.negZero = true) (hw : c.ov ≠ .wrap)
    (hsub : subsNotZero c.o = true) (hns : c.negMax.c = 0 ∨ c.negMax.s = true) (hend : NegEndOk c)
    (hps : c.posMax.s = false) (v : FV) :
    mpbfixRoundAt c v none false 0 =
      (match mpbfixRoundAt { c with negZero := false } v none false 0 with
       | .error e => .error e
       | .ok r => .ok (fixZero v r)) := by
  have hsub' := hsub
  unfold subsNotZero at hsub'
  cases v with
  | nan s =>
    unfold mpbfixRoundAt fixedSpecial
    simp only
    by_cases hen : c.o.enableNan = true
    · simp [hen, fixZero, FV.isZero]
    · cases hn : c.o.nanValue with
      | none => simp [hen]
      | some w =>
        have : w.isZero = false := by simp [hen, hn] at hsub'; exact hsub'.1
        simp [hen, fixZero, this]
  | inf s =>
    unfold mpbfixRoundAt fixedSpecial
    simp only
    by_cases hen : c.o.enableInf = true
    · simp [hen, fixZero, FV.isZero]
    · cases hn : c.o.infValue with
      | none => simp [hen]
      | some w =>
        have : w.isZero = false := by simp [hen, hn] at hsub'; exact hsub'.2
        simp [hen, fixZero, this]
  | fin x =>
    by_cases hc : x.c = 0
    · unfold mpbfixRoundAt fixedSpecial
      simp [hc, hnz, fixZero, FV.isZero, copysignFV, FV.withSign, FV.sign]
    · have hposS : c.posMax.c = 0 ∨ c.posMax.s = false := Or.inr hps
      have hnegS : c.negMax.c = 0 ∨ c.negMax.s = true := hns
      rw [mpbfix_unfold_arm c hw hposS hnegS x hc,
          mpbfix_unfold_arm { c with negZero := false } hw hposS hnegS x hc]
      unfold unboundedFixed Ctx.roundAtCore fixedSpecial
      simp only [hc, if_false, hk, hnz]
      cases hr : x.round none (some c.nmin) c.rm (some 0) 0 false with
      | error e => rfl
      | ok yf =>
        obtain ⟨y, fl⟩ := yf
        have hys : y.s = x.s := round_fixed_sign x c.nmin c.rm hc y fl hr
        simp only [Bool.not_true, Bool.and_false, Bool.false_eq_true, if_false, Bool.not_false, Bool.and_true]
        by_cases hz : y.c = 0
        · have g1 : ∀ t : RF, t.c = 0 → t.gt c.posMax = false := fun t ht => gt_false_of_signs t c.posMax (Or.inl ht) hposS
          have g2 : ∀ t : RF, t.c = 0 → t.lt c.negMax = false := fun t ht => lt_false_of_signs t c.negMax (Or.inl ht) hnegS
          have g3 := g1 y hz
          have g4 := g2 y hz
          have g5 := g1 { y with s := false } hz
          have g6 := g2 { y with s := false } hz
          cases y with
          | mk ys ye yc =>
            simp only at hz hys g3 g4 g5 g6
            subst hz; subst hys
            cases hxs : x.s <;> rw [hxs] at g3 g4 <;>
              simp [hxs, g3, g4, g5, g6, fixZero, FV.isZero, copysignFV, FV.withSign, FV.sign]
        · have e1 : (decide (y.c = 0) && y.s) = false := by simp [hz]
          simp only [e1, Bool.false_eq_true, if_false]
          have harm : ∀ kk : Option Nat, mpbfixOverflow { c with negZero := false, k := kk } x.s y.s = mpbfixOverflow c x.s y.s :=
            fun _ => rfl
          simp only [harm]
          rw [hys]
          have hfix : ∀ r, mpbfixOverflow c x.s x.s = .ok r → fixZero (.fin x) r = r := by
            intro r hr'
            have := fixZero_overflow c hsub hns hend hps x.exp x.c x.s r hr'
            exact this
          by_cases h1 : y.gt c.posMax = true
          · simp only [h1, if_true]
            cases ho : mpbfixOverflow c x.s x.s with
            | error e => rfl
            | ok r => simp only; rw [hfix r ho]
          · by_cases h2 : y.lt c.negMax = true
            · simp only [h1, h2, if_true, Bool.false_eq_true, if_false]
              cases ho : mpbfixOverflow c x.s x.s with
              | error e => rfl
              | ok r => simp only; rw [hfix r ho]
            · simp only [h1, h2, Bool.false_eq_true, if_false, fixZero, FV.isZero]
              simp [hz]

end Fpy.C10
