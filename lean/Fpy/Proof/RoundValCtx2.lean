/-
Part 6 of the value-level helpers for C01: membership of the results of each context family.
-/
import Fpy.Proof.RoundValCtx
namespace Fpy.C01v
open Fpy Fpy.Spec

theorem lt_iff_val (x y : RF) : x.lt y = true ↔ x.val < y.val := by
  unfold RF.lt; rw [← Props.C05.compare_lt_iff]; simp

theorem gt_iff_val (x y : RF) : x.gt y = true ↔ y.val < x.val := by
  unfold RF.gt; rw [← Props.C05.compare_gt_iff]; simp

theorem val_nonpos_of_neg (y : RF) (h : y.s = true) : y.val ≤ 0 := by
  apply Rat.not_lt.1
  intro h'
  have := (RF.val_pos_iff y).1 h'
  rw [h] at this; exact absurd this.1 (by decide)

theorem val_nonneg_of_pos (y : RF) (h : y.s = false) : 0 ≤ y.val := by
  apply Rat.not_lt.1
  intro h'
  have := (RF.val_neg_iff y).1 h'
  rw [h] at this; exact absurd this.1 (by decide)

theorem repFloatSub_zero (p : Nat) (nmin : Int) : RepFloatSub p nmin 0 := ⟨Or.inl rfl, onGrid_zero _⟩

/-- special operands in the float families -/
theorem floatSpecial_mem (C : Ctx) (o : Opts) (hI : hasInf C = o.enableInf) (hN : hasNan C = o.enableNan)
    (hi : infSub C = o.infValue) (hn : nanSub C = o.nanValue) (v : FV) (e : Except Err Res)
    (h : floatSpecial o v = some e) (res : Res) (he : e = .ok res) :
    CtxMember C res.v ∨ CtxSubstitute C res.v := by
  subst he
  cases v with
  | fin x => simp [floatSpecial] at h
  | nan s =>
    simp only [floatSpecial, Option.some.injEq] at h
    by_cases hen : o.enableNan = true
    · simp only [hen, if_true, Except.ok.injEq] at h
      left; rw [← h]; simp only [CtxMember]; rw [hN]; exact hen
    · simp only [hen] at h
      cases hv : o.nanValue with
      | none => rw [hv] at h; simp at h
      | some w =>
        rw [hv] at h; simp only [Bool.false_eq_true, if_false, Except.ok.injEq] at h
        right; right
        refine ⟨by rw [hN]; simpa using hen, w, by rw [hn, hv], Or.inl (by rw [← h])⟩
  | inf s =>
    simp only [floatSpecial, Option.some.injEq] at h
    by_cases hen : o.enableInf = true
    · simp only [hen, if_true, Except.ok.injEq] at h
      left; rw [← h]; simp only [CtxMember]; rw [hI]; exact hen
    · simp only [hen] at h
      cases hv : o.infValue with
      | none => rw [hv] at h; simp at h
      | some w =>
        rw [hv] at h; simp only [Bool.false_eq_true, if_false, Except.ok.injEq] at h
        right; left
        refine ⟨by rw [hI]; simpa using hen, w, by rw [hi, hv], Or.inr ⟨s, by rw [← h]⟩⟩

/-- special operands in the fixed families -/
theorem fixedSpecial_mem (C : Ctx) (o : Opts) (hI : hasInf C = o.enableInf) (hN : hasNan C = o.enableNan)
    (hi : infSub C = o.infValue) (hn : nanSub C = o.nanValue) (v : FV) (e : Except Err Res)
    (h : fixedSpecial o v = some e) (res : Res) (he : e = .ok res) :
    CtxMember C res.v ∨ CtxSubstitute C res.v := by
  subst he
  cases v with
  | fin x => simp [fixedSpecial] at h
  | nan s =>
    simp only [fixedSpecial, Option.some.injEq] at h
    by_cases hen : o.enableNan = true
    · simp only [hen, if_true, Except.ok.injEq] at h
      left; rw [← h]; simp only [CtxMember]; rw [hN]; exact hen
    · simp only [hen] at h
      cases hv : o.nanValue with
      | none => rw [hv] at h; simp at h
      | some w =>
        rw [hv] at h; simp only [Bool.false_eq_true, if_false, Except.ok.injEq] at h
        right; right
        refine ⟨by rw [hN]; simpa using hen, w, by rw [hn, hv], Or.inl (by rw [← h])⟩
  | inf s =>
    simp only [fixedSpecial, Option.some.injEq] at h
    by_cases hen : o.enableInf = true
    · simp only [hen, if_true, Except.ok.injEq] at h
      left; rw [← h]; simp only [CtxMember]; rw [hI]; exact hen
    · simp only [hen] at h
      cases hv : o.infValue with
      | none => rw [hv] at h; simp at h
      | some w =>
        rw [hv] at h; simp only [Bool.false_eq_true, if_false, Except.ok.injEq] at h
        right; left
        refine ⟨by rw [hI]; simpa using hen, w, by rw [hi, hv], Or.inl (by rw [← h])⟩

/-- `MPFloatContext` -/
theorem mp_round_mem (p : Nat) (rm : RM) (k : Option Nat) (o : Opts) (hp : 1 ≤ p) (v : FV) (r : Nat) (res : Res)
    (h : (Ctx.mp p rm k o).roundAtCore v none false r = .ok res) :
    CtxMember (.mp p rm k o) res.v ∨ CtxSubstitute (.mp p rm k o) res.v := by
  unfold Ctx.roundAtCore at h
  simp only at h
  cases hsp : floatSpecial o v with
  | some e =>
    rw [hsp] at h
    exact floatSpecial_mem (.mp p rm k o) o rfl rfl rfl rfl v e hsp res h
  | none =>
    rw [hsp] at h
    cases v with
    | nan s => simp [floatSpecial] at hsp
    | inf s => simp [floatSpecial] at hsp
    | fin x =>
      simp only at h
      by_cases hc : x.c = 0
      · simp only [hc, if_true, Except.ok.injEq] at h
        left; rw [← h]
        exact ⟨by simp only [CtxFinMember]; rw [RF.val_mk_zero]; exact Or.inl rfl, fun _ _ => rfl⟩
      · simp only [hc, if_false] at h
        cases hr : x.round (some p) none rm k r false with
        | error e => rw [hr] at h; cases h
        | ok yf =>
          obtain ⟨y, fl⟩ := yf
          rw [hr] at h; simp only [Except.ok.injEq] at h
          obtain ⟨-, hbl, -⟩ := float_round_any x p none rm k r y fl hc hp hr
          left; rw [← h]
          exact ⟨repFloat_of_bitLength y p hbl, fun _ _ => rfl⟩

/-- `MPSFloatContext` -/
theorem mps_round_mem (p : Nat) (emin : Int) (rm : RM) (k : Option Nat) (o : Opts) (hp : 1 ≤ p) (v : FV) (r : Nat)
    (res : Res) (h : (Ctx.mps p emin rm k o).roundAtCore v none false r = .ok res) :
    CtxMember (.mps p emin rm k o) res.v ∨ CtxSubstitute (.mps p emin rm k o) res.v := by
  unfold Ctx.roundAtCore at h
  simp only at h
  cases hsp : floatSpecial o v with
  | some e =>
    rw [hsp] at h
    exact floatSpecial_mem (.mps p emin rm k o) o rfl rfl rfl rfl v e hsp res h
  | none =>
    rw [hsp] at h
    cases v with
    | nan s => simp [floatSpecial] at hsp
    | inf s => simp [floatSpecial] at hsp
    | fin x =>
      simp only at h
      by_cases hc : x.c = 0
      · simp only [hc, if_true, Except.ok.injEq] at h
        left; rw [← h]
        exact ⟨by simp only [CtxFinMember]; rw [RF.val_mk_zero]; exact repFloatSub_zero _ _, fun _ _ => rfl⟩
      · simp only [hc, if_false] at h
        cases hr : x.round (some p) (some (emin - p)) rm k r false with
        | error e => rw [hr] at h; cases h
        | ok yf =>
          obtain ⟨y, fl⟩ := yf
          rw [hr] at h; simp only [Except.ok.injEq] at h
          obtain ⟨-, hbl, hexp, -⟩ := float_round_any x p (some (emin - p)) rm k r y fl hc hp hr
          have := floatN_ge_nmin x p (emin - p)
          left; rw [← h]
          exact ⟨repFloatSub_of_shape y p (emin - p) hbl (by omega), fun _ _ => rfl⟩

/-- `MPFixedContext` -/
theorem mpfix_round_mem (nmin : Int) (rm : RM) (k : Option Nat) (nz : Bool) (o : Opts) (v : FV) (r : Nat)
    (res : Res) (h : (Ctx.mpfix nmin rm k nz o).roundAtCore v none false r = .ok res) :
    CtxMember (.mpfix nmin rm k nz o) res.v ∨ CtxSubstitute (.mpfix nmin rm k nz o) res.v := by
  unfold Ctx.roundAtCore at h
  simp only at h
  cases hsp : fixedSpecial o v with
  | some e =>
    rw [hsp] at h
    exact fixedSpecial_mem (.mpfix nmin rm k nz o) o rfl rfl rfl rfl v e hsp res h
  | none =>
    rw [hsp] at h
    cases v with
    | nan s => simp [fixedSpecial] at hsp
    | inf s => simp [fixedSpecial] at hsp
    | fin x =>
      simp only at h
      by_cases hc : x.c = 0
      · simp only [hc, if_true, Except.ok.injEq] at h
        left; rw [← h]
        refine ⟨by simp only [CtxFinMember]; rw [RF.val_mk_zero]; exact onGrid_zero _, ?_⟩
        intro _ hs; simp only [Bool.and_eq_true] at hs; exact hs.2
      · simp only [hc, if_false] at h
        cases hr : x.round none (some nmin) rm k r false with
        | error e => rw [hr] at h; cases h
        | ok yf =>
          obtain ⟨y, fl⟩ := yf
          rw [hr] at h; simp only at h
          obtain ⟨-, hexp, -⟩ := fixed_round_any x nmin rm k r y fl hr
          have hg : OnGrid (nmin + 1) y.val := onGrid_of_le_exp y (nmin + 1) (by omega)
          left
          by_cases hz : (y.c = 0 && y.s && !nz) = true
          · simp only [hz, if_true, Except.ok.injEq] at h
            rw [← h]
            simp only [Bool.and_eq_true, decide_eq_true_eq] at hz
            refine ⟨?_, fun _ hs => by simp at hs⟩
            simp only [CtxFinMember, RepFixed]; rw [RF.val_zero_c (by exact hz.1.1)]; exact onGrid_zero _
          · simp only [hz, Bool.false_eq_true, if_false, Except.ok.injEq] at h
            rw [← h]
            refine ⟨hg, ?_⟩
            intro h1 h2
            simp only [hasNegZero]
            cases hnz : nz with
            | true => rfl
            | false => exact absurd (by simp [h1, h2, hnz]) hz

end Fpy.C01v
