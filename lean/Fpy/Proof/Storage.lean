/-
Helper lemmas for C11: the abstract format of a ladder rung denotes values of the machine type
(`γ (ladderFmt T) ⊆ values T`), in scaled integers.
-/
import Fpy.Model.Storage
import Fpy.Proof.AbsFmtSound
namespace Fpy.C11
open Fpy RF AbsFmt

/-! ### `denotes` at an arbitrary common scale -/

theorem denotes_of_scale (x : RF) (m : Nat) (e g : Int) (hg1 : g ≤ x.exp) (hg2 : g ≤ e)
    (h : x.c * 2 ^ (x.exp - g).toNat = m * 2 ^ (e - g).toNat) : denotes x m e := by
  unfold denotes
  have h1 : (x.exp - g).toNat = (x.exp - min x.exp e).toNat + (min x.exp e - g).toNat := by omega
  have h2 : (e - g).toNat = (e - min x.exp e).toNat + (min x.exp e - g).toNat := by omega
  rw [h1, h2, Nat.pow_add, Nat.pow_add, ← Nat.mul_assoc, ← Nat.mul_assoc] at h
  exact Nat.eq_of_mul_eq_mul_right (Nat.pow_pos (by decide)) h

theorem scale_of_denotes (x : RF) (m : Nat) (e g : Int) (hg1 : g ≤ x.exp) (hg2 : g ≤ e)
    (h : denotes x m e) : x.c * 2 ^ (x.exp - g).toNat = m * 2 ^ (e - g).toNat := by
  unfold denotes at h
  have h1 : (x.exp - g).toNat = (x.exp - min x.exp e).toNat + (min x.exp e - g).toNat := by omega
  have h2 : (e - g).toNat = (e - min x.exp e).toNat + (min x.exp e - g).toNat := by omega
  rw [h1, h2, Nat.pow_add, Nat.pow_add, ← Nat.mul_assoc, ← Nat.mul_assoc, h]

/-! ### integer rungs -/

theorem two_pow_ge_one (n : Nat) : (1 : Int) ≤ 2 ^ n := by
  have := RF.pw_pos n; omega

/-- a member of `A(inf, 0, hi, lo)` (no special values, no `-0`) with `lo ≤ 0 ≤ hi` is an integer of `[lo, hi]` -/
theorem gamma_int (a : AbsFmt) (P N : Nat) (sN : Bool)
    (ha : a = { prec := none, exp := some 0, pos := .fin ⟨false, 0, P⟩, neg := .fin ⟨sN, 0, N⟩ })
    (hsN : sN = false → N = 0)
    (v : FV) (hv : γ a v) : intValues (if sN then -(N : Int) else 0) P v := by
  subst ha
  cases v with
  | nan s => simp [γ] at hv
  | inf s => cases s <;> simp [γ] at hv
  | fin x =>
    simp only [γ] at hv
    unfold intValues
    by_cases hc : x.c = 0
    · have hz := (finMem_zero _ x hc).1 hv
      have hs : x.s = false := by cases h : x.s <;> simp_all
      refine ⟨fun _ => hs, 0, ?_, ?_, ?_⟩
      · unfold denotes; simp [hc]
      · simp [hs]; cases sN <;> simp <;> omega
      · simp [hs]
    · refine ⟨fun h => absurd h hc, ?_⟩
      have hg : min x.exp 0 ≤ x.exp := by omega
      have hm := (finMem_iff _ x (min x.exp 0) hc hg (Bnd.okAt_of_le_lvl _ _ (by show min x.exp 0 ≤ (0 : Int); omega))
        (Bnd.okAt_of_le_lvl _ _ (by show min x.exp 0 ≤ (0 : Int); omega))).1 hv
      obtain ⟨hw, hlb, hub⟩ := hm
      obtain ⟨k, hk⟩ := IW_IMul hw (by omega)
      have hU : (0 : Int) < 2 ^ (0 - min x.exp 0).toNat := RF.pw_pos _
      generalize hUdef : (2 : Int) ^ (0 - min x.exp 0).toNat = U at hk hU
      have hUnat : ((2 ^ (0 - min x.exp 0).toNat : Nat) : Int) = U := by rw [← hUdef]; simp [Int.natCast_pow]
      -- bounds on k
      have hP : (⟨false, 0, P⟩ : RF).sc (min x.exp 0) = (P : Int) * U := by
        rw [← hUdef]; simp [RF.sc]
      have hN : (⟨sN, 0, N⟩ : RF).sc (min x.exp 0) = (if sN then -(N : Int) else 0) * U := by
        rw [← hUdef]
        cases sN with
        | true => simp [RF.sc, Int.neg_mul]
        | false => simp [RF.sc, hsN rfl]
      have hub' : k ≤ P := by
        have : k * U ≤ (P : Int) * U := by rw [← hk, ← hP]; exact hub
        exact Int.le_of_mul_le_mul_right this hU
      have hlb' : (if sN then -(N : Int) else 0) ≤ k := by
        have : (if sN then -(N : Int) else 0) * U ≤ k * U := by rw [← hk, ← hN]; exact hlb
        exact Int.le_of_mul_le_mul_right this hU
      -- the magnitude
      have hmag : x.c * 2 ^ (x.exp - min x.exp 0).toNat = k.natAbs * 2 ^ (0 - min x.exp 0).toNat := by
        have h1 := natAbs_sc x (min x.exp 0)
        rw [hk] at h1
        unfold RF.mag at h1
        rw [← h1, Int.natAbs_mul, ← hUnat, Int.natAbs_natCast]
      -- the sign
      have hsign : (if x.s then -(k.natAbs : Int) else (k.natAbs : Int)) = k := by
        cases hs : x.s with
        | true =>
          have := RF.sc_neg x (min x.exp 0) hc hs
          rw [hk] at this
          have hk0 : k < 0 := by
            rcases Int.lt_or_le k 0 with h | h
            · exact h
            · have := Int.mul_nonneg h (Int.le_of_lt hU); omega
          simp; omega
        | false =>
          have := RF.sc_pos x (min x.exp 0) hc hs
          rw [hk] at this
          have hk0 : 0 < k := by
            rcases Int.lt_or_le 0 k with h | h
            · exact h
            · have := Int.mul_nonneg (show (0 : Int) ≤ -k by omega) (Int.le_of_lt hU)
              rw [Int.neg_mul] at this; omega
          simp; omega
      refine ⟨k.natAbs, ?_, ?_, ?_⟩
      · unfold denotes; exact hmag
      · rw [hsign]; exact hlb'
      · rw [hsign]; exact hub'


/-! ### floating-point rungs -/

/-- a member of `A(p, E, ±(2^p-1)·2^Q)` is `±m·2^e` with `m < 2^p`, `E ≤ e ≤ Q`, a zero, an infinity or a NaN -/
theorem gamma_ieee (p : Nat) (E Q : Int) (hEQ : E ≤ Q) (v : FV) (hv : γ (ieeeFmt p E Q) v) : floatValues p E Q v := by
  cases v with
  | nan s => trivial
  | inf s => trivial
  | fin x =>
    simp only [γ] at hv
    unfold floatValues
    by_cases hc : x.c = 0
    · exact Or.inl hc
    · right
      have hg : min x.exp E ≤ x.exp := by omega
      have hm := (finMem_iff _ x (min x.exp E) hc hg (Bnd.okAt_of_le_lvl _ _ (by show min x.exp E ≤ Q; omega))
        (Bnd.okAt_of_le_lvl _ _ (by show min x.exp E ≤ Q; omega))).1 hv
      obtain ⟨hw, hlb, hub⟩ := hm
      obtain ⟨m, e, hge, hmX, hmp, hEe⟩ := hw
      have hmp := hmp p rfl
      have hEe := hEe E rfl
      rw [natAbs_sc] at hmX
      unfold RF.mag at hmX
      by_cases heQ : e ≤ Q
      · exact ⟨m, e, hmp, hEe, heQ, denotes_of_scale x m e _ hg hge hmX⟩
      · -- the witness sits above the largest quantum: fold the excess into the significand
        have hsplit : (e - min x.exp E).toNat = (e - Q).toNat + (Q - min x.exp E).toNat := by omega
        rw [hsplit, Nat.pow_add, ← Nat.mul_assoc] at hmX
        have hP : (⟨false, Q, 2 ^ p - 1⟩ : RF).sc (min x.exp E) = ((2 ^ p - 1 : Nat) : Int) * 2 ^ (Q - min x.exp E).toNat := by
          simp [RF.sc]
        have hNg : (⟨true, Q, 2 ^ p - 1⟩ : RF).sc (min x.exp E) = -(((2 ^ p - 1 : Nat) : Int) * 2 ^ (Q - min x.exp E).toNat) := by
          simp [RF.sc]
        have hub' : x.sc (min x.exp E) ≤ ((2 ^ p - 1 : Nat) : Int) * 2 ^ (Q - min x.exp E).toNat := by rw [← hP]; exact hub
        have hlb' : -(((2 ^ p - 1 : Nat) : Int) * 2 ^ (Q - min x.exp E).toNat) ≤ x.sc (min x.exp E) := by rw [← hNg]; exact hlb
        have habs : (x.sc (min x.exp E)).natAbs ≤ (2 ^ p - 1) * 2 ^ (Q - min x.exp E).toNat := by
          have : (((2 ^ p - 1) * 2 ^ (Q - min x.exp E).toNat : Nat) : Int) = ((2 ^ p - 1 : Nat) : Int) * 2 ^ (Q - min x.exp E).toNat := by
            simp [Int.natCast_mul, Int.natCast_pow]
          omega
        rw [natAbs_sc] at habs
        unfold RF.mag at habs
        rw [hmX] at habs
        have hle : m * 2 ^ (e - Q).toNat ≤ 2 ^ p - 1 := Nat.le_of_mul_le_mul_right habs (Nat.pow_pos (by decide))
        have hpos : 0 < 2 ^ p := Nat.pow_pos (by decide)
        refine ⟨m * 2 ^ (e - Q).toNat, Q, by omega, hEQ, Int.le_refl _, ?_⟩
        exact denotes_of_scale x _ Q _ hg (by omega) hmX


/-! ### the converse: every value of the machine type is a member of the rung's format -/

theorem int_gamma (a : AbsFmt) (P N : Nat) (sN : Bool)
    (ha : a = { prec := none, exp := some 0, pos := .fin ⟨false, 0, P⟩, neg := .fin ⟨sN, 0, N⟩ })
    (hsN : sN = false → N = 0)
    (v : FV) (hv : intValues (if sN then -(N : Int) else 0) P v) : γ a v := by
  subst ha
  cases v with
  | nan s => exact absurd hv (by simp [intValues])
  | inf s => exact absurd hv (by simp [intValues])
  | fin x =>
    unfold intValues at hv
    obtain ⟨hz, m, hd, hlo, hhi⟩ := hv
    simp only [γ]
    by_cases hc : x.c = 0
    · rw [finMem_zero _ x hc]; intro h; rw [hz hc] at h; cases h
    · have hg : min x.exp 0 ≤ x.exp := by omega
      rw [finMem_iff _ x (min x.exp 0) hc hg (Bnd.okAt_of_le_lvl _ _ (by show min x.exp 0 ≤ (0 : Int); omega))
        (Bnd.okAt_of_le_lvl _ _ (by show min x.exp 0 ≤ (0 : Int); omega))]
      unfold denotes at hd
      have hU : (0 : Int) < 2 ^ (0 - min x.exp 0).toNat := RF.pw_pos _
      have hX : x.sc (min x.exp 0) = (if x.s then -(m : Int) else (m : Int)) * 2 ^ (0 - min x.exp 0).toNat := by
        rw [sc_eq_mag]; unfold RF.mag; rw [hd]
        cases x.s <;> simp [Int.natCast_mul, Int.natCast_pow, Int.neg_mul]
      generalize hUdef : (2 : Int) ^ (0 - min x.exp 0).toNat = U at hX hU
      have hP : (⟨false, 0, P⟩ : RF).sc (min x.exp 0) = (P : Int) * U := by
        rw [← hUdef]; simp [RF.sc]
      have hN : (⟨sN, 0, N⟩ : RF).sc (min x.exp 0) = (if sN then -(N : Int) else 0) * U := by
        rw [← hUdef]
        cases sN with
        | true => simp [RF.sc, Int.neg_mul]
        | false => simp [RF.sc, hsN rfl]
      refine ⟨⟨m, 0, by omega, ?_, nofun, fun E h => by cases h; exact Int.le_refl _⟩, ?_, ?_⟩
      · rw [natAbs_sc]; unfold RF.mag; exact hd
      · show (⟨sN, 0, N⟩ : RF).sc (min x.exp 0) ≤ x.sc (min x.exp 0)
        rw [hN, hX]; exact Int.mul_le_mul_of_nonneg_right hlo (Int.le_of_lt hU)
      · show x.sc (min x.exp 0) ≤ (⟨false, 0, P⟩ : RF).sc (min x.exp 0)
        rw [hP, hX]; exact Int.mul_le_mul_of_nonneg_right hhi (Int.le_of_lt hU)

theorem ieee_gamma (p : Nat) (E Q : Int) (hEQ : E ≤ Q) (v : FV) (hv : floatValues p E Q v) : γ (ieeeFmt p E Q) v := by
  cases v with
  | nan s => rfl
  | inf s => cases s <;> rfl
  | fin x =>
    unfold floatValues at hv
    simp only [γ]
    by_cases hc : x.c = 0
    · rw [finMem_zero _ x hc]; intro _; rfl
    · rcases hv with h | ⟨m, e, hmp, hEe, heQ, hd⟩
      · exact absurd h hc
      · have hg : min x.exp E ≤ x.exp := by omega
        rw [finMem_iff _ x (min x.exp E) hc hg (Bnd.okAt_of_le_lvl _ _ (by show min x.exp E ≤ Q; omega))
          (Bnd.okAt_of_le_lvl _ _ (by show min x.exp E ≤ Q; omega))]
        have hsc := scale_of_denotes x m e (min x.exp E) hg (by omega) hd
        have hmagle : x.mag (min x.exp E) ≤ (2 ^ p - 1) * 2 ^ (Q - min x.exp E).toNat := by
          unfold RF.mag; rw [hsc]
          have hsplit : (Q - min x.exp E).toNat = (Q - e).toNat + (e - min x.exp E).toNat := by omega
          rw [hsplit, Nat.pow_add, ← Nat.mul_assoc]
          apply Nat.mul_le_mul_right
          have h1 : m ≤ 2 ^ p - 1 := by omega
          have h2 : 0 < 2 ^ (Q - e).toNat := Nat.pow_pos (by decide)
          calc m ≤ 2 ^ p - 1 := h1
            _ ≤ (2 ^ p - 1) * 2 ^ (Q - e).toNat := Nat.le_mul_of_pos_right _ h2
        have hP : (⟨false, Q, 2 ^ p - 1⟩ : RF).sc (min x.exp E) = ((2 ^ p - 1 : Nat) : Int) * 2 ^ (Q - min x.exp E).toNat := by
          simp [RF.sc]
        have hNg : (⟨true, Q, 2 ^ p - 1⟩ : RF).sc (min x.exp E) = -(((2 ^ p - 1 : Nat) : Int) * 2 ^ (Q - min x.exp E).toNat) := by
          simp [RF.sc]
        have hcast : (((2 ^ p - 1) * 2 ^ (Q - min x.exp E).toNat : Nat) : Int) = ((2 ^ p - 1 : Nat) : Int) * 2 ^ (Q - min x.exp E).toNat := by
          simp [Int.natCast_mul, Int.natCast_pow]
        have hXabs : (x.sc (min x.exp E)).natAbs = x.mag (min x.exp E) := natAbs_sc x _
        refine ⟨⟨m, e, by omega, ?_, fun q hq => by cases hq; exact hmp, fun E' h => by cases h; exact hEe⟩, ?_, ?_⟩
        · rw [natAbs_sc]; unfold RF.mag; exact hsc
        · show (⟨true, Q, 2 ^ p - 1⟩ : RF).sc (min x.exp E) ≤ x.sc (min x.exp E)
          rw [hNg]; omega
        · show x.sc (min x.exp E) ≤ (⟨false, Q, 2 ^ p - 1⟩ : RF).sc (min x.exp E)
          rw [hP]; omega

/-! ### per rung -/

theorem uintFmt_wf (n : Nat) : (uintFmt n).WF :=
  ⟨Or.inr ⟨_, rfl, Or.inr rfl⟩, Or.inr ⟨_, rfl, Or.inl rfl⟩, by simp [uintFmt]⟩
theorem sintFmt_wf (n : Nat) : (sintFmt n).WF :=
  ⟨Or.inr ⟨_, rfl, Or.inr rfl⟩, Or.inr ⟨_, rfl, Or.inr rfl⟩, by simp [sintFmt]⟩
theorem ieeeFmt_wf (p : Nat) (hp : p ≠ 0) (E Q : Int) : (ieeeFmt p E Q).WF :=
  ⟨Or.inr ⟨_, rfl, Or.inr rfl⟩, Or.inr ⟨_, rfl, Or.inr rfl⟩, by simp [ieeeFmt]; exact hp⟩

theorem ladderFmt_wf (T : MachTy) (l : AbsFmt) (h : ladderFmt T = some l) : l.WF := by
  cases T <;> simp [ladderFmt] at h <;> subst h
  all_goals first | exact uintFmt_wf _ | exact sintFmt_wf _ | exact ieeeFmt_wf _ (by decide) _ _

theorem ladderFmt_exp (T : MachTy) (l : AbsFmt) (h : ladderFmt T = some l) : l.exp ≠ none := by
  cases T <;> simp [ladderFmt] at h <;> subst h <;> simp [uintFmt, sintFmt, ieeeFmt]

theorem gamma_uint (n : Nat) (v : FV) : γ (uintFmt n) v ↔ intValues 0 ((2 ^ n - 1 : Nat) : Int) v :=
  ⟨fun h => gamma_int (uintFmt n) (2 ^ n - 1) 0 false rfl (fun _ => rfl) v h,
   fun h => int_gamma (uintFmt n) (2 ^ n - 1) 0 false rfl (fun _ => rfl) v h⟩

theorem gamma_sint (n : Nat) (v : FV) : γ (sintFmt n) v ↔ intValues (-((2 ^ (n - 1) : Nat) : Int)) ((2 ^ (n - 1) - 1 : Nat) : Int) v :=
  ⟨fun h => gamma_int (sintFmt n) (2 ^ (n - 1) - 1) (2 ^ (n - 1)) true rfl (fun h => by cases h) v h,
   fun h => int_gamma (sintFmt n) (2 ^ (n - 1) - 1) (2 ^ (n - 1)) true rfl (fun h => by cases h) v h⟩

/-- **the abstract format of a rung denotes exactly the values of the machine type** -/
theorem gamma_ladder_iff (T : MachTy) (l : AbsFmt) (h : ladderFmt T = some l) (v : FV) : γ l v ↔ values T v := by
  cases T <;> simp only [ladderFmt] at h <;> cases h
  · exact gamma_uint 8 v
  · exact gamma_sint 8 v
  · exact gamma_uint 16 v
  · exact gamma_sint 16 v
  · exact gamma_uint 32 v
  · exact gamma_sint 32 v
  · exact ⟨gamma_ieee 24 (-149) 104 (by decide) v, ieee_gamma 24 (-149) 104 (by decide) v⟩
  · exact gamma_uint 64 v
  · exact gamma_sint 64 v
  · exact ⟨gamma_ieee 53 (-1074) 971 (by decide) v, ieee_gamma 53 (-1074) 971 (by decide) v⟩

end Fpy.C11
