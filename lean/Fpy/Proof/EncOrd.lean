/-
Helper lemmas for C16: the MPS-float ordinal map (`MPSFloatFormat._to_ordinal / from_ordinal`).
-/
import Fpy.Proof.Enc
namespace Fpy
open Fpy.Enc Fpy.Spec

/-- value (in units of `2^expmin`) of the float with ordinal `u ≥ 0` in a format with `A = 2^(p-1)`:
ordinals below `A` are the subnormals, then each block of `A` ordinals is one binade -/
def ordValue (A u : Nat) : Nat := if u < A then u else (A + u % A) * 2 ^ (u / A - 1)

theorem ordValue_lt_two (A u : Nat) (h : u < 2 * A) : ordValue A u = u := by
  unfold ordValue
  by_cases h1 : u < A
  · simp [h1]
  · have hA : 0 < A := by omega
    have h2 : u / A = 1 := Nat.div_eq_of_lt_le (by omega) (by omega)
    have h3 : u % A = u - A := by have := Nat.div_add_mod u A; rw [h2] at this; omega
    simp [h1, h2, h3]; omega

theorem ordValue_step (A u : Nat) (hA : 0 < A) : ordValue A u < ordValue A (u + 1) := by
  by_cases h1 : u + 1 < 2 * A
  · rw [ordValue_lt_two A u (by omega), ordValue_lt_two A (u + 1) h1]; omega
  · have h2 : ¬ u < A := by omega
    have h3 : ¬ u + 1 < A := by omega
    unfold ordValue
    simp only [h2, h3, if_false]
    have hd := Nat.div_add_mod u A
    have hm := Nat.mod_lt u hA
    have he : 1 ≤ u / A := (Nat.le_div_iff_mul_le hA).2 (by omega)
    by_cases hr : u % A + 1 < A
    · have e1 : (u + 1) / A = u / A := by
        apply Nat.div_eq_of_lt_le
        · rw [Nat.mul_comm]; omega
        · rw [Nat.add_mul, Nat.mul_comm]; omega
      have e2 : (u + 1) % A = u % A + 1 := by
        have := Nat.div_add_mod (u + 1) A; rw [e1] at this; omega
      rw [e1, e2]
      exact (Nat.mul_lt_mul_right (two_pow_pos' _)).2 (by omega)
    · have e1 : (u + 1) / A = u / A + 1 := by
        apply Nat.div_eq_of_lt_le
        · rw [Nat.add_mul, Nat.mul_comm]; omega
        · rw [Nat.add_mul, Nat.add_mul, Nat.mul_comm]; omega
      have e2 : (u + 1) % A = 0 := by
        have := Nat.div_add_mod (u + 1) A; rw [e1, Nat.mul_add] at this; omega
      rw [e1, e2]
      have e3 : u / A + 1 - 1 = (u / A - 1) + 1 := by omega
      rw [e3, Nat.pow_succ]
      have hP := two_pow_pos' (u / A - 1)
      generalize 2 ^ (u / A - 1) = P at *
      generalize u % A = r at *
      have : r = A - 1 := by omega
      subst this
      -- (A + (A-1)) * P < (A + 0) * (P * 2)
      have e4 : (A + 0) * (P * 2) = (A + A) * P := by rw [Nat.add_zero, Nat.mul_comm P 2, ← Nat.mul_assoc]; congr 1; omega
      rw [e4]
      exact (Nat.mul_lt_mul_right hP).2 (by omega)

theorem ordValue_strictMono (A : Nat) (hA : 0 < A) {u v : Nat} (h : u < v) : ordValue A u < ordValue A v := by
  induction v with
  | zero => omega
  | succ v ih =>
    by_cases h1 : u = v
    · subst h1; exact ordValue_step A u hA
    · exact Nat.lt_trans (ih (by omega)) (ordValue_step A v hA)

theorem ordValue_lt_iff (A : Nat) (hA : 0 < A) (u v : Nat) : ordValue A u < ordValue A v ↔ u < v := by
  constructor
  · intro h
    by_cases h1 : u < v
    · exact h1
    · by_cases h2 : u = v
      · subst h2; omega
      · have := ordValue_strictMono A hA (show v < u by omega); omega
  · exact ordValue_strictMono A hA

theorem ordValue_zero (A : Nat) (hA : 0 < A) : ordValue A 0 = 0 := by
  unfold ordValue; simp [hA]

theorem ordValue_inj (A : Nat) (hA : 0 < A) (u v : Nat) : ordValue A u = ordValue A v ↔ u = v := by
  constructor
  · intro h
    rcases Nat.lt_trichotomy u v with h1 | h1 | h1
    · have := ordValue_strictMono A hA h1; omega
    · exact h1
    · have := ordValue_strictMono A hA h1; omega
  · intro h; rw [h]

theorem mag_shiftBy (s : Bool) (exp target : Int) (c : Nat) (m : Int) (hm1 : m ≤ exp) (hm2 : m ≤ target)
    (hdiv : exp < target → c % 2 ^ (target - exp).toNat = 0) :
    mag ⟨s, target, shiftBy c (exp - target)⟩ m = mag ⟨s, exp, c⟩ m := by
  unfold mag shiftBy
  simp only
  by_cases h1 : exp - target > 0
  · simp only [h1, if_true]
    have : (exp - m).toNat = (exp - target).toNat + (target - m).toNat := by omega
    rw [this, Nat.pow_add, Nat.mul_assoc]
  · by_cases h2 : exp - target < 0
    · simp only [h1, h2, if_false, if_true]
      have hd := hdiv (by omega)
      have e1 : (-(exp - target)).toNat = (target - exp).toNat := by omega
      have e2 : (target - m).toNat = (target - exp).toNat + (exp - m).toNat := by omega
      rw [e1, e2, Nat.pow_add, ← Nat.mul_assoc, Nat.div_mul_cancel (Nat.dvd_of_mod_eq_zero hd)]
    · have : exp = target := by omega
      subst this; simp

theorem shiftDown_eq (c : Nat) (off : Int) : shiftDown c off = shiftBy c (-off) := by
  unfold shiftDown shiftBy
  by_cases h1 : off > 0
  · have a : ¬ (-off > 0) := by omega
    have b : -off < 0 := by omega
    simp only [h1, a, b, if_true, if_false, Int.neg_neg]
  · by_cases h2 : off < 0
    · have a : -off > 0 := by omega
      simp only [h1, h2, a, if_true, if_false]
    · have : off = 0 := by omega
      subst this; simp

theorem mag_bitLength (x : RF) (m : Int) (hc : x.c ≠ 0) (hm : m ≤ x.exp) :
    (bitLength (mag x m) : Int) = bitLength x.c + (x.exp - m) := by
  unfold mag; rw [bitLength_mul_pow hc]; omega

/-- facts carried by `MPSFloatFormat.representable_in` on a non-zero value -/
theorem mps_repr_facts (f : MPSFmt) (x : RF) (hc : x.c ≠ 0) (hr : f.reprRF x = true) :
    (x.p > f.p → x.c % 2 ^ (x.p - f.p) = 0) ∧ (x.exp < f.expmin → x.c % 2 ^ (f.expmin - x.exp).toNat = 0) := by
  unfold MPSFmt.reprRF at hr
  simp only [hc, if_false] at hr
  by_cases h1 : (x.p > f.p && x.c % 2 ^ (x.p - f.p) != 0) = true
  · simp [h1] at hr
  · simp only [h1, Bool.false_eq_true, if_false] at hr
    constructor
    · intro hp; simp [hp] at h1; exact h1
    · intro he
      rw [isMoreSignificant_iff _ _ hc] at hr
      have hn : f.nmin + 1 = f.expmin := by unfold MPSFmt.nmin; omega
      rcases hr with h | h
      · omega
      · rw [hn] at h; exact h

/-- the unsigned ordinal `MPSFloatFormat._to_ordinal` computes for a non-zero value -/
def mpsUord (f : MPSFmt) (x : RF) : Nat :=
  if x.e ≤ f.emin then shiftBy x.c (x.exp - f.expmin)
  else (x.e - f.emin + 1).toNat * 2 ^ (f.p - 1) + shiftDown x.c ((x.p : Int) - f.p) % 2 ^ (f.p - 1)

theorem mps_ordRF_eq (f : MPSFmt) (x : RF) (hc : x.c ≠ 0) :
    f.ordRF x = if x.s then -(mpsUord f x : Int) else (mpsUord f x : Int) := by
  unfold MPSFmt.ordRF mpsUord
  simp only [hc, if_false]
  by_cases h : x.e ≤ f.emin
  · simp only [h, if_true]; simp
  · simp only [h, if_false]
    have : ((x.e - f.emin + 1).toNat : Int) = x.e - f.emin + 1 := by omega
    simp only [Int.natCast_add, Int.natCast_mul, this, Int.natCast_pow]
    rfl

/-- **the ordinal is the value**: the magnitude of a representable non-zero `x`, in units of `2^m`,
is `ordValue` of its unsigned ordinal times `2^(expmin - m)`; and that ordinal is not 0 -/
theorem mps_uord_mag (f : MPSFmt) (hp : 1 ≤ f.p) (x : RF) (hc : x.c ≠ 0) (hr : f.reprRF x = true)
    (m : Int) (h1 : m ≤ x.exp) (h2 : m ≤ f.expmin) :
    mpsUord f x ≠ 0 ∧ mag x m = ordValue (2 ^ (f.p - 1)) (mpsUord f x) * 2 ^ (f.expmin - m).toNat := by
  have ⟨r1, r2⟩ := mps_repr_facts f x hc hr
  have hA := two_pow_pos' (f.p - 1)
  have hAA := two_pow_pred f.p hp
  have hem : f.expmin = f.emin - f.p + 1 := rfl
  have hmx : mag x m ≠ 0 := mag_ne_zero hc m
  unfold mpsUord
  by_cases hsub : x.e ≤ f.emin
  · -- subnormal range and first binade: the ordinal is the significand at scale expmin
    simp only [hsub, if_true]
    have hmag := mag_shiftBy x.s x.exp f.expmin x.c m h1 h2 r2
    have hx : mag ⟨x.s, x.exp, x.c⟩ m = mag x m := rfl
    rw [hx] at hmag
    generalize shiftBy x.c (x.exp - f.expmin) = U at *
    have hmU : mag ⟨x.s, f.expmin, U⟩ m = U * 2 ^ (f.expmin - m).toNat := rfl
    have hU : U ≠ 0 := by
      intro h0; subst h0; rw [hmU, Nat.zero_mul] at hmag; omega
    have hbl : bitLength U ≤ f.p := by
      have b1 := mag_bitLength ⟨x.s, f.expmin, U⟩ m hU h2
      have b2 := mag_bitLength x m hc h1
      rw [hmag] at b1
      unfold RF.e RF.p at hsub
      simp only at b1
      omega
    have hlt : U < 2 * 2 ^ (f.p - 1) := by rw [← hAA]; exact (bitLength_le_iff _ _).1 hbl
    rw [ordValue_lt_two _ _ hlt, ← hmag, hmU]
    exact ⟨hU, rfl⟩
  · -- normal: p-bit significand c0 at exponent e0
    simp only [hsub, if_false]
    have hsd : shiftDown x.c ((x.p : Int) - f.p) = shiftBy x.c (x.exp - (x.exp + ((x.p : Int) - f.p))) := by
      rw [shiftDown_eq]; congr 1; omega
    rw [hsd]
    have hdiv : x.exp < x.exp + ((x.p : Int) - f.p) →
        x.c % 2 ^ (x.exp + ((x.p : Int) - f.p) - x.exp).toNat = 0 := by
      intro h
      have : (x.exp + ((x.p : Int) - f.p) - x.exp).toNat = x.p - f.p := by omega
      rw [this]; exact r1 (by omega)
    have he0 : m ≤ x.exp + ((x.p : Int) - f.p) := by unfold RF.e at hsub; omega
    have hmag := mag_shiftBy x.s x.exp (x.exp + ((x.p : Int) - f.p)) x.c m h1 he0 hdiv
    have hx : mag ⟨x.s, x.exp, x.c⟩ m = mag x m := rfl
    rw [hx] at hmag
    generalize shiftBy x.c (x.exp - (x.exp + ((x.p : Int) - f.p))) = c0 at *
    have hmc : mag ⟨x.s, x.exp + ((x.p : Int) - f.p), c0⟩ m = c0 * 2 ^ (x.exp + ((x.p : Int) - f.p) - m).toNat := rfl
    have hc0 : c0 ≠ 0 := by
      intro h0; subst h0; rw [hmc, Nat.zero_mul] at hmag; omega
    have hbl : bitLength c0 = f.p := by
      have b1 := mag_bitLength ⟨x.s, x.exp + ((x.p : Int) - f.p), c0⟩ m hc0 he0
      have b2 := mag_bitLength x m hc h1
      rw [hmag] at b1
      simp only at b1
      unfold RF.p at *
      omega
    have ⟨hlo, hhi⟩ := (bitLength_eq_iff c0 f.p hp).1 hbl
    rw [hAA] at hhi
    generalize hT : (x.e - f.emin + 1).toNat = T
    have hT2 : 2 ≤ T := by omega
    generalize 2 ^ (f.p - 1) = A at *
    have hmod : c0 % A = c0 - A := by
      have h1 : c0 / A = 1 := Nat.div_eq_of_lt_le (by omega) (by omega)
      have := Nat.div_add_mod c0 A; rw [h1] at this; omega
    rw [hmod]
    have hdivU : (T * A + (c0 - A)) / A = T := by
      apply Nat.div_eq_of_lt_le
      · omega
      · rw [Nat.add_mul]; omega
    have hmodU : (T * A + (c0 - A)) % A = c0 - A := by
      have := Nat.div_add_mod (T * A + (c0 - A)) A; rw [hdivU, Nat.mul_comm] at this; omega
    refine ⟨by have : 0 < T * A := Nat.mul_pos (by omega) hA; omega, ?_⟩
    unfold ordValue
    have hnlt : ¬ (T * A + (c0 - A) < A) := by
      have : A ≤ T * A := Nat.le_mul_of_pos_left A (by omega)
      omega
    simp only [hnlt, if_false, hdivU, hmodU]
    have : A + (c0 - A) = c0 := by omega
    rw [this, ← hmag, hmc, Nat.mul_assoc, ← Nat.pow_add]
    congr 2
    unfold RF.e at hT hsub
    omega

/-- signed version of `ordValue` -/
def sOrdValue (A : Nat) (k : Int) : Int :=
  if k < 0 then -(ordValue A k.natAbs : Int) else (ordValue A k.natAbs : Int)

theorem sOrdValue_lt_iff (A : Nat) (hA : 0 < A) (j k : Int) : sOrdValue A j < sOrdValue A k ↔ j < k := by
  unfold sOrdValue
  have h0 := ordValue_zero A hA
  by_cases hj : j < 0 <;> by_cases hk : k < 0 <;> simp only [hj, hk, if_true, if_false]
  · have := ordValue_lt_iff A hA k.natAbs j.natAbs
    constructor <;> intro h <;> omega
  · have h1 : 0 < ordValue A j.natAbs := by
      have := ordValue_strictMono A hA (show 0 < j.natAbs by omega); omega
    constructor <;> intro h <;> omega
  · have h1 : 0 < ordValue A k.natAbs := by
      have := ordValue_strictMono A hA (show 0 < k.natAbs by omega); omega
    constructor <;> intro h <;> omega
  · have := ordValue_lt_iff A hA j.natAbs k.natAbs
    constructor <;> intro h <;> omega

theorem sOrdValue_inj (A : Nat) (hA : 0 < A) (j k : Int) : sOrdValue A j = sOrdValue A k ↔ j = k := by
  constructor
  · intro h
    rcases Int.lt_trichotomy j k with h1 | h1 | h1
    · have := (sOrdValue_lt_iff A hA j k).2 h1; omega
    · exact h1
    · have := (sOrdValue_lt_iff A hA k j).2 h1; omega
  · intro h; rw [h]

/-- **the ordinal is the value** (signed, zero included) -/
theorem mps_ordinal_units (f : MPSFmt) (hp : 1 ≤ f.p) (x : RF) (hr : f.reprRF x = true)
    (m : Int) (h1 : m ≤ x.exp) (h2 : m ≤ f.expmin) :
    units x m = sOrdValue (2 ^ (f.p - 1)) (f.ordRF x) * ((2 ^ (f.expmin - m).toNat : Nat) : Int) := by
  have hA := two_pow_pos' (f.p - 1)
  by_cases hc : x.c = 0
  · have : f.ordRF x = 0 := by unfold MPSFmt.ordRF; simp [hc]
    rw [this, units_zero hc]; unfold sOrdValue; simp [ordValue_zero _ hA]
  · have ⟨hU, hmag⟩ := mps_uord_mag f hp x hc hr m h1 h2
    rw [mps_ordRF_eq f x hc]
    unfold units sOrdValue
    rw [hmag]
    cases x.s
    · have : ¬ ((mpsUord f x : Int) < 0) := by omega
      simp only [Bool.false_eq_true, if_false, this, Int.natAbs_natCast, Int.natCast_mul]
    · have : (-(mpsUord f x : Int) < 0) := by omega
      simp only [if_true, this, Int.natAbs_neg, Int.natAbs_natCast, Int.natCast_mul, Int.neg_mul]

theorem mps_ordinal_strict_mono (f : MPSFmt) (hp : 1 ≤ f.p) (x y : RF)
    (hx : f.reprRF x = true) (hy : f.reprRF y = true) :
    f.ordRF x < f.ordRF y ↔ ltValue x y := by
  let m := min (min x.exp y.exp) f.expmin
  rw [ltValue_iff_common x y m (by omega) (by omega),
    mps_ordinal_units f hp x hx m (by omega) (by omega), mps_ordinal_units f hp y hy m (by omega) (by omega),
    Int.mul_lt_mul_right (Int.natCast_pos.2 (two_pow_pos' _))]
  exact (sOrdValue_lt_iff _ (two_pow_pos' _) _ _).symm

theorem mps_ordinal_eq_iff (f : MPSFmt) (hp : 1 ≤ f.p) (x y : RF)
    (hx : f.reprRF x = true) (hy : f.reprRF y = true) :
    f.ordRF x = f.ordRF y ↔ sameValue x y := by
  let m := min (min x.exp y.exp) f.expmin
  have hne : ((2 ^ (f.expmin - m).toNat : Nat) : Int) ≠ 0 := by
    have := two_pow_pos' (f.expmin - m).toNat; omega
  rw [sameValue_iff_common x y m (by omega) (by omega),
    mps_ordinal_units f hp x hx m (by omega) (by omega), mps_ordinal_units f hp y hy m (by omega) (by omega),
    Int.mul_eq_mul_right_iff hne]
  exact (sOrdValue_inj _ (two_pow_pos' _) _ _).symm

theorem shiftDown_zero (c : Nat) : shiftDown c 0 = c := by unfold shiftDown; simp

theorem mps_reprRF_of (f : MPSFmt) (x : RF) (hc : x.c ≠ 0) (h1 : x.p ≤ f.p) (h2 : f.expmin ≤ x.exp) :
    f.reprRF x = true := by
  unfold MPSFmt.reprRF
  have a : ¬ (x.p > f.p) := by omega
  simp only [hc, if_false, a, decide_false, Bool.false_and, Bool.false_eq_true]
  rw [isMoreSignificant_iff _ _ hc]; left; unfold MPSFmt.nmin; omega

/-- `from_ordinal(k)` for `k ≠ 0`: a non-zero representable value of sign `k < 0` whose ordinal is `k` -/
theorem mps_unord_facts (f : MPSFmt) (hp : 1 ≤ f.p) (k : Int) (hk : k ≠ 0) :
    (f.unordRF k).c ≠ 0 ∧ (f.unordRF k).s = decide (k < 0) ∧ f.reprRF (f.unordRF k) = true ∧
    mpsUord f (f.unordRF k) = k.natAbs ∧ f.expmin ≤ (f.unordRF k).exp ∧
    (((f.unordRF k).exp = f.expmin ∧ (f.unordRF k).c < 2 ^ (f.p - 1)) ∨ bitLength (f.unordRF k).c = f.p) := by
  have hA := two_pow_pos' (f.p - 1)
  have hAA := two_pow_pred f.p hp
  have hem : f.expmin = f.emin - f.p + 1 := rfl
  unfold MPSFmt.unordRF
  simp only [hk, if_false]
  have hu : k.natAbs ≠ 0 := by omega
  generalize k.natAbs = u at *
  have hd := Nat.div_add_mod u (2 ^ (f.p - 1))
  have hm := Nat.mod_lt u hA
  by_cases he : u / 2 ^ (f.p - 1) = 0
  · simp only [he, if_true]
    have hlt : u < 2 ^ (f.p - 1) := by
      rcases Nat.div_eq_zero_iff.1 he with h | h <;> omega
    rw [Nat.mod_eq_of_lt hlt]
    have hbl : bitLength u ≤ f.p - 1 := (bitLength_le_iff _ _).2 hlt
    refine ⟨hu, trivial, mps_reprRF_of f _ hu (by unfold RF.p; simp only; omega) (Int.le_refl _), ?_, Int.le_refl _, .inl ⟨trivial, hlt⟩⟩
    unfold mpsUord RF.e RF.p
    have : f.expmin + (bitLength u : Int) - 1 ≤ f.emin := by omega
    simp only [this, if_true, Int.sub_self, shiftBy_zero]
  · simp only [he, if_false]
    rw [two_pow_or _ _ hm]
    have hge : 1 ≤ u / 2 ^ (f.p - 1) := Nat.pos_of_ne_zero he
    have hbl : bitLength (2 ^ (f.p - 1) + u % 2 ^ (f.p - 1)) = f.p := by
      apply (bitLength_eq_iff _ _ hp).2; omega
    have hc : 2 ^ (f.p - 1) + u % 2 ^ (f.p - 1) ≠ 0 := by omega
    refine ⟨hc, trivial, mps_reprRF_of f _ hc (by unfold RF.p; simp only; omega) (by simp only; omega), ?_,
      by omega, .inr hbl⟩
    unfold mpsUord RF.e RF.p
    simp only [hbl]
    generalize u / 2 ^ (f.p - 1) = eo at *
    generalize u % 2 ^ (f.p - 1) = mo at *
    generalize 2 ^ (f.p - 1) = A at *
    by_cases h1 : eo = 1
    · subst h1
      have : f.expmin + ((1 : Nat) : Int) - 1 + (f.p : Int) - 1 ≤ f.emin := by omega
      have e0 : f.expmin + (((1 : Nat) : Int) - 1) = f.expmin := by omega
      simp only [e0] at *
      have : f.expmin + (f.p : Int) - 1 ≤ f.emin := by omega
      simp only [this, if_true, Int.sub_self, shiftBy_zero]
      omega
    · have : ¬ (f.expmin + ((eo : Int) - 1) + (f.p : Int) - 1 ≤ f.emin) := by omega
      simp only [this, if_false, Int.sub_self, shiftDown_zero]
      have e1 : (f.expmin + ((eo : Int) - 1) + (f.p : Int) - 1 - f.emin + 1).toNat = eo := by omega
      have e2 : (A + mo) % A = mo := by
        rw [Nat.add_comm, Nat.add_mod_right]; exact Nat.mod_eq_of_lt hm
      rw [e1, e2, Nat.mul_comm]; omega

theorem mps_to_from_ordinal (f : MPSFmt) (hp : 1 ≤ f.p) (k : Int) : f.ordRF (f.unordRF k) = k := by
  by_cases hk : k = 0
  · subst hk; unfold MPSFmt.unordRF MPSFmt.ordRF; simp
  · have ⟨hc, hs, _, hu, _⟩ := mps_unord_facts f hp k hk
    rw [mps_ordRF_eq f _ hc, hs, hu]
    by_cases h : k < 0 <;> simp [h] <;> omega

theorem mps_unord_repr (f : MPSFmt) (hp : 1 ≤ f.p) (k : Int) : f.reprRF (f.unordRF k) = true := by
  by_cases hk : k = 0
  · subst hk; unfold MPSFmt.unordRF MPSFmt.reprRF; simp
  · exact (mps_unord_facts f hp k hk).2.2.1

theorem mps_from_to_ordinal (f : MPSFmt) (hp : 1 ≤ f.p) (x : RF) (hr : f.reprRF x = true) :
    sameValue (f.unordRF (f.ordRF x)) x :=
  (mps_ordinal_eq_iff f hp _ _ (mps_unord_repr f hp _) hr).1 (mps_to_from_ordinal f hp _)

theorem mps_next (f : MPSFmt) (x : RF) (hr : f.reprRF x = true) :
    (Fmt.mps f).nextUp (.fin x) false = .ok (.fin (f.unordRF (f.ordRF x + 1))) ∧
    (Fmt.mps f).nextDown (.fin x) false = .ok (.fin (f.unordRF (f.ordRF x - 1))) := by
  have hr' : f.repr (.fin x) = true := hr
  unfold Fmt.nextUp Fmt.nextDown Fmt.stepTowardsInf Fmt.repr Fmt.toOrdinal Fmt.fromOrdinal
    MPSFmt.toOrdinal MPSFmt.fromOrdinal
  simp [hr', FV.isNan, FV.isInf]
  rfl

end Fpy
