/-
Part 10 of the value-level helpers for C01: non-dyadic rational operands.  `truncRat` finds the
binade of `N/D` and truncates to `prec` digits; `rtoRat` ORs the sticky bit in.
-/
import Fpy.Proof.RoundValRF
import Fpy.Props.C02
namespace Fpy.C01v
open Fpy Fpy.Spec

theorem le_div_iff' {a b c : Rat} (hc : 0 < c) : a ≤ b / c ↔ a * c ≤ b := by
  rw [← Rat.not_lt, ← Rat.not_lt, Rat.div_lt_iff hc]

theorem natCast_pos' {n : Nat} (h : 0 < n) : (0 : Rat) < (n : Rat) := Rat.natCast_pos.2 h

/-- comparison of a positive fraction with a power of two, in integers -/
theorem zpow_le_frac_iff (N D : Nat) (hD : 0 < D) (e : Int) :
    (2 : Rat) ^ e ≤ (N : Rat) / (D : Rat) ↔
      (if e ≥ 0 then D * 2 ^ e.toNat ≤ N else D ≤ N * 2 ^ (-e).toNat) := by
  have hDq := natCast_pos' hD
  rw [le_div_iff' hDq]
  by_cases he : e ≥ 0
  · simp only [he, if_true]
    have : e = ((e.toNat : Nat) : Int) := by omega
    generalize e.toNat = j at this
    rw [this, RF.two_zpow_nat, ← Rat.natCast_mul, Rat.natCast_le_natCast, Nat.mul_comm]
  · simp only [he, if_false]
    have : e = -(((-e).toNat : Nat) : Int) := by omega
    generalize (-e).toNat = j at this
    have hP : (0 : Rat) < ((2 ^ j : Nat) : Rat) := natCast_pos' (Nat.pow_pos (by decide))
    have hone : (2 : Rat) ^ e * ((2 ^ j : Nat) : Rat) = 1 := by
      rw [this, Rat.zpow_neg, RF.two_zpow_nat]; exact Rat.inv_mul_cancel _ (Rat.ne_of_gt hP)
    rw [← Rat.natCast_le_natCast, Rat.natCast_mul]
    generalize ((2 ^ j : Nat) : Rat) = P at *
    generalize (2 : Rat) ^ e = E at *
    have key : E * (D : Rat) * P = (D : Rat) := by
      rw [Rat.mul_assoc, Rat.mul_comm (D : Rat) P, ← Rat.mul_assoc, hone, Rat.one_mul]
    constructor
    · intro h
      have := Rat.mul_le_mul_of_nonneg_right h (Rat.le_of_lt hP)
      rwa [key] at this
    · intro h
      apply Rat.le_of_mul_le_mul_right _ hP
      rwa [key]

theorem frac_lt_zpow_iff (N D : Nat) (hD : 0 < D) (e : Int) :
    (N : Rat) / (D : Rat) < (2 : Rat) ^ e ↔
      (if e ≥ 0 then N < D * 2 ^ e.toNat else N * 2 ^ (-e).toNat < D) := by
  rw [← Rat.not_le, zpow_le_frac_iff N D hD e]
  split <;> omega

/-- the exponent search of `truncRat` -/
def ratE (N D : Nat) : Int :=
  let e0 : Int := (bitLength N : Int) - (bitLength D : Int)
  if (if e0 ≥ 0 then decide (N ≥ D * 2 ^ e0.toNat) else decide (N * 2 ^ (-e0).toNat ≥ D)) then e0 else e0 - 1

/-- **the exponent search is right**: `2^e ≤ N/D < 2^(e+1)` -/
theorem ratE_spec (N D : Nat) (hN : N ≠ 0) (hD : 0 < D) :
    (2 : Rat) ^ ratE N D ≤ (N : Rat) / (D : Rat) ∧ (N : Rat) / (D : Rat) < (2 : Rat) ^ (ratE N D + 1) := by
  have hDq := natCast_pos' hD
  have hbN := bitLength_pos hN
  have hbD := bitLength_pos (by omega : D ≠ 0)
  obtain ⟨n1, n2⟩ := (bitLength_eq_iff N _ hbN).1 rfl
  obtain ⟨d1, d2⟩ := (bitLength_eq_iff D _ hbD).1 rfl
  -- as rationals
  have N2 : (N : Rat) < (2 : Rat) ^ ((bitLength N : Nat) : Int) := by
    rw [RF.two_zpow_nat]; exact Rat.natCast_lt_natCast.2 n2
  have N1 : (2 : Rat) ^ (((bitLength N : Nat) : Int) - 1) ≤ (N : Rat) := by
    have : ((bitLength N : Nat) : Int) - 1 = ((bitLength N - 1 : Nat) : Int) := by omega
    rw [this, RF.two_zpow_nat]; exact Rat.natCast_le_natCast.2 n1
  have D2 : (D : Rat) < (2 : Rat) ^ ((bitLength D : Nat) : Int) := by
    rw [RF.two_zpow_nat]; exact Rat.natCast_lt_natCast.2 d2
  have D1 : (2 : Rat) ^ (((bitLength D : Nat) : Int) - 1) ≤ (D : Rat) := by
    have : ((bitLength D : Nat) : Int) - 1 = ((bitLength D - 1 : Nat) : Int) := by omega
    rw [this, RF.two_zpow_nat]; exact Rat.natCast_le_natCast.2 d1
  -- bounds with e0
  have up : (N : Rat) / (D : Rat) < (2 : Rat) ^ ((bitLength N : Int) - (bitLength D : Int) + 1) := by
    rw [Rat.div_lt_iff hDq]
    have e : ((bitLength N : Nat) : Int) = ((bitLength N : Int) - (bitLength D : Int) + 1) + (((bitLength D : Nat) : Int) - 1) := by omega
    rw [e, RF.two_zpow_add] at N2
    have := Rat.mul_le_mul_of_nonneg_left D1 (Rat.le_of_lt (RF.two_zpow_pos ((bitLength N : Int) - (bitLength D : Int) + 1)))
    grind
  have low : (2 : Rat) ^ ((bitLength N : Int) - (bitLength D : Int) - 1) ≤ (N : Rat) / (D : Rat) := by
    rw [le_div_iff' hDq]
    have e : ((bitLength N : Nat) : Int) - 1 = ((bitLength N : Int) - (bitLength D : Int) - 1) + ((bitLength D : Nat) : Int) := by omega
    rw [e, RF.two_zpow_add] at N1
    have := Rat.mul_lt_mul_of_pos_left D2 (RF.two_zpow_pos ((bitLength N : Int) - (bitLength D : Int) - 1))
    grind
  unfold ratE
  simp only
  generalize (bitLength N : Int) - (bitLength D : Int) = e0 at *
  have hge := zpow_le_frac_iff N D hD e0
  by_cases hc : (if e0 ≥ 0 then decide (N ≥ D * 2 ^ e0.toNat) else decide (N * 2 ^ (-e0).toNat ≥ D)) = true
  · rw [if_pos hc]
    refine ⟨hge.2 ?_, up⟩
    by_cases h0 : e0 ≥ 0
    · simp only [h0, if_true, decide_eq_true_eq] at hc ⊢; exact hc
    · simp only [h0, if_false, decide_eq_true_eq] at hc ⊢; exact hc
  · rw [if_neg hc]
    have e : e0 - 1 + 1 = e0 := by omega
    rw [e]
    refine ⟨low, ?_⟩
    apply Rat.not_le.1
    intro h
    apply hc
    have := hge.1 h
    by_cases h0 : e0 ≥ 0
    · simp only [h0, if_true, decide_eq_true_eq] at this ⊢; exact this
    · simp only [h0, if_false, decide_eq_true_eq] at this ⊢; exact this

/-- the scaled numerator and denominator `truncRat` divides -/
def ratA (N : Nat) (exp : Int) : Nat := if exp ≥ 0 then N else N * 2 ^ (-exp).toNat
def ratB (D : Nat) (exp : Int) : Nat := if exp ≥ 0 then D * 2 ^ exp.toNat else D

/-- `truncRat` with the exponent search abstracted -/
def truncRatCore (E : Int) (num den prec : Nat) : Nat × Int × Bool :=
  let exp : Int := E - prec + 1
  let (n', d') : Nat × Nat :=
    if exp ≥ 0 then (num, den * 2 ^ exp.toNat) else (num * 2 ^ (-exp).toNat, den)
  (n' / d', exp, n' % d' != 0)

theorem truncRat_core (N D prec : Nat) : truncRat N D prec = truncRatCore (ratE N D) N D prec := rfl

theorem truncRat_eq (N D prec : Nat) :
    truncRat N D prec =
      (ratA N (ratE N D - prec + 1) / ratB D (ratE N D - prec + 1), ratE N D - prec + 1,
       ratA N (ratE N D - prec + 1) % ratB D (ratE N D - prec + 1) != 0) := by
  rw [truncRat_core]
  generalize ratE N D = E
  unfold truncRatCore ratA ratB
  by_cases h : E - (prec : Int) + 1 ≥ 0 <;> simp only [h, if_true, if_false]

theorem ratB_pos (D : Nat) (hD : 0 < D) (exp : Int) : 0 < ratB D exp := by
  unfold ratB; split
  · exact Nat.mul_pos hD (Nat.pow_pos (by decide))
  · exact hD

/-- `A/B` is `N/D` in units of `2^exp` -/
theorem ratAB_val (N D : Nat) (hD : 0 < D) (exp : Int) :
    (ratA N exp : Rat) / (ratB D exp : Rat) * (2 : Rat) ^ exp = (N : Rat) / (D : Rat) := by
  have hD0 : (D : Rat) ≠ 0 := Rat.ne_of_gt (natCast_pos' hD)
  unfold ratA ratB
  by_cases he : exp ≥ 0
  · simp only [he, if_true]
    have : exp = ((exp.toNat : Nat) : Int) := by omega
    generalize exp.toNat = j at this
    rw [this, RF.two_zpow_nat, Rat.natCast_mul]
    have hP : ((2 ^ j : Nat) : Rat) ≠ 0 := Rat.ne_of_gt (natCast_pos' (Nat.pow_pos (by decide)))
    generalize ((2 ^ j : Nat) : Rat) = P at *
    grind
  · simp only [he, if_false]
    have : exp = -(((-exp).toNat : Nat) : Int) := by omega
    generalize (-exp).toNat = j at this
    have hP : ((2 ^ j : Nat) : Rat) ≠ 0 := Rat.ne_of_gt (natCast_pos' (Nat.pow_pos (by decide)))
    rw [this, Rat.zpow_neg, RF.two_zpow_nat, Rat.natCast_mul]
    generalize ((2 ^ j : Nat) : Rat) = P at *
    grind

/-- **`truncRat` keeps exactly `prec` digits** -/
theorem truncRat_bits (N D prec : Nat) (hN : N ≠ 0) (hD : 0 < D) (hp : 1 ≤ prec) :
    bitLength (ratA N (ratE N D - prec + 1) / ratB D (ratE N D - prec + 1)) = prec := by
  obtain ⟨s1, s2⟩ := ratE_spec N D hN hD
  have hB := ratB_pos D hD (ratE N D - prec + 1)
  have hv := ratAB_val N D hD (ratE N D - prec + 1)
  generalize ratE N D = e at *
  generalize hexp : e - prec + 1 = exp at *
  have hG := RF.two_zpow_pos exp
  rw [← hv] at s1 s2
  have e1 : (2 : Rat) ^ e = ((2 ^ (prec - 1) : Nat) : Rat) * (2 : Rat) ^ exp := by
    have : e = ((prec - 1 : Nat) : Int) + exp := by omega
    rw [this, RF.two_zpow_add, RF.two_zpow_nat]
  have e2 : (2 : Rat) ^ (e + 1) = ((2 ^ prec : Nat) : Rat) * (2 : Rat) ^ exp := by
    have : e + 1 = ((prec : Nat) : Int) + exp := by omega
    rw [this, RF.two_zpow_add, RF.two_zpow_nat]
  rw [e1] at s1; rw [e2] at s2
  have t1 := Rat.le_of_mul_le_mul_right s1 hG
  have t2 := (Rat.mul_lt_mul_right hG).1 s2
  have hBq := natCast_pos' hB
  rw [le_div_iff' hBq, ← Rat.natCast_mul, Rat.natCast_le_natCast] at t1
  rw [Rat.div_lt_iff hBq, ← Rat.natCast_mul, Rat.natCast_lt_natCast] at t2
  apply (bitLength_eq_iff _ prec hp).2
  exact ⟨(Nat.le_div_iff_mul_le hB).2 t1, (Nat.div_lt_iff_lt_mul hB).2 t2⟩

end Fpy.C01v
