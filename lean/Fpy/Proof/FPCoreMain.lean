/-
C12 — the main induction: statements and blocks of the loop-free subset.
-/
import Fpy.Proof.FPCoreBlock
set_option linter.unusedSimpArgs false
set_option linter.unusedVariables false
namespace Fpy.C12
open Fpy Fpy.Lang

/-! ### one-step unfoldings of the core-language statement evaluator -/

theorem evalS_assign (Φ : Funs) (n : Nat) (σ : Env) (μ : Heap) (C : Ctx) (p : Pat) (e : Expr) :
    evalS Φ (n + 1) σ μ C (.assign p e) =
      (do let (v, μ') ← evalE Φ n σ μ C e
          let σ' ← bindPat n p v σ
          pure (.normal σ', μ')) := by
  simp only [evalS] <;> rfl

theorem bindPat_var (n : Nat) (x : String) (v : Val) (σ : Env) : bindPat (n + 1) (.var x) v σ = .ok (σ.set x v) := by
  simp only [bindPat] <;> rfl

theorem evalS_ret (Φ : Funs) (n : Nat) (σ : Env) (μ : Heap) (C : Ctx) (e : Expr) :
    evalS Φ (n + 1) σ μ C (.ret e) = (do let (v, μ') ← evalE Φ n σ μ C e; pure (.ret v, μ')) := by
  simp only [evalS] <;> rfl

theorem evalS_with (Φ : Funs) (n : Nat) (σ : Env) (μ : Heap) (C : Ctx) (ce : Expr) (body : List Stmt) :
    evalS Φ (n + 1) σ μ C (.with ce none body) =
      (do let (cv, μ') ← evalE Φ n σ μ .real ce
          match cv with
          | .ctx C' => evalB Φ n σ μ' C' body
          | _ => .error .typeError) := by
  simp only [evalS] <;> rfl

theorem evalE_ctxLit (Φ : Funs) (n : Nat) (σ : Env) (μ : Heap) (C : Ctx) (c : Ctx) :
    evalE Φ (n + 1) σ μ C (.ctxLit c) = .ok (.ctx c, μ) := by
  simp only [evalE] <;> rfl

theorem evalS_ifte (Φ : Funs) (n : Nat) (σ : Env) (μ : Heap) (C : Ctx) (c : Expr) (t f : List Stmt) :
    evalS Φ (n + 1) σ μ C (.ifte c t f) =
      (do let (v, μ') ← evalE Φ n σ μ C c
          if ← asBool v then evalB Φ n σ μ' C t else evalB Φ n σ μ' C f) := by
  simp only [evalS] <;> rfl

theorem evalB_nil (Φ : Funs) (n : Nat) (σ : Env) (μ : Heap) (C : Ctx) :
    evalB Φ (n + 1) σ μ C [] = .ok (.normal σ, μ) := by
  simp only [evalB] <;> rfl

theorem evalB_cons (Φ : Funs) (n : Nat) (σ : Env) (μ : Heap) (C : Ctx) (s : Stmt) (ss : List Stmt) :
    evalB Φ (n + 1) σ μ C (s :: ss) =
      (do let (o, μ') ← evalS Φ n σ μ C s
          match o with
          | .ret v => pure (.ret v, μ')
          | .normal σ' => evalB Φ n σ' μ' C ss) := by
  simp only [evalB] <;> rfl

/-! ### what the induction proves -/

/-- relation between the outcome of the source block and the compiled expression `E`
(`K`: compiled continuation, mentioning `N`; `defs`: the variables the block assigns) -/
def Post (ρ : Env) (P : Props) (E : FExpr) (K : Option FExpr) (N defs : List String) (σ : Env) : Outcome → Prop
  | .ret v => K = none ∧ Conv ρ P E v
  | .normal σ' =>
      (∀ x, x ∈ defs → ∃ w, σ'.get? x = some w) ∧ (∀ x, x ∉ defs → σ'.get? x = σ.get? x) ∧
      ∃ k, K = some k ∧ ∀ v, (∀ ρ', Agree N ρ' σ' → Conv ρ' P k v) → Conv ρ P E v

def StmtOK (Φ : Funs) (fuel : Nat) : Prop :=
  ∀ (s : SStmt) (σ : Env) (μ : Heap) (C : Ctx) (o : Outcome) (μ' : Heap),
    evalS Φ fuel σ μ C s.toLang = .ok (o, μ') →
    μ' = μ ∧
    ((∀ x, x ∈ s.names → isTmp x = false) → (∀ x, x ∈ s.defs → isTmp x = false) →
     ∀ (K : Option FExpr) (N : List String) (E : FExpr) (ρ : Env) (P : Props),
      compileS s K N = some E → (K = none → N = []) → P.toCtx = .ok C → s.litsOK C K.isSome N →
      Agree (s.mention N) ρ σ → Post ρ P E K N s.defs σ o)

def BlockOK (Φ : Funs) (fuel : Nat) : Prop :=
  ∀ (ss : List SStmt) (σ : Env) (μ : Heap) (C : Ctx) (o : Outcome) (μ' : Heap),
    evalB Φ fuel σ μ C (SStmt.toLangs ss) = .ok (o, μ') →
    μ' = μ ∧
    ((∀ x, x ∈ SStmt.namesL ss → isTmp x = false) → (∀ x, x ∈ SStmt.defsL ss → isTmp x = false) →
     ∀ (K : Option FExpr) (N : List String) (E : FExpr) (ρ : Env) (P : Props),
      compileB ss K N = some E → (K = none → N = []) → P.toCtx = .ok C → SStmt.litsOKL ss C K.isSome N →
      Agree (SStmt.mentionL ss N) ρ σ → Post ρ P E K N (SStmt.defsL ss) σ o)

theorem agree_refl (S : List String) (σ : Env) : Agree S σ σ := fun _ _ _ => rfl

/-! ### blocks from statements -/

theorem block_step (Φ : Funs) (f : Nat) (hS : StmtOK Φ f) (hB : BlockOK Φ f) : BlockOK Φ (f + 1) := by
  intro ss σ μ C o μ' h
  cases ss with
  | nil =>
    rw [SStmt.toLangs, evalB_nil] at h
    cases h
    refine ⟨rfl, fun _ _ K N E ρ P hc hKN hP hl hA => ?_⟩
    simp only [compileB] at hc
    subst hc
    unfold Post
    refine ⟨fun x hx => ?_, fun x _ => rfl, E, rfl, fun v hv => hv ρ ?_⟩
    · simp [SStmt.defsL] at hx
    · simpa [SStmt.mentionL] using hA
  | cons s ss =>
    rw [SStmt.toLangs, evalB_cons] at h
    cases h1 : evalS Φ f σ μ C s.toLang with
    | error err => rw [h1] at h; cases h
    | ok r1 =>
      obtain ⟨o1, μ1⟩ := r1
      rw [h1] at h
      simp only [bind, Except.bind] at h
      obtain ⟨hm, hstmt⟩ := hS s σ _ C o1 _ h1
      subst hm
      cases o1 with
      | ret v =>
        simp only [pure, Except.pure] at h
        cases h
        refine ⟨rfl, fun hwfN hwfD K N E ρ P hc hKN hP hl hA => ?_⟩
        have hwfs : ∀ x, x ∈ s.names → isTmp x = false := fun x hx => hwfN x (by simp [SStmt.namesL, hx])
        have hwfd : ∀ x, x ∈ s.defs → isTmp x = false := fun x hx => hwfD x (by simp [SStmt.defsL, hx])
        by_cases hlast : ss = [] ∧ K = none
        · obtain ⟨rfl, rfl⟩ := hlast
          have hN : N = [] := hKN rfl
          subst hN
          simp only [compileB] at hc
          have hl' : s.litsOK C false [] := by
            have := hl; simp only [SStmt.litsOKL, Option.isSome] at this; exact this.1
          have := hstmt hwfs hwfd none [] E ρ P hc (fun _ => rfl) hP hl' (by simpa [SStmt.mentionL] using hA)
          simpa [Post] using this
        · have hc' : ∃ K', compileS s (some K') (SStmt.mentionL ss N) = some E := by
            cases ss with
            | nil =>
              cases K with
              | none => exact absurd ⟨rfl, rfl⟩ hlast
              | some k => simp only [compileB] at hc; exact ⟨k, hc⟩
            | cons s2 ss2 =>
              simp only [compileB] at hc
              cases hcc : compileB (s2 :: ss2) K N with
              | none => simp only [compileB] at hcc; rw [hcc] at hc; cases hc
              | some K' => simp only [compileB] at hcc; rw [hcc] at hc; exact ⟨K', hc⟩
          obtain ⟨K', hcs⟩ := hc'
          have hls : s.litsOK C true (SStmt.mentionL ss N) := by
            cases ss with
            | nil =>
              cases K with
              | none => exact absurd ⟨rfl, rfl⟩ hlast
              | some k => have := hl; simp only [SStmt.litsOKL, Option.isSome] at this; exact this.1
            | cons s2 ss2 => have := hl; simp only [SStmt.litsOKL] at this; exact this.1
          have := hstmt hwfs hwfd (some K') (SStmt.mentionL ss N) E ρ P hcs (fun hh => by cases hh) hP hls hA
          simp only [Post] at this
          exact absurd this.1 (by simp)
      | normal σ1 =>
        simp only at h
        obtain ⟨hm2, hrest⟩ := hB ss σ1 _ C o μ' h
        subst hm2
        refine ⟨rfl, fun hwfN hwfD K N E ρ P hc hKN hP hl hA => ?_⟩
        have hwfs : ∀ x, x ∈ s.names → isTmp x = false := fun x hx => hwfN x (by simp [SStmt.namesL, hx])
        have hwfd : ∀ x, x ∈ s.defs → isTmp x = false := fun x hx => hwfD x (by simp [SStmt.defsL, hx])
        have hwfss : ∀ x, x ∈ SStmt.namesL ss → isTmp x = false := fun x hx => hwfN x (by simp [SStmt.namesL, hx])
        have hwfdd : ∀ x, x ∈ SStmt.defsL ss → isTmp x = false := fun x hx => hwfD x (by simp [SStmt.defsL, hx])
        by_cases hlast : ss = [] ∧ K = none
        · obtain ⟨rfl, rfl⟩ := hlast
          have hN : N = [] := hKN rfl
          subst hN
          simp only [compileB] at hc
          have hl' : s.litsOK C false [] := by
            have := hl; simp only [SStmt.litsOKL, Option.isSome] at this; exact this.1
          have := hstmt hwfs hwfd none [] E ρ P hc (fun _ => rfl) hP hl' (by simpa [SStmt.mentionL] using hA)
          simp only [Post] at this
          obtain ⟨_, _, k, hk, _⟩ := this
          cases hk
        · have hc' : ∃ K', compileB ss K N = some K' ∧ compileS s (some K') (SStmt.mentionL ss N) = some E := by
            cases ss with
            | nil =>
              cases K with
              | none => exact absurd ⟨rfl, rfl⟩ hlast
              | some k => simp only [compileB] at hc; exact ⟨k, rfl, hc⟩
            | cons s2 ss2 =>
              simp only [compileB] at hc
              cases hcc : compileB (s2 :: ss2) K N with
              | none => simp only [compileB] at hcc; rw [hcc] at hc; cases hc
              | some K' => simp only [compileB] at hcc; rw [hcc] at hc; exact ⟨K', rfl, hc⟩
          obtain ⟨K', hcK', hcs⟩ := hc'
          have hls : s.litsOK C true (SStmt.mentionL ss N) ∧ SStmt.litsOKL ss C K.isSome N := by
            cases ss with
            | nil =>
              cases K with
              | none => exact absurd ⟨rfl, rfl⟩ hlast
              | some k => have := hl; simp only [SStmt.litsOKL, Option.isSome] at this ⊢; exact ⟨this.1, trivial⟩
            | cons s2 ss2 => have := hl; simp only [SStmt.litsOKL] at this ⊢; exact this
          have hpost := hstmt hwfs hwfd (some K') (SStmt.mentionL ss N) E ρ P hcs (fun hh => by cases hh) hP hls.1 hA
          simp only [Post] at hpost
          obtain ⟨hdef1, hkeep1, k, hk, himp⟩ := hpost
          cases hk
          have hrest' : ∀ ρ', Agree (SStmt.mentionL ss N) ρ' σ1 → Post ρ' P K' K N (SStmt.defsL ss) σ1 o :=
            fun ρ' hA' => hrest hwfss hwfdd K N K' ρ' P hcK' hKN hP hls.2 hA'
          cases o with
          | ret v =>
            have h0 := hrest' σ1 (agree_refl _ _)
            simp only [Post] at h0 ⊢
            refine ⟨h0.1, himp v (fun ρ' hA' => ?_)⟩
            have := hrest' ρ' hA'
            simp only [Post] at this
            exact this.2
          | normal σ' =>
            have h0 := hrest' σ1 (agree_refl _ _)
            simp only [Post] at h0 ⊢
            obtain ⟨hdef2, hkeep2, k0, hk0, _⟩ := h0
            refine ⟨?_, ?_, k0, hk0, fun v hv => himp v (fun ρ' hA' => ?_)⟩
            · intro x hx
              by_cases hx2 : x ∈ SStmt.defsL ss
              · exact hdef2 x hx2
              · have hx1 : x ∈ s.defs := by
                  simp only [SStmt.defsL, List.mem_append] at hx
                  rcases hx with h | h
                  · exact h
                  · exact absurd h hx2
                obtain ⟨w, hw⟩ := hdef1 x hx1
                exact ⟨w, by rw [hkeep2 x hx2]; exact hw⟩
            · intro x hx
              simp only [SStmt.defsL, List.mem_append, not_or] at hx
              rw [hkeep2 x hx.2, hkeep1 x hx.1]
            · have := hrest' ρ' hA'
              simp only [Post] at this
              obtain ⟨_, _, k1, hk1, himp1⟩ := this
              rw [hk0] at hk1
              cases hk1
              exact himp1 v hv

/-! ### statements -/

theorem stmt_step (Φ : Funs) (f : Nat) (hB : BlockOK Φ f) : StmtOK Φ (f + 1) := by
  intro s σ μ C o μ' h
  cases s with
  | assign x e =>
    rw [SStmt.toLang, evalS_assign] at h
    cases h1 : evalE Φ f σ μ C e.toLang with
    | error err => rw [h1] at h; cases h
    | ok r1 =>
      obtain ⟨v, μ1⟩ := r1
      rw [h1] at h
      simp only [bind, Except.bind] at h
      obtain ⟨hm, ce⟩ := expr_sound Φ f e σ _ C v _ h1
      subst hm
      cases f with
      | zero => simp [evalE] at h1
      | succ g =>
        rw [bindPat_var] at h
        simp only [pure, Except.pure] at h
        cases h
        refine ⟨rfl, fun hwfN hwfD K N E ρ P hc hKN hP hl hA => ?_⟩
        cases K with
        | none => simp [compileS] at hc
        | some k =>
          simp only [compileS] at hc
          cases hc
          unfold Post
          refine ⟨fun y hy => ?_, fun y hy => ?_, k, rfl, fun w hw => ?_⟩
          · simp only [SStmt.defs, List.mem_singleton] at hy; subst hy; exact ⟨v, get?_set_self _ _ _⟩
          · simp only [SStmt.defs, List.mem_singleton] at hy; exact get?_set_ne _ _ _ _ hy
          · have hAe : Agree e.vars ρ σ := hA.mono (fun z hz => by simp [SStmt.mention, hz])
            have hTe : ∀ z, z ∈ e.vars → isTmp z = false := fun z hz => hwfN z (by simp [SStmt.names, hz])
            exact conv_let1 (ce ρ P hP hAe hTe)
              (hw _ (Agree.set x v (fun y hy hne ht => hA y (by simp [SStmt.mention, hy]) ht)))
  | ret e =>
    rw [SStmt.toLang, evalS_ret] at h
    cases h1 : evalE Φ f σ μ C e.toLang with
    | error err => rw [h1] at h; cases h
    | ok r1 =>
      obtain ⟨v, μ1⟩ := r1
      rw [h1] at h
      simp only [bind, Except.bind, pure, Except.pure] at h
      cases h
      obtain ⟨hm, ce⟩ := expr_sound Φ f e σ _ C v _ h1
      subst hm
      refine ⟨rfl, fun hwfN hwfD K N E ρ P hc hKN hP hl hA => ?_⟩
      cases K with
      | some k => simp [compileS] at hc
      | none =>
        simp only [compileS] at hc
        cases hc
        unfold Post
        exact ⟨rfl, ce ρ P hP (hA.mono (fun z hz => by simp [SStmt.mention, hz]))
          (fun z hz => hwfN z (by simp [SStmt.names, hz]))⟩
  | with_ d body =>
    rw [SStmt.toLang, evalS_with] at h
    cases f with
    | zero => simp [evalE, bind, Except.bind] at h
    | succ g =>
      rw [evalE_ctxLit] at h
      simp only [bind, Except.bind] at h
      obtain ⟨hm, hbody⟩ := hB body σ _ _ o _ h
      subst hm
      refine ⟨rfl, fun hwfN hwfD K N E ρ P hc hKN hP hl hA => ?_⟩
      have hwfN' : ∀ x, x ∈ SStmt.namesL body → isTmp x = false := fun x hx => hwfN x (by simpa [SStmt.names] using hx)
      have hwfD' : ∀ x, x ∈ SStmt.defsL body → isTmp x = false := fun x hx => hwfD x (by simpa [SStmt.defs] using hx)
      simp only [compileS] at hc
      cases hfd : fromDesc d with
      | none => rw [hfd] at hc; cases hc
      | some p =>
        rw [hfd] at hc
        simp only at hc
        obtain ⟨C', hC', hPu⟩ := fromDesc_ctx hfd P
        have hC0 : d.toCtx.getD .real = C' := by rw [hC']; rfl
        rw [hC0] at hbody
        simp only [SStmt.litsOK, hC'] at hl
        cases K with
        | none =>
          have hN : N = [] := hKN rfl
          subst hN
          simp only [Option.isSome, Bool.false_eq_true, if_false] at hl
          cases hcb : compileB body none [] with
          | none => rw [hcb] at hc; cases hc
          | some I =>
            rw [hcb] at hc
            simp only [Option.map] at hc
            cases hc
            have hA' : Agree (SStmt.mentionL body []) ρ σ := by
              have hf : (SStmt.defsL body).filter (fun x => ([] : List String).contains x) = [] := by simp
              refine hA.mono (fun z hz => ?_)
              simp only [SStmt.mention, hf, sortNames, List.foldr_nil, List.append_nil]
              exact hz
            have hpost := hbody hwfN' hwfD' none [] I ρ (P.update p) hcb (fun _ => rfl) hPu hl hA'
            cases o with
            | ret v =>
              unfold Post at hpost ⊢
              exact ⟨rfl, conv_ann hpost.2⟩
            | normal σb =>
              unfold Post at hpost
              obtain ⟨_, _, k, hk, _⟩ := hpost
              cases hk
        | some k =>
          simp only [Option.isSome, if_true] at hl
          have hmem : ∀ y, y ∈ sortNames ((SStmt.defsL body).filter (N.contains ·)) ↔ y ∈ SStmt.defsL body ∧ y ∈ N :=
            fun y => mem_passed y body N
          have hAm : ∀ z, z ∈ SStmt.mentionL body (sortNames ((SStmt.defsL body).filter (N.contains ·))) ∨ z ∈ N →
              z ∈ (SStmt.with_ d body).mention N := by
            intro z hz
            simp only [SStmt.mention, List.mem_append]
            rcases hz with hz | hz
            · exact Or.inl (Or.inl hz)
            · exact Or.inr hz
          generalize sortNames ((SStmt.defsL body).filter (N.contains ·)) = D at hc hl hmem hAm
          cases hcb : compileB body (some (retOf D)) D with
          | none => rw [hcb] at hc; cases hc
          | some I =>
            rw [hcb] at hc
            simp only [Option.map] at hc
            cases hc
            have hpost := hbody hwfN' hwfD' (some (retOf D)) D I ρ (P.update p) hcb (fun hh => by cases hh) hPu hl.2.2
              (hA.mono (fun z hz => hAm z (Or.inl hz)))
            cases o with
            | ret v =>
              unfold Post at hpost
              exact absurd hpost.1 (by simp)
            | normal σb =>
              unfold Post at hpost ⊢
              obtain ⟨hdefs, hkeep, k', hk', himp⟩ := hpost
              cases hk'
              refine ⟨by simpa [SStmt.defs] using hdefs, by simpa [SStmt.defs] using hkeep, k, rfl, fun w hw => ?_⟩
              have hDT : ∀ x, x ∈ D → isTmp x = false := fun x hx => hwfD' x ((hmem x).1 hx).1
              have hAN : ∀ ρ', (∀ y, isTmp y = false → ρ'.get? y = if y ∈ D then σb.get? y else ρ.get? y) →
                  Agree N ρ' σb := by
                intro ρ' hρ' y hy ht
                rw [hρ' y ht]
                by_cases hyD : y ∈ D
                · simp [hyD]
                · simp only [hyD, if_false]
                  have hnd : y ∉ SStmt.defsL body := fun hd => hyD ((hmem y).2 ⟨hd, hy⟩)
                  rw [hkeep y hnd]
                  exact hA y (hAm y (Or.inr hy)) ht
              cases D with
              | nil =>
                obtain ⟨r0, hr0, _⟩ := hl.1 rfl 0 (by omega)
                have cI := himp (.num r0) (fun ρ' _ => conv_num hPu hr0)
                refine conv_let1 (conv_ann cI) (hw _ (hAN _ (fun y ht => ?_)))
                simp only [List.not_mem_nil, if_false]
                exact get?_set_ne _ _ _ _ (isTmp_ne_us ht)
              | cons x D1 =>
                cases D1 with
                | nil =>
                  obtain ⟨w0, hw0⟩ := hdefs x ((hmem x).1 (by simp)).1
                  have cI := himp w0 (fun ρ' hA' => conv_var (by rw [hA' x (by simp) (hDT x (by simp))]; exact hw0))
                  refine conv_let1 (conv_ann cI) (hw _ (hAN _ (fun y ht => ?_)))
                  rw [get?_set]
                  by_cases hyx : y = x
                  · subst hyx; simp [hw0]
                  · simp [hyx]
                | cons y rest =>
                  have hb : ∀ z, z ∈ x :: y :: rest → ∃ w1, σb.get? z = some w1 := fun z hz => hdefs z ((hmem z).1 hz).1
                  have cI := himp (.tuple ((x :: y :: rest).map (fun z => (σb.get? z).getD default)))
                    (fun ρ' hA' => conv_array (convL_vars (P.update p) σb (x :: y :: rest) ρ' hDT hA' hb))
                  refine conv_bundle_many hP (x :: y :: rest) (.ann p I) k (fun z => (σb.get? z).getD default) w
                    hl.2.1 hDT (conv_ann cI) (fun ρ' hρ' => hw ρ' (hAN ρ' (fun z ht => ?_)))
                  rw [hρ' z ht]
                  by_cases hz : z ∈ x :: y :: rest
                  · obtain ⟨w1, hw1⟩ := hb z hz
                    simp only [hz, if_true, hw1, Option.getD]
                  · simp only [hz, if_false]
  | ifte c t e =>
    rw [SStmt.toLang, evalS_ifte] at h
    cases h1 : evalE Φ f σ μ C c.toLang with
    | error err => rw [h1] at h; cases h
    | ok r1 =>
      obtain ⟨cv, μ1⟩ := r1
      rw [h1] at h
      simp only [bind, Except.bind] at h
      obtain ⟨hm, cc⟩ := expr_sound Φ f c σ _ C cv _ h1
      subst hm
      cases cv with
      | num _ => simp [asBool] at h
      | ctx _ => simp [asBool] at h
      | tuple _ => simp [asBool] at h
      | list _ => simp [asBool] at h
      | bool b =>
        simp only [asBool] at h
        have hbr : evalB Φ f σ μ1 C (SStmt.toLangs (if b then t else e)) = .ok (o, μ') := by
          cases b <;> simpa using h
        obtain ⟨hm2, hbody⟩ := hB (if b then t else e) σ _ C o _ hbr
        subst hm2
        refine ⟨rfl, fun hwfN hwfD K N E ρ P hc hKN hP hl hA => ?_⟩
        cases K with
        | some k => simp [compileS] at hc
        | none =>
          simp only [compileS] at hc
          cases hT : compileB t none [] with
          | none => rw [hT] at hc; simp at hc
          | some T =>
            cases hF : compileB e none [] with
            | none => rw [hT, hF] at hc; simp at hc
            | some F =>
              rw [hT, hF] at hc
              simp only at hc
              cases hc
              simp only [SStmt.litsOK] at hl
              have hcond : Conv ρ P c.toF (.bool b) :=
                cc ρ P hP (hA.mono (fun z hz => by simp [SStmt.mention, hz]))
                  (fun z hz => hwfN z (by simp [SStmt.names, hz]))
              have hbranch : compileB (if b then t else e) none [] = some (if b then T else F) := by
                cases b <;> simpa
              have hpost := hbody
                (fun x hx => hwfN x (by cases b <;> simp_all [SStmt.names]))
                (fun x hx => hwfD x (by cases b <;> simp_all [SStmt.defs]))
                none [] (if b then T else F) ρ P hbranch (fun _ => rfl) hP
                (by cases b <;> simp_all)
                (hA.mono (fun z hz => by cases b <;> simp_all [SStmt.mention]))
              cases o with
              | ret v =>
                unfold Post at hpost ⊢
                exact ⟨rfl, conv_ite hcond hpost.2⟩
              | normal σb =>
                unfold Post at hpost
                obtain ⟨_, _, k, hk, _⟩ := hpost
                cases hk

theorem sound_all (Φ : Funs) : ∀ fuel, StmtOK Φ fuel ∧ BlockOK Φ fuel := by
  intro fuel
  induction fuel with
  | zero =>
    exact ⟨fun s σ μ C o μ' h => by simp [evalS] at h, fun ss σ μ C o μ' h => by simp [evalB] at h⟩
  | succ n ih => exact ⟨stmt_step Φ n ih.2, block_step Φ n ih.1 ih.2⟩

end Fpy.C12
