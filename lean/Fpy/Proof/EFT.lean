/-
Helper lemmas for property C20 (library decompositions are exact).
-/
import Fpy.Model.Lib
import Fpy.Props.C02
import Fpy.Proof.Exact
namespace Fpy.C20
open Fpy Fpy.Lib Fpy.Lang

theorem val_sub (x y : RF) : (x.sub y).val = x.val - y.val := by
  unfold RF.sub; rw [RF.val_add, RF.val_neg, Rat.sub_eq_add_neg]

/-! ## operations under the real context are the exact `RealFloat` operations -/

theorem real_add_fin (a b : RF) :
    ap .real .add [.fv (.fin a), .fv (.fin b)] = .ok (.fv (.fin (a.add b))) := rfl

theorem real_sub_fin (a b : RF) :
    ap .real .sub [.fv (.fin a), .fv (.fin b)] = .ok (.fv (.fin (a.sub b))) := rfl

theorem realMul_fin (a b : RF) : realMul (.fv (.fin a)) (.fv (.fin b)) = .fv (.fin (a.mul b)) := by
  unfold realMul RF.mul
  by_cases ha : a.c = 0 <;> by_cases hb : b.c = 0 <;>
    simp [nvIsNan, nvIsInf, nvIsZero, FV.isNan, FV.isInf, FV.isZero, nvSign, FV.sign, ha, hb]

theorem opNormalize_real_fv (args : List NV) (v : FV) (b : Bool) :
    (opNormalize .real args (.fv v) b).map (·.1) = .ok (.fv v) := by
  unfold opNormalize roundNV resToNV Ctx.roundAtCore
  cases b <;> simp [Ctx.isReal, Except.map]

theorem real_mul_fin (a b : RF) :
    ap .real .mul [.fv (.fin a), .fv (.fin b)] = .ok (.fv (.fin (a.mul b))) := by
  have h := opNormalize_real_fv [.fv (.fin a), .fv (.fin b)] (.fin (a.mul b)) true
  simp only [ap, opEval, opEvalFl, opEngines, List.map, cvtReal, Ctx.roundParams, exactEngine, realMul_fin]
  simpa using h

theorem real_fma_fin (a b c : RF) :
    ap .real .fma [.fv (.fin a), .fv (.fin b), .fv (.fin c)] = .ok (.fv (.fin ((a.mul b).add c))) := by
  have h := opNormalize_real_fv [.fv (.fin a), .fv (.fin b), .fv (.fin c)] (.fin ((a.mul b).add c)) true
  have h2 : realAdd (.fv (.fin (a.mul b))) (.fv (.fin c)) = .fv (.fin ((a.mul b).add c)) := rfl
  simp only [ap, opEval, opEvalFl, opEngines, List.map, cvtReal, Ctx.roundParams, exactEngine, realMul_fin, h2]
  simpa using h

/-- shape of an "ideal" transformation: a rounded result `s`, then the exact value `u` of the same
operation and `t = u - s`, both under the real context -/
theorem ideal_shape (first : Except Err NV) (u s : RF) (tv : NV)
    (h : (do let s' ← first
             let u' ← (Except.ok (NV.fv (.fin u)) : Except Err NV)
             let t ← ap .real .sub [u', s']
             pure (s', t) : Except Err (NV × NV)) = .ok (.fv (.fin s), tv)) :
    first = .ok (.fv (.fin s)) ∧ ∃ t : RF, tv = .fv (.fin t) ∧ s.val + t.val = u.val := by
  cases hf : first with
  | error e => rw [hf] at h; simp [bind, Except.bind] at h
  | ok s' =>
    rw [hf] at h
    simp only [bind, Except.bind, pure, Except.pure] at h
    cases ht : ap .real .sub [.fv (.fin u), s'] with
    | error e => rw [ht] at h; simp at h
    | ok t =>
      rw [ht] at h
      simp only [Except.ok.injEq, Prod.mk.injEq] at h
      obtain ⟨h1, h2⟩ := h
      subst h1
      rw [real_sub_fin] at ht
      simp only [Except.ok.injEq] at ht
      refine ⟨rfl, u.sub s, ?_, ?_⟩
      · rw [← h2, ← ht]
      · rw [val_sub]; grind

/-! ## `ctx.round(x, exact=True)` returns the value of `x` or raises -/

theorem rf_roundAtCore_exact (x : RF) (p : Option Nat) (n : Int) (emin : Option Int) (rm : RM) (y : RF) (fl : Flags)
    (h : x.roundAtCore p n emin rm true = .ok (y, fl)) : y.val = x.val := by
  have hs := RF.split_sum x n
  unfold RF.roundAtCore at h
  generalize x.split n = sp at h hs
  obtain ⟨kept, lost⟩ := sp
  cases p <;> cases emin <;> simp only [] at h hs <;>
  (by_cases hl : lost.c = 0
   · have hk : kept.val = x.val := by rw [← hs, RF.val_zero_c hl, Rat.add_zero]
     simp only [hl, if_true] at h
     split at h <;> simp only [Except.ok.injEq, Prod.mk.injEq] at h
     · rw [← h.1]
     · rw [← h.1, hk]
   · simp only [hl, if_false, if_true] at h
     split at h
     · simp only [Except.ok.injEq, Prod.mk.injEq] at h
       rw [← h.1]
     · simp at h)

theorem rf_roundAtStochastic_exact (x : RF) (p : Option Nat) (n : Int) (emin : Option Int) (rm : RM)
    (k? : Option Nat) (r : Nat) (y : RF) (fl : Flags)
    (h : x.roundAtStochastic p n emin rm k? r true = .ok (y, fl)) : y.val = x.val := by
  unfold RF.roundAtStochastic at h
  simp only [] at h
  generalize x.roundAtCore none _ none rm true = rc at h
  cases rc with
  | error e => simp at h
  | ok pr =>
    obtain ⟨xr, f⟩ := pr
    simp only [] at h
    exact rf_roundAtCore_exact _ _ _ _ _ _ _ h

theorem rf_round_exact (x : RF) (maxP : Option Nat) (minN : Option Int) (rm : RM) (k? : Option Nat) (r : Nat)
    (y : RF) (fl : Flags) (h : x.round maxP minN rm k? r true = .ok (y, fl)) : y.val = x.val := by
  unfold RF.round at h
  cases hp : x.roundParams maxP minN with
  | error e => rw [hp] at h; simp at h
  | ok pn =>
    obtain ⟨p, n⟩ := pn
    rw [hp] at h
    simp only [] at h
    by_cases hk : k? = some 0
    · rw [if_pos hk] at h; exact rf_roundAtCore_exact _ _ _ _ _ _ _ h
    · rw [if_neg hk] at h; exact rf_roundAtStochastic_exact _ _ _ _ _ _ _ _ _ h

theorem if_err_ok {α : Type} (b : Bool) (e : Err) (rest : Except Err α) (res : α)
    (h : (if b = true then Except.error e else rest) = .ok res) : rest = .ok res := by
  cases b <;> simp at h; exact h

theorem zero_unsign (xr : RF) (hz : xr.c = 0) : ({ xr with s := false } : RF).val = xr.val := by
  rw [RF.val_zero_c (x := { xr with s := false }) hz, RF.val_zero_c hz]

theorem mpbRoundAt_exact (c : MPBParams) (x : RF) (r : Nat) (res : Res)
    (h : mpbRoundAt c (.fin x) none true r = .ok res) : ∃ y : RF, res.v = .fin y ∧ y.val = x.val := by
  unfold mpbRoundAt at h
  simp only [floatSpecial] at h
  split at h
  · rename_i hc
    simp only [Except.ok.injEq] at h
    exact ⟨_, by rw [← h], by rw [RF.val_zero_c rfl, RF.val_zero_c hc]⟩
  · split at h
    · simp at h
    · rename_i rounded fl hr
      have hv := rf_round_exact _ _ _ _ _ _ _ _ hr
      simp only [if_true] at h
      have h' := if_err_ok _ _ _ _ h
      simp only [Except.ok.injEq] at h'
      exact ⟨rounded, by rw [← h'], hv⟩

theorem mpbfixRoundAt_exact (c : MPBFixParams) (x : RF) (r : Nat) (res : Res)
    (h : mpbfixRoundAt c (.fin x) none true r = .ok res) : ∃ y : RF, res.v = .fin y ∧ y.val = x.val := by
  unfold mpbfixRoundAt at h
  simp only [fixedSpecial] at h
  split at h
  · rename_i hc
    simp only [Except.ok.injEq] at h
    exact ⟨_, by rw [← h], by rw [RF.val_zero_c rfl, RF.val_zero_c hc]⟩
  · split at h
    · simp at h
    · rename_i xr fl hr
      have hv := rf_round_exact _ _ _ _ _ _ _ _ hr
      simp only [if_true] at h
      have h' := if_err_ok _ _ _ _ h
      split at h'
      · rename_i hz
        simp only [Except.ok.injEq] at h'
        refine ⟨_, by rw [← h'], ?_⟩
        have hz' : xr.c = 0 := by simp at hz; exact hz.1.1
        rw [zero_unsign xr hz', hv]
      · simp only [Except.ok.injEq] at h'
        exact ⟨xr, by rw [← h'], hv⟩

/-- every context family but the power-of-two `ExpContext` (where `round(x, exact=True)` RETURNS NaN for a zero
or negative `x` instead of raising — observed on the real code: `fp.MX_E8M0.round(-1.0, exact=True)`) -/
def NotExp : Ctx → Prop
  | .exp _ => False
  | _ => True

/-- every context family (but `ExpContext`): `ctx.round(x, exact=True)` on a finite `x` returns a finite value
denoting the same number, or raises -/
theorem ctx_roundAtCore_exact (C : Ctx) (hE : NotExp C) (x : RF) (r : Nat) (res : Res)
    (h : C.roundAtCore (.fin x) none true r = .ok res) : ∃ y : RF, res.v = .fin y ∧ y.val = x.val := by
  cases C with
  | exp c => exact absurd hE (by simp [NotExp])
  | real =>
    simp only [Ctx.roundAtCore, Except.ok.injEq] at h
    exact ⟨x, by rw [← h], rfl⟩
  | mp p rm k o =>
    simp only [Ctx.roundAtCore, floatSpecial] at h
    split at h
    · rename_i hc
      simp only [Except.ok.injEq] at h
      exact ⟨_, by rw [← h], by rw [RF.val_zero_c rfl, RF.val_zero_c hc]⟩
    · split at h
      · simp at h
      · rename_i xr fl hr
        simp only [Except.ok.injEq] at h
        exact ⟨xr, by rw [← h], rf_round_exact _ _ _ _ _ _ _ _ hr⟩
  | mps p emin rm k o =>
    simp only [Ctx.roundAtCore, floatSpecial] at h
    split at h
    · rename_i hc
      simp only [Except.ok.injEq] at h
      exact ⟨_, by rw [← h], by rw [RF.val_zero_c rfl, RF.val_zero_c hc]⟩
    · split at h
      · simp at h
      · rename_i xr fl hr
        simp only [Except.ok.injEq] at h
        exact ⟨xr, by rw [← h], rf_round_exact _ _ _ _ _ _ _ _ hr⟩
  | mpb c => exact mpbRoundAt_exact c x r res h
  | efloat c =>
    simp only [Ctx.roundAtCore] at h
    split at h
    · simp at h
    · rename_i res' hr
      obtain ⟨y, hy, hv⟩ := mpbRoundAt_exact c.mpb x r res' hr
      unfold efloatFixup at h
      rw [hy] at h
      simp only [] at h
      split at h
      · rename_i hz
        simp only [Except.ok.injEq] at h
        refine ⟨_, by rw [← h], ?_⟩
        have hz' : y.c = 0 := by simp at hz; exact hz.1.1
        rw [RF.val_zero_c (x := { y with s := false }) hz', ← hv, RF.val_zero_c hz']
      · simp only [Except.ok.injEq] at h
        exact ⟨y, by rw [← h, hy], hv⟩
  | mpfix nmin rm k negZero o =>
    simp only [Ctx.roundAtCore, fixedSpecial] at h
    split at h
    · rename_i hc
      simp only [Except.ok.injEq] at h
      exact ⟨_, by rw [← h], by rw [RF.val_zero_c rfl, RF.val_zero_c hc]⟩
    · split at h
      · simp at h
      · rename_i xr fl hr
        have hv := rf_round_exact _ _ _ _ _ _ _ _ hr
        split at h
        · rename_i hz
          simp only [Except.ok.injEq] at h
          refine ⟨_, by rw [← h], ?_⟩
          have hz' : xr.c = 0 := by simp at hz; exact hz.1.1
          rw [RF.val_zero_c (x := { xr with s := false }) hz', ← hv, RF.val_zero_c hz']
        · simp only [Except.ok.injEq] at h
          exact ⟨xr, by rw [← h], hv⟩
  | mpbfix c => exact mpbfixRoundAt_exact c x r res h

/-- `ctx.round(x, exact=True)` on a `RealFloat` operand -/
theorem ctx_round_real_exact (C : Ctx) (hE : NotExp C) (x : RF) (res : Res) (h : C.round (.real x) true = .ok res) :
    ∃ y : RF, res.v = .fin y ∧ y.val = x.val := by
  unfold Ctx.round prepare at h
  exact ctx_roundAtCore_exact C hE x 0 res h

/-- `ctx.round(x, exact=True)` on a finite `Float` operand -/
theorem ctx_round_flt_exact (C : Ctx) (hE : NotExp C) (x : RF) (res : Res) (h : C.round (.flt (.fin x)) true = .ok res) :
    ∃ y : RF, res.v = .fin y ∧ y.val = x.val := by
  unfold Ctx.round prepare at h
  exact ctx_roundAtCore_exact C hE x 0 res h

theorem round_flt_eq_real (C : Ctx) (y : RF) (ex : Bool) : C.round (.flt (.fin y)) ex = C.round (.real y) ex := rfl

/-- two exact roundings in a row, as `split` / `modf` / `frexp` perform them -/
theorem round_pair_exact (C : Ctx) (hE : NotExp C) (y1 y2 : RF) (hi lo : FV)
    (h : (do let a ← C.round (.real y1) true
             let b ← C.round (.real y2) true
             pure (a.v, b.v) : Except Err (FV × FV)) = .ok (hi, lo)) :
    ∃ h' l' : RF, hi = .fin h' ∧ lo = .fin l' ∧ h'.val = y1.val ∧ l'.val = y2.val := by
  cases h1 : C.round (.real y1) true with
  | error e => rw [h1] at h; simp [bind, Except.bind] at h
  | ok a =>
    cases h2 : C.round (.real y2) true with
    | error e => rw [h1, h2] at h; simp [bind, Except.bind] at h
    | ok b =>
      rw [h1, h2] at h
      simp only [bind, Except.bind, pure, Except.pure, Except.ok.injEq, Prod.mk.injEq] at h
      obtain ⟨ya, hya, hva⟩ := ctx_round_real_exact C hE y1 a h1
      obtain ⟨yb, hyb, hvb⟩ := ctx_round_real_exact C hE y2 b h2
      exact ⟨ya, yb, by rw [← h.1, hya], by rw [← h.2, hyb], hva, hvb⟩

/-- the mantissa of `frexp` times `2^e` is the operand, `e` its normalized exponent -/
theorem frexpMant_val (x : RF) : (frexpMant x).val * (2 : Rat) ^ x.e = x.val := by
  unfold frexpMant
  rw [RF.val_mk, RF.val_eq x, Rat.mul_assoc, ← RF.two_zpow_add]
  congr 2
  unfold RF.e RF.p
  omega

/-- the high part of a split at digit −1 is an integer -/
theorem split_hi_integer (x : RF) : ∃ k : Int, (x.split (-1)).1.val = (k : Rat) := by
  apply (RF.isInteger_iff _).1
  have h := (RF.split_ranges x (-1)).1
  unfold RF.isInteger RF.isMoreSignificant
  by_cases hc : (x.split (-1)).1.c = 0
  · simp [hc]
  · have : (x.split (-1)).1.exp > -1 := by omega
    simp [hc, this]

theorem toInt_ofInt (i : Int) : (RF.ofInt i).toInt? = some i := by
  unfold RF.toInt? RF.isInteger RF.isMoreSignificant RF.ofInt
  by_cases h : i = 0
  · subst h; simp
  · have hc : i.natAbs ≠ 0 := by omega
    simp [hc]
    omega

/-! ## `ldexp`: the scale `2 ** n` is computed exactly under the real context -/

theorem modf_real_fin (x : RF) (hc : x.c ≠ 0) :
    modf .real (.fin x) = .ok (.fin (x.split (-1)).1, .fin (x.split (-1)).2) := by
  unfold modf
  simp only [hc, if_false]
  rfl

theorem isinteger_real_ofInt (i : Int) : isinteger .real (.fv (.fin (RF.ofInt i))) = .ok true := by
  by_cases h : i = 0
  · subst h; rfl
  · have hn : i.natAbs ≠ 0 := by omega
    have hc : (RF.ofInt i).c ≠ 0 := hn
    have hs : (RF.ofInt i).split (-1) = (RF.ofInt i, ⟨decide (i < 0), -1, 0⟩) := by
      unfold RF.ofInt RF.split RF.e RF.p
      have hb := bitLength_pos hn
      have h1 : ¬ ((-1 : Int) ≥ 0 + (bitLength i.natAbs : Int) - 1) := by omega
      simp [hn]
      omega
    have hm := modf_real_fin (RF.ofInt i) hc
    unfold isinteger asFloat
    simp only [bind, Except.bind, hm, hs]
    generalize decide (i < 0) = sg
    cases sg <;> rfl

theorem pow2_real_ofInt (i : Int) :
    ap .real .pow [lit 2, .fv (.fin (RF.ofInt i))] = .ok (.fv (.fin ⟨false, i, 1⟩)) := by
  have hx : cvtReal (lit 2) = .fv (.fin ⟨false, 0, 2⟩) := by decide
  have hp : realPow (.fv (.fin ⟨false, 0, 2⟩)) (.fv (.fin (RF.ofInt i))) = some (.fv (.fin ⟨false, i, 1⟩)) := by
    unfold realPow
    have hl : nvLog2Exact (.fv (.fin ⟨false, 0, 2⟩)) = some 1 := by decide
    simp only [nvIntValue, toInt_ofInt, hl]
    simp [nvIsNan, nvIsInf, nvIsZero, nvSign, FV.isNan, FV.isInf, FV.isZero, FV.sign]
  have h := opNormalize_real_fv [.fv (.fin ⟨false, 0, 2⟩), .fv (.fin (RF.ofInt i))] (.fin ⟨false, i, 1⟩) true
  have hy : cvtReal (.fv (.fin (RF.ofInt i))) = .fv (.fin (RF.ofInt i)) := rfl
  simp only [ap, List.map, hx, hy]
  simp only [opEval, opEvalFl, opEngines, Ctx.roundParams, exactEngine, hp]
  simpa using h

/-- `ldexp(x, n)` for an integer `n` is the single operation `x * 2^n` under the caller's context -/
theorem ldexp_eq_mul (C : Ctx) (x : NV) (i : Int) :
    ldexp C x (.fv (.fin (RF.ofInt i))) = ap C .mul [x, .fv (.fin ⟨false, i, 1⟩)] := by
  unfold ldexp
  rw [isinteger_real_ofInt, pow2_real_ofInt]
  rfl

theorem pow2_val (i : Int) : (⟨false, i, 1⟩ : RF).val = (2 : Rat) ^ i := by
  rw [RF.val_mk]; simp [RF.sgn]

theorem val_ofInt (i : Int) : (RF.ofInt i).val = (i : Rat) := by
  unfold RF.ofInt
  rw [RF.val_ofSigned]; simp

/-- `ctx.round(i, exact=True)` on a Python `int` -/
theorem ctx_round_int_exact (C : Ctx) (hE : NotExp C) (i : Int) (res : Res) (h : C.round (.int i) true = .ok res) :
    ∃ y : RF, res.v = .fin y ∧ y.val = (i : Rat) := by
  unfold Ctx.round prepare at h
  obtain ⟨y, hy, hv⟩ := ctx_roundAtCore_exact C hE (RF.ofInt i) 0 res h
  exact ⟨y, hy, by rw [hv, val_ofInt]⟩

end Fpy.C20
