/-
Helper lemmas for C14: membership in an abstract format in terms of scaled integers, and the
soundness of the bound / precision computations of `AbstractFormat`'s operators.
-/
import Fpy.Proof.RFOrder
namespace Fpy
open RF

namespace Bnd

/-- `x.sc g` of a finite bound is meaningful at scale `g` -/
def okAt (b : Bnd) (g : Int) : Prop :=
  match b with | fin p => p.okAt g | _ => True

/-- exponent of a finite bound (0 otherwise): a scale no larger than this is fine -/
def lvl : Bnd → Int | fin p => p.exp | _ => 0

theorem okAt_of_le_lvl (b : Bnd) (g : Int) (h : g ≤ b.lvl) : b.okAt g := by
  cases b <;> simp [okAt, lvl] at * <;> exact Or.inr h

/-- `X ≤ b` with `X` in units of `2^g` -/
def ub (b : Bnd) (g : Int) (X : Int) : Prop :=
  match b with | fin p => X ≤ p.sc g | inf s => s = false | nan => False

/-- `b ≤ X` with `X` in units of `2^g` -/
def lb (b : Bnd) (g : Int) (X : Int) : Prop :=
  match b with | fin n => n.sc g ≤ X | inf s => s = true | nan => False

theorem above_iff (b : Bnd) (x : RF) (g : Int) (hb : b.okAt g) (hx : x.okAt g) :
    b.above x ↔ b.ub g (x.sc g) := by
  cases b with
  | fin p => exact leV_iff x p g hx hb
  | inf s => exact Iff.rfl
  | nan => exact Iff.rfl

theorem below_iff (b : Bnd) (x : RF) (g : Int) (hb : b.okAt g) (hx : x.okAt g) :
    b.below x ↔ b.lb g (x.sc g) := by
  cases b with
  | fin p => exact leV_iff p x g hb hx
  | inf s => exact Iff.rfl
  | nan => exact Iff.rfl

theorem ub_mono {b : Bnd} {g : Int} {X Y : Int} (h : b.ub g X) (hxy : Y ≤ X) : b.ub g Y := by
  cases b <;> simp [ub] at * <;> first | omega | exact h

theorem lb_mono {b : Bnd} {g : Int} {X Y : Int} (h : b.lb g X) (hxy : X ≤ Y) : b.lb g Y := by
  cases b <;> simp [lb] at * <;> first | omega | exact h

/-! #### `+` on bounds -/

theorem add_ub (u v : Bnd) (g : Int) (X Y : Int) (hu : u.okAt g) (hv : v.okAt g)
    (h1 : u.ub g X) (h2 : v.ub g Y) : (u.add v).okAt g ∧ (u.add v).ub g (X + Y) := by
  cases u with
  | fin p =>
    cases v with
    | fin q =>
      have := add_sc p q g hu hv
      simp only [Bnd.add, okAt, ub] at *
      exact ⟨this.1, by rw [this.2]; omega⟩
    | inf t => simp [Bnd.add, okAt, ub] at *; exact h2
    | nan => simp [ub] at h2
  | inf s =>
    cases v with
    | fin q => simp [Bnd.add, okAt, ub] at *; exact h1
    | inf t =>
      simp only [ub] at h1 h2; subst h1; subst h2
      simp [Bnd.add, okAt, ub]
    | nan => simp [ub] at h2
  | nan => simp [ub] at h1

theorem add_lb (u v : Bnd) (g : Int) (X Y : Int) (hu : u.okAt g) (hv : v.okAt g)
    (h1 : u.lb g X) (h2 : v.lb g Y) : (u.add v).okAt g ∧ (u.add v).lb g (X + Y) := by
  cases u with
  | fin p =>
    cases v with
    | fin q =>
      have := add_sc p q g hu hv
      simp only [Bnd.add, okAt, lb] at *
      exact ⟨this.1, by rw [this.2]; omega⟩
    | inf t => simp [Bnd.add, okAt, lb] at *; exact h2
    | nan => simp [lb] at h2
  | inf s =>
    cases v with
    | fin q => simp [Bnd.add, okAt, lb] at *; exact h1
    | inf t =>
      simp only [lb] at h1 h2; subst h1; subst h2
      simp [Bnd.add, okAt, lb]
    | nan => simp [lb] at h2
  | nan => simp [lb] at h1

/-! #### unary minus and `abs` on bounds -/

theorem neg_okAt {b : Bnd} {g : Int} (h : b.okAt g) : b.neg.okAt g := by
  cases b <;> simp [Bnd.neg, okAt] at * <;> exact h

theorem neg_ub_of_lb (b : Bnd) (g : Int) (X : Int) (h : b.lb g X) : b.neg.ub g (-X) := by
  cases b with
  | fin p => simp only [Bnd.neg, ub, lb] at *; rw [neg_sc]; omega
  | inf s => simp [Bnd.neg, ub, lb] at *; exact h
  | nan => simp [lb] at h

theorem neg_lb_of_ub (b : Bnd) (g : Int) (X : Int) (h : b.ub g X) : b.neg.lb g (-X) := by
  cases b with
  | fin p => simp only [Bnd.neg, ub, lb] at *; rw [neg_sc]; omega
  | inf s => simp [Bnd.neg, ub, lb] at *; exact h
  | nan => simp [ub] at h

/-! #### comparisons, `max`, `min` on bounds -/

theorem gt_fin_iff (p q : RF) (g : Int) (hp : p.okAt g) (hq : q.okAt g) :
    Bnd.gt (.fin p) (.fin q) = true ↔ q.sc g < p.sc g := by
  simp only [Bnd.gt, Bnd.cmp]
  rw [compare_spec p q g hp hq]
  simp [Int.compare_eq_gt]

theorem lt_fin_iff (p q : RF) (g : Int) (hp : p.okAt g) (hq : q.okAt g) :
    Bnd.lt (.fin p) (.fin q) = true ↔ p.sc g < q.sc g := by
  simp only [Bnd.lt, Bnd.cmp]
  rw [compare_spec p q g hp hq]
  simp [Int.compare_eq_lt]

/-- `max(u, v)`: if it is not `nan`, it is above whatever `u` or `v` is above -/
theorem max2_ub (u v : Bnd) (g : Int) (X : Int) (hu : u.okAt g) (hv : v.okAt g)
    (hn : u ≠ .nan) (h : u.ub g X ∨ (v.ub g X)) : (u.max2 v).okAt g ∧ (u.max2 v).ub g X := by
  unfold Bnd.max2
  cases u with
  | nan => exact absurd rfl hn
  | fin p =>
    cases v with
    | nan =>
      have : Bnd.gt .nan (.fin p) = false := rfl
      simp only [this, Bool.false_eq_true, if_false]
      rcases h with h | h
      · exact ⟨hu, h⟩
      · simp [ub] at h
    | fin q =>
      by_cases hgt : Bnd.gt (.fin q) (.fin p) = true
      · have := (gt_fin_iff q p g hv hu).1 hgt
        rw [if_pos hgt]
        refine ⟨hv, ?_⟩
        rcases h with h | h
        · simp only [ub] at *; omega
        · exact h
      · have hh : ¬ p.sc g < q.sc g := fun c => hgt ((gt_fin_iff q p g hv hu).2 c)
        rw [if_neg hgt]
        refine ⟨hu, ?_⟩
        rcases h with h | h
        · exact h
        · simp only [ub] at *; omega
    | inf t =>
      cases t with
      | false =>
        have : Bnd.gt (.inf false) (.fin p) = true := rfl
        rw [if_pos this]; exact ⟨trivial, rfl⟩
      | true =>
        have : Bnd.gt (.inf true) (.fin p) = false := rfl
        simp only [this, Bool.false_eq_true, if_false]
        rcases h with h | h
        · exact ⟨hu, h⟩
        · simp [ub] at h
  | inf s =>
    cases s with
    | false =>
      have : Bnd.gt v (.inf false) = false := by cases v <;> try rfl
                                                 all_goals (rename_i t; cases t <;> rfl)
      simp only [this, Bool.false_eq_true, if_false]
      exact ⟨trivial, rfl⟩
    | true =>
      cases v with
      | nan =>
        rcases h with h | h <;> simp [ub] at h
      | fin q =>
        have : Bnd.gt (.fin q) (.inf true) = true := rfl
        rw [if_pos this]
        rcases h with h | h
        · simp [ub] at h
        · exact ⟨hv, h⟩
      | inf t =>
        cases t with
        | false =>
          have : Bnd.gt (.inf false) (.inf true) = true := rfl
          rw [if_pos this]; exact ⟨trivial, rfl⟩
        | true => rcases h with h | h <;> simp [ub] at h

/-- `min(u, v)`: if it is not `nan`, it is below whatever `u` or `v` is below -/
theorem min2_lb (u v : Bnd) (g : Int) (X : Int) (hu : u.okAt g) (hv : v.okAt g)
    (hn : u ≠ .nan) (h : u.lb g X ∨ (v.lb g X)) : (u.min2 v).okAt g ∧ (u.min2 v).lb g X := by
  unfold Bnd.min2
  cases u with
  | nan => exact absurd rfl hn
  | fin p =>
    cases v with
    | nan =>
      have : Bnd.lt .nan (.fin p) = false := rfl
      simp only [this, Bool.false_eq_true, if_false]
      rcases h with h | h
      · exact ⟨hu, h⟩
      · simp [lb] at h
    | fin q =>
      by_cases hlt : Bnd.lt (.fin q) (.fin p) = true
      · have := (lt_fin_iff q p g hv hu).1 hlt
        rw [if_pos hlt]
        refine ⟨hv, ?_⟩
        rcases h with h | h
        · simp only [lb] at *; omega
        · exact h
      · have hh : ¬ q.sc g < p.sc g := fun c => hlt ((lt_fin_iff q p g hv hu).2 c)
        rw [if_neg hlt]
        refine ⟨hu, ?_⟩
        rcases h with h | h
        · exact h
        · simp only [lb] at *; omega
    | inf t =>
      cases t with
      | true =>
        have : Bnd.lt (.inf true) (.fin p) = true := rfl
        rw [if_pos this]; exact ⟨trivial, rfl⟩
      | false =>
        have : Bnd.lt (.inf false) (.fin p) = false := rfl
        simp only [this, Bool.false_eq_true, if_false]
        rcases h with h | h
        · exact ⟨hu, h⟩
        · simp [lb] at h
  | inf s =>
    cases s with
    | true =>
      have : Bnd.lt v (.inf true) = false := by cases v <;> try rfl
                                                all_goals (rename_i t; cases t <;> rfl)
      simp only [this, Bool.false_eq_true, if_false]
      exact ⟨trivial, rfl⟩
    | false =>
      cases v with
      | nan =>
        rcases h with h | h <;> simp [lb] at h
      | fin q =>
        have : Bnd.lt (.fin q) (.inf false) = true := rfl
        rw [if_pos this]
        rcases h with h | h
        · simp [lb] at h
        · exact ⟨hv, h⟩
      | inf t =>
        cases t with
        | true =>
          have : Bnd.lt (.inf true) (.inf false) = true := rfl
          rw [if_pos this]; exact ⟨trivial, rfl⟩
        | false => rcases h with h | h <;> simp [lb] at h

end Bnd

/-! ### writability in integer terms -/

/-- `X` (in units of `2^g`) is a multiple of `2^E` -/
def IMul (E g : Int) (X : Int) : Prop := ∃ k : Int, X = k * 2 ^ (E - g).toNat

/-- integer form of `Writable`: `|X| = m · 2^(e - g)` with `m < 2^prec`, `e ≥ exp` -/
def IW (prec : Option Nat) (exp : Option Int) (g : Int) (X : Int) : Prop :=
  ∃ (m : Nat) (e : Int), g ≤ e ∧ X.natAbs = m * 2 ^ (e - g).toNat ∧
    (∀ p, prec = some p → m < 2 ^ p) ∧ (∀ E, exp = some E → E ≤ e)

theorem natAbs_sc (x : RF) (g : Int) : (x.sc g).natAbs = x.mag g := by
  rw [sc_eq_mag]; cases x.s <;> simp [Int.natAbs_mul]

theorem IMul_zero (E g : Int) : IMul E g 0 := ⟨0, by simp⟩

theorem IMul_add {E g : Int} {X Y : Int} (h1 : IMul E g X) (h2 : IMul E g Y) : IMul E g (X + Y) := by
  obtain ⟨k1, rfl⟩ := h1; obtain ⟨k2, rfl⟩ := h2
  exact ⟨k1 + k2, by grind⟩

theorem IMul_neg {E g : Int} {X : Int} (h1 : IMul E g X) : IMul E g (-X) := by
  obtain ⟨k1, rfl⟩ := h1
  exact ⟨-k1, by grind⟩

theorem IMul_weaken {E E' g : Int} {X : Int} (h : IMul E g X) (hg : g ≤ E') (hE : E' ≤ E) : IMul E' g X := by
  obtain ⟨k, rfl⟩ := h
  refine ⟨k * 2 ^ (E - E').toNat, ?_⟩
  have : (E - g).toNat = (E - E').toNat + (E' - g).toNat := by omega
  rw [this, Int.pow_add]; grind

theorem IW_IMul {prec : Option Nat} {E g : Int} {X : Int} (h : IW prec (some E) g X) (hg : g ≤ E) : IMul E g X := by
  obtain ⟨m, e, hge, hm, _, hE⟩ := h
  have hEe := hE E rfl
  have : (e - g).toNat = (e - E).toNat + (E - g).toNat := by omega
  rw [this, Nat.pow_add] at hm
  by_cases hX : 0 ≤ X
  · refine ⟨(m * 2 ^ (e - E).toNat : Nat), ?_⟩
    have : X = (X.natAbs : Int) := by omega
    rw [this, hm]; simp [Int.natCast_mul, Int.natCast_pow]; grind
  · refine ⟨-((m * 2 ^ (e - E).toNat : Nat) : Int), ?_⟩
    have : X = -(X.natAbs : Int) := by omega
    rw [this, hm]; simp [Int.natCast_mul, Int.natCast_pow]; grind

/-- `Writable` for a non-zero `x`, read at any admissible scale -/
theorem writable_iff (a : AbsFmt) (x : RF) (g : Int) (hc : x.c ≠ 0) (hg : g ≤ x.exp) :
    a.Writable x ↔ IW a.prec a.exp g (x.sc g) := by
  constructor
  · rintro ⟨w, hwx, hws, hp, hE⟩
    by_cases hwg : g ≤ w.exp
    · refine ⟨w.c, w.exp, hwg, ?_, hp, hE⟩
      have := (eqV_iff w x g (Or.inr hwg) (Or.inr hg)).1 hwx
      rw [← this, natAbs_sc]; rfl
    · -- the witness sits below the scale: then `x`'s own digits are a witness
      have hlt : w.exp < x.exp := by omega
      have h1 := (eqV_iff w x w.exp (okAt_self w) (Or.inr (by omega))).1 hwx
      have h2 : (w.sc w.exp).natAbs = (x.sc w.exp).natAbs := by rw [h1]
      rw [natAbs_sc, natAbs_sc] at h2
      unfold mag at h2
      simp only [Int.sub_self, Int.toNat_zero, Nat.pow_zero, Nat.mul_one] at h2
      have hle : x.c ≤ w.c := by
        rw [h2]; exact Nat.le_mul_of_pos_right _ (Nat.pow_pos (by decide))
      refine ⟨x.c, x.exp, hg, natAbs_sc x g, fun p hpp => Nat.lt_of_le_of_lt hle (hp p hpp), fun E hEE => ?_⟩
      have := hE E hEE; omega
  · rintro ⟨m, e, hge, hm, hp, hE⟩
    refine ⟨⟨x.s, e, m⟩, ?_, rfl, hp, hE⟩
    rw [eqV_iff _ x g (Or.inr hge) (Or.inr hg)]
    rw [natAbs_sc] at hm
    rw [sc_eq_mag, sc_eq_mag]
    simp only [mag] at hm ⊢
    rw [hm]

/-- a non-zero multiple `k · 2^(E-g)` bounded by `C · 2^(E-g)` has `|k| ≤ C` -/
theorem natAbs_le_of_mul_le {k : Int} {C : Nat} {U : Int} (hU : 0 < U) (h : (k * U).natAbs ≤ (C * U).natAbs) :
    k.natAbs ≤ C := by
  rw [Int.natAbs_mul, Int.natAbs_mul] at h
  have hU' : 0 < U.natAbs := by omega
  have := Nat.le_of_mul_le_mul_right h hU'
  simpa using this

theorem lt_two_pow_max (C : Nat) : C < 2 ^ (max (bitLength C) 1) := by
  have h1 : C < 2 ^ bitLength C := (bitLength_le_iff C _).1 (Nat.le_refl _)
  have h2 : 2 ^ bitLength C ≤ 2 ^ (max (bitLength C) 1) := Nat.pow_le_pow_right (by decide) (by omega)
  omega

namespace AbsFmt

/-- membership of a non-zero finite value, at any admissible scale -/
theorem finMem_iff (a : AbsFmt) (x : RF) (g : Int) (hc : x.c ≠ 0) (hg : g ≤ x.exp)
    (hp : a.pos.okAt g) (hn : a.neg.okAt g) :
    a.finMem x ↔ IW a.prec a.exp g (x.sc g) ∧ a.neg.lb g (x.sc g) ∧ a.pos.ub g (x.sc g) := by
  unfold finMem
  simp only [hc, if_false]
  rw [writable_iff a x g hc hg, Bnd.below_iff _ x g hn (Or.inr hg), Bnd.above_iff _ x g hp (Or.inr hg)]

theorem finMem_zero (a : AbsFmt) (x : RF) (hc : x.c = 0) : a.finMem x ↔ (x.s = true → a.negZero = true) := by
  unfold finMem; simp [hc]

/-- zero lies within well-formed bounds -/
theorem wf_zero (a : AbsFmt) (h : a.WF) (g : Int) : a.neg.lb g 0 ∧ a.pos.ub g 0 := by
  obtain ⟨hp, hn, _⟩ := h
  constructor
  · rcases hn with h | ⟨n, h, hs⟩
    · rw [h]; rfl
    · rw [h]; simp only [Bnd.lb]
      rcases hs with hs | hs
      · rw [sc_zero n g hs]; omega
      · by_cases hc : n.c = 0
        · rw [sc_zero n g hc]; omega
        · have := sc_neg n g hc hs; omega
  · rcases hp with h | ⟨p, h, hs⟩
    · rw [h]; rfl
    · rw [h]; simp only [Bnd.ub]
      rcases hs with hs | hs
      · rw [sc_zero p g hs]; omega
      · by_cases hc : p.c = 0
        · rw [sc_zero p g hc]; omega
        · have := sc_pos p g hc hs; omega

/-- what every finite member of a well-formed format satisfies, zero or not -/
theorem mem_facts (a : AbsFmt) (h : a.WF) (x : RF) (g : Int) (hm : a.finMem x) (hx : x.okAt g)
    (hp : a.pos.okAt g) (hn : a.neg.okAt g) :
    a.neg.lb g (x.sc g) ∧ a.pos.ub g (x.sc g) ∧ (∀ E, a.exp = some E → g ≤ E → IMul E g (x.sc g)) ∧
      (x.c ≠ 0 → IW a.prec a.exp g (x.sc g)) := by
  by_cases hc : x.c = 0
  · rw [sc_zero x g hc]
    have := wf_zero a h g
    exact ⟨this.1, this.2, fun E _ _ => IMul_zero E g, fun h => absurd hc h⟩
  · have hg : g ≤ x.exp := by rcases hx with hh | hh; exact absurd hh hc; exact hh
    have := (finMem_iff a x g hc hg hp hn).1 hm
    refine ⟨this.2.1, this.2.2, fun E hE hgE => ?_, fun _ => this.1⟩
    have h1 := this.1
    rw [hE] at h1
    exact IW_IMul h1 hgE


theorem wf_pos_ne_nan {a : AbsFmt} (h : a.WF) : a.pos ≠ .nan ∧ a.neg ≠ .nan := by
  obtain ⟨hp, hn, _⟩ := h
  constructor
  · rcases hp with h | ⟨p, h, _⟩ <;> rw [h] <;> simp
  · rcases hn with h | ⟨p, h, _⟩ <;> rw [h] <;> simp

end AbsFmt

/-- level of an optional exponent bound -/
def olvl : Option Int → Int | some e => e | none => 0

theorem IW_free (g X : Int) : IW none none g X :=
  ⟨X.natAbs, g, Int.le_refl _, by simp, nofun, nofun⟩

theorem natAbs_mul_pow (k : Int) (n : Nat) : (k * 2 ^ n).natAbs = k.natAbs * 2 ^ n := by
  rw [Int.natAbs_mul, Int.natAbs_pow]; rfl

theorem IW_of_mul (prec : Option Nat) (E g X k : Int) (hg : g ≤ E) (hk : X = k * 2 ^ (E - g).toNat)
    (hp : ∀ p, prec = some p → k.natAbs < 2 ^ p) : IW prec (some E) g X :=
  ⟨k.natAbs, E, hg, by rw [hk, natAbs_mul_pow], hp, fun E' h => by cases h; exact Int.le_refl _⟩

theorem IW_exp_none_of_mul (prec : Option Nat) (E g X k : Int) (hg : g ≤ E) (hk : X = k * 2 ^ (E - g).toNat)
    (hp : ∀ p, prec = some p → k.natAbs < 2 ^ p) : IW prec none g X :=
  ⟨k.natAbs, E, hg, by rw [hk, natAbs_mul_pow], hp, nofun⟩

theorem IW_neg {prec : Option Nat} {exp : Option Int} {g X : Int} (h : IW prec exp g X) : IW prec exp g (-X) := by
  obtain ⟨m, e, h1, h2, h3, h4⟩ := h
  exact ⟨m, e, h1, by rw [Int.natAbs_neg]; exact h2, h3, h4⟩

theorem IW_weaken {p p' : Option Nat} {E E' : Option Int} {g X : Int} (h : IW p E g X)
    (hp : ∀ q', p' = some q' → ∃ q, p = some q ∧ q ≤ q')
    (hE : ∀ e', E' = some e' → ∃ e, E = some e ∧ e' ≤ e) : IW p' E' g X := by
  obtain ⟨m, e, h1, h2, h3, h4⟩ := h
  refine ⟨m, e, h1, h2, fun q' hq' => ?_, fun e' he' => ?_⟩
  · obtain ⟨q, hq, hle⟩ := hp q' hq'
    exact Nat.lt_of_lt_of_le (h3 q hq) (Nat.pow_le_pow_right (by decide) hle)
  · obtain ⟨e0, he0, hle⟩ := hE e' he'
    have := h4 e0 he0; omega

end Fpy
