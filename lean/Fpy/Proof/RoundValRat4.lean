/-
Part 13 of the value-level helpers for C01: `Context.round` of a non-dyadic `Fraction`, whole
contexts (deterministic rounding).
-/
import Fpy.Proof.RoundValRat3
import Fpy.Proof.RoundValCtx5
namespace Fpy.C01v
open Fpy Fpy.Spec

theorem intCast_eq_sgn_natAbs (num : Int) :
    (num : Rat) = RF.sgn (decide (num < 0)) * ((num.natAbs : Nat) : Rat) := by
  by_cases h : num < 0
  · have : num = -((num.natAbs : Nat) : Int) := by omega
    conv => lhs; rw [this]
    simp [h, RF.sgn, Rat.intCast_neg, Rat.intCast_natCast, Rat.neg_mul]
  · have : num = ((num.natAbs : Nat) : Int) := by omega
    conv => lhs; rw [this]
    simp [h, RF.sgn, Rat.intCast_natCast]

/-- the value of the `Fraction` operand -/
theorem frac_val (num : Int) (den : Nat) :
    (num : Rat) / (den : Rat) = ratVal (decide (num < 0)) num.natAbs den := by
  unfold ratVal
  rw [intCast_eq_sgn_natAbs num, Rat.div_def, Rat.div_def, Rat.mul_assoc]

theorem prepare_frac (params : Option Nat × Option Int) (num : Int) (den : Nat) (h1 : den ≠ 1)
    (h2 : isPow2 den = false) :
    prepare params (.frac num den) =
      match mpfrValue (decide (num < 0)) num.natAbs den params.1 params.2 with
      | .ok x => .ok (.fin x)
      | .error e => .error e := by
  unfold prepare
  simp only [h1, h2, if_false, Bool.false_eq_true]
  cases mpfrValue (decide (num < 0)) num.natAbs den params.1 params.2 <;> rfl

theorem same_val_of_zero_flip (y : RF) (b : Bool) :
    (if (y.c = 0 && y.s && b) = true then ({ y with s := false } : RF) else y).val = y.val := by
  split
  · rename_i h
    simp only [Bool.and_eq_true, decide_eq_true_eq] at h
    rw [RF.val_zero_c (x := { y with s := false }) (by exact h.1.1), RF.val_zero_c h.1.1]
  · rfl

/-- `MPFloatContext.round(Fraction)` -/
theorem mp_round_frac (p : Nat) (rm : RM) (o : Opts) (hp : 1 ≤ p) (num : Int) (den : Nat)
    (hnum : num ≠ 0) (hden : 0 < den) (h1 : den ≠ 1) (h2 : isPow2 den = false) :
    ∃ y fl, Ctx.round (.mp p rm (some 0) o) (.frac num den) = .ok ⟨.fin y, fl⟩ ∧
      bitLength y.c ≤ p ∧
      y.val = roundVal rm (ratN num.natAbs den p none + 1) ((num : Rat) / (den : Rat)) ∧
      (fl.inexact = false ↔ OnGrid (ratN num.natAbs den p none + 1) ((num : Rat) / (den : Rat))) := by
  obtain ⟨s1, s2, y, fl, hr, a, b, c, d, e⟩ :=
    frac_round_float (decide (num < 0)) num.natAbs den p none rm (by omega) hden hp
  refine ⟨y, fl, ?_, b, by rw [frac_val]; exact d, by rw [frac_val]; exact e⟩
  unfold Ctx.round
  rw [prepare_frac _ num den h1 h2]
  simp only [Ctx.roundParams, widenP, mpfrValue, Ctx.roundAtCore, floatSpecial]
  have : p + 0 + 2 = p + 2 := rfl
  rw [this]
  simp only [s1, if_false, hr]

/-- `MPSFloatContext.round(Fraction)` -/
theorem mps_round_frac (p : Nat) (emin : Int) (rm : RM) (o : Opts) (hp : 1 ≤ p) (num : Int) (den : Nat)
    (hnum : num ≠ 0) (hden : 0 < den) (h1 : den ≠ 1) (h2 : isPow2 den = false) :
    ∃ y fl, Ctx.round (.mps p emin rm (some 0) o) (.frac num den) = .ok ⟨.fin y, fl⟩ ∧
      bitLength y.c ≤ p ∧ y.exp > emin - p ∧
      y.val = roundVal rm (ratN num.natAbs den p (some (emin - p)) + 1) ((num : Rat) / (den : Rat)) ∧
      (fl.inexact = false ↔
        OnGrid (ratN num.natAbs den p (some (emin - p)) + 1) ((num : Rat) / (den : Rat))) := by
  obtain ⟨s1, s2, y, fl, hr, a, b, c, d, e⟩ :=
    frac_round_float (decide (num < 0)) num.natAbs den p (some (emin - p)) rm (by omega) hden hp
  have hge : emin - p ≤ ratN num.natAbs den p (some (emin - p)) := by unfold ratN; simp; omega
  refine ⟨y, fl, ?_, b, by omega, by rw [frac_val]; exact d, by rw [frac_val]; exact e⟩
  unfold Ctx.round
  rw [prepare_frac _ num den h1 h2]
  simp only [Ctx.roundParams, mpfrValue, Ctx.roundAtCore, floatSpecial]
  have : p + 0 + 2 = p + 2 := rfl
  rw [this]
  simp only [s1, if_false, hr]

/-- `MPFixedContext.round(Fraction)` -/
theorem mpfix_round_frac (nmin : Int) (rm : RM) (nz : Bool) (o : Opts) (num : Int) (den : Nat)
    (hnum : num ≠ 0) (hden : 0 < den) (h1 : den ≠ 1) (h2 : isPow2 den = false) :
    ∃ y fl, Ctx.round (.mpfix nmin rm (some 0) nz o) (.frac num den) = .ok ⟨.fin y, fl⟩ ∧
      y.val = roundVal rm (nmin + 1) ((num : Rat) / (den : Rat)) ∧
      (fl.inexact = false ↔ OnGrid (nmin + 1) ((num : Rat) / (den : Rat))) := by
  obtain ⟨xi, y, fl, hm, s1, s2, hr, a, b, c, d⟩ :=
    frac_round_fixed (decide (num < 0)) num.natAbs den nmin rm (by omega) hden
  refine ⟨if (y.c = 0 && y.s && !nz) = true then { y with s := false } else y, fl, ?_,
    by rw [same_val_of_zero_flip, frac_val]; exact c, by rw [frac_val]; exact d⟩
  unfold Ctx.round
  rw [prepare_frac _ num den h1 h2]
  have hn0 : nmin - ((0 : Nat) : Int) = nmin := by omega
  simp only [Ctx.roundParams, widenN, hn0, hm, Ctx.roundAtCore, fixedSpecial, s1, if_false, hr]
  split <;> rfl

end Fpy.C01v
