/-
C12 (round 2) — the reader: every fuel; the body of the re-read function returns what FPCore evaluates the core to.
-/
import Fpy.Proof.FPCoreReadMain
set_option linter.unusedSimpArgs false
set_option linter.unusedVariables false
set_option linter.unusedSectionVars false
namespace Fpy.C12
open Fpy Fpy.Lang

/-- a concrete supply of fresh names: `r`, `rr`, `rrr`, … -/
def nmR (k : Nat) : String := String.ofList (List.replicate (k + 1) 'r')

theorem nmR_inj : ∀ i j, nmR i = nmR j → i = j := by
  intro i j h
  have := congrArg String.length h
  simp only [nmR, String.length_ofList, List.length_replicate] at this
  omega

section
variable (Φ : Funs) (nm : Nat → String) (hnm : ∀ i j, nm i = nm j → i = j)
include hnm

theorem read_all : ∀ n n', n' ≤ n → ReadOK Φ nm n' ∧ BindsOK Φ nm n' ∧ UpdStarOK Φ nm n' := by
  intro n
  induction n with
  | zero =>
    intro n' hn'
    have : n' = 0 := by omega
    subst this
    refine ⟨fun e k m P C ρ σ μ v ss r k' h => by simp [eval] at h,
      fun star binds k m0 acc P C ρ0 ρa σ μ ρ' ss m' k' h => by simp [evalBinds] at h,
      fun binds k0 k m1 P C ρ0 ρa σ μ ρ' ss k' h => by simp [evalBinds] at h⟩
  | succ n ih =>
    intro n' hn'
    by_cases hle : n' ≤ n
    · exact ih n' hle
    · have : n' = n + 1 := by omega
      subst this
      exact ⟨read_step Φ nm hnm n (fun a ha => (ih a ha).1) (fun a ha => (ih a ha).2.1) (fun a ha => (ih a ha).2.2),
        binds_step Φ nm hnm n (ih n (Nat.le_refl _)).1 (ih n (Nat.le_refl _)).2.1,
        upd_star_step Φ nm hnm n (ih n (Nat.le_refl _)).1 (ih n (Nat.le_refl _)).2.2⟩

theorem read_ok (n : Nat) : ReadOK Φ nm n := (read_all Φ nm hnm n n (Nat.le_refl _)).1

/-- statements that run to completion, followed by more statements -/
theorem runs_then {C : Ctx} {tail : List Stmt} {res : Outcome × Heap} : ∀ (ss : List Stmt) {σ σ' : Env} {μ μ' : Heap},
    Runs Φ σ μ C ss σ' μ' → (∃ F, evalB Φ F σ' μ' C tail = .ok res) → ∃ F, evalB Φ F σ μ C (ss ++ tail) = .ok res := by
  intro ss
  induction ss with
  | nil =>
    intro σ σ' μ μ' hrun ht
    obtain ⟨F, hrun⟩ := hrun
    cases F with
    | zero => simp [evalB] at hrun
    | succ F =>
      rw [evalB_nil] at hrun
      simp only [Except.ok.injEq, Prod.mk.injEq, Outcome.normal.injEq] at hrun
      obtain ⟨rfl, rfl⟩ := hrun
      simpa using ht
  | cons s ss ih =>
    intro σ σ' μ μ' hrun ht
    obtain ⟨F, hrun⟩ := hrun
    cases F with
    | zero => simp [evalB] at hrun
    | succ F =>
      rw [evalB_cons] at hrun
      cases hs : evalS Φ F σ μ C s with
      | error e => rw [hs] at hrun; cases hrun
      | ok r1 =>
        obtain ⟨o, μa⟩ := r1
        rw [hs] at hrun
        simp only [bind, Except.bind] at hrun
        cases o with
        | ret w => simp [pure, Except.pure] at hrun
        | normal σa =>
          simp only at hrun
          obtain ⟨G, hG⟩ := ih ⟨F, hrun⟩ ht
          refine ⟨max F G + 1, ?_⟩
          rw [List.cons_append, evalB_cons, Fpy.Xform.evalS_fuel_mono (Nat.le_max_left F G) hs (by simp)]
          simp only [bind, Except.bind]
          exact Fpy.Xform.evalB_fuel_mono (Nat.le_max_right F G) hG (by simp)

/-- the statements followed by `return <result>` -/
theorem runs_ret {σ σ' : Env} {μ : Heap} {C : Ctx} {ss : List Stmt} {r : Expr} {v : Val}
    (hrun : Runs Φ σ μ C ss σ' μ) (hg : Gives Φ σ' μ C r v) :
    ∃ F, evalB Φ F σ μ C (ss ++ [.ret r]) = .ok (.ret v, μ) := by
  obtain ⟨Fg, hg⟩ := hg
  refine runs_then Φ nm hnm ss hrun ⟨Fg + 2, ?_⟩
  rw [evalB_cons, evalS_ret, Fpy.Xform.evalE_fuel_mono (Nat.le_refl _) hg (by simp)]
  rfl

end
end Fpy.C12
