/-
Helper lemmas for property C05, mixed-type layer: conversion of the five operand types,
`float()` through the binary64 rounding, and the Python-level operators.
-/
import Fpy.Proof.Exact
namespace Fpy
open Fpy.Spec
open RF

/-- an unflagged result of the rounding core denotes the operand -/
theorem roundAtCore_exact_val (x y : RF) (p : Option Nat) (n : Int) (emin : Option Int) (rm : RM) (fl : Flags)
    (h : x.roundAtCore p n emin rm false = .ok (y, fl)) (hi : fl.inexact = false) : y.val = x.val := by
  have hs := split_sum x n
  unfold RF.roundAtCore at h
  by_cases hl : (x.split n).2.c = 0
  · cases p with
    | none =>
      by_cases hgt : x.exp > n
      · simp [hgt] at h; rw [← h.1]
      · simp [hgt, hl] at h; rw [← h.1, ← hs, val_zero_c hl]; exact (Rat.add_zero _).symm
    | some p =>
      by_cases hgt : x.exp > n ∧ x.p ≤ p
      · simp [hgt] at h; rw [← h.1]
      · have : ¬ (x.exp > n ∧ x.p ≤ p) := hgt
        simp only [gt_iff_lt, Bool.and_eq_true, decide_eq_true_eq, this, if_false, hl, if_true,
          Except.ok.injEq, Prod.mk.injEq] at h
        rw [← h.1, ← hs, val_zero_c hl]; exact (Rat.add_zero _).symm
  · cases p with
    | none =>
      by_cases hgt : x.exp > n
      · simp [hgt] at h; rw [← h.1]
      · simp [hgt, hl] at h; rw [← h.2] at hi; simp at hi
    | some p =>
      by_cases hgt : x.exp > n ∧ x.p ≤ p
      · simp [hgt] at h; rw [← h.1]
      · have : ¬ (x.exp > n ∧ x.p ≤ p) := hgt
        simp only [gt_iff_lt, Bool.and_eq_true, decide_eq_true_eq, this, if_false, hl,
          Bool.false_eq_true, Except.ok.injEq, Prod.mk.injEq] at h
        rw [← h.2] at hi; simp at hi

theorem round_exact_val (x y : RF) (p : Option Nat) (n : Option Int) (rm : RM) (fl : Flags)
    (h : x.round p n rm (some 0) 0 false = .ok (y, fl)) (hi : fl.inexact = false) : y.val = x.val := by
  unfold RF.round at h
  split at h
  · simp at h
  · simp only [if_true] at h
    exact roundAtCore_exact_val x y _ _ _ rm fl h hi

theorem mpbRoundAt_exact_den (c : MPBParams) (hk : c.k = some 0) (ho : c.o = {}) (v : FV) (res : Res)
    (h : mpbRoundAt c v none false 0 = .ok res) (hi : res.fl.inexact = false) : res.v.den = v.den := by
  unfold mpbRoundAt at h
  cases v with
  | nan s => simp [floatSpecial, ho] at h; rw [← h]; rfl
  | inf s => simp [floatSpecial, ho] at h; rw [← h]
  | fin x =>
    simp only [floatSpecial] at h
    by_cases h0 : x.c = 0
    · simp only [h0, if_true, Except.ok.injEq] at h; rw [← h]
      simp only [FV.den]; rw [val_zero_c h0, val_zero_c rfl]
    · simp only [h0, if_false] at h
      rw [hk] at h
      cases hr : x.round (some c.p) (some c.nmin) c.rm (some 0) 0 false with
      | error e => simp only [hr] at h; simp at h
      | ok pr =>
        obtain ⟨rounded, fl⟩ := pr
        simp only [hr] at h
        by_cases hov : (if rounded.s = true then rounded.lt c.negMax else rounded.gt c.posMax) = true
        · exfalso
          simp only [hov, if_true, Bool.false_eq_true, if_false] at h
          have hset : ∀ r : Res, (setOvf r).fl.inexact = true := fun r => rfl
          cases hv : c.ov <;> simp only [hv] at h
          · rw [ho] at h
            split at h
            · simp only [if_true, Except.ok.injEq] at h; rw [← h, hset] at hi; simp at hi
            · simp only [Except.ok.injEq] at h; rw [← h, hset] at hi; simp at hi
          · simp only [Except.ok.injEq] at h; rw [← h, hset] at hi; simp at hi
          · simp at h
          · simp at h
        · simp only [hov, Bool.false_eq_true, if_false, Except.ok.injEq] at h
          rw [← h] at hi ⊢
          simp only [FV.den]
          congr 1
          exact round_exact_val x rounded _ _ _ fl hr hi

theorem EFloatParams.mpb_k (c : EFloatParams) : c.mpb.k = c.k := rfl
theorem EFloatParams.mpb_o (c : EFloatParams) : c.mpb.o = {} := rfl

theorem efloatFixup_ieee (c : EFloatParams) (hinf : c.inf = true) (hk : c.kind = .ieee) (r : Res) :
    efloatFixup c r = .ok r := by
  unfold efloatFixup
  cases hv : r.v <;> simp [hinf, hk]

/-- `float(x)`: what `default_float_convert` returns denotes the operand -/
theorem toFloatCore_flt_den (v w : FV) (h : toFloatCore (.flt v) = .ok w) : w.den = v.den := by
  have hex : ∃ c : EFloatParams, fp64 = .efloat c ∧ c.inf = true ∧ c.kind = .ieee ∧ c.k = some 0 :=
    ⟨_, rfl, rfl, rfl, rfl⟩
  obtain ⟨c, hc, h1, h2, h3⟩ := hex
  unfold toFloatCore at h
  rw [hc] at h
  unfold Ctx.round prepare Ctx.roundAtCore at h
  simp only at h
  have hk : c.mpb.k = some 0 := by rw [EFloatParams.mpb_k, h3]
  have hfix := efloatFixup_ieee c h1 h2
  cases hm : mpbRoundAt c.mpb v none false 0 with
  | error e => simp [hm] at h
  | ok res =>
    simp only [hm, hfix] at h
    by_cases hi : res.fl.inexact = true
    · simp [hi] at h
    · simp only [hi, Bool.false_eq_true, if_false, Except.ok.injEq] at h
      rw [← h]
      exact mpbRoundAt_exact_den c.mpb hk (EFloatParams.mpb_o c) v res hm (by simpa using hi)

theorem toFloatCore_real_den (x : RF) (w : FV) (h : toFloatCore (.real x) = .ok w) : w.den = .fin x.val :=
  toFloatCore_flt_den (.fin x) w h

theorem RF.ofInt_val (i : Int) : (RF.ofInt i).val = (i : Rat) := by
  unfold RF.ofInt; rw [val_ofSigned]; simp

theorem isPow2_spec {d : Nat} (h : isPow2 d = true) : d ≠ 0 ∧ 2 ^ d.log2 = d := by
  unfold isPow2 at h; simpa using h

theorem RF.ofRational_val (n : Int) (d : Nat) (x : RF) (h : RF.ofRational? n d = .ok x) : x.val = mkRat n d := by
  unfold RF.ofRational? at h
  by_cases hp : isPow2 d = true
  · simp only [hp, Bool.not_true, Bool.false_eq_true, if_false] at h
    obtain ⟨hd0, hd⟩ := isPow2_spec hp
    by_cases hn : n = 0
    · simp only [hn, if_true, Except.ok.injEq] at h; rw [← h, hn]; simp [RF.zero, val_mk_zero]
    · simp only [hn, if_false] at h
      by_cases h1 : d = 1
      · simp only [h1, if_true, Except.ok.injEq] at h; rw [← h, h1, RF.ofInt_val, Rat.mkRat_eq_div]; rw [show ((1 : Nat) : Rat) = 1 from rfl, Rat.div_def, Rat.inv_eq_of_mul_eq_one (Rat.mul_one 1), Rat.mul_one]
      · simp only [h1, if_false, Except.ok.injEq] at h
        rw [← h, Rat.mkRat_eq_div]
        unfold rfOfDyadic
        rw [val_ofSigned]
        have hb : ((bitLength d : Nat) : Int) - 1 = (d.log2 : Int) := by unfold bitLength; simp [hd0]
        rw [hb, Rat.zpow_neg, two_zpow_nat, hd, Rat.div_def]
  · simp [hp] at h

theorem FV.ofNum_den (b : Num) (v : FV) (h : FV.ofNum b = .ok v) : v.den = b.den := by
  cases b with
  | F w => simp [FV.ofNum] at h; rw [← h]; rfl
  | R x => simp [FV.ofNum] at h; rw [← h]; rfl
  | I i => simp [FV.ofNum] at h; rw [← h]; simp [FV.den, Num.den, RF.ofInt_val]
  | D w => simp [FV.ofNum] at h; rw [← h]; rfl
  | Q n d =>
    simp only [FV.ofNum] at h
    cases hr : RF.ofRational? n d with
    | error e => simp [hr] at h
    | ok x => simp only [hr, Except.ok.injEq] at h; rw [← h]; simp [FV.den, Num.den, RF.ofRational_val n d x hr]

theorem Num.neg_den (b : Num) : b.neg.den = b.den.neg := by
  cases b with
  | F w => exact FV.neg_den w
  | R x => simp [Num.neg, Num.den, ExtVal.neg, val_neg]
  | I i => simp [Num.neg, Num.den, ExtVal.neg]
  | D w => exact FV.neg_den w
  | Q n d => simp [Num.neg, Num.den, ExtVal.neg, Rat.neg_mkRat]

theorem ExtVal.add_comm' (a b : ExtVal) : a.add b = b.add a := by
  cases a <;> cases b <;> simp [ExtVal.add, Rat.add_comm]

theorem ExtVal.mul_comm' (a b : ExtVal) : a.mul b = b.mul a := by
  cases a <;> cases b <;> simp [ExtVal.mul, Rat.mul_comm, Bool.or_comm, ExtVal.isNeg, ExtVal.isZero, ExtVal.ofInf] <;>
    split <;> simp_all

theorem FV.addNum_den (a : FV) (b : Num) (r : FV) (h : a.addNum b = .ok r) : r.den = a.den.add b.den := by
  unfold FV.addNum at h
  cases hb : FV.ofNum b with
  | error e => simp [hb] at h
  | ok b' => simp only [hb, Except.ok.injEq] at h; rw [← h, FV.add_den, FV.ofNum_den b b' hb]

theorem FV.mulNum_den (a : FV) (b : Num) (r : FV) (h : a.mulNum b = .ok r) : r.den = a.den.mul b.den := by
  unfold FV.mulNum at h
  cases hb : FV.ofNum b with
  | error e => simp [hb] at h
  | ok b' => simp only [hb, Except.ok.injEq] at h; rw [← h, FV.mul_den, FV.ofNum_den b b' hb]

theorem RF.addNum_den (x : RF) (b : Num) (r : Num) (h : x.addNum b = .ok r) :
    r.den = (ExtVal.fin x.val).add b.den := by
  cases b with
  | F w => simp [RF.addNum] at h
  | R y => simp [RF.addNum] at h; rw [← h]; simp [Num.den, ExtVal.add, val_add]
  | I i => simp [RF.addNum] at h; rw [← h]; simp [Num.den, ExtVal.add, val_add, RF.ofInt_val]
  | D w =>
    cases w with
    | fin y => simp [RF.addNum] at h; rw [← h]; simp [Num.den, FV.den, ExtVal.add, val_add]
    | inf t => simp [RF.addNum] at h; rw [← h]; cases t <;> rfl
    | nan t => simp [RF.addNum] at h; rw [← h]; rfl
  | Q n d =>
    simp only [RF.addNum] at h
    cases hr : RF.ofRational? n d with
    | error e => simp [hr] at h
    | ok y =>
      simp only [hr, Except.ok.injEq] at h; rw [← h]
      simp [Num.den, ExtVal.add, val_add, RF.ofRational_val n d y hr]

theorem RF.mulNum_den (x : RF) (b : Num) (r : Num) (h : x.mulNum b = .ok r) :
    r.den = (ExtVal.fin x.val).mul b.den := by
  cases b with
  | F w => simp [RF.mulNum] at h
  | R y => simp [RF.mulNum] at h; rw [← h]; simp [Num.den, ExtVal.mul, val_mul]
  | I i => simp [RF.mulNum] at h; rw [← h]; simp [Num.den, ExtVal.mul, val_mul, RF.ofInt_val]
  | D w =>
    cases w with
    | fin y => simp [RF.mulNum] at h; rw [← h]; simp [Num.den, FV.den, ExtVal.mul, val_mul]
    | nan t => simp [RF.mulNum] at h; rw [← h]; rfl
    | inf t =>
      simp only [RF.mulNum] at h
      have hm := FV.mul_den (.fin x) (.inf t)
      by_cases h0 : x.c = 0
      · simp only [h0, if_true, Except.ok.injEq] at h; rw [← h]
        simp only [Num.den]
        rw [← show (FV.fin x).den = ExtVal.fin x.val from rfl, ← hm]
        simp [FV.mul, h0, FV.den]
      · simp only [h0, if_false, Except.ok.injEq] at h; rw [← h]
        simp only [Num.den]
        rw [← show (FV.fin x).den = ExtVal.fin x.val from rfl, ← hm]
        simp [FV.mul, h0, FV.den]
  | Q n d =>
    simp only [RF.mulNum] at h
    cases hr : RF.ofRational? n d with
    | error e => simp [hr] at h
    | ok y =>
      simp only [hr, Except.ok.injEq] at h; rw [← h]
      simp [Num.den, ExtVal.mul, val_mul, RF.ofRational_val n d y hr]

theorem Num.liftF_den (r : Except Err FV) (res : Num) (e : ExtVal)
    (hr : ∀ v, r = .ok v → v.den = e) (h : Num.liftF r = .ok res) : res.den = e := by
  unfold Num.liftF at h
  cases r with
  | error _ => simp at h
  | ok v => simp only [Except.ok.injEq] at h; rw [← h]; exact hr v rfl

/-- the reflected arm of `Num.binop` (left operand a native type) -/
theorem Num.binop_refl_den (op : Num.BinOp) (a b r : Num)
    (h : (match b with
      | .F w =>
        match op with
        | .add => Num.liftF (w.addNum a)
        | .sub => Num.liftF (w.neg.addNum a)
        | .mul => Num.liftF (w.mulNum a)
      | .R y =>
        match op with
        | .add => y.addNum a
        | .sub => y.neg.addNum a
        | .mul => y.mulNum a
      | _ => (.error .typeError : Except Err Num)) = .ok r) :
    r.den = op.spec a.den b.den := by
  cases b with
  | F w =>
    cases op <;> simp only [] at h
    · refine Num.liftF_den _ r _ (fun u hu => ?_) h
      rw [FV.addNum_den w a u hu, ExtVal.add_comm']; rfl
    · refine Num.liftF_den _ r _ (fun u hu => ?_) h
      rw [FV.addNum_den w.neg a u hu, ExtVal.add_comm', FV.neg_den]; rfl
    · refine Num.liftF_den _ r _ (fun u hu => ?_) h
      rw [FV.mulNum_den w a u hu, ExtVal.mul_comm']; rfl
  | R y =>
    cases op <;> simp only [] at h
    · rw [RF.addNum_den y a r h, ExtVal.add_comm']; rfl
    · rw [RF.addNum_den y.neg a r h, ExtVal.add_comm', val_neg]; rfl
    · rw [RF.mulNum_den y a r h, ExtVal.mul_comm']; rfl
  | I i => simp at h
  | D v => simp at h
  | Q n d => simp at h

/-- **Operators on any mix of the five types**: whenever `a <op> b` returns, the result denotes the
Spec operation on the denoted values (IEEE rules for infinities and NaN). -/
theorem Num.binop_den (op : Num.BinOp) (a b r : Num) (h : Num.binop op a b = .ok r) :
    r.den = op.spec a.den b.den := by
  unfold Num.binop at h
  cases a with
  | F v =>
    cases op <;> simp only [] at h
    · exact Num.liftF_den _ r _ (fun w hw => FV.addNum_den v b w hw) h
    · refine Num.liftF_den _ r _ (fun w hw => ?_) h
      rw [FV.addNum_den v b.neg w hw, Num.neg_den]; rfl
    · exact Num.liftF_den _ r _ (fun w hw => FV.mulNum_den v b w hw) h
  | R x =>
    cases b with
    | F w =>
      cases op <;> simp only [] at h
      · refine Num.liftF_den _ r _ (fun u hu => ?_) h
        rw [FV.addNum_den w (.R x) u hu, ExtVal.add_comm']; rfl
      · refine Num.liftF_den _ r _ (fun u hu => ?_) h
        rw [FV.addNum_den w.neg (.R x) u hu, ExtVal.add_comm', FV.neg_den]; rfl
      · refine Num.liftF_den _ r _ (fun u hu => ?_) h
        rw [FV.mulNum_den w (.R x) u hu, ExtVal.mul_comm']; rfl
    | R y => cases op <;> simp only [] at h
             · exact RF.addNum_den x _ r h
             · rw [RF.addNum_den x _ r h, Num.neg_den]; rfl
             · exact RF.mulNum_den x _ r h
    | I i => cases op <;> simp only [] at h
             · exact RF.addNum_den x _ r h
             · rw [RF.addNum_den x _ r h, Num.neg_den]; rfl
             · exact RF.mulNum_den x _ r h
    | D w => cases op <;> simp only [] at h
             · exact RF.addNum_den x _ r h
             · rw [RF.addNum_den x _ r h, Num.neg_den]; rfl
             · exact RF.mulNum_den x _ r h
    | Q n d => cases op <;> simp only [] at h
               · exact RF.addNum_den x _ r h
               · rw [RF.addNum_den x _ r h, Num.neg_den]; rfl
               · exact RF.mulNum_den x _ r h
  | I i => exact Num.binop_refl_den op _ b r h
  | D v => exact Num.binop_refl_den op _ b r h
  | Q n d => exact Num.binop_refl_den op _ b r h

theorem FV.compareNum_den (a : FV) (b : Num) : a.compareNum b = a.den.cmp b.den := by
  unfold FV.compareNum
  cases a with
  | nan s => cases b <;> rfl
  | inf s =>
    cases b with
    | F w => exact FV.compare_den _ w
    | D w => exact FV.compare_den _ w
    | R y => exact FV.compare_den _ (.fin y)
    | I i => simp only []; rw [FV.compare_den]; simp [FV.den, Num.den, RF.ofInt_val]
    | Q n d => cases s <;> rfl
  | fin x =>
    cases b with
    | F w => exact FV.compare_den _ w
    | D w => exact FV.compare_den _ w
    | R y => exact FV.compare_den _ (.fin y)
    | I i => simp only []; rw [FV.compare_den]; simp [FV.den, Num.den, RF.ofInt_val]
    | Q n d => rfl

theorem RF.compareNum_den (x : RF) (b : Num) (o : Option Ordering) (h : x.compareNum b = .ok o) :
    o = (ExtVal.fin x.val).cmp b.den := by
  cases b with
  | F w => simp [RF.compareNum] at h
  | R y => simp [RF.compareNum] at h; rw [← h, compare_cmpRat]; rfl
  | I i => simp [RF.compareNum] at h; rw [← h, compare_cmpRat, RF.ofInt_val]; rfl
  | D w =>
    cases w with
    | nan t => simp [RF.compareNum] at h; rw [← h]; rfl
    | inf t => simp [RF.compareNum] at h; rw [← h]; cases t <;> rfl
    | fin y => simp [RF.compareNum] at h; rw [← h, compare_cmpRat]; rfl
  | Q n d => simp [RF.compareNum] at h; rw [← h]; rfl

theorem cmpQ_swap (a b : Rat) : ExtVal.cmpQ b a = (ExtVal.cmpQ a b).swap := by
  unfold ExtVal.cmpQ
  by_cases h1 : a < b
  · have h2 : ¬ b < a := Rat.not_lt.mpr (Rat.le_of_lt h1)
    simp [h1, h2]
  · by_cases h2 : b < a <;> simp [h1, h2]

theorem ExtVal.cmp_swap (a b : ExtVal) : b.cmp a = (a.cmp b).map Ordering.swap := by
  cases a <;> cases b <;> first | rfl | (simp only [ExtVal.cmp, Option.map_some]; rw [cmpQ_swap])

theorem Num.CmpOp.test_swap (op : Num.CmpOp) (o : Option Ordering) :
    op.swap.test (o.map Ordering.swap) = op.test o := by
  cases o with
  | none => cases op <;> rfl
  | some o => cases op <;> cases o <;> rfl

theorem Num.CmpOp.test_swap' (op : Num.CmpOp) (o : Option Ordering) :
    op.swap.test o = op.test (o.map Ordering.swap) := by
  cases o with
  | none => cases op <;> rfl
  | some o => cases op <;> cases o <;> rfl

/-- **Rich comparisons on any mix of the five types** (reflected operators, `rcomparable`, `Fraction`'s
own comparison included): whenever `a <op> b` returns, it is the operator applied to the ordering of
the denoted values; NaN is unordered (every operator gives `False`). -/
theorem Num.cmpOp_spec (op : Num.CmpOp) (a b : Num) (r : Bool) (h : Num.cmpOp op a b = .ok r) :
    r = op.test (a.den.cmp b.den) := by
  have left : ∀ (op : Num.CmpOp) (a b : Num) (r : Bool), Num.cmpLeft op a b = .ok r → r = op.test (a.den.cmp b.den) := by
    intro op a b r h
    unfold Num.cmpLeft at h
    cases a with
    | F v => simp only [Except.ok.injEq] at h; rw [← h, FV.compareNum_den]; rfl
    | R x =>
      cases b with
      | F w =>
        simp only [Except.ok.injEq] at h
        rw [← h, FV.compareNum_den, ExtVal.cmp_swap, Num.CmpOp.test_swap]; rfl
      | R y => simp only [] at h
               cases hc : x.compareNum (.R y) with
               | error e => simp [hc] at h
               | ok o => simp only [hc, Except.ok.injEq] at h; rw [← h, RF.compareNum_den x _ o hc]; rfl
      | I i => simp only [] at h
               cases hc : x.compareNum (.I i) with
               | error e => simp [hc] at h
               | ok o => simp only [hc, Except.ok.injEq] at h; rw [← h, RF.compareNum_den x _ o hc]; rfl
      | D w => simp only [] at h
               cases hc : x.compareNum (.D w) with
               | error e => simp [hc] at h
               | ok o => simp only [hc, Except.ok.injEq] at h; rw [← h, RF.compareNum_den x _ o hc]; rfl
      | Q n d => simp only [] at h
                 cases hc : x.compareNum (.Q n d) with
                 | error e => simp [hc] at h
                 | ok o => simp only [hc, Except.ok.injEq] at h; rw [← h, RF.compareNum_den x _ o hc]; rfl
    | I i => simp at h
    | D v => simp at h
    | Q n d => simp at h
  have refl : ∀ (a b : Num) (r : Bool), Num.cmpLeft op.swap b a = .ok r → r = op.test (a.den.cmp b.den) := by
    intro a b r h
    rw [left op.swap b a r h, ExtVal.cmp_swap b.den a.den]
    exact Num.CmpOp.test_swap' _ _
  unfold Num.cmpOp at h
  cases a with
  | F v => exact left op _ b r h
  | R x => exact left op _ b r h
  | Q n d =>
    cases b with
    | R y => simp only [Except.ok.injEq] at h; rw [← h]; rfl
    | F w => exact refl _ _ r h
    | I i => simp at h
    | D v => simp at h
    | Q n d => simp at h
  | I i =>
    cases b with
    | R y => exact refl _ _ r h
    | F w => exact refl _ _ r h
    | I i => simp at h
    | D v => simp at h
    | Q n d => simp at h
  | D v =>
    cases b with
    | R y => exact refl _ _ r h
    | F w => exact refl _ _ r h
    | I i => simp at h
    | D v => simp at h
    | Q n d => simp at h

theorem FV.powInt_den (a : FV) (k : Int) (r : FV) (h : a.powInt k = .ok r) :
    0 ≤ k ∧ r.den = a.den.pow k.toNat := by
  unfold FV.powInt at h
  by_cases hk : k < 0
  · simp [hk] at h
  · simp only [hk, if_false] at h
    refine ⟨by omega, ?_⟩
    by_cases h0 : k = 0
    · simp only [h0, if_true, Except.ok.injEq] at h; rw [← h, h0]
      simp [FV.den, ExtVal.pow, val_mk, sgn]
    · simp only [h0, if_false] at h
      have hn : k.toNat ≠ 0 := by omega
      cases a with
      | fin x => simp only [Except.ok.injEq] at h; rw [← h]; simp [FV.den, ExtVal.pow, hn, val_pow]
      | nan s => simp only [Except.ok.injEq] at h; rw [← h]; simp [FV.den, FV.withSign, ExtVal.pow, hn]
      | inf s =>
        simp only [Except.ok.injEq] at h; rw [← h]
        have hpar : k % 2 = 0 ∨ k % 2 = 1 := by omega
        cases s
        · simp [FV.den, FV.withSign, FV.sign, ExtVal.pow, hn, ExtVal.ofInf]
        · rcases hpar with hp | hp
          · have : k.toNat % 2 = 0 := by omega
            simp [FV.den, FV.withSign, FV.sign, ExtVal.pow, hn, ExtVal.ofInf, hp, this]
          · have : k.toNat % 2 = 1 := by omega
            simp [FV.den, FV.withSign, FV.sign, ExtVal.pow, hn, ExtVal.ofInf, hp, this]

/-- `a ** k` on a `Float` / `RealFloat`: refused exactly for `k < 0`, else the Spec power -/
theorem Num.pow_den (a : Num) (k : Int) (r : Num) (h : Num.pow a k = .ok r) :
    0 ≤ k ∧ r.den = a.den.pow k.toNat := by
  unfold Num.pow at h
  cases a with
  | F v =>
    simp only [] at h
    cases hp : v.powInt k with
    | error e => simp [hp, Num.liftF] at h
    | ok w =>
      simp only [hp, Num.liftF, Except.ok.injEq] at h; rw [← h]
      exact FV.powInt_den v k w hp
  | R x =>
    simp only [] at h
    by_cases hk : k < 0
    · simp [hk] at h
    · simp only [hk, if_false, Except.ok.injEq] at h; rw [← h]
      refine ⟨by omega, ?_⟩
      simp only [Num.den, val_pow, ExtVal.pow]
      by_cases h0 : k.toNat = 0
      · simp [h0]
      · simp [h0]
  | I i => simp at h
  | D v => simp at h
  | Q n d => simp at h

theorem Num.pow_neg_exponent (a : Num) (k : Int) (hk : k < 0) : ∃ e, Num.pow a k = .error e := by
  unfold Num.pow
  cases a with
  | F v => simp [FV.powInt, hk, Num.liftF]
  | R x => simp [hk]
  | I i => simp
  | D v => simp
  | Q n d => simp

/-- `int(a)`: returns exactly the denoted value -/
theorem Num.toInt_den (a : Num) (i : Int) (h : Num.toInt a = .ok i) : a.den = .fin (i : Rat) := by
  unfold Num.toInt at h
  cases a with
  | F v =>
    cases v with
    | fin x =>
      simp only [FV.toInt?] at h
      cases hx : x.toInt? with
      | none => simp [hx] at h
      | some j => simp only [hx, Except.ok.injEq] at h; subst h; simp [Num.den, FV.den, toInt_some x j hx]
    | inf s => simp [FV.toInt?] at h
    | nan s => simp [FV.toInt?] at h
  | R x =>
    simp only [] at h
    cases hx : x.toInt? with
    | none => simp [hx] at h
    | some j => simp only [hx, Except.ok.injEq] at h; subst h; simp [Num.den, toInt_some x j hx]
  | I i => simp at h
  | D v => simp at h
  | Q n d => simp at h

/-- `int(a)` raises exactly when the denoted value is not an integer (infinities and NaN included) -/
theorem Num.toInt_error_iff (a : Num) (hfpy : (∃ v, a = .F v) ∨ (∃ x, a = .R x)) :
    (∃ e, Num.toInt a = .error e) ↔ ¬ ∃ k : Int, a.den = .fin (k : Rat) := by
  rcases hfpy with ⟨v, rfl⟩ | ⟨x, rfl⟩
  · cases v with
    | fin x =>
      simp only [Num.toInt, FV.toInt?, Num.den, FV.den, ExtVal.fin.injEq]
      cases hx : x.toInt? with
      | none => exact ⟨fun _ => (toInt_none_iff x).mp hx, fun _ => ⟨_, rfl⟩⟩
      | some j => 
        constructor
        · rintro ⟨e, he⟩; simp at he
        · intro hn; exact absurd ⟨j, (toInt_some x j hx).symm⟩ hn
    | inf s => cases s <;> simp [Num.toInt, FV.toInt?, Num.den, FV.den, ExtVal.ofInf]
    | nan s => simp [Num.toInt, FV.toInt?, Num.den, FV.den]
  · simp only [Num.toInt, Num.den, ExtVal.fin.injEq]
    cases hx : x.toInt? with
    | none => exact ⟨fun _ => (toInt_none_iff x).mp hx, fun _ => ⟨_, rfl⟩⟩
    | some j =>
      constructor
      · rintro ⟨e, he⟩; simp at he
      · intro hn; exact absurd ⟨j, (toInt_some x j hx).symm⟩ hn

/-- `float(a)`: returns a float denoting exactly the operand, or raises -/
theorem Num.toFloat_den (a : Num) (w : FV) (h : Num.toFloat a = .ok w) : w.den = a.den := by
  unfold Num.toFloat at h
  cases a with
  | F v => exact toFloatCore_flt_den v w h
  | R x => exact toFloatCore_real_den x w h
  | I i => simp at h
  | D v => simp at h
  | Q n d => simp at h

/-- `a.as_rational()`: exactly the denoted value; raises for infinities and NaN -/
theorem Num.asRational_den (a : Num) (q : Rat) (h : Num.asRational a = .ok q) : a.den = .fin q := by
  unfold Num.asRational at h
  cases a with
  | F v =>
    cases v with
    | fin x => simp [FV.asRational, RF.asRational] at h; simp [Num.den, FV.den, h]
    | inf s => simp [FV.asRational] at h
    | nan s => simp [FV.asRational] at h
  | R x => simp [RF.asRational] at h; simp [Num.den, h]
  | I i => simp at h
  | D v => simp at h
  | Q n d => simp at h

theorem FV.hashKey_eq_of_den_eq (a b : FV) (h : a.den = b.den) : a.hashKey = b.hashKey := by
  cases a with
  | fin x =>
    cases b with
    | fin y => simp only [FV.den, ExtVal.fin.injEq] at h; exact hashKey_eq_of_val_eq x y h
    | inf t => cases t <;> simp [FV.den, ExtVal.ofInf] at h
    | nan t => simp [FV.den] at h
  | inf s =>
    cases b with
    | fin y => cases s <;> simp [FV.den, ExtVal.ofInf] at h
    | inf t => cases s <;> cases t <;> simp [FV.den, ExtVal.ofInf] at h <;> rfl
    | nan t => cases s <;> simp [FV.den, ExtVal.ofInf] at h
  | nan s =>
    cases b with
    | fin y => simp [FV.den] at h
    | inf t => cases t <;> simp [FV.den, ExtVal.ofInf] at h
    | nan t => rfl

/-- **Equal values hash equally** (`Float` and `RealFloat`, any encodings): the class key that
`__hash__` hashes through depends only on the denoted value. -/
theorem Num.hash_class (a b : Num) (ka kb : RF.HashKey) (ha : Num.hashKey a = .ok ka)
    (hb : Num.hashKey b = .ok kb) (h : a.den = b.den) : ka = kb := by
  unfold Num.hashKey at ha hb
  cases a with
  | F v =>
    cases b with
    | F w => simp at ha hb; rw [← ha, ← hb]; exact FV.hashKey_eq_of_den_eq v w h
    | R y => simp at ha hb; rw [← ha, ← hb]; exact FV.hashKey_eq_of_den_eq v (.fin y) h
    | I i => simp at hb
    | D w => simp at hb
    | Q n d => simp at hb
  | R x =>
    cases b with
    | F w => simp at ha hb; rw [← ha, ← hb]; exact FV.hashKey_eq_of_den_eq (.fin x) w h
    | R y => simp at ha hb; rw [← ha, ← hb]; exact FV.hashKey_eq_of_den_eq (.fin x) (.fin y) h
    | I i => simp at hb
    | D w => simp at hb
    | Q n d => simp at hb
  | I i => simp at ha
  | D v => simp at ha
  | Q n d => simp at ha

theorem RF.ofRational_ok (n : Int) (d : Nat) (h : isPow2 d = true) : ∃ x, RF.ofRational? n d = .ok x := by
  unfold RF.ofRational?
  simp only [h, Bool.not_true, Bool.false_eq_true, if_false]
  by_cases h0 : n = 0
  · simp [h0]
  · by_cases h1 : d = 1 <;> simp [h0, h1]

theorem FV.ofNum_ok (b : Num) (h : b.dyadic = true) : ∃ v, FV.ofNum b = .ok v := by
  cases b with
  | Q n d => obtain ⟨x, hx⟩ := RF.ofRational_ok n d h; simp [FV.ofNum, hx]
  | _ => exact ⟨_, rfl⟩

theorem Num.neg_dyadic (b : Num) : b.neg.dyadic = b.dyadic := by cases b <;> rfl

theorem FV.addNum_ok (a : FV) (b : Num) (h : b.dyadic = true) : ∃ v, a.addNum b = .ok v := by
  obtain ⟨w, hw⟩ := FV.ofNum_ok b h; simp [FV.addNum, hw]
theorem FV.mulNum_ok (a : FV) (b : Num) (h : b.dyadic = true) : ∃ v, a.mulNum b = .ok v := by
  obtain ⟨w, hw⟩ := FV.ofNum_ok b h; simp [FV.mulNum, hw]

theorem RF.addNum_ok (x : RF) (b : Num) (h : b.dyadic = true) (hF : ∀ w, b ≠ .F w) : ∃ r, x.addNum b = .ok r := by
  cases b with
  | F w => exact absurd rfl (hF w)
  | R y => exact ⟨_, rfl⟩
  | I i => exact ⟨_, rfl⟩
  | D w => cases w <;> exact ⟨_, rfl⟩
  | Q n d => obtain ⟨y, hy⟩ := RF.ofRational_ok n d h; simp [RF.addNum, hy]

theorem RF.mulNum_ok (x : RF) (b : Num) (h : b.dyadic = true) (hF : ∀ w, b ≠ .F w) : ∃ r, x.mulNum b = .ok r := by
  cases b with
  | F w => exact absurd rfl (hF w)
  | R y => exact ⟨_, rfl⟩
  | I i => exact ⟨_, rfl⟩
  | D w =>
    cases w with
    | fin y => exact ⟨_, rfl⟩
    | nan t => exact ⟨_, rfl⟩
    | inf t => by_cases h0 : x.c = 0 <;> simp [RF.mulNum, h0]
  | Q n d => obtain ⟨y, hy⟩ := RF.ofRational_ok n d h; simp [RF.mulNum, hy]

theorem Num.liftF_ok (r : Except Err FV) (h : ∃ v, r = .ok v) : ∃ n, Num.liftF r = .ok n := by
  obtain ⟨v, rfl⟩ := h; exact ⟨_, rfl⟩

/-- **No spurious refusal**: with at least one library operand and no non-dyadic `Fraction`,
`+`, `-`, `*` always return (in particular `RealFloat <op> Float` in either order). -/
theorem Num.binop_total (op : Num.BinOp) (a b : Num) (hfpy : a.isFpy = true ∨ b.isFpy = true)
    (ha : a.dyadic = true) (hb : b.dyadic = true) : ∃ r, Num.binop op a b = .ok r := by
  have hnb : b.neg.dyadic = true := by rw [Num.neg_dyadic]; exact hb
  unfold Num.binop
  cases a with
  | F v =>
    cases op <;> simp only []
    · exact Num.liftF_ok _ (FV.addNum_ok v b hb)
    · exact Num.liftF_ok _ (FV.addNum_ok v _ hnb)
    · exact Num.liftF_ok _ (FV.mulNum_ok v b hb)
  | R x =>
    cases b with
    | F w =>
      cases op <;> simp only []
      · exact Num.liftF_ok _ (FV.addNum_ok w _ rfl)
      · exact Num.liftF_ok _ (FV.addNum_ok _ _ rfl)
      · exact Num.liftF_ok _ (FV.mulNum_ok w _ rfl)
    | R y => cases op <;> exact ⟨_, rfl⟩
    | I i => cases op <;> exact ⟨_, rfl⟩
    | D w =>
      cases op <;> simp only []
      · exact RF.addNum_ok x _ rfl (by intro w h; cases h)
      · exact RF.addNum_ok x _ rfl (by intro w h; cases h)
      · exact RF.mulNum_ok x _ rfl (by intro w h; cases h)
    | Q n d =>
      cases op <;> simp only []
      · exact RF.addNum_ok x _ hb (by intro w h; cases h)
      · exact RF.addNum_ok x _ hnb (by intro w h; cases h)
      · exact RF.mulNum_ok x _ hb (by intro w h; cases h)
  | I i =>
    cases b with
    | F w =>
      cases op <;> simp only []
      · exact Num.liftF_ok _ (FV.addNum_ok w _ rfl)
      · exact Num.liftF_ok _ (FV.addNum_ok _ _ rfl)
      · exact Num.liftF_ok _ (FV.mulNum_ok w _ rfl)
    | R y => cases op <;> exact ⟨_, rfl⟩
    | I j => simp [Num.isFpy] at hfpy
    | D w => simp [Num.isFpy] at hfpy
    | Q n d => simp [Num.isFpy] at hfpy
  | D v =>
    cases b with
    | F w =>
      cases op <;> simp only []
      · exact Num.liftF_ok _ (FV.addNum_ok w _ rfl)
      · exact Num.liftF_ok _ (FV.addNum_ok _ _ rfl)
      · exact Num.liftF_ok _ (FV.mulNum_ok w _ rfl)
    | R y =>
      cases op <;> simp only []
      · exact RF.addNum_ok y _ rfl (by intro w h; cases h)
      · exact RF.addNum_ok _ _ rfl (by intro w h; cases h)
      · exact RF.mulNum_ok y _ rfl (by intro w h; cases h)
    | I j => simp [Num.isFpy] at hfpy
    | D w => simp [Num.isFpy] at hfpy
    | Q n d => simp [Num.isFpy] at hfpy
  | Q n d =>
    cases b with
    | F w =>
      cases op <;> simp only []
      · exact Num.liftF_ok _ (FV.addNum_ok w _ ha)
      · exact Num.liftF_ok _ (FV.addNum_ok _ _ ha)
      · exact Num.liftF_ok _ (FV.mulNum_ok w _ ha)
    | R y =>
      cases op <;> simp only []
      · exact RF.addNum_ok y _ ha (by intro w h; cases h)
      · exact RF.addNum_ok _ _ ha (by intro w h; cases h)
      · exact RF.mulNum_ok y _ ha (by intro w h; cases h)
    | I j => simp [Num.isFpy] at hfpy
    | D w => simp [Num.isFpy] at hfpy
    | Q n' d' => simp [Num.isFpy] at hfpy

theorem RF.compareNum_ok (x : RF) (b : Num) (hF : ∀ w, b ≠ .F w) : ∃ o, x.compareNum b = .ok o := by
  cases b with
  | F w => exact absurd rfl (hF w)
  | R y => exact ⟨_, rfl⟩
  | I i => exact ⟨_, rfl⟩
  | D w => cases w <;> exact ⟨_, rfl⟩
  | Q n d => exact ⟨_, rfl⟩

theorem Num.cmpLeft_ok (op : Num.CmpOp) (a b : Num) (ha : a.isFpy = true) : ∃ r, Num.cmpLeft op a b = .ok r := by
  unfold Num.cmpLeft
  cases a with
  | F v => exact ⟨_, rfl⟩
  | R x =>
    cases b with
    | F w => exact ⟨_, rfl⟩
    | R y => exact ⟨_, rfl⟩
    | I i => exact ⟨_, rfl⟩
    | D w => cases w <;> exact ⟨_, rfl⟩
    | Q n d => exact ⟨_, rfl⟩
  | I i => simp [Num.isFpy] at ha
  | D v => simp [Num.isFpy] at ha
  | Q n d => simp [Num.isFpy] at ha

/-- the rich comparisons never raise when at least one operand is a library type -/
theorem Num.cmpOp_total (op : Num.CmpOp) (a b : Num) (hfpy : a.isFpy = true ∨ b.isFpy = true) :
    ∃ r, Num.cmpOp op a b = .ok r := by
  unfold Num.cmpOp
  cases a with
  | F v => exact Num.cmpLeft_ok op _ b rfl
  | R x => exact Num.cmpLeft_ok op _ b rfl
  | I i =>
    cases b with
    | F w => exact Num.cmpLeft_ok _ _ _ rfl
    | R y => exact Num.cmpLeft_ok _ _ _ rfl
    | I j => simp [Num.isFpy] at hfpy
    | D w => simp [Num.isFpy] at hfpy
    | Q n d => simp [Num.isFpy] at hfpy
  | D v =>
    cases b with
    | F w => exact Num.cmpLeft_ok _ _ _ rfl
    | R y => exact Num.cmpLeft_ok _ _ _ rfl
    | I j => simp [Num.isFpy] at hfpy
    | D w => simp [Num.isFpy] at hfpy
    | Q n d => simp [Num.isFpy] at hfpy
  | Q n d =>
    cases b with
    | F w => exact Num.cmpLeft_ok _ _ _ rfl
    | R y => exact ⟨_, rfl⟩
    | I j => simp [Num.isFpy] at hfpy
    | D w => simp [Num.isFpy] at hfpy
    | Q n' d' => simp [Num.isFpy] at hfpy

end Fpy
