/-
Helper lemmas for C14: the exact `RealFloat` operations of the model (`RF.compare`, `RF.add`,
`RF.mul`, `RF.neg`, `RF.abs`, `RF.normalize`) in terms of scaled integers
`x.sc g = ±c · 2^(exp - g)`.  Core Lean only.
-/
import Fpy.Spec.AbsFmt
import Fpy.Proof.Round
namespace Fpy
namespace RF

/-- `x.sc g` is meaningful: `x` is zero, or `g` is no larger than its exponent -/
def okAt (x : RF) (g : Int) : Prop := x.c = 0 ∨ g ≤ x.exp

theorem okAt_mono {x : RF} {g g' : Int} (h : x.okAt g) (hg : g' ≤ g) : x.okAt g' := by
  rcases h with h | h
  · exact Or.inl h
  · exact Or.inr (by omega)

theorem okAt_self (x : RF) : x.okAt x.exp := Or.inr (Int.le_refl _)
theorem okAt_min_left (x y : RF) : x.okAt (min x.exp y.exp) := Or.inr (by omega)
theorem okAt_min_right (x y : RF) : y.okAt (min x.exp y.exp) := Or.inr (by omega)

theorem pw_pos (k : Nat) : (0 : Int) < 2 ^ k := Int.pow_pos (by decide)

theorem sc_zero (x : RF) (g : Int) (h : x.c = 0) : x.sc g = 0 := by
  unfold sc; simp [h]

theorem sc_shift (x : RF) (g g' : Int) (hx : x.okAt g) (hg : g' ≤ g) :
    x.sc g' = x.sc g * 2 ^ (g - g').toNat := by
  rcases hx with h | h
  · simp [sc_zero _ _ h]
  · unfold sc
    have : (x.exp - g').toNat = (x.exp - g).toNat + (g - g').toNat := by omega
    rw [this, Int.pow_add]; grind

theorem scale_le {a b k : Int} (hk : 0 < k) : a * k ≤ b * k ↔ a ≤ b :=
  ⟨fun h => Int.le_of_mul_le_mul_right h hk, fun h => Int.mul_le_mul_of_nonneg_right h (Int.le_of_lt hk)⟩

theorem scale_lt {a b k : Int} (hk : 0 < k) : a * k < b * k ↔ a < b := Int.mul_lt_mul_right hk

theorem scale_eq {a b k : Int} (hk : 0 < k) : a * k = b * k ↔ a = b :=
  ⟨fun h => Int.eq_of_mul_eq_mul_right (Int.ne_of_gt hk) h, fun h => by rw [h]⟩

/-- order and equality of scaled values do not depend on the common scale -/
theorem le_level (x y : RF) (g1 g2 : Int) (hx1 : x.okAt g1) (hy1 : y.okAt g1) (hx2 : x.okAt g2) (hy2 : y.okAt g2) :
    x.sc g1 ≤ y.sc g1 ↔ x.sc g2 ≤ y.sc g2 := by
  have h1 : min g1 g2 ≤ g1 := by omega
  have h2 : min g1 g2 ≤ g2 := by omega
  have a1 := sc_shift x g1 _ hx1 h1
  have b1 := sc_shift y g1 _ hy1 h1
  have a2 := sc_shift x g2 _ hx2 h2
  have b2 := sc_shift y g2 _ hy2 h2
  rw [← scale_le (pw_pos (g1 - min g1 g2).toNat), ← a1, ← b1, a2, b2, scale_le (pw_pos _)]

theorem lt_level (x y : RF) (g1 g2 : Int) (hx1 : x.okAt g1) (hy1 : y.okAt g1) (hx2 : x.okAt g2) (hy2 : y.okAt g2) :
    x.sc g1 < y.sc g1 ↔ x.sc g2 < y.sc g2 := by
  have h1 : min g1 g2 ≤ g1 := by omega
  have h2 : min g1 g2 ≤ g2 := by omega
  have a1 := sc_shift x g1 _ hx1 h1
  have b1 := sc_shift y g1 _ hy1 h1
  have a2 := sc_shift x g2 _ hx2 h2
  have b2 := sc_shift y g2 _ hy2 h2
  rw [← scale_lt (pw_pos (g1 - min g1 g2).toNat), ← a1, ← b1, a2, b2, scale_lt (pw_pos _)]

theorem eq_level (x y : RF) (g1 g2 : Int) (hx1 : x.okAt g1) (hy1 : y.okAt g1) (hx2 : x.okAt g2) (hy2 : y.okAt g2) :
    x.sc g1 = y.sc g1 ↔ x.sc g2 = y.sc g2 := by
  have h1 : min g1 g2 ≤ g1 := by omega
  have h2 : min g1 g2 ≤ g2 := by omega
  have a1 := sc_shift x g1 _ hx1 h1
  have b1 := sc_shift y g1 _ hy1 h1
  have a2 := sc_shift x g2 _ hx2 h2
  have b2 := sc_shift y g2 _ hy2 h2
  rw [← scale_eq (pw_pos (g1 - min g1 g2).toNat), ← a1, ← b1, a2, b2, scale_eq (pw_pos _)]

theorem leV_iff (x y : RF) (g : Int) (hx : x.okAt g) (hy : y.okAt g) : x.leV y ↔ x.sc g ≤ y.sc g := by
  unfold leV
  exact le_level x y _ g (okAt_min_left x y) (okAt_min_right x y) hx hy

theorem eqV_iff (x y : RF) (g : Int) (hx : x.okAt g) (hy : y.okAt g) : x.eqV y ↔ x.sc g = y.sc g := by
  unfold eqV
  exact eq_level x y _ g (okAt_min_left x y) (okAt_min_right x y) hx hy

/-- magnitude in units of `2^g` -/
def mag (x : RF) (g : Int) : Nat := x.c * 2 ^ (x.exp - g).toNat

theorem sc_eq_mag (x : RF) (g : Int) : x.sc g = (if x.s then -1 else 1) * (x.mag g : Int) := by
  unfold sc mag; simp [Int.natCast_pow]

theorem magsc_pos (x : RF) (g : Int) (h : x.c ≠ 0) : 0 < x.mag g := by
  unfold mag
  exact Nat.mul_pos (Nat.pos_of_ne_zero h) (Nat.pow_pos (by decide))

theorem sc_pos (x : RF) (g : Int) (h : x.c ≠ 0) (hs : x.s = false) : 0 < x.sc g := by
  rw [sc_eq_mag]; simp [hs]; exact magsc_pos x g h

theorem sc_neg (x : RF) (g : Int) (h : x.c ≠ 0) (hs : x.s = true) : x.sc g < 0 := by
  rw [sc_eq_mag]; simp [hs]; have := magsc_pos x g h; omega

theorem sc_eq_zero_iff (x : RF) (g : Int) : x.sc g = 0 ↔ x.c = 0 := by
  constructor
  · intro h
    by_cases hc : x.c = 0
    · exact hc
    · cases hs : x.s
      · have := sc_pos x g hc hs; omega
      · have := sc_neg x g hc hs; omega
  · exact sc_zero x g

theorem bitLength_shift (c k : Nat) (h : c ≠ 0) : bitLength (c * 2 ^ k) = bitLength c + k := by
  have hb := bitLength_pos h
  have hne : c * 2 ^ k ≠ 0 := Nat.mul_ne_zero h (Nat.ne_of_gt (Nat.pow_pos (by decide)))
  rw [bitLength_eq_iff _ _ (by omega)]
  have ⟨h1, h2⟩ := (bitLength_eq_iff c (bitLength c) hb).1 rfl
  have e1 : bitLength c + k - 1 = (bitLength c - 1) + k := by omega
  rw [e1, Nat.pow_add, Nat.pow_add]
  exact ⟨Nat.mul_le_mul_right _ h1, Nat.mul_lt_mul_of_lt_of_le h2 (Nat.le_refl _) (Nat.pow_pos (by decide))⟩

theorem lt_of_bitLength_lt {a b : Nat} (h : bitLength a < bitLength b) : a < b := by
  have hb : b ≠ 0 := by
    intro hb; subst hb; simp [bitLength] at h
  have ha : a < 2 ^ bitLength a := (bitLength_le_iff a _).1 (Nat.le_refl _)
  have ⟨h1, _⟩ := (bitLength_eq_iff b (bitLength b) (bitLength_pos hb)).1 rfl
  have : 2 ^ bitLength a ≤ 2 ^ (bitLength b - 1) := Nat.pow_le_pow_right (by decide) (by omega)
  omega

theorem mag_shift (x : RF) (g g' : Int) (hx : g ≤ x.exp) (hg : g' ≤ g) :
    x.mag g' = x.mag g * 2 ^ (g - g').toNat := by
  unfold mag
  have : (x.exp - g').toNat = (x.exp - g).toNat + (g - g').toNat := by omega
  rw [this, Nat.pow_add, Nat.mul_assoc]

theorem e_eq_bitLength_mag (x : RF) (g : Int) (h : x.c ≠ 0) (hg : g ≤ x.exp) :
    (bitLength (x.mag g) : Int) = x.e + 1 - g := by
  unfold mag e p
  rw [bitLength_shift _ _ h]
  omega

/-- the magnitude comparison inside `RealFloat.compare` is the comparison of the scaled magnitudes -/
theorem magcmp_spec (x y : RF) (g : Int) (hx : x.c ≠ 0) (hy : y.c ≠ 0) (hgx : g ≤ x.exp) (hgy : g ≤ y.exp) :
    (if x.e > y.e then Ordering.gt
     else if x.e < y.e then Ordering.lt
     else Ord.compare (shl x.c (x.exp - min x.exp y.exp)) (shl y.c (y.exp - min x.exp y.exp)))
    = Ord.compare (x.mag g) (y.mag g) := by
  have ex := e_eq_bitLength_mag x g hx hgx
  have ey := e_eq_bitLength_mag y g hy hgy
  by_cases h1 : x.e > y.e
  · simp only [h1, if_true]
    have : y.mag g < x.mag g := lt_of_bitLength_lt (by omega)
    exact (Nat.compare_eq_gt.2 this).symm
  · by_cases h2 : x.e < y.e
    · simp only [h1, h2, if_true, if_false]
      have : x.mag g < y.mag g := lt_of_bitLength_lt (by omega)
      exact (Nat.compare_eq_lt.2 this).symm
    · simp only [h1, h2, if_false]
      have hm1 : min x.exp y.exp ≤ x.exp := by omega
      have hm2 : min x.exp y.exp ≤ y.exp := by omega
      have hgm : g ≤ min x.exp y.exp := by omega
      have sx := mag_shift x _ g hm1 hgm
      have sy := mag_shift y _ g hm2 hgm
      have e1 : shl x.c (x.exp - min x.exp y.exp) = x.mag (min x.exp y.exp) := rfl
      have e2 : shl y.c (y.exp - min x.exp y.exp) = y.mag (min x.exp y.exp) := rfl
      rw [e1, e2, sx, sy]
      have hk : 0 < 2 ^ (min x.exp y.exp - g).toNat := Nat.pow_pos (by decide)
      generalize x.mag (min x.exp y.exp) = a
      generalize y.mag (min x.exp y.exp) = b
      generalize 2 ^ (min x.exp y.exp - g).toNat = k at hk
      rcases Nat.lt_trichotomy a b with h | h | h
      · rw [Nat.compare_eq_lt.2 h, Nat.compare_eq_lt.2 ((Nat.mul_lt_mul_right hk).2 h)]
      · subst h; simp
      · rw [Nat.compare_eq_gt.2 h, Nat.compare_eq_gt.2 ((Nat.mul_lt_mul_right hk).2 h)]

/-- **`RealFloat.compare` is the order of the denoted numbers.** -/
theorem compare_spec (x y : RF) (g : Int) (hx : x.okAt g) (hy : y.okAt g) :
    x.compare y = Ord.compare (x.sc g) (y.sc g) := by
  unfold RF.compare
  by_cases hxc : x.c = 0
  · rw [sc_zero x g hxc]
    simp only [hxc, if_true]
    by_cases hyc : y.c = 0
    · rw [sc_zero y g hyc]; simp [hyc]
    · simp only [hyc, if_false]
      cases hs : y.s
      · have := sc_pos y g hyc hs
        simp; exact (Int.compare_eq_lt.2 this).symm
      · have := sc_neg y g hyc hs
        simp; exact (Int.compare_eq_gt.2 this).symm
  · simp only [hxc, if_false]
    by_cases hyc : y.c = 0
    · rw [sc_zero y g hyc]
      simp only [hyc, if_true]
      cases hs : x.s
      · have := sc_pos x g hxc hs
        simp; exact (Int.compare_eq_gt.2 this).symm
      · have := sc_neg x g hxc hs
        simp; exact (Int.compare_eq_lt.2 this).symm
    · simp only [hyc, if_false]
      have hgx : g ≤ x.exp := by rcases hx with h | h; exact absurd h hxc; exact h
      have hgy : g ≤ y.exp := by rcases hy with h | h; exact absurd h hyc; exact h
      have hm := magcmp_spec x y g hxc hyc hgx hgy
      have px := magsc_pos x g hxc
      have py := magsc_pos y g hyc
      cases hsx : x.s <;> cases hsy : y.s
      · -- both positive
        simp only [bne_self_eq_false, Bool.false_eq_true, if_false]
        rw [hm, sc_eq_mag, sc_eq_mag]; simp only [hsx, hsy, Bool.false_eq_true, if_false, Int.one_mul]
        generalize x.mag g = a at *
        generalize y.mag g = b at *
        rcases Nat.lt_trichotomy a b with h | h | h
        · rw [Nat.compare_eq_lt.2 h]; exact (Int.compare_eq_lt.2 (by omega)).symm
        · subst h; simp
        · rw [Nat.compare_eq_gt.2 h]; exact (Int.compare_eq_gt.2 (by omega)).symm
      · have h1 := sc_pos x g hxc hsx
        have h2 := sc_neg y g hyc hsy
        simp; exact (Int.compare_eq_gt.2 (by omega)).symm
      · have h1 := sc_neg x g hxc hsx
        have h2 := sc_pos y g hyc hsy
        simp; exact (Int.compare_eq_lt.2 (by omega)).symm
      · -- both negative
        simp only [bne_self_eq_false, Bool.false_eq_true, if_false, if_true]
        rw [hm, sc_eq_mag, sc_eq_mag]; simp only [hsx, hsy, if_true]
        generalize x.mag g = a at *
        generalize y.mag g = b at *
        rcases Nat.lt_trichotomy a b with h | h | h
        · rw [Nat.compare_eq_lt.2 h]; exact (Int.compare_eq_gt.2 (by omega)).symm
        · subst h; simp
        · rw [Nat.compare_eq_gt.2 h]; exact (Int.compare_eq_lt.2 (by omega)).symm

theorem lt_iff (x y : RF) (g : Int) (hx : x.okAt g) (hy : y.okAt g) : x.lt y = true ↔ x.sc g < y.sc g := by
  unfold RF.lt; rw [compare_spec x y g hx hy]
  simp [Int.compare_eq_lt]

theorem gt_iff (x y : RF) (g : Int) (hx : x.okAt g) (hy : y.okAt g) : x.gt y = true ↔ y.sc g < x.sc g := by
  unfold RF.gt; rw [compare_spec x y g hx hy]
  simp [Int.compare_eq_gt]

/-! ### exact operations -/

theorem neg_sc (x : RF) (g : Int) : x.neg.sc g = - x.sc g := by
  unfold RF.neg sc; cases x.s <;> simp

theorem neg_okAt {x : RF} {g : Int} (h : x.okAt g) : x.neg.okAt g := h

theorem abs_sc_of_neg (x : RF) (g : Int) (hs : x.s = true) : x.abs.sc g = - x.sc g := by
  unfold RF.abs sc; simp [hs]

theorem abs_sc_of_pos (x : RF) (g : Int) (hs : x.s = false) : x.abs.sc g = x.sc g := by
  unfold RF.abs sc; simp [hs]

theorem abs_okAt {x : RF} {g : Int} (h : x.okAt g) : x.abs.okAt g := h

theorem abs_sc_nonneg (x : RF) (g : Int) : 0 ≤ x.abs.sc g := by
  rw [sc_eq_mag]; simp [RF.abs]

theorem abs_sc_ge (x : RF) (g : Int) : x.sc g ≤ x.abs.sc g ∧ - x.sc g ≤ x.abs.sc g := by
  cases hs : x.s
  · rw [abs_sc_of_pos x g hs]; have := abs_sc_nonneg x g; rw [abs_sc_of_pos x g hs] at this; omega
  · rw [abs_sc_of_neg x g hs]; have := abs_sc_nonneg x g; rw [abs_sc_of_neg x g hs] at this; omega

theorem ofInt_zero_sc (g : Int) : (RF.ofInt 0).sc g = 0 := by
  apply sc_zero; rfl

/-- **`RealFloat.__add__` is exact.** -/
theorem add_sc (x y : RF) (g : Int) (hx : x.okAt g) (hy : y.okAt g) :
    (x.add y).okAt g ∧ (x.add y).sc g = x.sc g + y.sc g := by
  unfold RF.add
  by_cases hxc : x.c = 0
  · simp only [hxc, if_true]
    by_cases hyc : y.c = 0
    · simp only [hyc, if_true]
      refine ⟨Or.inl rfl, ?_⟩
      rw [sc_zero x g hxc, sc_zero y g hyc, sc_zero _ g rfl]; rfl
    · simp only [hyc, if_false]
      exact ⟨hy, by rw [sc_zero x g hxc]; omega⟩
  · simp only [hxc, if_false]
    by_cases hyc : y.c = 0
    · simp only [hyc, if_true]
      exact ⟨hx, by rw [sc_zero y g hyc]; omega⟩
    · simp only [hyc, if_false]
      have hgx : g ≤ x.exp := by rcases hx with h | h; exact absurd h hxc; exact h
      have hgy : g ≤ y.exp := by rcases hy with h | h; exact absurd h hyc; exact h
      have hgm : g ≤ min x.exp y.exp := by omega
      refine ⟨Or.inr hgm, ?_⟩
      have sx := sc_shift x (min x.exp y.exp) g (okAt_min_left x y) hgm
      have sy := sc_shift y (min x.exp y.exp) g (okAt_min_right x y) hgm
      rw [sx, sy]
      -- the sum at level `min`
      have e1 : (if x.s = true then -((shl x.c (x.exp - min x.exp y.exp) : Nat) : Int) else ((shl x.c (x.exp - min x.exp y.exp) : Nat) : Int))
          = x.sc (min x.exp y.exp) := by
        unfold sc shl; cases x.s <;> simp [Int.natCast_pow]
      have e2 : (if y.s = true then -((shl y.c (y.exp - min x.exp y.exp) : Nat) : Int) else ((shl y.c (y.exp - min x.exp y.exp) : Nat) : Int))
          = y.sc (min x.exp y.exp) := by
        unfold sc shl; cases y.s <;> simp [Int.natCast_pow]
      simp only [e1, e2]
      generalize x.sc (min x.exp y.exp) = a
      generalize y.sc (min x.exp y.exp) = b
      unfold sc
      have hk := pw_pos (min x.exp y.exp - g).toNat
      generalize (2 : Int) ^ (min x.exp y.exp - g).toNat = k at *
      by_cases hneg : a + b < 0
      · simp only [hneg, decide_true, if_true]
        have : ((a + b).natAbs : Int) = -(a + b) := by omega
        rw [this]; grind
      · simp only [hneg, decide_false, Bool.false_eq_true, if_false]
        have : ((a + b).natAbs : Int) = a + b := by omega
        rw [this]; grind

theorem sub_sc (x y : RF) (g : Int) (hx : x.okAt g) (hy : y.okAt g) :
    (x.sub y).okAt g ∧ (x.sub y).sc g = x.sc g - y.sc g := by
  unfold RF.sub
  have := add_sc x y.neg g hx (neg_okAt hy)
  rw [neg_sc] at this
  exact ⟨this.1, by rw [this.2]; omega⟩

/-- the sum is `-0` only when both addends are -/
theorem add_neg_zero (x y : RF) (hc : (x.add y).c = 0) (hs : (x.add y).s = true) :
    x.c = 0 ∧ x.s = true ∧ y.c = 0 ∧ y.s = true := by
  unfold RF.add at hc hs
  by_cases hxc : x.c = 0
  · simp only [hxc, if_true] at hc hs
    by_cases hyc : y.c = 0
    · simp only [hyc, if_true] at hs
      simp at hs
      exact ⟨hxc, hs.1, hyc, hs.2⟩
    · simp only [hyc, if_false] at hc <;> exact absurd hc hyc
  · simp only [hxc, if_false] at hc hs
    by_cases hyc : y.c = 0
    · simp only [hyc, if_true] at hc <;> exact absurd hc hxc
    · simp only [hyc, if_false] at hc hs
      simp at hc hs
      omega

/-- **`RealFloat.__mul__` is exact.** -/
theorem mul_sc (x y : RF) (g1 g2 : Int) (hx : x.okAt g1) (hy : y.okAt g2) :
    (x.mul y).okAt (g1 + g2) ∧ (x.mul y).sc (g1 + g2) = x.sc g1 * y.sc g2 := by
  unfold RF.mul
  by_cases hz : x.c = 0 ∨ y.c = 0
  · have : (x.c = 0 || y.c = 0) = true := by simpa using hz
    simp only [this, if_true]
    refine ⟨Or.inl rfl, ?_⟩
    rw [sc_zero _ _ rfl]
    rcases hz with h | h
    · rw [sc_zero x g1 h]; simp
    · rw [sc_zero y g2 h]; simp
  · have hxc : x.c ≠ 0 := fun h => hz (Or.inl h)
    have hyc : y.c ≠ 0 := fun h => hz (Or.inr h)
    have : (x.c = 0 || y.c = 0) = false := by simp [hxc, hyc]
    simp only [this, Bool.false_eq_true, if_false]
    have hgx : g1 ≤ x.exp := by rcases hx with h | h; exact absurd h hxc; exact h
    have hgy : g2 ≤ y.exp := by rcases hy with h | h; exact absurd h hyc; exact h
    refine ⟨Or.inr (by simp only; omega), ?_⟩
    unfold sc
    simp only
    have : (x.exp + y.exp - (g1 + g2)).toNat = (x.exp - g1).toNat + (y.exp - g2).toNat := by omega
    rw [this, Int.pow_add]
    cases x.s <;> cases y.s <;> simp <;> grind

theorem mul_zero_sign (x y : RF) (hc : (x.mul y).c = 0) : (x.mul y).s = (x.s != y.s) ∧ (x.c = 0 ∨ y.c = 0) := by
  unfold RF.mul at hc ⊢
  by_cases hz : (x.c = 0 || y.c = 0) = true
  · rw [if_pos hz]; exact ⟨rfl, by simpa using hz⟩
  · rw [if_neg hz] at hc
    simp at hz
    have := Nat.mul_ne_zero hz.1 hz.2
    exact absurd hc this

/-- Python `max(x, y)` on `RealFloat`s is an upper bound of both -/
theorem max2_sc (x y : RF) (g : Int) (hx : x.okAt g) (hy : y.okAt g) :
    (x.max2 y).okAt g ∧ x.sc g ≤ (x.max2 y).sc g ∧ y.sc g ≤ (x.max2 y).sc g ∧
      ((x.max2 y) = x ∨ (x.max2 y) = y) := by
  unfold RF.max2
  by_cases h : y.gt x = true
  · have := (gt_iff y x g hy hx).1 h
    rw [if_pos h]; exact ⟨hy, by omega, by omega, Or.inr rfl⟩
  · have h' : ¬ x.sc g < y.sc g := fun hh => h ((gt_iff y x g hy hx).2 hh)
    rw [if_neg h]; exact ⟨hx, by omega, by omega, Or.inl rfl⟩

/-- `normalize(n = E - 1)` re-expresses the same number with exponent `E` -/
theorem normalize_sc (x y : RF) (E : Int) (h : x.normalize none (some (E - 1)) = some y) (g : Int)
    (hx : x.okAt g) (hg : g ≤ E) : y.exp = E ∧ y.s = x.s ∧ y.sc g = x.sc g := by
  unfold RF.normalize at h
  simp only at h
  have hE : E - 1 + 1 = E := by omega
  rw [hE] at h
  by_cases h0 : x.exp - E = 0
  · simp only [h0, if_true] at h
    cases h
    refine ⟨rfl, rfl, ?_⟩
    unfold sc; simp only
    have : x.exp = E := by omega
    rw [this]
  · simp only [h0, if_false] at h
    by_cases h1 : x.exp - E > 0
    · simp only [h1, if_true] at h
      cases h
      refine ⟨rfl, rfl, ?_⟩
      unfold sc; simp only
      have : (x.exp - g).toNat = (x.exp - E).toNat + (E - g).toNat := by omega
      rw [this, Int.pow_add, Int.natCast_mul, Int.natCast_pow]
      grind
    · simp only [h1, if_false] at h
      by_cases h2 : (x.c % 2 ^ (-(x.exp - E)).toNat != 0) = true
      · simp only [h2, if_true] at h; cases h
      · simp only [h2, if_false] at h
        cases h
        refine ⟨rfl, rfl, ?_⟩
        have hm : x.c % 2 ^ (-(x.exp - E)).toNat = 0 := by simpa using h2
        by_cases hc : x.c = 0
        · rw [sc_zero x g hc]; apply sc_zero; simp [hc]
        · have hgx : g ≤ x.exp := by rcases hx with hh | hh; exact absurd hh hc; exact hh
          unfold sc; simp only
          have hd := Nat.div_add_mod x.c (2 ^ (-(x.exp - E)).toNat)
          rw [hm, Nat.add_zero] at hd
          have : (E - g).toNat = (-(x.exp - E)).toNat + (x.exp - g).toNat := by omega
          rw [this, Int.pow_add]
          conv => rhs; rw [← hd]
          rw [Int.natCast_mul, Int.natCast_pow]
          grind

end RF
end Fpy
