/-
Two invariants of statement execution, each by induction on the fuel:
* FRAME: a block that ends normally changed only variables it binds (`bvB`);
* NO-RETURN: a block without a `return` statement never produces a `return` outcome.
-/
import Fpy.Model.Lang.Vars
import Fpy.Proof.LangRewrite
namespace Fpy.Xform
open Fpy Fpy.Lang

/-- postcondition of a computation: whatever it yields satisfies `Q` -/
structure Post {α : Type} (Q : α → Prop) (a : M α) : Prop where
  out : ∀ r, a = .ok r → Q r

theorem Post.ok {α : Type} {Q : α → Prop} {r : α} (h : Q r) : Post Q (.ok r) :=
  ⟨by intro r' h'; cases h'; exact h⟩

theorem Post.error {α : Type} {Q : α → Prop} (e : Err) : Post Q (.error e : M α) :=
  ⟨by intro r' h'; cases h'⟩

theorem Post.bind {α β : Type} {Q : α → Prop} {P : β → Prop} {a : M α} {f : α → M β}
    (h : Post Q a) (hf : ∀ x, Q x → Post P (f x)) : Post P (a >>= f) := by
  cases a with
  | error e => exact Post.error e
  | ok x => exact hf x (h.out x rfl)

theorem Post.bind' {α β : Type} {P : β → Prop} {a : M α} {f : α → M β}
    (hf : ∀ x, Post P (f x)) : Post P (a >>= f) := by
  cases a with
  | error e => exact Post.error e
  | ok x => exact hf x

theorem Post.mono {α : Type} {Q P : α → Prop} {a : M α} (h : Post Q a) (hqp : ∀ r, Q r → P r) : Post P a :=
  ⟨fun r hr => hqp r (h.out r hr)⟩

theorem Post.tends {α : Type} {Q : α → Prop} {a : Nat → M α} {l : M α} (ha : Tends a l) (h : ∀ n, Post Q (a n)) :
    Post Q l := by
  refine ⟨fun r hr => ?_⟩
  obtain ⟨n, hn⟩ := ha.reach (by rw [hr]; intro h0; cases h0)
  exact (h n).out r (by rw [hn n (Nat.le_refl _), hr])

/-! ### frame -/

/-- a normal outcome left every variable outside `V` as it was in `σ` -/
def Frame (V : List String) (σ : Env) (r : Outcome × Heap) : Prop :=
  ∀ σ', r.1 = .normal σ' → ∀ z, z ∉ V → σ'.get? z = σ.get? z

theorem Frame.same (V : List String) (σ : Env) (μ : Heap) : Frame V σ (.normal σ, μ) := by
  intro σ' h z _; cases h; rfl

theorem Frame.ret (V : List String) (σ : Env) (v : Val) (μ : Heap) : Frame V σ (.ret v, μ) := by
  intro σ' h; cases h

theorem Frame.trans {V W : List String} {σ σ1 : Env} {r : Outcome × Heap} (hVW : ∀ z, z ∉ W → z ∉ V)
    (h1 : ∀ z, z ∉ W → σ1.get? z = σ.get? z) (h2 : Frame V σ1 r) : Frame W σ r := by
  intro σ' hr z hz
  rw [h2 σ' hr z (hVW z hz), h1 z hz]

theorem bindPat_frame : ∀ (n : Nat) (p : Pat) (v : Val) (σ : Env),
    Post (fun σ' => ∀ z, z ∉ bvP p → σ'.get? z = σ.get? z) (bindPat n p v σ) := by
  intro n
  induction n with
  | zero => intro p v σ; simp only [bindPat]; exact Post.error _
  | succ n ih =>
    have hgo : ∀ (ps : List Pat) (vs : List Val) (σ : Env),
        Post (fun σ' => ∀ z, z ∉ bvPs ps → σ'.get? z = σ.get? z) (bindPat.go n ps vs σ) := by
      intro ps
      induction ps with
      | nil => intro vs σ; simp only [bindPat.go]; exact Post.ok (fun _ _ => rfl)
      | cons p ps ihp =>
        intro vs σ
        cases vs with
        | nil => simp only [bindPat.go]; exact Post.ok (fun _ _ => rfl)
        | cons v vs =>
          simp only [bindPat.go]
          apply Post.bind (ih p v σ)
          intro σ1 h1
          apply Post.mono (ihp vs σ1)
          intro σ' h2 z hz
          have hz' : z ∉ bvP p ++ bvPs ps := hz
          rw [List.mem_append, not_or] at hz'
          rw [h2 z hz'.2, h1 z hz'.1]
    intro p v σ
    cases p with
    | var x =>
      simp only [bindPat]
      apply Post.ok
      intro z hz
      have hz' : z ∉ [x] := hz
      rw [Env.get?_set, if_neg (by intro h; exact hz' (by rw [h]; exact List.mem_singleton.2 rfl))]
    | wild => simp only [bindPat]; exact Post.ok (fun _ _ => rfl)
    | tup ps =>
      cases v <;> simp only [bindPat] <;> try (exact Post.error _)
      split
      · exact Post.error _
      · exact hgo ps _ σ

structure FrameAt (Φ : Funs) (n : Nat) : Prop where
  evalS : ∀ σ μ C s, Post (Frame (bvS s) σ) (evalS Φ n σ μ C s)
  forLoop : ∀ σ μ C r i p b, Post (Frame (bvP p ++ bvB b) σ) (forLoop Φ n σ μ C r i p b)
  evalB : ∀ σ μ C ss, Post (Frame (bvB ss) σ) (evalB Φ n σ μ C ss)

/-- frame goals whose outcome is the unchanged environment, a return or an error -/
macro "frame_tac" : tactic => `(tactic| repeat (first
  | exact Post.ok (Frame.same _ _ _)
  | exact Post.ok (Frame.ret _ _ _ _)
  | exact Post.error _
  | apply Post.bind'
  | (intro ⟨_, _⟩; try dsimp only)
  | intro _
  | split))

theorem mem_of_not_mem_append_left {z : String} {a b : List String} (h : z ∉ a ++ b) : z ∉ a :=
  fun h' => h (List.mem_append_left _ h')
theorem mem_of_not_mem_append_right {z : String} {a b : List String} (h : z ∉ a ++ b) : z ∉ b :=
  fun h' => h (List.mem_append_right _ h')

theorem frame_evalB_step {Φ : Funs} {n : Nat} (ih : FrameAt Φ n) :
    ∀ σ μ C ss, Post (Frame (bvB ss) σ) (evalB Φ (n+1) σ μ C ss) := by
  intro σ μ C ss
  cases ss with
  | nil => simp only [evalB]; exact Post.ok (Frame.same _ _ _)
  | cons s ss =>
    simp only [evalB]
    apply Post.bind (ih.evalS σ μ C s)
    intro ⟨o, μ'⟩ ho
    cases o with
    | ret v => exact Post.ok (Frame.ret _ _ _ _)
    | normal σ1 =>
      apply Post.mono (ih.evalB σ1 μ' C ss)
      intro r hr
      have hV : bvB (s :: ss) = bvS s ++ bvB ss := rfl
      rw [hV]
      exact Frame.trans (fun z hz => mem_of_not_mem_append_right hz)
        (fun z hz => ho σ1 rfl z (mem_of_not_mem_append_left hz)) hr

theorem frame_forLoop_step {Φ : Funs} {n : Nat} (ih : FrameAt Φ n) :
    ∀ σ μ C r i p b, Post (Frame (bvP p ++ bvB b) σ) (forLoop Φ (n+1) σ μ C r i p b) := by
  intro σ μ C r i p b
  simp only [forLoop]
  apply Post.bind'; intro l
  cases l[i]? with
  | none => exact Post.ok (Frame.same _ _ _)
  | some x =>
    apply Post.bind (bindPat_frame n p x σ)
    intro σ1 h1
    apply Post.bind (ih.evalB σ1 μ C b)
    intro ⟨o, μ'⟩ ho
    cases o with
    | ret v => exact Post.ok (Frame.ret _ _ _ _)
    | normal σ2 =>
      apply Post.mono (ih.forLoop σ2 μ' C r (i + 1) p b)
      intro r' hr
      refine Frame.trans (fun z hz => hz) (fun z hz => ?_) hr
      rw [ho σ2 rfl z (mem_of_not_mem_append_right hz), h1 z (mem_of_not_mem_append_left hz)]

theorem frame_evalS_step {Φ : Funs} {n : Nat} (ih : FrameAt Φ n) :
    ∀ σ μ C s, Post (Frame (bvS s) σ) (evalS Φ (n+1) σ μ C s) := by
  intro σ μ C s
  cases s with
  | assign p e =>
    simp only [evalS]
    apply Post.bind'; intro ⟨v, μ'⟩
    apply Post.bind (bindPat_frame n p v σ)
    intro σ1 h1
    apply Post.ok
    intro σ' hσ' z hz
    cases hσ'
    have hV : bvS (.assign p e) = bvP p ++ bvE e := rfl
    rw [hV] at hz
    exact h1 z (mem_of_not_mem_append_left hz)
  | iassign x is e => simp only [evalS]; frame_tac
  | ifte c t f =>
    simp only [evalS]
    apply Post.bind'; intro ⟨v, μ'⟩
    apply Post.bind'; intro bb
    have hV : bvS (.ifte c t f) = bvE c ++ bvB t ++ bvB f := rfl
    rw [hV]
    split
    · exact Post.mono (ih.evalB σ μ' C t) (fun r hr =>
        Frame.trans (fun z hz => mem_of_not_mem_append_right (mem_of_not_mem_append_left hz)) (fun _ _ => rfl) hr)
    · exact Post.mono (ih.evalB σ μ' C f) (fun r hr =>
        Frame.trans (fun z hz => mem_of_not_mem_append_right hz) (fun _ _ => rfl) hr)
  | if1 c t =>
    simp only [evalS]
    apply Post.bind'; intro ⟨v, μ'⟩
    apply Post.bind'; intro bb
    have hV : bvS (.if1 c t) = bvE c ++ bvB t := rfl
    rw [hV]
    split
    · exact Post.mono (ih.evalB σ μ' C t) (fun r hr =>
        Frame.trans (fun z hz => mem_of_not_mem_append_right hz) (fun _ _ => rfl) hr)
    · exact Post.ok (Frame.same _ _ _)
  | «while» c b =>
    simp only [evalS]
    apply Post.bind'; intro ⟨v, μ'⟩
    apply Post.bind'; intro bb
    have hV : bvS (.while c b) = bvE c ++ bvB b := rfl
    split
    · apply Post.bind (ih.evalB σ μ' C b)
      intro ⟨o, μ''⟩ ho
      cases o with
      | ret v => exact Post.ok (Frame.ret _ _ _ _)
      | normal σ1 =>
        apply Post.mono (ih.evalS σ1 μ'' C (.while c b))
        intro r hr
        refine Frame.trans (fun z hz => hz) (fun z hz => ?_) hr
        rw [hV] at hz
        exact ho σ1 rfl z (mem_of_not_mem_append_right hz)
    · exact Post.ok (Frame.same _ _ _)
  | «for» p it b =>
    simp only [evalS]
    apply Post.bind'; intro ⟨iv, μ'⟩
    have hV : bvS (.for p it b) = bvP p ++ bvE it ++ bvB b := rfl
    rw [hV]
    cases iv <;> first
      | exact Post.error _
      | skip
    apply Post.mono (ih.forLoop σ μ' C _ 0 p b)
    intro r hr
    refine Frame.trans (fun z hz => ?_) (fun _ _ => rfl) hr
    intro h'
    rw [List.mem_append] at h'
    rcases h' with h' | h'
    · exact hz (List.mem_append_left _ (List.mem_append_left _ h'))
    · exact hz (List.mem_append_right _ h')
  | «with» ce nm b =>
    simp only [evalS]
    apply Post.bind'; intro ⟨cv, μ'⟩
    have hV : bvS (.with ce nm b) = (match nm with | some x => [x] | none => []) ++ bvE ce ++ bvB b := rfl
    rw [hV]
    cases cv <;> first
      | exact Post.error _
      | skip
    rename_i C'
    apply Post.mono (ih.evalB _ μ' C' b)
    intro r hr
    refine Frame.trans (fun z hz => mem_of_not_mem_append_right hz) (fun z hz => ?_) hr
    cases nm with
    | none => rfl
    | some x =>
      have hzx : z ∉ [x] := mem_of_not_mem_append_left (mem_of_not_mem_append_left hz)
      show (σ.set x _).get? z = _
      rw [Env.get?_set, if_neg (by intro h; exact hzx (by rw [h]; exact List.mem_singleton.2 rfl))]
  | assert e => simp only [evalS]; frame_tac
  | effect e => simp only [evalS]; frame_tac
  | ret e => simp only [evalS]; frame_tac
  | pass => simp only [evalS]; frame_tac

theorem frameAt (Φ : Funs) : ∀ n, FrameAt Φ n := by
  intro n
  induction n with
  | zero => constructor <;> intros <;> exact Post.error _
  | succ n ih => exact ⟨frame_evalS_step ih, frame_forLoop_step ih, frame_evalB_step ih⟩

/-- FRAME: a block that ends normally changed only the variables it binds -/
theorem evalBω_frame (Φ : Funs) (σ : Env) (μ : Heap) (C : Ctx) (ss : List Stmt) {σ' : Env} {μ' : Heap}
    (h : evalBω Φ σ μ C ss = .ok (.normal σ', μ')) : ∀ z, z ∉ bvB ss → σ'.get? z = σ.get? z :=
  (Post.tends (tends_evalB Φ σ μ C ss) (fun n => (frameAt Φ n).evalB σ μ C ss)).out _ h σ' rfl

/-! ### no return -/

def NoRet (r : Outcome × Heap) : Prop := ∀ v, r.1 ≠ .ret v

theorem NoRet.normal (σ : Env) (μ : Heap) : NoRet (.normal σ, μ) := by intro v h; cases h

structure NoRetAt (Φ : Funs) (n : Nat) : Prop where
  evalS : ∀ σ μ C s, noRetS s = true → Post NoRet (evalS Φ n σ μ C s)
  forLoop : ∀ σ μ C r i p b, noRetB b = true → Post NoRet (forLoop Φ n σ μ C r i p b)
  evalB : ∀ σ μ C ss, noRetB ss = true → Post NoRet (evalB Φ n σ μ C ss)

macro "noret_tac" : tactic => `(tactic| repeat (first
  | exact Post.ok (NoRet.normal _ _)
  | exact Post.error _
  | apply Post.bind'
  | (intro ⟨_, _⟩; try dsimp only)
  | intro _
  | split))

theorem noret_evalB_step {Φ : Funs} {n : Nat} (ih : NoRetAt Φ n) :
    ∀ σ μ C ss, noRetB ss = true → Post NoRet (evalB Φ (n+1) σ μ C ss) := by
  intro σ μ C ss h
  cases ss with
  | nil => simp only [evalB]; exact Post.ok (NoRet.normal _ _)
  | cons s ss =>
    replace h : (noRetS s && noRetB ss) = true := h
    simp only [Bool.and_eq_true] at h
    simp only [evalB]
    apply Post.bind (ih.evalS σ μ C s h.1)
    intro ⟨o, μ'⟩ ho
    cases o with
    | ret v => exact absurd rfl (ho v)
    | normal σ1 => exact ih.evalB σ1 μ' C ss h.2

theorem noret_forLoop_step {Φ : Funs} {n : Nat} (ih : NoRetAt Φ n) :
    ∀ σ μ C r i p b, noRetB b = true → Post NoRet (forLoop Φ (n+1) σ μ C r i p b) := by
  intro σ μ C r i p b h
  simp only [forLoop]
  apply Post.bind'; intro l
  cases l[i]? with
  | none => exact Post.ok (NoRet.normal _ _)
  | some x =>
    apply Post.bind'; intro σ1
    apply Post.bind (ih.evalB σ1 μ C b h)
    intro ⟨o, μ'⟩ ho
    cases o with
    | ret v => exact absurd rfl (ho v)
    | normal σ2 => exact ih.forLoop σ2 μ' C r (i + 1) p b h

theorem noret_evalS_step {Φ : Funs} {n : Nat} (ih : NoRetAt Φ n) :
    ∀ σ μ C s, noRetS s = true → Post NoRet (evalS Φ (n+1) σ μ C s) := by
  intro σ μ C s h
  cases s with
  | assign p e => simp only [evalS]; noret_tac
  | iassign x is e => simp only [evalS]; noret_tac
  | ifte c t f =>
    replace h : (noRetB t && noRetB f) = true := h
    simp only [Bool.and_eq_true] at h
    simp only [evalS]
    apply Post.bind'; intro ⟨v, μ'⟩
    apply Post.bind'; intro bb
    split
    · exact ih.evalB _ _ _ _ h.1
    · exact ih.evalB _ _ _ _ h.2
  | if1 c t =>
    replace h : noRetB t = true := h
    simp only [evalS]
    apply Post.bind'; intro ⟨v, μ'⟩
    apply Post.bind'; intro bb
    split
    · exact ih.evalB _ _ _ _ h
    · exact Post.ok (NoRet.normal _ _)
  | «while» c b =>
    have h0 := h
    replace h : noRetB b = true := h
    simp only [evalS]
    apply Post.bind'; intro ⟨v, μ'⟩
    apply Post.bind'; intro bb
    split
    · apply Post.bind (ih.evalB σ μ' C b h)
      intro ⟨o, μ''⟩ ho
      cases o with
      | ret v => exact absurd rfl (ho v)
      | normal σ1 => exact ih.evalS σ1 μ'' C _ h0
    · exact Post.ok (NoRet.normal _ _)
  | «for» p it b =>
    replace h : noRetB b = true := h
    simp only [evalS]
    apply Post.bind'; intro ⟨iv, μ'⟩
    cases iv <;> first
      | exact Post.error _
      | exact ih.forLoop _ _ _ _ _ _ _ h
  | «with» ce nm b =>
    replace h : noRetB b = true := h
    simp only [evalS]
    apply Post.bind'; intro ⟨cv, μ'⟩
    cases cv <;> first
      | exact Post.error _
      | exact ih.evalB _ _ _ _ h
  | assert e => simp only [evalS]; noret_tac
  | effect e => simp only [evalS]; noret_tac
  | ret e => exact absurd h Bool.false_ne_true
  | pass => simp only [evalS]; noret_tac

theorem noRetAt (Φ : Funs) : ∀ n, NoRetAt Φ n := by
  intro n
  induction n with
  | zero => constructor <;> intros <;> exact Post.error _
  | succ n ih => exact ⟨noret_evalS_step ih, noret_forLoop_step ih, noret_evalB_step ih⟩

/-- a block without a `return` statement never yields a `return` outcome -/
theorem evalBω_noRet (Φ : Funs) (σ : Env) (μ : Heap) (C : Ctx) (ss : List Stmt) (h : noRetB ss = true)
    {v : Val} {μ' : Heap} : evalBω Φ σ μ C ss ≠ .ok (.ret v, μ') := by
  intro h'
  exact (Post.tends (tends_evalB Φ σ μ C ss) (fun n => (noRetAt Φ n).evalB σ μ C ss h)).out _ h' v rfl

end Fpy.Xform
