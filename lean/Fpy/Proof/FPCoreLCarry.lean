/-
C12 (round 2) — the variables a loop / one-armed `if` carries (`carrier`, `carryInit`, `carryRet`,
`carryIn`, `carryOut`, `carryCond`): the relation between the FPCore environment and the source
environment while they are carried, and how each piece evaluates.
-/
import Fpy.Proof.FPCoreLScope
set_option linter.unusedSimpArgs false
set_option linter.unusedVariables false
namespace Fpy.C12
open Fpy Fpy.Lang

/-- the value of `x` in `σ` (junk if unbound) -/
def gv (σ : Env) (x : String) : Val := (σ.get? x).getD default

theorem gv_of_get {σ : Env} {x : String} {w : Val} (h : σ.get? x = some w) : gv σ x = w := by simp [gv, h]

/-- the value the carrier holds: the rounded `0`, the variable, or the tuple -/
def carried (M : List String) (σ : Env) (r0 : NV) : Val :=
  match M with
  | [] => .num r0
  | [x] => gv σ x
  | _ => .tuple (M.map (gv σ))

/-- `ρ` represents `σ` on the names `S` while `M` is carried: the bundled variables live in `%t`, the others agree -/
def CarryRel (M S : List String) (ρ σ : Env) : Prop :=
  (isMany M = true → ρ.get? "%t" = some (.tuple (M.map (gv σ)))) ∧
  ∀ y, y ∈ S → isTmpL y = false → (isMany M = true → y ∉ M) → ρ.get? y = σ.get? y

theorem mem_of_indexIn : ∀ (M : List String) (x : String) (i j : Nat), indexIn M x i = some j →
    i ≤ j ∧ M[j - i]? = some x := by
  intro M
  induction M with
  | nil => intro x i j h; simp [indexIn] at h
  | cons y ys ih =>
    intro x i j h
    simp only [indexIn] at h
    split at h
    · next hxy =>
      cases h
      have : x = y := by simpa using hxy
      subst this; simp
    · obtain ⟨h1, h2⟩ := ih x (i + 1) j h
      refine ⟨by omega, ?_⟩
      have : j - i = (j - (i + 1)) + 1 := by omega
      rw [this]; simpa using h2

theorem indexIn_none : ∀ (M : List String) (x : String) (i : Nat), indexIn M x i = none → x ∉ M := by
  intro M
  induction M with
  | nil => intro x i _; simp
  | cons y ys ih =>
    intro x i h
    simp only [indexIn] at h
    split at h
    · cases h
    · next hxy =>
      have hne : x ≠ y := by simpa using hxy
      simp only [List.mem_cons, not_or]
      exact ⟨hne, ih x (i + 1) h⟩

section
variable {P : Props} {C : Ctx} (hP : P.toCtx = .ok C)
include hP

/-- the initial value of the carrier -/
theorem conv_carryInit {M S : List String} {ρ σ : Env} {r0 : NV} (hrel : CarryRel M S ρ σ)
    (hr0 : opEval C .round [cvtReal (.q 0 1)] = .ok r0)
    (hMS : ∀ x, x ∈ M → x ∈ S) (hMT : ∀ x, x ∈ M → isTmpL x = false) (hb : Bound M σ) :
    Conv ρ P (carryInit M) (carried M σ r0) := by
  match M with
  | [] => exact conv_num hP hr0
  | [x] =>
    obtain ⟨w, hw⟩ := hb x (by simp)
    simp only [carryInit, carried, gv_of_get hw]
    exact conv_var (by rw [hrel.2 x (hMS x (by simp)) (hMT x (by simp)) (by simp [isMany])]; exact hw)
  | x :: x2 :: rest =>
    simp only [carryInit, carried]
    exact conv_var (hrel.1 (isMany_cons2 _ _ _))

/-- binding the carrier to the value it already stands for keeps the relation -/
theorem carryRel_set {M S : List String} {ρ σ : Env} {r0 : NV} (hrel : CarryRel M S ρ σ)
    (hMT : ∀ x, x ∈ M → isTmpL x = false) (hb : Bound M σ) :
    CarryRel M S (ρ.set (carrier M) (carried M σ r0)) σ := by
  match M with
  | [] =>
    refine ⟨fun h => by simp [isMany] at h, fun y hy ht hm => ?_⟩
    simp only [carrier]
    rw [get?_set_ne _ _ _ _ (isTmpL_ne ht).2.2.2.2]
    exact hrel.2 y hy ht hm
  | [x] =>
    refine ⟨fun h => by simp [isMany] at h, fun y hy ht hm => ?_⟩
    obtain ⟨w, hw⟩ := hb x (by simp)
    simp only [carrier, carried, gv_of_get hw]
    rw [get?_set]
    split
    · next hyx => subst hyx; exact hw.symm
    · exact hrel.2 y hy ht hm
  | x :: x2 :: rest =>
    refine ⟨fun _ => by simp only [carrier, carried]; exact get?_set_self _ _ _, fun y hy ht hm => ?_⟩
    simp only [carrier]
    rw [get?_set_ne _ _ _ _ (isTmpL_ne ht).1]
    exact hrel.2 y hy ht hm

/-- what the body hands back, in an environment that agrees with the state after the body -/
theorem conv_carryRet {M : List String} {ρ' σ' : Env} {r0 : NV}
    (hr0 : opEval C .round [cvtReal (.q 0 1)] = .ok r0)
    (hA : AgreeL (fvF (carryRet M)) ρ' σ') (hMT : ∀ x, x ∈ M → isTmpL x = false) (hb : Bound M σ') :
    Conv ρ' P (carryRet M) (carried M σ' r0) := by
  match M with
  | [] => exact conv_num hP hr0
  | [x] =>
    obtain ⟨w, hw⟩ := hb x (by simp)
    simp only [carryRet, carried, gv_of_get hw]
    exact conv_var (by rw [hA x (by simp [carryRet, fvF]) (hMT x (by simp))]; exact hw)
  | x :: x2 :: rest =>
    simp only [carryRet, carried, repack]
    refine conv_pack (ws := (x :: x2 :: rest).map (gv σ')) ?_ (conv_var (get?_set_self _ _ _))
    have hA' : Agree (x :: x2 :: rest) ρ' σ' := by
      intro y hy _
      have ht := hMT y hy
      exact hA y ((fv_repack (x :: x2 :: rest) y ht).2 hy) ht
    exact convL_vars P σ' (x :: x2 :: rest) ρ' (fun y hy => isTmp_of_isTmpL (hMT y hy)) hA' hb

/-- unpacking the carrier in front of `B` -/
theorem conv_carryIn {M S : List String} {ρ σ : Env} {B : FExpr} {w : Val} (hrel : CarryRel M S ρ σ)
    (hL : CtxLits C M.length) (hMT : ∀ x, x ∈ M → isTmpL x = false) (hb : Bound M σ)
    (hB : ∀ ρ2, AgreeL S ρ2 σ → Conv ρ2 P B w) : Conv ρ P (carryIn M B) w := by
  unfold carryIn
  by_cases hm : isMany M = true
  · rw [if_pos hm]
    refine conv_unpack hP M (.var "%t") B (gv σ) w hL hMT (conv_var (hrel.1 hm)) (fun ρ' hρ' => hB ρ' ?_)
    intro y hy ht
    rw [hρ' y ht]
    by_cases hyM : y ∈ M
    · obtain ⟨w', hw'⟩ := hb y hyM
      simp [hyM, gv_of_get hw', hw']
    · simp only [hyM, if_false]
      exact hrel.2 y hy ht (fun _ => hyM)
  · rw [if_neg hm]
    exact hB ρ (fun y hy ht => hrel.2 y hy ht (fun h => absurd h hm))

/-- the condition, read through the carrier -/
theorem conv_carryCond (Φ : Funs) {M S : List String} {ρ σ : Env} {c : LExpr} {cv : Val} {μ μ' : Heap} {f : Nat}
    (hrel : CarryRel M S ρ σ) (hLi : LitsP (P.update intProps) M.length)
    (hcS : ∀ x, x ∈ c.vars → x ∈ S) (hcT : ∀ x, x ∈ c.vars → isTmpL x = false) (hb : Bound M σ)
    (hev : evalE Φ f σ μ C c.toLang = .ok (cv, μ')) : Conv ρ P (carryCond M c) cv := by
  have hE := (lexpr_sound Φ f c σ μ C cv μ' hev).2
  unfold carryCond
  by_cases hm : isMany M = true
  · rw [if_pos hm]
    refine hE ρ P (subIdx M) hP (fun x hx w hw => ?_)
    unfold subIdx
    cases hi : indexIn M x 0 with
    | none =>
      simp only
      have hxM := indexIn_none M x 0 hi
      exact conv_var (by rw [hrel.2 x (hcS x hx) (hcT x hx) (fun _ => hxM)]; exact hw)
    | some i =>
      simp only
      obtain ⟨_, hMi⟩ := mem_of_indexIn M x 0 i hi
      simp only [Nat.sub_zero] at hMi
      obtain ⟨Ci, hCi, hLits⟩ := hLi
      have hlt : i < M.length := by
        rcases Nat.lt_or_ge i M.length with h | h
        · exact h
        · rw [List.getElem?_eq_none h] at hMi; cases hMi
      obtain ⟨r, hr, hidx⟩ := hLits i hlt
      have htup : (M.map (gv σ))[i]? = some w := by
        rw [List.getElem?_map, hMi]; simp [gv_of_get hw]
      refine ⟨5, fun n hn => ?_⟩
      obtain ⟨k, rfl⟩ : ∃ k, n = k + 4 := ⟨n - 4, by omega⟩
      rw [eval_ref, eval_var, hrel.1 hm, evalList_cons, eval_ann, eval_num, hCi]
      simp only [bind, Except.bind, hr, pure, Except.pure]
      rw [evalList_nil]
      simp only [List.mapM_cons, List.mapM_nil, hidx, bind, Except.bind, pure, Except.pure, refIdx, htup]
  · rw [if_neg hm]
    exact hE ρ P FExpr.var hP (fun x hx w hw =>
      conv_var (by rw [hrel.2 x (hcS x hx) (hcT x hx) (fun h => absurd h hm)]; exact hw))

end

/-- after the body the carrier is re-bound: the relation holds for the new state -/
theorem carryRel_step {M S : List String} {ρ σ σ' : Env} {r0 : NV} (hrel : CarryRel M S ρ σ)
    (hMT : ∀ x, x ∈ M → isTmpL x = false) (hb' : Bound M σ')
    (hkeep : ∀ y, y ∈ S → isTmpL y = false → y ∉ M → σ'.get? y = σ.get? y) :
    CarryRel M S (ρ.set (carrier M) (carried M σ' r0)) σ' := by
  match M with
  | [] =>
    refine ⟨fun h => by simp [isMany] at h, fun y hy ht hm => ?_⟩
    simp only [carrier]
    rw [get?_set_ne _ _ _ _ (isTmpL_ne ht).2.2.2.2, hkeep y hy ht (by simp)]
    exact hrel.2 y hy ht (fun h => by simp [isMany] at h)
  | [x] =>
    refine ⟨fun h => by simp [isMany] at h, fun y hy ht hm => ?_⟩
    obtain ⟨w, hw⟩ := hb' x (by simp)
    simp only [carrier, carried, gv_of_get hw]
    rw [get?_set]
    split
    · next hyx => subst hyx; exact hw.symm
    · next hyx =>
      rw [hkeep y hy ht (by simpa using hyx)]
      exact hrel.2 y hy ht (fun h => by simp [isMany] at h)
  | x :: x2 :: rest =>
    refine ⟨fun _ => by simp only [carrier, carried]; exact get?_set_self _ _ _, fun y hy ht hm => ?_⟩
    simp only [carrier]
    have hyM := hm (isMany_cons2 _ _ _)
    rw [get?_set_ne _ _ _ _ (isTmpL_ne ht).1, hkeep y hy ht hyM]
    exact hrel.2 y hy ht (fun _ => hyM)

/-- entering the statement: `carryOut` establishes the relation -/
theorem conv_carryOut {P : Props} {M S : List String} {ρ σ : Env} {E : FExpr} {v : Val}
    (hA : ∀ y, y ∈ S → isTmpL y = false → ρ.get? y = σ.get? y) (hMS : ∀ x, x ∈ M → x ∈ S)
    (hMT : ∀ x, x ∈ M → isTmpL x = false) (hb : Bound M σ)
    (hE : ∀ ρ1, CarryRel M S ρ1 σ → Conv ρ1 P E v) : Conv ρ P (carryOut M E) v := by
  unfold carryOut
  by_cases hm : isMany M = true
  · rw [if_pos hm]
    have hA' : Agree M ρ σ := fun y hy _ => hA y (hMS y hy) (hMT y hy)
    refine conv_pack (convL_vars P σ M ρ (fun y hy => isTmp_of_isTmpL (hMT y hy)) hA' hb) (hE _ ⟨fun _ => get?_set_self _ _ _, ?_⟩)
    intro y hy ht _
    rw [get?_set_ne _ _ _ _ (isTmpL_ne ht).1]
    exact hA y hy ht
  · rw [if_neg hm]
    exact hE ρ ⟨fun h => absurd h hm, fun y hy ht _ => hA y hy ht⟩

end Fpy.C12
