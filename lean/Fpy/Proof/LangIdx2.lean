/-
Loop restructuring, part 2: the control code of the emitted loops — integer arithmetic under the
integer context (as an interface `IntArith`), offset indices, `range`, and the shared invariants.
-/
import Fpy.Proof.LangIdx1
namespace Fpy.Xform
open Fpy Fpy.Lang

theorem toInt_ofInt' (i : Int) : (RF.ofInt i).toInt? = some i := by
  unfold RF.toInt? RF.isInteger RF.isMoreSignificant RF.ofInt
  by_cases h : i = 0
  · subst h; simp
  · have hc : i.natAbs ≠ 0 := by omega
    simp [hc]
    omega

theorem nvInt_intVal (i : Int) : ∃ w, intVal i = .num w ∧ nvInt? w = some i :=
  ⟨_, rfl, toInt_ofInt' i⟩

/-- what the emitted control code needs of the context it runs under (`fp.INTEGER`): sums, differences
and remainders of integers are exact.  (The values are whatever representation `opEval` returns; only
their integer reading `nvInt?` is used — by `range`, by subscripts.) -/
structure IntArith (CI : Ctx) : Prop where
  add : ∀ x y a b, nvInt? x = some a → nvInt? y = some b →
    ∃ w, opEval CI .add [cvtReal x, cvtReal y] = .ok w ∧ nvInt? w = some (a + b)
  sub : ∀ x y a b, nvInt? x = some a → nvInt? y = some b →
    ∃ w, opEval CI .sub [cvtReal x, cvtReal y] = .ok w ∧ nvInt? w = some (a - b)
  fmod : ∀ x y (a b : Nat), nvInt? x = some (a : Int) → nvInt? y = some (b : Int) → 0 < b →
    ∃ w, opEval CI .fmod [cvtReal x, cvtReal y] = .ok w ∧ nvInt? w = some ((a % b : Nat) : Int)

/-- `o₁ = idx + z₁; o₂ = idx + z₂; …` -/
def offsetDefs (idx : String) : List String → List NV → List Stmt
  | o :: os, z :: zs => .assign (.var o) (.op .add [.var idx, .num z]) :: offsetDefs idx os zs
  | _, _ => []

theorem evalEω_add_var_num (Φ : Funs) {σ : Env} (μ : Heap) {CI : Ctx} (IA : IntArith CI) {idx : String} {w0 z : NV}
    {i c : Int} (hidx : σ.get? idx = some (.num w0)) (hw0 : nvInt? w0 = some i) (hz : nvInt? z = some c) :
    ∃ w, evalEω Φ σ μ CI (.op .add [.var idx, .num z]) = .ok (.num w, μ) ∧ nvInt? w = some (i + c) := by
  obtain ⟨w, h1, h2⟩ := IA.add w0 z i c hw0 hz
  refine ⟨w, ?_, h2⟩
  rw [evalEω_op, evalEsω_cons, evalEω_var, hidx]
  show ((evalEsω Φ σ μ CI [.num z] >>= _) >>= _) = _
  rw [evalEsω_cons, evalEω_num]
  show (((evalEsω Φ σ μ CI [] >>= _) >>= _) >>= _) = _
  rw [evalEsω_nil]
  show (opEval CI .add [cvtReal w0, cvtReal z] >>= _) = _
  rw [h1]; rfl

/-- the offset indices are computed exactly and nothing else changes -/
theorem offsets_eval (Φ : Funs) {CI : Ctx} (IA : IntArith CI) (idx : String) (μ : Heap) {w0 : NV} {i : Nat}
    (hw0 : nvInt? w0 = some (i : Int)) :
    ∀ (offs : List String) (lits : List NV) (s : Nat) (σ : Env), σ.get? idx = some (.num w0) → idx ∉ offs → offs.Nodup →
      offs.length = lits.length → (∀ j (h : j < lits.length), nvInt? lits[j] = some ((s + j : Nat) : Int)) →
      ∃ σ', evalBω Φ σ μ CI (offsetDefs idx offs lits) = .ok (.normal σ', μ) ∧
        (∀ z, z ∉ offs → σ'.get? z = σ.get? z) ∧
        (∀ j (h : j < offs.length), ∃ w, σ'.get? offs[j] = some (.num w) ∧ nvInt? w = some ((i + (s + j) : Nat) : Int)) := by
  intro offs
  induction offs with
  | nil =>
    intro lits s σ _ _ _ _ _
    refine ⟨σ, ?_, fun _ _ => rfl, fun j h => absurd h (by simp)⟩
    cases lits <;> simp only [offsetDefs] <;> exact evalBω_nil Φ σ μ CI
  | cons o os ih =>
    intro lits s σ hidx hni hnd hlen hl
    cases lits with
    | nil => simp at hlen
    | cons z zs =>
      have hoi : o ≠ idx := fun e => hni (e ▸ List.mem_cons_self)
      have hz0 : nvInt? z = some ((s : Nat) : Int) := by
        have := hl 0 (by simp)
        simpa only [List.getElem_cons_zero, Nat.add_zero] using this
      obtain ⟨w, he, hw⟩ := evalEω_add_var_num Φ μ IA hidx hw0 hz0
      have hidx' : (σ.set o (.num w)).get? idx = some (.num w0) := by
        rw [Env.get?_set, if_neg (fun e => hoi e.symm)]; exact hidx
      obtain ⟨σ', h1, h2, h3⟩ := ih zs (s + 1) (σ.set o (.num w)) hidx'
        (fun h => hni (List.mem_cons_of_mem _ h)) (List.nodup_cons.1 hnd).2 (by simpa using hlen)
        (fun j h => by
          have := hl (j + 1) (by simp; omega)
          simp only [List.getElem_cons_succ] at this
          rw [this]; congr 1; omega)
      refine ⟨σ', ?_, ?_, ?_⟩
      · simp only [offsetDefs]
        rw [evalBω_cons', evalSω_assign, he]
        show (bindPatω (.var o) (.num w) σ >>= _) >>= _ = _
        rw [bindPatω_var]
        exact h1
      · intro x hx
        rw [h2 x (fun h => hx (List.mem_cons_of_mem _ h)), Env.get?_set,
          if_neg (by intro e; subst e; exact hx List.mem_cons_self)]
      · intro j hj
        cases j with
        | zero =>
          refine ⟨w, ?_, by rw [hw]; simp⟩
          simp only [List.getElem_cons_zero]
          rw [h2 o (List.nodup_cons.1 hnd).1, Env.get?_set, if_pos rfl]
        | succ j =>
          obtain ⟨w', h4, h5⟩ := h3 j (by simpa using hj)
          refine ⟨w', by simpa using h4, by rw [h5]; congr 1; omega⟩

end Fpy.Xform
