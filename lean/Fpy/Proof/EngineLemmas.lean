/-
Helper lemmas for C02: integer roots, the round-to-odd intermediate under every deterministic context
family, and the shape of `ops._normalize`.
-/
import Fpy.Proof.RoundOdd
namespace Fpy
open Fpy.Spec

/-! ### integer roots -/

theorem irootGo_spec (k n : Nat) : ∀ i r, r ^ k ≤ n → n < (r + 2 ^ i) ^ k →
    (irootGo k n i r) ^ k ≤ n ∧ n < (irootGo k n i r + 1) ^ k := by
  intro i
  induction i with
  | zero => intro r h1 h2; simpa [irootGo] using ⟨h1, h2⟩
  | succ i ih =>
    intro r h1 h2
    unfold irootGo
    have e : r + 2 ^ (i + 1) = r + 2 ^ i + 2 ^ i := by rw [Nat.pow_succ]; omega
    by_cases h : (r + 2 ^ i) ^ k ≤ n
    · simp only [h, if_true]; exact ih _ h (by rw [← e]; exact h2)
    · simp only [h, if_false]; exact ih _ h1 (by omega)

/-- `iroot k n` is the floor of the `k`-th root: `r^k ≤ n < (r+1)^k` -/
theorem iroot_spec (k n : Nat) (hk : 1 ≤ k) : (iroot k n) ^ k ≤ n ∧ n < (iroot k n + 1) ^ k := by
  unfold iroot
  apply irootGo_spec
  · rw [Nat.zero_pow (by omega)]; exact Nat.zero_le _
  · rw [Nat.zero_add, ← Nat.pow_mul]
    have h1 : n < 2 ^ bitLength n := (bitLength_le_iff n _).1 (Nat.le_refl _)
    have h2 : bitLength n ≤ (bitLength n / k + 1) * k := by
      have := Nat.lt_mul_div_succ (bitLength n) (show 0 < k by omega)
      rw [Nat.mul_comm] at this; omega
    exact Nat.lt_of_lt_of_le h1 (Nat.pow_le_pow_right (by decide) h2)

theorem isqrt_spec' (n : Nat) : isqrt n ^ 2 ≤ n ∧ n < (isqrt n + 1) ^ 2 := iroot_spec 2 n (by decide)
theorem icbrt_spec' (n : Nat) : icbrt n ^ 3 ≤ n ∧ n < (icbrt n + 1) ^ 3 := iroot_spec 3 n (by decide)

/-- the floor root is unique -/
theorem iroot_unique (k n r : Nat) (hk : 1 ≤ k) (h1 : r ^ k ≤ n) (h2 : n < (r + 1) ^ k) : iroot k n = r := by
  obtain ⟨a, b⟩ := iroot_spec k n hk
  have mono : ∀ u v : Nat, u < v → (u + 1) ^ k ≤ v ^ k := fun u v h => Nat.pow_le_pow_left h k
  rcases Nat.lt_trichotomy (iroot k n) r with h | h | h
  · have := mono _ _ h; omega
  · exact h
  · have := mono _ _ h; omega

/-! ### agreement of two rounding results on what the property observes -/

/-- same value, same `inexact`, same `overflow` (or the same error) -/
def Res.agree (a b : Except Err Res) : Prop :=
  match a, b with
  | .ok r, .ok r' => r.v = r'.v ∧ r.fl.inexact = r'.fl.inexact ∧ r.fl.overflow = r'.fl.overflow
  | .error e, .error e' => e = e'
  | _, _ => False

theorem Res.agree_refl (a : Except Err Res) : Res.agree a a := by
  cases a <;> simp [Res.agree]

/-- deterministic, non-exact contexts with at least one digit -/
def Ctx.det : Ctx → Prop
  | .real => False
  | .mp p _ k _ => k = some 0 ∧ 1 ≤ p
  | .mps p _ _ k _ => k = some 0 ∧ 1 ≤ p
  | .mpb c => c.k = some 0 ∧ 1 ≤ c.p
  | .efloat c => c.k = some 0 ∧ 1 ≤ c.mpb.p
  | .mpfix _ _ k _ _ => k = some 0
  | .mpbfix c => c.k = some 0
  | .exp _ => False      -- the exponential family is not covered by this lemma

theorem round_rto_float (x : RF) (p q : Nat) (minN : Option Int) (rm : RM)
    (hc : x.c ≠ 0) (hp : 1 ≤ p) (hq : p + 2 ≤ q) :
    ∃ y fl fl', x.round (some p) minN rm (some 0) 0 false = .ok (y, fl) ∧
      (rtoRF x q).round (some p) minN rm (some 0) 0 false = .ok (y, fl') ∧
      fl'.inexact = fl.inexact ∧ fl'.overflow = fl.overflow := by
  obtain ⟨_, he', _⟩ := rtoRF_props x q (by omega) hc
  cases minN with
  | none =>
    unfold RF.round RF.roundParams
    simp only [if_true, he']
    exact rto_round_prec x p q (x.e - p) none rm hc hp hq (by omega)
  | some m =>
    unfold RF.round RF.roundParams
    simp only [if_true, he']
    exact rto_round_prec x p q (max m (x.e - p)) _ rm hc hp hq (by omega)

theorem round_rto_fixed (x : RF) (n : Int) (rm : RM) (hc : x.c ≠ 0) :
    ∃ y fl fl', x.round none (some n) rm (some 0) 0 false = .ok (y, fl) ∧
      (if x.e ≤ n then rtoRF x 2 else rtoRF x ((x.e - n).toNat + 2)).round none (some n) rm (some 0) 0 false = .ok (y, fl') ∧
      fl'.inexact = fl.inexact ∧ fl'.overflow = fl.overflow := by
  unfold RF.round RF.roundParams
  simp only [if_true]
  exact rto_round_fixed x n rm hc

/-- the bounded float family only looks at the rounded value, the sign of the operand and the flags -/
theorem mpbRoundAt_congr (c : MPBParams) (hk : c.k = some 0) (x x' : RF) (hx : x.c ≠ 0) (hx' : x'.c ≠ 0) (hs : x'.s = x.s)
    (y : RF) (fl fl' : Flags)
    (h1 : x.round (some c.p) (some c.nmin) c.rm (some 0) 0 false = .ok (y, fl))
    (h2 : x'.round (some c.p) (some c.nmin) c.rm (some 0) 0 false = .ok (y, fl'))
    (hi : fl'.inexact = fl.inexact) (ho : fl'.overflow = fl.overflow) :
    Res.agree (mpbRoundAt c (.fin x') none false 0) (mpbRoundAt c (.fin x) none false 0) := by
  unfold mpbRoundAt floatSpecial
  simp only [hx, hx', if_false, hk, h1, h2, hs]
  by_cases hov : (if y.s then y.lt c.negMax else y.gt c.posMax) = true
  · simp only [hov, if_true]; exact Res.agree_refl _
  · simp only [hov]; simp [Res.agree, hi, ho]

theorem efloatFixup_congr (c : EFloatParams) (r r' : Res) (hv : r'.v = r.v)
    (hi : r'.fl.inexact = r.fl.inexact) (ho : r'.fl.overflow = r.fl.overflow) :
    Res.agree (efloatFixup c r') (efloatFixup c r) := by
  unfold efloatFixup
  rw [hv]
  cases r.v with
  | nan s =>
    simp only
    split
    · split
      · split
        · simp [Res.agree, hi, ho]
        · split <;> simp [Res.agree, hi, ho]
      · simp [Res.agree, hi, ho]
    · simp [Res.agree, hi, ho, hv]
  | inf s =>
    simp only
    split
    · split
      · split
        · simp [Res.agree, hi, ho]
        · split <;> simp [Res.agree, hi, ho]
      · simp [Res.agree, hi, ho]
    · simp [Res.agree, hi, ho, hv]
  | fin x =>
    simp only
    split <;> simp [Res.agree, hi, ho, hv]

theorem agree_efloat (c : EFloatParams) : ∀ (A B : Except Err Res), Res.agree A B →
    Res.agree (match A with | .error e => .error e | .ok res => efloatFixup c res)
              (match B with | .error e => .error e | .ok res => efloatFixup c res) := by
  intro A B
  cases A with
  | error e => cases B with
    | error e' => intro h; simpa [Res.agree] using h
    | ok r => intro h; simp [Res.agree] at h
  | ok r => cases B with
    | error e' => intro h; simp [Res.agree] at h
    | ok r' =>
      intro h
      simp only [Res.agree] at h
      exact efloatFixup_congr c _ _ h.1 h.2.1 h.2.2

theorem mpbfixRoundAt_congr (c : MPBFixParams) (hk : c.k = some 0) (x x' : RF) (hx : x.c ≠ 0) (hx' : x'.c ≠ 0) (hs : x'.s = x.s)
    (y : RF) (fl fl' : Flags)
    (h1 : x.round none (some c.nmin) c.rm (some 0) 0 false = .ok (y, fl))
    (h2 : x'.round none (some c.nmin) c.rm (some 0) 0 false = .ok (y, fl'))
    (hi : fl'.inexact = fl.inexact) (ho : fl'.overflow = fl.overflow) :
    Res.agree (mpbfixRoundAt c (.fin x') none false 0) (mpbfixRoundAt c (.fin x) none false 0) := by
  unfold mpbfixRoundAt fixedSpecial
  simp only [hx, hx', if_false, hk, h1, h2, hs]
  by_cases hov : (if y.s then y.lt c.negMax else y.gt c.posMax) = true
  · simp only [hov, if_true]; exact Res.agree_refl _
  · simp only [hov]
    by_cases hz : (y.c = 0 && y.s && !c.negZero) = true <;> simp [hz, Res.agree, hi, ho]

/-- **Every deterministic context**: the MPFR-style intermediate of an exact non-zero dyadic value
(`round_params()` digits, round to odd) is rounded by the context to the same value with the same
`inexact`/`overflow` flags as the exact value itself. -/
theorem rto_normalize (C : Ctx) (hC : C.det) (x : RF) (hx : x.c ≠ 0) :
    ∃ x', mpfrRtoRF x C.roundParams.1 C.roundParams.2 = .ok x' ∧ x'.c ≠ 0 ∧
      Res.agree (C.roundAtCore (.fin x') none false 0) (C.roundAtCore (.fin x) none false 0) := by
  cases C with
  | real => exact absurd hC (by simp [Ctx.det])
  | exp c => exact absurd hC (by simp [Ctx.det])
  | mp p rm k o =>
    obtain ⟨hk, hp⟩ := hC
    subst hk
    obtain ⟨hc', _, hs'⟩ := rtoRF_props x (p + 0 + 2) (by omega) hx
    obtain ⟨y, fl, fl', h1, h2, hi, ho⟩ := round_rto_float x p (p + 0 + 2) none rm hx hp (by omega)
    refine ⟨rtoRF x (p + 0 + 2), by simp [mpfrRtoRF, hx, Ctx.roundParams, widenP], hc', ?_⟩
    unfold Ctx.roundAtCore floatSpecial
    simp only [hx, hc', if_false, h1, h2]
    simp [Res.agree, hi, ho]
  | mps p emin rm k o =>
    obtain ⟨hk, hp⟩ := hC
    subst hk
    obtain ⟨hc', _, hs'⟩ := rtoRF_props x (p + 0 + 2) (by omega) hx
    obtain ⟨y, fl, fl', h1, h2, hi, ho⟩ := round_rto_float x p (p + 0 + 2) (some (emin - p)) rm hx hp (by omega)
    refine ⟨rtoRF x (p + 0 + 2), by simp [mpfrRtoRF, hx, Ctx.roundParams], hc', ?_⟩
    unfold Ctx.roundAtCore floatSpecial
    simp only [hx, hc', if_false, h1, h2]
    simp [Res.agree, hi, ho]
  | mpb c =>
    obtain ⟨hk, hp⟩ := hC
    obtain ⟨hc', _, hs'⟩ := rtoRF_props x (c.p + 0 + 2) (by omega) hx
    obtain ⟨y, fl, fl', h1, h2, hi, ho⟩ := round_rto_float x c.p (c.p + 0 + 2) (some c.nmin) c.rm hx hp (by omega)
    refine ⟨rtoRF x (c.p + 0 + 2), by simp [mpfrRtoRF, hx, Ctx.roundParams, hk], hc', ?_⟩
    unfold Ctx.roundAtCore
    exact mpbRoundAt_congr c hk x _ hx hc' hs' y fl fl' h1 h2 hi ho
  | efloat c =>
    obtain ⟨hk, hp⟩ := hC
    have hk' : c.mpb.k = some 0 := by unfold EFloatParams.mpb; simp only [hk]
    obtain ⟨hc', _, hs'⟩ := rtoRF_props x (c.mpb.p + 0 + 2) (by omega) hx
    obtain ⟨y, fl, fl', h1, h2, hi, ho⟩ := round_rto_float x c.mpb.p (c.mpb.p + 0 + 2) (some c.mpb.nmin) c.mpb.rm hx hp (by omega)
    refine ⟨rtoRF x (c.mpb.p + 0 + 2), by simp [mpfrRtoRF, hx, Ctx.roundParams, hk'], hc', ?_⟩
    have hag := mpbRoundAt_congr c.mpb hk' x _ hx hc' hs' y fl fl' h1 h2 hi ho
    unfold Ctx.roundAtCore
    exact agree_efloat c _ _ hag
  | mpfix nmin rm k negZero o =>
    have hk : k = some 0 := hC
    subst hk
    obtain ⟨y, fl, fl', h1, h2, hi, ho⟩ := round_rto_fixed x nmin rm hx
    have hc' : (if x.e ≤ nmin then rtoRF x 2 else rtoRF x ((x.e - nmin).toNat + 2)).c ≠ 0 := by
      split
      · exact (rtoRF_props x 2 (by omega) hx).1
      · exact (rtoRF_props x _ (by omega) hx).1
    have hs' : (if x.e ≤ nmin then rtoRF x 2 else rtoRF x ((x.e - nmin).toNat + 2)).s = x.s := by
      split
      · exact (rtoRF_props x 2 (by omega) hx).2.2
      · exact (rtoRF_props x _ (by omega) hx).2.2
    refine ⟨_, ?_, hc', ?_⟩
    · simp [mpfrRtoRF, hx, Ctx.roundParams, widenN]
      split <;> rfl
    · unfold Ctx.roundAtCore fixedSpecial
      simp only [hx, hc', if_false, h1, h2]
      by_cases hz : (y.c = 0 && y.s && !negZero) = true <;> simp [hz, Res.agree, hi, ho]
  | mpbfix c =>
    have hk : c.k = some 0 := hC
    obtain ⟨y, fl, fl', h1, h2, hi, ho⟩ := round_rto_fixed x c.nmin c.rm hx
    have hc' : (if x.e ≤ c.nmin then rtoRF x 2 else rtoRF x ((x.e - c.nmin).toNat + 2)).c ≠ 0 := by
      split
      · exact (rtoRF_props x 2 (by omega) hx).1
      · exact (rtoRF_props x _ (by omega) hx).1
    have hs' : (if x.e ≤ c.nmin then rtoRF x 2 else rtoRF x ((x.e - c.nmin).toNat + 2)).s = x.s := by
      split
      · exact (rtoRF_props x 2 (by omega) hx).2.2
      · exact (rtoRF_props x _ (by omega) hx).2.2
    refine ⟨_, ?_, hc', ?_⟩
    · simp [mpfrRtoRF, hx, Ctx.roundParams, widenN, hk]
      split <;> rfl
    · unfold Ctx.roundAtCore
      exact mpbfixRoundAt_congr c hk x _ hx hc' hs' y fl fl' h1 h2 hi ho

end Fpy
