/-
C03 — helper lemmas for the wrapper model `Fpy/Model/Elem.lean`.
-/
import Fpy.Model.Elem
import Fpy.Proof.OpLemmas
namespace Fpy.C03
open Fpy Fpy.Spec

/-! ### truncations of an exact dyadic value -/

theorem bitLength_zero : bitLength 0 = 0 := by unfold bitLength; simp

theorem rtoBit_false (c : Nat) : rtoBit c false = c := by unfold rtoBit; simp

/-- digits, exponent and non-vanishing of a truncation that drops digits -/
theorem truncRF_drop (x : RF) (q : Nat) (hq : 1 ≤ q) (h : ¬ x.p ≤ q) :
    (truncRF x q).1 = ⟨x.s, x.exp + ((x.p - q : Nat) : Int), x.c / 2 ^ (x.p - q)⟩ ∧
    (truncRF x q).2 = (x.c % 2 ^ (x.p - q) != 0) ∧
    bitLength (x.c / 2 ^ (x.p - q)) = q := by
  refine ⟨by unfold truncRF; simp only [h, if_false], by unfold truncRF; simp only [h, if_false], ?_⟩
  have hb : bitLength x.c = q + (x.p - q) := by unfold RF.p at h ⊢; omega
  exact bitLength_div_pow x.c (x.p - q) q hq hb

theorem truncRF_keep (x : RF) (q : Nat) (h : x.p ≤ q) : truncRF x q = (x, false) := by
  unfold truncRF; simp only [h, if_true]

theorem truncRF_props (x : RF) (q : Nat) (hq : 1 ≤ q) (hx : x.c ≠ 0) :
    (truncRF x q).1.c ≠ 0 ∧ (truncRF x q).1.e = x.e ∧ (truncRF x q).1.s = x.s ∧ (truncRF x q).1.p ≤ q ∧
    ((truncRF x q).2 = true → (truncRF x q).1.p = q) := by
  by_cases h : x.p ≤ q
  · rw [truncRF_keep x q h]; exact ⟨hx, rfl, rfl, h, by simp⟩
  · obtain ⟨h1, _, h3⟩ := truncRF_drop x q hq h
    rw [h1]
    refine ⟨?_, ?_, rfl, ?_, ?_⟩
    · intro hz; simp only at hz; rw [hz, bitLength_zero] at h3; omega
    · show x.exp + ((x.p - q : Nat) : Int) + (bitLength (x.c / 2 ^ (x.p - q)) : Int) - 1 = x.exp + (x.p : Int) - 1
      rw [h3]; omega
    · show bitLength (x.c / 2 ^ (x.p - q)) ≤ q
      omega
    · intro _; exact h3

/-- `_round_odd` of the contract answer is the round-to-odd intermediate of the C02 model -/
theorem roundOdd_truncRF (x : RF) (q : Nat) : roundOdd (truncRF x q).1 (truncRF x q).2 = rtoRF x q := by
  unfold roundOdd truncRF rtoRF rtoBit
  by_cases h : x.p ≤ q
  · simp [h]
  · simp only [h, if_false]

/-- the wrapper on the contract oracle of an exact dyadic value is the C02 engine model -/
theorem mpfrCall_truncRF (x : RF) (hx : x.c ≠ 0) (prec : Option Nat) (n : Option Int) :
    mpfrCallModel (truncRF x) prec n = mpfrRtoRF x prec n := by
  unfold mpfrCallModel mpfrRtoRF
  simp only [hx, if_false]
  cases prec with
  | some p => simp only [roundOdd_truncRF]
  | none =>
    cases n with
    | none => rfl
    | some n =>
      obtain ⟨hc, he, _⟩ := truncRF_props x 2 (by omega) hx
      simp only [hc, if_false, he, roundOdd_truncRF]

/-- … and on ANY oracle that answers like the truncations of `x` at the precisions consulted -/
theorem mpfrCall_of_agree (t : Oracle) (x : RF) (hx : x.c ≠ 0) (prec : Option Nat) (n : Option Int) (W : Nat)
    (hW : workPrec prec n x.e ≤ W) (h : ∀ q, 1 ≤ q → q ≤ W → t q = truncRF x q) :
    mpfrCallModel t prec n = mpfrRtoRF x prec n := by
  rw [← mpfrCall_truncRF x hx]
  unfold mpfrCallModel
  cases prec with
  | some p =>
    have := h (p + 2) (by omega) (by unfold workPrec at hW; exact hW)
    simp only [this]
  | none =>
    cases n with
    | none => rfl
    | some n =>
      obtain ⟨hc, he, _⟩ := truncRF_props x 2 (by omega) hx
      have h2 : t 2 = truncRF x 2 := by
        apply h 2 (by omega)
        unfold workPrec at hW; simp only at hW
        split at hW <;> omega
      simp only [h2, hc, if_false, he]
      by_cases hen : x.e ≤ n
      · simp only [hen, if_true]
      · simp only [hen, if_false]
        have := h ((x.e - n).toNat + 2) (by omega) (by unfold workPrec at hW; simp only [hen, if_false] at hW; exact hW)
        rw [this]

/-! ### agreement is an equivalence -/

theorem agree_symm {a b : Except Err Res} (h : Res.agree a b) : Res.agree b a := by
  cases a <;> cases b <;> simp_all [Res.agree]

theorem agree_trans {a b c : Except Err Res} (h1 : Res.agree a b) (h2 : Res.agree b c) : Res.agree a c := by
  cases a <;> cases b <;> cases c <;> simp_all [Res.agree]

/-- both parameters of a deterministic context cannot be absent -/
theorem det_params' (C : Ctx) (hC : C.det) : ¬ (C.roundParams.1 = none ∧ C.roundParams.2 = none) := by
  have := det_params C hC
  intro ⟨h1, h2⟩
  rw [h1, h2] at this; simp at this

/-- **core**: an oracle that answers like the truncations of the dyadic `x` up to the working precision makes
the wrapper return the context's rounding of `x` itself -/
theorem wrapper_dyadic (C : Ctx) (hC : C.det) (t : Oracle) (x : RF) (hx : x.c ≠ 0) (W : Nat)
    (hW : workPrec C.roundParams.1 C.roundParams.2 x.e ≤ W) (h : ∀ q, 1 ≤ q → q ≤ W → t q = truncRF x q) :
    Res.agree (elemEval C t) (C.roundAtCore (.fin x) none false 0) := by
  obtain ⟨x', h1, h2⟩ := rto_normalize C hC x hx
  unfold elemEval
  rw [mpfrCall_of_agree t x hx _ _ W hW h, h1]
  exact h2.2

/-! ### a coherent family has a dyadic witness at every level -/

theorem bitLength_double_succ (c W : Nat) (hW : 1 ≤ W) (h : bitLength c = W) : bitLength (2 * c + 1) = W + 1 := by
  obtain ⟨h1, h2⟩ := (bitLength_eq_iff c W hW).1 h
  apply (bitLength_eq_iff _ (W + 1) (by omega)).2
  have e : W + 1 - 1 = W := by omega
  rw [e]
  have hp := two_pow_pred W hW
  constructor
  · omega
  · rw [Nat.pow_succ]; omega

theorem odd_mod_ne (c k : Nat) (hk : 1 ≤ k) : (2 * c + 1) % 2 ^ k ≠ 0 := by
  intro h
  have h1 : 2 ^ k ∣ 2 * c + 1 := Nat.dvd_of_mod_eq_zero h
  have h2 : 2 ∣ 2 ^ k := by
    obtain ⟨j, rfl⟩ : ∃ j, k = j + 1 := ⟨k - 1, by omega⟩
    exact ⟨2 ^ j, by rw [Nat.pow_succ]; omega⟩
  have h3 : 2 ∣ 2 * c + 1 := Nat.dvd_trans h2 h1
  omega

theorem odd_div (c k : Nat) : (2 * c + 1) / 2 ^ (k + 1) = c / 2 ^ k := by
  have e : 2 ^ (k + 1) = 2 * 2 ^ k := by rw [Nat.pow_succ, Nat.mul_comm]
  rw [e, ← Nat.div_div_eq_div_mul]
  have : (2 * c + 1) / 2 = c := by omega
  rw [this]

theorem coherent_witness (t : Oracle) (ht : Coherent t) (W : Nat) (hW : 1 ≤ W) :
    (refDyadic t W).c ≠ 0 ∧ (refDyadic t W).e = (t W).1.e ∧ (refDyadic t W).s = (t W).1.s ∧
    ∀ q, 1 ≤ q → q ≤ W → t q = truncRF (refDyadic t W) q := by
  have hnz := ht.nz W hW
  by_cases hb : (t W).2 = true
  · have hfull : bitLength (t W).1.c = W := ht.full W hW hb
    have hx : refDyadic t W = ⟨(t W).1.s, (t W).1.exp - 1, 2 * (t W).1.c + 1⟩ := by unfold refDyadic; simp [hb]
    have hbl : bitLength (2 * (t W).1.c + 1) = W + 1 := bitLength_double_succ _ W hW hfull
    rw [hx]
    refine ⟨by simp only; omega, ?_, rfl, ?_⟩
    · show (t W).1.exp - 1 + ((bitLength (2 * (t W).1.c + 1) : Nat) : Int) - 1 = (t W).1.exp + ((bitLength (t W).1.c : Nat) : Int) - 1
      rw [hbl, hfull]; omega
    · intro q hq hqW
      rw [ht.step q W hq hqW]
      generalize t W = r at *
      obtain ⟨y, b⟩ := r
      simp only at hb hfull hbl hnz
      subst hb
      have hnp : ¬ (W + 1 ≤ q) := by omega
      unfold truncStep truncRF
      simp only [RF.p, hbl, hfull, hnp, if_false, Bool.or_true]
      by_cases hqe : W ≤ q
      · have : q = W := by omega
        subst this
        simp only [Nat.le_refl, if_true]
        have e1 : q + 1 - q = 1 := by omega
        rw [e1]
        have e2 : (2 * y.c + 1) / 2 ^ 1 = y.c := by omega
        have e3 : ((2 * y.c + 1) % 2 ^ 1 != 0) = true := by
          have : (2 * y.c + 1) % 2 ^ 1 = 1 := by omega
          rw [this]; rfl
        rw [e2, e3]
        congr 1
        cases y; simp only; congr 1; omega
      · simp only [hqe, if_false]
        have e1 : W + 1 - q = (W - q) + 1 := by omega
        rw [e1, odd_div]
        have e3 : ((2 * y.c + 1) % 2 ^ (W - q + 1) != 0) = true := by
          have := odd_mod_ne y.c (W - q + 1) (by omega)
          simp [this]
        rw [e3]
        congr 2
        omega
  · have hb' : (t W).2 = false := by cases h : (t W).2 <;> simp_all
    have hx : refDyadic t W = (t W).1 := by unfold refDyadic; simp [hb']
    rw [hx]
    refine ⟨hnz, rfl, rfl, ?_⟩
    intro q hq hqW
    rw [ht.step q W hq hqW]
    unfold truncStep
    rw [hb', Bool.or_false]


/-- truncating twice is truncating once: the contract oracle of a dyadic value is coherent -/
theorem truncRF_coherent (x : RF) (hx : x.c ≠ 0) : Coherent (truncRF x) where
  nz q hq := (truncRF_props x q hq hx).1
  short q hq := (truncRF_props x q hq hx).2.2.2.1
  full q hq := (truncRF_props x q hq hx).2.2.2.2
  step q W hq hqW := by
    by_cases hW : x.p ≤ W
    · rw [truncRF_keep x W hW]; unfold truncStep; simp
    · obtain ⟨h1, h2, h3⟩ := truncRF_drop x W (by omega) hW
      have hnq : ¬ x.p ≤ q := by omega
      obtain ⟨g1, g2, _⟩ := truncRF_drop x q hq hnq
      unfold truncStep
      rw [h1, h2]
      by_cases hqe : W ≤ q
      · have : q = W := by omega
        subst this
        have hk : (⟨x.s, x.exp + ((x.p - q : Nat) : Int), x.c / 2 ^ (x.p - q)⟩ : RF).p ≤ q := by
          show bitLength (x.c / 2 ^ (x.p - q)) ≤ q
          omega
        rw [truncRF_keep _ q hk]
        simp only [Bool.false_or]
        exact Prod.ext g1 g2
      · have hk : ¬ (⟨x.s, x.exp + ((x.p - W : Nat) : Int), x.c / 2 ^ (x.p - W)⟩ : RF).p ≤ q := by
          show ¬ bitLength (x.c / 2 ^ (x.p - W)) ≤ q
          omega
        obtain ⟨f1, f2, _⟩ := truncRF_drop _ q hq hk
        rw [f1, f2]
        have hp : (⟨x.s, x.exp + ((x.p - W : Nat) : Int), x.c / 2 ^ (x.p - W)⟩ : RF).p = W := h3
        simp only [hp]
        have hsum : x.p - q = (x.p - W) + (W - q) := by omega
        apply Prod.ext
        · rw [g1]
          simp only
          rw [hsum, Nat.pow_add, Nat.div_div_eq_div_mul]
          congr 1
          omega
        · rw [g2]
          simp only
          rw [hsum, Nat.pow_add, Nat.mod_mul]
          have hJ : 0 < 2 ^ (x.p - W) := Nat.pow_pos (by decide)
          generalize x.c % 2 ^ (x.p - W) = r0
          generalize x.c / 2 ^ (x.p - W) % 2 ^ (W - q) = r1
          generalize 2 ^ (x.p - W) = J at *
          have bt : ∀ m : Nat, m ≠ 0 → (m != 0) = true := by intro m h; simp [h]
          by_cases a : r0 = 0
          · by_cases b : r1 = 0
            · subst a; subst b; simp
            · have h0 : r0 + J * r1 ≠ 0 := by
                have := Nat.mul_ne_zero (Nat.pos_iff_ne_zero.1 hJ) b; omega
              rw [bt _ h0, bt _ b]; rfl
          · have h0 : r0 + J * r1 ≠ 0 := by omega
            rw [bt _ h0, bt _ a, Bool.or_true]


end Fpy.C03
