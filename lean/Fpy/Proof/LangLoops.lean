/-
Rewrite schemas on blocks, proved in the fuel-free semantics: sequencing, `while` unrolling
(the shape `fpy2/transform/while_unroll.py` emits), and the dead-code shapes of
`fpy2/transform/dead_code.py` whose validity does not depend on the environment.
-/
import Fpy.Proof.LangRules
namespace Fpy.Xform
open Fpy Fpy.Lang

/-- "the rest of the block after an outcome": a `return` skips it -/
noncomputable def thenB (Φ : Funs) (C : Ctx) (ts : List Stmt) (r : Outcome × Heap) : M (Outcome × Heap) :=
  match r with
  | (.ret v, μ') => .ok (.ret v, μ')
  | (.normal σ', μ') => evalBω Φ σ' μ' C ts

theorem evalBω_cons' (Φ : Funs) (σ : Env) (μ : Heap) (C : Ctx) (s : Stmt) (ss : List Stmt) :
    evalBω Φ σ μ C (s :: ss) = evalSω Φ σ μ C s >>= thenB Φ C ss := by
  rw [evalBω_cons]; congr 1; funext ⟨o, μ'⟩; cases o <;> rfl

theorem thenB_nil (Φ : Funs) (C : Ctx) (r : Outcome × Heap) : thenB Φ C [] r = .ok r := by
  obtain ⟨o, μ'⟩ := r
  cases o
  · simp only [thenB, evalBω_nil]
  · rfl

theorem bind_ok_id {α : Type} (a : M α) : (a >>= fun x => (Except.ok x : M α)) = a := by
  cases a <;> rfl

theorem evalBω_single (Φ : Funs) (σ : Env) (μ : Heap) (C : Ctx) (s : Stmt) :
    evalBω Φ σ μ C [s] = evalSω Φ σ μ C s := by
  rw [evalBω_cons']
  have : thenB Φ C [] = fun r => .ok r := funext (thenB_nil Φ C)
  rw [this, bind_ok_id]

/-- E-Seq for blocks: `ss ++ ts` runs `ss`, and `ts` only if `ss` did not return -/
theorem evalBω_append (Φ : Funs) (C : Ctx) (ss ts : List Stmt) : ∀ (σ : Env) (μ : Heap),
    evalBω Φ σ μ C (ss ++ ts) = evalBω Φ σ μ C ss >>= thenB Φ C ts := by
  induction ss with
  | nil => intro σ μ; rw [evalBω_nil]; rfl
  | cons s ss ih =>
    intro σ μ
    rw [List.cons_append, evalBω_cons', evalBω_cons', bind_assoc]
    congr 1; funext ⟨o, μ'⟩
    cases o with
    | ret v => rfl
    | normal σ' => exact ih σ' μ'

/-! ### `while` unrolling -/

/-- `k` applications of the single unroll step of `_WhileUnroll._visit_while`:
`U₀ = while c: b`, `Uₖ₊₁ = if c: (b; Uₖ)` -/
def unrollWhile (c : Expr) (b : List Stmt) : Nat → Stmt
  | 0 => .while c b
  | k + 1 => .if1 c (b ++ [unrollWhile c b k])

/-- the unrolled statement and the loop have the same outcome in every state: same `return`
(an early `return` inside `b` included), same final environment and heap, same error, or both diverge -/
theorem unrollWhile_stmt (Φ : Funs) (C : Ctx) (c : Expr) (b : List Stmt) : ∀ (k : Nat) (σ : Env) (μ : Heap),
    evalSω Φ σ μ C (unrollWhile c b k) = evalSω Φ σ μ C (.while c b) := by
  intro k
  induction k with
  | zero => intro σ μ; rfl
  | succ k ih =>
    intro σ μ
    rw [unrollWhile, evalSω_if1, evalSω_while]
    congr 1; funext ⟨v, μ'⟩
    dsimp only
    congr 1; funext bb
    cases bb with
    | false => rfl
    | true =>
      simp only [if_true]
      rw [evalBω_append]
      congr 1; funext ⟨o, μ''⟩
      cases o with
      | ret v => rfl
      | normal σ' =>
        show evalBω Φ σ' μ'' C [unrollWhile c b k] = _
        rw [evalBω_single, ih]


/-- C08, `while` unrolling at full strength: for EVERY unroll count `k`, condition `c`, body `b`,
statements `pre` before and `rest` after the loop, every environment, heap and context, the block
with the `k`-times unrolled loop and the block with the loop have the same outcome. -/
theorem while_unroll_sound (Φ : Funs) (c : Expr) (b pre rest : List Stmt) (k : Nat) :
    BEquiv Φ (pre ++ unrollWhile c b k :: rest) (pre ++ .while c b :: rest) := by
  intro σ μ C
  rw [evalBω_append, evalBω_append]
  congr 1; funext r
  obtain ⟨o, μ'⟩ := r
  cases o with
  | ret v => rfl
  | normal σ' =>
    show evalBω Φ σ' μ' C _ = evalBω Φ σ' μ' C _
    rw [evalBω_cons', evalBω_cons', unrollWhile_stmt]

/-- … in the requested `Returns` / `Normal` form (both directions; `k ≥ 1` is not even needed) -/
theorem while_unroll_returns (Φ : Funs) (c : Expr) (b pre rest : List Stmt) (k : Nat) (σ : Env) (μ : Heap) (C : Ctx)
    (v : Val) (μ' : Heap) :
    Returns Φ σ μ C (pre ++ unrollWhile c b k :: rest) v μ' ↔ Returns Φ σ μ C (pre ++ .while c b :: rest) v μ' :=
  (while_unroll_sound Φ c b pre rest k).returns

theorem while_unroll_normal (Φ : Funs) (c : Expr) (b pre rest : List Stmt) (k : Nat) (σ : Env) (μ : Heap) (C : Ctx)
    (σ' : Env) (μ' : Heap) :
    Normal Φ σ μ C (pre ++ unrollWhile c b k :: rest) σ' μ' ↔ Normal Φ σ μ C (pre ++ .while c b :: rest) σ' μ' :=
  (while_unroll_sound Φ c b pre rest k).normal

/-! ### observational equivalence is a congruence (the rewritten loop may sit at any depth) -/

/-- two statements have the same outcome in every state -/
def SEquiv (Φ : Funs) (s s' : Stmt) : Prop := ∀ σ μ C, evalSω Φ σ μ C s = evalSω Φ σ μ C s'

theorem BEquiv.refl (Φ : Funs) (ss : List Stmt) : BEquiv Φ ss ss := fun _ _ _ => rfl
theorem BEquiv.symm {Φ : Funs} {a b : List Stmt} (h : BEquiv Φ a b) : BEquiv Φ b a := fun σ μ C => (h σ μ C).symm
theorem BEquiv.trans {Φ : Funs} {a b c : List Stmt} (h : BEquiv Φ a b) (h' : BEquiv Φ b c) : BEquiv Φ a c :=
  fun σ μ C => (h σ μ C).trans (h' σ μ C)
theorem SEquiv.refl (Φ : Funs) (s : Stmt) : SEquiv Φ s s := fun _ _ _ => rfl
theorem SEquiv.symm {Φ : Funs} {a b : Stmt} (h : SEquiv Φ a b) : SEquiv Φ b a := fun σ μ C => (h σ μ C).symm
theorem SEquiv.trans {Φ : Funs} {a b c : Stmt} (h : SEquiv Φ a b) (h' : SEquiv Φ b c) : SEquiv Φ a c :=
  fun σ μ C => (h σ μ C).trans (h' σ μ C)

theorem unrollWhile_sequiv (Φ : Funs) (c : Expr) (b : List Stmt) (k : Nat) :
    SEquiv Φ (unrollWhile c b k) (.while c b) := fun σ μ C => unrollWhile_stmt Φ C c b k σ μ

theorem thenB_congr {Φ : Funs} {C : Ctx} {ts ts' : List Stmt} (h : BEquiv Φ ts ts') : thenB Φ C ts = thenB Φ C ts' := by
  funext r; obtain ⟨o, μ'⟩ := r
  cases o with
  | ret v => rfl
  | normal σ' => exact h σ' μ' C

theorem BEquiv.cons {Φ : Funs} {s s' : Stmt} {ss ss' : List Stmt} (h : SEquiv Φ s s') (h' : BEquiv Φ ss ss') :
    BEquiv Φ (s :: ss) (s' :: ss') := by
  intro σ μ C; rw [evalBω_cons', evalBω_cons', h σ μ C, thenB_congr h']

theorem BEquiv.append {Φ : Funs} {a a' b b' : List Stmt} (h : BEquiv Φ a a') (h' : BEquiv Φ b b') :
    BEquiv Φ (a ++ b) (a' ++ b') := by
  intro σ μ C; rw [evalBω_append, evalBω_append, h σ μ C, thenB_congr h']

theorem SEquiv.ifte {Φ : Funs} (c : Expr) {t t' f f' : List Stmt} (ht : BEquiv Φ t t') (hf : BEquiv Φ f f') :
    SEquiv Φ (.ifte c t f) (.ifte c t' f') := by
  intro σ μ C; rw [evalSω_ifte, evalSω_ifte]
  congr 1; funext ⟨v, μ'⟩; dsimp only; congr 1; funext bb
  cases bb
  · exact hf σ μ' C
  · exact ht σ μ' C

theorem SEquiv.if1 {Φ : Funs} (c : Expr) {t t' : List Stmt} (ht : BEquiv Φ t t') :
    SEquiv Φ (.if1 c t) (.if1 c t') := by
  intro σ μ C; rw [evalSω_if1, evalSω_if1]
  congr 1; funext ⟨v, μ'⟩; dsimp only; congr 1; funext bb
  cases bb
  · rfl
  · exact ht σ μ' C

theorem SEquiv.with {Φ : Funs} (ce : Expr) (nm : Option String) {b b' : List Stmt} (hb : BEquiv Φ b b') :
    SEquiv Φ (.with ce nm b) (.with ce nm b') := by
  intro σ μ C; rw [evalSω_with, evalSω_with]
  congr 1; funext ⟨cv, μ'⟩
  cases cv <;> first | rfl | exact hb _ _ _

/-- ω-induction: two chains with each element of one below the limit of the other have the same limit -/
theorem lim_eq_of_le {α : Type} {a b : Nat → M α} {la lb : M α} (ha : Tends a la) (hb : Tends b lb)
    (hab : ∀ n, Le (a n) lb) (hba : ∀ n, Le (b n) la) : la = lb := by
  by_cases h : la = .error .outOfFuel
  · by_cases h' : lb = .error .outOfFuel
    · rw [h, h']
    · obtain ⟨n, hn⟩ := hb.reach h'
      rcases hba n with h1 | h1
      · rw [hn n (Nat.le_refl _)] at h1; exact absurd h1 h'
      · rw [hn n (Nat.le_refl _)] at h1; exact h1.symm
  · obtain ⟨n, hn⟩ := ha.reach h
    rcases hab n with h1 | h1
    · rw [hn n (Nat.le_refl _)] at h1; exact absurd h1 h
    · rw [hn n (Nat.le_refl _)] at h1; exact h1

theorem while_le {Φ : Funs} {C : Ctx} (c : Expr) {b b' : List Stmt} (hb : ∀ σ μ, evalBω Φ σ μ C b = evalBω Φ σ μ C b') :
    ∀ n σ μ, Le (evalS Φ n σ μ C (.while c b)) (evalSω Φ σ μ C (.while c b')) := by
  intro n
  induction n with
  | zero => intro σ μ; exact .inl rfl
  | succ n ih =>
    intro σ μ
    rw [evalSω_while]
    simp only [evalS]
    apply Le.bind ((tends_evalE Φ σ μ C c).le n)
    intro ⟨v, μ'⟩
    apply Le.bind (Le.refl _)
    intro bb
    cases bb with
    | false => exact Le.refl _
    | true =>
      simp only [if_true]
      apply Le.bind
      · rw [← hb]; exact (tends_evalB Φ σ μ' C b).le n
      · intro ⟨o, μ''⟩
        cases o with
        | ret v => exact Le.refl _
        | normal σ' => exact ih σ' μ''

theorem SEquiv.while {Φ : Funs} (c : Expr) {b b' : List Stmt} (hb : BEquiv Φ b b') :
    SEquiv Φ (.while c b) (.while c b') := by
  intro σ μ C
  exact lim_eq_of_le (tends_evalS Φ σ μ C _) (tends_evalS Φ σ μ C _)
    (fun n => while_le c (fun σ μ => hb σ μ C) n σ μ)
    (fun n => while_le c (fun σ μ => (hb σ μ C).symm) n σ μ)

theorem forLoop_le {Φ : Funs} {C : Ctx} (r : Nat) (p : Pat) {b b' : List Stmt} (hb : ∀ σ μ, evalBω Φ σ μ C b = evalBω Φ σ μ C b') :
    ∀ n σ μ i, Le (forLoop Φ n σ μ C r i p b) (forLoopω Φ σ μ C r i p b') := by
  intro n
  induction n with
  | zero => intro σ μ i; exact .inl rfl
  | succ n ih =>
    intro σ μ i
    rw [forLoopω_eq]
    simp only [forLoop]
    apply Le.bind (Le.refl _)
    intro l
    cases l[i]? with
    | none => exact Le.refl _
    | some x =>
      apply Le.bind ((tends_bindPat p x σ).le n)
      intro σ'
      apply Le.bind
      · rw [← hb]; exact (tends_evalB Φ σ' μ C b).le n
      · intro ⟨o, μ''⟩
        cases o with
        | ret v => exact Le.refl _
        | normal σ'' => exact ih σ'' μ'' (i + 1)

theorem SEquiv.for {Φ : Funs} (p : Pat) (it : Expr) {b b' : List Stmt} (hb : BEquiv Φ b b') :
    SEquiv Φ (.for p it b) (.for p it b') := by
  intro σ μ C
  rw [evalSω_for, evalSω_for]
  congr 1; funext ⟨iv, μ'⟩
  cases iv <;> try rfl
  rename_i r
  exact lim_eq_of_le (tends_forLoop Φ σ μ' C r 0 p _) (tends_forLoop Φ σ μ' C r 0 p _)
    (fun n => forLoop_le r p (fun σ μ => hb σ μ C) n σ μ' 0)
    (fun n => forLoop_le r p (fun σ μ => (hb σ μ C).symm) n σ μ' 0)

/-! ### C07 dead-code shapes that hold in every state -/

/-- `if True: A else: B` is `A` -/
theorem if_true_fold (Φ : Funs) (A B rest : List Stmt) : BEquiv Φ (.ifte (.bool true) A B :: rest) (A ++ rest) := by
  intro σ μ C
  rw [evalBω_cons', evalBω_append, evalSω_ifte, evalEω_bool]; rfl

/-- `if False: A else: B` is `B` -/
theorem if_false_fold (Φ : Funs) (A B rest : List Stmt) : BEquiv Φ (.ifte (.bool false) A B :: rest) (B ++ rest) := by
  intro σ μ C
  rw [evalBω_cons', evalBω_append, evalSω_ifte, evalEω_bool]; rfl

/-- `if True: A` is `A` -/
theorem if1_true_fold (Φ : Funs) (A rest : List Stmt) : BEquiv Φ (.if1 (.bool true) A :: rest) (A ++ rest) := by
  intro σ μ C
  rw [evalBω_cons', evalBω_append, evalSω_if1, evalEω_bool]; rfl

/-- `if False: A` disappears -/
theorem if1_false_elim (Φ : Funs) (A rest : List Stmt) : BEquiv Φ (.if1 (.bool false) A :: rest) rest := by
  intro σ μ C
  rw [evalBω_cons', evalSω_if1, evalEω_bool]; rfl

/-- `while False: A` disappears -/
theorem while_false_elim (Φ : Funs) (A rest : List Stmt) : BEquiv Φ (.while (.bool false) A :: rest) rest := by
  intro σ μ C
  rw [evalBω_cons', evalSω_while, evalEω_bool]; rfl

/-- `assert True` disappears -/
theorem assert_true_elim (Φ : Funs) (rest : List Stmt) : BEquiv Φ (.assert (.bool true) :: rest) rest := by
  intro σ μ C
  rw [evalBω_cons', evalSω_assert, evalEω_bool]; rfl

/-- `pass` disappears -/
theorem pass_elim (Φ : Funs) (rest : List Stmt) : BEquiv Φ (.pass :: rest) rest := by
  intro σ μ C
  rw [evalBω_cons', evalSω_pass]; rfl

/-- statements after a `return` are dead -/
theorem after_return_elim (Φ : Funs) (e : Expr) (rest : List Stmt) : BEquiv Φ (.ret e :: rest) [.ret e] := by
  intro σ μ C
  rw [evalBω_cons', evalBω_cons', evalSω_ret]
  cases evalEω Φ σ μ C e with
  | error e => rfl
  | ok r => rfl

end Fpy.Xform
