/-
Part 5 of the value-level helpers for C01: whole contexts.  Every result of a context's
`_round_at` is a member of the context's format (or the configured substitute of a special value);
the overflow flag of the bounded families is truthful.
-/
import Fpy.Proof.RoundValFloat
import Fpy.Props.C05
namespace Fpy.C01v
open Fpy Fpy.Spec

theorem repIn_some (p : Nat) (nmin : Int) (q : Rat) : RepIn p (some nmin) q ↔ RepFloatSub p nmin q := by
  unfold RepIn RepFloatSub
  constructor
  · rintro ⟨a, b⟩; exact ⟨a, b nmin rfl⟩
  · rintro ⟨a, b⟩; refine ⟨a, ?_⟩; intro n e; cases e; exact b

theorem repIn_none (p : Nat) (q : Rat) : RepIn p none q ↔ RepFloat p q := by
  unfold RepIn
  constructor
  · rintro ⟨a, _⟩; exact a
  · intro a; exact ⟨a, by intro n e; cases e⟩

/-! ### stochastic rounding is deterministic rounding under SOME mode -/

theorem round_any_k (x : RF) (maxP : Option Nat) (minN : Option Int) (rm : RM) (k : Option Nat) (r : Nat)
    (y : RF) (fl : Flags) (h : x.round maxP minN rm k r false = .ok (y, fl)) :
    ∃ rm', x.round maxP minN rm' (some 0) 0 false = .ok (y, fl) ∧ (k = some 0 → rm' = rm) := by
  unfold RF.round at h ⊢
  cases hp : x.roundParams maxP minN with
  | error e => rw [hp] at h; cases h
  | ok pn =>
    obtain ⟨p, n⟩ := pn
    rw [hp] at h
    simp only at h ⊢
    by_cases hk : k = some 0
    · subst hk
      simp only [if_true] at h
      exact ⟨rm, by simpa using h, fun _ => rfl⟩
    · rw [if_neg hk] at h
      unfold RF.roundAtStochastic at h
      simp only at h
      split at h
      · cases h
      · exact ⟨_, by simpa using h, fun e => absurd e hk⟩

theorem round_overflow (x : RF) (maxP : Option Nat) (minN : Option Int) (rm : RM)
    (y : RF) (fl : Flags) (h : x.round maxP minN rm (some 0) 0 false = .ok (y, fl)) : fl.overflow = false := by
  unfold RF.round at h
  split at h
  · cases h
  · simp only [if_true] at h
    exact roundAtCore_overflow _ _ _ _ _ _ _ _ h

/-- float shape, any number of random bits: the result is the correct rounding under some mode
(the context's own mode when deterministic) -/
theorem float_round_any (x : RF) (p : Nat) (minN : Option Int) (rm : RM) (k : Option Nat) (r : Nat)
    (y : RF) (fl : Flags) (hc : x.c ≠ 0) (hp : 1 ≤ p)
    (h : x.round (some p) minN rm k r false = .ok (y, fl)) :
    y.s = x.s ∧ bitLength y.c ≤ p ∧ y.exp > floatN x p minN ∧ fl.overflow = false ∧
    ∃ rm', (k = some 0 → rm' = rm) ∧ y.val = roundVal rm' (floatN x p minN + 1) x.val ∧
      (fl.inexact = false ↔ OnGrid (floatN x p minN + 1) x.val) := by
  obtain ⟨rm', h', hk⟩ := round_any_k x _ _ rm k r y fl h
  obtain ⟨y', fl', hr, a, b, c, d, e⟩ := float_val x p minN rm' hc hp
  rw [hr] at h'
  simp only [Except.ok.injEq, Prod.mk.injEq] at h'
  obtain ⟨rfl, rfl⟩ := h'
  exact ⟨a, b, c, round_overflow _ _ _ _ _ _ hr, rm', hk, d, e⟩

/-- fixed shape, any number of random bits -/
theorem fixed_round_any (x : RF) (n : Int) (rm : RM) (k : Option Nat) (r : Nat)
    (y : RF) (fl : Flags) (h : x.round none (some n) rm k r false = .ok (y, fl)) :
    y.s = x.s ∧ y.exp > n ∧ fl.overflow = false ∧
    ∃ rm', (k = some 0 → rm' = rm) ∧ y.val = roundVal rm' (n + 1) x.val ∧
      (fl.inexact = false ↔ OnGrid (n + 1) x.val) := by
  obtain ⟨rm', h', hk⟩ := round_any_k x _ _ rm k r y fl h
  obtain ⟨y', fl', hr, a, b, c, d⟩ := fixed_round_total x n rm'
  rw [hr] at h'
  simp only [Except.ok.injEq, Prod.mk.injEq] at h'
  obtain ⟨rfl, rfl⟩ := h'
  exact ⟨a, b, round_overflow _ _ _ _ _ _ hr, rm', hk, c, d⟩

/-- members of the float shape from the record's shape -/
theorem repFloatSub_of_shape (y : RF) (p : Nat) (nmin : Int) (h1 : bitLength y.c ≤ p) (h2 : y.exp > nmin) :
    RepFloatSub p nmin y.val :=
  ⟨repFloat_of_bitLength y p h1, onGrid_of_le_exp y (nmin + 1) (by omega)⟩

end Fpy.C01v
