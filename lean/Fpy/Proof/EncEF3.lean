/-
Helper lemmas for C16: `EFloatFormat` encode∘decode for special values, range of `encode`,
ordinals of decoded values, `maxval`.
-/
import Fpy.Proof.EncEF2
namespace Fpy
open Fpy.Enc Fpy.Spec

/-- **encode ∘ decode**: every pattern is the encoding of what it decodes to, up to NaN payloads
(a NaN pattern encodes to some NaN pattern) -/
theorem ef_encode_decode (f : EF) (hv : f.valid = true) (b : Nat) (hb : b < 2 ^ f.nbits) :
    ∃ v, f.decode b = .ok v ∧
      (v.isNan = false → f.encode v = .ok b) ∧
      (v.isNan = true → ∃ b' t, f.encode v = .ok b' ∧ b' < 2 ^ f.nbits ∧ f.decode b' = .ok (.nan t)) := by
  have ⟨hn, _⟩ := ef_valid_basic f hv
  have hH := two_pow_pos' (f.nbits - 1)
  have hN := two_pow_pred f.nbits hn
  have hdm := Nat.div_add_mod b (2 ^ (f.nbits - 1))
  have hGlt : b % 2 ^ (f.nbits - 1) < 2 ^ (f.nbits - 1) := Nat.mod_lt _ hH
  have hS : b / 2 ^ (f.nbits - 1) ≤ 1 := by
    have : b / 2 ^ (f.nbits - 1) < 2 := (Nat.div_lt_iff_lt_mul hH).2 (by omega)
    omega
  obtain ⟨v, hdv, hr⟩ := ef_decode_repr f hv b hb
  refine ⟨v, hdv, ?_, ?_⟩
  · intro hnn
    cases v with
    | fin x => exact ef_encode_decode_fin f hv b hb x hdv
    | nan s => simp [FV.isNan] at hnn
    | inf s =>
      have ⟨hlt, henc⟩ := ef_encode_inf f hv s hr
      rw [henc]
      rw [ef_decode_class f hv b hb] at hdv
      generalize b / 2 ^ (f.nbits - 1) = S at *
      generalize b % 2 ^ (f.nbits - 1) = G at *
      injection hdv with hdv
      split at hdv
      · cases hdv
      · split at hdv
        · cases hdv
        · split at hdv
          · rename_i hi
            injection hdv with hdv
            rw [← hdv, ← hi.2, ← hdm]
            have : S = 0 ∨ S = 1 := by omega
            rcases this with h | h <;> subst h <;> simp
          · cases hdv
  · intro hnan
    cases v with
    | fin x => simp [FV.isNan] at hnan
    | inf s => simp [FV.isNan] at hnan
    | nan s => exact ef_encode_nan f hv s hr

/-- **`encode` stays in range** for every value it accepts, in every valid format -/
theorem ef_encode_lt (f : EF) (hv : f.valid = true) (v : FV) (b : Nat) (h : f.encode v = .ok b) :
    b < 2 ^ f.nbits := by
  have ⟨hn, hes⟩ := ef_valid_basic f hv
  have ⟨hH, hA, hB, hAB1, hAle⟩ := ef_pow_facts f hv
  have hN := two_pow_pred f.nbits hn
  have hHp := two_pow_pos' (f.nbits - 1)
  have hr : f.repr v = true := by
    unfold EF.encode at h
    by_cases hr : f.repr v = true
    · exact hr
    · simp [hr] at h
  have hsb : ∀ s : Bool, 2 ^ (f.nbits - 1) * (if s then 1 else 0) < 2 ^ f.nbits := by
    intro s; cases s <;> simp <;> omega
  have hsg : 2 ^ (f.nbits - 1) * f.encodeSign v < 2 ^ f.nbits := by
    have : f.encodeSign v ≤ 1 := by
      unfold EF.encodeSign; split <;> (try split) <;> (try split) <;> omega
    have h2 : f.encodeSign v = 0 ∨ f.encodeSign v = 1 := by omega
    rcases h2 with h2 | h2 <;> rw [h2] <;> omega
  -- generic bound from the fields
  have generic : ∀ e mb, f.encodeFields v = .ok (e, mb) → e ≤ 2 ^ f.es - 1 → mb ≤ 2 ^ f.m → b < 2 ^ f.nbits := by
    intro e mb hf he hmb
    rw [ef_encode_of_fields f v e mb hr hf] at h
    injection h with h; rw [← h]
    have h1 : 2 ^ f.m * e < 2 ^ f.nbits := by
      have := Nat.mul_le_mul_left (2 ^ f.m) he
      omega
    exact Nat.or_lt_two_pow (Nat.or_lt_two_pow hsg h1) (by omega)
  cases v with
  | fin x =>
    by_cases hc : x.c = 0
    · rw [ef_encode_fin_zero f x hc hr] at h; injection h with h; rw [← h]; exact hsb _
    · have ⟨hle, henc⟩ := ef_encode_fin_nonzero f hv x hc hr
      have := ef_Gmax_lt f hv
      rw [henc] at h; injection h with h; rw [← h]
      cases x.s <;> simp <;> omega
  | inf s =>
    have hA1 : 1 ≤ 2 ^ f.m := hA
    cases hk : f.kind
    · exact generic (bitmask f.es) 0 (by unfold EF.encodeFields; simp only [hk]) (by unfold bitmask; omega) (by omega)
    · by_cases hp1 : f.pmax = 1
      · exact generic (bitmask f.es - 1) 0 (by unfold EF.encodeFields; simp only [hk, hp1, if_true]) (by unfold bitmask; omega) (by omega)
      · exact generic (bitmask f.es) (bitmask f.m - 1) (by unfold EF.encodeFields; simp only [hk, hp1, if_false])
          (by unfold bitmask; omega) (by unfold bitmask; omega)
    · exact generic (bitmask f.es) (bitmask f.m) (by unfold EF.encodeFields; simp only [hk]) (by unfold bitmask; omega) (by unfold bitmask; omega)
    · exact generic (bitmask f.es) (bitmask f.m) (by unfold EF.encodeFields; simp only [hk]) (by unfold bitmask; omega) (by unfold bitmask; omega)
  | nan s =>
    cases hk : f.kind
    · cases hi : f.inf
      · exact generic (bitmask f.es) 0 (by unfold EF.encodeFields; simp [hk, hi]) (by unfold bitmask; omega) (by omega)
      · by_cases hm0 : f.m = 0
        · exfalso
          unfold EF.encode at h
          have : f.encodeFields (.nan s) = .error .valueError := by unfold EF.encodeFields; simp [hk, hi, hm0]
          simp [hr, this] at h
        · have := two_pow_ge (f.m - 1) f.m (by omega)
          exact generic (bitmask f.es) (2 ^ (f.m - 1)) (by unfold EF.encodeFields; simp [hk, hi, hm0]) (by unfold bitmask; omega) this
    · exact generic (bitmask f.es) (bitmask f.m) (by unfold EF.encodeFields; simp only [hk]) (by unfold bitmask; omega) (by unfold bitmask; omega)
    · exact generic 0 0 (by unfold EF.encodeFields; simp only [hk]) (by omega) (by omega)
    · exfalso
      rw [ef_repr_nan, hk] at hr; simp at hr

/-- the ordinal of a finite decoded value is its signed magnitude code, within `±efGmax` -/
theorem ef_decode_ord (f : EF) (hv : f.valid = true) (b : Nat) (hb : b < 2 ^ f.nbits) (x : RF)
    (hd : f.decode b = .ok (.fin x)) :
    f.mpb.mps.reprRF x = true ∧
    f.mpb.mps.ordRF x = (if b / 2 ^ (f.nbits - 1) = 1 then -((b % 2 ^ (f.nbits - 1) : Nat) : Int) else ((b % 2 ^ (f.nbits - 1) : Nat) : Int)) ∧
    b % 2 ^ (f.nbits - 1) ≤ efGmax f := by
  rw [ef_decode_class f hv b hb] at hd
  generalize b / 2 ^ (f.nbits - 1) = S at *
  generalize b % 2 ^ (f.nbits - 1) = G at *
  injection hd with hd
  split at hd
  · cases hd
  · split at hd
    · rename_i hle
      injection hd with hd
      by_cases hG0 : G = 0
      · have hc : x.c = 0 := by rw [← hd]; unfold efNumber; simp [hG0]
        refine ⟨by unfold MPSFmt.reprRF; simp [hc], ?_, hle⟩
        unfold MPSFmt.ordRF; simp [hc, hG0]
      · have ⟨hc, hs, hr, hu⟩ := efNumber_facts f hv (decide (S = 1)) G hG0
        rw [hd] at hc hs hr hu
        refine ⟨hr, ?_, hle⟩
        rw [mps_ordRF_eq _ x hc, hs, hu]
        by_cases h : S = 1 <;> simp [h]
    · split at hd <;> cases hd

/-- **`maxval` is the maximum of the decoded finite set**: it is itself decoded (from the code `efGmax`),
and no finite decoded value is larger than `maxval` or smaller than `-maxval` -/
theorem ef_maxval_is_max (f : EF) (hv : f.valid = true) :
    (∃ y, f.decode (efGmax f) = .ok (.fin y) ∧ sameValue y f.maxv) ∧
    (∀ b x, b < 2 ^ f.nbits → f.decode b = .ok (.fin x) →
      ¬ ltValue f.maxv x ∧ ¬ ltValue x ⟨true, f.maxv.exp, f.maxv.c⟩) := by
  have hp := ef_pmax_pos f hv
  have ⟨hn, _⟩ := ef_valid_basic f hv
  have hN := two_pow_pred f.nbits hn
  have hGlt := ef_Gmax_lt f hv
  have ⟨mr, ms, mo, mz⟩ := ef_maxv_facts f hv
  constructor
  · have ⟨_, hdec⟩ := ef_decode_split f hv 0 (efGmax f) (by omega) hGlt
    simp only [Nat.mul_zero, Nat.zero_add] at hdec
    have a : ¬ (f.kind = .negZero ∧ efGmax f = 0 ∧ 0 = 1) := fun h => absurd h.2.2 (by decide)
    simp only [a, if_false, Nat.le_refl, if_true] at hdec
    refine ⟨_, hdec, ?_⟩
    have hd0 : decide ((0 : Nat) = 1) = false := by decide
    simp only [hd0]
    have hr : f.mpb.mps.reprRF (efNumber f false (efGmax f)) = true := by
      by_cases h0 : efGmax f = 0
      · unfold efNumber MPSFmt.reprRF; simp [h0]
      · exact (efNumber_facts f hv false _ h0).2.2.1
    apply (mps_ordinal_eq_iff f.mpb.mps hp _ _ hr mr).1
    rw [mo]
    by_cases h0 : efGmax f = 0
    · unfold efNumber MPSFmt.ordRF; simp [h0]
    · have ⟨hc, hs, _, hu⟩ := efNumber_facts f hv false _ h0
      rw [mps_ordRF_eq _ _ hc, hs, hu]; simp
  · intro b x hb hd
    have ⟨hr, ho, hle⟩ := ef_decode_ord f hv b hb x hd
    have hnr : f.mpb.mps.reprRF ⟨true, f.maxv.exp, f.maxv.c⟩ = true := by rw [reprRF_sign']; exact mr
    have hno : f.mpb.mps.ordRF ⟨true, f.maxv.exp, f.maxv.c⟩ = -(efGmax f : Int) := by
      by_cases hz : f.maxv.c = 0
      · have : efGmax f = 0 := mz.1 hz
        unfold MPSFmt.ordRF; simp [hz, this]
      · rw [mps_ordRF_eq _ ⟨true, f.maxv.exp, f.maxv.c⟩ hz]
        have h1 := mps_ordRF_eq f.mpb.mps f.maxv hz
        rw [ms, mo] at h1
        simp only [Bool.false_eq_true, if_false] at h1
        simp only [if_true, mpsUord_sign']; omega
    constructor
    · rw [← mps_ordinal_strict_mono f.mpb.mps hp _ _ mr hr, mo, ho]
      split <;> omega
    · rw [← mps_ordinal_strict_mono f.mpb.mps hp _ _ hr hnr, hno, ho]
      split <;> omega

end Fpy
