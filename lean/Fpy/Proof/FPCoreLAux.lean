/-
C12 (round 2) — auxiliary lemmas for the statement cases: lengths of the name sets, literals,
free variables of the loop-like shapes seen from their pieces.
-/
import Fpy.Proof.FPCoreLMain
set_option linter.unusedSimpArgs false
set_option linter.unusedVariables false
namespace Fpy.C12
open Fpy Fpy.Lang

/-! ### lengths -/

theorem length_insertName_le (x : String) (l : List String) : (insertName x l).length ≤ l.length + 1 := by
  induction l with
  | nil => simp [insertName]
  | cons y ys ih =>
    unfold insertName
    split
    · simp
    · split
      · simp
      · simp only [List.length_cons]; omega

theorem length_sortNames_le (l : List String) : (sortNames l).length ≤ l.length := by
  induction l with
  | nil => simp [sortNames]
  | cons x xs ih =>
    have : sortNames (x :: xs) = insertName x (sortNames xs) := rfl
    rw [this]
    have := length_insertName_le x (sortNames xs)
    simp only [List.length_cons]; omega

theorem length_mutatedOf_le (G : List String) (ss : List LStmt) : (mutatedOf G ss).length ≤ (LStmt.asgL ss).length := by
  unfold mutatedOf
  exact Nat.le_trans (length_sortNames_le _) (List.length_filter_le _ _)

theorem length_passedL_le (G : List String) (body : List LStmt) (K : FExpr) :
    (passedL G body K).length ≤ (LStmt.asgL body).length := by
  unfold passedL
  exact Nat.le_trans (length_sortNames_le _) (List.length_filter_le _ _)

theorem length_mutsIf_le (G : List String) (t f : List LStmt) :
    (mutsIf G t f).length ≤ (LStmt.asgL t).length + (LStmt.asgL f).length := by
  unfold mutsIf
  have := length_mutatedOf_le G (t ++ f)
  rw [asgL_append, List.length_append] at this
  exact this

theorem length_introsIf_le (G : List String) (t f : List LStmt) : (introsIf G t f).length ≤ (LStmt.gammaL G t).length := by
  unfold introsIf
  exact Nat.le_trans (length_sortNames_le _)
    (Nat.le_trans (List.length_filter_le _ _) (List.length_filter_le _ _))

/-! ### literals -/

theorem CtxLits.mono {C : Ctx} {n m : Nat} (h : CtxLits C n) (hm : m ≤ n) : CtxLits C m :=
  fun i hi => h i (by omega)

theorem LitsP.ctx {P : Props} {C : Ctx} {n : Nat} (h : LitsP P n) (hP : P.toCtx = .ok C) : CtxLits C n := by
  obtain ⟨C', hC', hL⟩ := h
  rw [hP] at hC'
  cases hC'
  exact hL

theorem LitsP.mono {P : Props} {n m : Nat} (h : LitsP P n) (hm : m ≤ n) : LitsP P m := by
  obtain ⟨C', hC', hL⟩ := h
  exact ⟨C', hC', hL.mono hm⟩

/-- the rounded `0` -/
theorem lit0 {C : Ctx} (h : CtxLits C 1) : ∃ r0, opEval C .round [cvtReal (.q 0 1)] = .ok r0 := by
  obtain ⟨r, hr, _⟩ := h 0 (by omega)
  exact ⟨r, by simpa using hr⟩

/-! ### `indexIn` -/

theorem indexIn_of_not_mem : ∀ (M : List String) (x : String) (i : Nat), x ∉ M → indexIn M x i = none := by
  intro M
  induction M with
  | nil => intro x i _; rfl
  | cons y ys ih =>
    intro x i h
    simp only [List.mem_cons, not_or] at h
    simp only [indexIn]
    have : (x == y) = false := by simpa using h.1
    rw [this]
    simp only [Bool.false_eq_true, if_false]
    exact ih x (i + 1) h.2

/-! ### free variables of the loop-like shapes, from below -/

theorem fv_carryCond_rev (M : List String) (c : LExpr) (y : String) (hy : y ∈ c.vars) (hM : isMany M = true → y ∉ M) :
    y ∈ fvF (carryCond M c) := by
  unfold carryCond
  by_cases hm : isMany M = true
  · rw [if_pos hm]
    refine fvF_toFsub_rev (subIdx M) c y hy y ?_
    unfold subIdx
    rw [indexIn_of_not_mem M y 0 (hM hm)]
    simp [fvF]
  · rw [if_neg hm]
    exact vars_sub_fvF c y hy

theorem fv_carryIn_rev (M : List String) (B : FExpr) (y : String) (ht : isTmpL y = false) (hy : y ∈ fvF B)
    (hM : isMany M = true → y ∉ M) : y ∈ fvF (carryIn M B) := by
  unfold carryIn
  by_cases hm : isMany M = true
  · rw [if_pos hm]
    exact (fv_unpack M (.var "%t") B y ht).2 (Or.inr ⟨hy, hM hm⟩)
  · rw [if_neg hm]; exact hy

theorem fv_carryOut_rev (M : List String) (E : FExpr) (y : String) (ht : isTmpL y = false)
    (hy : (isMany M = true ∧ y ∈ M) ∨ y ∈ fvF E) : y ∈ fvF (carryOut M E) := by
  unfold carryOut
  by_cases hm : isMany M = true
  · rw [if_pos hm]
    rcases hy with h | h
    · exact (fv_pack M E y).2 (Or.inl h.2)
    · exact (fv_pack M E y).2 (Or.inr ⟨h, (isTmpL_ne ht).1⟩)
  · rw [if_neg hm]
    rcases hy with h | h
    · exact absurd h.1 hm
    · exact h

/-- a non-temporary name among the carried variables, the variables of the condition, the free variables of the
compiled body and of the continuation is: carried in the tuple; or the single carried variable (free in the
initial value); or free — and different from the carrier — in the condition / the unpacked body / continuation -/
theorem carry_pieces (M : List String) (c : LExpr) (B k : FExpr) (y : String) (ht : isTmpL y = false)
    (hy : y ∈ M ∨ y ∈ c.vars ∨ y ∈ fvF B ∨ y ∈ fvF k) :
    (isMany M = true ∧ y ∈ M) ∨ y ∈ fvF (carryInit M) ∨
    (y ≠ carrier M ∧ ((y ∈ c.vars ∧ y ∈ fvF (carryCond M c)) ∨ (y ∈ fvF B ∧ y ∈ fvF (carryIn M B)) ∨
      (y ∈ fvF k ∧ y ∈ fvF (carryIn M k)))) := by
  obtain ⟨h1, _, _, _, h5⟩ := isTmpL_ne ht
  have gen : (isMany M = true → y ∉ M) → (y ∈ c.vars ∨ y ∈ fvF B ∨ y ∈ fvF k) →
      ((y ∈ c.vars ∧ y ∈ fvF (carryCond M c)) ∨ (y ∈ fvF B ∧ y ∈ fvF (carryIn M B)) ∨
        (y ∈ fvF k ∧ y ∈ fvF (carryIn M k))) := by
    intro hM h
    rcases h with h | h | h
    · exact Or.inl ⟨h, fv_carryCond_rev M c y h hM⟩
    · exact Or.inr (Or.inl ⟨h, fv_carryIn_rev M B y ht h hM⟩)
    · exact Or.inr (Or.inr ⟨h, fv_carryIn_rev M k y ht h hM⟩)
  match M, gen with
  | [], gen =>
    right; right
    refine ⟨by simpa [carrier] using h5, gen (by simp [isMany]) ?_⟩
    rcases hy with h | h
    · simp at h
    · exact h
  | [x], gen =>
    by_cases hyx : y = x
    · right; left; subst hyx; simp [carryInit, fvF]
    · right; right
      refine ⟨by simpa [carrier] using hyx, gen (by simp [isMany]) ?_⟩
      rcases hy with h | h
      · simp at h; exact absurd h hyx
      · exact h
  | x :: x2 :: rest, gen =>
    by_cases hyM : y ∈ x :: x2 :: rest
    · left; exact ⟨isMany_cons2 _ _ _, hyM⟩
    · right; right
      refine ⟨by simpa [carrier] using h1, gen (fun _ => hyM) ?_⟩
      rcases hy with h | h
      · exact absurd h hyM
      · exact h

end Fpy.C12
