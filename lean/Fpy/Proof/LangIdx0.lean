/-
Loop restructuring, part 0: more fuel-free rules, pattern matching on related environments, and the
"answer relation" used to compare an element loop with the indexed loops emitted for it.
-/
import Fpy.Proof.LangPar5
namespace Fpy.Xform
open Fpy Fpy.Lang

section
variable (Φ : Funs) (σ : Env) (μ : Heap) (C : Ctx)

theorem evalEω_index (a i : Expr) :
    evalEω Φ σ μ C (.index a i) =
      (do let (av, μ1) ← evalEω Φ σ μ C a
          let (iv, μ2) ← evalEω Φ σ μ1 C i
          let l ← asSeq μ2 av
          let k ← asIndex iv
          match l[k]? with | some v => .ok (v, μ2) | none => .error .indexError) := by
  apply evalEω_of; simp only [evalE]; tends_tac

theorem evalEω_len (a : Expr) :
    evalEω Φ σ μ C (.len a) =
      (do let (v, μ') ← evalEω Φ σ μ C a
          let l ← asList μ' v
          .ok (.num (.q (l.length : Int) 1), μ')) := by
  apply evalEω_of; simp only [evalE]; tends_tac

theorem evalEω_op (o : Op) (args : List Expr) :
    evalEω Φ σ μ C (.op o args) =
      (do let (vs, μ') ← evalEsω Φ σ μ C args
          let ns ← vs.mapM asNum
          let r ← opEval C o (ns.map cvtReal)
          .ok (.num r, μ')) := by
  apply evalEω_of; simp only [evalE]; tends_tac

theorem evalEω_range (args : List Expr) :
    evalEω Φ σ μ C (.range args) =
      (do let (vs, μ') ← evalEsω Φ σ μ C args
          let ints ← vs.mapM (fun v => do
            match nvInt? (← asNum v) with | some i => .ok i | none => .error .valueError)
          let (a, b, st) ← (match ints with
            | [b] => .ok ((0 : Int), b, (1 : Int))
            | [a, b] => .ok (a, b, (1 : Int))
            | [a, b, c] => .ok (a, b, c)
            | _ => .error .typeError)
          if st = 0 then .error .valueError
          else
            let n : Nat := if st > 0 then ((b - a + st - 1) / st).toNat else ((a - b + (-st) - 1) / (-st)).toNat
            let l := (List.range n).map (fun (i : Nat) => intVal (a + st * (i : Int)))
            let (μ'', r) := alloc μ' l
            .ok (r, μ'')) := by
  apply evalEω_of; simp only [evalE]; tends_tac

theorem evalEω_enumerate (a : Expr) :
    evalEω Φ σ μ C (.enumerate a) =
      (do let (v, μ') ← evalEω Φ σ μ C a
          let l ← asList μ' v
          let rows := (List.range l.length).filterMap (fun (i : Nat) => (l[i]?).map (fun x => Val.tuple [intVal (i : Int), x]))
          let (μ'', r) := alloc μ' rows
          .ok (r, μ'')) := by
  apply evalEω_of; simp only [evalE]; tends_tac

theorem evalEω_zip (es : List Expr) :
    evalEω Φ σ μ C (.zip es) =
      (do let (vs, μ') ← evalEsω Φ σ μ C es
          let ls ← vs.mapM (asList μ')
          match ls with
          | [] => let (μ'', r) := alloc μ' []; .ok (r, μ'')
          | l0 :: rest =>
            if rest.any (fun l => l.length != l0.length) then .error .valueError
            else
              let rows := (List.range l0.length).map (fun i => Val.tuple (ls.filterMap (fun l => l[i]?)))
              let (μ'', r) := alloc μ' rows
              .ok (r, μ'')) := by
  apply evalEω_of; simp only [evalE]; tends_tac
end

/-! ### pattern matching on environments related on `S` -/

theorem bindPat_relS {S : List String} {π : RMap} {D : List Nat} {d : Nat} :
    ∀ (n : Nat) (p : Pat) (v w : Val) (σ1 σ2 : Env), ERS S π D d σ1 σ2 → VR π D d v w →
    RelM (ERS S π D d) (bindPat n p v σ1) (bindPat n p w σ2) := by
  intro n
  induction n with
  | zero => intro p v w σ1 σ2 _ _; simp only [bindPat]; exact rfl
  | succ n ih =>
    have hgo : ∀ (ps : List Pat) (vs ws : List Val) (σ1 σ2 : Env), ERS S π D d σ1 σ2 → VRs π D d vs ws →
        RelM (ERS S π D d) (bindPat.go n ps vs σ1) (bindPat.go n ps ws σ2) := by
      intro ps
      induction ps with
      | nil => intro vs ws σ1 σ2 he _; simp only [bindPat.go]; exact he
      | cons p ps ihp =>
        intro vs ws σ1 σ2 he hv
        cases vs with
        | nil => rw [VRs.inv_nil hv]; simp only [bindPat.go]; exact he
        | cons v vs =>
          obtain ⟨w, ws', rfl, h1, h2⟩ := VRs.inv_cons hv
          simp only [bindPat.go]
          exact RelM.bind (ih p v w σ1 σ2 he h1) (fun σ1' σ2' he' => ihp vs ws' σ1' σ2' he' h2)
    intro p v w σ1 σ2 he hv
    cases p with
    | var x => simp only [bindPat]; exact he.set x hv
    | wild => simp only [bindPat]; exact he
    | tup ps =>
      rcases VR.inv hv with ⟨hf, rfl⟩ | ⟨vs, ws, rfl, rfl, hvs⟩ | ⟨r, rfl, rfl, hr, hrd⟩
      · cases w <;> simp only [flatV, Bool.false_eq_true] at hf <;> simp only [bindPat] <;> exact rfl
      · simp only [bindPat, VRs.length_eq hvs]
        split
        · exact rfl
        · exact hgo ps vs ws σ1 σ2 he hvs
      · simp only [bindPat]; exact rfl

theorem bindPatω_relS {S : List String} {π : RMap} {D : List Nat} {d : Nat} (p : Pat) {v w : Val} {σ1 σ2 : Env}
    (he : ERS S π D d σ1 σ2) (hv : VR π D d v w) : RelM (ERS S π D d) (bindPatω p v σ1) (bindPatω p w σ2) :=
  RelM.tends (tends_bindPat p v σ1) (tends_bindPat p w σ2) (fun n => bindPat_relS n p v w σ1 σ2 he hv)

theorem bindPatω_frame {p : Pat} {v : Val} {σ σ' : Env} (h : bindPatω p v σ = .ok σ') :
    ∀ z, z ∉ bvP p → σ'.get? z = σ.get? z :=
  (Post.tends (tends_bindPat p v σ) (fun n => bindPat_frame n p v σ)).out _ h

/-! ### answer relations -/

/-- a relation on final results that accepts equal errors and related `return`s under any renaming -/
structure AnsOK (Ans : M (Outcome × Heap) → M (Outcome × Heap) → Prop) : Prop where
  err : ∀ e, Ans (.error e) (.error e)
  ret : ∀ (π : RMap) (D : List Nat) (m1 m2 : Heap) (v w : Val), HR π D m1 m2 → VR π D m1.length v w →
    Ans (.ok (.ret v, m1)) (.ok (.ret w, m2))

/-- sequencing under an answer relation: related computations, then continuations related on normal outcomes -/
theorem ans_bind {Ans : M (Outcome × Heap) → M (Outcome × Heap) → Prop} (hA : AnsOK Ans)
    {S : List String} {π : RMap} {D : List Nat} {μ1 μ2 : Heap} {a b : M (Outcome × Heap)}
    (hab : RelM (QSS S π D μ1 μ2) a b) {k1 k2 : Outcome × Heap → M (Outcome × Heap)}
    (hk1 : ∀ v m, k1 (.ret v, m) = .ok (.ret v, m)) (hk2 : ∀ v m, k2 (.ret v, m) = .ok (.ret v, m))
    (hk : ∀ σ1' m1 σ2' m2, a = .ok (.normal σ1', m1) → b = .ok (.normal σ2', m2) →
      ERS S π D m1.length σ1' σ2' → HR π D m1 m2 → ExtP π D μ1 μ2 m1 m2 →
      Ans (k1 (.normal σ1', m1)) (k2 (.normal σ2', m2))) :
    Ans (a >>= k1) (b >>= k2) := by
  cases a <;> cases b <;> simp only [RelM] at hab
  · subst hab; exact hA.err _
  · rename_i x y
    obtain ⟨o1, m1⟩ := x; obtain ⟨o2, m2⟩ := y
    obtain ⟨ho, hh, hx⟩ := hab
    dsimp only at ho hh hx
    cases o1 <;> cases o2 <;> simp only [ORS] at ho
    · exact hk _ _ _ _ rfl rfl ho hh hx
    · show Ans (k1 _) (k2 _)
      rw [hk1, hk2]; exact hA.ret π D m1 m2 _ _ hh ho

/-- the final comparison: same error, or outcomes related under SOME renaming of references with some
cells of the left heap declared garbage -/
def FinRel (S : List String) (a b : M (Outcome × Heap)) : Prop :=
  match a, b with
  | .error e, .error e' => e = e'
  | .ok (o1, m1), .ok (o2, m2) => ∃ (π : RMap) (D : List Nat), HR π D m1 m2 ∧ ORS S π D m1.length o1 o2
  | _, _ => False

theorem FinRel.ansOK (S : List String) : AnsOK (FinRel S) :=
  ⟨fun _ => rfl, fun π D _ _ _ _ hh hv => ⟨π, D, hh, hv⟩⟩

theorem thenB_ret (Φ : Funs) (C : Ctx) (ts : List Stmt) (v : Val) (m : Heap) : thenB Φ C ts (.ret v, m) = .ok (.ret v, m) := rfl

end Fpy.Xform
