/-
Part 3 of the value-level helpers for C01: the model's rounding core (`RealFloat.round`) returns
`Spec.roundVal` of the operand's value; representability of the results; the key facts about
`p`-digit floats (no digits below `e − p + 1`, adjacency of the grid neighbours).
-/
import Fpy.Proof.RoundValSpec
import Fpy.Props.C01
namespace Fpy.C01v
open Fpy Fpy.Spec

/-! ### powers of two -/

theorem zpow_nat_ge_one (k : Nat) : (1 : Rat) ≤ (2 : Rat) ^ (k : Int) := by
  rw [RF.two_zpow_nat]
  have : (1 : Nat) ≤ 2 ^ k := Nat.pow_pos (by decide)
  have := Rat.natCast_le_natCast.2 this
  simpa using this

theorem zpow_le_of_le {a b : Int} (h : a ≤ b) : (2 : Rat) ^ a ≤ (2 : Rat) ^ b := by
  obtain ⟨k, hk⟩ : ∃ k : Nat, b = a + (k : Int) := ⟨(b - a).toNat, by omega⟩
  rw [hk, RF.two_zpow_add]
  have h1 := zpow_nat_ge_one k
  have h2 := RF.two_zpow_pos a
  have := Rat.mul_le_mul_of_nonneg_left h1 (Rat.le_of_lt h2)
  rwa [Rat.mul_one] at this

theorem lt_of_zpow_lt {a b : Int} (h : (2 : Rat) ^ a < (2 : Rat) ^ b) : a < b := by
  by_cases h' : a < b
  · exact h'
  · exact absurd (zpow_le_of_le (by omega : b ≤ a)) (Rat.not_le.2 h)

/-! ### the value of an `RF` on a coarser / finer grid -/

/-- a record whose digits all lie at or above `g` is a multiple of `2^g` -/
theorem onGrid_of_le_exp (x : RF) (g : Int) (h : g ≤ x.exp) : OnGrid g x.val :=
  ⟨_, RF.val_scaled x g h⟩

/-- the value in units of a coarser grid `2^(n+1)`: a fraction with denominator `2^k` -/
theorem val_as_frac (x : RF) (n : Int) (hle : x.exp ≤ n) :
    x.val = RF.sgn x.s * ((x.c : Rat) / ((2 ^ (n + 1 - x.exp).toNat : Nat) : Rat)) * (2 : Rat) ^ (n + 1) := by
  generalize hk : (n + 1 - x.exp).toNat = k
  have e : n + 1 = x.exp + (k : Int) := by omega
  rw [RF.val_eq, e, RF.two_zpow_add, RF.two_zpow_nat]
  have : ((2 ^ k : Nat) : Rat) ≠ 0 := by
    have : 0 < 2 ^ k := Nat.pow_pos (by decide)
    exact Rat.ne_of_gt (Rat.natCast_pos.2 this)
  generalize ((2 ^ k : Nat) : Rat) = P at *
  grind

/-- **the rounding core computes `roundVal`** (fixed shape, slow path) -/
theorem fixed_val (x : RF) (n : Int) (rm : RM) (hle : x.exp ≤ n) :
    (⟨x.s, n + 1, roundQuot rm x.s x.c (n + 1 - x.exp).toNat⟩ : RF).val = roundVal rm (n + 1) x.val := by
  rw [RF.val_mk]
  conv => rhs; rw [val_as_frac x n hle]
  rw [roundVal_frac rm x.s x.c _ (Nat.pow_pos (by decide)) (n + 1), roundQuot_eq_roundDiv]

/-- on the grid `2^(n+1)` exactly when the `k` low digits are zero -/
theorem onGrid_iff_mod (x : RF) (n : Int) (hle : x.exp ≤ n) :
    OnGrid (n + 1) x.val ↔ x.c % 2 ^ (n + 1 - x.exp).toNat = 0 := by
  rw [← roundVal_eq_iff .rtz, ← fixed_val x n .rtz hle]
  have hq : roundQuot .rtz x.s x.c (n + 1 - x.exp).toNat = x.c / 2 ^ (n + 1 - x.exp).toNat := by
    unfold roundQuot; simp
  rw [hq, RF.val_mk]
  conv => lhs; rhs; rw [val_as_frac x n hle]
  obtain ⟨f, hN, hf0, hf1, hfz, -⟩ := frac_split x.c (2 ^ (n + 1 - x.exp).toNat) (Nat.pow_pos (by decide))
  rw [hN, ← hfz]
  have hG := RF.two_zpow_pos (n + 1)
  generalize (2 : Rat) ^ (n + 1) = G at *
  generalize ((x.c / 2 ^ (n + 1 - x.exp).toNat : Nat) : Rat) = Q
  constructor
  · intro h
    have := mul_right_cancel_pos hG h
    cases x.s <;> simp [RF.sgn] at this <;> grind
  · intro h; rw [h, Rat.add_zero]

/-! ### `p`-digit floats -/

theorem abs_intCast (m : Int) : ((m : Rat)).abs = ((m.natAbs : Nat) : Rat) := by
  by_cases h : 0 ≤ m
  · rw [Rat.abs_of_nonneg (Rat.intCast_nonneg.2 h)]
    have : m = (m.natAbs : Int) := by omega
    conv => lhs; rw [this]
    rfl
  · have h' : m ≤ 0 := by omega
    rw [Rat.abs_of_nonpos (by simpa using Rat.intCast_le_intCast.2 h')]
    have : -m = (m.natAbs : Int) := by omega
    rw [← Rat.intCast_neg, this]
    rfl

theorem onGrid_mono {u v : Int} (h : v ≤ u) {q : Rat} (hq : OnGrid u q) : OnGrid v q := by
  obtain ⟨m, hm⟩ := hq
  obtain ⟨k, hk⟩ : ∃ k : Nat, u = v + (k : Int) := ⟨(u - v).toNat, by omega⟩
  refine ⟨m * (2 : Int) ^ k, ?_⟩
  rw [hm, hk, RF.two_zpow_add, RF.two_zpow_nat', Rat.intCast_mul]
  grind

theorem onGrid_zero (u : Int) : OnGrid u 0 := ⟨0, by simp⟩

/-- **KEY.**  A `p`-digit float of magnitude at least `2^e` has no digit below `e − p + 1`. -/
theorem rep_float_on_grid (p : Nat) (e : Int) (q : Rat) (h : RepFloat p q) (hq : (2 : Rat) ^ e ≤ q.abs) :
    OnGrid (e - p + 1) q := by
  rcases h with h | ⟨m, e', hm, hp⟩
  · rw [h]; exact onGrid_zero _
  · have hG := RF.two_zpow_pos e'
    have habs : q.abs = ((m.natAbs : Nat) : Rat) * (2 : Rat) ^ e' := by
      rw [hm, abs_mul_pos _ _ hG, abs_intCast]
    have hlt : ((m.natAbs : Nat) : Rat) * (2 : Rat) ^ e' < (2 : Rat) ^ ((p : Int) + e') := by
      rw [RF.two_zpow_add, RF.two_zpow_nat]
      exact Rat.mul_lt_mul_of_pos_right (Rat.natCast_lt_natCast.2 hp) hG
    have : e < (p : Int) + e' := lt_of_zpow_lt (by rw [habs] at hq; grind)
    rw [hm]
    exact onGrid_mono (by omega) ⟨m, rfl⟩

/-- nothing on a grid lies strictly between two adjacent grid points -/
theorem no_grid_between (u : Int) (a : Int) (z : Rat) (hz : OnGrid u z) :
    ¬ ((a : Rat) * (2 : Rat) ^ u < z ∧ z < ((a + 1 : Int) : Rat) * (2 : Rat) ^ u) := by
  obtain ⟨m, hm⟩ := hz
  rintro ⟨h1, h2⟩
  have hG := RF.two_zpow_pos u
  rw [hm] at h1 h2
  have a1 := Rat.intCast_lt_intCast.1 ((Rat.mul_lt_mul_right hG).1 h1)
  have a2 := Rat.intCast_lt_intCast.1 ((Rat.mul_lt_mul_right hG).1 h2)
  omega

/-- **Adjacency.**  Inside the binade `|z| ≥ 2^e`, no `p`-digit float lies strictly between two
adjacent multiples of `2^(e−p+1)`. -/
theorem no_rep_between (p : Nat) (e : Int) (a : Int) (z : Rat) (hz : RepFloat p z)
    (hmag : (2 : Rat) ^ e ≤ z.abs) :
    ¬ ((a : Rat) * (2 : Rat) ^ (e - p + 1) < z ∧ z < ((a + 1 : Int) : Rat) * (2 : Rat) ^ (e - p + 1)) :=
  no_grid_between _ a z (rep_float_on_grid p e z hz hmag)

theorem repFloat_of_bitLength (y : RF) (p : Nat) (h : bitLength y.c ≤ p) : RepFloat p y.val := by
  refine Or.inr ⟨y.m, y.exp, RF.val_eq_m y, ?_⟩
  have : y.m.natAbs = y.c := by unfold RF.m; split <;> omega
  rw [this]; exact (bitLength_le_iff _ _).1 h

/-- the binade of a non-zero record -/
theorem val_abs_ge (x : RF) (hc : x.c ≠ 0) : (2 : Rat) ^ x.e ≤ x.val.abs := by
  rw [RF.abs_val_eq]
  have hb := bitLength_pos hc
  have h1 : 2 ^ (bitLength x.c - 1) ≤ x.c := ((bitLength_eq_iff x.c _ hb).1 rfl).1
  have e : x.e = ((bitLength x.c - 1 : Nat) : Int) + x.exp := by unfold RF.e RF.p; omega
  rw [e, RF.two_zpow_add, RF.two_zpow_nat]
  exact Rat.mul_le_mul_of_nonneg_right (Rat.natCast_le_natCast.2 h1) (Rat.le_of_lt (RF.two_zpow_pos _))

theorem val_abs_lt (x : RF) : x.val.abs < (2 : Rat) ^ (x.e + 1) := by
  rw [RF.abs_val_eq]
  have h1 : x.c < 2 ^ (bitLength x.c) := (bitLength_le_iff _ _).1 (Nat.le_refl _)
  have e : x.e + 1 = ((bitLength x.c : Nat) : Int) + x.exp := by unfold RF.e RF.p; omega
  rw [e, RF.two_zpow_add, RF.two_zpow_nat]
  exact Rat.mul_lt_mul_of_pos_right (Rat.natCast_lt_natCast.2 h1) (RF.two_zpow_pos _)

/-! ### the float shape -/

/-- the rounding position of `RealFloat.round(max_p = p, min_n = minN)` -/
def floatN (x : RF) (p : Nat) (minN : Option Int) : Int :=
  match minN with | none => x.e - p | some m => max m (x.e - p)

/-- **the rounding core computes `roundVal`** (float shape): the result is the correct rounding of
the operand's value to the grid `2^(n+1)`, `n = max(nmin, e − p)`; it has at most `p` digits, all
above `n`; `inexact` is clear exactly when the operand is on that grid -/
theorem float_val (x : RF) (p : Nat) (minN : Option Int) (rm : RM) (hc : x.c ≠ 0) (hp : 1 ≤ p) :
    ∃ y fl, x.round (some p) minN rm = .ok (y, fl) ∧ y.s = x.s ∧ bitLength y.c ≤ p ∧ y.exp > floatN x p minN ∧
      y.val = roundVal rm (floatN x p minN + 1) x.val ∧
      (fl.inexact = false ↔ OnGrid (floatN x p minN + 1) x.val) := by
  have key : ∃ y fl, x.round (some p) minN rm = .ok (y, fl) ∧ y.s = x.s ∧ bitLength y.c ≤ p ∧
      y.exp > floatN x p minN ∧ (x.exp > floatN x p minN → y = x ∧ fl.inexact = false) ∧
      (x.exp ≤ floatN x p minN →
        y.c * 2 ^ (y.exp - (floatN x p minN + 1)).toNat = roundQuot rm x.s x.c (floatN x p minN + 1 - x.exp).toNat ∧
        fl.inexact = decide (x.c % 2 ^ (floatN x p minN + 1 - x.exp).toNat ≠ 0)) := by
    cases minN <;> exact Props.C01.round_float_correct x p _ rm hc hp
  obtain ⟨y, fl, hr, hs, hbl, hexp, hfast, hslow⟩ := key
  generalize floatN x p minN = n at *
  refine ⟨y, fl, hr, hs, hbl, hexp, ?_⟩
  by_cases h0 : x.exp > n
  · obtain ⟨rfl, hi⟩ := hfast h0
    have hg : OnGrid (n + 1) y.val := onGrid_of_le_exp y (n + 1) (by omega)
    exact ⟨((roundVal_eq_iff rm (n + 1) y.val).2 hg).symm, by simp [hi, hg]⟩
  · have hle : x.exp ≤ n := by omega
    obtain ⟨hQ, hi⟩ := hslow hle
    constructor
    · rw [← fixed_val x n rm hle, ← hQ, RF.val_shift]
      have e : n + 1 + ((y.exp - (n + 1)).toNat : Int) = y.exp := by omega
      rw [e, ← hs]
    · rw [hi, onGrid_iff_mod x n hle]; simp

/-- the flags of the rounding core never carry `overflow` -/
theorem roundAtCore_overflow (x : RF) (p : Option Nat) (n : Int) (emin : Option Int) (rm : RM) (exact : Bool)
    (y : RF) (fl : Flags) (h : x.roundAtCore p n emin rm exact = .ok (y, fl)) : fl.overflow = false := by
  revert h
  unfold RF.roundAtCore
  cases p <;> simp only <;> (
    split
    · intro h; simp only [Except.ok.injEq, Prod.mk.injEq] at h; rw [← h.2]
    · split
      · intro h; simp only [Except.ok.injEq, Prod.mk.injEq] at h; rw [← h.2]
      · split
        · intro h; cases h
        · intro h; simp only [Except.ok.injEq, Prod.mk.injEq] at h; rw [← h.2])

/-- **fixed shape, every operand** (zero, fast path and slow path alike): `round(min_n = n)` never
raises and returns the correct rounding of the value to the grid `2^(n+1)` -/
theorem fixed_round_total (x : RF) (n : Int) (rm : RM) :
    ∃ y fl, x.round none (some n) rm = .ok (y, fl) ∧ y.s = x.s ∧ y.exp > n ∧
      y.val = roundVal rm (n + 1) x.val ∧ (fl.inexact = false ↔ OnGrid (n + 1) x.val) := by
  by_cases h0 : x.exp > n
  · obtain ⟨fl, hr, hi⟩ := Props.C01.round_fixed_representable x n rm h0
    have hg : OnGrid (n + 1) x.val := onGrid_of_le_exp x (n + 1) (by omega)
    exact ⟨x, fl, hr, rfl, h0, ((roundVal_eq_iff rm (n + 1) x.val).2 hg).symm, by simp [hi, hg]⟩
  · have hle : x.exp ≤ n := by omega
    by_cases hc : x.c = 0
    · have hv : x.val = 0 := RF.val_zero_c hc
      have hg : OnGrid (n + 1) x.val := by rw [hv]; exact onGrid_zero _
      refine ⟨⟨x.s, n + 1, 0⟩, { }, ?_, rfl, by simp only; omega, ?_, by simp [hg]⟩
      · unfold RF.round RF.roundParams RF.roundAtCore RF.split
        simp [hc, h0]
      · rw [(roundVal_eq_iff rm (n + 1) x.val).2 hg, hv]; exact RF.val_mk_zero _ _
    · refine ⟨_, _, Props.C01.round_fixed_correct x n rm hc hle, rfl, by simp only; omega, fixed_val x n rm hle, ?_⟩
      rw [onGrid_iff_mod x n hle]; simp

end Fpy.C01v
