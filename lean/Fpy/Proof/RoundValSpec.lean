/-
Part 2 of the value-level helpers for C01: properties of the specification `Spec.roundVal` for an
arbitrary rational operand (no model involved).
-/
import Fpy.Proof.RoundVal
namespace Fpy.C01v
open Fpy Fpy.Spec

/-- everything `roundInt` does, in units of the grid: `t = q / 2^u`, `lo = ⌊t⌋`, `hi = ⌈t⌉` -/
theorem roundInt_tspace (rm : RM) (u : Int) (q : Rat) :
    ∃ (t : Rat) (lo hi : Int), q = t * (2 : Rat) ^ u ∧
      gridLo u q = (lo : Rat) * (2 : Rat) ^ u ∧ gridHi u q = (hi : Rat) * (2 : Rat) ^ u ∧
      ((hi = lo ∧ t = (lo : Rat)) ∨ (hi = lo + 1 ∧ (lo : Rat) < t ∧ t < (lo : Rat) + 1)) ∧
      (roundInt rm u q = lo ∨ roundInt rm u q = hi) ∧
      (rm = .rtn → roundInt rm u q = lo) ∧ (rm = .rtp → roundInt rm u q = hi) ∧
      (rm = .rtz → roundInt rm u q = if 0 ≤ t then lo else hi) ∧
      (rm = .raz → roundInt rm u q = if 0 ≤ t then hi else lo) ∧
      (rm = .rne ∨ rm = .rna →
        (roundInt rm u q = lo ∧ t - (lo : Rat) ≤ (hi : Rat) - t) ∨
        (roundInt rm u q = hi ∧ (hi : Rat) - t ≤ t - (lo : Rat))) := by
  have hG := RF.two_zpow_pos u
  have hq : q = q / (2 : Rat) ^ u * (2 : Rat) ^ u := (Rat.div_mul_cancel (RF.two_zpow_ne u)).symm
  have h0 : (0 ≤ q) ↔ (0 ≤ q / (2 : Rat) ^ u) := by
    conv => lhs; rw [hq]
    exact nonneg_mul_iff _ _ hG
  refine ⟨q / (2 : Rat) ^ u, (q / (2 : Rat) ^ u).floor, (q / (2 : Rat) ^ u).ceil, hq, rfl, rfl, ?_⟩
  unfold roundInt
  simp only [h0]
  obtain ⟨f1, f2, f3, f4, f5⟩ := fc_facts (q / (2 : Rat) ^ u)
  generalize q / (2 : Rat) ^ u = t at *
  have hint : t = (t.floor : Rat) → t.ceil = t.floor := fun h => by
    rw [h]; simp
  generalize t.floor = lo at *
  generalize t.ceil = hi at *
  rcases f5 with e | e
  · subst e
    have ht : t = (hi : Rat) := Rat.le_antisymm f3 f1
    refine ⟨Or.inl ⟨rfl, ht⟩, ?_⟩
    simp only [if_true, or_self, implies_true, ite_self, true_and, true_or]
    intro _; left; rw [ht]; exact Rat.le_refl
  · have hne : t ≠ (lo : Rat) := fun h => by have := hint h; omega
    have hlt : (lo : Rat) < t := Rat.lt_of_le_of_ne f1 (fun h => hne h.symm)
    subst e
    have hne2 : ¬ (lo = lo + 1) := by omega
    simp only [hne2, if_false, Rat.intCast_add, Rat.intCast_one] at *
    refine ⟨Or.inr ⟨trivial, hlt, f2⟩, ?_, ?_, ?_, ?_, ?_, ?_⟩
    · cases rm <;> simp only [] <;> grind
    · intro h; subst h; rfl
    · intro h; subst h; rfl
    · intro h; subst h; rfl
    · intro h; subst h; rfl
    · rintro (h | h) <;> subst h <;> simp only [] <;> grind

theorem onGrid_roundVal (rm : RM) (u : Int) (q : Rat) : OnGrid u (roundVal rm u q) := ⟨_, rfl⟩
theorem onGrid_gridLo (u : Int) (q : Rat) : OnGrid u (gridLo u q) := ⟨_, rfl⟩
theorem onGrid_gridHi (u : Int) (q : Rat) : OnGrid u (gridHi u q) := ⟨_, rfl⟩

theorem mul_right_cancel_pos {a b G : Rat} (hG : 0 < G) (h : a * G = b * G) : a = b := by
  have := congrArg (· / G) h
  simpa [Rat.mul_div_cancel (Rat.ne_of_gt hG)] using this

/-- the neighbours enclose the operand, are equal or one spacing apart, and the rounding is one of them -/
theorem roundVal_neighbours (rm : RM) (u : Int) (q : Rat) :
    gridLo u q ≤ q ∧ q ≤ gridHi u q ∧
    (gridHi u q = gridLo u q ∨ gridHi u q = gridLo u q + (2 : Rat) ^ u) ∧
    (roundVal rm u q = gridLo u q ∨ roundVal rm u q = gridHi u q) := by
  obtain ⟨t, lo, hi, hq, hlo, hhi, hc, hR, -⟩ := roundInt_tspace rm u q
  have hG := RF.two_zpow_pos u
  unfold roundVal
  rw [hlo, hhi]
  generalize roundInt rm u q = R at *
  conv => enter [1, 2]; rw [hq]
  conv => enter [2, 1, 1]; rw [hq]
  generalize (2 : Rat) ^ u = G at *
  have key : ∀ a b : Rat, a ≤ b → a * G ≤ b * G := fun a b h => Rat.mul_le_mul_of_nonneg_right h (Rat.le_of_lt hG)
  rcases hc with ⟨e, ht⟩ | ⟨e, h1, h2⟩
  · subst e
    refine ⟨key _ _ (by rw [ht]; exact Rat.le_refl), key _ _ (by rw [ht]; exact Rat.le_refl), Or.inl rfl, ?_⟩
    rcases hR with h | h <;> simp [h]
  · subst e
    refine ⟨key _ _ (Rat.le_of_lt h1), key _ _ (by rw [Rat.intCast_add, Rat.intCast_one]; exact Rat.le_of_lt h2), Or.inr ?_, ?_⟩
    · rw [Rat.intCast_add, Rat.intCast_one]; grind
    · rcases hR with h | h <;> simp [h]

/-- the rounding is strictly less than one spacing away -/
theorem roundVal_close (rm : RM) (u : Int) (q : Rat) : (roundVal rm u q - q).abs < (2 : Rat) ^ u := by
  obtain ⟨t, lo, hi, hq, -, -, hc, hR, -⟩ := roundInt_tspace rm u q
  have hG := RF.two_zpow_pos u
  unfold roundVal
  generalize roundInt rm u q = R at *
  rw [hq]
  generalize (2 : Rat) ^ u = G at *
  have e : (R : Rat) * G - t * G = ((R : Rat) - t) * G := by grind
  rw [e, abs_mul_pos _ _ hG]
  have : ((R : Rat) - t).abs < 1 := by
    apply abs_lt_of
    · rcases hc with ⟨e, ht⟩ | ⟨e, h1, h2⟩ <;> subst e <;> rcases hR with h | h <;> subst h <;>
        (try simp only [Rat.intCast_add, Rat.intCast_one]) <;> grind
    · rcases hc with ⟨e, ht⟩ | ⟨e, h1, h2⟩ <;> subst e <;> rcases hR with h | h <;> subst h <;>
        (try simp only [Rat.intCast_add, Rat.intCast_one]) <;> grind
  have := Rat.mul_lt_mul_of_pos_right this hG
  rwa [Rat.one_mul] at this

/-- the rounding returns the operand exactly when the operand is on the grid -/
theorem roundVal_eq_iff (rm : RM) (u : Int) (q : Rat) : roundVal rm u q = q ↔ OnGrid u q := by
  constructor
  · intro h; rw [← h]; exact onGrid_roundVal rm u q
  · rintro ⟨m, hm⟩
    obtain ⟨t, lo, hi, hq, -, -, hc, hR, -⟩ := roundInt_tspace rm u q
    have hG := RF.two_zpow_pos u
    have htm : t = (m : Rat) := mul_right_cancel_pos hG (by rw [← hq, hm])
    unfold roundVal
    rcases hc with ⟨e, ht⟩ | ⟨e, h1, h2⟩
    · rw [e] at hR
      have : roundInt rm u q = lo := by rcases hR with h | h <;> exact h
      rw [this, ← ht, ← hq]
    · exfalso
      rw [htm] at h1 h2
      have a := Rat.intCast_lt_intCast.1 h1
      have b : m < lo + 1 := Rat.intCast_lt_intCast.1 (by rw [Rat.intCast_add, Rat.intCast_one]; exact h2)
      omega

theorem two_zpow_succ (n : Int) : (2 : Rat) ^ (n + 1) = 2 * (2 : Rat) ^ n := by
  rw [RF.two_zpow_add, Rat.zpow_one, Rat.mul_comm]

/-- nearest modes: at most half a spacing away -/
theorem roundVal_nearest_half (rm : RM) (hrm : rm = .rne ∨ rm = .rna) (u : Int) (q : Rat) :
    2 * (roundVal rm u q - q).abs ≤ (2 : Rat) ^ u := by
  obtain ⟨t, lo, hi, hq, -, -, hc, hR, -, -, -, -, hN⟩ := roundInt_tspace rm u q
  have hN := hN hrm
  have hG := RF.two_zpow_pos u
  unfold roundVal
  generalize roundInt rm u q = R at *
  rw [hq]
  generalize (2 : Rat) ^ u = G at *
  have e : (R : Rat) * G - t * G = ((R : Rat) - t) * G := by grind
  rw [e, abs_mul_pos _ _ hG]
  have : 2 * ((R : Rat) - t).abs ≤ 1 := by
    unfold Rat.abs
    rcases hc with ⟨e, ht⟩ | ⟨e, h1, h2⟩ <;> subst e <;> rcases hN with ⟨h, h'⟩ | ⟨h, h'⟩ <;> subst h <;>
      (try simp only [Rat.intCast_add, Rat.intCast_one] at *) <;> split <;> grind
  have := Rat.mul_le_mul_of_nonneg_right this (Rat.le_of_lt hG)
  grind

/-- nearest modes: no grid point is strictly closer -/
theorem roundVal_nearest_best (rm : RM) (hrm : rm = .rne ∨ rm = .rna) (u : Int) (q g : Rat) (hg : OnGrid u g) :
    (roundVal rm u q - q).abs ≤ (g - q).abs := by
  obtain ⟨m, hm⟩ := hg
  obtain ⟨t, lo, hi, hq, -, -, hc, hR, -, -, -, -, hN⟩ := roundInt_tspace rm u q
  have hN := hN hrm
  have hG := RF.two_zpow_pos u
  unfold roundVal
  generalize roundInt rm u q = R at *
  rw [hq, hm]
  generalize (2 : Rat) ^ u = G at *
  have e : (R : Rat) * G - t * G = ((R : Rat) - t) * G := by grind
  have e' : (m : Rat) * G - t * G = ((m : Rat) - t) * G := by grind
  rw [e, e', abs_mul_pos _ _ hG, abs_mul_pos _ _ hG]
  apply Rat.mul_le_mul_of_nonneg_right _ (Rat.le_of_lt hG)
  rcases hc with ⟨e, ht⟩ | ⟨e, h1, h2⟩
  · subst e
    have : (R : Rat) - t = 0 := by rcases hR with h | h <;> subst h <;> grind
    rw [this]; exact Rat.abs_nonneg
  · subst e
    have hm' : (m : Rat) ≤ (lo : Rat) ∨ (lo : Rat) + 1 ≤ (m : Rat) := by
      rcases (by omega : m ≤ lo ∨ lo + 1 ≤ m) with h | h
      · exact Or.inl (Rat.intCast_le_intCast.2 h)
      · right; have := Rat.intCast_le_intCast.2 h; rwa [Rat.intCast_add, Rat.intCast_one] at this
    unfold Rat.abs
    rcases hN with ⟨h, h'⟩ | ⟨h, h'⟩ <;> subst h <;>
      (try simp only [Rat.intCast_add, Rat.intCast_one] at *) <;> split <;> split <;> grind

/-- directed modes -/
theorem roundVal_rtn (u : Int) (q : Rat) : roundVal .rtn u q = gridLo u q := by
  obtain ⟨t, lo, hi, hq, hlo, -, -, -, h, -⟩ := roundInt_tspace .rtn u q
  unfold roundVal; rw [h rfl, hlo]

theorem roundVal_rtp (u : Int) (q : Rat) : roundVal .rtp u q = gridHi u q := by
  obtain ⟨t, lo, hi, hq, -, hhi, -, -, -, h, -⟩ := roundInt_tspace .rtp u q
  unfold roundVal; rw [h rfl, hhi]

theorem int_between (lo : Int) (t : Rat) (h1 : (lo : Rat) < t) (h2 : t < (lo : Rat) + 1) :
    ((0 : Rat) ≤ t → (0 : Rat) ≤ (lo : Rat)) ∧ (t < 0 → (lo : Rat) + 1 ≤ 0) := by
  constructor
  · intro h0
    have : ((0 : Int) : Rat) < ((lo + 1 : Int) : Rat) := by
      rw [Rat.intCast_add, Rat.intCast_one]; simp only [Rat.intCast_zero]; grind
    have := Rat.intCast_lt_intCast.1 this
    have h : (0 : Int) ≤ lo := by omega
    have := Rat.intCast_le_intCast.2 h
    simpa using this
  · intro h0
    have : ((lo : Int) : Rat) < ((0 : Int) : Rat) := by simp only [Rat.intCast_zero]; grind
    have := Rat.intCast_lt_intCast.1 this
    have h : lo + 1 ≤ 0 := by omega
    have := Rat.intCast_le_intCast.2 h
    rw [Rat.intCast_add, Rat.intCast_one] at this
    simpa using this

theorem roundVal_rtz (u : Int) (q : Rat) : (roundVal .rtz u q).abs ≤ q.abs := by
  obtain ⟨t, lo, hi, hq, -, -, hc, -, -, -, h, -⟩ := roundInt_tspace .rtz u q
  have hG := RF.two_zpow_pos u
  unfold roundVal
  rw [h rfl]
  conv => rhs; rw [hq]
  generalize (2 : Rat) ^ u = G at *
  rw [abs_mul_pos _ _ hG, abs_mul_pos _ _ hG]
  apply Rat.mul_le_mul_of_nonneg_right _ (Rat.le_of_lt hG)
  rcases hc with ⟨e, ht⟩ | ⟨e, h1, h2⟩
  · rw [e, ht]; simp only [ite_self]; exact Rat.le_refl
  · obtain ⟨a, b⟩ := int_between lo t h1 h2
    rw [e]
    unfold Rat.abs
    by_cases h0 : (0 : Rat) ≤ t
    · have := a h0
      simp only [h0, if_true, this]; exact Rat.le_of_lt h1
    · have := b (Rat.not_le.1 h0)
      simp only [h0, if_false, Rat.intCast_add, Rat.intCast_one]
      split <;> grind

theorem roundVal_raz (u : Int) (q : Rat) : q.abs ≤ (roundVal .raz u q).abs := by
  obtain ⟨t, lo, hi, hq, -, -, hc, -, -, -, -, h, -⟩ := roundInt_tspace .raz u q
  have hG := RF.two_zpow_pos u
  unfold roundVal
  rw [h rfl]
  conv => lhs; rw [hq]
  generalize (2 : Rat) ^ u = G at *
  rw [abs_mul_pos _ _ hG, abs_mul_pos _ _ hG]
  apply Rat.mul_le_mul_of_nonneg_right _ (Rat.le_of_lt hG)
  rcases hc with ⟨e, ht⟩ | ⟨e, h1, h2⟩
  · rw [e, ht]; simp only [ite_self]; exact Rat.le_refl
  · obtain ⟨a, b⟩ := int_between lo t h1 h2
    rw [e]
    unfold Rat.abs
    by_cases h0 : (0 : Rat) ≤ t
    · have := a h0
      simp only [h0, if_true, Rat.intCast_add, Rat.intCast_one]
      split <;> grind
    · have := b (Rat.not_le.1 h0)
      simp only [h0, if_false]
      split <;> grind

end Fpy.C01v
