/-
C12 — expressions of the source subset evaluate to the same value in the core language and, compiled,
in FPCore under the property set that denotes the active context.
-/
import Fpy.Proof.FPCoreSound
namespace Fpy.C12
open Fpy Fpy.Lang

/-! ### one-step unfoldings of the core-language evaluator -/

theorem evalE_var (Φ : Funs) (n : Nat) (σ : Env) (μ : Heap) (C : Ctx) (x : String) :
    evalE Φ (n + 1) σ μ C (.var x) = (match σ.get? x with | some v => .ok (v, μ) | none => .error .unbound) := by
  simp only [evalE]; cases σ.get? x <;> rfl

theorem evalE_num (Φ : Funs) (n : Nat) (σ : Env) (μ : Heap) (C : Ctx) (v : NV) :
    evalE Φ (n + 1) σ μ C (.num v) = .ok (.num v, μ) := by
  simp only [evalE] <;> rfl

theorem evalE_op (Φ : Funs) (n : Nat) (σ : Env) (μ : Heap) (C : Ctx) (o : Op) (args : List Expr) :
    evalE Φ (n + 1) σ μ C (.op o args) =
      (do let (vs, μ') ← evalEs Φ n σ μ C args
          let ns ← vs.mapM asNum
          let r ← opEval C o (ns.map cvtReal)
          pure (.num r, μ')) := by
  simp only [evalE] <;> rfl

theorem evalE_cmp_cons (Φ : Funs) (n : Nat) (σ : Env) (μ : Heap) (C : Ctx) (ops : List CmpOp) (a : Expr) (rest : List Expr) :
    evalE Φ (n + 1) σ μ C (.cmp ops (a :: rest)) =
      (do let (av, μ1) ← evalE Φ n σ μ C a
          evalChain Φ n σ μ1 C av ops rest) := by
  simp only [evalE] <;> rfl

theorem evalEs_nil (Φ : Funs) (n : Nat) (σ : Env) (μ : Heap) (C : Ctx) :
    evalEs Φ (n + 1) σ μ C [] = .ok ([], μ) := by
  simp only [evalEs] <;> rfl

theorem evalEs_cons (Φ : Funs) (n : Nat) (σ : Env) (μ : Heap) (C : Ctx) (e : Expr) (es : List Expr) :
    evalEs Φ (n + 1) σ μ C (e :: es) =
      (do let (v, μ1) ← evalE Φ n σ μ C e
          let (vs, μ2) ← evalEs Φ n σ μ1 C es
          pure (v :: vs, μ2)) := by
  simp only [evalEs] <;> rfl

theorem evalChain_nil (Φ : Funs) (n : Nat) (σ : Env) (μ : Heap) (C : Ctx) (a : Val) :
    evalChain Φ (n + 1) σ μ C a [] [] = .ok (.bool true, μ) := by
  simp only [evalChain] <;> rfl

theorem evalChain_order (Φ : Funs) (n : Nat) (σ : Env) (μ : Heap) (C : Ctx) (a : Val) (o : COp) (b : Expr) :
    evalChain Φ (n + 1) σ μ C a [o.toCmp] [b] =
      (do let (bv, μ1) ← evalE Φ n σ μ C b
          let x ← asNum a
          let y ← asNum bv
          if cmpHolds o.toCmp (Lang.nvCompare x y) then evalChain Φ n σ μ1 C bv [] [] else pure (.bool false, μ1)) := by
  cases o <;> simp only [evalChain, COp.toCmp, bind, Except.bind, pure, Except.pure] <;>
    (cases evalE Φ n σ μ C b with
     | error e => rfl
     | ok r =>
       simp only []
       cases asNum a with
       | error e => rfl
       | ok x =>
         simp only []
         cases asNum r.1 with
         | error e => rfl
         | ok y => rfl)

/-! ### soundness of the expression translation -/

def ExprOK (Φ : Funs) (fuel : Nat) : Prop :=
  ∀ (e : SExpr) (σ : Env) (μ : Heap) (C : Ctx) (v : Val) (μ' : Heap),
    evalE Φ fuel σ μ C e.toLang = .ok (v, μ') →
    μ' = μ ∧ ∀ (ρ : Env) (P : Props), P.toCtx = .ok C → Agree e.vars ρ σ →
      (∀ x, x ∈ e.vars → isTmp x = false) → Conv ρ P e.toF v

def ExprsOK (Φ : Funs) (fuel : Nat) : Prop :=
  ∀ (es : List SExpr) (σ : Env) (μ : Heap) (C : Ctx) (vs : List Val) (μ' : Heap),
    evalEs Φ fuel σ μ C (SExpr.toLangs es) = .ok (vs, μ') →
    μ' = μ ∧ ∀ (ρ : Env) (P : Props), P.toCtx = .ok C → Agree (SExpr.varsL es) ρ σ →
      (∀ x, x ∈ SExpr.varsL es → isTmp x = false) → ConvL ρ P (SExpr.toFs es) vs

theorem exprs_step (Φ : Funs) (f : Nat) (hE : ExprOK Φ f) (hEs : ExprsOK Φ f) : ExprsOK Φ (f + 1) := by
  intro es σ μ C vs μ' h
  cases es with
  | nil =>
    rw [SExpr.toLangs, evalEs_nil] at h
    cases h
    exact ⟨rfl, fun ρ P _ _ _ => convL_nil⟩
  | cons e es =>
    rw [SExpr.toLangs, evalEs_cons] at h
    cases h1 : evalE Φ f σ μ C e.toLang with
    | error err => rw [h1] at h; cases h
    | ok r1 =>
      obtain ⟨v, μ1⟩ := r1
      rw [h1] at h
      simp only [bind, Except.bind] at h
      cases h2 : evalEs Φ f σ μ1 C (SExpr.toLangs es) with
      | error err => rw [h2] at h; cases h
      | ok r2 =>
        obtain ⟨ws, μ2⟩ := r2
        rw [h2] at h
        simp only [pure, Except.pure] at h
        cases h
        obtain ⟨hm1, c1⟩ := hE e σ _ C v _ h1
        subst hm1
        obtain ⟨hm2, c2⟩ := hEs es σ _ C ws _ h2
        subst hm2
        refine ⟨rfl, fun ρ P hP hA hT => ?_⟩
        have hA1 : Agree e.vars ρ σ := hA.mono (fun x hx => by simp [SExpr.varsL, hx])
        have hA2 : Agree (SExpr.varsL es) ρ σ := hA.mono (fun x hx => by simp [SExpr.varsL, hx])
        exact convL_cons (c1 ρ P hP hA1 (fun x hx => hT x (by simp [SExpr.varsL, hx])))
          (c2 ρ P hP hA2 (fun x hx => hT x (by simp [SExpr.varsL, hx])))

theorem expr_step (Φ : Funs) (f : Nat) (hE : ∀ m, m ≤ f → ExprOK Φ m) (hEs : ExprsOK Φ f) : ExprOK Φ (f + 1) := by
  intro e σ μ C v μ' h
  cases e with
  | var x =>
    rw [SExpr.toLang, evalE_var] at h
    cases hx : σ.get? x with
    | none => rw [hx] at h; cases h
    | some w =>
      rw [hx] at h
      cases h
      refine ⟨rfl, fun ρ P _ hA hT => conv_var ?_⟩
      rw [hA x (by simp [SExpr.vars]) (hT x (by simp [SExpr.vars]))]; exact hx
  | lit v0 =>
    rw [SExpr.toLang, evalE_op] at h
    cases f with
    | zero => simp [evalEs, bind, Except.bind] at h
    | succ g =>
      rw [evalEs_cons] at h
      cases g with
      | zero => simp [evalE, bind, Except.bind] at h
      | succ k =>
        rw [evalE_num] at h
        simp only [bind, Except.bind] at h
        rw [evalEs_nil] at h
        simp only [pure, Except.pure, List.mapM_cons, List.mapM_nil, asNum, bind, Except.bind, List.map] at h
        cases hr : opEval C .round [cvtReal v0] with
        | error err => rw [hr] at h; cases h
        | ok r =>
          rw [hr] at h
          cases h
          exact ⟨rfl, fun ρ P hP _ _ => conv_num hP hr⟩
  | op o args =>
    rw [SExpr.toLang, evalE_op] at h
    cases h1 : evalEs Φ f σ μ C (SExpr.toLangs args) with
    | error err => rw [h1] at h; cases h
    | ok r1 =>
      obtain ⟨vs, μ1⟩ := r1
      rw [h1] at h
      simp only [bind, Except.bind] at h
      cases h2 : vs.mapM asNum with
      | error err => rw [h2] at h; cases h
      | ok ns =>
        rw [h2] at h
        simp only at h
        cases h3 : opEval C o (ns.map cvtReal) with
        | error err => rw [h3] at h; cases h
        | ok r =>
          rw [h3] at h
          simp only [pure, Except.pure] at h
          cases h
          obtain ⟨hm, c⟩ := hEs args σ _ C vs _ h1
          subst hm
          refine ⟨rfl, fun ρ P hP hA hT => ?_⟩
          exact conv_op hP (c ρ P hP (by simpa [SExpr.vars] using hA) (by simpa [SExpr.vars] using hT)) h2 h3
  | cmp o a b =>
    rw [SExpr.toLang, evalE_cmp_cons] at h
    cases h1 : evalE Φ f σ μ C a.toLang with
    | error err => rw [h1] at h; cases h
    | ok r1 =>
      obtain ⟨av, μ1⟩ := r1
      rw [h1] at h
      simp only [bind, Except.bind] at h
      cases f with
      | zero => simp [evalChain] at h
      | succ g =>
        rw [evalChain_order] at h
        cases h2 : evalE Φ g σ μ1 C b.toLang with
        | error err => rw [h2] at h; cases h
        | ok r2 =>
          obtain ⟨bv, μ2⟩ := r2
          rw [h2] at h
          simp only [bind, Except.bind] at h
          obtain ⟨hm1, c1⟩ := hE (g + 1) (Nat.le_refl _) a σ _ C av _ h1
          subst hm1
          obtain ⟨hm2, c2⟩ := hE g (Nat.le_succ _) b σ _ C bv _ h2
          subst hm2
          cases av with
          | num x =>
            cases bv with
            | num y =>
              simp only [asNum] at h
              have hval : v = .bool (cmpHolds o.toCmp (Lang.nvCompare x y)) ∧ μ' = μ2 := by
                cases hc : cmpHolds o.toCmp (Lang.nvCompare x y) with
                | false => rw [hc] at h; simp only [Bool.false_eq_true, if_false, pure, Except.pure] at h; cases h; exact ⟨rfl, rfl⟩
                | true =>
                  rw [hc] at h; simp only [if_true] at h
                  cases g with
                  | zero => simp [evalChain] at h
                  | succ k => rw [evalChain_nil] at h; cases h; exact ⟨rfl, rfl⟩
              obtain ⟨rfl, rfl⟩ := hval
              refine ⟨rfl, fun ρ P hP hA hT => ?_⟩
              have hA1 : Agree a.vars ρ σ := hA.mono (fun z hz => by simp [SExpr.vars, hz])
              have hA2 : Agree b.vars ρ σ := hA.mono (fun z hz => by simp [SExpr.vars, hz])
              have := conv_cmp (o := o.toCmp) (c1 ρ P hP hA1 (fun z hz => hT z (by simp [SExpr.vars, hz])))
                (c2 ρ P hP hA2 (fun z hz => hT z (by simp [SExpr.vars, hz])))
              rw [cmpNums_order] at this
              simpa [SExpr.toF] using this
            | bool _ => simp [asNum] at h
            | ctx _ => simp [asNum] at h
            | tuple _ => simp [asNum] at h
            | list _ => simp [asNum] at h
          | bool _ => simp [asNum] at h
          | ctx _ => simp [asNum] at h
          | tuple _ => simp [asNum] at h
          | list _ => simp [asNum] at h

theorem expr_sound_all (Φ : Funs) : ∀ n fuel, fuel ≤ n → ExprOK Φ fuel ∧ ExprsOK Φ fuel := by
  intro n
  induction n with
  | zero =>
    intro fuel hf
    have : fuel = 0 := by omega
    subst this
    exact ⟨fun e σ μ C v μ' h => by simp [evalE] at h, fun es σ μ C vs μ' h => by simp [evalEs] at h⟩
  | succ n ih =>
    intro fuel hf
    by_cases hle : fuel ≤ n
    · exact ih fuel hle
    · have : fuel = n + 1 := by omega
      subst this
      exact ⟨expr_step Φ n (fun m hm => (ih m hm).1) (ih n (Nat.le_refl _)).2,
             exprs_step Φ n (ih n (Nat.le_refl _)).1 (ih n (Nat.le_refl _)).2⟩

theorem expr_sound (Φ : Funs) (fuel : Nat) : ExprOK Φ fuel := (expr_sound_all Φ fuel fuel (Nat.le_refl _)).1

end Fpy.C12
