/-
C12 (round 2) — the reader's counter of fresh names never decreases (syntactic).
-/
import Fpy.Proof.FPCoreReadBinds
set_option linter.unusedSimpArgs false
set_option linter.unusedVariables false
set_option linter.unusedSectionVars false
namespace Fpy.C12
open Fpy Fpy.Lang

section
variable (nm : Nat → String)

theorem readE_pure {k : Nat} {m : RMap} {e : FExpr} {ss : List Stmt} {r : Expr} {k' : Nat}
    (h : (readP m e).map (fun r => (([] : List Stmt), r, k)) = some (ss, r, k')) : k ≤ k' := by
  simp only [Option.map_eq_some_iff, Prod.mk.injEq] at h
  obtain ⟨_, _, _, _, rfl⟩ := h
  exact Nat.le_refl _

mutual
theorem readE_mono : ∀ (e : FExpr) (k : Nat) (m : RMap) (P : Props) (ss : List Stmt) (r : Expr) (k' : Nat),
    readE nm k m P e = some (ss, r, k') → k ≤ k'
  | .ite c t f, k, m, P, ss, r, k', h => by
    simp only [readE] at h
    cases hc : readP m c with
    | none => rw [hc] at h; simp at h
    | some c' =>
      cases ht : readE nm k m P t with
      | none => rw [hc, ht] at h; simp at h
      | some rt =>
        obtain ⟨st, et, k1⟩ := rt
        rw [hc, ht] at h
        simp only at h
        cases hf : readE nm k1 m P f with
        | none => rw [hf] at h; cases h
        | some rf =>
          obtain ⟨sf, ef, k2⟩ := rf
          rw [hf] at h
          simp only [Option.some.injEq, Prod.mk.injEq] at h
          obtain ⟨_, _, rfl⟩ := h
          have h1 := readE_mono t k m P st et k1 ht
          have h2 := readE_mono f k1 m P sf ef k2 hf
          omega
  | .let_ star binds body, k, m, P, ss, r, k', h => by
    simp only [readE] at h
    cases hb : readBinds nm star k m m P binds with
    | none => rw [hb] at h; cases h
    | some rb =>
      obtain ⟨s1, m', k1⟩ := rb
      rw [hb] at h
      simp only at h
      cases he : readE nm k1 m' P body with
      | none => rw [he] at h; cases h
      | some re =>
        obtain ⟨s2, r2, k2⟩ := re
        rw [he] at h
        simp only [Option.some.injEq, Prod.mk.injEq] at h
        obtain ⟨_, _, rfl⟩ := h
        have h1 := readBinds_mono binds star k m m P s1 m' k1 hb
        have h2 := readE_mono body k1 m' P s2 r2 k2 he
        omega
  | .ann p e, k, m, P, ss, r, k', h => by
    simp only [readE] at h
    cases he : readE nm k m (P.update p) e with
    | none => rw [he] at h; simp at h
    | some re =>
      obtain ⟨s, r1, k1⟩ := re
      rw [he] at h
      cases hC : (P.update p).toCtx with
      | error err => rw [hC] at h; simp at h
      | ok C' =>
        rw [hC] at h
        simp only [Option.some.injEq, Prod.mk.injEq] at h
        obtain ⟨_, _, rfl⟩ := h
        have := readE_mono e k m (P.update p) s r1 k1 he
        omega
  | .while_ star c binds body, k, m, P, ss, r, k', h => by
    simp only [readE] at h
    split at h
    · cases h
    · cases hi : readInits nm star k m m P binds with
      | none => rw [hi] at h; cases h
      | some ri =>
        obtain ⟨si, m1, k1⟩ := ri
        rw [hi] at h
        simp only at h
        cases hc : readP m1 c with
        | none => rw [hc] at h; cases h
        | some c' =>
          rw [hc] at h
          simp only at h
          have h1 := readInits_mono binds star k m m P si m1 k1 hi
          cases star with
          | true =>
            simp only [if_true] at h
            cases hu : readUpdStar nm k1 m1 P binds with
            | none => rw [hu] at h; cases h
            | some ru =>
              obtain ⟨su, k2⟩ := ru
              rw [hu] at h
              simp only at h
              cases hb : readE nm k2 m1 P body with
              | none => rw [hb] at h; cases h
              | some rb =>
                obtain ⟨sb, rb', k3⟩ := rb
                rw [hb] at h
                simp only [Option.some.injEq, Prod.mk.injEq] at h
                obtain ⟨_, _, rfl⟩ := h
                have h2 := readUpdStar_mono binds k1 m1 P su k2 hu
                have h3 := readE_mono body k2 m1 P sb rb' k3 hb
                omega
          | false =>
            simp only [Bool.false_eq_true, if_false] at h
            cases hu : readUpdTmpGo nm k1 m1 P binds with
            | none => rw [hu] at h; cases h
            | some ru =>
              obtain ⟨su, rebinds, k2⟩ := ru
              rw [hu] at h
              simp only [Option.map] at h
              cases hb : readE nm k2 m1 P body with
              | none => rw [hb] at h; cases h
              | some rb =>
                obtain ⟨sb, rb', k3⟩ := rb
                rw [hb] at h
                simp only [Option.some.injEq, Prod.mk.injEq] at h
                obtain ⟨_, _, rfl⟩ := h
                have h2 := readUpdTmpGo_mono binds k1 m1 P su rebinds k2 hu
                have h3 := readE_mono body k2 m1 P sb rb' k3 hb
                omega
  | .var _, k, m, P, ss, r, k', h => by simp only [readE] at h; exact readE_pure h
  | .num _, k, m, P, ss, r, k', h => by simp only [readE] at h; exact readE_pure h
  | .const _, k, m, P, ss, r, k', h => by simp only [readE] at h; exact readE_pure h
  | .op _ _, k, m, P, ss, r, k', h => by simp only [readE] at h; exact readE_pure h
  | .pred _ _, k, m, P, ss, r, k', h => by simp only [readE] at h; exact readE_pure h
  | .cmp _ _, k, m, P, ss, r, k', h => by simp only [readE] at h; exact readE_pure h
  | .and _, k, m, P, ss, r, k', h => by simp only [readE] at h; exact readE_pure h
  | .or _, k, m, P, ss, r, k', h => by simp only [readE] at h; exact readE_pure h
  | .not _, k, m, P, ss, r, k', h => by simp only [readE] at h; exact readE_pure h
  | .for_ _ _ _ _, k, m, P, ss, r, k', h => by simp only [readE] at h; exact readE_pure h
  | .tensor _ _, k, m, P, ss, r, k', h => by simp only [readE] at h; exact readE_pure h
  | .array _, k, m, P, ss, r, k', h => by simp only [readE] at h; exact readE_pure h
  | .ref _ _, k, m, P, ss, r, k', h => by simp only [readE] at h; exact readE_pure h
  | .size _ _, k, m, P, ss, r, k', h => by simp only [readE] at h; exact readE_pure h
  | .dim _, k, m, P, ss, r, k', h => by simp only [readE] at h; exact readE_pure h
theorem readBinds_mono : ∀ (binds : List (String × FExpr)) (star : Bool) (k : Nat) (m0 acc : RMap) (P : Props)
    (ss : List Stmt) (m' : RMap) (k' : Nat), readBinds nm star k m0 acc P binds = some (ss, m', k') → k ≤ k'
  | [], star, k, m0, acc, P, ss, m', k', h => by
    simp only [readBinds, Option.some.injEq, Prod.mk.injEq] at h
    obtain ⟨_, _, rfl⟩ := h
    exact Nat.le_refl _
  | (x, e) :: rest, star, k, m0, acc, P, ss, m', k', h => by
    simp only [readBinds] at h
    cases he : readE nm k (if star then acc else m0) P e with
    | none => rw [he] at h; cases h
    | some re =>
      obtain ⟨s, r, k1⟩ := re
      rw [he] at h
      simp only at h
      cases hr : readBinds nm star (k1 + 1) m0 ((x, nm k1) :: acc) P rest with
      | none => rw [hr] at h; cases h
      | some rr =>
        obtain ⟨s2, m2, k2⟩ := rr
        rw [hr] at h
        simp only [Option.some.injEq, Prod.mk.injEq] at h
        obtain ⟨_, _, rfl⟩ := h
        have h1 := readE_mono e k _ P s r k1 he
        have h2 := readBinds_mono rest star (k1 + 1) m0 _ P s2 m2 k2 hr
        omega
theorem readInits_mono : ∀ (binds : List (String × FExpr × FExpr)) (star : Bool) (k : Nat) (m0 acc : RMap) (P : Props)
    (ss : List Stmt) (m' : RMap) (k' : Nat), readInits nm star k m0 acc P binds = some (ss, m', k') → k ≤ k'
  | [], star, k, m0, acc, P, ss, m', k', h => by
    simp only [readInits, Option.some.injEq, Prod.mk.injEq] at h
    obtain ⟨_, _, rfl⟩ := h
    exact Nat.le_refl _
  | (x, i, u) :: rest, star, k, m0, acc, P, ss, m', k', h => by
    simp only [readInits] at h
    cases he : readE nm k (if star then acc else m0) P i with
    | none => rw [he] at h; cases h
    | some re =>
      obtain ⟨s, r, k1⟩ := re
      rw [he] at h
      simp only at h
      cases hr : readInits nm star (k1 + 1) m0 ((x, nm k1) :: acc) P rest with
      | none => rw [hr] at h; cases h
      | some rr =>
        obtain ⟨s2, m2, k2⟩ := rr
        rw [hr] at h
        simp only [Option.some.injEq, Prod.mk.injEq] at h
        obtain ⟨_, _, rfl⟩ := h
        have h1 := readE_mono i k _ P s r k1 he
        have h2 := readInits_mono rest star (k1 + 1) m0 _ P s2 m2 k2 hr
        omega
theorem readUpdStar_mono : ∀ (binds : List (String × FExpr × FExpr)) (k : Nat) (m1 : RMap) (P : Props)
    (ss : List Stmt) (k' : Nat), readUpdStar nm k m1 P binds = some (ss, k') → k ≤ k'
  | [], k, m1, P, ss, k', h => by
    simp only [readUpdStar, Option.some.injEq, Prod.mk.injEq] at h
    obtain ⟨_, rfl⟩ := h
    exact Nat.le_refl _
  | (x, i, u) :: rest, k, m1, P, ss, k', h => by
    simp only [readUpdStar] at h
    cases he : readE nm k m1 P u with
    | none => rw [he] at h; simp at h
    | some re =>
      obtain ⟨s, r, k1⟩ := re
      cases hy : m1.get? x with
      | none => rw [he, hy] at h; simp at h
      | some y =>
        rw [he, hy] at h
        simp only at h
        cases hr : readUpdStar nm k1 m1 P rest with
        | none => rw [hr] at h; cases h
        | some rr =>
          obtain ⟨s2, k2⟩ := rr
          rw [hr] at h
          simp only [Option.some.injEq, Prod.mk.injEq] at h
          obtain ⟨_, rfl⟩ := h
          have h1 := readE_mono u k m1 P s r k1 he
          have h2 := readUpdStar_mono rest k1 m1 P s2 k2 hr
          omega
theorem readUpdTmpGo_mono : ∀ (binds : List (String × FExpr × FExpr)) (k : Nat) (m1 : RMap) (P : Props)
    (ss rebinds : List Stmt) (k' : Nat), readUpdTmpGo nm k m1 P binds = some (ss, rebinds, k') → k ≤ k'
  | [], k, m1, P, ss, rebinds, k', h => by
    simp only [readUpdTmpGo, Option.some.injEq, Prod.mk.injEq] at h
    obtain ⟨_, _, rfl⟩ := h
    exact Nat.le_refl _
  | (x, i, u) :: rest, k, m1, P, ss, rebinds, k', h => by
    simp only [readUpdTmpGo] at h
    cases he : readE nm k m1 P u with
    | none => rw [he] at h; simp at h
    | some re =>
      obtain ⟨s, r, k1⟩ := re
      cases hy : m1.get? x with
      | none => rw [he, hy] at h; simp at h
      | some y =>
        rw [he, hy] at h
        simp only at h
        cases hr : readUpdTmpGo nm (k1 + 1) m1 P rest with
        | none => rw [hr] at h; cases h
        | some rr =>
          obtain ⟨s2, rb2, k2⟩ := rr
          rw [hr] at h
          simp only [Option.some.injEq, Prod.mk.injEq] at h
          obtain ⟨_, _, rfl⟩ := h
          have h1 := readE_mono u k m1 P s r k1 he
          have h2 := readUpdTmpGo_mono rest (k1 + 1) m1 P s2 rb2 k2 hr
          omega
end

end
end Fpy.C12
