/-
Part 4 of the value-level helpers for C01: the two grid neighbours used by the float shape are
themselves members of the format and ADJACENT in it (no member lies strictly between them), hence
"one of the two nearest representable neighbours"; nearest modes minimise the distance over the
whole format.
-/
import Fpy.Proof.RoundValRF
namespace Fpy.C01v
open Fpy Fpy.Spec

theorem rat_lt_of_lt_of_le {a b c : Rat} (h1 : a < b) (h2 : b ≤ c) : a < c := by grind
theorem rat_lt_trans {a b c : Rat} (h1 : a < b) (h2 : b < c) : a < c := by grind

/-- an integer of magnitude at most `2^p` times a power of two is a `p`-digit float (`p ≥ 1`) -/
theorem repFloat_int_mul (p : Nat) (hp : 1 ≤ p) (M : Int) (u : Int) (h : M.natAbs ≤ 2 ^ p) :
    RepFloat p ((M : Rat) * (2 : Rat) ^ u) := by
  by_cases h' : M.natAbs < 2 ^ p
  · exact Or.inr ⟨M, u, rfl, h'⟩
  · have he : M.natAbs = 2 ^ p := by omega
    have h1 : (1 : Nat) < 2 ^ p := by
      have := Nat.pow_le_pow_right (by decide : 1 ≤ 2) hp; simp at this; omega
    have hM : M = (2 : Int) ^ p ∨ M = -((2 : Int) ^ p) := by
      have : ((2 ^ p : Nat) : Int) = (2 : Int) ^ p := by simp
      omega
    rcases hM with hM | hM
    · refine Or.inr ⟨1, (p : Int) + u, ?_, by simpa using h1⟩
      rw [hM, RF.two_zpow_add, RF.two_zpow_nat']; simp [Rat.mul_assoc]
    · refine Or.inr ⟨-1, (p : Int) + u, ?_, by simpa using h1⟩
      rw [hM, RF.two_zpow_add, RF.two_zpow_nat', Rat.intCast_neg]; simp [Rat.mul_assoc, Rat.neg_mul]

theorem floatN_ge (x : RF) (p : Nat) (minN : Option Int) : x.e - p ≤ floatN x p minN := by
  unfold floatN; cases minN <;> simp <;> omega

theorem floatN_cases (x : RF) (p : Nat) (minN : Option Int) :
    (floatN x p minN = x.e - p ∧ ∀ nmin, minN = some nmin → nmin ≤ x.e - p) ∨
    (∃ nmin, minN = some nmin ∧ floatN x p minN = nmin) := by
  unfold floatN
  cases minN with
  | none => left; simp
  | some m =>
    by_cases h : m ≤ x.e - p
    · left; refine ⟨by simp; omega, ?_⟩; intro nmin e; cases e; exact h
    · right; exact ⟨m, rfl, by simp; omega⟩

theorem floatN_ge_nmin (x : RF) (p : Nat) (nmin : Int) : nmin ≤ floatN x p (some nmin) := by
  unfold floatN; simp; omega

/-- **Neighbours.**  For a non-zero operand the lower and upper grid neighbours at the rounding
position of the float shape are members of the format, and no member lies strictly between
them. -/
theorem float_neighbours (x : RF) (p : Nat) (minN : Option Int) (hc : x.c ≠ 0) (hp : 1 ≤ p) :
    RepIn p minN (gridLo (floatN x p minN + 1) x.val) ∧ RepIn p minN (gridHi (floatN x p minN + 1) x.val) ∧
    ∀ z, RepIn p minN z →
      ¬ (gridLo (floatN x p minN + 1) x.val < z ∧ z < gridHi (floatN x p minN + 1) x.val) := by
  have hge := floatN_ge x p minN
  have hcs := floatN_cases x p minN
  have hnm : ∀ nmin, minN = some nmin → nmin ≤ floatN x p minN := by
    intro nmin e; subst e; exact floatN_ge_nmin x p nmin
  generalize floatN x p minN = n at *
  obtain ⟨t, lo, hi, hq, hlo, hhi, hcase, -⟩ := roundInt_tspace .rtz (n + 1) x.val
  rw [hlo, hhi]
  have hG := RF.two_zpow_pos (n + 1)
  -- |t| < 2^p
  have hup := val_abs_lt x
  have hlow := val_abs_ge x hc
  have e1 : (2 : Rat) ^ (x.e + 1) ≤ (2 : Rat) ^ ((p : Int) + (n + 1)) := zpow_le_of_le (by omega)
  rw [RF.two_zpow_add (p : Int) (n + 1), RF.two_zpow_nat'] at e1
  rw [hq, abs_mul_pos _ _ hG] at hup hlow
  have htlt : t.abs < (((2 : Int) ^ p : Int) : Rat) :=
    (Rat.mul_lt_mul_right hG).1 (rat_lt_of_lt_of_le hup e1)
  have ht1 : -(((2 : Int) ^ p : Int) : Rat) < t := by unfold Rat.abs at htlt; split at htlt <;> grind
  have ht2 : t < (((2 : Int) ^ p : Int) : Rat) := by unfold Rat.abs at htlt; split at htlt <;> grind
  have hPpos : (0 : Int) < (2 : Int) ^ p := Int.pow_pos (by decide)
  have hPnat : (((2 : Int) ^ p : Int)).natAbs = 2 ^ p := by
    have : ((2 ^ p : Nat) : Int) = (2 : Int) ^ p := by simp
    omega
  -- integer bounds on lo, hi
  have hb : -((2 : Int) ^ p) ≤ lo ∧ lo < (2 : Int) ^ p ∧ -((2 : Int) ^ p) ≤ hi ∧ hi ≤ (2 : Int) ^ p := by
    rcases hcase with ⟨e, htl⟩ | ⟨e, h1, h2⟩
    · rw [htl] at ht1 ht2
      have a := Rat.intCast_lt_intCast.1 (by rw [Rat.intCast_neg]; exact ht1 : ((-((2 : Int) ^ p) : Int) : Rat) < (lo : Rat))
      have b := Rat.intCast_lt_intCast.1 ht2
      omega
    · have a : -((2 : Int) ^ p) < lo + 1 := Rat.intCast_lt_intCast.1 (by
        rw [Rat.intCast_neg, Rat.intCast_add, Rat.intCast_one]; grind)
      have b : lo < (2 : Int) ^ p := Rat.intCast_lt_intCast.1 (by grind)
      omega
  have hgl : ∀ M : Int, OnGrid (n + 1) ((M : Rat) * (2 : Rat) ^ (n + 1)) := fun M => ⟨M, rfl⟩
  have hmem : ∀ M : Int, -((2 : Int) ^ p) ≤ M → M ≤ (2 : Int) ^ p → RepIn p minN ((M : Rat) * (2 : Rat) ^ (n + 1)) := by
    intro M h1 h2
    refine ⟨repFloat_int_mul p hp M (n + 1) (by omega), ?_⟩
    intro nmin e
    exact onGrid_mono (by have := hnm nmin e; omega) (hgl M)
  refine ⟨hmem lo hb.1 (by omega), hmem hi hb.2.2.1 hb.2.2.2, ?_⟩
  intro z ⟨hzf, hzg⟩ ⟨hz1, hz2⟩
  rcases hcase with ⟨e, -⟩ | ⟨e, h1, h2⟩
  · rw [e] at hz2; exact absurd (rat_lt_trans hz1 hz2) Rat.lt_irrefl
  · rw [e] at hz2
    apply no_grid_between (n + 1) lo z _ ⟨hz1, hz2⟩
    rcases hcs with ⟨hn, -⟩ | ⟨nmin, hm, hn⟩
    · -- n = e - p: use the binade
      have hu : n + 1 = x.e - p + 1 := by omega
      rw [hu]
      apply rep_float_on_grid p x.e z hzf
      -- 2^e = 2^(p-1) · G
      have e2 : (2 : Rat) ^ x.e = (((2 : Int) ^ (p - 1) : Int) : Rat) * (2 : Rat) ^ (n + 1) := by
        have : x.e = ((p - 1 : Nat) : Int) + (n + 1) := by omega
        rw [this, RF.two_zpow_add, RF.two_zpow_nat']
      rw [e2] at hlow ⊢
      have hPt : (((2 : Int) ^ (p - 1) : Int) : Rat) ≤ t.abs := Rat.le_of_mul_le_mul_right hlow hG
      generalize (2 : Int) ^ (p - 1) = P at *
      generalize (2 : Rat) ^ (n + 1) = G at *
      by_cases ht0 : 0 ≤ t
      · rw [Rat.abs_of_nonneg ht0] at hPt
        have a : P < lo + 1 := Rat.intCast_lt_intCast.1 (by rw [Rat.intCast_add, Rat.intCast_one]; grind)
        have b : (P : Rat) ≤ (lo : Rat) := Rat.intCast_le_intCast.2 (by omega)
        have c := Rat.mul_le_mul_of_nonneg_right b (Rat.le_of_lt hG)
        have d : (P : Rat) * G ≤ z := Rat.le_trans c (Rat.le_of_lt hz1)
        unfold Rat.abs; split <;> grind
      · rw [Rat.abs_of_nonpos (Rat.le_of_lt (Rat.not_le.1 ht0))] at hPt
        have a : lo < -P := Rat.intCast_lt_intCast.1 (by rw [Rat.intCast_neg]; grind)
        have b : ((lo + 1 : Int) : Rat) ≤ ((-P : Int) : Rat) := Rat.intCast_le_intCast.2 (by omega)
        have c := Rat.mul_le_mul_of_nonneg_right b (Rat.le_of_lt hG)
        rw [Rat.intCast_neg, Rat.neg_mul] at c
        have d : z < -((P : Rat) * G) := rat_lt_of_lt_of_le hz2 c
        unfold Rat.abs; split <;> grind
    · rw [hn]; exact hzg nmin hm

/-- nearest modes: no member of the format is strictly closer to the operand than the rounding -/
theorem float_nearest (x : RF) (p : Nat) (minN : Option Int) (rm : RM) (hrm : rm = .rne ∨ rm = .rna)
    (hc : x.c ≠ 0) (hp : 1 ≤ p) (z : Rat) (hz : RepIn p minN z) :
    (roundVal rm (floatN x p minN + 1) x.val - x.val).abs ≤ (z - x.val).abs := by
  obtain ⟨-, -, hbet⟩ := float_neighbours x p minN hc hp
  have hb := hbet z hz
  obtain ⟨h1, h2, -, -⟩ := roundVal_neighbours rm (floatN x p minN + 1) x.val
  have b1 := roundVal_nearest_best rm hrm (floatN x p minN + 1) x.val _ (onGrid_gridLo (floatN x p minN + 1) x.val)
  have b2 := roundVal_nearest_best rm hrm (floatN x p minN + 1) x.val _ (onGrid_gridHi (floatN x p minN + 1) x.val)
  generalize gridLo (floatN x p minN + 1) x.val = lo at *
  generalize gridHi (floatN x p minN + 1) x.val = hi at *
  generalize roundVal rm (floatN x p minN + 1) x.val = y at *
  generalize x.val = v at *
  have hz' : z ≤ lo ∨ hi ≤ z := by grind
  unfold Rat.abs at *
  grind

end Fpy.C01v
