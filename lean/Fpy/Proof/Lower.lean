/-
Helper lemmas for C10 (rounding-lowering rewrites): the number identities behind
`float_to_fixed`, `rescale_fixed`, `unfold_overflow`, `unfold_neg_zero`, `unfold_special`.
Core Lean only.
-/
import Fpy.Proof.RoundOdd
import Fpy.Proof.RFOrder
import Fpy.Proof.EngineLemmas
import Fpy.Model.Lower
import Fpy.Spec.Lower
namespace Fpy.C10
open Fpy Fpy.Spec

/-! ### comparison respects the denoted number -/

theorem eqV_refl (x : RF) : x.eqV x := by unfold RF.eqV; rfl

theorem compare_congr_left (x x' y : RF) (h : x.eqV x') : x.compare y = x'.compare y := by
  let g := min (min x.exp x'.exp) y.exp
  have hx : x.okAt g := Or.inr (by omega)
  have hx' : x'.okAt g := Or.inr (by omega)
  have hy : y.okAt g := Or.inr (by omega)
  rw [RF.compare_spec x y g hx hy, RF.compare_spec x' y g hx' hy, (RF.eqV_iff x x' g hx hx').1 h]

theorem gt_congr_left (x x' y : RF) (h : x.eqV x') : x.gt y = x'.gt y := by
  unfold RF.gt; rw [compare_congr_left x x' y h]

theorem lt_congr_left (x x' y : RF) (h : x.eqV x') : x.lt y = x'.lt y := by
  unfold RF.lt; rw [compare_congr_left x x' y h]

/-! ### `float_to_fixed`: float rounding is fixed-point rounding at the position it chose -/

/-- the digit position a float rounding with `p` digits and least position `minN` rounds `x` at
(`RealFloat._round_params`) -/
def floatPos (x : RF) (p : Nat) (minN : Option Int) : Int :=
  match minN with | none => x.e - p | some m => max m (x.e - p)

theorem quot_lt_pow (x : RF) (p : Nat) (n : Int) (hn : x.e - p ≤ n) (hle : x.exp ≤ n) :
    x.c / 2 ^ (n + 1 - x.exp).toNat < 2 ^ p := by
  generalize hk : (n + 1 - x.exp).toNat = k
  have hG : 0 < 2 ^ k := Nat.pow_pos (by decide)
  have h1 : x.c < 2 ^ (bitLength x.c) := (bitLength_le_iff _ _).1 (Nat.le_refl _)
  have h2 : bitLength x.c ≤ p + k := by unfold RF.e RF.p at hn; omega
  have h3 : x.c < 2 ^ (p + k) := Nat.lt_of_lt_of_le h1 (Nat.pow_le_pow_right (by decide) h2)
  rw [Nat.pow_add] at h3
  exact (Nat.div_lt_iff_lt_mul hG).2 h3

/-- a carry into the next binade is the same number re-normalised -/
theorem normQ_eqV (s : Bool) (n : Int) (p Q : Nat) (hp : 1 ≤ p) (hQ : Q ≤ 2 ^ p) :
    (normQ s n p Q).eqV ⟨s, n + 1, Q⟩ := by
  unfold normQ
  by_cases h : bitLength Q > p
  · have hQ2 : Q = 2 ^ p := by
      have := (bitLength_le_iff Q p)
      have h' : ¬ Q < 2 ^ p := fun hh => by have := this.2 hh; omega
      omega
    rw [if_pos h]
    have hg : (⟨s, n + 2, Q / 2⟩ : RF).okAt (n + 1) := Or.inr (by show n + 1 ≤ n + 2; omega)
    have hg' : (⟨s, n + 1, Q⟩ : RF).okAt (n + 1) := Or.inr (by show n + 1 ≤ n + 1; omega)
    rw [RF.eqV_iff _ _ (n + 1) hg hg']
    unfold RF.sc
    simp only
    have e1 : (n + 2 - (n + 1)).toNat = 1 := by omega
    have e2 : (n + 1 - (n + 1)).toNat = 0 := by omega
    rw [e1, e2, hQ2, two_pow_pred p hp, Nat.mul_div_cancel_left _ (by decide : 0 < 2)]
    generalize 2 ^ (p - 1) = H
    cases s <;> simp [Int.natCast_mul] <;> omega
  · rw [if_neg h]; exact eqV_refl _

/-- **Float rounding = fixed-point rounding at the position the float rounding chose.**
For a non-zero operand, `p ≥ 1` digits and any least position: both roundings succeed, keep the
sign, return the same number (a carry is the same number re-normalised) and the same `inexact`. -/
theorem float_fixed_round (x : RF) (p : Nat) (minN : Option Int) (rm : RM) (hc : x.c ≠ 0) (hp : 1 ≤ p) :
    ∃ y fl y' fl', x.round (some p) minN rm = .ok (y, fl) ∧
      x.round none (some (floatPos x p minN)) rm = .ok (y', fl') ∧
      y.s = x.s ∧ y'.s = x.s ∧ y.eqV y' ∧ fl.inexact = fl'.inexact ∧ fl.overflow = false ∧ fl'.overflow = false := by
  have hn : x.e - p ≤ floatPos x p minN := by
    unfold floatPos; cases minN <;> simp <;> omega
  have hfl : ∃ em, x.round (some p) minN rm = x.roundAtCore (some p) (floatPos x p minN) em rm false := by
    unfold RF.round RF.roundParams floatPos
    cases minN with
    | none => exact ⟨none, by simp⟩
    | some m => exact ⟨some ((p : Int) + m), by simp⟩
  obtain ⟨em, hfl⟩ := hfl
  have hfx : x.round none (some (floatPos x p minN)) rm = x.roundAtCore none (floatPos x p minN) none rm false := by
    unfold RF.round RF.roundParams; simp
  rw [hfl, hfx]
  generalize floatPos x p minN = n at *
  by_cases h0 : x.exp > n
  · obtain ⟨y, fl, h1, _, _, _, h5, _⟩ := roundAtCore_prec x p n em rm hc hp hn
    obtain ⟨hy, hi⟩ := h5 h0
    obtain ⟨fl', h2, hi'⟩ := roundAtCore_above x n none rm false h0
    refine ⟨y, fl, x, fl', h1, h2, by rw [hy], rfl, by rw [hy]; exact eqV_refl _, by rw [hi, hi'], ?_, ?_⟩
    · unfold RF.roundAtCore at h1
      have hfit : x.p ≤ p := by unfold RF.e at hn; omega
      simp [h0, hfit] at h1; rw [← h1.2]
    · unfold RF.roundAtCore at h2
      simp [h0] at h2; rw [← h2]
  · have hle : x.exp ≤ n := by omega
    obtain ⟨fl, h1, hi, ho⟩ := roundAtCore_prec_val x p n em rm hc hp hn hle
    have h2 := roundAtCore_fixed x n rm hc hle
    have hq := quot_lt_pow x p n hn hle
    have hQ : roundQuot rm x.s x.c (n + 1 - x.exp).toNat ≤ 2 ^ p := by
      rcases roundQuot_neighbour rm x.s x.c (n + 1 - x.exp).toNat with h | h <;> omega
    refine ⟨_, fl, _, _, h1, h2, ?_, rfl, normQ_eqV _ _ _ _ hp hQ, by rw [hi], ho, rfl⟩
    unfold normQ; split <;> rfl

/-! ### `rescale_fixed`: rounding commutes with a power-of-two shift -/

theorem shift_shift (x : RF) (k : Int) : shiftRF (shiftRF x k) (-k) = x := by
  cases x; simp [shiftRF, Int.add_neg_cancel_right]

theorem sc_shift_eq (x : RF) (g k : Int) : (shiftRF x k).sc (g + k) = x.sc g := by
  unfold RF.sc shiftRF
  have : (x.exp + k - (g + k)).toNat = (x.exp - g).toNat := by omega
  simp only [this]

theorem okAt_shift {x : RF} {g : Int} (h : x.okAt g) (k : Int) : (shiftRF x k).okAt (g + k) := by
  rcases h with h | h
  · exact Or.inl h
  · exact Or.inr (by show g + k ≤ x.exp + k; omega)

theorem compare_shift (x y : RF) (k : Int) : (shiftRF x k).compare (shiftRF y k) = x.compare y := by
  have hx : x.okAt (min x.exp y.exp) := RF.okAt_min_left x y
  have hy : y.okAt (min x.exp y.exp) := RF.okAt_min_right x y
  rw [RF.compare_spec x y _ hx hy, RF.compare_spec _ _ _ (okAt_shift hx k) (okAt_shift hy k), sc_shift_eq, sc_shift_eq]

theorem gt_shift (x y : RF) (k : Int) : (shiftRF x k).gt (shiftRF y k) = x.gt y := by
  unfold RF.gt; rw [compare_shift]

theorem lt_shift (x y : RF) (k : Int) : (shiftRF x k).lt (shiftRF y k) = x.lt y := by
  unfold RF.lt; rw [compare_shift]

theorem eqV_zero (a b : RF) (ha : a.c = 0) (hb : b.c = 0) : a.eqV b := by
  unfold RF.eqV; rw [RF.sc_zero _ _ ha, RF.sc_zero _ _ hb]

/-- **Shift invariance of the fixed-point rounding core**: rounding `x · 2^j` at position `n + j` is
`2^j` times rounding `x` at position `n`, with the same flags (all of them), for every mode. -/
theorem round_fixed_shift (x : RF) (n j : Int) (rm : RM) (hc : x.c ≠ 0) :
    (shiftRF x j).round none (some (n + j)) rm =
      (match x.round none (some n) rm with
       | .ok (y, fl) => .ok (shiftRF y j, fl)
       | .error e => .error e) := by
  have e1 : (shiftRF x j).round none (some (n + j)) rm = (shiftRF x j).roundAtCore none (n + j) none rm false := by
    unfold RF.round RF.roundParams; simp
  have e2 : x.round none (some n) rm = x.roundAtCore none n none rm false := by
    unfold RF.round RF.roundParams; simp
  rw [e1, e2]
  by_cases h0 : x.exp > n
  · have h0' : (shiftRF x j).exp > n + j := by show x.exp + j > n + j; omega
    unfold RF.roundAtCore
    simp only [h0, h0', decide_true, Bool.true_and, if_true]
  · have hle : x.exp ≤ n := by omega
    have hle' : (shiftRF x j).exp ≤ n + j := by show x.exp + j ≤ n + j; omega
    have hc' : (shiftRF x j).c ≠ 0 := hc
    rw [roundAtCore_fixed x n rm hc hle, roundAtCore_fixed (shiftRF x j) (n + j) rm hc' hle']
    have : (n + j + 1 - (shiftRF x j).exp).toNat = (n + 1 - x.exp).toNat := by
      show (n + j + 1 - (x.exp + j)).toNat = (n + 1 - x.exp).toNat; omega
    simp only [this]
    have e3 : n + j + 1 = n + 1 + j := by omega
    simp only [shiftRF, e3]
    rfl

end Fpy.C10
