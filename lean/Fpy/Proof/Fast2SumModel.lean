/-
Fast2Sum: from the integer model (`Fpy/Proof/Fast2Sum.lean`) to the library function of the model
(`Lib.fast2sum`) under `MPFloatContext(p, RNE | RNA)` (no exponent bounds).
-/
import Fpy.Proof.Fast2Sum
import Fpy.Proof.EFT
import Fpy.Proof.RFOrder
namespace Fpy.C20
open Fpy Fpy.Spec Fpy.Lib Fpy.Lang

/-- the denotation from the scaled significand -/
theorem val_eq_sc (x : RF) (g : Int) (h : x.okAt g) : x.val = ((x.sc g : Int) : Rat) * (2 : Rat) ^ g := by
  rcases h with h | h
  · rw [RF.val_zero_c h, RF.sc_zero x g h]; simp
  · rw [RF.val_scaled x g h]
    congr 2
    unfold RF.m RF.sc
    cases x.s <;> simp [Int.natCast_pow, Int.neg_mul]

theorem natAbs_sc (x : RF) (g : Int) : (x.sc g).natAbs = x.mag g := by
  have := RF.sc_eq_mag x g
  cases hs : x.s <;> simp [hs] at this <;> omega

theorem sc_sign (x : RF) (g : Int) (hc : x.c ≠ 0) : decide (x.sc g < 0) = x.s := by
  cases hs : x.s
  · have := RF.sc_pos x g hc hs; simp; omega
  · have := RF.sc_neg x g hc hs; simp; omega

theorem sc_of_mag (x : RF) (g : Int) : x.sc g = (if x.sc g < 0 then -1 else 1) * (x.mag g : Int) := by
  have := natAbs_sc x g
  by_cases h : x.sc g < 0
  · simp only [h, if_true]; omega
  · simp only [h, if_false]; omega

/-- `roundQuot` is invariant under a common scaling of the value and the grid -/
theorem roundQuot_scale (rm : RM) (s : Bool) (c k d : Nat) :
    roundQuot rm s (c * 2 ^ d) (k + d) = roundQuot rm s c k := by
  have hD : 0 < 2 ^ d := Nat.pow_pos (by decide)
  have eG : 2 ^ (k + d) = 2 ^ k * 2 ^ d := Nat.pow_add 2 k d
  have hr : (c * 2 ^ d) % (2 ^ k * 2 ^ d) = (c % 2 ^ k) * 2 ^ d := Nat.mul_mod_mul_right _ _ _
  apply roundQuot_congr
  · rw [eG]; exact Nat.mul_div_mul_right _ _ hD
  · rw [eG, hr]
    constructor
    · intro h; rcases Nat.mul_eq_zero.1 h with h | h
      · exact h
      · omega
    · intro h; rw [h]; simp
  · rw [eG, hr, ← Nat.mul_assoc]; exact Nat.mul_lt_mul_right hD
  · rw [eG, hr, ← Nat.mul_assoc]; exact Nat.mul_lt_mul_right hD

theorem rf_round_mp (w : RF) (p : Nat) (rm : RM) :
    w.round (some p) none rm (some 0) 0 false = w.roundAtCore (some p) (w.e - p) none rm false := by
  unfold RF.round RF.roundParams; simp

theorem mp_roundAtCore (p : Nat) (rm : RM) (o : Opts) (w : RF) (hc : w.c ≠ 0) :
    (Ctx.mp p rm (some 0) o).roundAtCore (.fin w) none false 0 =
      (match w.roundAtCore (some p) (w.e - p) none rm false with
       | .error e => .error e
       | .ok (xr, fl) => .ok ⟨.fin xr, fl⟩) := by
  simp only [Ctx.roundAtCore, floatSpecial, hc, if_false, rf_round_mp]
  rfl

/-- `RealFloat._round_at` with `p` digits at position `n` (`n = e − p`, or a higher position that still
lies below every digit of `w`) on the grid `2^g`: the scaled significand of the result is `rndI` of the
scaled significand of the operand -/
theorem rf_roundAtCore_sc (p : Nat) (hp : 1 ≤ p) (rm : RM) (w : RF) (n : Int) (emin : Option Int) (g : Int)
    (hc : w.c ≠ 0) (hgw : g ≤ w.exp) (hn : w.e - p ≤ n) (hcase : n = w.e - p ∨ w.exp > n) :
    ∃ y fl, w.roundAtCore (some p) n emin rm false = .ok (y, fl) ∧ y.okAt g ∧ y.sc g = rndI p rm (w.sc g) := by
  have hP : 0 < 2 ^ p := Nat.pow_pos (by decide)
  obtain ⟨y, fl, hr, hys, _, hyn, hfast, hslow⟩ := roundAtCore_prec w p n emin rm hc hp hn
  refine ⟨y, fl, hr, ?_⟩
  have hbl := bitLength_pos hc
  have hmag : w.mag g = w.c * 2 ^ (w.exp - g).toNat := rfl
  generalize hd : (w.exp - g).toNat = d at hmag
  have hblm : bitLength (w.mag g) = bitLength w.c + d := by rw [hmag]; exact RF.bitLength_shift _ _ hc
  by_cases hf : w.exp > n
  · obtain ⟨hyw, _⟩ := hfast hf
    subst hyw
    refine ⟨Or.inr hgw, (rndI_exact p rm _ ?_).symm⟩
    rw [natAbs_sc, hblm, hmag]
    have hwp : bitLength y.c ≤ p := by unfold RF.e RF.p at hn; omega
    obtain ⟨j, hj⟩ : ∃ j, d = (bitLength y.c + d - p) + j := ⟨d - (bitLength y.c + d - p), by omega⟩
    generalize bitLength y.c + d - p = k' at hj
    rw [hj, Nat.pow_add, Nat.mul_left_comm]
    exact Nat.mul_mod_right _ _
  · have hne : n = w.e - p := by rcases hcase with h | h; exact h; exact absurd h hf
    subst hne
    have hle : w.exp ≤ w.e - p := by omega
    obtain ⟨hQ, _⟩ := hslow hle
    have hk : (w.e - p + 1 - w.exp).toNat = bitLength w.c - p := by unfold RF.e RF.p; omega
    have hkp : p < bitLength w.c := by unfold RF.e RF.p at hle; omega
    rw [hk] at hQ
    generalize hkdef : bitLength w.c - p = k at hQ
    have hexp : (y.exp - g).toNat = (y.exp - (w.e - p + 1)).toNat + (k + d) := by
      unfold RF.e RF.p at hyn ⊢; omega
    refine ⟨Or.inr (by unfold RF.e RF.p at hyn; omega), ?_⟩
    have hrI : rndI p rm (w.sc g) =
        (if w.s = true then -1 else 1) * ((roundQuot rm w.s w.c k * 2 ^ (k + d) : Nat) : Int) := by
      unfold rndI
      have hnot : ¬ (w.sc g).natAbs < 2 ^ p := by
        rw [natAbs_sc]; have := (bitLength_le_iff (w.mag g) p); omega
      have hsg : (w.sc g < 0) ↔ w.s = true := by
        have := sc_sign w g hc; rw [← this]; simp
      have hkd : bitLength w.c + d - p = k + d := by omega
      have hnot' : ¬ w.c * 2 ^ d < 2 ^ p := by rw [← hmag, ← natAbs_sc]; exact hnot
      simp only [natAbs_sc, hblm, hsg, hkd]
      rw [hmag, roundQuot_scale]
      simp [hnot']
    rw [hrI]
    have hm : ((y.c : Int) * 2 ^ (y.exp - g).toNat) = ((roundQuot rm w.s w.c k * 2 ^ (k + d) : Nat) : Int) := by
      rw [hexp, ← hQ, Int.natCast_mul, Int.natCast_mul, Int.natCast_pow, Int.natCast_pow, Int.pow_add]
      simp only [Int.mul_assoc]; rfl
    unfold RF.sc
    rw [hys, hm]

/-- a deterministic floating-point context that, on the grid `2^g`, rounds finite values to `p` digits
under mode `rm` with nothing else happening (no subnormal flush above the grid, no overflow) -/
def FloatLike (C : Ctx) (p : Nat) (rm : RM) (g : Int) : Prop :=
  C.det ∧ ∀ w : RF, w.okAt g →
    ∃ y fl, C.roundAtCore (.fin w) none false 0 = .ok ⟨.fin y, fl⟩ ∧ y.okAt g ∧ y.sc g = rndI p rm (w.sc g)

theorem zero_round_sc (p : Nat) (rm : RM) (w : RF) (g : Int) (hc : w.c = 0) :
    (⟨w.s, 0, 0⟩ : RF).okAt g ∧ (⟨w.s, 0, 0⟩ : RF).sc g = rndI p rm (w.sc g) := by
  have hP : 0 < 2 ^ p := Nat.pow_pos (by decide)
  refine ⟨Or.inl rfl, ?_⟩
  rw [RF.sc_zero _ _ rfl, RF.sc_zero _ _ hc, rndI_small p rm 0 (by simpa using hP)]

/-- `MPFloatContext(p, rm)`: every grid -/
theorem mp_floatLike (p : Nat) (hp : 1 ≤ p) (rm : RM) (o : Opts) (g : Int) :
    FloatLike (.mp p rm (some 0) o) p rm g := by
  refine ⟨⟨rfl, hp⟩, fun w hg => ?_⟩
  by_cases hc : w.c = 0
  · obtain ⟨h1, h2⟩ := zero_round_sc p rm w g hc
    exact ⟨⟨w.s, 0, 0⟩, {}, by simp [Ctx.roundAtCore, floatSpecial, hc], h1, h2⟩
  · have hgw : g ≤ w.exp := by rcases hg with h | h; exact absurd h hc; exact h
    obtain ⟨y, fl, hr, h1, h2⟩ := rf_roundAtCore_sc p hp rm w (w.e - p) none g hc hgw (Int.le_refl _) (Or.inl rfl)
    exact ⟨y, fl, by rw [mp_roundAtCore p rm o w hc, hr], h1, h2⟩

theorem rf_round_mps (w : RF) (p : Nat) (nmin : Int) (rm : RM) :
    w.round (some p) (some nmin) rm (some 0) 0 false =
      w.roundAtCore (some p) (max nmin (w.e - p)) (some ((p : Int) + nmin)) rm false := by
  unfold RF.round RF.roundParams; simp

/-- `MPSFloatContext(p, emin, rm)` (subnormals, no overflow): every grid at or above the least digit
`2^(emin − p + 1)` of the format -/
theorem mps_floatLike (p : Nat) (hp : 1 ≤ p) (emin : Int) (rm : RM) (o : Opts) (g : Int) (hg : emin - p + 1 ≤ g) :
    FloatLike (.mps p emin rm (some 0) o) p rm g := by
  refine ⟨⟨rfl, hp⟩, fun w hw => ?_⟩
  by_cases hc : w.c = 0
  · obtain ⟨h1, h2⟩ := zero_round_sc p rm w g hc
    exact ⟨⟨w.s, 0, 0⟩, {}, by simp [Ctx.roundAtCore, floatSpecial, hc], h1, h2⟩
  · have hgw : g ≤ w.exp := by rcases hw with h | h; exact absurd h hc; exact h
    obtain ⟨y, fl, hr, h1, h2⟩ := rf_roundAtCore_sc p hp rm w (max (emin - p) (w.e - p)) (some ((p : Int) + (emin - p))) g hc hgw
      (by omega) (by omega)
    refine ⟨y, fl, ?_, h1, h2⟩
    simp only [Ctx.roundAtCore, floatSpecial, hc, if_false, rf_round_mps, hr]

theorem ap_of_agree (C : Ctx) (op : Op) (args : List FV) (y : RF) (fl : Flags)
    (h : OpAgree (opEvalFl C op (args.map NV.fv)) (.ok ⟨.fin y, fl⟩)) :
    ap C op (args.map NV.fv) = .ok (.fv (.fin y)) := by
  have hcv : (args.map NV.fv).map cvtReal = args.map NV.fv := by
    induction args with
    | nil => rfl
    | cons v vs ih => simp [List.map, cvtReal] at ih ⊢
  unfold ap opEval
  rw [hcv]
  cases ho : opEvalFl C op (args.map NV.fv) with
  | error e => rw [ho] at h; simp [OpAgree] at h
  | ok pr =>
    obtain ⟨v, fl'⟩ := pr
    rw [ho] at h; simp only [OpAgree] at h
    simp [Except.map, h.1]

theorem fl_ap_add {C : Ctx} {p : Nat} {rm : RM} {g : Int} (hC : FloatLike C p rm g) (a b : RF)
    (ha : a.okAt g) (hb : b.okAt g) :
    ∃ y : RF, ap C .add [.fv (.fin a), .fv (.fin b)] = .ok (.fv (.fin y)) ∧ y.okAt g ∧
      y.sc g = rndI p rm (a.sc g + b.sc g) := by
  have hagree := Fpy.Props.C02.add_correct C hC.1 a b
  obtain ⟨hok, hsc⟩ := RF.add_sc a b g ha hb
  obtain ⟨y, fl, hr, hyok, hysc⟩ := hC.2 (a.add b) hok
  rw [hr] at hagree
  exact ⟨y, ap_of_agree _ .add [.fin a, .fin b] y fl hagree, hyok, by rw [hysc, hsc]⟩

theorem fl_ap_sub {C : Ctx} {p : Nat} {rm : RM} {g : Int} (hC : FloatLike C p rm g) (a b : RF)
    (ha : a.okAt g) (hb : b.okAt g) :
    ∃ y : RF, ap C .sub [.fv (.fin a), .fv (.fin b)] = .ok (.fv (.fin y)) ∧ y.okAt g ∧
      y.sc g = rndI p rm (a.sc g - b.sc g) := by
  have hagree := Fpy.Props.C02.sub_correct C hC.1 a b
  obtain ⟨hok, hsc⟩ := RF.sub_sc a b g ha hb
  obtain ⟨y, fl, hr, hyok, hysc⟩ := hC.2 (a.sub b) hok
  rw [hr] at hagree
  exact ⟨y, ap_of_agree _ .sub [.fin a, .fin b] y fl hagree, hyok, by rw [hysc, hsc]⟩

theorem abs_sc_natAbs (x : RF) (g : Int) : x.abs.sc g = ((x.sc g).natAbs : Int) := by
  have h1 := RF.abs_sc_nonneg x g
  cases hs : x.s
  · rw [RF.abs_sc_of_pos x g hs] at h1 ⊢; omega
  · rw [RF.abs_sc_of_neg x g hs] at h1 ⊢; omega

/-- **Fast2Sum in a floating-point context that rounds to `p` digits on the grid of the operands**
(`RNE` or `RNA`): for operands with at most `p` significant digits and `|a| ≥ |b|`, the model's `fast_2sum`
returns finite `(s, t)` with `s + t = a + b` exactly (`z = s ⊖ a` and `t = b ⊖ z` are computed without
rounding error: the error of the rounded sum is representable). -/
theorem fast2sum_floatLike (C : Ctx) (p : Nat) (hp : 1 ≤ p) (rm : RM) (hrm : rm = .rne ∨ rm = .rna)
    (a b : RF) (hC : FloatLike C p rm (min a.exp b.exp))
    (ha : bitLength a.c ≤ p) (hb : bitLength b.c ≤ p) (hab : a.abs.ge b.abs = true)
    (sv tv : NV) (h : fast2sum C (.fv (.fin a)) (.fv (.fin b)) = .ok (sv, tv)) :
    ∃ s t : RF, sv = .fv (.fin s) ∧ tv = .fv (.fin t) ∧ s.val + t.val = a.val + b.val := by
  have ha' := RF.okAt_min_left a b
  have hb' := RF.okAt_min_right a b
  generalize hg : min a.exp b.exp = g at ha' hb' hC
  obtain ⟨s, hs, hsok, hssc⟩ := fl_ap_add hC a b ha' hb'
  obtain ⟨z, hz, hzok, hzsc⟩ := fl_ap_sub hC s a hsok ha'
  obtain ⟨t, ht, htok, htsc⟩ := fl_ap_sub hC b z hb' hzok
  -- the program
  unfold fast2sum at h
  generalize (if isnar (NV.fv (FV.fin a)) = true then (pure true : Except Err Bool) else _) = chk at h
  cases chk with
  | error e => simp [bind, Except.bind] at h
  | ok bb =>
    cases bb with
    | false => simp [bind, Except.bind, throw, throwThe, MonadExceptOf.throw] at h
    | true =>
      simp only [bind, Except.bind, Bool.not_true, Bool.false_eq_true, if_false, pure, Except.pure, hs, hz, ht,
        Except.ok.injEq, Prod.mk.injEq] at h
      refine ⟨s, t, h.1.symm, h.2.symm, ?_⟩
      -- the integers on the common grid
      have hPa : a.c < 2 ^ p := (bitLength_le_iff _ _).1 ha
      have hPb : b.c < 2 ^ p := (bitLength_le_iff _ _).1 hb
      have hA : a.sc g = ((if a.s = true then -1 else 1) * (a.c : Int)) * ((2 ^ (a.exp - g).toNat : Nat) : Int) := by
        unfold RF.sc; rw [Int.natCast_pow, Int.mul_assoc]; rfl
      have ha0 : ((if a.s = true then -1 else 1) * (a.c : Int)).natAbs < 2 ^ p := by
        cases a.s <;> simp <;> omega
      have hAB : (b.sc g).natAbs ≤ (a.sc g).natAbs := by
        unfold RF.ge at hab
        rw [RF.compare_spec a.abs b.abs g (RF.abs_okAt ha') (RF.abs_okAt hb'), abs_sc_natAbs, abs_sc_natAbs] at hab
        have : ¬ (((a.sc g).natAbs : Int) < ((b.sc g).natAbs : Int)) := by
          intro hlt; rw [Int.compare_eq_lt.2 hlt] at hab; simp at hab
        omega
      have hB : (b.sc g).natAbs < 2 ^ p := by
        by_cases hle : b.exp ≤ a.exp
        · have : (b.exp - g).toNat = 0 := by omega
          rw [natAbs_sc]; unfold RF.mag; rw [this]; simpa using hPb
        · have : (a.exp - g).toNat = 0 := by omega
          have hAm : (a.sc g).natAbs = a.c := by rw [natAbs_sc]; unfold RF.mag; rw [this]; simp
          omega
      obtain ⟨hsum, _, _⟩ := fast2sum_rndI p hp rm hrm (a.sc g) (b.sc g) _ _ hA ha0 hB hAB
      have hint : s.sc g + t.sc g = a.sc g + b.sc g := by
        rw [htsc, hzsc, hssc]; exact hsum
      rw [val_eq_sc s g hsok, val_eq_sc t g htok, val_eq_sc a g ha', val_eq_sc b g hb',
        ← Rat.add_mul, ← Rat.add_mul, ← Rat.intCast_add, ← Rat.intCast_add, hint]

end Fpy.C20
