/-
Rewrite schemas whose validity depends on the environment: the simulation theorem lifted to the
fuel-free semantics, then dead-assignment elimination, self-assignment elimination and copy
propagation (C07), and the context / entry-point facts used by inlining and monomorphisation (C09).
-/
import Fpy.Model.Lang.Vars
import Fpy.Proof.LangSim
import Fpy.Proof.LangLoops
namespace Fpy.Xform
open Fpy Fpy.Lang

/-! ### the simulation theorem in the fuel-free semantics -/

theorem RelM.tends {α β : Type} {Q : α → β → Prop} {a : Nat → M α} {b : Nat → M β} {la : M α} {lb : M β}
    (ha : Tends a la) (hb : Tends b lb) (h : ∀ n, RelM Q (a n) (b n)) : RelM Q la lb := by
  by_cases hla : la = .error .outOfFuel
  · have hb' : lb = .error .outOfFuel := by
      apply Classical.byContradiction; intro hlb
      obtain ⟨n, hn⟩ := hb.reach hlb
      have h1 := h n
      rw [hn n (Nat.le_refl _)] at h1
      rcases ha.le n with h2 | h2
      · rw [h2] at h1
        cases lb with
        | error e => simp only [RelM] at h1; exact hlb (by rw [← h1])
        | ok y => simp only [RelM] at h1
      · rw [h2, hla] at h1
        cases lb with
        | error e => simp only [RelM] at h1; exact hlb (by rw [← h1])
        | ok y => simp only [RelM] at h1
    rw [hla, hb']; exact rfl
  · obtain ⟨n, hn⟩ := ha.reach hla
    have h1 := h n
    rw [hn n (Nat.le_refl _)] at h1
    rcases hb.le n with h2 | h2
    · rw [h2] at h1
      cases la with
      | error e => simp only [RelM] at h1; exact absurd (by rw [h1]) hla
      | ok y => simp only [RelM] at h1
    · rw [h2] at h1; exact h1

theorem sim_evalBω {Φ : Funs} {R : VRel} {σ1 σ2 : Env} {ss1 ss2 : List Stmt} (hinv : Inv R σ1 σ2)
    (h : simB R ss1 ss2 = true) (μ : Heap) (C : Ctx) :
    RelM (OutRel R) (evalBω Φ σ1 μ C ss1) (evalBω Φ σ2 μ C ss2) :=
  RelM.tends (tends_evalB Φ σ1 μ C ss1) (tends_evalB Φ σ2 μ C ss2)
    (fun n => (simAt Φ R n).evalB σ1 σ2 ss1 ss2 hinv h μ C)

theorem sim_evalSω {Φ : Funs} {R : VRel} {σ1 σ2 : Env} {s1 s2 : Stmt} (hinv : Inv R σ1 σ2)
    (h : simS R s1 s2 = true) (μ : Heap) (C : Ctx) :
    RelM (OutRel R) (evalSω Φ σ1 μ C s1) (evalSω Φ σ2 μ C s2) :=
  RelM.tends (tends_evalS Φ σ1 μ C s1) (tends_evalS Φ σ2 μ C s2)
    (fun n => (simAt Φ R n).evalS σ1 σ2 s1 s2 hinv h μ C)

theorem sim_evalEω {Φ : Funs} {R : VRel} {σ1 σ2 : Env} {e1 e2 : Expr} (hinv : Inv R σ1 σ2)
    (h : simE R e1 e2 = true) (μ : Heap) (C : Ctx) : evalEω Φ σ1 μ C e1 = evalEω Φ σ2 μ C e2 := by
  unfold evalEω
  congr 1; funext n
  exact (simAt Φ R n).evalE σ1 σ2 e1 e2 hinv h μ C

theorem sim_evalEsω {Φ : Funs} {R : VRel} {σ1 σ2 : Env} {es1 es2 : List Expr} (hinv : Inv R σ1 σ2)
    (h : simEs R es1 es2 = true) (μ : Heap) (C : Ctx) : evalEsω Φ σ1 μ C es1 = evalEsω Φ σ2 μ C es2 := by
  unfold evalEsω
  congr 1; funext n
  exact (simAt Φ R n).evalEs σ1 σ2 es1 es2 hinv h μ C

/-- related blocks return the same value with the same heap -/
theorem OutRel.ret_iff {R : VRel} {a b : M (Outcome × Heap)} (h : RelM (OutRel R) a b) (v : Val) (μ' : Heap) :
    a = .ok (.ret v, μ') ↔ b = .ok (.ret v, μ') := by
  cases a with
  | error e => cases b with
    | error e' => constructor <;> intro h' <;> cases h'
    | ok y => simp only [RelM] at h
  | ok x => cases b with
    | error e' => simp only [RelM] at h
    | ok y =>
      obtain ⟨o1, μ1⟩ := x; obtain ⟨o2, μ2⟩ := y
      cases o1 <;> cases o2 <;> simp only [RelM, OutRel] at h
      · constructor <;> intro h' <;> cases h'
      · obtain ⟨rfl, rfl⟩ := h; exact Iff.rfl

/-- … and end normally in related environments with the same heap -/
theorem OutRel.normal_fwd {R : VRel} {a b : M (Outcome × Heap)} (h : RelM (OutRel R) a b) {σ' : Env} {μ' : Heap}
    (ha : a = .ok (.normal σ', μ')) : ∃ σ'', b = .ok (.normal σ'', μ') ∧ Inv R σ' σ'' := by
  subst ha
  cases b with
  | error e' => simp only [RelM] at h
  | ok y =>
    obtain ⟨o2, μ2⟩ := y
    cases o2 <;> simp only [RelM, OutRel] at h
    obtain ⟨hi, rfl⟩ := h
    exact ⟨_, rfl, hi⟩

theorem OutRel.normal_bwd {R : VRel} {a b : M (Outcome × Heap)} (h : RelM (OutRel R) a b) {σ'' : Env} {μ' : Heap}
    (hb : b = .ok (.normal σ'', μ')) : ∃ σ', a = .ok (.normal σ', μ') ∧ Inv R σ' σ'' := by
  subst hb
  cases a with
  | error e' => simp only [RelM] at h
  | ok x =>
    obtain ⟨o1, μ1⟩ := x
    cases o1 <;> simp only [RelM, OutRel] at h
    obtain ⟨hi, rfl⟩ := h
    exact ⟨_, rfl, hi⟩

theorem OutRel.err_iff {R : VRel} {a b : M (Outcome × Heap)} (h : RelM (OutRel R) a b) (e : Err) :
    a = .error e ↔ b = .error e := by
  cases a <;> cases b <;> simp only [RelM] at h
  · subst h; exact Iff.rfl
  · constructor <;> intro h' <;> cases h'

/-- SIMULATION, user form: blocks accepted by the checker, started in `R`-related environments,
return the same values -/
theorem sim_returns {Φ : Funs} {R : VRel} {σ1 σ2 : Env} {ss1 ss2 : List Stmt} (hinv : Inv R σ1 σ2)
    (h : simB R ss1 ss2 = true) (μ : Heap) (C : Ctx) (v : Val) (μ' : Heap) :
    Returns Φ σ1 μ C ss1 v μ' ↔ Returns Φ σ2 μ C ss2 v μ' := by
  rw [returns_iff, returns_iff]; exact OutRel.ret_iff (sim_evalBω hinv h μ C) v μ'

theorem sim_normal {Φ : Funs} {R : VRel} {σ1 σ2 : Env} {ss1 ss2 : List Stmt} (hinv : Inv R σ1 σ2)
    (h : simB R ss1 ss2 = true) (μ : Heap) (C : Ctx) (σ' : Env) (μ' : Heap) :
    Normal Φ σ1 μ C ss1 σ' μ' → ∃ σ'', Normal Φ σ2 μ C ss2 σ'' μ' ∧ Inv R σ' σ'' := by
  rw [normal_iff]; intro h1
  obtain ⟨σ'', h2, h3⟩ := OutRel.normal_fwd (sim_evalBω hinv h μ C) h1
  exact ⟨σ'', normal_iff.2 h2, h3⟩

theorem sim_normal' {Φ : Funs} {R : VRel} {σ1 σ2 : Env} {ss1 ss2 : List Stmt} (hinv : Inv R σ1 σ2)
    (h : simB R ss1 ss2 = true) (μ : Heap) (C : Ctx) (σ'' : Env) (μ' : Heap) :
    Normal Φ σ2 μ C ss2 σ'' μ' → ∃ σ', Normal Φ σ1 μ C ss1 σ' μ' ∧ Inv R σ' σ'' := by
  rw [normal_iff]; intro h1
  obtain ⟨σ', h2, h3⟩ := OutRel.normal_bwd (sim_evalBω hinv h μ C) h1
  exact ⟨σ', normal_iff.2 h2, h3⟩

theorem sim_fails {Φ : Funs} {R : VRel} {σ1 σ2 : Env} {ss1 ss2 : List Stmt} (hinv : Inv R σ1 σ2)
    (h : simB R ss1 ss2 = true) (μ : Heap) (C : Ctx) (e : Err) :
    Fails Φ σ1 μ C ss1 e ↔ Fails Φ σ2 μ C ss2 e := by
  rw [fails_iff, fails_iff, OutRel.err_iff (sim_evalBω hinv h μ C) e]

theorem sim_diverges {Φ : Funs} {R : VRel} {σ1 σ2 : Env} {ss1 ss2 : List Stmt} (hinv : Inv R σ1 σ2)
    (h : simB R ss1 ss2 = true) (μ : Heap) (C : Ctx) :
    Diverges Φ σ1 μ C ss1 ↔ Diverges Φ σ2 μ C ss2 := by
  rw [diverges_iff, diverges_iff, OutRel.err_iff (sim_evalBω hinv h μ C) _]

/-! ### correspondences -/

theorem VRel.has_append (R S : VRel) (a b : String) : VRel.has (R ++ S) a b = (R.has a b || S.has a b) := by
  unfold VRel.has; rw [List.any_append]

theorem idRel_has (xs : List String) (a b : String) : (idRel xs).has a b = true ↔ a = b ∧ a ∈ xs := by
  unfold VRel.has idRel
  rw [List.any_eq_true]
  constructor
  · rintro ⟨p, hp, hp'⟩
    rw [List.mem_map] at hp
    obtain ⟨x, hx, rfl⟩ := hp
    simp only [Bool.and_eq_true, beq_iff_eq] at hp'
    obtain ⟨rfl, rfl⟩ := hp'
    exact ⟨rfl, hx⟩
  · rintro ⟨rfl, hx⟩
    exact ⟨(a, a), List.mem_map.2 ⟨a, hx, rfl⟩, by simp⟩

theorem single_has (y x a b : String) : VRel.has [(y, x)] a b = true ↔ a = y ∧ b = x := by
  unfold VRel.has
  simp only [List.any_cons, List.any_nil, Bool.or_false, Bool.and_eq_true, beq_iff_eq]
  constructor
  · rintro ⟨rfl, rfl⟩; exact ⟨rfl, rfl⟩
  · rintro ⟨rfl, rfl⟩; exact ⟨rfl, rfl⟩

/-- environments that agree on `xs` are `idRel xs`-related -/
theorem inv_idRel {xs : List String} {σ1 σ2 : Env} : Inv (idRel xs) σ1 σ2 ↔ ∀ z ∈ xs, σ1.get? z = σ2.get? z := by
  constructor
  · intro h z hz; exact h z z ((idRel_has xs z z).2 ⟨rfl, hz⟩)
  · intro h a b hab
    obtain ⟨rfl, ha⟩ := (idRel_has xs a b).1 hab
    exact h a ha

/-! ### C07: dead assignment, self assignment -/

/-- `e` evaluates without error and without changing the heap in the given state -/
def PureTotal (Φ : Funs) (σ : Env) (μ : Heap) (C : Ctx) (e : Expr) : Prop := ∃ v, evalEω Φ σ μ C e = .ok (v, μ)

/-- when `e` evaluates it does not change the heap (no allocation, no mutating call) -/
def HeapNeutral (Φ : Funs) (σ : Env) (μ : Heap) (C : Ctx) (e : Expr) : Prop :=
  ∀ v μ1, evalEω Φ σ μ C e = .ok (v, μ1) → μ1 = μ

theorem inv_set_dead {xs : List String} {x : String} (hx : x ∉ xs) (σ : Env) (v : Val) : Inv (idRel xs) (σ.set x v) σ := by
  rw [inv_idRel]; intro z hz
  rw [Env.get?_set, if_neg (by intro h; subst h; exact hx hz)]

/-- DEAD ASSIGNMENT ELIMINATION.  `xs` is any list of names containing every variable the rest
of the block reads (`simB (idRel xs) rest rest`, see `simB_idRel_of_reads`) and not `x`.  If the
right-hand side is pure and total in the current state then `x = e; rest` and `rest` have the same
outcome: same return value and heap, same error, same divergence, and final environments that
agree on `xs`. -/
theorem dead_assign_elim_rel {Φ : Funs} {xs : List String} {x : String} {e : Expr} {rest : List Stmt}
    (hx : x ∉ xs) (hrest : simB (idRel xs) rest rest = true) {σ : Env} {μ : Heap} {C : Ctx}
    (hp : PureTotal Φ σ μ C e) :
    RelM (OutRel (idRel xs)) (evalBω Φ σ μ C (.assign (.var x) e :: rest)) (evalBω Φ σ μ C rest) := by
  obtain ⟨v, hv⟩ := hp
  rw [evalBω_cons', evalSω_assign, hv]
  show RelM _ (bindPatω (.var x) v σ >>= _ >>= _) _
  rw [bindPatω_var]
  exact sim_evalBω (inv_set_dead hx σ v) hrest μ C

theorem dead_assign_elim {Φ : Funs} {xs : List String} {x : String} {e : Expr} {rest : List Stmt}
    (hx : x ∉ xs) (hrest : simB (idRel xs) rest rest = true) {σ : Env} {μ : Heap} {C : Ctx}
    (hp : PureTotal Φ σ μ C e) (w : Val) (μ' : Heap) :
    Returns Φ σ μ C (.assign (.var x) e :: rest) w μ' ↔ Returns Φ σ μ C rest w μ' := by
  rw [returns_iff, returns_iff]; exact OutRel.ret_iff (dead_assign_elim_rel hx hrest hp) w μ'

/-- the direction the property asks for needs no totality: if the ORIGINAL returns, the right-hand
side did evaluate; it is enough that evaluating it leaves the heap alone -/
theorem dead_assign_elim_returns {Φ : Funs} {xs : List String} {x : String} {e : Expr} {rest : List Stmt}
    (hx : x ∉ xs) (hrest : simB (idRel xs) rest rest = true) {σ : Env} {μ : Heap} {C : Ctx}
    (hp : HeapNeutral Φ σ μ C e) (w : Val) (μ' : Heap) :
    Returns Φ σ μ C (.assign (.var x) e :: rest) w μ' → Returns Φ σ μ C rest w μ' := by
  intro h
  have h' := returns_iff.1 h
  rw [evalBω_cons', evalSω_assign] at h'
  cases hv : evalEω Φ σ μ C e with
  | error err => rw [hv] at h'; cases h'
  | ok r =>
    obtain ⟨v, μ1⟩ := r
    have := hp v μ1 hv; subst this
    exact (dead_assign_elim hx hrest ⟨v, hv⟩ w μ').1 h

/-- SELF ASSIGNMENT `x = x` with `x` bound is a no-op (up to the order of the bindings) -/
theorem self_assign_elim_rel {Φ : Funs} {xs : List String} {x : String} {rest : List Stmt}
    (hrest : simB (idRel xs) rest rest = true) {σ : Env} {μ : Heap} {C : Ctx} {v : Val} (hb : σ.get? x = some v) :
    RelM (OutRel (idRel xs)) (evalBω Φ σ μ C (.assign (.var x) (.var x) :: rest)) (evalBω Φ σ μ C rest) := by
  rw [evalBω_cons', evalSω_assign, evalEω_var, hb]
  show RelM _ (bindPatω (.var x) v σ >>= _ >>= _) _
  rw [bindPatω_var]
  refine sim_evalBω ?_ hrest μ C
  rw [inv_idRel]; intro z _
  rw [Env.get?_set]
  split
  · rename_i h; rw [h, hb]
  · rfl

theorem self_assign_elim {Φ : Funs} {xs : List String} {x : String} {rest : List Stmt}
    (hrest : simB (idRel xs) rest rest = true) {σ : Env} {μ : Heap} {C : Ctx} {v : Val} (hb : σ.get? x = some v)
    (w : Val) (μ' : Heap) :
    Returns Φ σ μ C (.assign (.var x) (.var x) :: rest) w μ' ↔ Returns Φ σ μ C rest w μ' := by
  rw [returns_iff, returns_iff]; exact OutRel.ret_iff (self_assign_elim_rel hrest hb) w μ'

/-! ### C07: copy propagation -/

/-- the correspondence of copy propagation of `x = y`: identity on `xs`, and a read of `y` may
stand for a read of `x` -/
def cpRel (xs : List String) (x y : String) : VRel := idRel xs ++ [(y, x)]

/-- COPY PROPAGATION.  After `x = y`, a block `ss'` accepted by the checker against `ss` under
`cpRel xs x y` — i.e. `ss` with some or all reads of `x` replaced by `y`, in which neither `x`
nor `y` is (re)bound — has the same outcome as `ss`. -/
theorem copy_prop_rel {Φ : Funs} {xs : List String} {x y : String} {ss ss' : List Stmt}
    (h : simB (cpRel xs x y) ss' ss = true) (σ : Env) (μ : Heap) (C : Ctx) :
    RelM (OutRel (cpRel xs x y)) (evalBω Φ σ μ C (.assign (.var x) (.var y) :: ss'))
      (evalBω Φ σ μ C (.assign (.var x) (.var y) :: ss)) := by
  rw [evalBω_cons', evalBω_cons', evalSω_assign, evalEω_var]
  cases hy : σ.get? y with
  | none => exact rfl
  | some v =>
    show RelM _ (bindPatω (.var x) v σ >>= _ >>= _) (bindPatω (.var x) v σ >>= _ >>= _)
    rw [bindPatω_var]
    refine sim_evalBω ?_ h μ C
    intro a b hab
    unfold cpRel at hab
    rw [VRel.has_append, Bool.or_eq_true] at hab
    rcases hab with hab | hab
    · obtain ⟨rfl, _⟩ := (idRel_has xs a b).1 hab; rfl
    · obtain ⟨rfl, rfl⟩ := (single_has y x a b).1 hab
      rw [Env.get?_set, Env.get?_set, if_pos rfl]
      split
      · rfl
      · exact hy

theorem copy_prop_sound {Φ : Funs} {xs : List String} {x y : String} {ss ss' : List Stmt}
    (h : simB (cpRel xs x y) ss' ss = true) (σ : Env) (μ : Heap) (C : Ctx) (w : Val) (μ' : Heap) :
    Returns Φ σ μ C (.assign (.var x) (.var y) :: ss') w μ' ↔ Returns Φ σ μ C (.assign (.var x) (.var y) :: ss) w μ' := by
  rw [returns_iff, returns_iff]; exact OutRel.ret_iff (copy_prop_rel h σ μ C) w μ'

/-! ### C09: context wrapping, entry points -/

/-- a callee with declared context `D` inlined as `with D: body` runs `body` under `D`, whatever the
context at the call site; and the context at the call site is back in force afterwards (`thenB … C`) -/
theorem with_ctx_wrap (Φ : Funs) (σ : Env) (μ : Heap) (C D : Ctx) (body : List Stmt) :
    evalSω Φ σ μ C (.with (.ctxLit D) none body) = evalBω Φ σ μ D body := by
  rw [evalSω_with, evalEω_ctxLit]; rfl

theorem with_ctx_wrap_block (Φ : Funs) (σ : Env) (μ : Heap) (C D : Ctx) (body rest : List Stmt) :
    evalBω Φ σ μ C (.with (.ctxLit D) none body :: rest) = evalBω Φ σ μ D body >>= thenB Φ C rest := by
  rw [evalBω_cons', with_ctx_wrap]

/-- a context-less callee inlined under `with D:` (no wrapper of its own) runs under `D`:
the body is spliced as is, so it is evaluated under whatever context is active at the call site -/
theorem callee_ctx_is_call_site (Φ : Funs) (σ : Env) (μ : Heap) (C D : Ctx) (body : List Stmt) :
    evalSω Φ σ μ C (.with (.ctxLit D) none body) = evalBω Φ σ μ D body := with_ctx_wrap Φ σ μ C D body

/-- MONOMORPHISATION (pinning the context): calling `f` — which declares no context — with
`ctx = C` is calling its copy `f'` that declares `C`, with no `ctx` at all; at every fuel. -/
theorem mono_sound (Φ : Funs) (fuel : Nat) (f f' : String) (fd : FuncDef) (args : List Val) (μ : Heap) (C : Ctx)
    (hf : Φ.find? f = some fd) (hctx : fd.ctx = none)
    (hf' : Φ.find? f' = some { fd with name := f', ctx := some C }) :
    callEntry Φ fuel f args μ (some C) = callEntry Φ fuel f' args μ none := by
  unfold callEntry
  simp only [hf, hf', hctx]

/-- … and a pinned copy ignores the caller's context altogether -/
theorem mono_ignores_ctx (Φ : Funs) (fuel : Nat) (f' : String) (fd : FuncDef) (args : List Val) (μ : Heap) (C : Ctx)
    (hf' : Φ.find? f' = some fd) (hctx : fd.ctx = some C) (c1 c2 : Option Ctx) :
    callEntry Φ fuel f' args μ c1 = callEntry Φ fuel f' args μ c2 := by
  unfold callEntry
  simp only [hf', hctx]

end Fpy.Xform
