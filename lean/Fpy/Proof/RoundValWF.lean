/-
Part 17 of the value-level helpers for C01: decidable sufficient conditions for the
well-formedness hypothesis `Spec.CtxWF` of the bounded families (used for the non-vacuity examples).
-/
import Fpy.Proof.RoundValCtx6
namespace Fpy.C01v
open Fpy Fpy.Spec

theorem wf_mpb_of_shape (c : MPBParams) (h1 : 1 ≤ c.p)
    (h2 : bitLength c.posMax.c ≤ c.p) (h3 : c.posMax.exp > c.nmin) (h4 : c.posMax.s = false)
    (h5 : bitLength c.negMax.c ≤ c.p) (h6 : c.negMax.exp > c.nmin) (h7 : c.negMax.s = true) :
    CtxWF (.mpb c) :=
  ⟨h1, repFloatSub_of_shape _ _ _ h2 h3, repFloatSub_of_shape _ _ _ h5 h6,
    val_nonpos_of_neg _ h7, val_nonneg_of_pos _ h4⟩

theorem wf_efloat_of_shape (c : EFloatParams) (h1 : 1 ≤ c.mpb.p)
    (h2 : bitLength c.mpb.posMax.c ≤ c.mpb.p) (h3 : c.mpb.posMax.exp > c.mpb.nmin) (h4 : c.mpb.posMax.s = false) :
    CtxWF (.efloat c) :=
  ⟨h1, repFloatSub_of_shape _ _ _ h2 h3, repFloatSub_of_shape _ _ _ (by rw [mpb_negMax_c]; exact h2) h3,
    val_nonpos_of_neg _ (mpb_negMax_s c), val_nonneg_of_pos _ h4, h4⟩

theorem wf_mpbfix_of_shape (c : MPBFixParams)
    (h3 : c.posMax.exp > c.nmin) (h4 : c.posMax.s = false)
    (h6 : c.negMax.exp > c.nmin) (h7 : c.negMax.s = true ∨ c.negMax.c = 0) :
    CtxWF (.mpbfix c) := by
  refine ⟨onGrid_of_le_exp _ _ (by omega), onGrid_of_le_exp _ _ (by omega), ?_, val_nonneg_of_pos _ h4, h4⟩
  rcases h7 with h | h
  · exact val_nonpos_of_neg _ h
  · rw [RF.val_zero_c h]; exact Rat.le_refl

end Fpy.C01v
