/-
C17 — Stochastic rounding.
"Under a context with k random bits, rounding an unrepresentable number returns one of its two
representable neighbours and nothing else, a representable number is returned unchanged, and the
outcome is a function of the operand and the bits drawn.  Counted over all 2^k equally likely
draws, the number of draws that round away from zero is the operand's distance past the lower
neighbour measured in units of 2^-k of the gap (rounded as the context's mode says), so the
expected result is unbiased to within 2^-k of the gap; exactly one draw is consumed per rounding
of a finite non-zero operand."

Property theorems only; helper lemmas live in `Fpy/Proof/Stochastic.lean`.

Vocabulary: the operand is `x = (-1)^s · c · 2^exp`, `c ≠ 0`; rounding at position `n` drops
`K = n + 1 - exp` digits; in units of `2^exp` the representable grid is the multiples of `2^K`, the
lower neighbour is `q = c / 2^K`, the upper one `q + 1`, and the operand lies `ρ = c % 2^K` units
past the lower neighbour.  `k ≥ 1` random bits are requested (`num_randbits = k`), the draw is
`r < 2^k`.  `Spec.srNumer rm s c K k` (written `m`) is `ρ · 2^k / 2^K` rounded to an integer as
mode `rm` says: the distance past the lower neighbour in units of `2^-k` of the gap.
The model (`RF.roundAtStochastic`) is a pure function of the operand and of the explicit draw `r`,
so "the outcome is a function of the operand and the bits drawn" is how it is typed; that the real
code calls the generator exactly once is checked by the Python harness (`harness/c17.py`).
-/
import Fpy.Proof.Stochastic
import Fpy.Model.Num.Ctx
namespace Fpy.Props.C17
open Fpy Fpy.Spec

/-! ### The specification numerator `m` is what its name says -/

/-- `m ≤ 2^k`: it is a count of draws out of `2^k`. -/
theorem sr_numer_le (rm : RM) (s : Bool) (c K k : Nat) : srNumer rm s c K k ≤ 2 ^ k :=
  srNumer_le rm s c K k

/-- `m / 2^k` differs from the true fraction `ρ / 2^K` of the gap by less than `2^-k`
(cross-multiplied by `2^k · 2^K`). -/
theorem sr_numer_close (rm : RM) (s : Bool) (c K k : Nat) :
    srNumer rm s c K k * 2 ^ K < (c % 2 ^ K) * 2 ^ k + 2 ^ K ∧
    (c % 2 ^ K) * 2 ^ k < srNumer rm s c K k * 2 ^ K + 2 ^ K :=
  srNumer_close rm s c K k

/-- with at least as many random bits as dropped digits, `m / 2^k = ρ / 2^K` exactly -/
theorem sr_numer_enough_bits (rm : RM) (s : Bool) (c K k : Nat) (h : K ≤ k) :
    srNumer rm s c K k * 2 ^ K = (c % 2 ^ K) * 2 ^ k := by
  rw [srNumer_high rm s c K k h, Nat.mul_assoc, ← Nat.pow_add]
  congr 2; omega

/-- a representable operand has `m = 0` -/
theorem sr_numer_exact (rm : RM) (s : Bool) (c K k : Nat) (h : c % 2 ^ K = 0) :
    srNumer rm s c K k = 0 :=
  srNumer_exact rm s c K k h

/-- with fewer random bits than dropped digits, `m` is the `k` rounding digits of the
extended-precision value `w = roundQuot rm s c (K - k)` (step 4 of `_round_at_stochastic`):
`w = q · 2^k + m`. -/
theorem sr_numer_ext (rm : RM) (s : Bool) (c J k : Nat) (hk : 1 ≤ k) :
    roundQuot rm s c J = c / 2 ^ (J + k) * 2 ^ k + srNumer rm s c (J + k) k :=
  roundQuot_ext rm s c J k hk

/-! ### Fixed-point shape (`max_p = None`, `min_n = n`) -/

/-- **Pointwise outcome.**  `RealFloat.round(min_n = n, rm, num_randbits = k)` with draw `r`
returns the upper neighbour exactly when `2^k ≤ r + m`, else the lower one; it never raises and
sets `inexact` iff digits were lost. -/
theorem sr_pointwise (x : RF) (n : Int) (rm : RM) (k r : Nat)
    (hc : x.c ≠ 0) (hle : x.exp ≤ n) (hk : 1 ≤ k) (hr : r < 2 ^ k) :
    x.round none (some n) rm (some k) r =
      .ok (⟨x.s, n + 1,
            if 2 ^ k ≤ r + srNumer rm x.s x.c (n + 1 - x.exp).toNat k
            then x.c / 2 ^ (n + 1 - x.exp).toNat + 1 else x.c / 2 ^ (n + 1 - x.exp).toNat⟩,
           { inexact := decide (x.c % 2 ^ (n + 1 - x.exp).toNat ≠ 0) }) := by
  have hk0 : ¬ (k = 0) := by omega
  unfold RF.round RF.roundParams
  simp only [Option.some.injEq, hk0, if_false]
  rw [roundAtStochastic_eq x none n none rm k r hc hk hle hr,
      roundAtCore_fixed x n _ hc hle, roundQuot_srMode rm x n k r hr]

/-- the same statement for the inner `_round_at_stochastic` -/
theorem sr_pointwise_at (x : RF) (n : Int) (rm : RM) (k r : Nat)
    (hc : x.c ≠ 0) (hle : x.exp ≤ n) (hk : 1 ≤ k) (hr : r < 2 ^ k) :
    x.roundAtStochastic none n none rm (some k) r false =
      .ok (⟨x.s, n + 1,
            if 2 ^ k ≤ r + srNumer rm x.s x.c (n + 1 - x.exp).toNat k
            then x.c / 2 ^ (n + 1 - x.exp).toNat + 1 else x.c / 2 ^ (n + 1 - x.exp).toNat⟩,
           { inexact := decide (x.c % 2 ^ (n + 1 - x.exp).toNat ≠ 0) }) := by
  rw [roundAtStochastic_eq x none n none rm k r hc hk hle hr,
      roundAtCore_fixed x n _ hc hle, roundQuot_srMode rm x n k r hr]

/-- **One of the two neighbours and nothing else** (same sign, on the grid, quotient `q` or `q+1`). -/
theorem sr_neighbour (x : RF) (n : Int) (rm : RM) (k r : Nat)
    (hc : x.c ≠ 0) (hle : x.exp ≤ n) (hk : 1 ≤ k) (hr : r < 2 ^ k) :
    ∃ y fl, x.round none (some n) rm (some k) r = .ok (y, fl) ∧ y.s = x.s ∧ y.exp = n + 1 ∧
      (y.c = x.c / 2 ^ (n + 1 - x.exp).toNat ∨ y.c = x.c / 2 ^ (n + 1 - x.exp).toNat + 1) := by
  refine ⟨_, _, sr_pointwise x n rm k r hc hle hk hr, rfl, rfl, ?_⟩
  simp only
  split
  · exact Or.inr rfl
  · exact Or.inl rfl

/-- **A representable operand is returned unchanged** (same real number: `q · 2^K = c`), for every
draw and every mode, and is not flagged inexact. -/
theorem sr_repr (x : RF) (n : Int) (rm : RM) (k r : Nat)
    (hc : x.c ≠ 0) (hle : x.exp ≤ n) (hk : 1 ≤ k) (hr : r < 2 ^ k)
    (hrep : x.c % 2 ^ (n + 1 - x.exp).toNat = 0) :
    x.round none (some n) rm (some k) r = .ok (⟨x.s, n + 1, x.c / 2 ^ (n + 1 - x.exp).toNat⟩, {}) ∧
    x.c / 2 ^ (n + 1 - x.exp).toNat * 2 ^ (n + 1 - x.exp).toNat = x.c := by
  refine ⟨?_, Nat.div_mul_cancel (Nat.dvd_of_mod_eq_zero hrep)⟩
  rw [sr_pointwise x n rm k r hc hle hk hr, srNumer_exact _ _ _ _ _ hrep]
  have h : ¬ (2 ^ k ≤ r) := by omega
  simp [h, hrep]

/-- … and an operand whose digits are all above `n` (zero included) is returned as is. -/
theorem sr_repr_above (x : RF) (n : Int) (rm : RM) (k r : Nat) (hk : 1 ≤ k) (h : x.exp > n) :
    ∃ fl, x.round none (some n) rm (some k) r = .ok (x, fl) ∧ fl.inexact = false := by
  have hk0 : ¬ (k = 0) := by omega
  unfold RF.round RF.roundParams
  simp only [Option.some.injEq, hk0, if_false]
  rw [roundAtStochastic_above x none n none rm k r false h]
  exact roundAtCore_above x n none .rtz false h

/-- **Counting draws.**  Of the `2^k` equally likely draws, exactly `m` return the upper
neighbour (the one away from zero); for a representable operand `m = 0`: none does. -/
theorem sr_count (x : RF) (n : Int) (rm : RM) (k : Nat)
    (hc : x.c ≠ 0) (hle : x.exp ≤ n) (hk : 1 ≤ k) :
    (List.range (2 ^ k)).countP (fun r =>
        decide (((x.round none (some n) rm (some k) r).toOption.map (·.1)) =
                some ⟨x.s, n + 1, x.c / 2 ^ (n + 1 - x.exp).toNat + 1⟩))
      = srNumer rm x.s x.c (n + 1 - x.exp).toNat k := by
  rw [← countP_threshold (srNumer rm x.s x.c (n + 1 - x.exp).toNat k) (2 ^ k) (srNumer_le _ _ _ _ _)]
  apply List.countP_congr
  intro r hrm
  have hr : r < 2 ^ k := List.mem_range.1 hrm
  rw [sr_pointwise x n rm k r hc hle hk hr]
  by_cases h : 2 ^ k ≤ r + srNumer rm x.s x.c (n + 1 - x.exp).toNat k
  · simp [h, Except.toOption]
  · simp [h, Except.toOption]

/-- … and the remaining `2^k - m` draws return the lower neighbour. -/
theorem sr_count_toward (x : RF) (n : Int) (rm : RM) (k : Nat)
    (hc : x.c ≠ 0) (hle : x.exp ≤ n) (hk : 1 ≤ k) :
    (List.range (2 ^ k)).countP (fun r =>
        decide (((x.round none (some n) rm (some k) r).toOption.map (·.1)) =
                some ⟨x.s, n + 1, x.c / 2 ^ (n + 1 - x.exp).toNat⟩))
      = 2 ^ k - srNumer rm x.s x.c (n + 1 - x.exp).toNat k := by
  rw [← countP_below_threshold (srNumer rm x.s x.c (n + 1 - x.exp).toNat k) (2 ^ k)]
  apply List.countP_congr
  intro r hrm
  have hr : r < 2 ^ k := List.mem_range.1 hrm
  rw [sr_pointwise x n rm k r hc hle hk hr]
  by_cases h : 2 ^ k ≤ r + srNumer rm x.s x.c (n + 1 - x.exp).toNat k
  · simp [h, Except.toOption]
  · simp [h, Except.toOption]

/-- **Unbiased to within `2^-k` of the gap.**  (`resultQuot x n rm k r` is the significand of the
result of draw `r`, defined in `Proof/Stochastic.lean`.)  Summed over all `2^k` draws the results (in units
of the gap `2^(n+1)`) add up to `2^k · q + m`, i.e. the mean is `q + m / 2^k`, and it differs from
the operand `c / 2^K` by less than `2^-k` (cross-multiplied by `2^k · 2^K`); with `k ≥ K` random
bits the mean is the operand exactly. -/
theorem sr_unbiased (x : RF) (n : Int) (rm : RM) (k : Nat)
    (hc : x.c ≠ 0) (hle : x.exp ≤ n) (hk : 1 ≤ k) :
    let K := (n + 1 - x.exp).toNat
    let S := ((List.range (2 ^ k)).map (resultQuot x n rm k)).sum
    S = 2 ^ k * (x.c / 2 ^ K) + srNumer rm x.s x.c K k ∧
    S * 2 ^ K < x.c * 2 ^ k + 2 ^ K ∧ x.c * 2 ^ k < S * 2 ^ K + 2 ^ K ∧
    (K ≤ k → S * 2 ^ K = x.c * 2 ^ k) := by
  intro K S
  have hS : S = 2 ^ k * (x.c / 2 ^ K) + srNumer rm x.s x.c K k := by
    have h1 : (List.range (2 ^ k)).map (resultQuot x n rm k) =
        (List.range (2 ^ k)).map (fun r =>
          if 2 ^ k ≤ r + srNumer rm x.s x.c K k then x.c / 2 ^ K + 1 else x.c / 2 ^ K) := by
      apply List.map_congr_left
      intro r hrm
      have hr : r < 2 ^ k := List.mem_range.1 hrm
      unfold resultQuot
      rw [sr_pointwise x n rm k r hc hle hk hr]
      simp only [Except.toOption, K]
    simp only [S]
    rw [h1, sum_threshold _ _ _ (srNumer_le _ _ _ _ _)]
  rw [hS]
  exact ⟨rfl, srNumer_mean_close rm x.s x.c K k⟩

/-! ### Deterministic limit and the draw -/

/-- `num_randbits = 0` is deterministic rounding: `round` is `_round_at`, whatever the draw. -/
theorem sr_k_zero (x : RF) (n : Int) (rm : RM) (r : Nat) (exact : Bool) :
    x.round none (some n) rm (some 0) r exact = x.roundAtCore none n none rm exact := by
  unfold RF.round RF.roundParams; simp

theorem sr_k_zero_float (x : RF) (p : Nat) (rm : RM) (r : Nat) (exact : Bool) :
    x.round (some p) none rm (some 0) r exact = x.roundAtCore (some p) (x.e - p) none rm exact := by
  unfold RF.round RF.roundParams; simp

/-- **One draw of `k` bits**: the generator is asked for `k` bits (`num_randbits = k`), or for as
many bits as digits are dropped when `num_randbits = None`; in particular the request does not
depend on the mode, the draw, or whether the operand is representable.  (That the real code makes
exactly one request per rounding is observed by the harness.) -/
theorem sr_one_draw (x : RF) (n : Int) (k : Nat) :
    x.stochasticBits n (some k) = k ∧ x.stochasticBits n none = (max 0 (n + 1 - x.exp)).toNat :=
  ⟨rfl, rfl⟩

/-! ### Floating-point shape (`max_p = p`, optional `min_n`) -/

/-- **Float families.**  The rounding position `n = max(nmin, e - p)` depends on the operand
only; the result keeps the sign, has at most `p` digits, lies above `n`; an operand with no digit
at or below `n` is returned unchanged; otherwise its magnitude in units of `2^(n+1)` is the upper
neighbour `q + 1` exactly when `2^k ≤ r + m` and the lower neighbour `q` otherwise (a carry into
the next binade is the same number re-normalised), and `inexact` is set iff digits were lost. -/
theorem sr_float (x : RF) (p : Nat) (minN : Option Int) (rm : RM) (k r : Nat)
    (hc : x.c ≠ 0) (hp : 1 ≤ p) (hk : 1 ≤ k) (hr : r < 2 ^ k) :
    let n : Int := match minN with | none => x.e - p | some m => max m (x.e - p)
    ∃ y fl, x.round (some p) minN rm (some k) r = .ok (y, fl) ∧ y.s = x.s ∧ bitLength y.c ≤ p ∧ y.exp > n ∧
      (x.exp > n → y = x ∧ fl.inexact = false) ∧
      (x.exp ≤ n →
        y.c * 2 ^ (y.exp - (n + 1)).toNat =
          (if 2 ^ k ≤ r + srNumer rm x.s x.c (n + 1 - x.exp).toNat k
           then x.c / 2 ^ (n + 1 - x.exp).toNat + 1 else x.c / 2 ^ (n + 1 - x.exp).toNat) ∧
        fl.inexact = decide (x.c % 2 ^ (n + 1 - x.exp).toNat ≠ 0)) :=
  round_stochastic_float x p minN rm k r hc hp hk hr

/-- **Counting draws, float shape**: exactly `m` of the `2^k` draws give the upper neighbour. -/
theorem sr_float_count (x : RF) (p : Nat) (minN : Option Int) (rm : RM) (k : Nat)
    (hc : x.c ≠ 0) (hp : 1 ≤ p) (hk : 1 ≤ k) :
    let n : Int := match minN with | none => x.e - p | some m => max m (x.e - p)
    x.exp ≤ n →
    (List.range (2 ^ k)).countP (fun r =>
        decide (floatQuot x p minN rm k n r = x.c / 2 ^ (n + 1 - x.exp).toNat + 1))
      = srNumer rm x.s x.c (n + 1 - x.exp).toNat k := by
  intro n hle
  rw [← countP_threshold (srNumer rm x.s x.c (n + 1 - x.exp).toNat k) (2 ^ k) (srNumer_le _ _ _ _ _)]
  apply List.countP_congr
  intro r hrm
  have hr : r < 2 ^ k := List.mem_range.1 hrm
  rw [floatQuot_eq x p minN rm k r n rfl hc hp hk hr hle]
  by_cases h : 2 ^ k ≤ r + srNumer rm x.s x.c (n + 1 - x.exp).toNat k <;> simp [h]

/-- **Unbiased to within `2^-k` of the gap, float shape.** -/
theorem sr_float_unbiased (x : RF) (p : Nat) (minN : Option Int) (rm : RM) (k : Nat)
    (hc : x.c ≠ 0) (hp : 1 ≤ p) (hk : 1 ≤ k) :
    let n : Int := match minN with | none => x.e - p | some m => max m (x.e - p)
    let K := (n + 1 - x.exp).toNat
    let S := ((List.range (2 ^ k)).map (floatQuot x p minN rm k n)).sum
    x.exp ≤ n →
    S = 2 ^ k * (x.c / 2 ^ K) + srNumer rm x.s x.c K k ∧
    S * 2 ^ K < x.c * 2 ^ k + 2 ^ K ∧ x.c * 2 ^ k < S * 2 ^ K + 2 ^ K ∧
    (K ≤ k → S * 2 ^ K = x.c * 2 ^ k) := by
  intro n K S hle
  have hS : S = 2 ^ k * (x.c / 2 ^ K) + srNumer rm x.s x.c K k := by
    have h1 : (List.range (2 ^ k)).map (floatQuot x p minN rm k n) =
        (List.range (2 ^ k)).map (fun r =>
          if 2 ^ k ≤ r + srNumer rm x.s x.c K k then x.c / 2 ^ K + 1 else x.c / 2 ^ K) := by
      apply List.map_congr_left
      intro r hrm
      exact floatQuot_eq x p minN rm k r n rfl hc hp hk (List.mem_range.1 hrm) hle
    simp only [S]
    rw [h1, sum_threshold _ _ _ (srNumer_le _ _ _ _ _)]
  rw [hS]
  exact ⟨rfl, srNumer_mean_close rm x.s x.c K k⟩

/-! Non-vacuity: concrete operands meeting the hypotheses, evaluated by the kernel. -/

-- 13 = 0b1101 rounded at n = 1 (K = 2 digits dropped, q = 3, ρ = 1) with k = 2 bits: m = 1
example : (⟨false, 0, 13⟩ : RF).c ≠ 0 ∧ (⟨false, 0, 13⟩ : RF).exp ≤ (1 : Int) ∧ 1 ≤ 2 ∧ 3 < 2 ^ 2 ∧
    (13 % 2 ^ ((1 : Int) + 1 - 0).toNat ≠ 0) := by decide
example : srNumer .rne false 13 2 2 = 1 ∧ srNumer .rne false 13 3 1 = 1 ∧ srNumer .raz false 13 3 1 = 2 ∧
    srNumer .rtz false 13 3 2 = 2 ∧ srNumer .rne false 13 3 2 = 2 ∧ srNumer .rna false 13 3 2 = 3 ∧ srNumer .rne false 12 2 5 = 0 := by decide
example : ((⟨false, 0, 13⟩ : RF).round none (some 1) .rne (some 2) 2).toOption
    = some (⟨false, 2, 3⟩, { inexact := true }) := by decide
example : ((⟨false, 0, 13⟩ : RF).round none (some 1) .rne (some 2) 3).toOption
    = some (⟨false, 2, 4⟩, { inexact := true }) := by decide
-- fewer random bits than dropped digits (K = 3, k = 1): the extended value is rounded by the mode
example : ((⟨true, 0, 13⟩ : RF).round none (some 2) .rne (some 1) 0).toOption
    = some (⟨true, 3, 1⟩, { inexact := true }) := by decide
example : ((⟨true, 0, 13⟩ : RF).round none (some 2) .rne (some 1) 1).toOption
    = some (⟨true, 3, 2⟩, { inexact := true }) := by decide
-- carry of the rounding digits into the neighbour (m = 2^k): every draw rounds away
example : ((⟨false, 0, 15⟩ : RF).round none (some 2) .rne (some 1) 0).toOption
    = some (⟨false, 3, 2⟩, { inexact := true }) := by decide
-- representable operand: unchanged for every draw
example : ((⟨false, 0, 12⟩ : RF).round none (some 1) .rne (some 2) 3).toOption
    = some (⟨false, 2, 3⟩, {}) := by decide
-- float shape, p = 3: 13 → 12 or 14
example : ((⟨false, 0, 13⟩ : RF).round (some 3) none .rne (some 2) 1).toOption
    = some (⟨false, 1, 6⟩, { inexact := true }) := by decide
example : ((⟨false, 0, 13⟩ : RF).round (some 3) none .rne (some 2) 2).toOption
    = some (⟨false, 1, 7⟩, { inexact := true }) := by decide

-- float hypotheses: p = 3 puts the rounding position at n = e - p = 0 ≥ exp
example : (⟨false, 0, 13⟩ : RF).e - (3 : Nat) = 0 ∧ (⟨false, 0, 13⟩ : RF).exp ≤ (0 : Int) := by decide
-- the counts themselves, evaluated on the model: 1 of 4 draws rounds 13 up to 16 at n = 1 …
example : (List.range (2 ^ 2)).countP (fun r => decide (resultQuot ⟨false, 0, 13⟩ 1 .rne 2 r = 4)) = 1 ∧
    ((List.range (2 ^ 2)).map (resultQuot ⟨false, 0, 13⟩ 1 .rne 2)).sum = 13 := by decide
-- … and 2 of 4 draws round 13 up to 14 with p = 3 (mean 6.5 · 2 = 13: exactly unbiased, k ≥ K)
example : (List.range (2 ^ 2)).countP (fun r => decide (floatQuot ⟨false, 0, 13⟩ 3 none .rne 2 0 r = 7)) = 2 ∧
    ((List.range (2 ^ 2)).map (floatQuot ⟨false, 0, 13⟩ 3 none .rne 2 0)).sum = 26 := by decide

end Fpy.Props.C17
