import Fpy.Model.Num.Ctx
namespace Fpy.Props.C17
theorem placeholder : True := trivial
end Fpy.Props.C17
