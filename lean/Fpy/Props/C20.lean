/-
C20 — Library decompositions are exact.
Property theorems only.  The model of the library functions is `Fpy/Model/Lib.lean` (transcribed statement
by statement from `fpy2/libraries/eft.py` and `core.py`; the harness evaluates the REAL decorated functions,
the `Fpy.Lang` evaluator on their exported ASTs and this transcription on the same inputs and compares).
Helper lemmas: `Fpy/Proof/EFT.lean` (real-context arithmetic, `ctx.round(…, exact=True)` keeps the value in
every context family, `ldexp`), `Fpy/Proof/Fast2Sum.lean` (Fast2Sum on the integer model over
`Spec.roundQuot`), `Fpy/Proof/Fast2SumModel.lean` (lift to the model), `Fpy/Proof/Fast2Mul.lean` (FMA 2Mul).

Vocabulary.  `ap C op args` is `ops.<op>(args, ctx=C)` as the interpreter applies it; values are `NV`
(`.fv (.fin x)` a finite `Float` with `RealFloat` part `x : RF`), `x.val : Rat` the number denoted.
`NotExp C`: `C` is not the power-of-two `ExpContext` (in which `round(x, exact=True)` returns NaN for a zero or
negative `x` instead of raising, so the exactness-checked decompositions can return NaN parts there).
`FloatLike C p rm g`: `C` is deterministic and rounds every finite value on the grid `2^g` to `p` digits under
`rm` (`rndI`, i.e. `Spec.roundQuot`) — proved for `MPFloatContext(p, rm)` on every grid and for
`MPSFloatContext(p, emin, rm)` on every grid at or above its least digit `2^(emin−p+1)`.

FULL: `ideal_2sum_exact`, `ideal_2mul_exact`, `ideal_fma_exact` (EVERY context `C`, also fixed point, wrap,
saturate, stochastic: whenever the rounded result is finite), `split_exact`, `modf_exact`, `frexp_exact`,
`ldexp_once`.
PARTIAL (gap stated at the theorem): `fast_2sum_exact_partial`, `fast_2mul_exact_partial` — proved for the
`MPFloat` and `MPSFloat` (subnormals) families at every precision `p ≥ 1`; not for the bounded families
(`MPBFloat`, `EFloat`/`IEEE`: needs "no intermediate overflow").
COUNTEREXAMPLES about the source BEFORE the repairs (definitions `…Legacy` of the model; all were reproduced on
the real code by harness/c20.py and repaired in /repo): `classic_2sum_legacy_counterexample` (F38: `bb = s - a`
instead of Knuth–Møller's `bb = s - aa`; `classic_2fma` inherited it), `classic_2mul_legacy_raises` (F39:
`core.max_p()` was called under `with fp.INTEGER:`; there also `ceil(p / 2)` was `floor(p / 2)`),
`frexp_legacy_counterexample` (F40: `e = ctx.round(x.e)` was not `exact=True`: the exponent was rounded).
NOT proved, tested exhaustively on small formats by the harness and reported there as tests: `classic_2sum`,
`classic_2mul`, `classic_2fma` (as repaired), `priest_2sum`, `veltkamp_split`, and the fast variants in
`EFloat`/`IEEE` formats.
-/
import Fpy.Proof.Fast2Mul
namespace Fpy.Props.C20
open Fpy Fpy.Lib Fpy.C20

/-! ## 1. The "ideal" transformations: exact in EVERY context in which the rounded result is finite -/

/-- `ideal_2sum(a, b)` under any context `C` (floating point, fixed point with any overflow mode, real,
stochastic, any of the eight rounding modes): if it returns `(s, t)` with `s` finite then `s` is the value
`a + b` evaluates to under `C`, `t` is finite and `s + t = a + b` exactly. -/
theorem ideal_2sum_exact (C : Ctx) (a b s : RF) (tv : NV)
    (h : ideal2sum C (.fv (.fin a)) (.fv (.fin b)) = .ok (.fv (.fin s), tv)) :
    ap C .add [.fv (.fin a), .fv (.fin b)] = .ok (.fv (.fin s)) ∧
    ∃ t : RF, tv = .fv (.fin t) ∧ s.val + t.val = a.val + b.val := by
  unfold ideal2sum at h
  rw [real_add_fin] at h
  obtain ⟨h1, t, ht, hv⟩ := ideal_shape _ _ _ _ h
  exact ⟨h1, t, ht, by rw [hv, RF.val_add]⟩

/-- `ideal_2mul`: likewise `s + t = a·b` -/
theorem ideal_2mul_exact (C : Ctx) (a b s : RF) (tv : NV)
    (h : ideal2mul C (.fv (.fin a)) (.fv (.fin b)) = .ok (.fv (.fin s), tv)) :
    ap C .mul [.fv (.fin a), .fv (.fin b)] = .ok (.fv (.fin s)) ∧
    ∃ t : RF, tv = .fv (.fin t) ∧ s.val + t.val = a.val * b.val := by
  unfold ideal2mul at h
  rw [real_mul_fin] at h
  obtain ⟨h1, t, ht, hv⟩ := ideal_shape _ _ _ _ h
  exact ⟨h1, t, ht, by rw [hv, RF.val_mul]⟩

/-- `ideal_fma`: likewise `r + t = a·b + c` -/
theorem ideal_fma_exact (C : Ctx) (a b c r : RF) (tv : NV)
    (h : idealFma C (.fv (.fin a)) (.fv (.fin b)) (.fv (.fin c)) = .ok (.fv (.fin r), tv)) :
    ap C .fma [.fv (.fin a), .fv (.fin b), .fv (.fin c)] = .ok (.fv (.fin r)) ∧
    ∃ t : RF, tv = .fv (.fin t) ∧ r.val + t.val = a.val * b.val + c.val := by
  unfold idealFma at h
  rw [real_fma_fin] at h
  obtain ⟨h1, t, ht, hv⟩ := ideal_shape _ _ _ _ h
  exact ⟨h1, t, ht, by rw [hv, RF.val_add, RF.val_mul]⟩

/-! ## 2. Decompositions recombine exactly -/

/-- `split(x, n)` on a finite `x`: whenever it returns (it raises `ValueError` if `n` is not an integer or a
part is not representable in `C`), both parts are finite, they are the digits of `x` above `n` / at or below
`n` (`RealFloat.split`, whose digit ranges are `Props.C05.split_ranges`) and their sum is `x` exactly. -/

theorem split_exact (C : Ctx) (hE : NotExp C) (x : RF) (n hi lo : FV) (h : Lib.split C (.fin x) n = .ok (hi, lo)) :
    ∃ (nr : RF) (k : Int) (h' l' : RF), n = .fin nr ∧ nr.toInt? = some k ∧ hi = .fin h' ∧ lo = .fin l' ∧
      h'.val = (x.split k).1.val ∧ l'.val = (x.split k).2.val ∧ h'.val + l'.val = x.val := by
  unfold Lib.split at h
  cases n with
  | fin nr =>
    simp only [] at h
    cases hk : nr.toInt? with
    | none => rw [hk] at h; simp at h
    | some k =>
      rw [hk] at h
      simp only [] at h
      obtain ⟨h', l', e1, e2, v1, v2⟩ := round_pair_exact C hE _ _ hi lo h
      exact ⟨nr, k, h', l', rfl, hk, e1, e2, v1, v2, by rw [v1, v2, RF.split_sum]⟩
  | inf s => simp at h
  | nan s => simp at h

/-- `modf(x)` on a finite `x` (zero included): integral part `i` (an integer) and fractional part `f`,
`i + f = x` exactly; for `x ≠ 0` they are the digits above / at-or-below position `−1`. -/
theorem modf_exact (C : Ctx) (hE : NotExp C) (x : RF) (i f : FV) (h : modf C (.fin x) = .ok (i, f)) :
    ∃ i' f' : RF, i = .fin i' ∧ f = .fin f' ∧ i'.val + f'.val = x.val ∧ (∃ k : Int, i'.val = (k : Rat)) ∧
      (x.c ≠ 0 → i'.val = (x.split (-1)).1.val ∧ f'.val = (x.split (-1)).2.val) := by
  unfold modf at h
  simp only [] at h
  by_cases hc : x.c = 0
  · simp only [hc, if_true, round_flt_eq_real] at h
    obtain ⟨i', f', e1, e2, v1, v2⟩ := round_pair_exact C hE _ _ i f h
    refine ⟨i', f', e1, e2, ?_, ⟨0, ?_⟩, fun hx => absurd hc hx⟩
    · rw [v1, v2, RF.val_mk_zero, RF.val_zero_c hc]; exact Rat.add_zero 0
    · rw [v1, RF.val_mk_zero]; rfl
  · simp only [hc, if_false] at h
    obtain ⟨i', f', e1, e2, v1, v2⟩ := round_pair_exact C hE _ _ i f h
    obtain ⟨k, hk⟩ := split_hi_integer x
    exact ⟨i', f', e1, e2, by rw [v1, v2, RF.split_sum], ⟨k, by rw [v1, hk]⟩, fun _ => ⟨v1, v2⟩⟩

/-- `frexp(x)`, finite `x ≠ 0`, whatever the exponent is rounded with: the mantissa `m` is finite and
`m · 2^e(x) = x` exactly where `e(x)` is the normalized exponent of `x`; the returned exponent is
`ctx.round(e(x), exact=exactE)`. -/
theorem frexp_mantissa (exactE : Bool) (C : Ctx) (hE : NotExp C) (x : RF) (hx : x.c ≠ 0) (m e : FV)
    (h : frexpG exactE C (.fin x) = .ok (m, e)) :
    (∃ m' : RF, m = .fin m' ∧ m'.val * (2 : Rat) ^ x.e = x.val) ∧
    (C.round (.int x.e) exactE).map (·.v) = .ok e := by
  unfold frexpG at h
  simp only [hx, if_false] at h
  cases h1 : C.round (.real (frexpMant x)) true with
  | error err => rw [h1] at h; simp [bind, Except.bind] at h
  | ok a =>
    cases h2 : C.round (.int x.e) exactE with
    | error err => rw [h1, h2] at h; simp [bind, Except.bind] at h
    | ok b =>
      rw [h1, h2] at h
      simp only [bind, Except.bind, pure, Except.pure, Except.ok.injEq, Prod.mk.injEq] at h
      obtain ⟨y, hy, hv⟩ := ctx_round_real_exact C hE _ a h1
      exact ⟨⟨y, by rw [← h.1, hy], by rw [hv, frexpMant_val]⟩, by simp [Except.map, h.2]⟩

/-- **`frexp` recombines exactly** (current source, `e = ctx.round(x.e, exact=True)`): for a finite `x ≠ 0`,
whenever the call returns (it raises `ValueError` when the mantissa or the exponent is not representable in
`C`), both parts are finite, the exponent part denotes the integer `e(x)` and `m · 2^e = x`. -/
theorem frexp_exact (C : Ctx) (hE : NotExp C) (x : RF) (hx : x.c ≠ 0) (m e : FV) (h : frexp C (.fin x) = .ok (m, e)) :
    ∃ m' e' : RF, m = .fin m' ∧ e = .fin e' ∧ e'.val = ((x.e : Int) : Rat) ∧ m'.val * (2 : Rat) ^ x.e = x.val := by
  obtain ⟨⟨m', hm, hv⟩, he⟩ := frexp_mantissa true C hE x hx m e h
  cases hr : C.round (.int x.e) true with
  | error err => rw [hr] at he; simp [Except.map] at he
  | ok b =>
    rw [hr] at he
    simp only [Except.map, Except.ok.injEq] at he
    obtain ⟨y, hy, hyv⟩ := ctx_round_int_exact C hE x.e b hr
    exact ⟨m', y, hm, by rw [← he, hy], hyv, hv⟩

/-- before F40 the exponent was rounded: `MPFloatContext(2, RNE)`, `x = 32`: the result was `(1, 4)` (the
exponent 5 is not representable with 2 digits), `1 · 2^4 = 16 ≠ 32`.
Real code then: `core.frexp(32.0, ctx=fp.MPFloatContext(2, fp.RM.RNE))`. -/
theorem frexp_legacy_counterexample :
    (match frexpLegacy (.mp 2 .rne (some 0) {}) (.fin ⟨false, 5, 1⟩) with
     | .ok (.fin m, .fin e) => decide (m.val = 1 ∧ e.val = 4 ∧ m.val * (2 : Rat) ^ (4 : Int) ≠ (⟨false, 5, 1⟩ : RF).val)
     | _ => false) = true := by decide +kernel

/-- `ldexp(x, n)` for an integer `n` (as `to_value(int)` passes it): the scale `2^n` is computed exactly under
the real context and the result is the exact product `x · 2^n` rounded ONCE by `C` (value; an error of the
context likewise) — for every deterministic context family (`Ctx.det`, as C02's `mul_correct`). -/
theorem ldexp_once (C : Ctx) (hC : C.det) (x : RF) (i : Int) :
    (x.mul ⟨false, i, 1⟩).val = x.val * (2 : Rat) ^ i ∧
    (match C.roundAtCore (.fin (x.mul ⟨false, i, 1⟩)) none false 0 with
     | .ok r => ldexp C (.fv (.fin x)) (.fv (.fin (RF.ofInt i))) = .ok (.fv r.v)
     | .error err => ldexp C (.fv (.fin x)) (.fv (.fin (RF.ofInt i))) = .error err) := by
  refine ⟨by rw [RF.val_mul, pow2_val], ?_⟩
  rw [ldexp_eq_mul]
  have h := Fpy.Props.C02.mul_correct C hC x ⟨false, i, 1⟩
  have hap : ap C .mul [.fv (.fin x), .fv (.fin ⟨false, i, 1⟩)] =
      (opEvalFl C .mul [.fv (.fin x), .fv (.fin ⟨false, i, 1⟩)]).map (·.1) := rfl
  rw [hap]
  cases hr : C.roundAtCore (.fin (x.mul ⟨false, i, 1⟩)) none false 0 with
  | error err =>
    rw [hr] at h
    cases ho : opEvalFl C .mul [.fv (.fin x), .fv (.fin ⟨false, i, 1⟩)] with
    | error e2 => rw [ho] at h; simp only [OpAgree] at h; simp [Except.map, h]
    | ok pr => rw [ho] at h; simp [OpAgree] at h
  | ok r =>
    rw [hr] at h
    cases ho : opEvalFl C .mul [.fv (.fin x), .fv (.fin ⟨false, i, 1⟩)] with
    | error e2 => rw [ho] at h; simp [OpAgree] at h
    | ok pr =>
      obtain ⟨v, fl⟩ := pr
      rw [ho] at h; simp only [OpAgree] at h
      simp [Except.map, h.1]

/-! ## 3. The classic transformations -/

/-- **Fast2Sum** (`fast_2sum`, Dekker) — PARTIAL.  For a context that rounds to `p ≥ 1` digits on the grid of
the operands under `RNE` or `RNA`, operands with at most `p` significant digits and `|a| ≥ |b|` (the `assert`
of the source, on exact values): the function returns finite `(s, t)` with `s + t = a + b` exactly.
Instances: `fast_2sum_exact_mp` (every `MPFloatContext(p, ·)`), `fast_2sum_exact_mps` (every
`MPSFloatContext(p, emin, ·)`, subnormals included).  GAP: the bounded families `MPBFloat` / `EFloat` / `IEEE`
(same statement with "`s` does not overflow"; needs that no intermediate overflows) and operands whose
encoding carries more than `p` digits with trailing zeros — both covered by the exhaustive tests of
harness/c20.py only. -/
theorem fast_2sum_exact_partial (C : Ctx) (p : Nat) (hp : 1 ≤ p) (rm : RM) (hrm : rm = .rne ∨ rm = .rna)
    (a b : RF) (hC : FloatLike C p rm (min a.exp b.exp))
    (ha : bitLength a.c ≤ p) (hb : bitLength b.c ≤ p) (hab : a.abs.ge b.abs = true)
    (sv tv : NV) (h : fast2sum C (.fv (.fin a)) (.fv (.fin b)) = .ok (sv, tv)) :
    ∃ s t : RF, sv = .fv (.fin s) ∧ tv = .fv (.fin t) ∧ s.val + t.val = a.val + b.val :=
  fast2sum_floatLike C p hp rm hrm a b hC ha hb hab sv tv h

theorem fast_2sum_exact_mp (p : Nat) (hp : 1 ≤ p) (rm : RM) (hrm : rm = .rne ∨ rm = .rna) (o : Opts)
    (a b : RF) (ha : bitLength a.c ≤ p) (hb : bitLength b.c ≤ p) (hab : a.abs.ge b.abs = true)
    (sv tv : NV) (h : fast2sum (.mp p rm (some 0) o) (.fv (.fin a)) (.fv (.fin b)) = .ok (sv, tv)) :
    ∃ s t : RF, sv = .fv (.fin s) ∧ tv = .fv (.fin t) ∧ s.val + t.val = a.val + b.val :=
  fast2sum_floatLike _ p hp rm hrm a b (mp_floatLike p hp rm o _) ha hb hab sv tv h

/-- with subnormals: operands encoded on the grid of the format (`exp ≥ emin − p + 1`) -/
theorem fast_2sum_exact_mps (p : Nat) (hp : 1 ≤ p) (emin : Int) (rm : RM) (hrm : rm = .rne ∨ rm = .rna) (o : Opts)
    (a b : RF) (ha : bitLength a.c ≤ p) (hb : bitLength b.c ≤ p)
    (hae : emin - p + 1 ≤ a.exp) (hbe : emin - p + 1 ≤ b.exp) (hab : a.abs.ge b.abs = true)
    (sv tv : NV) (h : fast2sum (.mps p emin rm (some 0) o) (.fv (.fin a)) (.fv (.fin b)) = .ok (sv, tv)) :
    ∃ s t : RF, sv = .fv (.fin s) ∧ tv = .fv (.fin t) ∧ s.val + t.val = a.val + b.val :=
  fast2sum_floatLike _ p hp rm hrm a b (mps_floatLike p hp emin rm o _ (by omega)) ha hb hab sv tv h

/-- the integer core of Fast2Sum over `Spec.roundQuot` (`rndI p rm` = round to `p` digits): the intermediate
`s − A` and the error `A + B − s` are representable -/
theorem fast_2sum_integer (p : Nat) (hp : 1 ≤ p) (rm : RM) (hrm : rm = .rne ∨ rm = .rna)
    (A B a0 : Int) (ja : Nat) (hA : A = a0 * ((2 ^ ja : Nat) : Int)) (ha0 : a0.natAbs < 2 ^ p)
    (hB : B.natAbs < 2 ^ p) (hAB : B.natAbs ≤ A.natAbs) :
    rndI p rm (A + B) + rndI p rm (B - rndI p rm (rndI p rm (A + B) - A)) = A + B ∧
    rndI p rm (rndI p rm (A + B) - A) = rndI p rm (A + B) - A ∧
    rndI p rm (B - rndI p rm (rndI p rm (A + B) - A)) = A + B - rndI p rm (A + B) :=
  fast2sum_rndI p hp rm hrm A B a0 ja hA ha0 hB hAB

/-- **FMA-based 2Mul** (`fast_2mul`) — PARTIAL.  EVERY rounding mode; a context that rounds to `p ≥ 1` digits on
the grid `2^(a.exp + b.exp)` (the product of the last digits of the operands is representable: "no underflow of
the error term"), operands with at most `p` significant digits: the function returns finite `(r1, r2)` with
`r1 + r2 = a·b` exactly.  Instances `fast_2mul_exact_mp`, `fast_2mul_exact_mps`.  GAP: as for
`fast_2sum_exact_partial` (bounded families, redundant encodings). -/
theorem fast_2mul_exact_partial (C : Ctx) (p : Nat) (hp : 1 ≤ p) (rm : RM)
    (a b : RF) (hC : FloatLike C p rm (a.exp + b.exp)) (ha : bitLength a.c ≤ p) (hb : bitLength b.c ≤ p)
    (sv tv : NV) (h : fast2mul C (.fv (.fin a)) (.fv (.fin b)) = .ok (sv, tv)) :
    ∃ s t : RF, sv = .fv (.fin s) ∧ tv = .fv (.fin t) ∧ s.val + t.val = a.val * b.val :=
  fast2mul_floatLike C p hp rm a b hC ha hb sv tv h

theorem fast_2mul_exact_mp (p : Nat) (hp : 1 ≤ p) (rm : RM) (o : Opts)
    (a b : RF) (ha : bitLength a.c ≤ p) (hb : bitLength b.c ≤ p)
    (sv tv : NV) (h : fast2mul (.mp p rm (some 0) o) (.fv (.fin a)) (.fv (.fin b)) = .ok (sv, tv)) :
    ∃ s t : RF, sv = .fv (.fin s) ∧ tv = .fv (.fin t) ∧ s.val + t.val = a.val * b.val :=
  fast2mul_floatLike _ p hp rm a b (mp_floatLike p hp rm o _) ha hb sv tv h

/-- with subnormals: no underflow of the error term, `a.exp + b.exp ≥ emin − p + 1` -/
theorem fast_2mul_exact_mps (p : Nat) (hp : 1 ≤ p) (emin : Int) (rm : RM) (o : Opts)
    (a b : RF) (ha : bitLength a.c ≤ p) (hb : bitLength b.c ≤ p) (hu : emin - p + 1 ≤ a.exp + b.exp)
    (sv tv : NV) (h : fast2mul (.mps p emin rm (some 0) o) (.fv (.fin a)) (.fv (.fin b)) = .ok (sv, tv)) :
    ∃ s t : RF, sv = .fv (.fin s) ∧ tv = .fv (.fin t) ∧ s.val + t.val = a.val * b.val :=
  fast2mul_floatLike _ p hp rm a b (mps_floatLike p hp emin rm o _ hu) ha hb sv tv h

/-- before F39 `classic_2mul` raised `ValueError` for EVERY context and operands: `p = core.max_p()` was
evaluated inside `with fp.INTEGER:`, and the integer context has no maximum precision. -/
theorem classic_2mul_legacy_raises (C : Ctx) (a b : NV) : classic2mulLegacy C a b = .error .valueError := rfl


/-- before F38 `classic_2sum` (`bb = s - a` where Knuth and Møller have `bb = s - aa`) was NOT error free:
`MPSFloatContext(2, -3, RNE)`, `a = 1/16`, `b = 1/4`: `s = 1/4`, `t = 1/8`, `s + t = 3/8 ≠ 5/16`
(real code then, in binary64: `eft.classic_2sum(2.0**-53, 1.0)` returned `(1.0, 2**-52)`). -/
theorem classic_2sum_legacy_counterexample :
    (match classic2sumLegacy (.mps 2 (-3) .rne (some 0) {}) (.fv (.fin ⟨false, -4, 1⟩)) (.fv (.fin ⟨false, -2, 1⟩)) with
     | .ok (.fv (.fin s), .fv (.fin t)) =>
       decide (s.val + t.val ≠ (⟨false, -4, 1⟩ : RF).val + (⟨false, -2, 1⟩ : RF).val ∧ s.val + t.val = 3 / 8)
     | _ => false) = true := by decide +kernel

/-! ## Non-vacuity: the hypotheses are met by concrete non-trivial values (evaluated by the kernel) -/

-- ideal_2sum under a WRAPPING fixed-point context: 3 + 3 in 3-bit signed wraps to −2, t = 8; s + t = 6
example : (match ideal2sum (Ctx.fixed true 0 3 .rne .wrap (some 0) none none) (.fv (.fin ⟨false, 0, 3⟩)) (.fv (.fin ⟨false, 0, 3⟩)) with
    | .ok (.fv (.fin s), .fv (.fin t)) => decide (s.val = -2 ∧ t.val = 8)
    | _ => false) = true := by decide +kernel
-- fast_2sum under MPFloatContext(3, RNE): 7 + 5/4 = 8 + 1/4 (error term non-zero), hypotheses of the theorem hold
example : bitLength (7 : Nat) ≤ 3 ∧ bitLength (5 : Nat) ≤ 3 ∧ (RF.abs ⟨false, 0, 7⟩).ge (RF.abs ⟨false, -2, 5⟩) = true ∧
    (match fast2sum (.mp 3 .rne (some 0) {}) (.fv (.fin ⟨false, 0, 7⟩)) (.fv (.fin ⟨false, -2, 5⟩)) with
     | .ok (.fv (.fin s), .fv (.fin t)) => decide (s.val = 8 ∧ t.val = 1 / 4)
     | _ => false) = true := by decide +kernel
-- fast_2mul under MPSFloatContext(3, −4, RTZ): 7·5 = 35 = 32 + 3
example : (match fast2mul (.mps 3 (-4) .rtz (some 0) {}) (.fv (.fin ⟨false, 0, 7⟩)) (.fv (.fin ⟨false, 0, 5⟩)) with
     | .ok (.fv (.fin s), .fv (.fin t)) => decide (s.val = 32 ∧ t.val = 3)
     | _ => false) = true := by decide +kernel
-- split / modf / frexp / ldexp on 13/4 under MPFloatContext(4, RNE)
example : (match Lib.split (.mp 4 .rne (some 0) {}) (.fin ⟨true, -2, 13⟩) (.fin (RF.ofInt 0)) with
     | .ok (.fin h, .fin l) => decide (h.val = -2 ∧ l.val = -5 / 4) | _ => false) = true ∧
    (match modf (.mp 4 .rne (some 0) {}) (.fin ⟨true, -2, 13⟩) with
     | .ok (.fin i, .fin f) => decide (i.val = -3 ∧ f.val = -1 / 4) | _ => false) = true ∧
    (match frexp (.mp 4 .rne (some 0) {}) (.fin ⟨true, -2, 13⟩) with
     | .ok (.fin m, .fin e) => decide (m.val = -13 / 8 ∧ e.val = 1) | _ => false) = true ∧
    (match ldexp (.mp 2 .rne (some 0) {}) (.fv (.fin ⟨true, -2, 13⟩)) (.fv (.fin (RF.ofInt 3))) with
     | .ok (.fv (.fin r)) => decide (r.val = -24) | _ => false) = true := by decide +kernel

-- the repaired classic_2sum on the witness of `classic_2sum_legacy_counterexample`: (1/4, 1/16), exact
example : (match classic2sum (.mps 2 (-3) .rne (some 0) {}) (.fv (.fin ⟨false, -4, 1⟩)) (.fv (.fin ⟨false, -2, 1⟩)) with
     | .ok (.fv (.fin s), .fv (.fin t)) => decide (s.val = 1 / 4 ∧ t.val = 1 / 16) | _ => false) = true := by decide +kernel
-- the repaired classic_2mul with an ODD precision (3 digits, split point ceil(3/2) = 2): 3/4 · 3 = 2 + 1/4
example : (match classic2mul (.mp 3 .rne (some 0) {}) (.fv (.fin ⟨false, -2, 3⟩)) (.fv (.fin ⟨false, 0, 3⟩)) with
     | .ok (.fv (.fin s), .fv (.fin t)) => decide (s.val = 2 ∧ t.val = 1 / 4) | _ => false) = true := by decide +kernel
-- the repaired frexp refuses what it cannot represent: 32 under MPFloatContext(2)
example : (match frexp (.mp 2 .rne (some 0) {}) (.fin ⟨false, 5, 1⟩) with
     | .error .valueError => true | _ => false) = true := by decide +kernel

end Fpy.Props.C20
