/-
C03 — Elementary functions and constants are correctly rounded.
Property theorems only; the model of the wrapper is `Fpy/Model/Elem.lean`, helper lemmas are in
`Fpy/Proof/{Elem,ElemMain,ElemRat,ElemCode}.lean`, the re-rounding lemma is C02's (`Fpy/Proof/RoundOdd.lean`).

What is proved and what is validated.  MPFR is external and transcendental values are not computable, so MPFR enters
as an ORACLE `t : Nat → RF × Bool` ("at precision `q`, toward zero: this result, ternary value non-zero?").  PROVED
here: IF the oracle honours MPFR's contract for a value `v`, THEN `ops.<fn>(x, ctx=C)` — precision selection of
`mpfr_call`, `_round_odd`, the context's rounding — is the correct rounding of `v` under `C`, for every deterministic
context family and all eight modes (`elemEval C t`; `Ctx.det`, `Res.agree` as in C02: same value, same `inexact`, same
`overflow`).  VALIDATED per case by the harness (enclosure oracle): that MPFR honours the contract.

The contract is stated without real numbers (core Lean has none): `Coherent t` — the answers are non-zero, have at
most `q` digits (exactly `q` when flagged) and every coarser answer is the truncation of every finer one, flags OR-ed.
That is precisely "`t q` is the toward-zero truncation of ONE real `v` to `q` digits and the flag says `v ≠ t q`": a
coherent family is a binary expansion.  "The correct rounding of `v`" is the context's rounding of `refDyadic t W`
(the `W`-digit truncation plus half a unit in the last place when flagged), a dyadic number that lies strictly between
the same two consecutive `W`-digit numbers as `v`, for ANY `W` from the working precision upward; the theorem holds
for all such `W` at once, so the choice is immaterial (`correct_rounding_well_defined`).
-/
import Fpy.Proof.ElemMain
import Fpy.Proof.ElemRat
import Fpy.Proof.ElemCode
namespace Fpy.C03
open Fpy Fpy.Spec

/-! ## 1. The wrapper is correct for every value MPFR answers coherently about -/

/-- **Main theorem.**  `t` honours the contract for some real value (`Coherent t`); `C` any deterministic context.
Then `ops.<fn>` / `ops.const_*` under `C` returns (value, `inexact`, `overflow`) what `C` makes of the dyadic stand-in
of the value at any level `W` at or above the working precision the wrapper chose.

`_partial`: the statement is complete inside Lean; what is NOT formal is the passage to real numbers (none in core
Lean): (i) every real `v ≠ 0` yields a coherent family and vice versa, (ii) `refDyadic t W` rounds like `v` because it
compares with every `W`-digit number as `v` does.  Both are formal for dyadic `v` (`wrapper_correct_dyadic`: the stand-in
is `v` itself) and, at the level of the arithmetic specification, for every rational `v`
(`wrapper_correct_rat` + `rat_standin_is_code` + `rational_code_rounds`). -/
theorem wrapper_correct_partial (C : Ctx) (hC : C.det) (t : Oracle) (ht : Coherent t) (W : Nat)
    (hW : workPrec C.roundParams.1 C.roundParams.2 (t 1).1.e ≤ W) :
    Res.agree (elemEval C t) (C.roundAtCore (.fin (refDyadic t W)) none false 0) :=
  wrapper_coherent C hC t ht W hW

/-- the reference "correct rounding of `v`" does not depend on the level chosen -/
theorem correct_rounding_well_defined (C : Ctx) (hC : C.det) (t : Oracle) (ht : Coherent t) (W W' : Nat)
    (hW : workPrec C.roundParams.1 C.roundParams.2 (t 1).1.e ≤ W)
    (hW' : workPrec C.roundParams.1 C.roundParams.2 (t 1).1.e ≤ W') :
    Res.agree (C.roundAtCore (.fin (refDyadic t W)) none false 0) (C.roundAtCore (.fin (refDyadic t W')) none false 0) :=
  agree_trans (agree_symm (wrapper_coherent C hC t ht W hW)) (wrapper_coherent C hC t ht W' hW')

/-- **Dyadic values, full strength** (no stand-in): if MPFR answers, up to the working precision, with the
truncations of the exact dyadic `x` and the flags `x ≠ truncation`, the result is `C`'s rounding of `x` itself. -/
theorem wrapper_correct_dyadic (C : Ctx) (hC : C.det) (t : Oracle) (x : RF) (hx : x.c ≠ 0) (W : Nat)
    (hW : workPrec C.roundParams.1 C.roundParams.2 x.e ≤ W) (h : ∀ q, 1 ≤ q → q ≤ W → t q = truncRF x q) :
    Res.agree (elemEval C t) (C.roundAtCore (.fin x) none false 0) :=
  wrapper_dyadic C hC t x hx W hW h

/-- the contract oracle of a dyadic value IS coherent (the contract is satisfiable, and `truncRF` is the
truncation the contract speaks of) -/
theorem dyadic_oracle_coherent (x : RF) (hx : x.c ≠ 0) : Coherent (truncRF x) := truncRF_coherent x hx

/-- **Rational values** `v = ±(N/D)·2^E`, `1/2 ≤ N/D < 1` (every non-zero rational has this form): the oracle
"`⌊N·2^q/D⌋`, remainder ≠ 0" is coherent, hence the wrapper returns `C`'s rounding of the stand-in
`(2·⌊N·2^W/D⌋ + [remainder ≠ 0]) · 2^(E−W−1)` (`rat_standin_is_code`), whose rounding on every grid of `2^K ≥ 2` units
is the rounding of the rational itself (`rational_code_rounds`). -/
theorem wrapper_correct_rat (C : Ctx) (hC : C.det) (neg : Bool) (N D : Nat) (E : Int) (h1 : D ≤ 2 * N) (h2 : N < D)
    (W : Nat) (hW : workPrec C.roundParams.1 C.roundParams.2 (normOracle neg N D E 1).1.e ≤ W) :
    Coherent (normOracle neg N D E) ∧
    Res.agree (elemEval C (normOracle neg N D E)) (C.roundAtCore (.fin (refDyadic (normOracle neg N D E) W)) none false 0) :=
  ⟨normOracle_coherent neg N D E h1 h2, wrapper_coherent C hC _ (normOracle_coherent neg N D E h1 h2) W hW⟩

/-- the stand-in of an inexact rational at level `W` has the significand `ratCode (N·2^W) D = 2·⌊N·2^W/D⌋ + 1` -/
theorem rat_standin_is_code (neg : Bool) (N D : Nat) (E : Int) (W : Nat) (h : N * 2 ^ W % D ≠ 0) :
    refDyadic (normOracle neg N D E) W = ⟨neg, E - (W : Int) - 1, ratCode (N * 2 ^ W) D⟩ := by
  unfold refDyadic normOracle ratCode
  simp [h]

/-- **The one step from the stand-in to the value, for every rational.**  `ratCode N D = 2·⌊N/D⌋ + [N/D ∉ ℤ]` (C02's
`realCode (N / D) (N % D != 0)`) is the stand-in's significand in units of half the last place.  On every grid of
`2^K ≥ 2` units, rounding the code (`Spec.roundQuot` on the doubled grid) IS rounding the rational `N/D`
(`Spec.roundQuotG`: `N` against the multiples and midpoints of `D·2^K`), in all eight modes and for both signs; and the
code is a grid point exactly when the rational is.  Composed with C01 (`round_fixed_correct`, `round_float_correct`:
the contexts compute `roundQuot` of the significand), this closes the rational case at the level of the
arithmetic specification. -/
theorem rational_code_rounds (rm : RM) (s : Bool) (N D K : Nat) (hD : 0 < D) (hK : 1 ≤ K) :
    roundQuot rm s (ratCode N D) (K + 1) = roundQuotG rm s N (D * 2 ^ K) ∧
    (ratCode N D % 2 ^ (K + 1) = 0 ↔ N % (D * 2 ^ K) = 0) :=
  ratCode_rounds rm s N D K hD hK

/-- the wrapper on MPFR's conversion of a non-dyadic `Fraction` is, literally, `Context.round(Fraction)` of the C01
model (`_round_prepare` → `mpfr_value` → `_round_at`); the harness uses this to run the wrapper model through the
existing driver line `round <ctx> Q<n>/<d>` on a rational inside the final enclosure of the true value -/
theorem elemEval_rat_eq_round (C : Ctx) (num : Int) (den : Nat) (hd1 : den ≠ 1) (hd2 : isPow2 den = false)
    (hnz : (truncRat num.natAbs den 2).1 ≠ 0) :
    elemEval C (ratOracle (num < 0) num.natAbs den) = C.round (.frac num den) :=
  elemEval_rat C num den hd1 hd2 hnz

/-! ## 2. The final rounding only depends on the leading digits and the flag -/

/-- **`rto_determined`.**  Two values with the same truncation (digits AND inexact bit) at every precision up to
the working precision — in particular two values with the same `(p+2)`-digit truncation and flag under a `p`-digit
float context — are rounded alike by `C`: value, `inexact`, `overflow`.  This is the sense in which the result
"only depends on comparisons of `v` with dyadic breakpoints": it transfers verbatim from a rational to an irrational
with the same leading digits. -/
theorem rto_determined (C : Ctx) (hC : C.det) (x w : RF) (hx : x.c ≠ 0) (hw : w.c ≠ 0) (W : Nat)
    (hW : workPrec C.roundParams.1 C.roundParams.2 x.e ≤ W)
    (h : ∀ q, 1 ≤ q → q ≤ W → truncRF x q = truncRF w q) :
    Res.agree (C.roundAtCore (.fin x) none false 0) (C.roundAtCore (.fin w) none false 0) :=
  determined_dyadic C hC x w hx hw W hW h

/-- the same on integers, against the arithmetic specification `Spec.roundQuot`: magnitudes `c`, `c'` with the same
digits above `2^j` and the same "anything below?" status round to the same multiple of `2^k` whenever two digits
separate the positions, in every mode, and are exact together -/
theorem rto_determined_nat (rm : RM) (s : Bool) (c c' j k : Nat) (h : j + 2 ≤ k)
    (hq : c / 2 ^ j = c' / 2 ^ j) (hf : c % 2 ^ j = 0 ↔ c' % 2 ^ j = 0) :
    roundQuot rm s c k = roundQuot rm s c' k ∧ (c % 2 ^ k = 0 ↔ c' % 2 ^ k = 0) :=
  determined_nat rm s c c' j k h hq hf

/-! ## 3. Precision selection -/

/-- **`two_pass_precision`** (`mpfr_call` with `prec is None`: fixed-point contexts).  Two digits first; if the
leading digit lies at or below `n` (`e ≤ n`) they suffice, else `e − n + 2` digits are asked for.  The intermediate
is the round-to-odd of the value at exactly the precision `rto_round_fixed` requires; when digits are dropped the last
one kept sits at position `n − 1` (one guard digit, one sticky digit); and rounding the intermediate at `n` gives the
same `RealFloat` and flags as rounding the value. -/
theorem two_pass_precision (t : Oracle) (x : RF) (hx : x.c ≠ 0) (n : Int) (rm : RM) (W : Nat)
    (hW : workPrec none (some n) x.e ≤ W) (h : ∀ q, 1 ≤ q → q ≤ W → t q = truncRF x q) :
    ∃ y r fl fl', mpfrCallModel t none (some n) = .ok y ∧
      y = (if x.e ≤ n then rtoRF x 2 else rtoRF x ((x.e - n).toNat + 2)) ∧
      (x.e ≤ n ∨ y = x ∨ y.exp = n - 1) ∧
      x.roundAtCore none n none rm false = .ok (r, fl) ∧ y.roundAtCore none n none rm false = .ok (r, fl') ∧
      fl'.inexact = fl.inexact ∧ fl'.overflow = fl.overflow := by
  obtain ⟨r, fl, fl', a1, a2, a3, a4⟩ := rto_round_fixed x n rm hx
  refine ⟨_, r, fl, fl', ?_, rfl, ?_, a1, a2, a3, a4⟩
  · rw [mpfrCall_of_agree t x hx none (some n) W hW h]
    unfold mpfrRtoRF
    simp only [hx, if_false]
    split <;> rfl
  · by_cases hen : x.e ≤ n
    · exact Or.inl hen
    · right
      simp only [hen, if_false]
      by_cases hk : x.p ≤ (x.e - n).toNat + 2
      · left; exact rtoRF_keep x _ hk
      · right; rw [rtoRF_drop x _ hk]; simp only; unfold RF.e at *; omega

/-- float contexts ask for `p + 2` digits; together with C02's `rto_round_float` that is enough for every mode
(and ONE guard digit is not: C02 `rto_reround_one_guard_digit_counterexample`) -/
theorem float_precision (t : Oracle) (p : Nat) (n : Option Int) :
    mpfrCallModel t (some p) n = .ok (roundOdd (t (p + 2)).1 (t (p + 2)).2) := rfl

/-! ## 4. Exactly representable results -/

/-- **`exact_cases`** (exp 0, log 1, pow(2, 10), …).  If the true result `x` fits in the working precision, MPFR's
ternary value is zero, no sticky bit is set and the wrapper hands the context `x` itself: the final result is
literally `C`'s rounding of `x`, flags included … -/
theorem exact_cases (C : Ctx) (hC : C.det) (t : Oracle) (x : RF) (hx : x.c ≠ 0) (W : Nat)
    (hW : workPrec C.roundParams.1 C.roundParams.2 x.e ≤ W) (h : ∀ q, 1 ≤ q → q ≤ W → t q = truncRF x q)
    (hfit : x.p ≤ workPrec C.roundParams.1 C.roundParams.2 x.e) :
    elemEval C t = C.roundAtCore (.fin x) none false 0 := by
  unfold elemEval
  rw [wrapper_exact t x hx _ _ (det_params' C hC) W hW h hfit]

/-- … in particular under `MPFloatContext(p)` a result with at most `p` digits is returned exactly and NOT flagged
inexact (nor overflow) -/
theorem exact_cases_mp (p : Nat) (rm : RM) (o : Opts) (hp : 1 ≤ p) (t : Oracle) (x : RF) (hx : x.c ≠ 0) (hxp : x.p ≤ p)
    (W : Nat) (hW : p + 2 ≤ W) (h : ∀ q, 1 ≤ q → q ≤ W → t q = truncRF x q) :
    ∃ fl, elemEval (.mp p rm (some 0) o) t = .ok ⟨.fin x, fl⟩ ∧ fl.inexact = false ∧ fl.overflow = false :=
  exact_mp p rm o hp t x hx hxp W hW h

/-! ## 5. The constant table: single primitives versus compositions (candidate defect F9) -/

/-- **`constant_shape`.**  Of the thirteen entries, six are ONE MPFR primitive on literals — the oracle contract, hence
`wrapper_correct_partial`, applies to them as to any function; `SQRT1_2` composes `sqrt` with the division `1/2`, which
is exact at every precision; the remaining six feed an already TRUNCATED inner result to an outer operation whose
ternary value is all `_round_odd` gets to see. -/
theorem constant_shape :
    constTable.map (fun kv => (kv.1, kv.2.kind)) =
      [("E", .single), ("LOG2E", .composed), ("LOG10E", .composed), ("LN2", .single), ("LN10", .single), ("PI", .single),
       ("PI_2", .composed), ("PI_4", .composed), ("M_1_PI", .composed), ("M_2_PI", .composed), ("M_2_SQRTPI", .composed),
       ("SQRT2", .single), ("SQRT1_2", .composedExactInner)] := by decide

/-- **`composed_constant_unsound`** — the mechanism of F9 in the model.  `lambda: gmp.const_pi() / 2` under
`MPFloatContext(2, RTP)`: the working precision is 4 digits, the inner primitive returns `3.0` (inexact), the division
by two is exact, so `rc = 0`, no sticky bit: the wrapper hands `1.5` to the context, which returns `1.5`, NOT flagged.
The value `201/128 = 1.57…` rounds up to `2.0`, flagged — which is what the same wrapper returns when the inner
ternary value is kept (`scaleOracle`), and what `Context.round` makes of the fraction itself. -/
theorem composed_constant_unsound :
    (elemEval (.mp 2 .rtp (some 0) {}) (composedScale piLike 1)).toOption = some ⟨.fin ⟨false, -1, 3⟩, {}⟩ ∧
    (elemEval (.mp 2 .rtp (some 0) {}) (scaleOracle piLike 1)).toOption = some ⟨.fin ⟨false, 0, 2⟩, { inexact := true, carry := true }⟩ ∧
    ((Ctx.mp 2 .rtp (some 0) {}).round (.frac 201 128)).toOption = some ⟨.fin ⟨false, 0, 2⟩, { inexact := true, carry := true }⟩ := by
  decide

/-- the composed entry is not even monotone in quality: at a precision where the discarded digits happen to be
zeros it is right (3 digits, RNE) — the defect shows up at some (precision, mode) pairs only, as the harness finds -/
theorem composed_constant_sometimes_right :
    (elemEval (.mp 3 .rne (some 0) {}) (composedScale piLike 1)).toOption =
      (elemEval (.mp 3 .rne (some 0) {}) (scaleOracle piLike 1)).toOption := by
  decide

/-- **The repair of `PI_2` / `PI_4` is sound.**  Scaling the exponent of the SINGLE primitive's answer and keeping its
ternary value gives a coherent family again — the contract oracle of `v / 2^k` — whose stand-in at every level is
the stand-in of `v` scaled; so `wrapper_correct_partial` applies to the repaired entries. -/
theorem scale_fix_sound (t : Oracle) (ht : Coherent t) (k : Nat) :
    Coherent (scaleOracle t k) ∧ ∀ W, refDyadic (scaleOracle t k) W = shiftRF (refDyadic t W) k :=
  ⟨scale_coherent t ht k, fun W => refDyadic_scale t k W⟩

/-! ## 6. Non-vacuity -/

-- a deterministic float context and a fixed-point one; their working precisions for a value with exponent 1 (π)
example : (Ctx.mp 24 .rne (some 0) {}).det := ⟨rfl, by decide⟩
example : workPrec (Ctx.mp 24 .rne (some 0) {}).roundParams.1 (Ctx.mp 24 .rne (some 0) {}).roundParams.2 1 = 26 := by decide
example : workPrec (Ctx.mpfix (-8) .rne (some 0) true {}).roundParams.1 (Ctx.mpfix (-8) .rne (some 0) true {}).roundParams.2 1 = 11 := by decide
-- a coherent family of a non-dyadic value: 1/3 = (2/3)·2^-1, digits 10, 101, 1010, … all flagged
example : Coherent (normOracle false 2 3 (-1)) := normOracle_coherent false 2 3 (-1) (by decide) (by decide)
example : normOracle false 2 3 (-1) 4 = (⟨false, -5, 10⟩, true) := by decide
example : refDyadic (normOracle false 2 3 (-1)) 4 = ⟨false, -6, 21⟩ := by decide
-- 7/3 to the nearest multiple of 2: its code is 5 = 2·2 + 1; on the doubled grid 5/4 rounds to 1, as 7/6 does; an exact tie (3 = 9/3) stays a tie
example : ratCode 7 3 = 5 ∧ roundQuot .rne false (ratCode 7 3) 2 = 1 ∧ roundQuotG .rne false 7 (3 * 2 ^ 1) = 1 := by decide
example : ratCode 9 3 = 6 ∧ roundQuot .rne false (ratCode 9 3) 2 = 2 ∧ roundQuotG .rne false 9 (3 * 2 ^ 1) = 2 ∧ roundQuotG .rtz false 9 (3 * 2 ^ 1) = 1 := by decide
-- exp 0 = 1 under a 5-digit context: exact, unflagged
example : (elemEval (.mp 5 .rtp (some 0) {}) (truncRF ⟨false, 0, 1⟩)).toOption = some ⟨.fin ⟨false, 0, 1⟩, {}⟩ := by decide
-- pow(2, 10) = 1024 under a 3-digit context: exact, unflagged; under fixed point with 2 fractional digits likewise
example : (elemEval (.mp 3 .rne (some 0) {}) (truncRF ⟨false, 10, 1⟩)).toOption = some ⟨.fin ⟨false, 10, 1⟩, {}⟩ := by decide
example : (elemEval (.mpfix (-3) .rne (some 0) true {}) (truncRF ⟨false, 10, 1⟩)).toOption.map (·.fl.inexact) = some false := by decide
-- the sticky bit matters: 1 + 2^-20 (exp(2^-20) to 21 digits) under 3 digits RTP is 1.25, and 1 under RTZ; both flagged
example : (elemEval (.mp 3 .rtp (some 0) {}) (truncRF ⟨false, -20, 2 ^ 20 + 1⟩)).toOption = some ⟨.fin ⟨false, -2, 5⟩, { inexact := true }⟩ := by decide
example : (elemEval (.mp 3 .rtz (some 0) {}) (truncRF ⟨false, -20, 2 ^ 20 + 1⟩)).toOption = some ⟨.fin ⟨false, -2, 4⟩, { inexact := true }⟩ := by decide
-- two-pass branch: 22026.46… ≈ exp 10 as 22026 + 15/32 under fixed point with 3 fractional digits: 15 + 3 + 2 digits asked for
example : workPrec none (some (-4)) (⟨false, -5, 22026 * 32 + 15⟩ : RF).e = 20 := by decide
example : (mpfrCallModel (truncRF ⟨false, -5, 22026 * 32 + 15⟩) none (some (-4))).toOption = some ⟨false, -5, 22026 * 32 + 15⟩ := by decide
-- … and a tiny value entirely below the last place: 2 digits suffice, RTP rounds up to one unit 2^-3
example : (elemEval (.mpfix (-4) .rtp (some 0) true {}) (truncRF ⟨false, -40, 5⟩)).toOption.map (·.v) = some (.fin ⟨false, -3, 1⟩) := by decide
-- the hypotheses of `elemEval_rat_eq_round` at the F9 stand-in value
example : (64 : Nat) ≠ 1 ∧ isPow2 128 = true ∧ isPow2 3 = false ∧ (truncRat 2 3 2).1 ≠ 0 := by decide

end Fpy.C03
