import Fpy.Model.Lang.Core
namespace Fpy.Props.C09
theorem placeholder : True := trivial
end Fpy.Props.C09
