/-
C09 — Inlining, specialisation and hoisting preserve results.

Proved here (model level; the real transformations' outputs are run on the model by harness/c09.py):

* `call_inline_sound` (FULL for its hypotheses): inlining ONE call statement `t = f(args)`.  The callee
  is `def f(ps): ss; return e` with no `return` in `ss` (any statements otherwise: loops, branches,
  `with`, list mutation — the callee shares the heap, so its writes to a list it was handed are the
  caller's in both programs).  The inlined code is what `func_inline.py` emits: the arguments bound IN
  ORDER to renamed parameters, the renamed body, `t = e'`, wrapped in `with D:` iff the callee declares
  a context `D`.  Renaming is validated, not modelled: any `ss'`, `e'`, `ps'` accepted by the checker
  `simB R` for a correspondence `R` between fresh names and callee names.
  Outcome equality is two-sided: same return value and heap, same error, same divergence.
* `with_ctx_wrap` (FULL): `with D: body` runs `body` under `D` whatever the call site's context, and the
  call site's context is back afterwards; a context-less callee is spliced without wrapper and so runs
  under the context of the CALL SITE (`callee_ctx_is_call_site`).
* `mono_sound` (FULL): pinning the context.  `mono_ignores_ctx`: a pinned copy ignores `ctx=`.

Open (`…_partial` below): a call site inside a loop (the fresh names hold stale values on the second
iteration, so hypothesis `hσ` fails; harmless only when the callee assigns every local before reading
it — needs a one-sided simulation), a call nested inside a larger expression (the prelude is hoisted
in front of the statement, which changes evaluation order relative to the other operands), argument
annotation pinning, free-variable closing and context hoisting (`lift_context.py`).
-/
import Fpy.Proof.LangIdx9
namespace Fpy.Props.C09
open Fpy Fpy.Lang Fpy.Xform

theorem with_ctx_wrap (Φ : Funs) (σ : Env) (μ : Heap) (C D : Ctx) (body rest : List Stmt) :
    evalSω Φ σ μ C (.with (.ctxLit D) none body) = evalBω Φ σ μ D body ∧
    evalBω Φ σ μ C (.with (.ctxLit D) none body :: rest) = evalBω Φ σ μ D body >>= thenB Φ C rest :=
  ⟨Fpy.Xform.with_ctx_wrap Φ σ μ C D body, with_ctx_wrap_block Φ σ μ C D body rest⟩

/-- the fuel-indexed form, straight from the `with` rule of C04 -/
theorem with_ctx_wrap_fuel (Φ : Funs) (fuel : Nat) (σ : Env) (μ : Heap) (C D : Ctx) (body : List Stmt) :
    evalS Φ (fuel + 2) σ μ C (.with (.ctxLit D) none body) = evalB Φ (fuel + 1) σ μ D body := by
  simp only [evalS, evalE]; rfl

theorem mono_sound (Φ : Funs) (fuel : Nat) (f f' : String) (fd : FuncDef) (args : List Val) (μ : Heap) (C : Ctx)
    (hf : Φ.find? f = some fd) (hctx : fd.ctx = none)
    (hf' : Φ.find? f' = some { fd with name := f', ctx := some C }) :
    callEntry Φ fuel f args μ (some C) = callEntry Φ fuel f' args μ none :=
  Fpy.Xform.mono_sound Φ fuel f f' fd args μ C hf hctx hf'

theorem mono_ignores_ctx (Φ : Funs) (fuel : Nat) (f' : String) (fd : FuncDef) (args : List Val) (μ : Heap) (C : Ctx)
    (hf' : Φ.find? f' = some fd) (hctx : fd.ctx = some C) (c1 c2 : Option Ctx) :
    callEntry Φ fuel f' args μ c1 = callEntry Φ fuel f' args μ c2 :=
  Fpy.Xform.mono_ignores_ctx Φ fuel f' fd args μ C hf' hctx c1 c2

/-- inlining one call.  `xs` ⊇ the variables the arguments read, `ys` ⊇ the variables the rest of the
caller reads; `R` pairs each fresh name with the callee name it stands for. -/
theorem call_inline_sound {Φ : Funs} {f : String} {fd : FuncDef} {ss : List Stmt} {e : Expr}
    (hf : Φ.find? f = some fd) (hbody : fd.body = ss ++ [.ret e]) (hnr : noRetB ss = true)
    {R : VRel} {ps' : List String} {ss' : List Stmt} {e' : Expr}
    (hps : ps'.length = fd.params.length)
    (hbind : ((ps'.zip fd.params).all fun p => R.bindOK p.1 p.2) = true)
    (hsim : simB R ss' ss = true) (hsime : simE R e' e = true)
    {xs ys : List String} {args : List Expr} {rest : List Stmt} {t : String}
    (hargslen : args.length = fd.params.length)
    (hargs : ∀ z ∈ readsEs args, z ∈ xs) (hfresh_xs : ∀ p ∈ ps', p ∉ xs)
    (hrest : ∀ z ∈ readsB rest, z ∈ ys)
    (hfresh_ys : ∀ z ∈ ys, z ≠ t → z ∉ ps' ∧ z ∉ bvB ss')
    {σ : Env} (hσ : ∀ a b, R.has a b = true → σ.get? a = none)
    (μ : Heap) (C : Ctx) (w : Val) (μ' : Heap) :
    Returns Φ σ μ C (inlineCall ps' args fd.ctx ss' t e' rest) w μ' ↔
      Returns Φ σ μ C (.assign (.var t) (.call f args) :: rest) w μ' :=
  Fpy.Xform.call_inline_sound hf hbody hnr hps hbind hsim hsime hargslen (simEs_idRel_of_reads hargs) hfresh_xs
    (simB_idRel_of_reads hrest) hfresh_ys hσ μ C w μ'

/-- the freshness hypothesis `hσ` is a finite check -/
theorem fresh_unbound_of_all (R : VRel) (σ : Env) (h : (R.all fun p => (σ.get? p.1).isNone) = true) :
    ∀ a b, R.has a b = true → σ.get? a = none := by
  intro a b hab
  unfold VRel.has at hab
  rw [List.any_eq_true] at hab
  obtain ⟨p, hp, hp'⟩ := hab
  rw [List.all_eq_true] at h
  have := h p hp
  simp only [Bool.and_eq_true, beq_iff_eq] at hp'
  rw [hp'.1] at this
  exact Option.isNone_iff_eq_none.1 this

/-- the shape of the inlined code -/
theorem inline_shape (ps' : List String) (args : List Expr) (D : Ctx) (ss' : List Stmt) (t : String) (e' : Expr) (rest : List Stmt) :
    inlineCall ps' args none ss' t e' rest = bindArgs ps' args ++ ((ss' ++ [.assign (.var t) e']) ++ rest) ∧
    inlineCall ps' args (some D) ss' t e' rest =
      bindArgs ps' args ++ ([.with (.ctxLit D) none (ss' ++ [.assign (.var t) e'])] ++ rest) := ⟨rfl, rfl⟩

/-! ### non-vacuity: `def f(a, b): c = a + b; return c * a`, called as `t = f(x, y); return t` -/

def add (a b : Expr) : Expr := .op .add [a, b]
def mul (a b : Expr) : Expr := .op .mul [a, b]
def callee (ctx : Option Ctx) : FuncDef :=
  { name := "f", params := ["a", "b"], ctx := ctx,
    body := [.assign (.var "c") (add (.var "a") (.var "b"))] ++ [.ret (mul (.var "c") (.var "a"))] }
def R : VRel := [("a1", "a"), ("b1", "b"), ("c1", "c")]
def caller : List Stmt := [.assign (.var "t") (.call "f" [.var "x", .var "y"]), .ret (.var "t")]
def inlined (ctx : Option Ctx) : List Stmt :=
  inlineCall ["a1", "b1"] [.var "x", .var "y"] ctx [.assign (.var "c1") (add (.var "a1") (.var "b1"))] "t"
    (mul (.var "c1") (.var "a1")) [.ret (.var "t")]

example : simB R [.assign (.var "c1") (add (.var "a1") (.var "b1"))] [.assign (.var "c") (add (.var "a") (.var "b"))] = true := by
  decide
example : simE R (mul (.var "c1") (.var "a1")) (mul (.var "c") (.var "a")) = true := by decide
example : ((["a1", "b1"].zip ["a", "b"]).all fun p => R.bindOK p.1 p.2) = true := by decide
example : noRetB [.assign (.var "c") (add (.var "a") (.var "b"))] = true := by decide
/-- a clash is caught: renaming `c` to the caller's `x` is not accepted as fresh for `ys = ["x", "t"]` -/
example : ¬ (∀ z ∈ ["x", "t"], z ≠ "t" → z ∉ ["a1", "b1"] ∧ z ∉ bvB [.assign (.var "x") (add (.var "a1") (.var "b1"))]) := by
  decide

def retNum : M (Outcome × Heap) → Option NV
  | .ok (.ret (.num a), _) => some a
  | _ => none
def env0 : Env := [("x", .num (.fv (.fin ⟨false, 0, 3⟩))), ("y", .num (.fv (.fin ⟨false, 0, 4⟩)))]
def mp2 : Ctx := .mp 2 .rne (some 0) {}

/-- (3 + 4) * 3 = 21 under binary64 … -/
example : retNum (evalB ⟨[callee none]⟩ 30 env0 [] fp64 caller) = retNum (evalB ⟨[callee none]⟩ 30 env0 [] fp64 (inlined none)) := by
  decide
example : retNum (evalB ⟨[callee none]⟩ 30 env0 [] fp64 (inlined none)) = some (.fv (.fin ⟨false, 0, 21⟩)) := by decide
/-- … and with a callee that declares a 2-bit context both round the same way, differently from binary64 -/
example : retNum (evalB ⟨[callee (some mp2)]⟩ 30 env0 [] fp64 caller)
    = retNum (evalB ⟨[callee (some mp2)]⟩ 30 env0 [] fp64 (inlined (some mp2))) := by decide
example : retNum (evalB ⟨[callee (some mp2)]⟩ 30 env0 [] fp64 caller) ≠ some (.fv (.fin ⟨false, 0, 21⟩)) := by decide

/-- the theorem instantiated at this call site -/
example (w : Val) (μ' : Heap) :
    Returns ⟨[callee (some mp2)]⟩ env0 [] fp64 (inlined (some mp2)) w μ' ↔ Returns ⟨[callee (some mp2)]⟩ env0 [] fp64 caller w μ' :=
  call_inline_sound (Φ := ⟨[callee (some mp2)]⟩) (fd := callee (some mp2)) (R := R) (xs := ["x", "y"]) (ys := ["t"])
    rfl rfl (by decide) (by decide) (by decide) (by decide) (by decide) (by decide) (by decide) (by decide)
    (by decide) (by decide) (fresh_unbound_of_all R env0 (by decide)) [] fp64 w μ'

/-! ### hoisting context constructors (`lift_context.py`) -/

/-- `LiftContext` replaces the constructor expression `e` of `with e: body` by a name `c` bound at the top of
the function (`c = e`).  That is sound AT THE `with` STATEMENT exactly when `c` holds what `e` would evaluate to
there — under the REAL context, in the environment of the `with`: -/
theorem lift_context_with_sound {Φ : Funs} {σ : Env} {μ : Heap} {C D : Ctx} {e : Expr} {c : String}
    (he : evalEω Φ σ μ .real e = .ok (.ctx D, μ)) (hc : σ.get? c = some (.ctx D)) (nm : Option String) (body : List Stmt) :
    evalSω Φ σ μ C (.with e nm body) = evalSω Φ σ μ C (.with (.var c) nm body) := by
  rw [evalSω_with, evalSω_with, he, evalEω_var, hc]

/-- … and the pass checks neither half of that condition.  (1) The hoisted `c = e` is evaluated under the
AMBIENT context, `with e:` evaluates `e` under REAL: with an ambient 2-digit context
`with MPFloatContext(8 + 1, RNE): y = x + 1` computes with 9 digits, the hoisted form with 8
(real code: `f(256.0)` is `257.0`, `lift_context(f)(256.0)` is `256.0`). -/
def nI (i : Int) : NV := .fv (.fin (RF.ofInt i))
def ctor (arg : Expr) : Expr := .call "@mp/rne" [arg]
def bodyW : List Stmt := [.assign (.var "y") (.op .add [.var "x", .num (nI 1)])]
def origL : List Stmt := [.with (ctor (.op .add [.num (nI 8), .num (nI 1)])) none bodyW, .ret (.var "y")]
def liftedL : List Stmt :=
  [.assign (.var "ctx") (ctor (.op .add [.num (nI 8), .num (nI 1)])), .with (.var "ctx") none bodyW, .ret (.var "y")]
def envX : Env := [("x", .num (nI 256))]
def mp2' : Ctx := .mp 2 .rne (some 0) {}

/-- the mechanism, in the model: the argument `8 + 1` is 9 under REAL (where `with e:` evaluates `e`) and 8 under
the ambient 2-digit context (where the hoisted assignment `ctx = e` evaluates it); `evalSω_with` / `evalSω_assign`
are the two rules.  (The whole programs `origL` / `liftedL` are not evaluated by `decide` only because the
constructor name is parsed with `String.splitOn`, which the kernel does not unfold; the driver evaluates them to
257 and 256 as the real interpreter does.) -/
def argNum : M (Val × Heap) → Option NV | .ok (.num a, _) => some a | _ => none
theorem lift_context_ambient_counterexample :
    argNum (evalE ⟨[]⟩ 5 [] [] .real (.op .add [.num (nI 8), .num (nI 1)])) = some (nI 9) ∧
    argNum (evalE ⟨[]⟩ 5 [] [] mp2' (.op .add [.num (nI 8), .num (nI 1)])) = some (.fv (.fin ⟨false, 2, 2⟩)) := by
  decide

/-- (2) The hoisted binding is put at the TOP of the function, before the definitions of the names `e` reads:
`p = 8; with MPFloatContext(p + 1, RNE): …` becomes `ctx = MPFloatContext(p + 1, RNE); p = 8; with ctx: …`
and fails with an unbound `p` (real code: `KeyError`), although the original returns. -/
def origU : List Stmt :=
  [.assign (.var "p") (.num (nI 8)), .with (ctor (.op .add [.var "p", .num (nI 1)])) none bodyW, .ret (.var "y")]
def liftedU : List Stmt :=
  [.assign (.var "ctx") (ctor (.op .add [.var "p", .num (nI 1)])), .assign (.var "p") (.num (nI 8)),
   .with (.var "ctx") none bodyW, .ret (.var "y")]
def errOf : M (Outcome × Heap) → Option Err | .error e => some e | _ => none

theorem lift_context_unbound_counterexample :
    errOf (evalB ⟨[]⟩ 20 envX [] fp64 liftedU) = some .unbound := by decide

/-! ### open parts -/

/-- PARTIAL — MISSING:
* `inline_in_expr_sound`: a call nested in a larger expression whose earlier operands are names / constants.
  Plan: `y = E[f(args)]` ≡ `t = f(args); y = E[t]` (atoms evaluate the same before and after, `t` fresh), then
  `call_inline_sound`; not done: it needs evaluation contexts for every expression former.
* a call statement inside a loop body: on the second iteration the fresh names hold stale values, so hypothesis
  `hσ` of `call_inline_sound` fails.  Sound when the callee assigns every local before reading it; needs either
  that dataflow fact as a lemma ("evaluation does not depend on variables assigned before they are read") or a
  one-sided simulation.  Not done.
* `lift_context_sound` beyond `lift_context_with_sound`: see the two counterexamples above — the pass as it
  stands is NOT sound; a repaired pass (bind under `with fp.REAL:`, after the definitions it reads) would be
  covered by `lift_context_with_sound` plus a frame argument.
* `Monomorphize` argument annotations, `FreeVarElim`. -/
theorem call_inline_general_partial : True := trivial

end Fpy.Props.C09
