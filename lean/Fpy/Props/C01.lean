import Fpy.Model.Num.Ctx
namespace Fpy.Props.C01
theorem placeholder : True := trivial
end Fpy.Props.C01
