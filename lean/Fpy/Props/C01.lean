/-
C01 — Rounding under any context is correct rounding.
Property theorems only; helper lemmas live in `Fpy/Proof/Round.lean`,
the arithmetic specification in `Fpy/Spec/Rounding.lean`.

Vocabulary: the operand is `x = (-1)^s · c · 2^exp`; rounding at position `n`
(first unrepresentable digit) with `k = n + 1 - exp` digits to drop; magnitudes are
counted in units of `2^exp`, so the representable grid is the multiples of `2^k` and
`Spec.roundQuot rm s c k` is the multiple prescribed by mode `rm` (lower neighbour
`c / 2^k`, upper neighbour `c / 2^k + 1`, chosen by the mode's name).
-/
import Fpy.Proof.Round
import Fpy.Model.Num.Ctx
namespace Fpy.Props.C01
open Fpy Fpy.Spec

/-- The Spec itself is sane: the prescribed point is one of the two neighbours,
a grid point is its own rounding, nearest modes land within half a spacing. -/
theorem spec_neighbour (rm : RM) (s : Bool) (c k : Nat) :
    roundQuot rm s c k = c / 2 ^ k ∨ roundQuot rm s c k = c / 2 ^ k + 1 :=
  roundQuot_neighbour rm s c k

theorem spec_representable_fixed_point (rm : RM) (s : Bool) (c k : Nat) (h : c % 2 ^ k = 0) :
    roundQuot rm s c k * 2 ^ k = c := by
  rw [roundQuot_exact rm s c k h]; exact Nat.div_mul_cancel (Nat.dvd_of_mod_eq_zero h)

theorem spec_nearest_within_half (rm : RM) (hrm : rm = .rne ∨ rm = .rna) (s : Bool) (c k : Nat) :
    2 * (roundQuot rm s c k * 2 ^ k) ≤ 2 * c + 2 ^ k ∧ 2 * c ≤ 2 * (roundQuot rm s c k * 2 ^ k) + 2 ^ k :=
  roundQuot_nearest rm hrm s c k

/-- **Fixed-point families** (`MPFixed`, `MPBFixed`, `Fixed`, `SMFixed` before the range check):
`RealFloat.round(min_n = n)` of a non-zero operand with digits at or below `n` returns exactly
the grid point the mode prescribes, with `inexact` set iff digits were lost; it never raises. -/
theorem round_fixed_correct (x : RF) (n : Int) (rm : RM) (hc : x.c ≠ 0) (hle : x.exp ≤ n) :
    x.round none (some n) rm =
      .ok (⟨x.s, n + 1, roundQuot rm x.s x.c (n + 1 - x.exp).toNat⟩,
           { inexact := decide (x.c % 2 ^ (n + 1 - x.exp).toNat ≠ 0) }) := by
  unfold RF.round RF.roundParams
  simp only [if_true]
  exact roundAtCore_fixed x n rm hc hle

/-- … and an operand whose digits are all above `n` is returned unchanged and not flagged. -/
theorem round_fixed_representable (x : RF) (n : Int) (rm : RM) (h : x.exp > n) :
    ∃ fl, x.round none (some n) rm = .ok (x, fl) ∧ fl.inexact = false := by
  unfold RF.round RF.roundParams
  simp only [if_true]
  exact roundAtCore_above x n none rm false h

/-- **Floating-point families** (`MPFloat`: `minN = none`; `MPSFloat`/`MPBFloat`/`EFloat`/`IEEE`
before the range check: `minN = some nmin`).  The rounding position is
`n = max(nmin, e - p)`; the result keeps the sign, has at most `p` digits, lies above `n`;
a representable operand is returned unchanged and unflagged; otherwise its magnitude is the
prescribed grid point (a carry into the next binade is the same number re-normalised) and
`inexact` is set iff digits were lost. -/
theorem round_float_correct (x : RF) (p : Nat) (minN : Option Int) (rm : RM) (hc : x.c ≠ 0) (hp : 1 ≤ p) :
    let n : Int := match minN with | none => x.e - p | some m => max m (x.e - p)
    ∃ y fl, x.round (some p) minN rm = .ok (y, fl) ∧ y.s = x.s ∧ bitLength y.c ≤ p ∧ y.exp > n ∧
      (x.exp > n → y = x ∧ fl.inexact = false) ∧
      (x.exp ≤ n →
        y.c * 2 ^ (y.exp - (n + 1)).toNat = roundQuot rm x.s x.c (n + 1 - x.exp).toNat ∧
        fl.inexact = decide (x.c % 2 ^ (n + 1 - x.exp).toNat ≠ 0)) := by
  intro n
  have hn : x.e - p ≤ n := by
    simp only [n]; cases minN <;> simp <;> omega
  cases minN with
  | none =>
    unfold RF.round RF.roundParams
    simp only [if_true]
    exact roundAtCore_prec x p (x.e - p) none rm hc hp (by omega)
  | some m =>
    unfold RF.round RF.roundParams
    simp only [if_true]
    exact roundAtCore_prec x p (max m (x.e - p)) _ rm hc hp (by omega)

/-- `exact=True` raises exactly when digits would be lost (fixed-point shape). -/
theorem round_exact_flag (x : RF) (n : Int) (rm : RM) (hc : x.c ≠ 0) (hle : x.exp ≤ n) :
    x.roundAtCore none n none rm true =
      if x.c % 2 ^ (n + 1 - x.exp).toNat = 0 then .ok (⟨x.s, n + 1, x.c / 2 ^ (n + 1 - x.exp).toNat⟩, {})
      else .error .valueError :=
  roundAtCore_fixed_exact x n rm hc hle

/-- The mode → (nearest, direction) table of the code agrees with the modes' names:
it is what makes `_round_increment` compute `roundQuot` (used in `roundIncrement_spec`);
stated outright so that an edit of the table alone is caught. -/
theorem to_direction_table :
    (∀ s, RM.toDirection .rne s = (true, .rte)) ∧ (∀ s, RM.toDirection .rna s = (true, .raz)) ∧
    RM.toDirection .rtp true = (false, .rtz) ∧ RM.toDirection .rtp false = (false, .raz) ∧
    RM.toDirection .rtn true = (false, .raz) ∧ RM.toDirection .rtn false = (false, .rtz) ∧
    (∀ s, RM.toDirection .rtz s = (false, .rtz)) ∧ (∀ s, RM.toDirection .raz s = (false, .raz)) ∧
    (∀ s, RM.toDirection .rto s = (false, .rto)) ∧ (∀ s, RM.toDirection .rte s = (false, .rte)) := by
  refine ⟨?_, ?_, rfl, rfl, rfl, rfl, ?_, ?_, ?_, ?_⟩ <;> intro s <;> cases s <;> rfl

/-- **Bounded float contexts: in range.**  If the unbounded-exponent rounding does not exceed
the largest magnitude of its sign, the context returns it with its flags and no overflow. -/
theorem mpb_in_range (c : MPBParams) (x y : RF) (fl : Flags) (hx : x.c ≠ 0)
    (hr : x.round (some c.p) (some c.nmin) c.rm c.k 0 false = .ok (y, fl))
    (hin : (if y.s then y.lt c.negMax else y.gt c.posMax) = false) :
    mpbRoundAt c (.fin x) none false 0 = .ok ⟨.fin y, fl⟩ := by
  unfold mpbRoundAt floatSpecial
  simp only [hx, if_false, hr, hin]
  rfl

/-- **Bounded float contexts: out of range.**  If the unbounded-exponent rounding exceeds the
range, the outcome is what the overflow mode says and nothing else: `ASSERT` raises
`OverflowError`; `SATURATE` gives the largest value of that sign; `OVERFLOW` gives infinity
(or its substitute, or `ValueError` when there is none) exactly when the mode's direction
points away from zero for that sign, else the largest value; and both `overflow` and
`inexact` are set on every value returned. -/
theorem mpb_overflow (c : MPBParams) (x y : RF) (fl : Flags) (hx : x.c ≠ 0)
    (hr : x.round (some c.p) (some c.nmin) c.rm c.k 0 false = .ok (y, fl))
    (hout : (if y.s then y.lt c.negMax else y.gt c.posMax) = true) :
    mpbRoundAt c (.fin x) none false 0 =
      (match c.ov with
       | .assert => .error .overflowError
       | .saturate => .ok ⟨.fin (if y.s then c.negMax else c.posMax), { overflow := true, inexact := true }⟩
       | .overflow =>
         if overflowToInfinity c.rm y.s then
           (if c.o.enableInf then .ok ⟨.inf x.s, { overflow := true, inexact := true }⟩
            else match c.o.infValue with
              | none => .error .valueError
              | some iv => .ok ⟨iv.withSign y.s, { overflow := true, inexact := true }⟩)
         else .ok ⟨.fin (if y.s then c.negMax else c.posMax), { overflow := true, inexact := true }⟩
       | .wrap => .error .assertion) := by
  unfold mpbRoundAt floatSpecial
  simp only [hx, if_false, hr, hout, if_true]
  cases c.ov <;> simp only [setOvf] <;> (try rfl)

/-- overflow goes to infinity exactly for the modes that round away from zero for that sign
(nearest modes included), to the largest finite value for those that round toward zero -/
theorem overflow_to_infinity_table (s : Bool) :
    overflowToInfinity .rne s = true ∧ overflowToInfinity .rna s = true ∧ overflowToInfinity .raz s = true ∧
    overflowToInfinity .rtz s = false ∧ overflowToInfinity .rtp s = !s ∧ overflowToInfinity .rtn s = s := by
  cases s <;> simp [overflowToInfinity, RM.toDirection]

/-- zeros keep their sign in the float families, NaN/∞ are option-determined -/
theorem mpb_zero (c : MPBParams) (s : Bool) (e : Int) (n : Option Int) (ex : Bool) (r : Nat) :
    mpbRoundAt c (.fin ⟨s, e, 0⟩) n ex r = .ok ⟨.fin ⟨s, 0, 0⟩, {}⟩ := by
  unfold mpbRoundAt floatSpecial; simp

theorem mpb_nan (c : MPBParams) (s : Bool) (n : Option Int) (ex : Bool) (r : Nat) :
    mpbRoundAt c (.nan s) n ex r =
      if c.o.enableNan then .ok ⟨.nan false, {}⟩
      else match c.o.nanValue with | none => .error .valueError | some v => .ok ⟨v, {}⟩ := by
  unfold mpbRoundAt floatSpecial; rfl

theorem mpb_inf (c : MPBParams) (s : Bool) (n : Option Int) (ex : Bool) (r : Nat) :
    mpbRoundAt c (.inf s) n ex r =
      if c.o.enableInf then .ok ⟨.inf s, {}⟩
      else match c.o.infValue with | none => .error .valueError | some v => .ok ⟨v.withSign s, {}⟩ := by
  unfold mpbRoundAt floatSpecial; rfl

/-! Non-vacuity: concrete operands meeting the hypotheses, evaluated by the kernel. -/
example : (⟨false, 0, 13⟩ : RF).c ≠ 0 ∧ (⟨false, 0, 13⟩ : RF).exp ≤ (0 : Int) := by decide
example : roundQuot .rne false 13 1 = 6 ∧ roundQuot .rne false 15 1 = 8 ∧ roundQuot .rna false 13 1 = 7 ∧
    roundQuot .rtz false 13 1 = 6 ∧ roundQuot .rtn true 13 1 = 7 := by decide
example : ((⟨false, 0, 13⟩ : RF).round (some 3) none .rne).toOption = some (⟨false, 1, 6⟩, { inexact := true }) := by decide
example : ((⟨false, 0, 15⟩ : RF).round (some 3) none .rne).toOption = some (⟨false, 2, 4⟩, { inexact := true, carry := true }) := by decide

end Fpy.Props.C01
