/-
C15 — An accepted program never reads an unbound name or falls off its end.

Model: `Fpy/Model/Skel/Skel.lean` (skeleton language, oracle-driven run-time semantics `call`),
`Fpy/Model/Skel/Check.lean` (`frontend Mode.real` = `SyntaxCheck.check` + `Reachability.analyze` as the
`@fpy` decorator runs them, statement rule by statement rule as the code is today; `prepass` = the
definition/use analysis the byte-code interpreter runs when an accepted function is first called;
`run` = `prepass` then `call`).  Helper lemmas (the invariant `sound`, `reach_normal`, `real_duB`,
`prepass_ok_of_frontend`, `safe_of_frontend`, and for the history `noZero_agrees`,
`prepassLegacy_iff_strict`): `Fpy/Proof/Check.lean`.

The property, at full strength, for the code as it is (after the repairs of F6 and F21):
  * `accepted_safe` — `frontend Mode.real p = ok → ∀ fuel oracle, run false fuel p oracle ∉
    {unbound _, fellOff}`: the interpreter's pre-pass succeeds and no execution — whatever the branch
    outcomes and trip counts, zero-trip loops and untaken one-armed `if`s included — reads an unbound
    name or reaches the end of the body without a `return`;
  * `accepted_prepass_ok`, `accepted_safe_exec` — its two halves;
  * `rejects_leak_*`, `rejects_leaks` — names introduced only inside a one-armed `if`, one branch, a
    `while` or `for` body, a comprehension, and loop targets are rejected when used afterwards, as the
    language guide states.
History (why the repairs were needed; `Mode.legacy`, `prepassLegacy`, `runLegacy` = the code before):
  * `legacy_accepted_safe_counterexample` (F6) — `def f(xs): for x in xs: pass; return x` was accepted
    and reads `x` unbound when the loop runs zero times; through the interpreter it failed on every
    input (`legacy_counterexample_every_input`); `legacy_for_target_leaks`;
  * `legacy_counterexample_return_branch` (F21) — `def f(a): if a: return a else: y = 1; return y` was
    (and is) accepted and its executions are fine, but the old pre-pass failed on every input;
  * `legacy_accepted_safe_partial`, `noZero_only_removes_runs`, `legacy_run_safe_iff_strict` — what did
    hold, and the exact extent of the two defects.
-/
import Fpy.Proof.Check
namespace Fpy.Props.C15
open Fpy.Skel

/-! ### the property -/

/-- the interpreter's definition/use pre-pass never fails on an accepted program -/
theorem accepted_prepass_ok (p : Func) (h : frontend Mode.real p = .ok ()) : prepass p = .ok () :=
  prepass_ok_of_frontend h

/-- no execution of an accepted program reads an unbound name or falls off the end: every oracle
(branch outcomes, trip counts — zero included), every fuel -/
theorem accepted_safe_exec (p : Func) (h : frontend Mode.real p = .ok ()) (fuel : Nat) (ch : List Nat) :
    (call false fuel p ch).bad = false :=
  safe_of_frontend Mode.real false (Or.inl rfl) p h fuel ch

/-- **accepted_safe** (full strength, whole pipeline): calling an accepted function — pre-pass, then
execution under any oracle — neither fails on an unbound variable nor falls off the end. -/
theorem accepted_safe (p : Func) (h : frontend Mode.real p = .ok ()) (fuel : Nat) (ch : List Nat) :
    (run false fuel p ch).bad = false := by
  simp only [run, runWith]
  have hp : prepassWith true p = .ok () := accepted_prepass_ok p h
  rw [hp]
  exact accepted_safe_exec p h fuel ch

/-! ### leaks are rejected -/

/-- a use of a name that is not marked defined-on-all-paths is rejected, whatever follows -/
theorem use_rejected (m : Mode) (env : Env) (x : Name) (rest : Block) (h : env.get x ≠ some true) :
    ∀ env', checkB m env (.cons (.ret (.var x)) rest) ≠ .ok env' := by
  intro env' hc
  obtain ⟨env1, h1, _⟩ := checkB_cons hc
  have := useName_ok (by simpa [checkE] using checkS_ret h1)
  exact h this

/-- names introduced only inside a one-armed `if` are not defined after it -/
theorem rejects_leak_if1 (m : Mode) (env env' : Env) (c : Expr) (t : Block) (x : Name)
    (hl : env.term = false) (hx : env.get x ≠ some true)
    (h : checkS m env (.if1 c t) = .ok env') : env'.get x ≠ some true := by
  obtain ⟨_, ift, _, rfl⟩ := checkS_if1 h
  exact fun h' => hx (Env.merge_left hl h')

/-- names introduced only inside a `while` body are not defined after the loop -/
theorem rejects_leak_while (m : Mode) (env env' : Env) (c : Expr) (b : Block) (x : Name)
    (hl : env.term = false) (hx : env.get x ≠ some true)
    (h : checkS m env (.while c b) = .ok env') : env'.get x ≠ some true := by
  obtain ⟨body, _, _, rfl⟩ := checkS_while h
  exact fun h' => hx (Env.merge_left hl h')

/-- names introduced by a `for` loop — in its body OR as its target — are not defined after it -/
theorem rejects_leak_for (env env' : Env) (ts : List Name) (it : Expr) (b : Block) (x : Name)
    (hl : env.term = false) (hx : env.get x ≠ some true)
    (h : checkS Mode.real env (.for ts it b) = .ok env') : env'.get x ≠ some true := by
  obtain ⟨_, body, _, rfl⟩ := checkS_for h
  exact fun h' => hx (Env.merge_left hl h')

/-- in particular a loop target is not defined after its loop -/
theorem rejects_leak_for_target (env env' : Env) (x : Name) (it : Expr) (b : Block)
    (hl : env.term = false) (hx : env.get x ≠ some true)
    (h : checkS Mode.real env (.for [x] it b) = .ok env') : env'.get x ≠ some true :=
  rejects_leak_for env env' [x] it b x hl hx h

/-- a name introduced in only one branch of an `if`/`else` whose other branch continues is not
defined afterwards -/
theorem rejects_leak_one_branch (m : Mode) (env env' ift iff : Env) (c : Expr) (t e : Block) (x : Name)
    (ht : checkB m env t = .ok ift) (he : checkB m env e = .ok iff)
    (h : checkS m env (.ite c t e) = .ok env')
    (hx : (ift.term = false ∧ ift.get x ≠ some true) ∨ (iff.term = false ∧ iff.get x ≠ some true)) :
    env'.get x ≠ some true := by
  obtain ⟨_, ift', iff', h2, h3, rfl⟩ := checkS_ite h
  rw [ht] at h2; rw [he] at h3
  cases h2; cases h3
  rcases hx with ⟨hl, hx⟩ | ⟨hl, hx⟩
  · exact fun h' => hx (Env.merge_left hl h')
  · exact fun h' => hx (Env.merge_right hl h')

/-- comprehension targets are local: an assignment whose source is a comprehension defines only its
own targets -/
theorem rejects_leak_comprehension (m : Mode) (env env' : Env) (ts cts : List Name) (it body : Expr) (x : Name)
    (hx : env.get x ≠ some true) (hts : x ∉ ts)
    (h : checkS m env (.assign ts (.comp cts it body)) = .ok env') : env'.get x ≠ some true := by
  obtain ⟨_, rfl⟩ := checkS_assign h
  rw [Env.extendAll_get_none _ _ _ hts]
  exact hx

/-- the headline corollaries: `if c: x = …` / `for x in …: …` followed by a use of `x` is rejected -/
theorem rejects_leaks (m : Mode) (env : Env) (c : Expr) (t rest : Block) (x : Name)
    (hl : env.term = false) (hx : env.get x ≠ some true) :
    ∀ env', checkB m env (.cons (.if1 c t) (.cons (.ret (.var x)) rest)) ≠ .ok env' := by
  intro env' hc
  obtain ⟨env1, h1, h2⟩ := checkB_cons hc
  exact use_rejected m env1 x rest (rejects_leak_if1 m env env1 c t x hl hx h1) env' h2

theorem rejects_leaks_for_target (env : Env) (it : Expr) (b rest : Block) (x : Name)
    (hl : env.term = false) (hx : env.get x ≠ some true) :
    ∀ env', checkB Mode.real env (.cons (.for [x] it b) (.cons (.ret (.var x)) rest)) ≠ .ok env' := by
  intro env' hc
  obtain ⟨env1, h1, h2⟩ := checkB_cons hc
  exact use_rejected Mode.real env1 x rest (rejects_leak_for_target env env1 x it b hl hx h1) env' h2

/-! ### history: the code before the repairs of F6 and F21 -/

/-- `def f(xs): for x in xs: pass; return x`   (`xs = 0`, `x = 1`) -/
def pLoopTarget : Func :=
  ⟨[0], .cons (.for [1] (.var 0) (.cons .pass .nil)) (.cons (.ret (.var 1)) .nil)⟩

/-- `def f(a): if a: return a else: y = 1; return y`   (`a = 0`, `y = 1`) -/
def pReturnBranch : Func :=
  ⟨[0], .cons (.ite (.var 0) (.cons (.ret (.var 0)) .nil) (.cons (.assign [1] .lit) .nil))
          (.cons (.ret (.var 1)) .nil)⟩

theorem pLoopTarget_legacy_accepted : frontend Mode.legacy pLoopTarget = .ok () := by rfl
theorem pLoopTarget_zero_trip : call false 5 pLoopTarget [0] = .unbound 1 := by decide
theorem pLoopTarget_one_trip : call false 9 pLoopTarget [1] = .returned := by decide
theorem pLoopTarget_legacy_prepass : prepassLegacy pLoopTarget = .error 1 := by rfl
/-- today it is rejected -/
theorem pLoopTarget_rejected : frontend Mode.real pLoopTarget = .error (.notAllPaths 1) := by rfl

theorem pReturnBranch_legacy_accepted : frontend Mode.legacy pReturnBranch = .ok () := by rfl
theorem pReturnBranch_legacy_prepass : prepassLegacy pReturnBranch = .error 1 := by rfl
theorem pReturnBranch_strict_rejects : frontend Mode.strict pReturnBranch = .error (.notAllPaths 1) := by rfl
/-- today it is accepted, passes the pre-pass and runs -/
theorem pReturnBranch_accepted : frontend Mode.real pReturnBranch = .ok () := by rfl
theorem pReturnBranch_prepass : prepass pReturnBranch = .ok () := by rfl
theorem pReturnBranch_runs : run false 9 pReturnBranch [1] = .returned ∧ run false 9 pReturnBranch [0] = .returned := by
  decide

/-- **F6**: the full-strength statement was false before the repair (run-time semantics alone): the
accepted `pLoopTarget` reads its loop target unbound when the loop runs zero times. -/
theorem legacy_accepted_safe_counterexample :
    ¬ ∀ (p : Func), frontend Mode.legacy p = .ok () → ∀ fuel ch, (call false fuel p ch).bad = false := by
  intro h
  have := h pLoopTarget pLoopTarget_legacy_accepted 5 [0]
  rw [pLoopTarget_zero_trip] at this
  cases this

/-- … and through the interpreter it failed on EVERY input: the pre-pass raised `KeyError: x`. -/
theorem legacy_counterexample_every_input (z : Bool) (fuel : Nat) (ch : List Nat) :
    runLegacy z fuel pLoopTarget ch = .unbound 1 := by
  have h : prepassWith false pLoopTarget = .error 1 := pLoopTarget_legacy_prepass
  simp [runLegacy, runWith, h]

/-- **F21**: `pReturnBranch` was accepted, each of its executions is fine, yet calling it failed on
every input in the interpreter's definition/use pre-pass. -/
theorem legacy_counterexample_return_branch :
    frontend Mode.legacy pReturnBranch = .ok () ∧
    (∀ z fuel ch, runLegacy z fuel pReturnBranch ch = .unbound 1) ∧
    (∀ fuel ch, (call false fuel pReturnBranch ch).bad = false) := by
  refine ⟨pReturnBranch_legacy_accepted, fun z fuel ch => ?_, accepted_safe_exec _ pReturnBranch_accepted⟩
  have h : prepassWith false pReturnBranch = .error 1 := pReturnBranch_legacy_prepass
  simp [runLegacy, runWith, h]

/-- as the code was, a loop target WAS defined after the loop (contrary to the language guide) -/
theorem legacy_for_target_leaks (env : Env) (x : Name) (it : Expr) (hl : env.term = false)
    (hit : checkE env it = .ok ()) :
    ∃ env', checkS Mode.legacy env (.for [x] it (.cons .pass .nil)) = .ok env' ∧ env'.get x = some true := by
  refine ⟨(env.extendAll [x]).merge (env.extendAll [x]), ?_, ?_⟩
  · simp only [checkS, checkB, hit]; rfl
  · refine Env.merge_both (by simp [hl]) (by simp [hl]) ?_ ?_ <;>
      (rw [Env.extendAll_get]; exact Or.inl (List.mem_singleton.2 rfl))

/-- what the old front end did guarantee: on every run on which no `for` loop with a named target
runs zero times (`z = true`: such runs end in `.excluded`), no unbound read and no fall-through -/
theorem legacy_accepted_safe_partial (p : Func) (h : frontend Mode.legacy p = .ok ()) (fuel : Nat) (ch : List Nat) :
    (call true fuel p ch).bad = false :=
  safe_of_frontend Mode.legacy true (Or.inr rfl) p h fuel ch

/-- the restriction only removes runs: a restricted run that is not `.excluded` is the unrestricted run -/
theorem noZero_only_removes_runs (p : Func) (fuel : Nat) (ch : List Nat)
    (h : call true fuel p ch ≠ .excluded) : call false fuel p ch = call true fuel p ch := by
  unfold call at h ⊢
  have := (noZero_agrees fuel).2.1 p.args p.body ch
  cases hr : execB true fuel p.args p.body ch with
  | excluded => rw [hr] at h; exact absurd rfl h
  | normal σ' ch' => rw [this (by rw [hr]; simp), hr]
  | returned => rw [this (by rw [hr]; simp), hr]
  | unbound x => rw [this (by rw [hr]; simp), hr]
  | timeout => rw [this (by rw [hr]; simp), hr]

/-- exact extent of the two defects: a program accepted by the old front end ran (old pre-pass +
execution) without the forbidden failures on every input iff the strict discipline accepts it;
otherwise it failed with an unbound-variable error on every input -/
theorem legacy_run_safe_iff_strict (p : Func) (h : frontend Mode.legacy p = .ok ()) :
    (∀ fuel ch, (runLegacy false fuel p ch).bad = false) ↔ frontend Mode.strict p = .ok () := by
  constructor
  · intro hsafe
    have hr : reachCheck p = .ok () := by
      unfold frontend at h
      obtain ⟨_, _, h2⟩ := bind_ok h
      exact h2
    rw [frontend_strict_iff]
    refine ⟨?_, hr⟩
    cases hp : prepassLegacy p with
    | ok u => cases u; rfl
    | error x =>
      have hp' : prepassWith false p = .error x := hp
      have := hsafe 0 []
      simp [runLegacy, runWith, hp', Final.bad] at this
  · intro hs fuel ch
    have hp : prepassWith false p = .ok () := ((frontend_strict_iff p).1 hs).1
    simp only [runLegacy, runWith, hp]
    exact safe_of_frontend Mode.strict false (Or.inl rfl) p hs fuel ch

/-! ### non-vacuity -/

/-- `def f(a, xs): s = a; for x in xs: (if a: s = x); while s: s = a; return s` -/
def pOk : Func :=
  ⟨[0, 1],
    .cons (.assign [2] (.var 0))
    (.cons (.for [3] (.var 1) (.cons (.if1 (.var 0) (.cons (.assign [2] (.var 3)) .nil)) .nil))
    (.cons (.while (.var 2) (.cons (.assign [2] (.var 0)) .nil))
    (.cons (.ret (.var 2)) .nil)))⟩

example : frontend Mode.real pOk = .ok () := by rfl
example : prepass pOk = .ok () := by rfl
example : run false 30 pOk [2, 1, 0, 1, 0] = .returned := by decide
example : run false 30 pOk [0, 0] = .returned := by decide
/-- an accepted program with a returning branch that lends a name to what follows -/
example : frontend Mode.real pReturnBranch = .ok () ∧ run false 9 pReturnBranch [0] = .returned := by
  constructor
  · rfl
  · decide
/-- the leak hypotheses are satisfiable: `if a: y = 1` then `return y` in the initial environment -/
example : ∀ env', checkB Mode.real (Env.init [0]) (.cons (.if1 (.var 0) (.cons (.assign [1] .lit) .nil))
    (.cons (.ret (.var 1)) .nil)) ≠ .ok env' :=
  rejects_leaks Mode.real (Env.init [0]) _ _ _ 1 rfl (by decide)
/-- … and the loop-target one: `for x in xs: pass` then `return x` -/
example : ∀ env', checkB Mode.real (Env.init [0]) (.cons (.for [1] (.var 0) (.cons .pass .nil))
    (.cons (.ret (.var 1)) .nil)) ≠ .ok env' :=
  rejects_leaks_for_target (Env.init [0]) _ _ _ 1 rfl (by decide)

end Fpy.Props.C15
