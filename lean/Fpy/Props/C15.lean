/-
C15 — An accepted program never reads an unbound name or falls off its end.

Model: `Fpy/Model/Lang/Skel.lean` (skeleton language, oracle-driven run-time semantics `call`),
`Fpy/Model/Lang/Check.lean` (`frontend` = `SyntaxCheck.check` + `Reachability.analyze` as the `@fpy`
decorator runs them, statement rule by statement rule as the code is today = `Mode.real`; `prepass` =
the definition/use analysis the byte-code interpreter runs when an accepted function is first called;
`run` = `prepass` then `call`).  Helper lemmas (the invariant `sound`, `reach_normal`, `noZero_agrees`,
`prepass_iff_strict`, `safe_of_frontend`): `Fpy/Proof/Check.lean`.

Full-strength statement (`accepted_safe`): `frontend Mode.real p = ok → ∀ fuel oracle, call/run … ∉
{unbound _, fellOff}`.  It is FALSE for the code as it is, in two ways, both proved below at concrete
witnesses:
  * `accepted_safe_counterexample` — `def f(xs): for x in xs: pass; return x` is accepted; the loop target
    is read after a loop that ran zero times (`_visit_for` merges with the environment in which the
    target is already bound).  On the real interpreter the definition/use pre-pass already fails on
    every input (`KeyError: x`).
  * `accepted_safe_counterexample_return_branch` — `def f(a): if a: return a else: y = 1; return y` is
    accepted (a terminated branch is absorbed by `_Env.merge`); its executions are fine, but the
    interpreter's pre-pass knows nothing about terminated paths and fails on every input (`KeyError: y`).
What is proved instead:
  * `accepted_safe_partial`      — real front end, run-time semantics, every run on which no `for` loop
    with a named target runs zero times (`partial_covers_nonzero_runs` says these are genuine runs);
  * `accepted_safe_fixed`        — full strength (every oracle) for the front end with `_visit_for` repaired;
  * `accepted_safe_run_partial`  — the whole pipeline (pre-pass + execution) for accepted programs that
    the strict discipline also accepts, and `run_safe_iff_strict` — this is exact: an accepted program
    runs without the forbidden failures iff the strict discipline accepts it;
  * no-fall-through holds at full strength (it is part of each of the above);
  * `rejects_leak_*`             — names introduced only inside a one-armed `if`, one branch, a `while`
    or `for` body, or a comprehension are rejected when used afterwards; loop targets are NOT
    (`for_target_leaks`), contrary to the language guide.
-/
import Fpy.Proof.Check
namespace Fpy.Props.C15
open Fpy.Skel

/-! ### the witnesses -/

/-- `def f(xs): for x in xs: pass; return x`   (`xs = 0`, `x = 1`) -/
def pLoopTarget : Func :=
  ⟨[0], .cons (.for [1] (.var 0) (.cons .pass .nil)) (.cons (.ret (.var 1)) .nil)⟩

/-- `def f(a): if a: return a else: y = 1; return y`   (`a = 0`, `y = 1`) -/
def pReturnBranch : Func :=
  ⟨[0], .cons (.ite (.var 0) (.cons (.ret (.var 0)) .nil) (.cons (.assign [1] .lit) .nil))
          (.cons (.ret (.var 1)) .nil)⟩

theorem pLoopTarget_accepted : frontend Mode.real pLoopTarget = .ok () := by rfl
theorem pLoopTarget_zero_trip : call false 5 pLoopTarget [0] = .unbound 1 := by decide
theorem pLoopTarget_one_trip : call false 9 pLoopTarget [1] = .returned := by decide
theorem pLoopTarget_prepass : prepass pLoopTarget = .error 1 := by rfl
theorem pLoopTarget_fixed_rejects : frontend Mode.fixFor pLoopTarget = .error (.notAllPaths 1) := by rfl

theorem pReturnBranch_accepted : frontend Mode.real pReturnBranch = .ok () := by rfl
theorem pReturnBranch_fixFor_accepted : frontend Mode.fixFor pReturnBranch = .ok () := by rfl
theorem pReturnBranch_prepass : prepass pReturnBranch = .error 1 := by rfl
theorem pReturnBranch_strict_rejects : frontend Mode.strict pReturnBranch = .error (.notAllPaths 1) := by rfl

/-- **The full-strength statement is false for the code as it is** (run-time semantics alone):
the accepted `pLoopTarget` reads its loop target unbound when the loop runs zero times. -/
theorem accepted_safe_counterexample :
    ¬ ∀ (p : Func), frontend Mode.real p = .ok () → ∀ fuel ch, (call false fuel p ch).bad = false := by
  intro h
  have := h pLoopTarget pLoopTarget_accepted 5 [0]
  rw [pLoopTarget_zero_trip] at this
  cases this

/-- … and through the real interpreter it fails on EVERY input: the pre-pass raises `KeyError: x`. -/
theorem accepted_safe_counterexample_every_input (z : Bool) (fuel : Nat) (ch : List Nat) :
    run z fuel pLoopTarget ch = .unbound 1 := by
  simp [run, pLoopTarget_prepass]

/-- **Second counterexample** (whole pipeline): `pReturnBranch` is accepted, each of its executions is
fine, yet calling it fails on every input in the interpreter's definition/use pre-pass. -/
theorem accepted_safe_counterexample_return_branch :
    frontend Mode.real pReturnBranch = .ok () ∧
    (∀ z fuel ch, run z fuel pReturnBranch ch = .unbound 1) ∧
    (∀ fuel ch, (call false fuel pReturnBranch ch).bad = false) :=
  ⟨pReturnBranch_accepted, fun z fuel ch => by simp [run, pReturnBranch_prepass],
   safe_of_frontend Mode.fixFor false (Or.inl rfl) _ pReturnBranch_fixFor_accepted⟩

/-! ### what holds -/

/-- **accepted_safe, partial**: for the front end AS IT IS, on every run on which no `for` loop with a
named target runs zero times (`z = true`: such runs end in `.excluded`), an accepted program neither
reads an unbound name nor falls off its end.  Missing for full strength: exactly the excluded runs
(`accepted_safe_counterexample`). -/
theorem accepted_safe_partial (p : Func) (h : frontend Mode.real p = .ok ()) (fuel : Nat) (ch : List Nat) :
    (call true fuel p ch).bad = false :=
  safe_of_frontend Mode.real true (Or.inr rfl) p h fuel ch

/-- the restriction only removes runs: a restricted run that is not `.excluded` is the unrestricted run -/
theorem partial_covers_nonzero_runs (p : Func) (fuel : Nat) (ch : List Nat)
    (h : call true fuel p ch ≠ .excluded) : call false fuel p ch = call true fuel p ch := by
  unfold call at h ⊢
  have := (noZero_agrees fuel).2.1 p.args p.body ch
  cases hr : execB true fuel p.args p.body ch with
  | excluded => rw [hr] at h; exact absurd rfl h
  | normal σ' ch' => rw [this (by rw [hr]; simp), hr]
  | returned => rw [this (by rw [hr]; simp), hr]
  | unbound x => rw [this (by rw [hr]; simp), hr]
  | timeout => rw [this (by rw [hr]; simp), hr]

/-- **accepted_safe for the repaired `_visit_for`** (merge the body environment with the PRE-loop
environment), full strength: every oracle, zero-trip loops and untaken one-armed `if`s included. -/
theorem accepted_safe_fixed (p : Func) (h : frontend Mode.fixFor p = .ok ()) (fuel : Nat) (ch : List Nat) :
    (call false fuel p ch).bad = false :=
  safe_of_frontend Mode.fixFor false (Or.inl rfl) p h fuel ch

/-- **accepted_safe for the whole pipeline, partial**: an accepted program that the strict discipline
(loop targets do not outlive the loop; a returning branch lends nothing to its sibling) also accepts
passes the interpreter's pre-pass and then neither reads an unbound name nor falls off its end, on
every input.  Missing for full strength: accepted programs the strict discipline rejects — and there
the property does fail (`run_safe_iff_strict`). -/
theorem accepted_safe_run_partial (p : Func) (_h : frontend Mode.real p = .ok ())
    (hs : frontend Mode.strict p = .ok ()) (fuel : Nat) (ch : List Nat) : (run false fuel p ch).bad = false := by
  have hp := ((frontend_strict_iff p).1 hs).1
  simp only [run, hp]
  exact safe_of_frontend Mode.strict false (Or.inl rfl) p hs fuel ch

/-- **Exact extent of the defect**: an accepted program runs (pre-pass + execution) without the
forbidden failures on every input iff the strict discipline accepts it; otherwise it fails with an
unbound-variable error on EVERY input. -/
theorem run_safe_iff_strict (p : Func) (h : frontend Mode.real p = .ok ()) :
    (∀ fuel ch, (run false fuel p ch).bad = false) ↔ frontend Mode.strict p = .ok () := by
  constructor
  · intro hsafe
    have hr : reachCheck p = .ok () := by
      unfold frontend at h
      obtain ⟨_, _, h2⟩ := bind_ok h
      exact h2
    rw [frontend_strict_iff]
    refine ⟨?_, hr⟩
    cases hp : prepass p with
    | ok u => cases u; rfl
    | error x =>
      have := hsafe 0 []
      simp [run, hp, Final.bad] at this
  · intro hs fuel ch
    exact accepted_safe_run_partial p h hs fuel ch

theorem run_unsafe_every_input (p : Func) (x : Name) (hp : prepass p = .error x)
    (z : Bool) (fuel : Nat) (ch : List Nat) : run z fuel p ch = .unbound x := by
  simp [run, hp]

/-! ### leaks that are rejected (as the code behaves) -/

/-- a use of a name that is not marked defined-on-all-paths is rejected, whatever follows -/
theorem use_rejected (m : Mode) (env : Env) (x : Name) (rest : Block) (h : env.get x ≠ some true) :
    ∀ env', checkB m env (.cons (.ret (.var x)) rest) ≠ .ok env' := by
  intro env' hc
  obtain ⟨env1, h1, _⟩ := checkB_cons hc
  have := useName_ok (by simpa [checkE] using checkS_ret h1)
  exact h this

/-- names introduced only inside a one-armed `if` are not defined after it -/
theorem rejects_leak_if1 (m : Mode) (env env' : Env) (c : Expr) (t : Block) (x : Name)
    (hl : env.term = false) (hx : env.get x ≠ some true)
    (h : checkS m env (.if1 c t) = .ok env') : env'.get x ≠ some true := by
  obtain ⟨_, ift, _, rfl⟩ := checkS_if1 h
  exact fun h' => hx (Env.merge_left hl h')

/-- names introduced only inside a `while` body are not defined after the loop -/
theorem rejects_leak_while (m : Mode) (env env' : Env) (c : Expr) (b : Block) (x : Name)
    (hl : env.term = false) (hx : env.get x ≠ some true)
    (h : checkS m env (.while c b) = .ok env') : env'.get x ≠ some true := by
  obtain ⟨body, _, _, rfl⟩ := checkS_while h
  exact fun h' => hx (Env.merge_left hl h')

/-- names introduced only inside a `for` body (not the loop targets) are not defined after the loop -/
theorem rejects_leak_for_body (m : Mode) (env env' : Env) (ts : List Name) (it : Expr) (b : Block) (x : Name)
    (hl : env.term = false) (hx : env.get x ≠ some true) (hts : x ∉ ts)
    (h : checkS m env (.for ts it b) = .ok env') : env'.get x ≠ some true := by
  obtain ⟨_, body, _, rfl⟩ := checkS_for h
  intro h'
  cases hfl : m.forLeak with
  | false =>
    simp only [hfl, Bool.false_eq_true, if_false] at h'
    exact hx (Env.merge_left hl h')
  | true =>
    simp only [hfl, if_true] at h'
    have := Env.merge_left (a := env.extendAll ts) (by simp [hl]) h'
    rw [Env.extendAll_get] at this
    rcases this with h1 | h1
    · exact hts h1
    · exact hx h1

/-- with `_visit_for` repaired, loop targets are not defined after the loop either -/
theorem rejects_leak_for_target_fixed (env env' : Env) (ts : List Name) (it : Expr) (b : Block) (x : Name)
    (hl : env.term = false) (hx : env.get x ≠ some true)
    (h : checkS Mode.fixFor env (.for ts it b) = .ok env') : env'.get x ≠ some true := by
  obtain ⟨_, body, _, rfl⟩ := checkS_for h
  exact fun h' => hx (Env.merge_left hl h')

/-- **as the code is, a loop target IS defined after the loop** (contrary to the language guide):
for any live environment in which the iterable checks, `for x in it: pass` marks `x` defined -/
theorem for_target_leaks (env : Env) (x : Name) (it : Expr) (hl : env.term = false)
    (hit : checkE env it = .ok ()) :
    ∃ env', checkS Mode.real env (.for [x] it (.cons .pass .nil)) = .ok env' ∧ env'.get x = some true := by
  refine ⟨(env.extendAll [x]).merge (env.extendAll [x]), ?_, ?_⟩
  · simp only [checkS, checkB, hit]; rfl
  · refine Env.merge_both (by simp [hl]) (by simp [hl]) ?_ ?_ <;>
      (rw [Env.extendAll_get]; exact Or.inl (List.mem_singleton.2 rfl))

/-- a name introduced in only one branch of an `if`/`else` whose other branch continues is not
defined afterwards -/
theorem rejects_leak_one_branch (m : Mode) (env env' ift iff : Env) (c : Expr) (t e : Block) (x : Name)
    (ht : checkB m env t = .ok ift) (he : checkB m env e = .ok iff)
    (h : checkS m env (.ite c t e) = .ok env')
    (hx : (ift.term = false ∧ ift.get x ≠ some true) ∨ (iff.term = false ∧ iff.get x ≠ some true)) :
    env'.get x ≠ some true := by
  obtain ⟨_, ift', iff', h2, h3, rfl⟩ := checkS_ite h
  rw [ht] at h2; rw [he] at h3
  cases h2; cases h3
  rcases hx with ⟨hl, hx⟩ | ⟨hl, hx⟩
  · exact fun h' => hx (Env.merge_left hl h')
  · exact fun h' => hx (Env.merge_right hl h')

/-- comprehension targets are local: an assignment whose source is a comprehension defines only its
own targets -/
theorem rejects_leak_comprehension (m : Mode) (env env' : Env) (ts cts : List Name) (it body : Expr) (x : Name)
    (hx : env.get x ≠ some true) (hts : x ∉ ts)
    (h : checkS m env (.assign ts (.comp cts it body)) = .ok env') : env'.get x ≠ some true := by
  obtain ⟨_, rfl⟩ := checkS_assign h
  rw [Env.extendAll_get_none _ _ _ hts]
  exact hx

/-- the headline corollary: `if c: x = …` followed by a use of `x` is rejected -/
theorem rejects_leaks (m : Mode) (env : Env) (c : Expr) (t rest : Block) (x : Name)
    (hl : env.term = false) (hx : env.get x ≠ some true) :
    ∀ env', checkB m env (.cons (.if1 c t) (.cons (.ret (.var x)) rest)) ≠ .ok env' := by
  intro env' hc
  obtain ⟨env1, h1, h2⟩ := checkB_cons hc
  exact use_rejected m env1 x rest (rejects_leak_if1 m env env1 c t x hl hx h1) env' h2

/-! ### non-vacuity -/

/-- `def f(a, xs): s = a; for x in xs: (if a: s = x); while s: s = a; return s` -/
def pOk : Func :=
  ⟨[0, 1],
    .cons (.assign [2] (.var 0))
    (.cons (.for [3] (.var 1) (.cons (.if1 (.var 0) (.cons (.assign [2] (.var 3)) .nil)) .nil))
    (.cons (.while (.var 2) (.cons (.assign [2] (.var 0)) .nil))
    (.cons (.ret (.var 2)) .nil)))⟩

example : frontend Mode.real pOk = .ok () := by rfl
example : frontend Mode.strict pOk = .ok () := by rfl
example : call false 30 pOk [2, 1, 0, 1, 0] = .returned := by decide
example : call true 30 pOk [2, 1, 0, 1, 0] = .returned := by decide
example : call false 30 pOk [0, 0] = .returned := by decide
example : call true 30 pOk [0, 0] = .excluded := by decide
example : run false 30 pOk [0, 0] = .returned := by decide
/-- the leak hypotheses are satisfiable: `if a: y = 1` then `return y` in the initial environment -/
example : ∀ env', checkB Mode.real (Env.init [0]) (.cons (.if1 (.var 0) (.cons (.assign [1] .lit) .nil))
    (.cons (.ret (.var 1)) .nil)) ≠ .ok env' :=
  rejects_leaks Mode.real (Env.init [0]) _ _ _ 1 rfl (by decide)

end Fpy.Props.C15
